import Pixman.Model.Trap
import Pixman.Spec.SampleGrid
import Pixman.Gen.ZeroSrc
import Pixman.Lemmas.Trap
import Pixman.Lemmas.TrapRow
import Pixman.Lemmas.TrapFill
import Pixman.Lemmas.TrapRows
import Pixman.Lemmas.TrapShape
import Pixman.Lemmas.TrapTri
import Pixman.Lemmas.TrapSetup
import Pixman.Lemmas.TrapWords
import Pixman.Lemmas.TrapWordsImg
import Pixman.Gen.EdgeWords
import Pixman.Spec.ZeroSrc
/-! C12 — trapezoid coverage is an exact sample count: property theorems.

  Everything is stated against the regenerated grid constants `Pixman.Gen.SampleGrid` for the three
  depths the rasteriser supports (`Depth n`).  Int32 ranges are explicit hypotheses. -/
namespace Pixman.Props.C12
open Pixman.Trap
open Pixman.Gen.SampleGrid
open Pixman.Spec.SampleGrid
open Pixman.Lemmas.Trap

/-- the depths the rasteriser supports: `n = 1 ∨ n = 4 ∨ n = 8` -/
abbrev Depth (n : Nat) : Prop := Pixman.Lemmas.TrapRows.Depth n

/-! ## R1 — `pixman_sample_ceil_y` / `pixman_sample_floor_y`

  `sampleCeilY y` is the least grid row `≥ y` (`sampleCeilY_grid`), except within the last partial
  pixel below `INT32_MAX`, where it saturates to `0x7fffffff`, which is not a grid row
  (`sampleCeilY_saturates`).  `sampleFloorY y` is the greatest grid row `< y` (`sampleFloorY_grid`);
  for `y ≤ INT32_MIN + Y_FRAC_FIRST` no grid row below `y` is representable and the result saturates to
  `INT32_MIN`, below every grid row (`sampleFloorY_saturates`; before repair a0ed323 the test compared
  with `0x8000`, was never true, and the result wrapped to pixel row +32767: regression lines of
  checks/C12.py). -/

theorem isGridRow_iff (n : Nat) (hn : Depth n) (y : Int) :
    IsGridRow n y ↔ (yFracFirst n ≤ y % 65536 ∧ y % 65536 ≤ yFracLast n ∧ (y % 65536 - yFracFirst n) % stepYSmall n = 0) :=
  Pixman.Lemmas.TrapRows.isGridRow_iff n hn y

/-- a grid row written with explicit pixel row and sub-row -/
theorem isGridRow_mk (n : Nat) (r k : Int) (hk0 : 0 ≤ k) (hk : k < nYFrac n) :
    IsGridRow n (r * 65536 + yFracFirst n + k * stepYSmall n) :=
  Pixman.Lemmas.TrapSetup.isGridRow_mk n r k hk0 hk

theorem sampleCeilY_grid (n : Nat) (hn : Depth n) (y : Int) (h : y ≤ 2147418112 + yFracLast n) :
    IsGridRow n (sampleCeilY y n) ∧ y ≤ sampleCeilY y n ∧ ∀ g, IsGridRow n g → y ≤ g → sampleCeilY y n ≤ g :=
  Pixman.Lemmas.TrapSetup.sampleCeilY_grid n hn y h

theorem sampleCeilY_saturates (n : Nat) (hn : Depth n) (y : Int) (h : 2147418112 + yFracLast n < y)
    (h2 : y ≤ 2147483647) : sampleCeilY y n = 2147483647 :=
  Pixman.Lemmas.TrapSetup.sampleCeilY_saturates n hn y h h2

theorem sampleFloorY_grid (n : Nat) (hn : Depth n) (y : Int) (h : -2147483648 + yFracFirst n < y) (h2 : y ≤ 2147483647) :
    IsGridRow n (sampleFloorY y n) ∧ sampleFloorY y n < y ∧ ∀ g, IsGridRow n g → g < y → g ≤ sampleFloorY y n :=
  Pixman.Lemmas.TrapSetup.sampleFloorY_grid n hn y h h2

/-- saturation at the bottom of the range: no grid row below `y` is representable; the result is
    `INT32_MIN`, which lies below every grid row -/
theorem sampleFloorY_saturates (n : Nat) (hn : Depth n) (y : Int) (h1 : -2147483648 ≤ y)
    (h : y ≤ -2147483648 + yFracFirst n) :
    sampleFloorY y n = -2147483648 ∧ ∀ g, IsGridRow n g → -2147483648 ≤ g → sampleFloorY y n < g :=
  Pixman.Lemmas.TrapSetup.sampleFloorY_saturates n hn y h1 h

/-- After repair a0ed323 no runaway / out-of-image row is reachable: whenever the row loop is entered
    (`b ≥ t`) for a clamped top `T ≥ 0` and a bottom `B` whose pixel row is inside the image (what
    `pixman_rasterize_trapezoid` / `pixman_add_traps` pass: `B` is either the wrapped bottom with
    `pixman_fixed_to_int (B) < height` or `height·65536 − 1`), both `t` and `b` are grid rows and all
    pixel rows from `t` to `b` are rows of the image; the stepping `y += STEP_Y_SMALL/BIG` visits exactly
    the grid rows, so it reaches `y == b`. -/
theorem sampleRows_in_image (n : Nat) (hn : Depth n) (height T B : Int)
    (hT : 0 ≤ T ∧ T ≤ 2147483647) (hB : -2147483648 ≤ B ∧ B ≤ 2147483647) (hBh : B / 65536 < height)
    (hrun : sampleFloorY B n ≥ sampleCeilY T n) :
    IsGridRow n (sampleCeilY T n) ∧ IsGridRow n (sampleFloorY B n) ∧ 0 ≤ sampleCeilY T n / 65536 ∧
    sampleFloorY B n / 65536 < height :=
  Pixman.Lemmas.TrapSetup.sampleRows_in_image n hn height T B hT hB hBh hrun

example : sampleFloorY (-2147483647) 8 = -2147483648 := by decide
example : sampleCeilY 2147483000 8 = 2147483647 := by decide
example : sampleCeilY 70000 8 = 72090 ∧ sampleFloorY 72090 8 = 67721 := by decide

/-! ## R2 — the edge walker (`pixman_edge_init`, `_pixman_edge_multi_init`, `pixman_edge_step`,
    `RENDER_EDGE_STEP_SMALL/BIG`)

  `EdgeInv e M` (Lemmas/Trap.lean): the state `(e.x, e.e)` represents the abscissa `M / dy` exactly:
  `x·dy + e + dy = M, −dy ≤ e ≤ 0` for a right-leaning or vertical edge, `x·dy − e = M, −dy < e ≤ 0`
  for a left-leaning one.  `SlopeInv e DX n`: `stepx·dy ± dx = DX` and the same for the pre-multiplied
  small/big steps.  No-overflow hypotheses are explicit and are about *results* only (intermediate
  `int` products may wrap: the proofs go through congruences mod 2^32):
  `0 < dy < 2^31`, `|DX| < 2^31`, `y_start − y_top` an `int`, the multi-step increments and the
  represented abscissa fit an `int`.

  What is true of the code, and therefore what is proved (the design's `e.x = ⌈x(y)⌉` is *not* true):
  * `edgeStep_inv`: `pixman_edge_step` preserves the invariant, but when no carry into `x` happens
    it does not write `e->e`, so the fraction `n·dx/dy` accumulated by that step is LOST
    (`stepTarget`).  `pixman_edge_init` calls it once, so every edge carries a constant error
    `lost`, `0 ≤ lost ≤ dy` (i.e. at most one 1/65536 pixel to the left), which depends on where the
    walk starts (`edgeInit_inv`).
  * `stepSmall_inv`, `stepBig_inv`: the incremental steps are exact.
  * `edge_x_of_inv`: `e.x` is the floor of the represented abscissa — except in the state `e = 0` of
    a right-leaning edge (exact lattice hit), where it is one less; the state `e = −dy` represents
    the same abscissa with `x` one more.  Which of the two occurs depends on the history
    (`edge_state_depends_on_history` below: same line, same row, different `x`).
  * `edge_x_near_snapX`: always `snapX − 2 ≤ e.x ≤ snapX + 1`; `edge_x_eq_snapX`: `e.x` is the
    Spec's `snapX` when nothing was lost and the abscissa is not a lattice point (or the edge leans left). -/

theorem edgeStep_inv (e : Edge) (N DX n : Int) (hI : EdgeInv e N)
    (hs : e.stepx * e.dy + e.signdx * e.dx = DX) (hdx0 : 0 ≤ e.dx) (hdx1 : e.dx < e.dy)
    (hfit : -2147483648 ≤ stepTarget e N DX n / e.dy - 1 ∧ stepTarget e N DX n / e.dy ≤ 2147483647) :
    EdgeInv (edgeStep e n) (stepTarget e N DX n) :=
  Pixman.Lemmas.Trap.edgeStep_inv e N DX n hI hs hdx0 hdx1 hfit

theorem multiInit_spec (e : Edge) (DX n : Int) (hdy : 0 < e.dy) (hdy2 : e.dy < 2147483648)
    (hsign : e.signdx = 1 ∨ e.signdx = -1)
    (hs : e.stepx * e.dy + e.signdx * e.dx = DX) (hdx0 : 0 ≤ e.dx) (hn : 0 ≤ n)
    (hfit : -2147483648 ≤ n * e.stepx + e.signdx * (n * e.dx / e.dy) ∧
            n * e.stepx + e.signdx * (n * e.dx / e.dy) ≤ 2147483647) :
    (multiInit e n).1 * e.dy + e.signdx * (multiInit e n).2 = n * DX ∧
    0 ≤ (multiInit e n).2 ∧ (multiInit e n).2 < e.dy :=
  Pixman.Lemmas.Trap.multiInit_spec e DX n hdy hdy2 hsign hs hdx0 hn hfit

theorem edgeInit_inv (n : Nat) (yStart xTop yTop xBot yBot : Int)
    (hdy : 0 < yBot - yTop ∧ yBot - yTop ≤ 2147483647)
    (hdx : -2147483647 ≤ xBot - xTop ∧ xBot - xTop ≤ 2147483647)
    (hn0 : -2147483648 ≤ yStart - yTop ∧ yStart - yTop ≤ 2147483647)
    (hS0 : 0 ≤ stepYSmall n) (hB0 : 0 ≤ stepYBig n)
    (hS : stepYSmall n * (absI (xBot - xTop) / (yBot - yTop)) +
          stepYSmall n * (absI (xBot - xTop) % (yBot - yTop)) / (yBot - yTop) ≤ 2147483647)
    (hB : stepYBig n * (absI (xBot - xTop) / (yBot - yTop)) +
          stepYBig n * (absI (xBot - xTop) % (yBot - yTop)) / (yBot - yTop) ≤ 2147483647)
    (hfit : -2147483648 ≤ (xTop * (yBot - yTop) + (yStart - yTop) * (xBot - xTop)) / (yBot - yTop) - 2 ∧
            (xTop * (yBot - yTop) + (yStart - yTop) * (xBot - xTop)) / (yBot - yTop) ≤ 2147483647) :
    let e := edgeInit n yStart xTop yTop xBot yBot
    ∃ lost : Int, 0 ≤ lost ∧ lost ≤ yBot - yTop ∧
      EdgeInv e (xTop * (yBot - yTop) + (yStart - yTop) * (xBot - xTop) - lost) ∧
      SlopeInv e (xBot - xTop) n ∧
      (lost = 0 ∨ (0 ≤ xBot - xTop ∧ 0 ≤ yStart - yTop ∧ lost = (yStart - yTop) * ((xBot - xTop) % (yBot - yTop))) ∨
        (xBot - xTop < 0 ∧ yStart - yTop < 0 ∧ lost = -((yStart - yTop) * ((-(xBot - xTop)) % (yBot - yTop))))) :=
  Pixman.Lemmas.Trap.edgeInit_inv n yStart xTop yTop xBot yBot hdy hdx hn0 hS0 hB0 hS hB hfit

/-- non-vacuity: the hypotheses hold for an a8 edge from (1.5, 1.07) to (4.6, 6.1) started on the
    grid row 72090 -/
example : ∃ lost : Int, 0 ≤ lost ∧ lost ≤ 400000 - 70000 ∧
    EdgeInv (edgeInit 8 72090 100000 70000 300000 400000)
      (100000 * (400000 - 70000) + (72090 - 70000) * (300000 - 100000) - lost) :=
  let ⟨lost, h0, h1, hI, _⟩ := edgeInit_inv 8 72090 100000 70000 300000 400000 (by decide) (by decide) (by decide)
    (by decide) (by decide) (by decide) (by decide) (by decide)
  ⟨lost, h0, h1, hI⟩

theorem stepSmall_inv (n : Nat) (e : Edge) (N DX : Int) (hI : EdgeInv e N) (hS : SlopeInv e DX n)
    (hfit : -2147483648 ≤ (N + stepYSmall n * DX) / e.dy - 1 ∧ (N + stepYSmall n * DX) / e.dy ≤ 2147483647) :
    EdgeInv (stepSmall e) (N + stepYSmall n * DX) ∧ SlopeInv (stepSmall e) DX n := by
  refine ⟨?_, ?_⟩
  · rw [stepSmall_eq]; exact stepBy_inv e N _ _ _ hI hS.small.1 hS.small.2.1 hS.small.2.2 hfit
  · have h : (stepSmall e).dy = e.dy ∧ (stepSmall e).signdx = e.signdx ∧ (stepSmall e).stepx = e.stepx ∧
        (stepSmall e).dx = e.dx ∧ (stepSmall e).stepxSmall = e.stepxSmall ∧ (stepSmall e).stepxBig = e.stepxBig ∧
        (stepSmall e).dxSmall = e.dxSmall ∧ (stepSmall e).dxBig = e.dxBig := by
      simp only [stepSmall]; split <;> simp
    obtain ⟨b, s, g⟩ := hS
    exact ⟨by rw [h.2.2.1, h.1, h.2.1, h.2.2.2.1]; exact b,
           by rw [h.2.2.2.2.1, h.1, h.2.1, h.2.2.2.2.2.2.1]; exact s,
           by rw [h.2.2.2.2.2.1, h.1, h.2.1, h.2.2.2.2.2.2.2]; exact g⟩

theorem stepBig_inv (n : Nat) (e : Edge) (N DX : Int) (hI : EdgeInv e N) (hS : SlopeInv e DX n)
    (hfit : -2147483648 ≤ (N + stepYBig n * DX) / e.dy - 1 ∧ (N + stepYBig n * DX) / e.dy ≤ 2147483647) :
    EdgeInv (stepBig e) (N + stepYBig n * DX) ∧ SlopeInv (stepBig e) DX n := by
  refine ⟨?_, ?_⟩
  · rw [stepBig_eq]; exact stepBy_inv e N _ _ _ hI hS.big.1 hS.big.2.1 hS.big.2.2 hfit
  · have h : (stepBig e).dy = e.dy ∧ (stepBig e).signdx = e.signdx ∧ (stepBig e).stepx = e.stepx ∧
        (stepBig e).dx = e.dx ∧ (stepBig e).stepxSmall = e.stepxSmall ∧ (stepBig e).stepxBig = e.stepxBig ∧
        (stepBig e).dxSmall = e.dxSmall ∧ (stepBig e).dxBig = e.dxBig := by
      simp only [stepBig]; split <;> simp
    obtain ⟨b, s, g⟩ := hS
    exact ⟨by rw [h.2.2.1, h.1, h.2.1, h.2.2.2.1]; exact b,
           by rw [h.2.2.2.2.1, h.1, h.2.1, h.2.2.2.2.2.2.1]; exact s,
           by rw [h.2.2.2.2.2.1, h.1, h.2.1, h.2.2.2.2.2.2.2]; exact g⟩

theorem edge_x_of_inv (e : Edge) (M : Int) (hI : EdgeInv e M) :
    (e.x = M / e.dy ∧ ¬ (e.signdx = 1 ∧ e.e = 0)) ∨
    (e.signdx = 1 ∧ e.e = 0 ∧ M % e.dy = 0 ∧ e.x = M / e.dy - 1) :=
  Pixman.Lemmas.Trap.edge_x_of_inv e M hI

theorem edge_x_near_snapX (e : Edge) (l : EdgeLine) (y lost : Int) (hdy : 0 < l.yBot - l.yTop)
    (hdyeq : e.dy = l.yBot - l.yTop) (hl0 : 0 ≤ lost) (hl1 : lost ≤ l.yBot - l.yTop)
    (hI : EdgeInv e (l.xTop * (l.yBot - l.yTop) + (y - l.yTop) * (l.xBot - l.xTop) - lost)) :
    l.snapX y - 2 ≤ e.x ∧ e.x ≤ l.snapX y + 1 :=
  Pixman.Lemmas.Trap.edge_x_near_snapX e l y lost hdy hdyeq hl0 hl1 hI

/-- partial w.r.t. the design's R2 (`e.x` = snapped exact abscissa on every row): it needs `lost = 0`
    and no lattice tie; without them the equality is FALSE for the code (see `edge_step_loses_fraction`,
    `edge_state_depends_on_history`) and only `edge_x_near_snapX` holds -/
theorem edge_x_eq_snapX_partial (e : Edge) (l : EdgeLine) (y : Int) (hdy : 0 < l.yBot - l.yTop)
    (hdyeq : e.dy = l.yBot - l.yTop)
    (hI : EdgeInv e (l.xTop * (l.yBot - l.yTop) + (y - l.yTop) * (l.xBot - l.xTop)))
    (hnotie : (l.xTop * (l.yBot - l.yTop) + (y - l.yTop) * (l.xBot - l.xTop)) % (l.yBot - l.yTop) ≠ 0 ∨
              (e.signdx = -1 ∧ l.xBot - l.xTop < 0)) :
    e.x = l.snapX y :=
  Pixman.Lemmas.Trap.edge_x_eq_snapX e l y hdy hdyeq hI hnotie

/-- The walker's state depends on where the walk started (model of the unchanged code; the library
    agrees: correspondence + additivity oracle of checks/C12.py).  a1 edge from `(1, 0.5)` to
    `(1 + 0.5 px, 1.5)`: reaching the row `y = 1.5` by one big step from the top vertex gives `x = 32769`
    (the exact abscissa); initialising the same edge directly at `y = 1.5` gives `x = 32768`.
    A pixel whose sample threshold lies between the two is covered in one walk and not in the other,
    so a trapezoid and its two halves split at `y = 1` differ. -/
theorem edge_state_depends_on_history :
    (stepBig (edgeInit 1 32768 1 32768 32769 98304)).x = 32769 ∧
    (edgeInit 1 98304 1 32768 32769 98304).x = 32768 := by decide

/-- `pixman_edge_step` loses the fraction when no carry happens: a vertical distance of 1000 along an
    edge of slope 1/4369 must advance the error term by 1000; it stays at `−dy`. -/
theorem edge_step_loses_fraction :
    (edgeInit 8 (2185 + 1000) 0 2185 100 (2185 + 436900)).e = -436900 ∧
    stepTarget (edgeInitPre 8 0 2185 100 (2185 + 436900)) 0 100 1000 = 0 := by decide

/-! ## R3 — one sample row of `rasterize_edges_N` adds exactly the Spec count

  For every pixel `i` of the row, the new value is `min (MAX_ALPHA, old + rowCount n lx rx i)` where
  `rowCount` (Spec) counts the sample columns `j` of the pixel with `lx ≤ colPos n i j − δ < rx`.
  The statements include the `lx < 0` clamp and the right-edge clamp (`rx` beyond the last pixel);
  `lx`, `rx` are arbitrary integers (a8/a4) — crossed edges (`rx ≤ lx`) add nothing.
  The a8 span-fill bookkeeping (`row8Fill`/`flushFill` inside `edgesLoop8`: `fill_start/fill_end/fill_size`,
  the "beyond what we saved" branch, the trimming of the saved span, the flush at the end of each
  pixel row, `MEMSET_WRAPPED (0xff)` for `fill_size == N_Y_FRAC`) is proved equal to the naive loop:
  `spanfill_eq_naive` for every sequence of sub-row spans of one pixel row, `edgesLoop8_eq_naive` for
  the whole row loop.  `rasterizeEdges_rows` is the induction over ALL sample rows between two grid
  rows; `walkRows_inv` carries the edge invariant of R2 along the loop; their compositions are
  `rasterizeEdges_walked` (exact-invariant form, lost fraction included) and
  `rasterizeEdges_eq_addShape` (= `Spec.addShape`).  The correspondence still evaluates the span-fill
  loop and the naive loop on every a8 request (flag `f`) and the Spec count on every request. -/

/-- R3 for a8: the row body of `rasterize_edges_8` in its naive form (`row8`); by `spanfill_eq_naive` /
    `edgesLoop8_eq_naive` this is what the span-fill bookkeeping computes -/
theorem row8_spec (row : Array Nat) (width : Nat) (lx rx : Int) (hsize : row.size = width)
    (hw : width ≤ 32767) (i : Nat) (hi : i < width) (hv : row[i]'(by rw [hsize]; exact hi) ≤ 255) :
    (row8 row width lx rx)[i]'(by rw [Pixman.Lemmas.TrapRow.row8_size, hsize]; exact hi) =
      pixelValue 8 (row[i]'(by rw [hsize]; exact hi)) (rowCount 8 lx rx i) :=
  Pixman.Lemmas.TrapRow.row8_spec row width lx rx hsize hw i hi hv

/-- The span-fill loop of `rasterize_edges_8` over the sub-row spans `(l->x, r->x)` of one pixel row,
    followed by the flush, equals the naive per-sub-row accumulation — for EVERY sequence of spans
    (any number, any order, crossed or clipped spans included), any row contents and any width.
    (Saturating addition of non-negative contributions is order independent; `15 · 17 = 255`.) -/
theorem spanfill_eq_naive (row : Array Nat) (width : Int) (spans : List (Int × Int)) :
    (let st := spans.foldl (fun (st : Array Nat × Fill) sp => row8Fill st.1 width sp.1 sp.2 st.2) (row, {})
     flushFill st.1 st.2) =
    spans.foldl (fun row sp => row8 row width sp.1 sp.2) row :=
  Pixman.Lemmas.TrapFill.fillSpans_flush row width spans

/-- non-vacuity: three sub-rows with long spans (the saved span is trimmed on both sides by the second,
    the third lies beyond it); the pending span is really used: before the flush the pixels 12…18
    are not yet written -/
example :
    (let st := [((67000 : Int), (657000 : Int)), (133000, 590000), (723000, 1246000)].foldl
        (fun (st : Array Nat × Fill) sp => row8Fill st.1 20 sp.1 sp.2 st.2) (Array.replicate 20 100, {})
     (st, flushFill st.1 st.2)) =
    ((#[100, 117, 133, 134, 134, 134, 134, 134, 134, 117, 100, 116, 100, 100, 100, 100, 100, 100, 100, 100],
      { start := 12, stop := 19, size := 1 }),
     #[100, 117, 133, 134, 134, 134, 134, 134, 134, 117, 100, 116, 117, 117, 117, 117, 117, 117, 117, 100]) := by
  decide

/-- `rasterize_edges_8` as written (span-fill state carried across the sub-rows of a pixel row, flushed
    at its end) = the naive loop, for all edges, between grid rows `t ≤ b` (what
    `pixman_rasterize_trapezoid` / `pixman_add_traps` pass: `sampleRows_in_image`) -/
theorem edgesLoop8_eq_naive (t b : Int) (l r : Edge) (img : Img) (ht : IsGridRow 8 t) (hb : IsGridRow 8 b)
    (htb : t ≤ b) (ht0 : -2147483648 ≤ t) (hb2 : b ≤ 2147483647) :
    edgesLoop8 b (rowFuel 8 t b) t l r {} img = edgesLoop8Naive b (rowFuel 8 t b) t l r img :=
  Pixman.Lemmas.TrapRows.edgesLoop8_eq_naive t b l r img ht hb htb ht0 hb2

example : IsGridRow 8 2185 ∧ IsGridRow 8 (65536 + 63351) :=
  ⟨⟨0, 0, by decide, by decide⟩, ⟨1, 14, by decide, by decide⟩⟩

theorem row4_spec (row : Array Nat) (width : Nat) (lx rx : Int) (hsize : row.size = width)
    (hw : width ≤ 32767) (i : Nat) (hi : i < width) (hv : row[i]'(by rw [hsize]; exact hi) ≤ 15) :
    (row4 row width lx rx)[i]'(by rw [Pixman.Lemmas.TrapRow.row4_size, hsize]; exact hi) =
      pixelValue 4 (row[i]'(by rw [hsize]; exact hi)) (rowCount 4 lx rx i) :=
  Pixman.Lemmas.TrapRow.row4_spec row width lx rx hsize hw i hi hv

/-- a1; no-overflow hypothesis: `x + X_FRAC_FIRST (1) - e` must fit an `int` (|x| below 32767.5 px) -/
theorem row1_spec (row : Array Nat) (width : Nat) (lx rx : Int) (hsize : row.size = width)
    (hw : width ≤ 32767) (hlx : -2147483648 ≤ lx ∧ lx ≤ 2147450880) (hrx : -2147483648 ≤ rx ∧ rx ≤ 2147450880)
    (i : Nat) (hi : i < width) (hv : row[i]'(by rw [hsize]; exact hi) ≤ 1) :
    (row1 row width lx rx)[i]'(by rw [Pixman.Lemmas.TrapRow.row1_size, hsize]; exact hi) =
      pixelValue 1 (row[i]'(by rw [hsize]; exact hi)) (rowCount 1 lx rx i) :=
  Pixman.Lemmas.TrapRow.row1_spec row width lx rx hsize hw hlx hrx i hi hv

/-- `RENDER_SAMPLES_X (x, 8)` counts the sample columns of the pixel of `x` whose threshold
    `colPos − 2` is left of `x` (this is where the snap offset δ = 2 of the Spec comes from) -/
theorem renderSamplesX8_count (x : Int) :
    (renderSamplesX x 8).toNat = Pixman.Lemmas.TrapRow.leftCount 8 x (x / 65536) := by
  rw [Pixman.Lemmas.TrapRow.leftCount_closed8]
  simp only [renderSamplesX, fixedFrac, xFracFirst, stepXSmall]; omega

/-- non-vacuity of R3: a 4-pixel a8 row, edges at 0.5 px and 2.25 px -/
example : row8 #[0, 250, 0, 7] 4 32768 147456 = #[8, 255, 4, 7] ∧
    (List.range 4).map (fun (i : Nat) => pixelValue 8 (#[0, 250, 0, 7][i]!) (rowCount 8 32768 147456 (i : Int))) =
      [8, 255, 4, 7] := by
  decide

/-! ## R3, all sample rows — `pixman_rasterize_edges` adds the sample count of the whole shape

  `ImgWF n img`: `height` rows of `width ≤ 32767` values `≤ MAX_ALPHA (n)`.  `WalkIs … xl xr`: on every row
  the loop visits (`walkRows`, the same list the driver uses for its flag `t`) the two walked abscissae
  are `xl y`, `xr y`.  `X1Ok`: the a1 row body's `x + X_FRAC_FIRST (1) - e` fits an `int` (vacuous for a4/a8).
  `addSpans` is `Spec.addShape` with arbitrary per-row abscissae (`addShape_eq_addSpans`, by `rfl`).
  `hrows` says that the grid rows of the image inside `[top, bottom)` are exactly those in `[t, b]` —
  what `sampleCeilY_grid` / `sampleFloorY_grid` give for `t = sampleCeilY (max top 0)`,
  `b = sampleFloorY (min bottom (height·65536 − 1))`. -/

open Pixman.Lemmas.TrapShape in
/-- induction over the sample rows: the loop of `rasterize_edges_N` (for a8 the real span-fill loop,
    through `edgesLoop8_eq_naive`) between grid rows `t ≤ b` inside the image adds to every pixel the
    number of grid samples between the walked abscissae of its rows, saturating; nothing else changes -/
theorem rasterizeEdges_rows (n : Nat) (hn : Depth n) (img : Img) (hwf : ImgWF n img) (l r : Edge) (t b : Int)
    (ht : IsGridRow n t) (hb : IsGridRow n b) (htb : t ≤ b) (ht0 : 0 ≤ t) (hbh : b / 65536 < (img.height : Int))
    (hb2 : b ≤ 2147483647) (top bottom : Int) (xl xr : Int → Int)
    (hrows : ∀ g, IsGridRow n g → 0 ≤ g / 65536 → g / 65536 < (img.height : Int) →
      ((top ≤ g ∧ g < bottom) ↔ (t ≤ g ∧ g ≤ b)))
    (hwalk : WalkIs n b (rowFuel n t b) t l r xl xr) (hx1 : X1Ok n t b xl xr) :
    rasterizeEdges n img l r t b = { img with rows := addSpans n img.width img.height img.rows top bottom xl xr } :=
  Pixman.Lemmas.TrapShape.rasterizeEdges_rows n hn img hwf l r t b ht hb htb ht0 hbh hb2 top bottom xl xr hrows hwalk hx1

open Pixman.Lemmas.TrapShape in
theorem addShape_eq_addSpans (n w h : Nat) (img : Array (Array Nat)) (s : Shape) :
    addShape n w h img s = addSpans n w h img s.top s.bottom s.left.snapX s.right.snapX := rfl

open Pixman.Lemmas.TrapShape in
/-- R2 along the row loop (`stepSmall_inv` / `stepBig_inv` iterated): edges that represent the abscissae
    `(Al + y·DXl)/dyl`, `(Ar + y·DXr)/dyr` on the first row represent `(Al + g·DXl)/dyl`, `(Ar + g·DXr)/dyr`
    on every visited row `g`, every visited row is a grid row in `[y, b]`, and an edge of integral slope
    (`Stiff`) keeps its initial error term.  `Al`, `Ar` are arbitrary: they may contain the fraction
    lost by `pixman_edge_step` (`edgeInit_inv`). -/
theorem walkRows_inv (n : Nat) (hn : Depth n) (b : Int) (hb : IsGridRow n b) (hb2 : b ≤ 2147483647)
    (Al DXl Ar DXr dyl dyr sl sr : Int) (fuel : Nat) (y : Int) (l r : Edge) (hy : IsGridRow n y) (hyb : y ≤ b)
    (hy0 : -2147483648 ≤ y)
    (hIl : EdgeInv l (Al + y * DXl)) (hSl : SlopeInv l DXl n) (hdl : l.dy = dyl) (hsl : l.signdx = sl)
    (hIr : EdgeInv r (Ar + y * DXr)) (hSr : SlopeInv r DXr n) (hdr : r.dy = dyr) (hsr : r.signdx = sr)
    (hfit : ∀ g, IsGridRow n g → y ≤ g → g ≤ b → FitAt dyl (Al + g * DXl) ∧ FitAt dyr (Ar + g * DXr)) :
    ∀ p ∈ walkRows n b fuel y l r, IsGridRow n p.1 ∧ y ≤ p.1 ∧ p.1 ≤ b ∧
      ∃ el er : Edge, el.x = p.2.1 ∧ er.x = p.2.2 ∧
        EdgeInv el (Al + p.1 * DXl) ∧ el.dy = dyl ∧ el.signdx = sl ∧
        EdgeInv er (Ar + p.1 * DXr) ∧ er.dy = dyr ∧ er.signdx = sr ∧
        (Stiff l → el.e = -dyl) ∧ (Stiff r → er.e = -dyr) :=
  Pixman.Lemmas.TrapShape.walkRows_inv n hn b hb hb2 Al DXl Ar DXr dyl dyr sl sr fuel y l r hy hyb hy0
    hIl hSl hdl hsl hIr hSr hdr hsr hfit

open Pixman.Lemmas.TrapShape in
/-- Composition in the exact-invariant form of the walker (lost fraction included in `Al`, `Ar`):
    on every row `g` the count is taken between `⌊(Al + g·DXl)/dyl⌋` and `⌊(Ar + g·DXr)/dyr⌋`, provided no
    right-leaning edge of non-integral slope passes exactly through a lattice point on a visited row
    (there the walker's `x` depends on its history: `edge_state_depends_on_history`). -/
theorem rasterizeEdges_walked (n : Nat) (hn : Depth n) (img : Img) (hwf : ImgWF n img) (l r : Edge) (t b : Int)
    (ht : IsGridRow n t) (hb : IsGridRow n b) (htb : t ≤ b) (ht0 : 0 ≤ t) (hbh : b / 65536 < (img.height : Int))
    (hb2 : b ≤ 2147483647) (top bottom : Int)
    (hrows : ∀ g, IsGridRow n g → 0 ≤ g / 65536 → g / 65536 < (img.height : Int) →
      ((top ≤ g ∧ g < bottom) ↔ (t ≤ g ∧ g ≤ b)))
    (Al DXl Ar DXr : Int)
    (hIl : EdgeInv l (Al + t * DXl)) (hSl : SlopeInv l DXl n) (hIr : EdgeInv r (Ar + t * DXr)) (hSr : SlopeInv r DXr n)
    (hfit : ∀ g, IsGridRow n g → t ≤ g → g ≤ b → FitAt l.dy (Al + g * DXl) ∧ FitAt r.dy (Ar + g * DXr))
    (hnotie : ∀ g, IsGridRow n g → t ≤ g → g ≤ b →
      ((Al + g * DXl) % l.dy ≠ 0 ∨ l.signdx = -1 ∨ Stiff l) ∧ ((Ar + g * DXr) % r.dy ≠ 0 ∨ r.signdx = -1 ∨ Stiff r))
    (hx1 : X1Ok n t b (fun g => (Al + g * DXl) / l.dy) (fun g => (Ar + g * DXr) / r.dy)) :
    rasterizeEdges n img l r t b =
      { img with rows := (addSpans n img.width img.height img.rows top bottom
          (fun g => (Al + g * DXl) / l.dy) (fun g => (Ar + g * DXr) / r.dy)) } :=
  Pixman.Lemmas.TrapShape.rasterizeEdges_walked n hn img hwf l r t b ht hb htb ht0 hbh hb2 top bottom hrows
    Al DXl Ar DXr hIl hSl hIr hSr hfit hnotie hx1

open Pixman.Lemmas.TrapShape in
/-- Composition with the Spec: edges that represent the exact abscissae of the shape's lines on the
    first row (nothing lost by `pixman_edge_step`: `lost = 0` in `edgeInit_inv`), and on every visited row
    each edge either misses the lattice points, or leans left, or has integral slope (vertical edges):
    `pixman_rasterize_edges` over all sample rows = `Spec.addShape`.
    (Outside these hypotheses the equality is false for the code — findings T01… of checks/C12.py.) -/
theorem rasterizeEdges_eq_addShape (n : Nat) (hn : Depth n) (img : Img) (hwf : ImgWF n img) (s : Shape) (l r : Edge)
    (t b : Int) (ht : IsGridRow n t) (hb : IsGridRow n b) (htb : t ≤ b) (ht0 : 0 ≤ t)
    (hbh : b / 65536 < (img.height : Int)) (hb2 : b ≤ 2147483647)
    (hrows : ∀ g, IsGridRow n g → 0 ≤ g / 65536 → g / 65536 < (img.height : Int) →
      ((s.top ≤ g ∧ g < s.bottom) ↔ (t ≤ g ∧ g ≤ b)))
    (hdyl : 0 < s.left.yBot - s.left.yTop) (hdyr : 0 < s.right.yBot - s.right.yTop)
    (hdl : l.dy = s.left.yBot - s.left.yTop) (hdr : r.dy = s.right.yBot - s.right.yTop)
    (hIl : EdgeInv l (lineNum s.left t)) (hSl : SlopeInv l (s.left.xBot - s.left.xTop) n)
    (hIr : EdgeInv r (lineNum s.right t)) (hSr : SlopeInv r (s.right.xBot - s.right.xTop) n)
    (hfit : ∀ g, IsGridRow n g → t ≤ g → g ≤ b → FitAt l.dy (lineNum s.left g) ∧ FitAt r.dy (lineNum s.right g))
    (hnotie : ∀ g, IsGridRow n g → t ≤ g → g ≤ b →
      (lineNum s.left g % (s.left.yBot - s.left.yTop) ≠ 0 ∨ (l.signdx = -1 ∧ s.left.xBot - s.left.xTop < 0) ∨
        (Stiff l ∧ (s.left.xBot - s.left.xTop) % (s.left.yBot - s.left.yTop) = 0)) ∧
      (lineNum s.right g % (s.right.yBot - s.right.yTop) ≠ 0 ∨ (r.signdx = -1 ∧ s.right.xBot - s.right.xTop < 0) ∨
        (Stiff r ∧ (s.right.xBot - s.right.xTop) % (s.right.yBot - s.right.yTop) = 0)))
    (hx1 : X1Ok n t b s.left.snapX s.right.snapX) :
    rasterizeEdges n img l r t b = { img with rows := addShape n img.width img.height img.rows s } :=
  Pixman.Lemmas.TrapShape.rasterizeEdges_eq_addShape n hn img hwf s l r t b ht hb htb ht0 hbh hb2 hrows hdyl hdyr hdl hdr
    hIl hSl hIr hSr hfit hnotie hx1

open Pixman.Lemmas.TrapShape in
/-- non-vacuity of `rasterizeEdges_eq_addShape`: an a8 image of 4×1 pixels, a vertical left edge at
    `x = 40000` (integral slope: `Stiff`), a left-leaning right edge from `(200000, 0)` to `(150000, 65536)`,
    all 15 sample rows of the pixel row; the result is `#[#[105, 255, 171, 0]]` -/
example :
    rasterizeEdges 8 (Img.mk' 4 1 0) (edgeInit 8 2185 40000 0 40000 65536) (edgeInit 8 2185 200000 0 150000 65536) 2185 63351 =
      { Img.mk' 4 1 0 with rows := (addShape 8 4 1 (Img.mk' 4 1 0).rows
          ⟨0, 65536, ⟨40000, 0, 40000, 65536⟩, ⟨200000, 0, 150000, 65536⟩⟩) } := by
  have hl : (edgeInit 8 2185 40000 0 40000 65536) =
      { x := 40000, e := -65536, stepx := 0, signdx := 1, dy := 65536, dx := 0, stepxSmall := 0, stepxBig := 0,
        dxSmall := 0, dxBig := 0 } := by decide
  have hr : (edgeInit 8 2185 200000 0 150000 65536) =
      { x := 198332, e := -64048, stepx := 0, signdx := -1, dy := 65536, dx := 50000, stepxSmall := -3333,
        stepxBig := -3334, dxSmall := 18512, dxBig := 2976 } := by decide
  rw [hl, hr]
  have hgrid : ∀ g, IsGridRow 8 g → 2185 ≤ g → g ≤ 63351 → 0 ≤ g ∧ g ≤ 65536 := fun g _ h1 h2 => by omega
  exact Pixman.Props.C12.rasterizeEdges_eq_addShape 8 (Or.inr (Or.inr rfl)) (Img.mk' 4 1 0) (imgWF_mk' 8 4 1 0 (by decide) (by decide))
    ⟨0, 65536, ⟨40000, 0, 40000, 65536⟩, ⟨200000, 0, 150000, 65536⟩⟩ _ _ 2185 63351
    ⟨0, 0, by decide, by decide⟩ ⟨0, 14, by decide, by decide⟩ (by decide) (by decide) (by decide) (by decide)
    (fun g hg h0 h1 => by
      rw [isGridRow_iff 8 (Or.inr (Or.inr rfl))] at hg
      simp only [yFracFirst, yFracLast, stepYSmall, Img.mk'] at *
      omega)
    (by decide) (by decide) rfl rfl
    ⟨by decide, by decide, by decide, by decide, by decide, by decide⟩
    ⟨by decide, by decide, by decide⟩
    ⟨by decide, by decide, by decide, by decide, by decide, by decide⟩
    ⟨by decide, by decide, by decide⟩
    (fun g _ h1 h2 => by simp only [FitAt, lineNum]; omega)
    (fun g _ h1 h2 => ⟨Or.inr (Or.inr ⟨⟨rfl, rfl, rfl⟩, by decide⟩), Or.inr (Or.inl ⟨rfl, by decide⟩)⟩)
    (fun h => absurd h (by decide))

/-! ## R3 at the entry points — `pixman_rasterize_trapezoid`, `pixman_add_traps` (offsets 0)

  `firstRow`/`lastRow`: the first and last sample row as the entry points compute them.  `InitOK n t e`: the
  no-overflow conditions of `pixman_edge_init` for the line `e` started at row `t` (those of `edgeInit_inv`)
  and the condition under which `pixman_edge_step` loses nothing: a right-leaning line walked downwards from
  above `t` (or a left-leaning one walked upwards) starts at its top or has integral slope.  `RowsOK n t b e`: on every sample row the abscissa fits an `int` and the
  line misses the lattice points, or leans left, or has integral slope and is walked downwards.
  Under these hypotheses (the region in which the library has no finding T01…) the whole pipeline
  `sample_ceil_y/floor_y → edge_init ×2 → rasterize_edges` adds exactly `Spec.addShape`.
  `rasterizeTrapezoid_nothing`: no sample row inside.  `rasterizeTrapezoid_offsets`: offsets that do not wrap are a
  translation.  `addTrapezoids_eq_addShapes`, `addTraps_eq_addShapes`: lists.  `addTrap_offsets`: offsets of
  `pixman_add_traps`. -/

open Pixman.Lemmas.TrapShape Pixman.Lemmas.TrapSetup Pixman.Lemmas.TrapTri in
theorem rasterizeTrapezoid_eq_addShape (n : Nat) (hn : Depth n) (img : Img) (hwf : ImgWF n img)
    (hh : img.height ≤ 32767) (tr : Trapezoid) (hv : tr.valid = true)
    (htop : InI32 tr.top) (hbot : InI32 tr.bottom)
    (hc : InI32 tr.left.p1.x ∧ InI32 tr.left.p1.y ∧ InI32 tr.left.p2.x ∧ InI32 tr.left.p2.y ∧
          InI32 tr.right.p1.x ∧ InI32 tr.right.p1.y ∧ InI32 tr.right.p2.x ∧ InI32 tr.right.p2.y)
    (hbt : lastRow n img.height tr.bottom ≥ firstRow n tr.top)
    (hl : InitOK n (firstRow n tr.top) (lineOf tr.left)) (hr : InitOK n (firstRow n tr.top) (lineOf tr.right))
    (hlr : RowsOK n (firstRow n tr.top) (lastRow n img.height tr.bottom) (lineOf tr.left))
    (hrr : RowsOK n (firstRow n tr.top) (lastRow n img.height tr.bottom) (lineOf tr.right))
    (hx1 : X1Ok n (firstRow n tr.top) (lastRow n img.height tr.bottom) (lineOf tr.left).snapX (lineOf tr.right).snapX) :
    rasterizeTrapezoid n img tr 0 0 = { img with rows := addShape n img.width img.height img.rows (shapeOf tr) } :=
  Pixman.Lemmas.TrapSetup.rasterizeTrapezoid_eq_addShape n hn img hwf hh tr hv htop hbot hc hbt hl hr hlr hrr hx1

open Pixman.Lemmas.TrapShape Pixman.Lemmas.TrapSetup in
/-- `pixman_add_traps`: one `pixman_trap_t` (`top = {l, r, y}`, `bot = {l, r, y}`; no validity test in the code) -/
theorem addTrap_eq_addShape (n : Nat) (hn : Depth n) (img : Img) (hwf : ImgWF n img)
    (hh : img.height ≤ 32767) (tr : Trap)
    (hc : InI32 tr.topL ∧ InI32 tr.topR ∧ InI32 tr.topY ∧ InI32 tr.botL ∧ InI32 tr.botR ∧ InI32 tr.botY)
    (hbt : lastRow n img.height tr.botY ≥ firstRow n tr.topY)
    (hl : InitOK n (firstRow n tr.topY) (trapShape tr).left) (hr : InitOK n (firstRow n tr.topY) (trapShape tr).right)
    (hlr : RowsOK n (firstRow n tr.topY) (lastRow n img.height tr.botY) (trapShape tr).left)
    (hrr : RowsOK n (firstRow n tr.topY) (lastRow n img.height tr.botY) (trapShape tr).right)
    (hx1 : X1Ok n (firstRow n tr.topY) (lastRow n img.height tr.botY) (trapShape tr).left.snapX (trapShape tr).right.snapX) :
    addTrap n img 0 0 tr = { img with rows := addShape n img.width img.height img.rows (trapShape tr) } :=
  Pixman.Lemmas.TrapSetup.addTrap_eq_addShape n hn img hwf hh tr hc hbt hl hr hlr hrr hx1

open Pixman.Lemmas.TrapShape Pixman.Lemmas.TrapSetup in
/-- non-vacuity: an a8 image of 4×2 pixels and the `pixman_trap_t` with top span `[40000, 200000]` at `y = 0` and
    bottom span `[40000, 150000]` at `y = 131072` (vertical left edge, left-leaning right edge) -/
example : addTrap 8 (Img.mk' 4 2 0) 0 0 ⟨40000, 200000, 0, 40000, 150000, 131072⟩ =
    { Img.mk' 4 2 0 with rows := (addShape 8 4 2 (Img.mk' 4 2 0).rows (trapShape ⟨40000, 200000, 0, 40000, 150000, 131072⟩)) } := by
  have ht : firstRow 8 0 = 2185 := by decide
  have hb : lastRow 8 ((Img.mk' 4 2 0).height : Int) 131072 = 128887 := by decide
  have hgrid : ∀ g, IsGridRow 8 g → 2185 ≤ g → g ≤ 128887 → 0 ≤ g ∧ g ≤ 131072 := fun g _ h1 h2 => by omega
  apply Pixman.Props.C12.addTrap_eq_addShape 8 (Or.inr (Or.inr rfl)) (Img.mk' 4 2 0) (imgWF_mk' 8 4 2 0 (by decide) (by decide))
    (by decide) ⟨40000, 200000, 0, 40000, 150000, 131072⟩
  · simp only [InI32]; decide
  · simp only [ht, hb]; decide
  · simp only [ht, trapShape]
    exact ⟨by decide, by decide, by decide, by decide, by decide, by decide, by decide⟩
  · simp only [ht, trapShape]
    exact ⟨by decide, by decide, by decide, by decide, by decide, by decide, by decide⟩
  · simp only [ht, hb, trapShape]
    exact ⟨fun g _ h1 h2 => by simp only [FitAt, lineNum]; omega,
           fun g _ h1 h2 => Or.inr (Or.inr ⟨by decide, by decide⟩)⟩
  · simp only [ht, hb, trapShape]
    exact ⟨fun g _ h1 h2 => by simp only [FitAt, lineNum]; omega,
           fun g _ h1 h2 => Or.inr (Or.inl (by decide))⟩
  · exact fun h => absurd h (by decide)

open Pixman.Lemmas.TrapShape Pixman.Lemmas.TrapSetup Pixman.Lemmas.TrapTri in
/-- when no sample row of the image is inside the trapezoid, nothing is drawn and the Spec adds nothing -/
theorem rasterizeTrapezoid_nothing (n : Nat) (hn : Depth n) (img : Img) (hwf : ImgWF n img)
    (hh : img.height ≤ 32767) (tr : Trapezoid) (htop : InI32 tr.top) (hbot : InI32 tr.bottom)
    (hbt : lastRow n img.height tr.bottom < firstRow n tr.top) :
    rasterizeTrapezoid n img tr 0 0 = img ∧ addShape n img.width img.height img.rows (shapeOf tr) = img.rows :=
  Pixman.Lemmas.TrapSetup.rasterizeTrapezoid_nothing n hn img hwf hh tr htop hbot hbt

open Pixman.Lemmas.TrapSetup in
/-- offsets that do not wrap: `pixman_rasterize_trapezoid (image, trap, x_off, y_off)` rasterises the trapezoid
    moved by `(x_off, y_off)` pixels (for every depth and image, inside or outside the exact region) -/
theorem rasterizeTrapezoid_offsets (n : Nat) (img : Img) (tr : Trapezoid) (xOff yOff : Int)
    (hx : InI32 (xOff * 65536)) (hy : InI32 (yOff * 65536))
    (htop : InI32 (tr.top + yOff * 65536)) (hbot : InI32 (tr.bottom + yOff * 65536))
    (hc : InI32 (tr.left.p1.x + xOff * 65536) ∧ InI32 (tr.left.p1.y + yOff * 65536) ∧
          InI32 (tr.left.p2.x + xOff * 65536) ∧ InI32 (tr.left.p2.y + yOff * 65536) ∧
          InI32 (tr.right.p1.x + xOff * 65536) ∧ InI32 (tr.right.p1.y + yOff * 65536) ∧
          InI32 (tr.right.p2.x + xOff * 65536) ∧ InI32 (tr.right.p2.y + yOff * 65536)) :
    rasterizeTrapezoid n img tr xOff yOff = rasterizeTrapezoid n img (moveTz tr (xOff * 65536) (yOff * 65536)) 0 0 :=
  Pixman.Lemmas.TrapSetup.rasterizeTrapezoid_offsets n img tr xOff yOff hx hy htop hbot hc

open Pixman.Lemmas.TrapShape Pixman.Lemmas.TrapSetup Pixman.Lemmas.TrapTri in
/-- `pixman_add_trapezoids (image, 0, 0, n, traps)`: every valid trapezoid in the exact region (`TzExact`: int32
    coordinates and either no sample row inside, or `InitOK`/`RowsOK`/`X1Ok` for both sides) — the image is the
    Spec counts of the valid trapezoids added one after the other, the invalid ones skipped -/
theorem addTrapezoids_eq_addShapes (n : Nat) (hn : Depth n) (traps : List Trapezoid) (img : Img) (hwf : ImgWF n img)
    (hh : img.height ≤ 32767) (hall : ∀ tr ∈ traps, tr.valid = true → TzExact n img.height tr) :
    addTrapezoids n img 0 0 traps =
      { img with rows := traps.foldl (fun rows tr =>
          if tr.valid then addShape n img.width img.height rows (shapeOf tr) else rows) img.rows } :=
  Pixman.Lemmas.TrapSetup.addTrapezoids_eq_addShapes n hn traps img hwf hh hall

open Pixman.Lemmas.TrapShape Pixman.Lemmas.TrapSetup in
/-- `pixman_add_traps (image, 0, 0, n, traps)`: every trap in the exact region (`TrapExact`) — the image is the Spec
    counts of the traps added one after the other -/
theorem addTraps_eq_addShapes (n : Nat) (hn : Depth n) (traps : List Trap) (img : Img) (hwf : ImgWF n img)
    (hh : img.height ≤ 32767) (hall : ∀ tr ∈ traps, TrapExact n img.height tr) :
    addTraps n img 0 0 traps =
      { img with rows := traps.foldl (fun rows tr => addShape n img.width img.height rows (trapShape tr)) img.rows } :=
  Pixman.Lemmas.TrapSetup.addTraps_eq_addShapes n hn traps img hwf hh hall

open Pixman.Lemmas.TrapSetup in
/-- fixed-point offsets that do not wrap: an iteration of `pixman_add_traps` rasterises the moved trap -/
theorem addTrap_offsets (n : Nat) (img : Img) (tr : Trap) (xo yo : Int)
    (hc : InI32 (tr.topL + xo) ∧ InI32 (tr.topR + xo) ∧ InI32 (tr.topY + yo) ∧ InI32 (tr.botL + xo) ∧
          InI32 (tr.botR + xo) ∧ InI32 (tr.botY + yo)) :
    addTrap n img xo yo tr = addTrap n img 0 0 (moveTrap tr xo yo) :=
  Pixman.Lemmas.TrapSetup.addTrap_offsets n img tr xo yo hc

/-! ## R4 — abutting shapes tile seamlessly (consequences of "each sample is in exactly one")

  Stated on the Spec counts (`rowCount`, `pixelCount`) and, through R3, on the model's rows.
  What these theorems assume is that both shapes see the *same* snapped abscissa for the shared
  edge on every row; by R2 the code guarantees that only up to the history-dependent error of the
  walker, which is the library defect reported by checks/C12.py (additivity oracle). -/

theorem rowCount_split (n : Nat) (lx mx rx c : Int) (h1 : lx ≤ mx) (h2 : mx ≤ rx) :
    rowCount n lx mx c + rowCount n mx rx c = rowCount n lx rx c :=
  Pixman.Lemmas.TrapRow.rowCount_split n lx mx rx c h1 h2

theorem pixelValue_add (n : Nat) (o a b : Nat) : pixelValue n (pixelValue n o a) b = pixelValue n o (a + b) :=
  Pixman.Lemmas.TrapRow.pixelValue_add n o a b

theorem pixelCount_hsplit (n : Nat) (s : Shape) (y : Int) (h1 : s.top ≤ y) (h2 : y ≤ s.bottom) (c r : Int) :
    pixelCount n { s with bottom := y } c r + pixelCount n { s with top := y } c r = pixelCount n s c r :=
  Pixman.Lemmas.TrapRow.pixelCount_hsplit n s y h1 h2 c r

theorem pixelCount_edgesplit (n : Nat) (s : Shape) (m : EdgeLine)
    (hm : ∀ y, s.top ≤ y → y < s.bottom → s.left.snapX y ≤ m.snapX y ∧ m.snapX y ≤ s.right.snapX y) (c r : Int) :
    pixelCount n { s with right := m } c r + pixelCount n { s with left := m } c r = pixelCount n s c r :=
  Pixman.Lemmas.TrapRow.pixelCount_edgesplit n s m hm c r

open Pixman.Lemmas.TrapSetup in
/-- whole-pixel offsets commute with rasterisation (Spec level): the shape moved by `(ox, oy)` pixels has, at pixel
    `(c + ox, r + oy)`, the sample count the original has at `(c, r)`; with `rasterizeTrapezoid_offsets` (the
    rasteriser draws the moved trapezoid) and R3 this is the model-level statement -/
theorem pixelCount_move (n : Nat) (s : Shape) (ox oy c r : Int) :
    pixelCount n (moveShape s (ox * 65536) (oy * 65536)) (c + ox) (r + oy) = pixelCount n s c r :=
  Pixman.Lemmas.TrapSetup.pixelCount_move n s ox oy c r

/-- two spans abutting at `mx`, rasterised one after the other into an a8 row, give the row of the
    union span (model level, from R3) -/
theorem row8_abut (row : Array Nat) (width : Nat) (lx mx rx : Int) (hsize : row.size = width)
    (hw : width ≤ 32767) (h1 : lx ≤ mx) (h2 : mx ≤ rx) (i : Nat) (hi : i < width)
    (hv : row[i]'(by rw [hsize]; exact hi) ≤ 255) :
    (row8 (row8 row width lx mx) width mx rx)[i]'(by
        rw [Pixman.Lemmas.TrapRow.row8_size, Pixman.Lemmas.TrapRow.row8_size, hsize]; exact hi) =
    (row8 row width lx rx)[i]'(by rw [Pixman.Lemmas.TrapRow.row8_size, hsize]; exact hi) := by
  have hs1 : (row8 row width lx mx).size = width := by rw [Pixman.Lemmas.TrapRow.row8_size, hsize]
  have e1 := row8_spec row width lx mx hsize hw i hi hv
  have hv1 : (row8 row width lx mx)[i]'(by rw [hs1]; exact hi) ≤ 255 := by
    rw [e1]; simp only [pixelValue, maxAlpha]; omega
  rw [row8_spec (row8 row width lx mx) width mx rx hs1 hw i hi hv1, e1, row8_spec row width lx rx hsize hw i hi hv,
    pixelValue_add, rowCount_split 8 lx mx rx i h1 h2]

example : pixelCount 8 ⟨0, 131072, ⟨0, 0, 0, 131072⟩, ⟨98304, 0, 32768, 131072⟩⟩ 1 0 = 64 := by decide

/-! ## R5 — `triangle_to_trapezoids`: the two trapezoids tile the triangle

  Spec (`Spec/SampleGrid.lean`): `triInside` is the triangle's own inside test — a sample is inside when,
  on its sample row, it lies between two sides of the triangle crossing that row (left inclusive, right
  exclusive; a side crosses the rows `yTop ≤ sy < yBot`), symmetric in the three vertices, no
  decomposition.  `tzCount` is the Spec count of a trapezoid as `pixman_add_trapezoids` treats it
  (`pixelCount` of its shape when `pixman_trapezoid_valid`, 0 otherwise).
  The theorem covers every vertex order (the three conditional swaps: sort by `(y, x)`, left/right by
  the sign of the cross product) and the triangles with a horizontal side.  Hypotheses: the
  coordinate differences `clockwise` computes in `pixman_fixed_t` do not wrap (`TriFits`), and the
  vertices are not collinear (`area2 ≠ 0`).  For collinear vertices the statement is FALSE for this
  Spec: a lattice tie of the walker's snapping (`snapX`) at the middle vertex makes the two
  coincident sides differ by one lattice unit, `triInside` then holds one sample that the code's
  left/right assignment leaves out (both draw nothing else). -/

open Pixman.Lemmas.TrapTri in
theorem triangle_tiles (n : Nat) (tri : Triangle) (hf : TriFits tri) (hnd : area2 tri ≠ 0) (c r : Int) :
    triCount n (triOf tri) c r =
      tzCount n (triangleToTrapezoids tri).1 c r + tzCount n (triangleToTrapezoids tri).2 c r :=
  Pixman.Lemmas.TrapTri.triangle_tiles n tri hf hnd c r

open Pixman.Lemmas.TrapTri in
/-- sample by sample: inside the triangle ⇔ inside exactly one of the two trapezoids -/
theorem triangle_inside_iff (tri : Triangle) (hf : TriFits tri) (hnd : area2 tri ≠ 0) (sy sx : Int) :
    triInside (triOf tri) sy sx =
      (tzInside (triangleToTrapezoids tri).1 sy sx || tzInside (triangleToTrapezoids tri).2 sy sx) ∧
    ¬ (tzInside (triangleToTrapezoids tri).1 sy sx = true ∧ tzInside (triangleToTrapezoids tri).2 sy sx = true) := by
  have hs := sortTri_sorted tri hf hnd
  rw [triangleToTrapezoids_eq, ← sortTri_inside]
  exact inside_sorted _ _ _ hs sy sx

/-- `pixman_add_triangles` is `pixman_add_trapezoids` of the decompositions (the model mirrors the code) -/
theorem addTriangles_eq (n : Nat) (img : Img) (xOff yOff : Int) (tris : List Triangle) :
    addTriangles n img xOff yOff tris =
      addTrapezoids n img xOff yOff (tris.flatMap fun t => [(triangleToTrapezoids t).1, (triangleToTrapezoids t).2]) := rfl

open Pixman.Lemmas.TrapShape Pixman.Lemmas.TrapSetup Pixman.Lemmas.TrapTri in
/-- R5 end to end: `pixman_add_triangles (image, 0, 0, 1, tri)` adds to every pixel the triangle's own sample
    count (`Spec.triCount`, no decomposition), when the two trapezoids are in the exact region of R3 -/
theorem addTriangle_eq_triCount (n : Nat) (hn : Depth n) (img : Img) (hwf : ImgWF n img)
    (hh : img.height ≤ 32767) (tri : Triangle) (hf : TriFits tri) (hnd : area2 tri ≠ 0)
    (h0 : (triangleToTrapezoids tri).1.valid = true → TzExact n img.height (triangleToTrapezoids tri).1)
    (h1 : (triangleToTrapezoids tri).2.valid = true → TzExact n img.height (triangleToTrapezoids tri).2) :
    addTriangles n img 0 0 [tri] = { img with rows := addTri n img.width img.height img.rows (triOf tri) } :=
  Pixman.Lemmas.TrapSetup.addTriangle_eq_triCount n hn img hwf hh tri hf hnd h0 h1

open Pixman.Lemmas.TrapShape Pixman.Lemmas.TrapSetup Pixman.Lemmas.TrapTri in
/-- non-vacuity of `addTriangle_eq_triCount`: a triangle whose three sides lean left, vertices in an order that
    needs two of the three swaps; a8 image of 5×2 pixels; result `#[#[0, 0, 0, 79, 58], #[0, 5, 50, 22, 0]]` -/
example : addTriangles 8 (Img.mk' 5 2 0) 0 0 [⟨⟨100000, 120000⟩, ⟨300000, 2185⟩, ⟨280000, 50000⟩⟩] =
    { Img.mk' 5 2 0 with rows := (addTri 8 5 2 (Img.mk' 5 2 0).rows (triOf ⟨⟨100000, 120000⟩, ⟨300000, 2185⟩, ⟨280000, 50000⟩⟩)) } := by
  have htz : triangleToTrapezoids ⟨⟨100000, 120000⟩, ⟨300000, 2185⟩, ⟨280000, 50000⟩⟩ =
      (⟨2185, 50000, ⟨⟨300000, 2185⟩, ⟨100000, 120000⟩⟩, ⟨⟨300000, 2185⟩, ⟨280000, 50000⟩⟩⟩,
       ⟨50000, 120000, ⟨⟨300000, 2185⟩, ⟨100000, 120000⟩⟩, ⟨⟨280000, 50000⟩, ⟨100000, 120000⟩⟩⟩) := by decide
  have hTL : lineOf ⟨⟨300000, 2185⟩, ⟨100000, 120000⟩⟩ = ⟨300000, 2185, 100000, 120000⟩ := by decide
  have hTR : lineOf ⟨⟨300000, 2185⟩, ⟨280000, 50000⟩⟩ = ⟨300000, 2185, 280000, 50000⟩ := by decide
  have hRL : lineOf ⟨⟨280000, 50000⟩, ⟨100000, 120000⟩⟩ = ⟨280000, 50000, 100000, 120000⟩ := by decide
  have t0 : firstRow 8 2185 = 2185 := by decide
  have b0 : lastRow 8 ((Img.mk' 5 2 0).height : Int) 50000 = 45875 := by decide
  have t1 : firstRow 8 50000 = 50244 := by decide
  have b1 : lastRow 8 ((Img.mk' 5 2 0).height : Int) 120000 = 115780 := by decide
  apply Pixman.Props.C12.addTriangle_eq_triCount 8 (Or.inr (Or.inr rfl)) (Img.mk' 5 2 0) (imgWF_mk' 8 5 2 0 (by decide) (by decide))
    (by decide)
  · simp only [TriFits]; decide
  · simp only [area2]; decide
  · intro _
    rw [htz]
    refine ⟨by simp only [InI32]; decide, by simp only [InI32]; decide, by simp only [InI32]; decide, Or.inr ⟨?_, ?_, ?_, ?_, ?_, ?_⟩⟩
    · simp only [t0, b0]; decide
    · simp only [t0, hTL]; exact ⟨by decide, by decide, by decide, by decide, by decide, by decide, by decide⟩
    · simp only [t0, hTR]; exact ⟨by decide, by decide, by decide, by decide, by decide, by decide, by decide⟩
    · simp only [t0, b0, hTL]
      exact ⟨fun g _ h1 h2 => by simp only [FitAt, lineNum]; omega, fun g _ h1 h2 => Or.inr (Or.inl (by decide))⟩
    · simp only [t0, b0, hTR]
      exact ⟨fun g _ h1 h2 => by simp only [FitAt, lineNum]; omega, fun g _ h1 h2 => Or.inr (Or.inl (by decide))⟩
    · exact fun h => absurd h (by decide)
  · intro _
    rw [htz]
    refine ⟨by simp only [InI32]; decide, by simp only [InI32]; decide, by simp only [InI32]; decide, Or.inr ⟨?_, ?_, ?_, ?_, ?_, ?_⟩⟩
    · simp only [t1, b1]; decide
    · simp only [t1, hTL]; exact ⟨by decide, by decide, by decide, by decide, by decide, by decide, by decide⟩
    · simp only [t1, hRL]; exact ⟨by decide, by decide, by decide, by decide, by decide, by decide, by decide⟩
    · simp only [t1, b1, hTL]
      exact ⟨fun g _ h1 h2 => by simp only [FitAt, lineNum]; omega, fun g _ h1 h2 => Or.inr (Or.inl (by decide))⟩
    · simp only [t1, b1, hRL]
      exact ⟨fun g _ h1 h2 => by simp only [FitAt, lineNum]; omega, fun g _ h1 h2 => Or.inr (Or.inl (by decide))⟩
    · exact fun h => absurd h (by decide)

/-- non-vacuity: a triangle given with its lowest vertex first and clockwise (all three swaps happen),
    one side horizontal -/
example :
    Pixman.Lemmas.TrapTri.TriFits ⟨⟨196608, 262144⟩, ⟨262144, 65536⟩, ⟨65536, 65536⟩⟩ ∧
    Pixman.Lemmas.TrapTri.area2 ⟨⟨196608, 262144⟩, ⟨262144, 65536⟩, ⟨65536, 65536⟩⟩ ≠ 0 ∧
    triangleToTrapezoids ⟨⟨196608, 262144⟩, ⟨262144, 65536⟩, ⟨65536, 65536⟩⟩ =
      (⟨65536, 65536, ⟨⟨65536, 65536⟩, ⟨196608, 262144⟩⟩, ⟨⟨65536, 65536⟩, ⟨262144, 65536⟩⟩⟩,
       ⟨65536, 262144, ⟨⟨65536, 65536⟩, ⟨196608, 262144⟩⟩, ⟨⟨262144, 65536⟩, ⟨196608, 262144⟩⟩⟩) := by
  refine ⟨?_, ?_, ?_⟩
  · simp only [Pixman.Lemmas.TrapTri.TriFits]; decide
  · simp only [Pixman.Lemmas.TrapTri.area2]; decide
  · decide

/-! ## words — the row bodies on memory (`Model/TrapWords.lean`) compute the per-pixel model

  `Model/Trap.lean` updates a per-pixel array; the C code reads and writes words, nibbles and bytes.
  `Model/TrapWords.lean` models the three row bodies literally on C10's little-endian byte memory (`Mem`,
  `read8/read32/write8/write32`): a1 `MASK_BITS` / `LEFT_MASK` / `RIGHT_MASK`, start word, `while (nmiddle--)`
  loop, end word; a4 `DEFINE_ALPHA` / `ADD_ALPHA` / `STEP_ALPHA` with `GET_4`/`PUT_4`; a8 `clip255`,
  `ADD_SATURATE_8`, span-fill bookkeeping, `MEMSET_WRAPPED` flush.  `HoldsRow n m0 line m row`: `m` is a byte
  memory in which every pixel `c < row.size` of the row at byte address `line`, read with C10's `fetchRaw`, is
  `row[c]`; every pixel position `≥ row.size` reads as in `m0`; every byte before `line` or from the end of the
  row's last 32-bit word on equals `m0`'s.  The column bounds are C04's (`span1_bounds`, `spanN_bounds`,
  `row8Fill_cols`, `FillIn`).  `realizeRow` is C03's `realize` for one row: one C10 pixel store (`storeRaw`) per
  changed cell.  The three stores after `MASK_BITS` are REGENERATED from the source text (`Gen/EdgeWords.lean`,
  tools/gen_edgewords.py, fails closed) and bridged by `rfl`: seeded C12-m4 (`a++` for the whole middle run)
  breaks the extraction obligation.  `rasterizeEdgesW_holds` composes the rows to the whole image. -/

open Pixman.Model.Format Pixman.TrapWords in
/-- the hand-written stores after `MASK_BITS` are the regenerated ones -/
theorem a1Store_regenerated : @a1Store = @Pixman.Gen.EdgeWords.a1Store := rfl

open Pixman.Model.Format Pixman.TrapWords in
/-- a1, bit level: the start mask, `nmiddle` whole words and the end mask set exactly the pixels `L … R-1`; bytes
    outside the words holding them are untouched -/
theorem a1Span_bits (m : Mem) (line L R : Nat) (hLR : L ≤ R) :
    (∀ c, fetch1 (a1Span m line (L : Int) (R : Int)) line c = if L ≤ c ∧ c < R then 1 else fetch1 m line c) ∧
    (∀ a, a < line + 4 * (L / 32) ∨ line + 4 * ((R + 31) / 32) ≤ a → a1Span m line (L : Int) (R : Int) a = m a) ∧
    (m.Bytes → (a1Span m line (L : Int) (R : Int)).Bytes) :=
  Pixman.Lemmas.TrapWords.a1Span_spec m line L R hLR

open Pixman.Model.Format Pixman.TrapWords in
/-- a4: `ADD_ALPHA (a)` on the nibble of pixel `x` is C10's `STORE_4` of the model's `addAlpha4Val (FETCH_4) a` -/
theorem addAlpha_eq_store4 (m : Mem) (hb : m.Bytes) (line x a : Nat) :
    addAlphaW m (line + x / 2) (x % 2) a = store4 m line x (addAlpha4Val (fetch4 m line x) a) :=
  Pixman.Lemmas.TrapWords.addAlphaW_eq_store4 m hb line x a

open Pixman.Model.Format Pixman.TrapWords Pixman.Lemmas.TrapWords in
theorem row1_words (m : Mem) (hb : m.Bytes) (line : Nat) (row : Array Nat)
    (hold : ∀ c (h : c < row.size), fetchRaw m line c 1 = row[c]) (W : Int) (hsz : (row.size : Int) = W)
    (hW : 0 ≤ W ∧ W ≤ 32767) (lx rx : Int) :
    HoldsRow 1 m line (row1W m line W lx rx) (row1 row W lx rx) :=
  Pixman.Lemmas.TrapWords.row1_words m hb line row hold W hsz hW lx rx

open Pixman.Model.Format Pixman.TrapWords Pixman.Lemmas.TrapWords in
theorem row4_words (m : Mem) (hb : m.Bytes) (line : Nat) (row : Array Nat)
    (hold : ∀ c (h : c < row.size), fetchRaw m line c 4 = row[c]) (W : Int) (hsz : (row.size : Int) = W)
    (hW : 0 ≤ W ∧ W ≤ 32767) (lx rx : Int) :
    HoldsRow 4 m line (row4W m line W lx rx) (row4 row W lx rx) :=
  Pixman.Lemmas.TrapWords.row4_words m hb line row hold W hsz hW lx rx

open Pixman.Model.Format Pixman.TrapWords Pixman.Lemmas.TrapWords Pixman.Lemmas.TrapBounds in
/-- a8, one sub-row with the span-fill bookkeeping: `R8 m0 line m row` — `m` is a byte memory whose bytes
    `line … line + width - 1` are `row` and whose other bytes are `m0`'s (`m0`: the memory before the pixel row was
    started; the pending fill is carried across its sub-rows and is the same on both sides) -/
theorem row8Fill_words (m0 m : Mem) (line : Nat) (row : Array Nat) (h : R8 m0 line m row)
    (W : Int) (hsz : (row.size : Int) = W) (hW : 0 ≤ W ∧ W ≤ 32767) (lx rx : Int) (fs : Fill) (hin : FillIn W fs) :
    R8 m0 line (row8FillW m line W lx rx fs).1 (row8Fill row W lx rx fs).1 ∧
    (row8FillW m line W lx rx fs).2 = (row8Fill row W lx rx fs).2 ∧
    FillIn W (row8Fill row W lx rx fs).2 :=
  Pixman.Lemmas.TrapWords.row8Fill_words m0 m line row h W hsz hW lx rx fs hin

open Pixman.Model.Format Pixman.TrapWords Pixman.Lemmas.TrapWords Pixman.Lemmas.TrapBounds in
/-- a8: the flush (`MEMSET_WRAPPED (…, 0xff, …)` or `ADD_SATURATE_8`) on bytes = `flushFill` -/
theorem flushFill_words (m0 m : Mem) (line : Nat) (row : Array Nat) (h : R8 m0 line m row)
    (W : Int) (hsz : (row.size : Int) = W) (fs : Fill) (hin : FillIn W fs) :
    R8 m0 line (flushFillW m line fs) (flushFill row fs) :=
  Pixman.Lemmas.TrapWords.flushFill_words m0 m line row h W hsz fs hin

open Pixman.Model.Format Pixman.Lemmas.TrapWords in
/-- the pixels of the row and the frame determine the memory -/
theorem holdsRow_unique (n : Nat) (hn : Depth n) (m0 : Mem) (line : Nat) (m1 m2 : Mem) (row : Array Nat)
    (h1 : HoldsRow n m0 line m1 row) (h2 : HoldsRow n m0 line m2 row) : m1 = m2 :=
  Pixman.Lemmas.TrapWords.holdsRow_unique n hn m0 line m1 m2 row h1 h2

open Pixman.Model.Format Pixman.Lemmas.TrapWords in
/-- **rowWords_eq_realize** — for C03's frame (`Props/C03Frame.lean`, `realize`): any memory that holds the new row
    and differs from `m` in nothing else IS `m` after one C10 pixel store per changed cell of the row
    (`realizeRow n line old new m = (List.range new.size).foldl (fun m c => if new[c] = old[c] then m else
    storeRaw m line c n new[c]) m`, the row-`r` part of C03's `realize` with `line = fimg.row r`) -/
theorem rowWords_eq_realize (n : Nat) (hn : Depth n) (m : Mem) (hb : m.Bytes) (line : Nat) (old new : Array Nat)
    (hsz : new.size = old.size) (hold : ∀ c (h : c < old.size), fetchRaw m line c n = old[c])
    (m' : Mem) (h : HoldsRow n m line m' new) : m' = realizeRow n line old new m :=
  Pixman.Lemmas.TrapWords.holdsRow_eq_realize n hn m hb line old new hsz hold m' h

open Pixman.Model.Format Pixman.TrapWords Pixman.Lemmas.TrapWords in
/-- a1: the word-level row update of `rasterize_edges_1` is `realize` of `row1` -/
theorem row1_words_eq_realize (m : Mem) (hb : m.Bytes) (line : Nat) (row : Array Nat)
    (hold : ∀ c (h : c < row.size), fetchRaw m line c 1 = row[c]) (W : Int) (hsz : (row.size : Int) = W)
    (hW : 0 ≤ W ∧ W ≤ 32767) (lx rx : Int) :
    row1W m line W lx rx = realizeRow 1 line row (row1 row W lx rx) m :=
  Pixman.Lemmas.TrapWords.row1_words_eq_realize m hb line row hold W hsz hW lx rx

open Pixman.Model.Format Pixman.TrapWords Pixman.Lemmas.TrapWords in
/-- a4: the nibble-level row update of `rasterize_edges_4` is `realize` of `row4` -/
theorem row4_words_eq_realize (m : Mem) (hb : m.Bytes) (line : Nat) (row : Array Nat)
    (hold : ∀ c (h : c < row.size), fetchRaw m line c 4 = row[c]) (W : Int) (hsz : (row.size : Int) = W)
    (hW : 0 ≤ W ∧ W ≤ 32767) (lx rx : Int) :
    row4W m line W lx rx = realizeRow 4 line row (row4 row W lx rx) m :=
  Pixman.Lemmas.TrapWords.row4_words_eq_realize m hb line row hold W hsz hW lx rx

open Pixman.Model.Format Pixman.TrapWords Pixman.Lemmas.TrapWords Pixman.Lemmas.TrapFill in
/-- a8, one whole pixel row: every sequence of sub-row spans with the span-fill bookkeeping, then the flush, on
    bytes, is `realize` of the naive per-sub-row accumulation `row8` (with `spanfill_eq_naive`) -/
theorem row8_words_eq_realize (m : Mem) (hb : m.Bytes) (line : Nat) (row : Array Nat)
    (hold : ∀ c (h : c < row.size), fetchRaw m line c 8 = row[c]) (W : Int) (hsz : (row.size : Int) = W)
    (hW : 0 ≤ W ∧ W ≤ 32767) (spans : List (Int × Int)) :
    flushFillW (fillSpansW line W spans (m, {})).1 line (fillSpansW line W spans (m, {})).2 =
      realizeRow 8 line row (naiveSpans W spans row) m :=
  Pixman.Lemmas.TrapWords.row8_words_eq_realize m hb line row hold W hsz hW spans

open Pixman.Model.Format Pixman.TrapWords Pixman.Lemmas.TrapWordsImg in
/-- **the whole rasteriser on memory.**  `rasterizeEdgesW` runs the word / nibble / byte row bodies over the rows
    `rasterize_edges_N` visits (`walkRows`; `line = buf + row·stride`, a8 fill state carried inside a pixel row and
    flushed at its end).  `HoldsImg n bits stride m img`: `m` is a byte memory in which pixel `(c, r)` of the image at
    byte address `bits`, rowstride `stride` words, read with C10's `fetchRaw`, is cell `(r, c)` of `img`.
    If `m` holds `img` (rows fit the stride, `t ≤ b` grid rows inside the image — what `sampleRows_in_image` gives),
    the memory after the run holds `rasterizeEdges n img l r t b`, for ARBITRARY edges; and (`FrameImg`) every padding
    position of every row and every byte before / after the image is unchanged.  With `holdsRow_unique` row by row
    this memory is C03's `realize`. -/
theorem rasterizeEdgesW_holds (n : Nat) (hn : Depth n) (bits stride : Nat) (m : Mem) (img : Img)
    (h : HoldsImg n bits stride m img) (hs : Pixman.Lemmas.TrapWordsImg.Shaped img) (hw : img.width ≤ 32767)
    (hfit : img.width * n ≤ 32 * stride) (hrun : img.runaway = false) (l r : Edge) (t b : Int)
    (ht : IsGridRow n t) (hb : IsGridRow n b) (htb : t ≤ b) (ht0 : 0 ≤ t)
    (hbh : b / 65536 < (img.height : Int)) (hb2 : b ≤ 2147483647) :
    HoldsImg n bits stride (rasterizeEdgesW id n bits stride img.width m l r t b) (rasterizeEdges n img l r t b) ∧
    FrameImg n bits stride img.width img.height m (rasterizeEdgesW id n bits stride img.width m l r t b) :=
  Pixman.Lemmas.TrapWordsImg.rasterizeEdgesW_holds n hn bits stride m img h hs hw hfit hrun l r t b ht hb htb ht0 hbh hb2

open Pixman.Model.Format Pixman.TrapWords Pixman.Lemmas.TrapWordsImg in
/-- what the driver runs for its flag `w` (`rasterizeEdgesWB`: the memory kept as the array of its first `total` bytes)
    is `rasterizeEdgesW` with `ν` = "read the first `total` bytes out and back" (`snap`) after every row body -/
theorem rasterizeEdgesWB_mem (total byte n bits stride : Nat) (width : Int) (s : Array Nat) (l r : Edge) (t b : Int) :
    memOf (rasterizeEdgesWB total byte n bits stride width s l r t b) byte =
      rasterizeEdgesW (snap total byte) n bits stride width (memOf s byte) l r t b :=
  Pixman.Lemmas.TrapWordsImg.rasterizeEdgesWB_mem total byte n bits stride width s l r t b

open Pixman.Model.Format Pixman.TrapWords in
/-- non-vacuity: on a zero memory, the a1 span of pixels 30 … 69 of a row at byte 8 (start word, one whole word, end
    word) reads 1 exactly there; the a4 `ADD_ALPHA` of 5 on a nibble holding 13 saturates to 15 and leaves its
    neighbour; one a8 sub-row with a long span leaves the interior to the pending fill -/
example :
    ((List.range 96).filter fun c => fetch1 (a1Span (fun _ => 0) 8 30 70) 8 c = 1) = (List.range 70).drop 30 ∧
    a1Span (fun _ => 0) 8 30 70 7 = 0 ∧ a1Span (fun _ => 0) 8 30 70 20 = 0 ∧
    (fetch4 (addAlphaW (fun _ => 0xd7) 100 1 5) 100 1, fetch4 (addAlphaW (fun _ => 0xd7) 100 1 5) 100 0) = (15, 7) ∧
    ((List.range 12).map fun c => (row8FillW (fun _ => 0) 0 12 65536 655360 {}).1 c) = [0, 17, 0, 0, 0, 0, 0, 0, 0, 0, 0, 0] ∧
    (row8FillW (fun _ => 0) 0 12 65536 655360 {}).2 = { start := 2, stop := 10, size := 1 } := by
  decide

/-! ## R6 — the regenerated `zero_src_has_no_effect` table

  For the operators 0…12 the table entry is TRUE exactly when compositing a zero source pixel
  (colour and alpha 0, which is what a zero mask produces) leaves every destination channel value
  unchanged, for the Porter-Duff factors of `Pixman.Spec.ZeroSrc`.  So restricting the composite to
  the trapezoids' bounding box is sound exactly for those operators; for the others the whole
  destination must be composited (which the library does in trapezoid space, not destination
  space: finding `zero-src-matters+dst-offset` of checks/C12.py). -/

open Pixman.Spec.ZeroSrc in
theorem mulUn8_zero_left (b : Nat) : mulUn8 0 b = 0 := by simp [mulUn8]

open Pixman.Spec.ZeroSrc in
theorem mulUn8_255 (d : Nat) (h : d ≤ 255) : mulUn8 d 255 = d := by
  simp only [mulUn8]; omega

open Pixman.Spec.ZeroSrc in
theorem zeroSrc_table_sound (op : Nat) (h : Pixman.Gen.ZeroSrc.zeroSrcHasNoEffect op = true)
    (d da : Nat) (hd : d ≤ 255) : combine op 0 0 d da = some d := by
  have hop : op = 2 ∨ op = 3 ∨ op = 4 ∨ op = 8 ∨ op = 9 ∨ op = 11 ∨ op = 12 := by
    unfold Pixman.Gen.ZeroSrc.zeroSrcHasNoEffect at h
    split at h <;> simp_all
  rcases hop with h | h | h | h | h | h | h <;> subst h <;>
    simp only [combine, fa, fb, factorVal, mulUn8_zero_left, Nat.sub_zero, mulUn8_255 d hd, Nat.zero_add] <;>
    (congr 1; omega)

open Pixman.Spec.ZeroSrc in
/-- the table is tight for the operators it lists: where it says FALSE a zero source does change
    some destination value -/
theorem zeroSrc_table_tight (op : Nat) (hop : op ≤ 12) (h : Pixman.Gen.ZeroSrc.zeroSrcHasNoEffect op = false) :
    ∃ d da, d ≤ 255 ∧ da ≤ 255 ∧ combine op 0 0 d da ≠ some d := by
  refine ⟨255, 255, by omega, by omega, ?_⟩
  have : op = 0 ∨ op = 1 ∨ op = 2 ∨ op = 3 ∨ op = 4 ∨ op = 5 ∨ op = 6 ∨ op = 7 ∨ op = 8 ∨ op = 9 ∨
      op = 10 ∨ op = 11 ∨ op = 12 := by omega
  rcases this with h' | h' | h' | h' | h' | h' | h' | h' | h' | h' | h' | h' | h' <;> subst h' <;>
    first | (exact absurd h (by decide)) | decide

end Pixman.Props.C12

/-! REGENERATED on every run by tools/gen_combine32.py from pixman/pixman-combine32.h — never edit.
Every macro argument and temporary is a `uint32_t` value (`Nat < 2^32`); `+ - * <<` wrap modulo 2^32.
Statement macros return the tuple of the parameters they assign, in parameter order. -/
set_option linter.unusedVariables false
namespace Pixman.Gen.Combine32Macros

def COMPONENT_SIZE : Nat := 8
def MASK : Nat := 255
def ONE_HALF : Nat := 128
def A_SHIFT : Nat := 24
def R_SHIFT : Nat := 16
def G_SHIFT : Nat := 8
def A_MASK : Nat := 4278190080
def R_MASK : Nat := 16711680
def G_MASK : Nat := 65280
def RB_MASK : Nat := 16711935
def AG_MASK : Nat := 4278255360
def RB_ONE_HALF : Nat := 8388736
def RB_MASK_PLUS_ONE : Nat := 16777472

/-- `ALPHA_8(x)`; reads x; expression -/
def ALPHA_8 (x : Nat) : Nat :=
  x >>> ((8 * 3) % 4294967296)

/-- `RED_8(x)`; reads x; expression -/
def RED_8 (x : Nat) : Nat :=
  (x >>> ((8 * 2) % 4294967296)) &&& 255

/-- `GREEN_8(x)`; reads x; expression -/
def GREEN_8 (x : Nat) : Nat :=
  (x >>> 8) &&& 255

/-- `BLUE_8(x)`; reads x; expression -/
def BLUE_8 (x : Nat) : Nat :=
  x &&& 255

/-- `MUL_UN8(a, b, t)`; reads a, b; expression -/
def MUL_UN8 (a b : Nat) : Nat :=
  let t := (((a * (b % 65536)) % 4294967296) + 128) % 4294967296
  (((t >>> 8) + t) % 4294967296) >>> 8

/-- `DIV_UN8(a, b)`; reads a, b; expression -/
def DIV_UN8 (a b : Nat) : Nat :=
  (((((a % 65536) * 255) % 4294967296) + (b / 2)) % 4294967296) / b

/-- `ADD_UN8(x, y, t)`; reads x, y; expression -/
def ADD_UN8 (x y : Nat) : Nat :=
  let t := (x + y) % 4294967296
  ((t ||| ((0 + 4294967296 - (t >>> 8) % 4294967296) % 4294967296)) % 256) % 4294967296

/-- `DIV_ONE_UN8(x)`; reads x; expression -/
def DIV_ONE_UN8 (x : Nat) : Nat :=
  ((((x + 128) % 4294967296) + (((x + 128) % 4294967296) >>> 8)) % 4294967296) >>> 8

/-- `UN8_rb_MUL_UN8(x, a, t)`; reads x, a; assigns x, t -/
def UN8_rb_MUL_UN8 (x a : Nat) : Nat × Nat :=
  let t := ((x &&& 16711935) * a) % 4294967296
  let t := (t + 8388736) % 4294967296
  let x := ((t + ((t >>> 8) &&& 16711935)) % 4294967296) >>> 8
  let x := x &&& 16711935
  (x, t)

/-- `UN8_rb_ADD_UN8_rb(x, y, t)`; reads x, y; assigns x, t -/
def UN8_rb_ADD_UN8_rb (x y : Nat) : Nat × Nat :=
  let t := (x + y) % 4294967296
  let t := t ||| ((16777472 + 4294967296 - ((t >>> 8) &&& 16711935) % 4294967296) % 4294967296)
  let x := t &&& 16711935
  (x, t)

/-- `UN8_rb_MUL_UN8_rb(x, a, t)`; reads x, a; assigns x, t -/
def UN8_rb_MUL_UN8_rb (x a : Nat) : Nat × Nat :=
  let t := ((x &&& 255) * (a &&& 255)) % 4294967296
  let t := t ||| (((x &&& 16711680) * ((a >>> ((8 * 2) % 4294967296)) &&& 255)) % 4294967296)
  let t := (t + 8388736) % 4294967296
  let t := ((t + ((t >>> 8) &&& 16711935)) % 4294967296) >>> 8
  let x := t &&& 16711935
  (x, t)

/-- `UN8x4_MUL_UN8(x, a)`; reads x, a; assigns x -/
def UN8x4_MUL_UN8 (x a : Nat) : Nat :=
  let r1__ := x
  let (r1__, t__) := UN8_rb_MUL_UN8 r1__ a
  let r2__ := x >>> 8
  let (r2__, t__) := UN8_rb_MUL_UN8 r2__ a
  let x := r1__ ||| ((r2__ <<< 8) % 4294967296)
  x

/-- `UN8x4_MUL_UN8_ADD_UN8x4(x, a, y)`; reads x, a, y; assigns x -/
def UN8x4_MUL_UN8_ADD_UN8x4 (x a y : Nat) : Nat :=
  let r1__ := x
  let r2__ := y &&& 16711935
  let (r1__, t__) := UN8_rb_MUL_UN8 r1__ a
  let (r1__, t__) := UN8_rb_ADD_UN8_rb r1__ r2__
  let r2__ := x >>> 8
  let r3__ := (y >>> 8) &&& 16711935
  let (r2__, t__) := UN8_rb_MUL_UN8 r2__ a
  let (r2__, t__) := UN8_rb_ADD_UN8_rb r2__ r3__
  let x := r1__ ||| ((r2__ <<< 8) % 4294967296)
  x

/-- `UN8x4_MUL_UN8_ADD_UN8x4_MUL_UN8(x, a, y, b)`; reads x, a, y, b; assigns x -/
def UN8x4_MUL_UN8_ADD_UN8x4_MUL_UN8 (x a y b : Nat) : Nat :=
  let r1__ := x
  let r2__ := y
  let (r1__, t__) := UN8_rb_MUL_UN8 r1__ a
  let (r2__, t__) := UN8_rb_MUL_UN8 r2__ b
  let (r1__, t__) := UN8_rb_ADD_UN8_rb r1__ r2__
  let r2__ := x >>> 8
  let r3__ := y >>> 8
  let (r2__, t__) := UN8_rb_MUL_UN8 r2__ a
  let (r3__, t__) := UN8_rb_MUL_UN8 r3__ b
  let (r2__, t__) := UN8_rb_ADD_UN8_rb r2__ r3__
  let x := r1__ ||| ((r2__ <<< 8) % 4294967296)
  x

/-- `UN8x4_MUL_UN8x4(x, a)`; reads x, a; assigns x -/
def UN8x4_MUL_UN8x4 (x a : Nat) : Nat :=
  let r1__ := x
  let r2__ := a
  let (r1__, t__) := UN8_rb_MUL_UN8_rb r1__ r2__
  let r2__ := x >>> 8
  let r3__ := a >>> 8
  let (r2__, t__) := UN8_rb_MUL_UN8_rb r2__ r3__
  let x := r1__ ||| ((r2__ <<< 8) % 4294967296)
  x

/-- `UN8x4_MUL_UN8x4_ADD_UN8x4(x, a, y)`; reads x, a, y; assigns x -/
def UN8x4_MUL_UN8x4_ADD_UN8x4 (x a y : Nat) : Nat :=
  let r1__ := x
  let r2__ := a
  let (r1__, t__) := UN8_rb_MUL_UN8_rb r1__ r2__
  let r2__ := y &&& 16711935
  let (r1__, t__) := UN8_rb_ADD_UN8_rb r1__ r2__
  let r2__ := x >>> 8
  let r3__ := a >>> 8
  let (r2__, t__) := UN8_rb_MUL_UN8_rb r2__ r3__
  let r3__ := (y >>> 8) &&& 16711935
  let (r2__, t__) := UN8_rb_ADD_UN8_rb r2__ r3__
  let x := r1__ ||| ((r2__ <<< 8) % 4294967296)
  x

/-- `UN8x4_MUL_UN8x4_ADD_UN8x4_MUL_UN8(x, a, y, b)`; reads x, a, y, b; assigns x -/
def UN8x4_MUL_UN8x4_ADD_UN8x4_MUL_UN8 (x a y b : Nat) : Nat :=
  let r1__ := x
  let r2__ := a
  let (r1__, t__) := UN8_rb_MUL_UN8_rb r1__ r2__
  let r2__ := y
  let (r2__, t__) := UN8_rb_MUL_UN8 r2__ b
  let (r1__, t__) := UN8_rb_ADD_UN8_rb r1__ r2__
  let r2__ := x >>> 8
  let r3__ := a >>> 8
  let (r2__, t__) := UN8_rb_MUL_UN8_rb r2__ r3__
  let r3__ := y >>> 8
  let (r3__, t__) := UN8_rb_MUL_UN8 r3__ b
  let (r2__, t__) := UN8_rb_ADD_UN8_rb r2__ r3__
  let x := r1__ ||| ((r2__ <<< 8) % 4294967296)
  x

/-- `UN8x4_ADD_UN8x4(x, y)`; reads x, y; assigns x -/
def UN8x4_ADD_UN8x4 (x y : Nat) : Nat :=
  let r1__ := x &&& 16711935
  let r2__ := y &&& 16711935
  let (r1__, t__) := UN8_rb_ADD_UN8_rb r1__ r2__
  let r2__ := (x >>> 8) &&& 16711935
  let r3__ := (y >>> 8) &&& 16711935
  let (r2__, t__) := UN8_rb_ADD_UN8_rb r2__ r3__
  let x := r1__ ||| ((r2__ <<< 8) % 4294967296)
  x

end Pixman.Gen.Combine32Macros

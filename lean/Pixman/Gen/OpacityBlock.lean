/- REGENERATED on every run by tools/gen_opacity.py from pixman/pixman.c
(`pixman_image_composite32`) — never edit. -/
import Pixman.Gen.ImageFlags
namespace Pixman.Gen.OpacityBlock
open Pixman.Gen.ImageFlags

def NEAREST_OPAQUE : Nat := FAST_PATH_SAMPLES_OPAQUE ||| FAST_PATH_NEAREST_FILTER ||| FAST_PATH_AFFINE_TRANSFORM ||| FAST_PATH_SAMPLES_COVER_CLIP_NEAREST
def BILINEAR_OPAQUE : Nat := FAST_PATH_SAMPLES_OPAQUE ||| FAST_PATH_BILINEAR_FILTER ||| FAST_PATH_AFFINE_TRANSFORM ||| FAST_PATH_SAMPLES_COVER_CLIP_BILINEAR

/-- the statements between the two macros and `info.op = optimize_operator (...)`, in order;
returns `(info.src_flags, info.mask_flags, info.dest_flags)` -/
def promotionBlock (src_flags mask_flags dest_flags : Nat) : Nat × Nat × Nat :=
  let src_flags := if ((src_flags &&& NEAREST_OPAQUE) == NEAREST_OPAQUE) || ((src_flags &&& BILINEAR_OPAQUE) == BILINEAR_OPAQUE) then src_flags ||| FAST_PATH_IS_OPAQUE else src_flags
  let mask_flags := if ((mask_flags &&& NEAREST_OPAQUE) == NEAREST_OPAQUE) || ((mask_flags &&& BILINEAR_OPAQUE) == BILINEAR_OPAQUE) then mask_flags ||| FAST_PATH_IS_OPAQUE else mask_flags
  (src_flags, mask_flags, dest_flags)

/-- `LERP_CHANNEL (c)` of `bilinear_interpolation_float` (pixman-inlines.h), over `Rat` -/
def lerpChannel (tl tr bl br distx disty : Rat) : Rat :=
  let top := tl + distx * (tr - tl)
  let bot := bl + distx * (br - bl)
  top + disty * (bot - top)

end Pixman.Gen.OpacityBlock

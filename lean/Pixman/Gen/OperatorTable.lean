/-! REGENERATED on every run by tools/gen_optable.py from pixman/pixman.c, pixman/pixman.h and
pixman/pixman-private.h — never edit. -/
namespace Pixman.Gen.OperatorTable

/-- `pixman_op_t`: (enumerator without the `PIXMAN_OP_` prefix, number) -/
def opCodes : List (String × Nat) := [
  ("CLEAR", 0),
  ("SRC", 1),
  ("DST", 2),
  ("OVER", 3),
  ("OVER_REVERSE", 4),
  ("IN", 5),
  ("IN_REVERSE", 6),
  ("OUT", 7),
  ("OUT_REVERSE", 8),
  ("ATOP", 9),
  ("ATOP_REVERSE", 10),
  ("XOR", 11),
  ("ADD", 12),
  ("SATURATE", 13),
  ("DISJOINT_CLEAR", 16),
  ("DISJOINT_SRC", 17),
  ("DISJOINT_DST", 18),
  ("DISJOINT_OVER", 19),
  ("DISJOINT_OVER_REVERSE", 20),
  ("DISJOINT_IN", 21),
  ("DISJOINT_IN_REVERSE", 22),
  ("DISJOINT_OUT", 23),
  ("DISJOINT_OUT_REVERSE", 24),
  ("DISJOINT_ATOP", 25),
  ("DISJOINT_ATOP_REVERSE", 26),
  ("DISJOINT_XOR", 27),
  ("CONJOINT_CLEAR", 32),
  ("CONJOINT_SRC", 33),
  ("CONJOINT_DST", 34),
  ("CONJOINT_OVER", 35),
  ("CONJOINT_OVER_REVERSE", 36),
  ("CONJOINT_IN", 37),
  ("CONJOINT_IN_REVERSE", 38),
  ("CONJOINT_OUT", 39),
  ("CONJOINT_OUT_REVERSE", 40),
  ("CONJOINT_ATOP", 41),
  ("CONJOINT_ATOP_REVERSE", 42),
  ("CONJOINT_XOR", 43),
  ("MULTIPLY", 48),
  ("SCREEN", 49),
  ("OVERLAY", 50),
  ("DARKEN", 51),
  ("LIGHTEN", 52),
  ("COLOR_DODGE", 53),
  ("COLOR_BURN", 54),
  ("HARD_LIGHT", 55),
  ("SOFT_LIGHT", 56),
  ("DIFFERENCE", 57),
  ("EXCLUSION", 58),
  ("HSL_HUE", 59),
  ("HSL_SATURATION", 60),
  ("HSL_COLOR", 61),
  ("HSL_LUMINOSITY", 62)
]

/-- `operator_table[]`: row `i` belongs to operator number `i`; cells are the replacement
operator when neither / the source / the destination / both are opaque -/
def operatorTable : List (List Nat) := [
  [0, 0, 0, 0],   -- 0x00
  [1, 1, 1, 1],   -- 0x01
  [2, 2, 2, 2],   -- 0x02
  [3, 1, 3, 1],   -- 0x03
  [4, 4, 2, 2],   -- 0x04
  [5, 5, 1, 1],   -- 0x05
  [6, 2, 6, 2],   -- 0x06
  [7, 7, 0, 0],   -- 0x07
  [8, 0, 8, 0],   -- 0x08
  [9, 5, 3, 1],   -- 0x09
  [10, 4, 6, 2],   -- 0x0a
  [11, 7, 8, 0],   -- 0x0b
  [12, 12, 12, 12],   -- 0x0c
  [13, 4, 2, 2],   -- 0x0d
  [0, 0, 0, 0],   -- 0x0e
  [0, 0, 0, 0],   -- 0x0f
  [0, 0, 0, 0],   -- 0x10
  [1, 1, 1, 1],   -- 0x11
  [2, 2, 2, 2],   -- 0x12
  [19, 19, 19, 19],   -- 0x13
  [20, 20, 20, 20],   -- 0x14
  [21, 21, 21, 21],   -- 0x15
  [22, 22, 22, 22],   -- 0x16
  [23, 23, 23, 23],   -- 0x17
  [24, 24, 24, 24],   -- 0x18
  [25, 25, 25, 25],   -- 0x19
  [26, 26, 26, 26],   -- 0x1a
  [27, 27, 27, 27],   -- 0x1b
  [0, 0, 0, 0],   -- 0x1c
  [0, 0, 0, 0],   -- 0x1d
  [0, 0, 0, 0],   -- 0x1e
  [0, 0, 0, 0],   -- 0x1f
  [0, 0, 0, 0],   -- 0x20
  [1, 1, 1, 1],   -- 0x21
  [2, 2, 2, 2],   -- 0x22
  [35, 35, 35, 35],   -- 0x23
  [36, 36, 36, 36],   -- 0x24
  [37, 37, 37, 37],   -- 0x25
  [38, 38, 38, 38],   -- 0x26
  [39, 39, 39, 39],   -- 0x27
  [40, 40, 40, 40],   -- 0x28
  [41, 41, 41, 41],   -- 0x29
  [42, 42, 42, 42],   -- 0x2a
  [43, 43, 43, 43],   -- 0x2b
  [0, 0, 0, 0],   -- 0x2c
  [0, 0, 0, 0],   -- 0x2d
  [0, 0, 0, 0],   -- 0x2e
  [0, 0, 0, 0],   -- 0x2f
  [48, 48, 48, 48],   -- 0x30
  [49, 49, 49, 49],   -- 0x31
  [50, 50, 50, 50],   -- 0x32
  [51, 51, 51, 51],   -- 0x33
  [52, 52, 52, 52],   -- 0x34
  [53, 53, 53, 53],   -- 0x35
  [54, 54, 54, 54],   -- 0x36
  [55, 55, 55, 55],   -- 0x37
  [56, 56, 56, 56],   -- 0x38
  [57, 57, 57, 57],   -- 0x39
  [58, 58, 58, 58],   -- 0x3a
  [59, 59, 59, 59],   -- 0x3b
  [60, 60, 60, 60],   -- 0x3c
  [61, 61, 61, 61],   -- 0x3d
  [62, 62, 62, 62]    -- 0x3e
]

def OPAQUE_SHIFT : Nat := 13
def FAST_PATH_IS_OPAQUE : Nat := 1 <<< 13

/-- `operator_table[op].opaque_info[i]` (0 outside the table, where C is undefined) -/
def cell (op i : Nat) : Nat := (operatorTable.getD op []).getD i 0

/-- `optimize_operator (op, src_flags, mask_flags, dst_flags)` -/
def optimizeOperator (op src_flags mask_flags dst_flags : Nat) : Nat :=
  let is_dest_opaque := dst_flags &&& FAST_PATH_IS_OPAQUE
  let is_source_opaque := (src_flags &&& mask_flags) &&& FAST_PATH_IS_OPAQUE
  let is_dest_opaque := is_dest_opaque >>> (OPAQUE_SHIFT - 1)
  let is_source_opaque := is_source_opaque >>> OPAQUE_SHIFT
  cell op (is_dest_opaque ||| is_source_opaque)

end Pixman.Gen.OperatorTable

import Pixman.Lemmas.CSem
import Pixman.Gen.Combine32Macros
/-! REGENERATED on every run by tools/gen_cfuncs.py from the preprocessed C sources — never edit.
One definition per C function / statement block; the docstring names `file:function`, the C type of
every argument and result.  Integer semantics: see tools/gen_cfuncs.py and Pixman/Lemmas/CSem.lean. -/
set_option linter.unusedVariables false
namespace Pixman.Gen.CFuncs
open Pixman.CSem Pixman.Gen

/-- `pixman/pixman-matrix.c:rounded_udiv_128_by_48` (int mode).  Arguments: hi : uint64_t, lo : uint64_t, div : uint64_t.  Result: (return : uint64_t, result_hi : uint64_t). -/
def rounded_udiv_128_by_48 (hi : Int) (lo : Int) (div : Int) : Int × Int :=
  let remainder := hi % div
  let result_hi := hi / div
  let tmp := u64 ((u64 (remainder * 65536)) + (lo / 281474976710656))
  let result_lo := tmp / div
  let remainder := tmp % div
  let tmp := u64 ((u64 (remainder * 65536)) + ((lo / 4294967296) % 65536))
  let result_lo := u64 ((u64 (result_lo * 65536)) + (tmp / div))
  let remainder := tmp % div
  let tmp := u64 ((u64 (remainder * 65536)) + ((lo / 65536) % 65536))
  let result_lo := u64 ((u64 (result_lo * 65536)) + (tmp / div))
  let remainder := tmp % div
  let tmp := u64 ((u64 (remainder * 65536)) + (lo % 65536))
  let result_lo := u64 ((u64 (result_lo * 65536)) + (tmp / div))
  let remainder := tmp % div
  if u64 (remainder * 2) ≥ div then
    let result_lo := u64 (result_lo + 1)
    if result_lo = 0 then
      let result_hi := u64 (result_hi + 1)
      (result_lo, result_hi)
    else
      (result_lo, result_hi)
  else
    (result_lo, result_hi)

/-- every `assert` reached by `rounded_udiv_128_by_48` holds (`false` = the C function aborts) -/
def rounded_udiv_128_by_48_ok (hi : Int) (lo : Int) (div : Int) : Bool :=
  decide (div ≤ 281474976710656)

/-- `pixman/pixman-matrix.c:rounded_sdiv_128_by_49` (int mode).  Arguments: hi : int64_t, lo : uint64_t, div : int64_t.  Result: (return : int64_t, signed_result_hi : int64_t). -/
def rounded_sdiv_128_by_49 (hi : Int) (lo : Int) (div : Int) : Int × Int :=
  let sign := 0
  let j1 := if div < 0 then
      let div := s64 (-div)
      let sign := sbxor sign 1
      (div, sign)
    else
      (div, sign)
  let div := j1.1
  let sign := j1.2
  let j2 := if hi < 0 then
      let hi := if lo ≠ 0 then
          s64 (hi + 1)
        else
          hi
      let hi := s64 (-hi)
      let lo := u64 (-lo)
      let sign := sbxor sign 1
      (hi, lo, sign)
    else
      (hi, lo, sign)
  let hi := j2.1
  let lo := j2.2.1
  let sign := j2.2.2
  let r3 := rounded_udiv_128_by_48 (u64 hi) lo (u64 div)
  let result_lo := r3.1
  let result_hi := r3.2
  let j4 := if sign ≠ 0 then
      let result_hi := if result_lo ≠ 0 then
          u64 (result_hi + 1)
        else
          result_hi
      let result_hi := u64 (-result_hi)
      let result_lo := u64 (-result_lo)
      (result_hi, result_lo)
    else
      (result_hi, result_lo)
  let result_hi := j4.1
  let result_lo := j4.2
  let signed_result_hi := s64 result_hi
  (s64 result_lo, signed_result_hi)

/-- every `assert` reached by `rounded_sdiv_128_by_49` holds (`false` = the C function aborts) -/
def rounded_sdiv_128_by_49_ok (hi : Int) (lo : Int) (div : Int) : Bool :=
  let sign := 0
  let j1 := if div < 0 then
      let div := s64 (-div)
      let sign := sbxor sign 1
      (div, sign)
    else
      (div, sign)
  let div := j1.1
  let sign := j1.2
  let j2 := if hi < 0 then
      let hi := if lo ≠ 0 then
          s64 (hi + 1)
        else
          hi
      let hi := s64 (-hi)
      let lo := u64 (-lo)
      let sign := sbxor sign 1
      (hi, lo, sign)
    else
      (hi, lo, sign)
  let hi := j2.1
  let lo := j2.2.1
  let sign := j2.2.2
  (rounded_udiv_128_by_48_ok (u64 hi) lo (u64 div))

/-- `pixman/pixman-matrix.c:fixed_64_16_to_int128` (int mode).  Arguments: hi : int64_t, lo : int64_t, scalebits : int32_t.  Result: (rhi : int64_t, rlo : int64_t). -/
def fixed_64_16_to_int128 (hi : Int) (lo : Int) (scalebits : Int) : Int × Int :=
  let hi := s64 (hi + (lo / 65536))
  let lo := lo % 65536
  if scalebits ≤ 0 then
    let rlo := hi / 2 ^ (-scalebits).toNat
    let rhi := rlo / 9223372036854775808
    (rhi, rlo)
  else
    let rhi := hi / 2 ^ (64 - scalebits).toNat
    let rlo := s64 (u64 ((u64 hi) * 2 ^ (scalebits).toNat))
    if scalebits < 16 then
      let rlo := s64 (rlo + (lo / 2 ^ (16 - scalebits).toNat))
      (rhi, rlo)
    else
      let rlo := s64 (rlo + (lo * 2 ^ (scalebits - 16).toNat))
      (rhi, rlo)

/-- `pixman/pixman-matrix.c:fixed_112_16_to_fixed_48_16` (int mode).  Arguments: hi : int64_t, lo : int64_t, clampflag : int32_t.  Result: (return : int64_t, clampflag : int32_t). -/
def fixed_112_16_to_fixed_48_16 (hi : Int) (lo : Int) (clampflag : Int) : Int × Int :=
  if lo / 9223372036854775808 ≠ hi then
    let clampflag := 1
    (if hi ≥ 0 then 9223372036854775807 else (-9223372036854775808), clampflag)
  else
    (lo, clampflag)

/-- `pixman/pixman-trap.c:pixman_sample_ceil_y` (int mode).  Arguments: y : int32_t, n = 1 (specialised).  Result: (return : int32_t). -/
def pixman_sample_ceil_y_1 (y : Int) : Int :=
  let f := y % 65536
  let i := y - y % 65536
  let f := s32 (((if ¬((f - 32768) + 65535 < 0) then Int.tdiv ((f - 32768) + 65535) 65536 else Int.tdiv (((((f - 32768) + 65535) - 65536) + 1) - 0) 65536) * 65536) + 32768)
  if f > 32768 then
    if i / 65536 = 32767 then
      let f := 65535
      sbor i f
    else
      let f := 32768
      let i := s32 (i + 65536)
      sbor i f
  else
    sbor i f

/-- `pixman/pixman-trap.c:pixman_sample_ceil_y` (int mode).  Arguments: y : int32_t, n = 4 (specialised).  Result: (return : int32_t). -/
def pixman_sample_ceil_y_4 (y : Int) : Int :=
  let f := y % 65536
  let i := y - y % 65536
  let f := s32 (((if ¬((f - 10923) + 21844 < 0) then Int.tdiv ((f - 10923) + 21844) 21845 else Int.tdiv (((((f - 10923) + 21844) - 21845) + 1) - 0) 21845) * 21845) + 10923)
  if f > 54613 then
    if i / 65536 = 32767 then
      let f := 65535
      sbor i f
    else
      let f := 10923
      let i := s32 (i + 65536)
      sbor i f
  else
    sbor i f

/-- `pixman/pixman-trap.c:pixman_sample_ceil_y` (int mode).  Arguments: y : int32_t, n = 8 (specialised).  Result: (return : int32_t). -/
def pixman_sample_ceil_y_8 (y : Int) : Int :=
  let f := y % 65536
  let i := y - y % 65536
  let f := s32 (((if ¬((f - 2185) + 4368 < 0) then Int.tdiv ((f - 2185) + 4368) 4369 else Int.tdiv (((((f - 2185) + 4368) - 4369) + 1) - 0) 4369) * 4369) + 2185)
  if f > 63351 then
    if i / 65536 = 32767 then
      let f := 65535
      sbor i f
    else
      let f := 2185
      let i := s32 (i + 65536)
      sbor i f
  else
    sbor i f

/-- `pixman/pixman-trap.c:pixman_sample_floor_y` (int mode).  Arguments: y : int32_t, n = 1 (specialised).  Result: (return : int32_t). -/
def pixman_sample_floor_y_1 (y : Int) : Int :=
  let f := y % 65536
  let i := y - y % 65536
  let f := s32 (((if ¬((f - 1) - 32768 < 0) then Int.tdiv ((f - 1) - 32768) 65536 else Int.tdiv (((((f - 1) - 32768) - 65536) + 1) - 0) 65536) * 65536) + 32768)
  if f < 32768 then
    if i / 65536 = (-32768) then
      let f := 0
      sbor i f
    else
      let f := 32768
      let i := s32 (i - 65536)
      sbor i f
  else
    sbor i f

/-- `pixman/pixman-trap.c:pixman_sample_floor_y` (int mode).  Arguments: y : int32_t, n = 4 (specialised).  Result: (return : int32_t). -/
def pixman_sample_floor_y_4 (y : Int) : Int :=
  let f := y % 65536
  let i := y - y % 65536
  let f := s32 (((if ¬((f - 1) - 10923 < 0) then Int.tdiv ((f - 1) - 10923) 21845 else Int.tdiv (((((f - 1) - 10923) - 21845) + 1) - 0) 21845) * 21845) + 10923)
  if f < 10923 then
    if i / 65536 = (-32768) then
      let f := 0
      sbor i f
    else
      let f := 54613
      let i := s32 (i - 65536)
      sbor i f
  else
    sbor i f

/-- `pixman/pixman-trap.c:pixman_sample_floor_y` (int mode).  Arguments: y : int32_t, n = 8 (specialised).  Result: (return : int32_t). -/
def pixman_sample_floor_y_8 (y : Int) : Int :=
  let f := y % 65536
  let i := y - y % 65536
  let f := s32 (((if ¬((f - 1) - 2185 < 0) then Int.tdiv ((f - 1) - 2185) 4369 else Int.tdiv (((((f - 1) - 2185) - 4369) + 1) - 0) 4369) * 4369) + 2185)
  if f < 2185 then
    if i / 65536 = (-32768) then
      let f := 0
      sbor i f
    else
      let f := 63351
      let i := s32 (i - 65536)
      sbor i f
  else
    sbor i f

/-- `pixman/pixman-trap.c:pixman_edge_step` (int mode).  Arguments: e_x : int32_t, e_e : int32_t, e_stepx : int32_t, e_signdx : int32_t, e_dy : int32_t, e_dx : int32_t, n : int32_t.  Result: (e_x : int32_t, e_e : int32_t). -/
def pixman_edge_step (e_x : Int) (e_e : Int) (e_stepx : Int) (e_signdx : Int) (e_dy : Int) (e_dx : Int) (n : Int) : Int × Int :=
  let e_x := s32 (e_x + (n * e_stepx))
  let ne := e_e + (n * e_dx)
  if n ≥ 0 then
    if ne > 0 then
      let nx := s32 (Int.tdiv ((ne + e_dy) - 1) e_dy)
      let e_e := s32 (ne - (nx * e_dy))
      let e_x := s32 (e_x + (nx * e_signdx))
      (e_x, e_e)
    else
      (e_x, e_e)
  else
    if ne ≤ -e_dy then
      let nx := s32 (Int.tdiv (-ne) e_dy)
      let e_e := s32 (ne + (nx * e_dy))
      let e_x := s32 (e_x - (nx * e_signdx))
      (e_x, e_e)
    else
      (e_x, e_e)

/-- `pixman/pixman-trap.c:_pixman_edge_multi_init` (int mode).  Arguments: e_stepx : int32_t, e_signdx : int32_t, e_dy : int32_t, e_dx : int32_t, n : int32_t.  Result: (stepx_p : int32_t, dx_p : int32_t). -/
def _pixman_edge_multi_init (e_stepx : Int) (e_signdx : Int) (e_dy : Int) (e_dx : Int) (n : Int) : Int × Int :=
  let ne := n * e_dx
  let stepx := s32 (n * e_stepx)
  let j1 := if ne > 0 then
      let nx := s32 (Int.tdiv ne e_dy)
      let ne := s64 (ne - (nx * e_dy))
      let stepx := s32 (stepx + (nx * e_signdx))
      (ne, stepx)
    else
      (ne, stepx)
  let ne := j1.1
  let stepx := j1.2
  let dx_p := s32 ne
  let stepx_p := stepx
  (stepx_p, dx_p)

/-- `pixman/pixman-inlines.h:repeat` (int mode).  Arguments: repeat : uint32_t, c : int32_t, size : int32_t.  Result: (return : int32_t, c : int32_t). -/
def repeat_ (repeat_ : Int) (c : Int) (size : Int) : Int × Int :=
  if repeat_ = 0 then
    if (c < 0) ∨ (c ≥ size) then
      (0, c)
    else
      (1, c)
  else
    if repeat_ = 1 then
      let c := s32 (subLoop c size)
      let c := s32 (addLoop c size)
      (1, c)
    else
      if repeat_ = 2 then
        let c := s32 (if c < 0 then 0 else if c > size - 1 then size - 1 else c)
        (1, c)
      else
        let c := s32 (if c < 0 then ((size * 2) - (Int.tmod ((-c) - 1) (size * 2))) - 1 else Int.tmod c (size * 2))
        if c ≥ size then
          let c := s32 (((size * 2) - c) - 1)
          (1, c)
        else
          (1, c)

/-- `pixman/pixman-inlines.h:pixman_fixed_to_bilinear_weight` (int mode).  Arguments: x : int32_t.  Result: (return : int32_t). -/
def pixman_fixed_to_bilinear_weight (x : Int) : Int :=
  (x / 512) % 128

/-- `pixman/pixman-inlines.h:bilinear_interpolation` (nat mode).  Arguments: tl : uint32_t, tr : uint32_t, bl : uint32_t, br : uint32_t, distx : int32_t, disty : int32_t.  Result: (return : uint32_t).  Precondition: 0 <= distx <= 127.  Precondition: 0 <= disty <= 127. -/
def bilinear_interpolation (tl : Nat) (tr : Nat) (bl : Nat) (br : Nat) (distx : Nat) (disty : Nat) : Nat :=
  let distx := distx <<< 1
  let disty := disty <<< 1
  let distxy := distx * disty
  let distxiy := distx * (256 - disty)
  let distixy := (256 - distx) * disty
  let distixiy := (256 - distx) * (256 - disty)
  let tl64 := tl &&& 4278190335
  let tr64 := tr &&& 4278190335
  let bl64 := bl &&& 4278190335
  let br64 := br &&& 4278190335
  let f := (((((((tl64 * distixiy) % 18446744073709551616) + ((tr64 * distxiy) % 18446744073709551616)) % 18446744073709551616) + ((bl64 * distixy) % 18446744073709551616)) % 18446744073709551616) + ((br64 * distxy) % 18446744073709551616)) % 18446744073709551616
  let r := f &&& 280375481794560
  let tl64 := tl
  let tl64 := (((tl64 <<< 16) % 18446744073709551616) &&& 1095216660480) ||| (tl64 &&& 65280)
  let tr64 := tr
  let tr64 := (((tr64 <<< 16) % 18446744073709551616) &&& 1095216660480) ||| (tr64 &&& 65280)
  let bl64 := bl
  let bl64 := (((bl64 <<< 16) % 18446744073709551616) &&& 1095216660480) ||| (bl64 &&& 65280)
  let br64 := br
  let br64 := (((br64 <<< 16) % 18446744073709551616) &&& 1095216660480) ||| (br64 &&& 65280)
  let f := (((((((tl64 * distixiy) % 18446744073709551616) + ((tr64 * distxiy) % 18446744073709551616)) % 18446744073709551616) + ((bl64 * distixy) % 18446744073709551616)) % 18446744073709551616) + ((br64 * distxy) % 18446744073709551616)) % 18446744073709551616
  let r := r ||| (((f >>> 16) &&& 1095216660480) ||| (f &&& 4278190080))
  r >>> 16

/-- `pixman/pixman-inlines.h:pad_repeat_get_scanline_bounds` (int mode).  Arguments: source_image_width : int32_t, vx : int32_t, unit_x : int32_t, width : int32_t.  Result: (width : int32_t, left_pad : int32_t, right_pad : int32_t). -/
def pad_repeat_get_scanline_bounds (source_image_width : Int) (vx : Int) (unit_x : Int) (width : Int) : Int × Int × Int :=
  let max_vx := source_image_width * 65536
  let j1 := if vx < 0 then
      let tmp := s64 (Int.tdiv ((unit_x - 1) - vx) unit_x)
      if tmp > width then
        let left_pad := width
        let width := 0
        (left_pad, width)
      else
        let left_pad := s32 tmp
        let width := s32 (width - (s32 tmp))
        (left_pad, width)
    else
      let left_pad := 0
      (left_pad, width)
  let left_pad := j1.1
  let width := j1.2
  let tmp := s64 ((Int.tdiv (((unit_x - 1) - vx) + max_vx) unit_x) - left_pad)
  if tmp < 0 then
    let right_pad := width
    let width := 0
    (width, left_pad, right_pad)
  else
    if tmp ≥ width then
      let right_pad := 0
      (width, left_pad, right_pad)
    else
      let right_pad := s32 (width - (s32 tmp))
      let width := s32 tmp
      (width, left_pad, right_pad)

/-- `pixman/pixman-utils.c:convert_8888_to_0565` (nat mode).  Arguments: s : uint32_t.  Result: (return : uint16_t). -/
def convert_8888_to_0565 (s : Nat) : Nat :=
  let a := (s >>> 3) &&& 2031647
  let b := s &&& 64512
  let a := a ||| (a >>> 5)
  let a := a ||| (b >>> 5)
  a % 65536

/-- `pixman/pixman-utils.c:convert_0565_to_0888` (nat mode).  Arguments: s : uint16_t.  Result: (return : uint32_t). -/
def convert_0565_to_0888 (s : Nat) : Nat :=
  ((((s <<< 3) &&& 248) ||| ((s >>> 2) &&& 7)) ||| (((s <<< 5) &&& 64512) ||| ((s >>> 1) &&& 768))) ||| (((s <<< 8) &&& 16252928) ||| ((s <<< 3) &&& 458752))

/-- `pixman/pixman-utils.c:convert_0565_to_8888` (nat mode).  Arguments: s : uint16_t.  Result: (return : uint32_t). -/
def convert_0565_to_8888 (s : Nat) : Nat :=
  (convert_0565_to_0888 s) ||| 4278190080

/-- `pixman/pixman-utils.c:unorm_to_unorm` (nat mode).  Arguments: val : uint32_t, from_bits : int32_t, to_bits : int32_t.  Result: (return : uint32_t).  Precondition: from_bits >= 0.  Precondition: to_bits >= 0. -/
def unorm_to_unorm (val : Nat) (from_bits : Nat) (to_bits : Nat) : Nat :=
  if from_bits = 0 then
    0
  else
    let val := val &&& (((1 <<< from_bits) - 1) % 4294967296)
    if from_bits ≥ to_bits then
      val >>> (from_bits - to_bits)
    else
      let result := (val <<< (to_bits - from_bits)) % 4294967296
      let j1 := if from_bits < to_bits then
          let result := result ||| (result >>> from_bits)
          let from_bits := from_bits * 2
          (result, from_bits)
        else
          (result, from_bits)
      let result := j1.1
      let from_bits := j1.2
      let j2 := if from_bits < to_bits then
          let result := result ||| (result >>> from_bits)
          let from_bits := from_bits * 2
          (result, from_bits)
        else
          (result, from_bits)
      let result := j2.1
      let from_bits := j2.2
      let j3 := if from_bits < to_bits then
          let result := result ||| (result >>> from_bits)
          let from_bits := from_bits * 2
          (result, from_bits)
        else
          (result, from_bits)
      let result := j3.1
      let from_bits := j3.2
      let j4 := if from_bits < to_bits then
          let result := result ||| (result >>> from_bits)
          let from_bits := from_bits * 2
          (result, from_bits)
        else
          (result, from_bits)
      let result := j4.1
      let from_bits := j4.2
      if from_bits < to_bits then
        let result := result ||| (result >>> from_bits)
        let from_bits := from_bits * 2
        result
      else
        result

/-- `pixman/pixman-utils.c:_pixman_multiply_overflows_size` (int mode).  Arguments: a : uint64_t, b : uint64_t.  Result: (return : int32_t). -/
def _pixman_multiply_overflows_size (a : Int) (b : Int) : Int :=
  if a ≥ 18446744073709551615 / b then 1 else 0

/-- `pixman/pixman-utils.c:_pixman_multiply_overflows_int` (int mode).  Arguments: a : uint32_t, b : uint32_t.  Result: (return : int32_t). -/
def _pixman_multiply_overflows_int (a : Int) (b : Int) : Int :=
  if a ≥ 2147483647 / b then 1 else 0

/-- `pixman/pixman-utils.c:_pixman_addition_overflows_int` (int mode).  Arguments: a : uint32_t, b : uint32_t.  Result: (return : int32_t). -/
def _pixman_addition_overflows_int (a : Int) (b : Int) : Int :=
  if a > u32 (2147483647 - b) then 1 else 0

/-- `pixman/pixman-utils.c:pixman_malloc_ab` (int mode).  Arguments: a : uint32_t, b : uint32_t.  Result: (malloc called : 0/1, size : uint64_t). -/
def pixman_malloc_ab (a : Int) (b : Int) : Int × Int :=
  if a ≥ 2147483647 / b then
    (0, 0)
  else
    (1, u32 (a * b))

/-- `pixman/pixman-utils.c:pixman_malloc_abc` (int mode).  Arguments: a : uint32_t, b : uint32_t, c : uint32_t.  Result: (malloc called : 0/1, size : uint64_t). -/
def pixman_malloc_abc (a : Int) (b : Int) (c : Int) : Int × Int :=
  if a ≥ 2147483647 / b then
    (0, 0)
  else
    if u32 (a * b) ≥ 2147483647 / c then
      (0, 0)
    else
      (1, u32 ((u32 (a * b)) * c))

/-- `pixman/pixman-utils.c:pixman_malloc_ab_plus_c` (int mode).  Arguments: a : uint32_t, b : uint32_t, c : uint32_t.  Result: (malloc called : 0/1, size : uint64_t). -/
def pixman_malloc_ab_plus_c (a : Int) (b : Int) (c : Int) : Int × Int :=
  if ((b = 0) ∨ (a ≥ 2147483647 / b)) ∨ (u32 (a * b) > u32 (2147483647 - c)) then
    (0, 0)
  else
    (1, u32 ((u32 (a * b)) + c))

/-- `pixman/pixman.c:color_to_uint32` (nat mode).  Arguments: color_red : uint16_t, color_green : uint16_t, color_blue : uint16_t, color_alpha : uint16_t.  Result: (return : uint32_t). -/
def color_to_uint32 (color_red : Nat) (color_green : Nat) (color_blue : Nat) (color_alpha : Nat) : Nat :=
  (((((color_alpha >>> 8) <<< 24) ||| ((color_red >>> 8) <<< 16)) ||| (color_green &&& 65280)) ||| (color_blue >>> 8)) % 4294967296

/-- `pixman/pixman.c:color_to_pixel` (nat mode).  Arguments: color_red : uint16_t, color_green : uint16_t, color_blue : uint16_t, color_alpha : uint16_t, pixel : uint32_t, format : uint32_t.  Result: (return : int32_t, pixel : uint32_t). -/
def color_to_pixel (color_red : Nat) (color_green : Nat) (color_blue : Nat) (color_alpha : Nat) (pixel : Nat) (format : Nat) : Nat × Nat :=
  let c := color_to_uint32 color_red color_green color_blue color_alpha
  if (format >>> 16) &&& 63 = 11 then
    (0, pixel)
  else
    if ¬((((((((((((format = 537036936) ∨ (format = 537004168)) ∨ (format = 537102472)) ∨ (format = 537069704)) ∨ (format = 537430152)) ∨ (format = 537397384)) ∨ (format = 537495688)) ∨ (format = 537462920)) ∨ (format = 268567909)) ∨ (format = 268633445)) ∨ (format = 134316032)) ∨ (format = 16846848)) then
      (0, pixel)
    else
      let c := if (format >>> 16) &&& 63 = 3 then
          ((((c &&& 4278190080) >>> 0) ||| ((c &&& 16711680) >>> 16)) ||| ((c &&& 65280) >>> 0)) ||| (((c &&& 255) <<< 16) % 4294967296)
        else
          c
      let c := if (format >>> 16) &&& 63 = 8 then
          ((((c &&& 4278190080) >>> 24) ||| ((c &&& 16711680) >>> 8)) ||| (((c &&& 65280) <<< 8) % 4294967296)) ||| (((c &&& 255) <<< 24) % 4294967296)
        else
          c
      let c := if (format >>> 16) &&& 63 = 9 then
          ((c &&& 4278190080) >>> 24) ||| ((c <<< 8) % 4294967296)
        else
          c
      let c := if format = 16846848 then
          c >>> 31
        else
          if format = 134316032 then
            let c := c >>> 24
            c
          else
            if (format = 268567909) ∨ (format = 268633445) then
              let c := convert_8888_to_0565 c
              c
            else
              c
      let pixel := c
      (1, pixel)

/-- `pixman/pixman-glyph.c:hash` (nat mode).  Arguments: font_key : uint64_t, glyph_key : uint64_t.  Result: (return : uint32_t). -/
def glyph_hash (font_key : Nat) (glyph_key : Nat) : Nat :=
  let key := (font_key + glyph_key) % 18446744073709551616
  let key := (((((key <<< 15) % 18446744073709551616) + 18446744073709551616 - key % 18446744073709551616) % 18446744073709551616) + 18446744073709551616 - 1 % 18446744073709551616) % 18446744073709551616
  let key := key ^^^ (key >>> 12)
  let key := (key + ((key <<< 2) % 18446744073709551616)) % 18446744073709551616
  let key := key ^^^ (key >>> 4)
  let key := (((key + ((key <<< 3) % 18446744073709551616)) % 18446744073709551616) + ((key <<< 11) % 18446744073709551616)) % 18446744073709551616
  let key := key ^^^ (key >>> 16)
  key % 4294967296

/-- `pixman/pixman-combine32.c:combine_mask_ca` (nat mode).  Arguments: src : uint32_t, mask : uint32_t.  Result: (src : uint32_t, mask : uint32_t). -/
def combine_mask_ca (src : Nat) (mask : Nat) : Nat × Nat :=
  let a := mask
  if a = 0 then
    let src := 0
    (src, mask)
  else
    let x := src
    if a = 4294967295 then
      let x := x >>> 24
      let x := x ||| ((x <<< 8) % 4294967296)
      let x := x ||| ((x <<< 16) % 4294967296)
      let mask := x
      (src, mask)
    else
      let xa := x >>> 24
      let x := Combine32Macros.UN8x4_MUL_UN8x4 x a
      let src := x
      let a := Combine32Macros.UN8x4_MUL_UN8 a xa
      let mask := a
      (src, mask)

/-- `pixman/pixman-combine32.c:combine_mask_value_ca` (nat mode).  Arguments: src : uint32_t, mask : uint32_t.  Result: (src : uint32_t). -/
def combine_mask_value_ca (src : Nat) (mask : Nat) : Nat :=
  let a := mask
  if a = 0 then
    let src := 0
    src
  else
    if a = 4294967295 then
      src
    else
      let x := src
      let x := Combine32Macros.UN8x4_MUL_UN8x4 x a
      let src := x
      src

/-- `pixman/pixman-combine32.c:combine_mask_alpha_ca` (nat mode).  Arguments: src : uint32_t, mask : uint32_t.  Result: (mask : uint32_t). -/
def combine_mask_alpha_ca (src : Nat) (mask : Nat) : Nat :=
  let a := mask
  if a = 0 then
    mask
  else
    let x := src >>> 24
    if x = 255 then
      mask
    else
      if a = 4294967295 then
        let x := x ||| ((x <<< 8) % 4294967296)
        let x := x ||| ((x <<< 16) % 4294967296)
        let mask := x
        mask
      else
        let a := Combine32Macros.UN8x4_MUL_UN8 a x
        let mask := a
        mask

/-- `pixman/pixman-combine32.c:combine_mask` (nat mode).  Arguments: src_i : uint32_t, mask_i : uint32_t.  Result: (return : uint32_t). -/
def combine_mask_m (src_i : Nat) (mask_i : Nat) : Nat :=
  let m := mask_i >>> 24
  if m = 0 then
    0
  else
    let s := src_i
    let s := Combine32Macros.UN8x4_MUL_UN8 s m
    s

/-- `pixman/pixman-combine32.c:combine_mask` (nat mode).  Arguments: src_i : uint32_t.  Result: (return : uint32_t). -/
def combine_mask_n (src_i : Nat) : Nat :=
  let s := src_i
  s

/-- `pixman/pixman-combine32.c:combine_src_u` (nat mode).  Arguments: src_i : uint32_t, mask_i : uint32_t.  Result: (dest_i : uint32_t). -/
def combine_src_u_m (src_i : Nat) (mask_i : Nat) : Nat :=
  let s := combine_mask_m src_i mask_i
  let dest_i := s
  dest_i

/-- `pixman/pixman-combine32.c:combine_over_u` (nat mode).  Arguments: src_i : uint32_t, mask_i : uint32_t, dest_i : uint32_t.  Result: (dest_i : uint32_t). -/
def combine_over_u_m (src_i : Nat) (mask_i : Nat) (dest_i : Nat) : Nat :=
  let m := Combine32Macros.ALPHA_8 mask_i
  if m = 255 then
    let s := src_i
    let a := Combine32Macros.ALPHA_8 s
    if a = 255 then
      let dest_i := s
      dest_i
    else
      if s ≠ 0 then
        let d := dest_i
        let ia := a ^^^ 255
        let d := Combine32Macros.UN8x4_MUL_UN8_ADD_UN8x4 d ia s
        let dest_i := d
        dest_i
      else
        dest_i
  else
    if m ≠ 0 then
      let s := src_i
      if s ≠ 0 then
        let d := dest_i
        let s := Combine32Macros.UN8x4_MUL_UN8 s m
        let d := Combine32Macros.UN8x4_MUL_UN8_ADD_UN8x4 d (Combine32Macros.ALPHA_8 (4294967295 - s)) s
        let dest_i := d
        dest_i
      else
        dest_i
    else
      dest_i

/-- `pixman/pixman-combine32.c:combine_over_u` (nat mode).  Arguments: src_i : uint32_t, dest_i : uint32_t.  Result: (dest_i : uint32_t). -/
def combine_over_u_n (src_i : Nat) (dest_i : Nat) : Nat :=
  let s := src_i
  let a := Combine32Macros.ALPHA_8 s
  if a = 255 then
    let dest_i := s
    dest_i
  else
    if s ≠ 0 then
      let d := dest_i
      let ia := a ^^^ 255
      let d := Combine32Macros.UN8x4_MUL_UN8_ADD_UN8x4 d ia s
      let dest_i := d
      dest_i
    else
      dest_i

/-- `pixman/pixman-combine32.c:combine_over_reverse_u` (nat mode).  Arguments: src_i : uint32_t, mask_i : uint32_t, dest_i : uint32_t.  Result: (dest_i : uint32_t). -/
def combine_over_reverse_u_m (src_i : Nat) (mask_i : Nat) (dest_i : Nat) : Nat :=
  let s := combine_mask_m src_i mask_i
  let d := dest_i
  let ia := Combine32Macros.ALPHA_8 (4294967295 - dest_i)
  let s := Combine32Macros.UN8x4_MUL_UN8_ADD_UN8x4 s ia d
  let dest_i := s
  dest_i

/-- `pixman/pixman-combine32.c:combine_over_reverse_u` (nat mode).  Arguments: src_i : uint32_t, dest_i : uint32_t.  Result: (dest_i : uint32_t). -/
def combine_over_reverse_u_n (src_i : Nat) (dest_i : Nat) : Nat :=
  let s := combine_mask_n src_i
  let d := dest_i
  let ia := Combine32Macros.ALPHA_8 (4294967295 - dest_i)
  let s := Combine32Macros.UN8x4_MUL_UN8_ADD_UN8x4 s ia d
  let dest_i := s
  dest_i

/-- `pixman/pixman-combine32.c:combine_in_u` (nat mode).  Arguments: src_i : uint32_t, mask_i : uint32_t, dest_i : uint32_t.  Result: (dest_i : uint32_t). -/
def combine_in_u_m (src_i : Nat) (mask_i : Nat) (dest_i : Nat) : Nat :=
  let s := combine_mask_m src_i mask_i
  let a := Combine32Macros.ALPHA_8 dest_i
  let s := Combine32Macros.UN8x4_MUL_UN8 s a
  let dest_i := s
  dest_i

/-- `pixman/pixman-combine32.c:combine_in_u` (nat mode).  Arguments: src_i : uint32_t, dest_i : uint32_t.  Result: (dest_i : uint32_t). -/
def combine_in_u_n (src_i : Nat) (dest_i : Nat) : Nat :=
  let s := combine_mask_n src_i
  let a := Combine32Macros.ALPHA_8 dest_i
  let s := Combine32Macros.UN8x4_MUL_UN8 s a
  let dest_i := s
  dest_i

/-- `pixman/pixman-combine32.c:combine_in_reverse_u` (nat mode).  Arguments: src_i : uint32_t, mask_i : uint32_t, dest_i : uint32_t.  Result: (dest_i : uint32_t). -/
def combine_in_reverse_u_m (src_i : Nat) (mask_i : Nat) (dest_i : Nat) : Nat :=
  let s := combine_mask_m src_i mask_i
  let d := dest_i
  let a := Combine32Macros.ALPHA_8 s
  let d := Combine32Macros.UN8x4_MUL_UN8 d a
  let dest_i := d
  dest_i

/-- `pixman/pixman-combine32.c:combine_in_reverse_u` (nat mode).  Arguments: src_i : uint32_t, dest_i : uint32_t.  Result: (dest_i : uint32_t). -/
def combine_in_reverse_u_n (src_i : Nat) (dest_i : Nat) : Nat :=
  let s := combine_mask_n src_i
  let d := dest_i
  let a := Combine32Macros.ALPHA_8 s
  let d := Combine32Macros.UN8x4_MUL_UN8 d a
  let dest_i := d
  dest_i

/-- `pixman/pixman-combine32.c:combine_out_u` (nat mode).  Arguments: src_i : uint32_t, mask_i : uint32_t, dest_i : uint32_t.  Result: (dest_i : uint32_t). -/
def combine_out_u_m (src_i : Nat) (mask_i : Nat) (dest_i : Nat) : Nat :=
  let s := combine_mask_m src_i mask_i
  let a := Combine32Macros.ALPHA_8 (4294967295 - dest_i)
  let s := Combine32Macros.UN8x4_MUL_UN8 s a
  let dest_i := s
  dest_i

/-- `pixman/pixman-combine32.c:combine_out_u` (nat mode).  Arguments: src_i : uint32_t, dest_i : uint32_t.  Result: (dest_i : uint32_t). -/
def combine_out_u_n (src_i : Nat) (dest_i : Nat) : Nat :=
  let s := combine_mask_n src_i
  let a := Combine32Macros.ALPHA_8 (4294967295 - dest_i)
  let s := Combine32Macros.UN8x4_MUL_UN8 s a
  let dest_i := s
  dest_i

/-- `pixman/pixman-combine32.c:combine_out_reverse_u` (nat mode).  Arguments: src_i : uint32_t, mask_i : uint32_t, dest_i : uint32_t.  Result: (dest_i : uint32_t). -/
def combine_out_reverse_u_m (src_i : Nat) (mask_i : Nat) (dest_i : Nat) : Nat :=
  let s := combine_mask_m src_i mask_i
  let d := dest_i
  let a := Combine32Macros.ALPHA_8 (4294967295 - s)
  let d := Combine32Macros.UN8x4_MUL_UN8 d a
  let dest_i := d
  dest_i

/-- `pixman/pixman-combine32.c:combine_out_reverse_u` (nat mode).  Arguments: src_i : uint32_t, dest_i : uint32_t.  Result: (dest_i : uint32_t). -/
def combine_out_reverse_u_n (src_i : Nat) (dest_i : Nat) : Nat :=
  let s := combine_mask_n src_i
  let d := dest_i
  let a := Combine32Macros.ALPHA_8 (4294967295 - s)
  let d := Combine32Macros.UN8x4_MUL_UN8 d a
  let dest_i := d
  dest_i

/-- `pixman/pixman-combine32.c:combine_atop_u` (nat mode).  Arguments: src_i : uint32_t, mask_i : uint32_t, dest_i : uint32_t.  Result: (dest_i : uint32_t). -/
def combine_atop_u_m (src_i : Nat) (mask_i : Nat) (dest_i : Nat) : Nat :=
  let s := combine_mask_m src_i mask_i
  let d := dest_i
  let dest_a := Combine32Macros.ALPHA_8 d
  let src_ia := Combine32Macros.ALPHA_8 (4294967295 - s)
  let s := Combine32Macros.UN8x4_MUL_UN8_ADD_UN8x4_MUL_UN8 s dest_a d src_ia
  let dest_i := s
  dest_i

/-- `pixman/pixman-combine32.c:combine_atop_u` (nat mode).  Arguments: src_i : uint32_t, dest_i : uint32_t.  Result: (dest_i : uint32_t). -/
def combine_atop_u_n (src_i : Nat) (dest_i : Nat) : Nat :=
  let s := combine_mask_n src_i
  let d := dest_i
  let dest_a := Combine32Macros.ALPHA_8 d
  let src_ia := Combine32Macros.ALPHA_8 (4294967295 - s)
  let s := Combine32Macros.UN8x4_MUL_UN8_ADD_UN8x4_MUL_UN8 s dest_a d src_ia
  let dest_i := s
  dest_i

/-- `pixman/pixman-combine32.c:combine_atop_reverse_u` (nat mode).  Arguments: src_i : uint32_t, mask_i : uint32_t, dest_i : uint32_t.  Result: (dest_i : uint32_t). -/
def combine_atop_reverse_u_m (src_i : Nat) (mask_i : Nat) (dest_i : Nat) : Nat :=
  let s := combine_mask_m src_i mask_i
  let d := dest_i
  let src_a := Combine32Macros.ALPHA_8 s
  let dest_ia := Combine32Macros.ALPHA_8 (4294967295 - d)
  let s := Combine32Macros.UN8x4_MUL_UN8_ADD_UN8x4_MUL_UN8 s dest_ia d src_a
  let dest_i := s
  dest_i

/-- `pixman/pixman-combine32.c:combine_atop_reverse_u` (nat mode).  Arguments: src_i : uint32_t, dest_i : uint32_t.  Result: (dest_i : uint32_t). -/
def combine_atop_reverse_u_n (src_i : Nat) (dest_i : Nat) : Nat :=
  let s := combine_mask_n src_i
  let d := dest_i
  let src_a := Combine32Macros.ALPHA_8 s
  let dest_ia := Combine32Macros.ALPHA_8 (4294967295 - d)
  let s := Combine32Macros.UN8x4_MUL_UN8_ADD_UN8x4_MUL_UN8 s dest_ia d src_a
  let dest_i := s
  dest_i

/-- `pixman/pixman-combine32.c:combine_xor_u` (nat mode).  Arguments: src_i : uint32_t, mask_i : uint32_t, dest_i : uint32_t.  Result: (dest_i : uint32_t). -/
def combine_xor_u_m (src_i : Nat) (mask_i : Nat) (dest_i : Nat) : Nat :=
  let s := combine_mask_m src_i mask_i
  let d := dest_i
  let src_ia := Combine32Macros.ALPHA_8 (4294967295 - s)
  let dest_ia := Combine32Macros.ALPHA_8 (4294967295 - d)
  let s := Combine32Macros.UN8x4_MUL_UN8_ADD_UN8x4_MUL_UN8 s dest_ia d src_ia
  let dest_i := s
  dest_i

/-- `pixman/pixman-combine32.c:combine_xor_u` (nat mode).  Arguments: src_i : uint32_t, dest_i : uint32_t.  Result: (dest_i : uint32_t). -/
def combine_xor_u_n (src_i : Nat) (dest_i : Nat) : Nat :=
  let s := combine_mask_n src_i
  let d := dest_i
  let src_ia := Combine32Macros.ALPHA_8 (4294967295 - s)
  let dest_ia := Combine32Macros.ALPHA_8 (4294967295 - d)
  let s := Combine32Macros.UN8x4_MUL_UN8_ADD_UN8x4_MUL_UN8 s dest_ia d src_ia
  let dest_i := s
  dest_i

/-- `pixman/pixman-combine32.c:combine_add_u` (nat mode).  Arguments: src_i : uint32_t, mask_i : uint32_t, dest_i : uint32_t.  Result: (dest_i : uint32_t). -/
def combine_add_u_m (src_i : Nat) (mask_i : Nat) (dest_i : Nat) : Nat :=
  let s := combine_mask_m src_i mask_i
  let d := dest_i
  let d := Combine32Macros.UN8x4_ADD_UN8x4 d s
  let dest_i := d
  dest_i

/-- `pixman/pixman-combine32.c:combine_add_u` (nat mode).  Arguments: src_i : uint32_t, dest_i : uint32_t.  Result: (dest_i : uint32_t). -/
def combine_add_u_n (src_i : Nat) (dest_i : Nat) : Nat :=
  let s := combine_mask_n src_i
  let d := dest_i
  let d := Combine32Macros.UN8x4_ADD_UN8x4 d s
  let dest_i := d
  dest_i

/-- `pixman/pixman-combine32.c:combine_multiply_u` (nat mode).  Arguments: src_i : uint32_t, mask_i : uint32_t, dest_i : uint32_t.  Result: (dest_i : uint32_t). -/
def combine_multiply_u_m (src_i : Nat) (mask_i : Nat) (dest_i : Nat) : Nat :=
  let s := combine_mask_m src_i mask_i
  let d := dest_i
  let ss := s
  let src_ia := Combine32Macros.ALPHA_8 (4294967295 - s)
  let dest_ia := Combine32Macros.ALPHA_8 (4294967295 - d)
  let ss := Combine32Macros.UN8x4_MUL_UN8_ADD_UN8x4_MUL_UN8 ss dest_ia d src_ia
  let d := Combine32Macros.UN8x4_MUL_UN8x4 d s
  let d := Combine32Macros.UN8x4_ADD_UN8x4 d ss
  let dest_i := d
  dest_i

/-- `pixman/pixman-combine32.c:combine_multiply_u` (nat mode).  Arguments: src_i : uint32_t, dest_i : uint32_t.  Result: (dest_i : uint32_t). -/
def combine_multiply_u_n (src_i : Nat) (dest_i : Nat) : Nat :=
  let s := combine_mask_n src_i
  let d := dest_i
  let ss := s
  let src_ia := Combine32Macros.ALPHA_8 (4294967295 - s)
  let dest_ia := Combine32Macros.ALPHA_8 (4294967295 - d)
  let ss := Combine32Macros.UN8x4_MUL_UN8_ADD_UN8x4_MUL_UN8 ss dest_ia d src_ia
  let d := Combine32Macros.UN8x4_MUL_UN8x4 d s
  let d := Combine32Macros.UN8x4_ADD_UN8x4 d ss
  let dest_i := d
  dest_i

/-- `pixman/pixman-combine32.c:combine_src_ca` (nat mode).  Arguments: src_i : uint32_t, mask_i : uint32_t.  Result: (dest_i : uint32_t). -/
def combine_src_ca (src_i : Nat) (mask_i : Nat) : Nat :=
  let s := src_i
  let m := mask_i
  let r1 := combine_mask_value_ca s m
  let s := r1
  let dest_i := s
  dest_i

/-- `pixman/pixman-combine32.c:combine_over_ca` (nat mode).  Arguments: src_i : uint32_t, mask_i : uint32_t, dest_i : uint32_t.  Result: (dest_i : uint32_t). -/
def combine_over_ca (src_i : Nat) (mask_i : Nat) (dest_i : Nat) : Nat :=
  let s := src_i
  let m := mask_i
  let r1 := combine_mask_ca s m
  let s := r1.1
  let m := r1.2
  let a := 4294967295 - m
  let s := if a ≠ 0 then
      let d := dest_i
      let d := Combine32Macros.UN8x4_MUL_UN8x4_ADD_UN8x4 d a s
      let s := d
      s
    else
      s
  let dest_i := s
  dest_i

/-- `pixman/pixman-combine32.c:combine_over_reverse_ca` (nat mode).  Arguments: src_i : uint32_t, mask_i : uint32_t, dest_i : uint32_t.  Result: (dest_i : uint32_t). -/
def combine_over_reverse_ca (src_i : Nat) (mask_i : Nat) (dest_i : Nat) : Nat :=
  let d := dest_i
  let a := (4294967295 - d) >>> 24
  if a ≠ 0 then
    let s := src_i
    let m := mask_i
    let s := Combine32Macros.UN8x4_MUL_UN8x4 s m
    let s := Combine32Macros.UN8x4_MUL_UN8_ADD_UN8x4 s a d
    let dest_i := s
    dest_i
  else
    dest_i

/-- `pixman/pixman-combine32.c:combine_in_ca` (nat mode).  Arguments: src_i : uint32_t, mask_i : uint32_t, dest_i : uint32_t.  Result: (dest_i : uint32_t). -/
def combine_in_ca (src_i : Nat) (mask_i : Nat) (dest_i : Nat) : Nat :=
  let d := dest_i
  let a := d >>> 24
  let s := 0
  let s := if a ≠ 0 then
      let m := mask_i
      let s := src_i
      let r1 := combine_mask_value_ca s m
      let s := r1
      if a ≠ 255 then
        let s := Combine32Macros.UN8x4_MUL_UN8 s a
        s
      else
        s
    else
      s
  let dest_i := s
  dest_i

/-- `pixman/pixman-combine32.c:combine_in_reverse_ca` (nat mode).  Arguments: src_i : uint32_t, mask_i : uint32_t, dest_i : uint32_t.  Result: (dest_i : uint32_t). -/
def combine_in_reverse_ca (src_i : Nat) (mask_i : Nat) (dest_i : Nat) : Nat :=
  let s := src_i
  let m := mask_i
  let r1 := combine_mask_alpha_ca s m
  let m := r1
  let a := m
  if a ≠ 4294967295 then
    let d := 0
    let d := if a ≠ 0 then
        let d := dest_i
        let d := Combine32Macros.UN8x4_MUL_UN8x4 d a
        d
      else
        d
    let dest_i := d
    dest_i
  else
    dest_i

/-- `pixman/pixman-combine32.c:combine_out_ca` (nat mode).  Arguments: src_i : uint32_t, mask_i : uint32_t, dest_i : uint32_t.  Result: (dest_i : uint32_t). -/
def combine_out_ca (src_i : Nat) (mask_i : Nat) (dest_i : Nat) : Nat :=
  let d := dest_i
  let a := (4294967295 - d) >>> 24
  let s := 0
  let s := if a ≠ 0 then
      let m := mask_i
      let s := src_i
      let r1 := combine_mask_value_ca s m
      let s := r1
      if a ≠ 255 then
        let s := Combine32Macros.UN8x4_MUL_UN8 s a
        s
      else
        s
    else
      s
  let dest_i := s
  dest_i

/-- `pixman/pixman-combine32.c:combine_out_reverse_ca` (nat mode).  Arguments: src_i : uint32_t, mask_i : uint32_t, dest_i : uint32_t.  Result: (dest_i : uint32_t). -/
def combine_out_reverse_ca (src_i : Nat) (mask_i : Nat) (dest_i : Nat) : Nat :=
  let s := src_i
  let m := mask_i
  let r1 := combine_mask_alpha_ca s m
  let m := r1
  let a := 4294967295 - m
  if a ≠ 4294967295 then
    let d := 0
    let d := if a ≠ 0 then
        let d := dest_i
        let d := Combine32Macros.UN8x4_MUL_UN8x4 d a
        d
      else
        d
    let dest_i := d
    dest_i
  else
    dest_i

/-- `pixman/pixman-combine32.c:combine_atop_ca` (nat mode).  Arguments: src_i : uint32_t, mask_i : uint32_t, dest_i : uint32_t.  Result: (dest_i : uint32_t). -/
def combine_atop_ca (src_i : Nat) (mask_i : Nat) (dest_i : Nat) : Nat :=
  let d := dest_i
  let s := src_i
  let m := mask_i
  let as := d >>> 24
  let r1 := combine_mask_ca s m
  let s := r1.1
  let m := r1.2
  let ad := 4294967295 - m
  let d := Combine32Macros.UN8x4_MUL_UN8x4_ADD_UN8x4_MUL_UN8 d ad s as
  let dest_i := d
  dest_i

/-- `pixman/pixman-combine32.c:combine_atop_reverse_ca` (nat mode).  Arguments: src_i : uint32_t, mask_i : uint32_t, dest_i : uint32_t.  Result: (dest_i : uint32_t). -/
def combine_atop_reverse_ca (src_i : Nat) (mask_i : Nat) (dest_i : Nat) : Nat :=
  let d := dest_i
  let s := src_i
  let m := mask_i
  let as := (4294967295 - d) >>> 24
  let r1 := combine_mask_ca s m
  let s := r1.1
  let m := r1.2
  let ad := m
  let d := Combine32Macros.UN8x4_MUL_UN8x4_ADD_UN8x4_MUL_UN8 d ad s as
  let dest_i := d
  dest_i

/-- `pixman/pixman-combine32.c:combine_xor_ca` (nat mode).  Arguments: src_i : uint32_t, mask_i : uint32_t, dest_i : uint32_t.  Result: (dest_i : uint32_t). -/
def combine_xor_ca (src_i : Nat) (mask_i : Nat) (dest_i : Nat) : Nat :=
  let d := dest_i
  let s := src_i
  let m := mask_i
  let as := (4294967295 - d) >>> 24
  let r1 := combine_mask_ca s m
  let s := r1.1
  let m := r1.2
  let ad := 4294967295 - m
  let d := Combine32Macros.UN8x4_MUL_UN8x4_ADD_UN8x4_MUL_UN8 d ad s as
  let dest_i := d
  dest_i

/-- `pixman/pixman-combine32.c:combine_add_ca` (nat mode).  Arguments: src_i : uint32_t, mask_i : uint32_t, dest_i : uint32_t.  Result: (dest_i : uint32_t). -/
def combine_add_ca (src_i : Nat) (mask_i : Nat) (dest_i : Nat) : Nat :=
  let s := src_i
  let m := mask_i
  let d := dest_i
  let r1 := combine_mask_value_ca s m
  let s := r1
  let d := Combine32Macros.UN8x4_ADD_UN8x4 d s
  let dest_i := d
  dest_i

/-- `pixman/pixman-combine32.c:combine_multiply_ca` (nat mode).  Arguments: src_i : uint32_t, mask_i : uint32_t, dest_i : uint32_t.  Result: (dest_i : uint32_t). -/
def combine_multiply_ca (src_i : Nat) (mask_i : Nat) (dest_i : Nat) : Nat :=
  let m := mask_i
  let s := src_i
  let d := dest_i
  let r := d
  let dest_ia := Combine32Macros.ALPHA_8 (4294967295 - d)
  let r1 := combine_mask_ca s m
  let s := r1.1
  let m := r1.2
  let r := Combine32Macros.UN8x4_MUL_UN8x4_ADD_UN8x4_MUL_UN8 r (4294967295 - m) s dest_ia
  let d := Combine32Macros.UN8x4_MUL_UN8x4 d s
  let r := Combine32Macros.UN8x4_ADD_UN8x4 r d
  let dest_i := r
  dest_i

/-- stage 1 of `compute_image_info`: new value of (flags) -/
def compute_image_info_s1 (t00 : Int) (t11 : Int) (flags : Nat) : Nat :=
  if (t00 = (-65536)) ∧ (t11 = (-65536)) then
    flags ||| 2097152
  else
    flags

/-- stage 2 of `compute_image_info`: new value of (flags) -/
def compute_image_info_s2 (t20 : Int) (t21 : Int) (t22 : Int) (flags : Nat) (t01 : Int) (t10 : Int) (t00 : Int) (t11 : Int) : Nat :=
  if ((t20 = 0) ∧ (t21 = 0)) ∧ (t22 = 65536) then
    let flags := flags ||| 131072
    if (t01 = 0) ∧ (t10 = 0) then
      let flags := compute_image_info_s1 t00 t11 flags
      let flags := flags ||| 1024
      flags
    else
      if (t00 = 0) ∧ (t11 = 0) then
        let m01 := t01
        let m10 := t10
        if (m01 = (-65536)) ∧ (m10 = 65536) then
          let flags := flags ||| 1048576
          flags
        else
          if (m01 = 65536) ∧ (m10 = (-65536)) then
            let flags := flags ||| 4194304
            flags
          else
            flags
      else
        flags
  else
    flags

/-- stage 3 of `compute_image_info`: new value of (flags) -/
def compute_image_info_s3 (t00 : Int) (flags : Nat) : Nat :=
  if t00 > 0 then
    flags ||| 65536
  else
    flags

/-- stage 4 of `compute_image_info`: new value of (flags) -/
def compute_image_info_s4 (transform : Nat) (flags : Nat) (t20 : Int) (t21 : Int) (t22 : Int) (t01 : Int) (t10 : Int) (t00 : Int) (t11 : Int) : Nat :=
  if transform = 0 then
    flags ||| 458753
  else
    let flags := flags ||| 4096
    let flags := compute_image_info_s2 t20 t21 t22 flags t01 t10 t00 t11
    let flags := compute_image_info_s3 t00 flags
    if t10 = 0 then
      let flags := flags ||| 262144
      flags
    else
      flags

/-- stage 5 of `compute_image_info`: new value of (flags) -/
def compute_image_info_s5 (sw1 : Nat) (flags : Nat) (t00 : Int) (t01 : Int) (t02 : Int) (t10 : Int) (t11 : Int) (t12 : Int) : Nat :=
  if (sw1 = 3) ∨ (sw1 = 0) then
    flags ||| 2052
  else
    if ((sw1 = 4) ∨ (sw1 = 1)) ∨ (sw1 = 2) then
      let flags := flags ||| 524292
      if flags &&& 1 ≠ 0 then
        let flags := flags ||| 2048
        flags
      else
        if flags &&& 131072 ≠ 0 then
          if ((sbor (sbor (sbor (sbor (sbor t00 t01) t02) t10) t11) t12) % 65536 = 0) ∧ (Int.tmod ((sband (s32 (t00 + t01)) (s32 (t10 + t11))) / 65536) 2 = 1) then
            let magic_limit := 1966080000
            if (((t02 ≤ magic_limit) ∧ (t12 ≤ magic_limit)) ∧ (t02 ≥ -magic_limit)) ∧ (t12 ≥ -magic_limit) then
              let flags := flags ||| 2048
              flags
            else
              flags
          else
            flags
        else
          flags
    else
      if sw1 = 5 then
        flags
      else
        if sw1 = 6 then
          let flags := flags ||| 67108864
          flags
        else
          let flags := flags ||| 4
          flags

/-- stage 6 of `compute_image_info`: new value of (flags) -/
def compute_image_info_s6 (sw2 : Nat) (flags : Nat) : Nat :=
  if sw2 = 0 then
    flags ||| 16408
  else
    if sw2 = 3 then
      let flags := flags ||| 49160
      flags
    else
      if sw2 = 2 then
        let flags := flags ||| 49168
        flags
      else
        let flags := flags ||| 32792
        flags

/-- stage 7 of `compute_image_info`: new value of (flags) -/
def compute_image_info_s7 (component_alpha : Int) (flags : Nat) : Nat :=
  if component_alpha ≠ 0 then
    flags ||| 256
  else
    flags ||| 512

/-- stage 8 of `compute_image_info`: new value of (code, flags) -/
def compute_image_info_s8 (width : Int) (height : Int) (repeat_ : Nat) (filter : Nat) (flags : Nat) (format : Nat) : Nat × Nat :=
  if ((((width = 1) ∧ (height = 1)) ∧ (repeat_ ≠ 0)) ∧ (filter ≠ 5)) ∧ (filter ≠ 6) then
    let code := 65536
    (code, flags)
  else
    if (width ≤ 0) ∨ (height ≤ 0) then
      let code := 262144
      (code, flags)
    else
      let code := format
      let flags := flags ||| 33554432
      (code, flags)

/-- stage 9 of `compute_image_info`: new value of (flags) -/
def compute_image_info_s9 (format : Nat) (flags : Nat) (repeat_ : Nat) : Nat :=
  if (((((format >>> 12) &&& 15) <<< ((format >>> 22) &&& 3)) % 4294967296 = 0) ∧ ((format >>> 16) &&& 63 ≠ 5)) ∧ ((format >>> 16) &&& 63 ≠ 4) then
    let flags := flags ||| 128
    if repeat_ ≠ 0 then
      let flags := flags ||| 8192
      flags
    else
      flags
  else
    flags

/-- stage 10 of `compute_image_info`: new value of (flags) -/
def compute_image_info_s10 (read_func : Nat) (write_func : Nat) (flags : Nat) : Nat :=
  if (read_func ≠ 0) ∨ (write_func ≠ 0) then
    flags &&& 4294967263
  else
    flags

/-- stage 11 of `compute_image_info`: new value of (code, flags) -/
def compute_image_info_s11 (sw3 : Nat) (solid_alpha : Nat) (flags : Nat) (width : Int) (height : Int) (repeat_ : Nat) (filter : Nat) (format : Nat) (read_func : Nat) (write_func : Nat) (n_stops : Int) (stop_alpha : Nat → Nat) : Nat × Nat :=
  if sw3 = 4 then
    let code := 65536
    if Int.ofNat solid_alpha = 65535 then
      let flags := flags ||| 8192
      (code, flags)
    else
      (code, flags)
  else
    if sw3 = 0 then
      let j4 := compute_image_info_s8 width height repeat_ filter flags format
      let code := j4.1
      let flags := j4.2
      let flags := compute_image_info_s9 format flags repeat_
      let flags := compute_image_info_s10 read_func write_func flags
      if (((((((format >>> 12) &&& 15) <<< ((format >>> 22) &&& 3)) % 4294967296 > 8) ∨ ((((format >>> 8) &&& 15) <<< ((format >>> 22) &&& 3)) % 4294967296 > 8)) ∨ ((((format >>> 4) &&& 15) <<< ((format >>> 22) &&& 3)) % 4294967296 > 8)) ∨ ((((format >>> 0) &&& 15) <<< ((format >>> 22) &&& 3)) % 4294967296 > 8)) ∨ ((format >>> 16) &&& 63 = 10) then
        let flags := flags &&& 4294967231
        (code, flags)
      else
        (code, flags)
    else
      if sw3 = 3 then
        let code := 262144
        (code, flags)
      else
        if (sw3 = 2) ∨ (sw3 = 1) then
          let code := 262144
          if repeat_ ≠ 0 then
            let flags := flags ||| 8192
            if anyBelow n_stops (fun i_n => decide (Int.ofNat (stop_alpha i_n) ≠ 65535)) = true then
              let flags := flags &&& 4294959103
              (code, flags)
            else
              (code, flags)
          else
            (code, flags)
        else
          let code := 262144
          (code, flags)

/-- stage 12 of `compute_image_info`: new value of (flags) -/
def compute_image_info_s12 (alpha_map : Nat) (itype : Nat) (flags : Nat) (alpha_map_format : Nat) : Nat :=
  if (alpha_map = 0) ∨ (itype ≠ 0) then
    flags ||| 2
  else
    if (((((((alpha_map_format >>> 12) &&& 15) <<< ((alpha_map_format >>> 22) &&& 3)) % 4294967296 > 8) ∨ ((((alpha_map_format >>> 8) &&& 15) <<< ((alpha_map_format >>> 22) &&& 3)) % 4294967296 > 8)) ∨ ((((alpha_map_format >>> 4) &&& 15) <<< ((alpha_map_format >>> 22) &&& 3)) % 4294967296 > 8)) ∨ ((((alpha_map_format >>> 0) &&& 15) <<< ((alpha_map_format >>> 22) &&& 3)) % 4294967296 > 8)) ∨ ((alpha_map_format >>> 16) &&& 63 = 10) then
      let flags := flags &&& 4294967231
      flags
    else
      flags

/-- stage 13 of `compute_image_info`: new value of (flags) -/
def compute_image_info_s13 (alpha_map : Nat) (filter : Nat) (component_alpha : Int) (flags : Nat) : Nat :=
  if (((alpha_map ≠ 0) ∨ (filter = 5)) ∨ (filter = 6)) ∨ (component_alpha ≠ 0) then
    flags &&& 4294958975
  else
    flags

/-- `pixman/pixman-image.c:compute_image_info` (mixed mode).  Arguments: transform : uint64_t, t00 : int32_t, t01 : int32_t, t02 : int32_t, t10 : int32_t, t11 : int32_t, t12 : int32_t, t20 : int32_t, t21 : int32_t, t22 : int32_t, filter : uint32_t, repeat_ : uint32_t, component_alpha : int32_t, itype : uint32_t, solid_alpha : uint16_t, width : int32_t, height : int32_t, format : uint32_t, read_func : uint64_t, write_func : uint64_t, n_stops : int32_t, stop_alpha : uint16_t, alpha_map : uint64_t, alpha_map_format : uint32_t.  Result: (flags_out : uint32_t, code_out : uint32_t). -/
def compute_image_info (transform : Nat) (t00 : Int) (t01 : Int) (t02 : Int) (t10 : Int) (t11 : Int) (t12 : Int) (t20 : Int) (t21 : Int) (t22 : Int) (filter : Nat) (repeat_ : Nat) (component_alpha : Int) (itype : Nat) (solid_alpha : Nat) (width : Int) (height : Int) (format : Nat) (read_func : Nat) (write_func : Nat) (n_stops : Int) (stop_alpha : Nat → Nat) (alpha_map : Nat) (alpha_map_format : Nat) : Nat × Nat :=
  let flags := 0
  let flags := compute_image_info_s4 transform flags t20 t21 t22 t01 t10 t00 t11
  let sw1 := filter
  let flags := compute_image_info_s5 sw1 flags t00 t01 t02 t10 t11 t12
  let sw2 := repeat_
  let flags := compute_image_info_s6 sw2 flags
  let flags := compute_image_info_s7 component_alpha flags
  let flags := flags ||| 96
  let sw3 := itype
  let j5 := compute_image_info_s11 sw3 solid_alpha flags width height repeat_ filter format read_func write_func n_stops stop_alpha
  let code := j5.1
  let flags := j5.2
  let flags := compute_image_info_s12 alpha_map itype flags alpha_map_format
  let flags := compute_image_info_s13 alpha_map filter component_alpha flags
  let flags_out := flags
  let code_out := code
  (flags_out, code_out)

/-- `pixman/pixman.c:compute_transformed_extents` (mixed mode).  Arguments: transform : uint64_t, extents_x1 : int32_t, extents_y1 : int32_t, extents_x2 : int32_t, extents_y2 : int32_t, transformed_x1 : int64_t, transformed_y1 : int64_t, transformed_x2 : int64_t, transformed_y2 : int64_t, pixman_transform_point : extern function.  Result: (return : int32_t, transformed_x1 : int64_t, transformed_y1 : int64_t, transformed_x2 : int64_t, transformed_y2 : int64_t). -/
def compute_transformed_extents (transform : Nat) (extents_x1 : Int) (extents_y1 : Int) (extents_x2 : Int) (extents_y2 : Int) (transformed_x1 : Int) (transformed_y1 : Int) (transformed_x2 : Int) (transformed_y2 : Int) (pixman_transform_point : Int → Int → Int → Int × Int × Int × Int) : Int × Int × Int × Int × Int :=
  let x1 := s32 ((s32 (Int.ofNat (((Int.toNat (u32 extents_x1)) <<< 16) % 4294967296))) + 32768)
  let y1 := s32 ((s32 (Int.ofNat (((Int.toNat (u32 extents_y1)) <<< 16) % 4294967296))) + 32768)
  let x2 := s32 ((s32 (Int.ofNat (((Int.toNat (u32 extents_x2)) <<< 16) % 4294967296))) - 32768)
  let y2 := s32 ((s32 (Int.ofNat (((Int.toNat (u32 extents_y2)) <<< 16) % 4294967296))) - 32768)
  if transform = 0 then
    let transformed_x1 := x1
    let transformed_y1 := y1
    let transformed_x2 := x2
    let transformed_y2 := y2
    (1, transformed_x1, transformed_y1, transformed_x2, transformed_y2)
  else
    let ty1 := 9223372036854775807
    let tx1 := ty1
    let ty2 := (-9223372036854775808)
    let tx2 := ty2
    let v_vector_0 := x2
    let v_vector_1 := y2
    let v_vector_2 := 65536
    let r2 := pixman_transform_point v_vector_0 v_vector_1 v_vector_2
    let c1 := r2.1
    let v_vector_0 := r2.2.1
    let v_vector_1 := r2.2.2.1
    let v_vector_2 := r2.2.2.2
    if c1 = 0 then
      (0, transformed_x1, transformed_y1, transformed_x2, transformed_y2)
    else
      let tx := v_vector_0
      let ty := v_vector_1
      let tx1 := if tx < tx1 then
          tx
        else
          tx1
      let ty1 := if ty < ty1 then
          ty
        else
          ty1
      let tx2 := if tx > tx2 then
          tx
        else
          tx2
      let ty2 := if ty > ty2 then
          ty
        else
          ty2
      let v_vector_0 := x1
      let v_vector_1 := y2
      let v_vector_2 := 65536
      let r4 := pixman_transform_point v_vector_0 v_vector_1 v_vector_2
      let c3 := r4.1
      let v_vector_0 := r4.2.1
      let v_vector_1 := r4.2.2.1
      let v_vector_2 := r4.2.2.2
      if c3 = 0 then
        (0, transformed_x1, transformed_y1, transformed_x2, transformed_y2)
      else
        let tx := v_vector_0
        let ty := v_vector_1
        let tx1 := if tx < tx1 then
            tx
          else
            tx1
        let ty1 := if ty < ty1 then
            ty
          else
            ty1
        let tx2 := if tx > tx2 then
            tx
          else
            tx2
        let ty2 := if ty > ty2 then
            ty
          else
            ty2
        let v_vector_0 := x2
        let v_vector_1 := y1
        let v_vector_2 := 65536
        let r6 := pixman_transform_point v_vector_0 v_vector_1 v_vector_2
        let c5 := r6.1
        let v_vector_0 := r6.2.1
        let v_vector_1 := r6.2.2.1
        let v_vector_2 := r6.2.2.2
        if c5 = 0 then
          (0, transformed_x1, transformed_y1, transformed_x2, transformed_y2)
        else
          let tx := v_vector_0
          let ty := v_vector_1
          let tx1 := if tx < tx1 then
              tx
            else
              tx1
          let ty1 := if ty < ty1 then
              ty
            else
              ty1
          let tx2 := if tx > tx2 then
              tx
            else
              tx2
          let ty2 := if ty > ty2 then
              ty
            else
              ty2
          let v_vector_0 := x1
          let v_vector_1 := y1
          let v_vector_2 := 65536
          let r8 := pixman_transform_point v_vector_0 v_vector_1 v_vector_2
          let c7 := r8.1
          let v_vector_0 := r8.2.1
          let v_vector_1 := r8.2.2.1
          let v_vector_2 := r8.2.2.2
          if c7 = 0 then
            (0, transformed_x1, transformed_y1, transformed_x2, transformed_y2)
          else
            let tx := v_vector_0
            let ty := v_vector_1
            let tx1 := if tx < tx1 then
                tx
              else
                tx1
            let ty1 := if ty < ty1 then
                ty
              else
                ty1
            let tx2 := if tx > tx2 then
                tx
              else
                tx2
            let ty2 := if ty > ty2 then
                ty
              else
                ty2
            let transformed_x1 := tx1
            let transformed_y1 := ty1
            let transformed_x2 := tx2
            let transformed_y2 := ty2
            (1, transformed_x1, transformed_y1, transformed_x2, transformed_y2)

/-- stage 1 of `analyze_extent`: new value of (x_off, y_off, width, height, ret3) -/
def analyze_extent_s1 (sw2 : Nat) (param0 : Int) (param1 : Int) (x_off : Int) (y_off : Int) (width : Int) (height : Int) (ret3 : Int) : Int × Int × Int × Int × Int :=
  if sw2 = 5 then
    let x_off := (-1) - ((param0 - 65536) / 2)
    let y_off := (-1) - ((param1 - 65536) / 2)
    let width := param0
    let height := param1
    (x_off, y_off, width, height, ret3)
  else
    if sw2 = 6 then
      let x_off := (-1) - ((param0 - 65536) / 2)
      let y_off := (-1) - ((param1 - 65536) / 2)
      let width := param0
      let height := param1
      (x_off, y_off, width, height, ret3)
    else
      if ((sw2 = 1) ∨ (sw2 = 2)) ∨ (sw2 = 4) then
        let x_off := (-32768)
        let y_off := (-32768)
        let width := 65536
        let height := 65536
        (x_off, y_off, width, height, ret3)
      else
        if (sw2 = 0) ∨ (sw2 = 3) then
          let x_off := (-1)
          let y_off := (-1)
          let width := 0
          let height := 0
          (x_off, y_off, width, height, ret3)
        else
          let ret3 := 1
          (x_off, y_off, width, height, ret3)

/-- stage 2 of `analyze_extent`: new value of (flags) -/
def analyze_extent_s2 (transformed_x1 : Int) (transformed_y1 : Int) (transformed_x2 : Int) (img_width : Int) (transformed_y2 : Int) (img_height : Int) (flags : Nat) : Nat :=
  if (((s32 ((transformed_x1 - 1) / 65536) ≥ 0) ∧ (s32 ((transformed_y1 - 1) / 65536) ≥ 0)) ∧ (s32 ((transformed_x2 - 1) / 65536) < img_width)) ∧ (s32 ((transformed_y2 - 1) / 65536) < img_height) then
    flags ||| 8388608
  else
    flags

/-- stage 3 of `analyze_extent`: new value of (flags) -/
def analyze_extent_s3 (itype : Nat) (transformed_x1 : Int) (transformed_y1 : Int) (transformed_x2 : Int) (img_width : Int) (transformed_y2 : Int) (img_height : Int) (flags : Nat) : Nat :=
  if itype = 0 then
    let flags := analyze_extent_s2 transformed_x1 transformed_y1 transformed_x2 img_width transformed_y2 img_height flags
    if (((s32 ((transformed_x1 - 32768) / 65536) ≥ 0) ∧ (s32 ((transformed_y1 - 32768) / 65536) ≥ 0)) ∧ (s32 ((transformed_x2 + 32768) / 65536) < img_width)) ∧ (s32 ((transformed_y2 + 32768) / 65536) < img_height) then
      let flags := flags ||| 16777216
      flags
    else
      flags
  else
    flags

/-- join point of `analyze_extent`: the rest of the function after an if/switch both of whose sides may reach it -/
def analyze_extent_k4 (transform_p : Nat) (extents_x1 : Int) (extents_y1 : Int) (extents_x2 : Int) (extents_y2 : Int) (itype : Nat) (img_width : Int) (img_height : Int) (flags : Nat) (x_off : Int) (y_off : Int) (width : Int) (height : Int) (pixman_transform_point : Int → Int → Int → Int × Int × Int × Int) : Int × Nat :=
  let r6 := compute_transformed_extents transform_p extents_x1 extents_y1 extents_x2 extents_y2 0 0 0 0 pixman_transform_point
  let c5 := r6.1
  let transformed_x1 := r6.2.1
  let transformed_y1 := r6.2.2.1
  let transformed_x2 := r6.2.2.2.1
  let transformed_y2 := r6.2.2.2.2
  if c5 = 0 then
    (0, flags)
  else
    let flags := analyze_extent_s3 itype transformed_x1 transformed_y1 transformed_x2 img_width transformed_y2 img_height flags
    let exp_extents_x1 := extents_x1
    let exp_extents_y1 := extents_y1
    let exp_extents_x2 := extents_x2
    let exp_extents_y2 := extents_y2
    let exp_extents_x1 := s32 (exp_extents_x1 - 1)
    let exp_extents_y1 := s32 (exp_extents_y1 - 1)
    let exp_extents_x2 := s32 (exp_extents_x2 + 1)
    let exp_extents_y2 := s32 (exp_extents_y2 + 1)
    let r8 := compute_transformed_extents transform_p exp_extents_x1 exp_extents_y1 exp_extents_x2 exp_extents_y2 transformed_x1 transformed_y1 transformed_x2 transformed_y2 pixman_transform_point
    let c7 := r8.1
    let transformed_x1 := r8.2.1
    let transformed_y1 := r8.2.2.1
    let transformed_x2 := r8.2.2.2.1
    let transformed_y2 := r8.2.2.2.2
    if c7 = 0 then
      (0, flags)
    else
      if (((¬(((transformed_x1 + x_off) - 8 ≥ (-2147483648)) ∧ ((transformed_x1 + x_off) - 8 ≤ 2147483647))) ∨ (¬(((transformed_y1 + y_off) - 8 ≥ (-2147483648)) ∧ ((transformed_y1 + y_off) - 8 ≤ 2147483647)))) ∨ (¬((((transformed_x2 + x_off) + 8) + width ≥ (-2147483648)) ∧ (((transformed_x2 + x_off) + 8) + width ≤ 2147483647)))) ∨ (¬((((transformed_y2 + y_off) + 8) + height ≥ (-2147483648)) ∧ (((transformed_y2 + y_off) + 8) + height ≤ 2147483647))) then
        (0, flags)
      else
        (1, flags)

/-- `pixman/pixman.c:analyze_extent` (mixed mode).  Arguments: extents_x1 : int32_t, extents_y1 : int32_t, extents_x2 : int32_t, extents_y2 : int32_t, flags : uint32_t, transform_p : uint64_t, itype : uint32_t, img_width : int32_t, img_height : int32_t, repeat_ : uint32_t, image_flags : uint32_t, filter : uint32_t, param0 : int32_t, param1 : int32_t, pixman_transform_point : extern function.  Result: (return : int32_t, flags : uint32_t). -/
def analyze_extent (extents_x1 : Int) (extents_y1 : Int) (extents_x2 : Int) (extents_y2 : Int) (flags : Nat) (transform_p : Nat) (itype : Nat) (img_width : Int) (img_height : Int) (repeat_ : Nat) (image_flags : Nat) (filter : Nat) (param0 : Int) (param1 : Int) (pixman_transform_point : Int → Int → Int → Int × Int × Int × Int) : Int × Nat :=
  if (((¬((extents_x1 - 1 ≥ (-32768)) ∧ (extents_x1 - 1 ≤ 32767))) ∨ (¬((extents_y1 - 1 ≥ (-32768)) ∧ (extents_y1 - 1 ≤ 32767)))) ∨ (¬((extents_x2 + 1 ≥ (-32768)) ∧ (extents_x2 + 1 ≤ 32767)))) ∨ (¬((extents_y2 + 1 ≥ (-32768)) ∧ (extents_y2 + 1 ≤ 32767))) then
    (0, flags)
  else
    if itype = 0 then
      if (img_width ≥ 32767) ∨ (img_height ≥ 32767) then
        (0, flags)
      else
        if ((img_width ≤ 0) ∨ (img_height ≤ 0)) ∧ (repeat_ ≠ 0) then
          (0, flags)
        else
          if ((((image_flags &&& 1 = 1) ∧ (extents_x1 ≥ 0)) ∧ (extents_y1 ≥ 0)) ∧ (extents_x2 ≤ img_width)) ∧ (extents_y2 ≤ img_height) then
            let flags := flags ||| 8388608
            (1, flags)
          else
            let sw2 := filter
            let ret3 := 0
            let x_off := 0
            let y_off := 0
            let width := 0
            let height := 0
            let j4 := analyze_extent_s1 sw2 param0 param1 x_off y_off width height ret3
            let x_off := j4.1
            let y_off := j4.2.1
            let width := j4.2.2.1
            let height := j4.2.2.2.1
            let ret3 := j4.2.2.2.2
            if ret3 = 1 then
              (0, flags)
            else
              analyze_extent_k4 transform_p extents_x1 extents_y1 extents_x2 extents_y2 itype img_width img_height flags x_off y_off width height pixman_transform_point
    else
      let x_off := 0
      let y_off := 0
      let width := 0
      let height := 0
      analyze_extent_k4 transform_p extents_x1 extents_y1 extents_x2 extents_y2 itype img_width img_height flags x_off y_off width height pixman_transform_point

/-- `pixman/pixman-glyph.c:pixman_glyph_cache_thaw`, condition of test #0 (mixed mode).  Arguments: freeze_count_after : int32_t, n_glyphs : int32_t, n_tombstones : int32_t. -/
def glyph_thaw_outer (freeze_count_after : Int) (n_glyphs : Int) (n_tombstones : Int) : Bool :=
  decide ((freeze_count_after = 0) ∧ (n_glyphs + n_tombstones > 16384))

/-- `pixman/pixman-glyph.c:pixman_glyph_cache_thaw`, condition of test #1 (mixed mode).  Arguments: n_tombstones : int32_t. -/
def glyph_thaw_dump (n_tombstones : Int) : Bool :=
  decide (n_tombstones > 16384)

/-- `pixman/pixman-glyph.c:pixman_glyph_cache_thaw`, condition of test #2 (mixed mode).  Arguments: n_glyphs : int32_t. -/
def glyph_thaw_evict (n_glyphs : Int) : Bool :=
  decide (n_glyphs > 8192)

/-- `pixman/pixman-glyph.c:pixman_glyph_cache_insert`, condition of test #0 (mixed mode).  Arguments: freeze_count : int32_t. -/
def glyph_insert_frozen (freeze_count : Int) : Bool :=
  decide (¬(freeze_count > 0))

/-- `pixman/pixman-glyph.c:pixman_glyph_cache_insert`, condition of test #4 (mixed mode).  Arguments: n_glyphs : int32_t, n_tombstones : int32_t. -/
def glyph_insert_full (n_glyphs : Int) (n_tombstones : Int) : Bool :=
  decide (n_glyphs + n_tombstones ≥ 32767)

/-- `pixman/pixman-glyph.c:lookup_glyph`, one iteration of loop #0 (mixed mode).  Arguments: font_key : uint64_t, glyph_key : uint64_t, idx : uint32_t, slot1 : uint64_t, slot_font_key : uint64_t, slot_glyph_key : uint64_t.  Result: (status : 0 loop ends / 1 next iteration / 2.. n-th return, idx : uint32_t, g : uint64_t, slot1_index : uint32_t). -/
def lookup_glyph_step (font_key : Nat) (glyph_key : Nat) (idx : Nat) (slot1 : Nat) (slot_font_key : Nat) (slot_glyph_key : Nat) : Int × Nat × Nat × Nat :=
  let slot1_index := idx &&& 32767
  let g := slot1
  let idx := (idx + 1) % 4294967296
  if g = 0 then
    (0, idx, g, slot1_index)
  else
    if ((g ≠ 1) ∧ (slot_font_key = font_key)) ∧ (slot_glyph_key = glyph_key) then
      (2, idx, g, slot1_index)
    else
      (1, idx, g, slot1_index)

/-- `pixman/pixman-glyph.c:insert_glyph`, one iteration of loop #0 (mixed mode).  Arguments: idx : uint32_t, slot1 : uint64_t.  Result: (status : 0 loop ends / 1 next iteration / 2.. n-th return, idx : uint32_t, slot1_index : uint32_t). -/
def insert_glyph_step (idx : Nat) (slot1 : Nat) : Int × Nat × Nat :=
  let slot_ix1 := idx &&& 32767
  let idx := (idx + 1) % 4294967296
  let slot1_index := slot_ix1
  if (slot1 ≠ 0) ∧ (slot1 ≠ 1) then
    (1, idx, slot1_index)
  else
    (0, idx, slot1_index)

/-- `pixman/pixman-glyph.c:remove_glyph`, one iteration of loop #0 (mixed mode).  Arguments: glyph : uint64_t, idx : uint32_t, slot1 : uint64_t.  Result: (status : 0 loop ends / 1 next iteration / 2.. n-th return, idx : uint32_t, slot1_index : uint32_t). -/
def remove_glyph_find_step (glyph : Nat) (idx : Nat) (slot1 : Nat) : Int × Nat × Nat :=
  let slot1_index := idx &&& 32767
  if slot1 = glyph then
    (0, idx, slot1_index)
  else
    let idx := (idx + 1) % 4294967296
    (1, idx, slot1_index)

/-- `pixman/pixman-glyph.c:remove_glyph`, one iteration of loop #1 (mixed mode).  Arguments: idx : uint32_t, slot1 : uint64_t, n_tombstones : int32_t.  Result: (status : 0 loop ends / 1 next iteration / 2.. n-th return, idx : uint32_t, slot1_index : uint32_t, slot_wr_index : uint32_t, slot_wr_value : uint64_t, slot_wr_done : uint32_t, n_tombstones : int32_t). -/
def remove_glyph_clear_step (idx : Nat) (slot1 : Nat) (n_tombstones : Int) : Int × Nat × Nat × Nat × Nat × Nat × Int :=
  let slot_wr_done := 0
  let slot_wr_index := 0
  let slot_wr_value := 0
  let slot1_index := idx &&& 32767
  if ¬(slot1 = 1) then
    (0, idx, slot1_index, slot_wr_index, slot_wr_value, slot_wr_done, n_tombstones)
  else
    let slot_wr_index := idx &&& 32767
    let slot_wr_value := 0
    let slot_wr_done := 1
    let n_tombstones := s32 (n_tombstones - 1)
    let idx := (idx + 4294967296 - 1 % 4294967296) % 4294967296
    (1, idx, slot1_index, slot_wr_index, slot_wr_value, slot_wr_done, n_tombstones)

/-- `pixman/pixman-glyph.c:remove_glyph`, statements (3, 6) (mixed mode).  Arguments: idx : uint32_t, n_glyphs : int32_t, n_tombstones : int32_t.  Result: (status : 0 loop ends / 1 next iteration / 2.. n-th return, slot_wr_index : uint32_t, slot_wr_value : uint64_t, slot_wr_done : uint32_t, n_glyphs : int32_t, n_tombstones : int32_t). -/
def remove_glyph_mark (idx : Nat) (n_glyphs : Int) (n_tombstones : Int) : Int × Nat × Nat × Nat × Int × Int :=
  let slot_wr_done := 0
  let slot_wr_index := 0
  let slot_wr_value := 0
  let slot_wr_index := idx &&& 32767
  let slot_wr_value := 1
  let slot_wr_done := 1
  let n_tombstones := s32 (n_tombstones + 1)
  let n_glyphs := s32 (n_glyphs - 1)
  (0, slot_wr_index, slot_wr_value, slot_wr_done, n_glyphs, n_tombstones)

/-- `pixman/pixman-glyph.c:remove_glyph`, condition of if #0 (status 1 = true) (mixed mode).  Arguments: idx : uint32_t, slot1 : uint64_t.  Result: (status : 0 loop ends / 1 next iteration / 2.. n-th return, slot1_index : uint32_t). -/
def remove_glyph_next_empty (idx : Nat) (slot1 : Nat) : Int × Nat :=
  let slot1_index := ((idx + 1) % 4294967296) &&& 32767
  if slot1 = 0 then
    (1, slot1_index)
  else
    (0, slot1_index)

/-- `pixman/pixman-glyph.c:insert_glyph`, statements (4, 7) (mixed mode).  Arguments: glyph : uint64_t, slot1 : uint64_t, loc_index : uint32_t, n_glyphs : int32_t, n_tombstones : int32_t.  Result: (status : 0 loop ends / 1 next iteration / 2.. n-th return, slot1_index : uint32_t, slot_wr_index : uint32_t, slot_wr_value : uint64_t, slot_wr_done : uint32_t, n_glyphs : int32_t, n_tombstones : int32_t). -/
def insert_glyph_store (glyph : Nat) (slot1 : Nat) (loc_index : Nat) (n_glyphs : Int) (n_tombstones : Int) : Int × Nat × Nat × Nat × Nat × Int × Int :=
  let slot_wr_done := 0
  let slot_wr_index := 0
  let slot_wr_value := 0
  let slot1_index := loc_index
  let n_tombstones := if slot1 = 1 then
      s32 (n_tombstones - 1)
    else
      n_tombstones
  let n_glyphs := s32 (n_glyphs + 1)
  let slot_wr_index := loc_index
  let slot_wr_value := glyph
  let slot_wr_done := 1
  (0, slot1_index, slot_wr_index, slot_wr_value, slot_wr_done, n_glyphs, n_tombstones)

/-- `pixman/pixman-region32.c:pixman_region32_translate`, statements (7, 11) (mixed mode).  Arguments: x : int32_t, y : int32_t, ext_x1 : int32_t, ext_y1 : int32_t, ext_x2 : int32_t, ext_y2 : int32_t.  Result: (status : 0 loop ends / 1 next iteration / 2.. n-th return, x1 : int64_t, x2 : int64_t, y1 : int64_t, y2 : int64_t). -/
def region32_translate_sums (x : Int) (y : Int) (ext_x1 : Int) (ext_y1 : Int) (ext_x2 : Int) (ext_y2 : Int) : Int × Int × Int × Int × Int :=
  let x1 := ext_x1 + x
  let y1 := ext_y1 + y
  let x2 := ext_x2 + x
  let y2 := ext_y2 + y
  (0, x1, x2, y1, y2)

/-- `pixman/pixman-region32.c:pixman_region32_translate`, condition of if #0 (status 1 = true) (mixed mode).  Arguments: x1 : int64_t, x2 : int64_t, y1 : int64_t, y2 : int64_t.  Result: (status : 0 loop ends / 1 next iteration / 2.. n-th return). -/
def region32_translate_inrange (x1 : Int) (x2 : Int) (y1 : Int) (y2 : Int) : Int :=
  if sbor (s64 (sbor (s64 (sbor (s64 (x1 - (-2147483648))) (s64 (y1 - (-2147483648))))) (s64 (2147483647 - x2)))) (s64 (2147483647 - y2)) ≥ 0 then
    (1)
  else
    (0)

/-- `pixman/pixman-region32.c:pixman_region32_translate`, condition of if #2 (status 1 = true) (mixed mode).  Arguments: x1 : int64_t, x2 : int64_t, y1 : int64_t, y2 : int64_t.  Result: (status : 0 loop ends / 1 next iteration / 2.. n-th return). -/
def region32_translate_outside (x1 : Int) (x2 : Int) (y1 : Int) (y2 : Int) : Int :=
  if (((x2 ≤ (-2147483648)) ∨ (y2 ≤ (-2147483648))) ∨ (x1 ≥ 2147483647)) ∨ (y1 ≥ 2147483647) then
    (1)
  else
    (0)

/-- `pixman/pixman-region32.c:pixman_region32_translate`, statements (13, 17) (mixed mode).  Arguments: x1 : int64_t, x2 : int64_t, y1 : int64_t, y2 : int64_t.  Result: (status : 0 loop ends / 1 next iteration / 2.. n-th return, ext_x1 : int32_t, ext_y1 : int32_t, ext_x2 : int32_t, ext_y2 : int32_t). -/
def region32_translate_clamp_extents (x1 : Int) (x2 : Int) (y1 : Int) (y2 : Int) : Int × Int × Int × Int × Int :=
  let ext_x1 := s32 (if x1 < (-2147483648) then (-2147483648) else x1)
  let ext_y1 := s32 (if y1 < (-2147483648) then (-2147483648) else y1)
  let ext_x2 := s32 (if x2 > 2147483647 then 2147483647 else x2)
  let ext_y2 := s32 (if y2 > 2147483647 then 2147483647 else y2)
  (0, ext_x1, ext_y1, ext_x2, ext_y2)

/-- `pixman/pixman-region32.c:pixman_set_extents`, one iteration of loop #0 (mixed mode).  Arguments: box : uint64_t, box_end : uint64_t, box_x1 : int32_t, box_x2 : int32_t, ext_x1 : int32_t, ext_x2 : int32_t.  Result: (status : 0 loop ends / 1 next iteration / 2.. n-th return, box : uint64_t, ext_x1 : int32_t, ext_x2 : int32_t). -/
def region32_set_extents_step (box : Nat) (box_end : Nat) (box_x1 : Int) (box_x2 : Int) (ext_x1 : Int) (ext_x2 : Int) : Int × Nat × Int × Int :=
  if ¬(box ≤ box_end) then
    (0, box, ext_x1, ext_x2)
  else
    let ext_x1 := if box_x1 < ext_x1 then
        box_x1
      else
        ext_x1
    let ext_x2 := if box_x2 > ext_x2 then
        box_x2
      else
        ext_x2
    let box := (box + 1) % 18446744073709551616
    (1, box, ext_x1, ext_x2)

/-- `pixman/pixman-region32.c:pixman_coalesce`, one iteration of loop #0 (mixed mode).  Arguments: prev_box : uint64_t, cur_box : uint64_t, numRects : int32_t, prev_x1 : int32_t, prev_x2 : int32_t, cur_x1 : int32_t, cur_x2 : int32_t.  Result: (status : 0 loop ends / 1 next iteration / 2.. n-th return, prev_box : uint64_t, cur_box : uint64_t, numRects : int32_t). -/
def region32_coalesce_compare_step (prev_box : Nat) (cur_box : Nat) (numRects : Int) (prev_x1 : Int) (prev_x2 : Int) (cur_x1 : Int) (cur_x2 : Int) : Int × Nat × Nat × Int :=
  if (prev_x1 ≠ cur_x1) ∨ (prev_x2 ≠ cur_x2) then
    (2, prev_box, cur_box, numRects)
  else
    let prev_box := (prev_box + 1) % 18446744073709551616
    let cur_box := (cur_box + 1) % 18446744073709551616
    let numRects := s32 (numRects - 1)
    if numRects ≠ 0 then
      (1, prev_box, cur_box, numRects)
    else
      (0, prev_box, cur_box, numRects)

/-- `pixman/pixman-region32.c:pixman_coalesce`, one iteration of loop #1 (mixed mode).  Arguments: prev_box : uint64_t, numRects : int32_t, y2 : int32_t.  Result: (status : 0 loop ends / 1 next iteration / 2.. n-th return, prev_box : uint64_t, numRects : int32_t, prev_y2 : int32_t). -/
def region32_coalesce_merge_step (prev_box : Nat) (numRects : Int) (y2 : Int) : Int × Nat × Int × Int :=
  let prev_box := (prev_box + 18446744073709551616 - 1 % 18446744073709551616) % 18446744073709551616
  let prev_y2 := y2
  let numRects := s32 (numRects - 1)
  if numRects ≠ 0 then
    (1, prev_box, numRects, prev_y2)
  else
    (0, prev_box, numRects, prev_y2)

/-- `pixman/pixman-region32.c:pixman_region32_translate`, one iteration of loop #0 (mixed mode).  Arguments: x : int32_t, y : int32_t, nbox : int32_t, pbox : uint64_t, box_x1 : int32_t, box_y1 : int32_t, box_x2 : int32_t, box_y2 : int32_t.  Result: (status : 0 loop ends / 1 next iteration / 2.. n-th return, nbox : int32_t, pbox : uint64_t, box_x1 : int32_t, box_y1 : int32_t, box_x2 : int32_t, box_y2 : int32_t). -/
def region32_translate_move_step (x : Int) (y : Int) (nbox : Int) (pbox : Nat) (box_x1 : Int) (box_y1 : Int) (box_x2 : Int) (box_y2 : Int) : Int × Int × Nat × Int × Int × Int × Int :=
  let cnd1 := if nbox ≠ 0 then 1 else 0
  let nbox := s32 (nbox - 1)
  if cnd1 = 0 then
    (0, nbox, pbox, box_x1, box_y1, box_x2, box_y2)
  else
    let box_x1 := s32 (box_x1 + x)
    let box_y1 := s32 (box_y1 + y)
    let box_x2 := s32 (box_x2 + x)
    let box_y2 := s32 (box_y2 + y)
    let pbox := (pbox + 1) % 18446744073709551616
    (1, nbox, pbox, box_x1, box_y1, box_x2, box_y2)

/-- `pixman/pixman-region32.c:pixman_region32_translate`, one iteration of loop #1 (mixed mode).  Arguments: x : int32_t, y : int32_t, x1 : int64_t, x2 : int64_t, y1 : int64_t, y2 : int64_t, nbox : int32_t, pbox : uint64_t, pbox_out : uint64_t, box_x1 : int32_t, box_y1 : int32_t, box_x2 : int32_t, box_y2 : int32_t, out_x1 : int32_t, out_y1 : int32_t, out_x2 : int32_t, out_y2 : int32_t, num_rects : int64_t.  Result: (status : 0 loop ends / 1 next iteration / 2.. n-th return, x1 : int64_t, x2 : int64_t, y1 : int64_t, y2 : int64_t, nbox : int32_t, pbox : uint64_t, pbox_out : uint64_t, out_x1 : int32_t, out_y1 : int32_t, out_x2 : int32_t, out_y2 : int32_t, num_rects : int64_t). -/
def region32_translate_clamp_step (x : Int) (y : Int) (x1 : Int) (x2 : Int) (y1 : Int) (y2 : Int) (nbox : Int) (pbox : Nat) (pbox_out : Nat) (box_x1 : Int) (box_y1 : Int) (box_x2 : Int) (box_y2 : Int) (out_x1 : Int) (out_y1 : Int) (out_x2 : Int) (out_y2 : Int) (num_rects : Int) : Int × Int × Int × Int × Int × Int × Nat × Nat × Int × Int × Int × Int × Int :=
  let cnd1 := if nbox ≠ 0 then 1 else 0
  let nbox := s32 (nbox - 1)
  if cnd1 = 0 then
    (0, x1, x2, y1, y2, nbox, pbox, pbox_out, out_x1, out_y1, out_x2, out_y2, num_rects)
  else
    let x1 := box_x1 + x
    let y1 := box_y1 + y
    let x2 := box_x2 + x
    let y2 := box_y2 + y
    if (((x2 ≤ (-2147483648)) ∨ (y2 ≤ (-2147483648))) ∨ (x1 ≥ 2147483647)) ∨ (y1 ≥ 2147483647) then
      let num_rects := s64 (num_rects - 1)
      let pbox := (pbox + 1) % 18446744073709551616
      (1, x1, x2, y1, y2, nbox, pbox, pbox_out, out_x1, out_y1, out_x2, out_y2, num_rects)
    else
      let out_x1 := s32 (if x1 < (-2147483648) then (-2147483648) else x1)
      let out_y1 := s32 (if y1 < (-2147483648) then (-2147483648) else y1)
      let out_x2 := s32 (if x2 > 2147483647 then 2147483647 else x2)
      let out_y2 := s32 (if y2 > 2147483647 then 2147483647 else y2)
      let pbox_out := (pbox_out + 1) % 18446744073709551616
      let pbox := (pbox + 1) % 18446744073709551616
      (1, x1, x2, y1, y2, nbox, pbox, pbox_out, out_x1, out_y1, out_x2, out_y2, num_rects)

/-- `pixman/pixman-region32.c:pixman_region_intersect_o`, one iteration of loop #0 (mixed mode).  Arguments: r1_end : uint64_t, r2_end : uint64_t, y1 : int32_t, y2 : int32_t, r1 : uint64_t, r2 : uint64_t, r1_x1 : int32_t, r2_x1 : int32_t, r1_x2 : int32_t, r2_x2 : int32_t.  Result: (status : 0 loop ends / 1 next iteration / 2.. n-th return, x1 : int32_t, x2 : int32_t, new1_0 : int32_t, new1_1 : int32_t, new1_2 : int32_t, new1_3 : int32_t, new1_done : uint32_t, r1 : uint64_t, r2 : uint64_t). -/
def region32_intersect_o_step (r1_end : Nat) (r2_end : Nat) (y1 : Int) (y2 : Int) (r1 : Nat) (r2 : Nat) (r1_x1 : Int) (r2_x1 : Int) (r1_x2 : Int) (r2_x2 : Int) : Int × Int × Int × Int × Int × Int × Int × Nat × Nat × Nat :=
  let new1_0 := 0
  let new1_1 := 0
  let new1_2 := 0
  let new1_3 := 0
  let new1_done := 0
  let x1 := if r1_x1 > r2_x1 then r1_x1 else r2_x1
  let x2 := if r1_x2 < r2_x2 then r1_x2 else r2_x2
  let j1 := if x1 < x2 then
      let new1_0 := x1
      let new1_1 := y1
      let new1_2 := x2
      let new1_3 := y2
      let new1_done := 1
      (new1_0, new1_1, new1_2, new1_3, new1_done)
    else
      (new1_0, new1_1, new1_2, new1_3, new1_done)
  let new1_0 := j1.1
  let new1_1 := j1.2.1
  let new1_2 := j1.2.2.1
  let new1_3 := j1.2.2.2.1
  let new1_done := j1.2.2.2.2
  let r1 := if r1_x2 = x2 then
      (r1 + 1) % 18446744073709551616
    else
      r1
  let r2 := if r2_x2 = x2 then
      (r2 + 1) % 18446744073709551616
    else
      r2
  if (r1 ≠ r1_end) ∧ (r2 ≠ r2_end) then
    (1, x1, x2, new1_0, new1_1, new1_2, new1_3, new1_done, r1, r2)
  else
    (0, x1, x2, new1_0, new1_1, new1_2, new1_3, new1_done, r1, r2)

/-- `pixman/pixman-region32.c:pixman_region_union_o`, one iteration of loop #0 (mixed mode).  Arguments: r1_end : uint64_t, r2_end : uint64_t, y1 : int32_t, y2 : int32_t, x1 : int32_t, x2 : int32_t, r1 : uint64_t, r2 : uint64_t, r1_x1 : int32_t, r2_x1 : int32_t, r1_x2 : int32_t, r2_x2 : int32_t.  Result: (status : 0 loop ends / 1 next iteration / 2.. n-th return, x1 : int32_t, x2 : int32_t, new1_0 : int32_t, new1_1 : int32_t, new1_2 : int32_t, new1_3 : int32_t, new1_done : uint32_t, new2_0 : int32_t, new2_1 : int32_t, new2_2 : int32_t, new2_3 : int32_t, new2_done : uint32_t, r1 : uint64_t, r2 : uint64_t). -/
def region32_union_o_both_step (r1_end : Nat) (r2_end : Nat) (y1 : Int) (y2 : Int) (x1 : Int) (x2 : Int) (r1 : Nat) (r2 : Nat) (r1_x1 : Int) (r2_x1 : Int) (r1_x2 : Int) (r2_x2 : Int) : Int × Int × Int × Int × Int × Int × Int × Nat × Int × Int × Int × Int × Nat × Nat × Nat :=
  let new1_0 := 0
  let new1_1 := 0
  let new1_2 := 0
  let new1_3 := 0
  let new1_done := 0
  let new2_0 := 0
  let new2_1 := 0
  let new2_2 := 0
  let new2_3 := 0
  let new2_done := 0
  if ¬((r1 ≠ r1_end) ∧ (r2 ≠ r2_end)) then
    (0, x1, x2, new1_0, new1_1, new1_2, new1_3, new1_done, new2_0, new2_1, new2_2, new2_3, new2_done, r1, r2)
  else
    if r1_x1 < r2_x1 then
      let j1 := if r1_x1 ≤ x2 then
          if x2 < r1_x2 then
            let x2 := r1_x2
            (x2, new1_0, new1_1, new1_2, new1_3, new1_done, x1)
          else
            (x2, new1_0, new1_1, new1_2, new1_3, new1_done, x1)
        else
          let new1_0 := x1
          let new1_1 := y1
          let new1_2 := x2
          let new1_3 := y2
          let new1_done := 1
          let x1 := r1_x1
          let x2 := r1_x2
          (x2, new1_0, new1_1, new1_2, new1_3, new1_done, x1)
      let x2 := j1.1
      let new1_0 := j1.2.1
      let new1_1 := j1.2.2.1
      let new1_2 := j1.2.2.2.1
      let new1_3 := j1.2.2.2.2.1
      let new1_done := j1.2.2.2.2.2.1
      let x1 := j1.2.2.2.2.2.2
      let r1 := (r1 + 1) % 18446744073709551616
      (1, x1, x2, new1_0, new1_1, new1_2, new1_3, new1_done, new2_0, new2_1, new2_2, new2_3, new2_done, r1, r2)
    else
      let j2 := if r2_x1 ≤ x2 then
          if x2 < r2_x2 then
            let x2 := r2_x2
            (x2, new2_0, new2_1, new2_2, new2_3, new2_done, x1)
          else
            (x2, new2_0, new2_1, new2_2, new2_3, new2_done, x1)
        else
          let new2_0 := x1
          let new2_1 := y1
          let new2_2 := x2
          let new2_3 := y2
          let new2_done := 1
          let x1 := r2_x1
          let x2 := r2_x2
          (x2, new2_0, new2_1, new2_2, new2_3, new2_done, x1)
      let x2 := j2.1
      let new2_0 := j2.2.1
      let new2_1 := j2.2.2.1
      let new2_2 := j2.2.2.2.1
      let new2_3 := j2.2.2.2.2.1
      let new2_done := j2.2.2.2.2.2.1
      let x1 := j2.2.2.2.2.2.2
      let r2 := (r2 + 1) % 18446744073709551616
      (1, x1, x2, new1_0, new1_1, new1_2, new1_3, new1_done, new2_0, new2_1, new2_2, new2_3, new2_done, r1, r2)

/-- `pixman/pixman-region32.c:pixman_region_union_o`, one iteration of loop #1 (mixed mode).  Arguments: r1_end : uint64_t, y1 : int32_t, y2 : int32_t, x1 : int32_t, x2 : int32_t, r1 : uint64_t, r1_x1 : int32_t, r1_x2 : int32_t.  Result: (status : 0 loop ends / 1 next iteration / 2.. n-th return, x1 : int32_t, x2 : int32_t, new1_0 : int32_t, new1_1 : int32_t, new1_2 : int32_t, new1_3 : int32_t, new1_done : uint32_t, r1 : uint64_t). -/
def region32_union_o_r1_step (r1_end : Nat) (y1 : Int) (y2 : Int) (x1 : Int) (x2 : Int) (r1 : Nat) (r1_x1 : Int) (r1_x2 : Int) : Int × Int × Int × Int × Int × Int × Int × Nat × Nat :=
  let new1_0 := 0
  let new1_1 := 0
  let new1_2 := 0
  let new1_3 := 0
  let new1_done := 0
  let j1 := if r1_x1 ≤ x2 then
      if x2 < r1_x2 then
        let x2 := r1_x2
        (x2, new1_0, new1_1, new1_2, new1_3, new1_done, x1)
      else
        (x2, new1_0, new1_1, new1_2, new1_3, new1_done, x1)
    else
      let new1_0 := x1
      let new1_1 := y1
      let new1_2 := x2
      let new1_3 := y2
      let new1_done := 1
      let x1 := r1_x1
      let x2 := r1_x2
      (x2, new1_0, new1_1, new1_2, new1_3, new1_done, x1)
  let x2 := j1.1
  let new1_0 := j1.2.1
  let new1_1 := j1.2.2.1
  let new1_2 := j1.2.2.2.1
  let new1_3 := j1.2.2.2.2.1
  let new1_done := j1.2.2.2.2.2.1
  let x1 := j1.2.2.2.2.2.2
  let r1 := (r1 + 1) % 18446744073709551616
  if r1 ≠ r1_end then
    (1, x1, x2, new1_0, new1_1, new1_2, new1_3, new1_done, r1)
  else
    (0, x1, x2, new1_0, new1_1, new1_2, new1_3, new1_done, r1)

/-- `pixman/pixman-region32.c:pixman_region_union_o`, one iteration of loop #2 (mixed mode).  Arguments: r2_end : uint64_t, y1 : int32_t, y2 : int32_t, x1 : int32_t, x2 : int32_t, r2 : uint64_t, r2_x1 : int32_t, r2_x2 : int32_t.  Result: (status : 0 loop ends / 1 next iteration / 2.. n-th return, x1 : int32_t, x2 : int32_t, new1_0 : int32_t, new1_1 : int32_t, new1_2 : int32_t, new1_3 : int32_t, new1_done : uint32_t, r2 : uint64_t). -/
def region32_union_o_r2_step (r2_end : Nat) (y1 : Int) (y2 : Int) (x1 : Int) (x2 : Int) (r2 : Nat) (r2_x1 : Int) (r2_x2 : Int) : Int × Int × Int × Int × Int × Int × Int × Nat × Nat :=
  let new1_0 := 0
  let new1_1 := 0
  let new1_2 := 0
  let new1_3 := 0
  let new1_done := 0
  let j1 := if r2_x1 ≤ x2 then
      if x2 < r2_x2 then
        let x2 := r2_x2
        (x2, new1_0, new1_1, new1_2, new1_3, new1_done, x1)
      else
        (x2, new1_0, new1_1, new1_2, new1_3, new1_done, x1)
    else
      let new1_0 := x1
      let new1_1 := y1
      let new1_2 := x2
      let new1_3 := y2
      let new1_done := 1
      let x1 := r2_x1
      let x2 := r2_x2
      (x2, new1_0, new1_1, new1_2, new1_3, new1_done, x1)
  let x2 := j1.1
  let new1_0 := j1.2.1
  let new1_1 := j1.2.2.1
  let new1_2 := j1.2.2.2.1
  let new1_3 := j1.2.2.2.2.1
  let new1_done := j1.2.2.2.2.2.1
  let x1 := j1.2.2.2.2.2.2
  let r2 := (r2 + 1) % 18446744073709551616
  if r2 ≠ r2_end then
    (1, x1, x2, new1_0, new1_1, new1_2, new1_3, new1_done, r2)
  else
    (0, x1, x2, new1_0, new1_1, new1_2, new1_3, new1_done, r2)

/-- `pixman/pixman-region32.c:pixman_region_subtract_o`, one iteration of loop #0 (mixed mode).  Arguments: r1_end : uint64_t, r2_end : uint64_t, y1 : int32_t, y2 : int32_t, x1 : int32_t, r1 : uint64_t, r2 : uint64_t, r2_x2 : int32_t, r2_x1 : int32_t, r1_x2 : int32_t, r1n_x1 : int32_t.  Result: (status : 0 loop ends / 1 next iteration / 2.. n-th return, x1 : int32_t, new1_0 : int32_t, new1_1 : int32_t, new1_2 : int32_t, new1_3 : int32_t, new1_done : uint32_t, new2_0 : int32_t, new2_1 : int32_t, new2_2 : int32_t, new2_3 : int32_t, new2_done : uint32_t, r1 : uint64_t, r2 : uint64_t). -/
def region32_subtract_o_step (r1_end : Nat) (r2_end : Nat) (y1 : Int) (y2 : Int) (x1 : Int) (r1 : Nat) (r2 : Nat) (r2_x2 : Int) (r2_x1 : Int) (r1_x2 : Int) (r1n_x1 : Int) : Int × Int × Int × Int × Int × Int × Nat × Int × Int × Int × Int × Nat × Nat × Nat :=
  let new1_0 := 0
  let new1_1 := 0
  let new1_2 := 0
  let new1_3 := 0
  let new1_done := 0
  let new2_0 := 0
  let new2_1 := 0
  let new2_2 := 0
  let new2_3 := 0
  let new2_done := 0
  let j2 := if r2_x2 ≤ x1 then
      let r2 := (r2 + 1) % 18446744073709551616
      (r2, x1, r1, new1_0, new1_1, new1_2, new1_3, new1_done, new2_0, new2_1, new2_2, new2_3, new2_done)
    else
      if r2_x1 ≤ x1 then
        let x1 := r2_x2
        if x1 ≥ r1_x2 then
          let r1 := (r1 + 1) % 18446744073709551616
          if r1 ≠ r1_end then
            let x1 := r1n_x1
            (r2, x1, r1, new1_0, new1_1, new1_2, new1_3, new1_done, new2_0, new2_1, new2_2, new2_3, new2_done)
          else
            (r2, x1, r1, new1_0, new1_1, new1_2, new1_3, new1_done, new2_0, new2_1, new2_2, new2_3, new2_done)
        else
          let r2 := (r2 + 1) % 18446744073709551616
          (r2, x1, r1, new1_0, new1_1, new1_2, new1_3, new1_done, new2_0, new2_1, new2_2, new2_3, new2_done)
      else
        if r2_x1 < r1_x2 then
          let new1_0 := x1
          let new1_1 := y1
          let new1_2 := r2_x1
          let new1_3 := y2
          let new1_done := 1
          let x1 := r2_x2
          if x1 ≥ r1_x2 then
            let r1 := (r1 + 1) % 18446744073709551616
            if r1 ≠ r1_end then
              let x1 := r1n_x1
              (r2, x1, r1, new1_0, new1_1, new1_2, new1_3, new1_done, new2_0, new2_1, new2_2, new2_3, new2_done)
            else
              (r2, x1, r1, new1_0, new1_1, new1_2, new1_3, new1_done, new2_0, new2_1, new2_2, new2_3, new2_done)
          else
            let r2 := (r2 + 1) % 18446744073709551616
            (r2, x1, r1, new1_0, new1_1, new1_2, new1_3, new1_done, new2_0, new2_1, new2_2, new2_3, new2_done)
        else
          let j1 := if r1_x2 > x1 then
              let new2_0 := x1
              let new2_1 := y1
              let new2_2 := r1_x2
              let new2_3 := y2
              let new2_done := 1
              (new2_0, new2_1, new2_2, new2_3, new2_done)
            else
              (new2_0, new2_1, new2_2, new2_3, new2_done)
          let new2_0 := j1.1
          let new2_1 := j1.2.1
          let new2_2 := j1.2.2.1
          let new2_3 := j1.2.2.2.1
          let new2_done := j1.2.2.2.2
          let r1 := (r1 + 1) % 18446744073709551616
          if r1 ≠ r1_end then
            let x1 := r1n_x1
            (r2, x1, r1, new1_0, new1_1, new1_2, new1_3, new1_done, new2_0, new2_1, new2_2, new2_3, new2_done)
          else
            (r2, x1, r1, new1_0, new1_1, new1_2, new1_3, new1_done, new2_0, new2_1, new2_2, new2_3, new2_done)
  let r2 := j2.1
  let x1 := j2.2.1
  let r1 := j2.2.2.1
  let new1_0 := j2.2.2.2.1
  let new1_1 := j2.2.2.2.2.1
  let new1_2 := j2.2.2.2.2.2.1
  let new1_3 := j2.2.2.2.2.2.2.1
  let new1_done := j2.2.2.2.2.2.2.2.1
  let new2_0 := j2.2.2.2.2.2.2.2.2.1
  let new2_1 := j2.2.2.2.2.2.2.2.2.2.1
  let new2_2 := j2.2.2.2.2.2.2.2.2.2.2.1
  let new2_3 := j2.2.2.2.2.2.2.2.2.2.2.2.1
  let new2_done := j2.2.2.2.2.2.2.2.2.2.2.2.2
  if (r1 ≠ r1_end) ∧ (r2 ≠ r2_end) then
    (1, x1, new1_0, new1_1, new1_2, new1_3, new1_done, new2_0, new2_1, new2_2, new2_3, new2_done, r1, r2)
  else
    (0, x1, new1_0, new1_1, new1_2, new1_3, new1_done, new2_0, new2_1, new2_2, new2_3, new2_done, r1, r2)

/-- `pixman/pixman-region32.c:pixman_region_subtract_o`, one iteration of loop #1 (mixed mode).  Arguments: r1_end : uint64_t, y1 : int32_t, y2 : int32_t, x1 : int32_t, r1 : uint64_t, r1_x2 : int32_t, r1n_x1 : int32_t.  Result: (status : 0 loop ends / 1 next iteration / 2.. n-th return, x1 : int32_t, new1_0 : int32_t, new1_1 : int32_t, new1_2 : int32_t, new1_3 : int32_t, new1_done : uint32_t, r1 : uint64_t). -/
def region32_subtract_o_tail_step (r1_end : Nat) (y1 : Int) (y2 : Int) (x1 : Int) (r1 : Nat) (r1_x2 : Int) (r1n_x1 : Int) : Int × Int × Int × Int × Int × Int × Nat × Nat :=
  let new1_0 := 0
  let new1_1 := 0
  let new1_2 := 0
  let new1_3 := 0
  let new1_done := 0
  if r1 = r1_end then
    (0, x1, new1_0, new1_1, new1_2, new1_3, new1_done, r1)
  else
    let new1_0 := x1
    let new1_1 := y1
    let new1_2 := r1_x2
    let new1_3 := y2
    let new1_done := 1
    let r1 := (r1 + 1) % 18446744073709551616
    if r1 ≠ r1_end then
      let x1 := r1n_x1
      (1, x1, new1_0, new1_1, new1_2, new1_3, new1_done, r1)
    else
      (1, x1, new1_0, new1_1, new1_2, new1_3, new1_done, r1)

/-- `pixman/pixman-region32.c:pixman_region32_translate`, then-branch of if #9 (mixed mode).  Arguments: box0_x1 : int32_t, box0_y1 : int32_t, box0_x2 : int32_t, box0_y2 : int32_t, data_ptr : uint64_t, data_size : int64_t.  Result: (status : 0 loop ends / 1 next iteration / 2.. n-th return, ext_x1 : int32_t, ext_y1 : int32_t, ext_x2 : int32_t, ext_y2 : int32_t, data_ptr : uint64_t). -/
def region32_translate_single (box0_x1 : Int) (box0_y1 : Int) (box0_x2 : Int) (box0_y2 : Int) (data_ptr : Nat) (data_size : Int) : Int × Int × Int × Int × Int × Nat :=
  let ext_x1 := box0_x1
  let ext_y1 := box0_y1
  let ext_x2 := box0_x2
  let ext_y2 := box0_y2
  let data_ptr := 0
  (0, ext_x1, ext_y1, ext_x2, ext_y2, data_ptr)

/-- `pixman/pixman-region32.c:validate`, condition of if #9 (status 1 = true) (mixed mode).  Arguments: box_y1 : int32_t, ri_box_y1 : int32_t, box_y2 : int32_t, ri_box_y2 : int32_t.  Result: (status : 0 loop ends / 1 next iteration / 2.. n-th return). -/
def region32_validate_same_band (box_y1 : Int) (ri_box_y1 : Int) (box_y2 : Int) (ri_box_y2 : Int) : Int :=
  if (box_y1 = ri_box_y1) ∧ (box_y2 = ri_box_y2) then
    (1)
  else
    (0)

/-- `pixman/pixman-region32.c:validate`, condition of if #10 (status 1 = true) (mixed mode).  Arguments: box_x1 : int32_t, ri_box_x2 : int32_t.  Result: (status : 0 loop ends / 1 next iteration / 2.. n-th return). -/
def region32_validate_merge (box_x1 : Int) (ri_box_x2 : Int) : Int :=
  if box_x1 ≤ ri_box_x2 then
    (1)
  else
    (0)

/-- `pixman/pixman-region32.c:validate`, condition of if #11 (status 1 = true) (mixed mode).  Arguments: box_x2 : int32_t, ri_box_x2 : int32_t.  Result: (status : 0 loop ends / 1 next iteration / 2.. n-th return). -/
def region32_validate_extend (box_x2 : Int) (ri_box_x2 : Int) : Int :=
  if box_x2 > ri_box_x2 then
    (1)
  else
    (0)

/-- `pixman/pixman-region32.c:validate`, condition of if #14 (status 1 = true) (mixed mode).  Arguments: box_y1 : int32_t, ri_box_y2 : int32_t.  Result: (status : 0 loop ends / 1 next iteration / 2.. n-th return). -/
def region32_validate_new_band (box_y1 : Int) (ri_box_y2 : Int) : Int :=
  if box_y1 ≥ ri_box_y2 then
    (1)
  else
    (0)

/-- `pixman/pixman-region32.c:validate`, condition of if #15 (status 1 = true) (mixed mode).  Arguments: ri_box_x2 : int32_t, reg_ext_x2 : int32_t.  Result: (status : 0 loop ends / 1 next iteration / 2.. n-th return). -/
def region32_validate_ext_x2 (ri_box_x2 : Int) (reg_ext_x2 : Int) : Int :=
  if reg_ext_x2 < ri_box_x2 then
    (1)
  else
    (0)

/-- `pixman/pixman-region32.c:validate`, condition of if #16 (status 1 = true) (mixed mode).  Arguments: box_x1 : int32_t, reg_ext_x1 : int32_t.  Result: (status : 0 loop ends / 1 next iteration / 2.. n-th return). -/
def region32_validate_ext_x1 (box_x1 : Int) (reg_ext_x1 : Int) : Int :=
  if reg_ext_x1 > box_x1 then
    (1)
  else
    (0)

/-- `pixman/pixman-region32.c:pixman_region32_intersect`, condition of if #0 (status 1 = true) (mixed mode).  Arguments: reg1_data : uint64_t, reg1_numRects : int64_t, reg1_x1 : int32_t, reg1_y1 : int32_t, reg1_x2 : int32_t, reg1_y2 : int32_t, reg2_data : uint64_t, reg2_numRects : int64_t, reg2_x1 : int32_t, reg2_y1 : int32_t, reg2_x2 : int32_t, reg2_y2 : int32_t.  Result: (status : 0 loop ends / 1 next iteration / 2.. n-th return). -/
def region32_intersect_nil_or_apart (reg1_data : Nat) (reg1_numRects : Int) (reg1_x1 : Int) (reg1_y1 : Int) (reg1_x2 : Int) (reg1_y2 : Int) (reg2_data : Nat) (reg2_numRects : Int) (reg2_x1 : Int) (reg2_y1 : Int) (reg2_x2 : Int) (reg2_y2 : Int) : Int :=
  if (((reg1_data ≠ 0) ∧ (reg1_numRects = 0)) ∨ ((reg2_data ≠ 0) ∧ (reg2_numRects = 0))) ∨ (¬(¬((((reg1_x2 ≤ reg2_x1) ∨ (reg1_x1 ≥ reg2_x2)) ∨ (reg1_y2 ≤ reg2_y1)) ∨ (reg1_y1 ≥ reg2_y2)))) then
    (1)
  else
    (0)

/-- `pixman/pixman-region32.c:pixman_region32_intersect`, condition of if #2 (status 1 = true) (mixed mode).  Arguments: pixman_broken_data : uint64_t, reg1_data : uint64_t, reg2_data : uint64_t.  Result: (status : 0 loop ends / 1 next iteration / 2.. n-th return). -/
def region32_intersect_nar (pixman_broken_data : Nat) (reg1_data : Nat) (reg2_data : Nat) : Int :=
  if (reg1_data = pixman_broken_data) ∨ (reg2_data = pixman_broken_data) then
    (1)
  else
    (0)

/-- `pixman/pixman-region32.c:pixman_region32_intersect`, condition of if #3 (status 1 = true) (mixed mode).  Arguments: reg1_data : uint64_t, reg2_data : uint64_t.  Result: (status : 0 loop ends / 1 next iteration / 2.. n-th return). -/
def region32_intersect_both_single (reg1_data : Nat) (reg2_data : Nat) : Int :=
  if (reg1_data = 0) ∧ (reg2_data = 0) then
    (1)
  else
    (0)

/-- `pixman/pixman-region32.c:pixman_region32_intersect`, condition of if #5 (status 1 = true) (mixed mode).  Arguments: reg1_x1 : int32_t, reg1_y1 : int32_t, reg1_x2 : int32_t, reg1_y2 : int32_t, reg2_data : uint64_t, reg2_x1 : int32_t, reg2_y1 : int32_t, reg2_x2 : int32_t, reg2_y2 : int32_t.  Result: (status : 0 loop ends / 1 next iteration / 2.. n-th return). -/
def region32_intersect_reg2_covers (reg1_x1 : Int) (reg1_y1 : Int) (reg1_x2 : Int) (reg1_y2 : Int) (reg2_data : Nat) (reg2_x1 : Int) (reg2_y1 : Int) (reg2_x2 : Int) (reg2_y2 : Int) : Int :=
  if (reg2_data = 0) ∧ ((((reg2_x1 ≤ reg1_x1) ∧ (reg2_x2 ≥ reg1_x2)) ∧ (reg2_y1 ≤ reg1_y1)) ∧ (reg2_y2 ≥ reg1_y2)) then
    (1)
  else
    (0)

/-- `pixman/pixman-region32.c:pixman_region32_intersect`, condition of if #6 (status 1 = true) (mixed mode).  Arguments: reg1_data : uint64_t, reg1_x1 : int32_t, reg1_y1 : int32_t, reg1_x2 : int32_t, reg1_y2 : int32_t, reg2_x1 : int32_t, reg2_y1 : int32_t, reg2_x2 : int32_t, reg2_y2 : int32_t.  Result: (status : 0 loop ends / 1 next iteration / 2.. n-th return). -/
def region32_intersect_reg1_covers (reg1_data : Nat) (reg1_x1 : Int) (reg1_y1 : Int) (reg1_x2 : Int) (reg1_y2 : Int) (reg2_x1 : Int) (reg2_y1 : Int) (reg2_x2 : Int) (reg2_y2 : Int) : Int :=
  if (reg1_data = 0) ∧ ((((reg1_x1 ≤ reg2_x1) ∧ (reg1_x2 ≥ reg2_x2)) ∧ (reg1_y1 ≤ reg2_y1)) ∧ (reg1_y2 ≥ reg2_y2)) then
    (1)
  else
    (0)

/-- `pixman/pixman-region32.c:pixman_region32_intersect`, condition of if #7 (status 1 = true) (mixed mode).  Arguments: reg1 : uint64_t, reg2 : uint64_t.  Result: (status : 0 loop ends / 1 next iteration / 2.. n-th return). -/
def region32_intersect_same (reg1 : Nat) (reg2 : Nat) : Int :=
  if reg1 = reg2 then
    (1)
  else
    (0)

/-- `pixman/pixman-region32.c:pixman_region32_union`, condition of if #3 (status 1 = true) (mixed mode).  Arguments: new_reg : uint64_t, reg2 : uint64_t.  Result: (status : 0 loop ends / 1 next iteration / 2.. n-th return). -/
def region32_union_copy_reg2 (new_reg : Nat) (reg2 : Nat) : Int :=
  if new_reg ≠ reg2 then
    (1)
  else
    (0)

/-- `pixman/pixman-region32.c:pixman_region32_union`, condition of if #6 (status 1 = true) (mixed mode).  Arguments: new_reg : uint64_t, reg1 : uint64_t.  Result: (status : 0 loop ends / 1 next iteration / 2.. n-th return). -/
def region32_union_copy_reg1 (new_reg : Nat) (reg1 : Nat) : Int :=
  if new_reg ≠ reg1 then
    (1)
  else
    (0)

/-- `pixman/pixman-region32.c:pixman_region32_union`, condition of if #8 (status 1 = true) (mixed mode).  Arguments: new_reg : uint64_t, reg1 : uint64_t.  Result: (status : 0 loop ends / 1 next iteration / 2.. n-th return). -/
def region32_union_copy_covering_reg1 (new_reg : Nat) (reg1 : Nat) : Int :=
  if new_reg ≠ reg1 then
    (1)
  else
    (0)

/-- `pixman/pixman-region32.c:pixman_region32_union`, condition of if #10 (status 1 = true) (mixed mode).  Arguments: new_reg : uint64_t, reg2 : uint64_t.  Result: (status : 0 loop ends / 1 next iteration / 2.. n-th return). -/
def region32_union_copy_covering_reg2 (new_reg : Nat) (reg2 : Nat) : Int :=
  if new_reg ≠ reg2 then
    (1)
  else
    (0)

/-- `pixman/pixman-region32.c:pixman_region32_union`, condition of if #0 (status 1 = true) (mixed mode).  Arguments: reg1 : uint64_t, reg2 : uint64_t.  Result: (status : 0 loop ends / 1 next iteration / 2.. n-th return). -/
def region32_union_same (reg1 : Nat) (reg2 : Nat) : Int :=
  if reg1 = reg2 then
    (1)
  else
    (0)

/-- `pixman/pixman-region32.c:pixman_region32_union`, condition of if #1 (status 1 = true) (mixed mode).  Arguments: reg1_data : uint64_t, reg1_numRects : int64_t.  Result: (status : 0 loop ends / 1 next iteration / 2.. n-th return). -/
def region32_union_reg1_nil (reg1_data : Nat) (reg1_numRects : Int) : Int :=
  if (reg1_data ≠ 0) ∧ (reg1_numRects = 0) then
    (1)
  else
    (0)

/-- `pixman/pixman-region32.c:pixman_region32_union`, condition of if #2 (status 1 = true) (mixed mode).  Arguments: pixman_broken_data : uint64_t, reg1_data : uint64_t.  Result: (status : 0 loop ends / 1 next iteration / 2.. n-th return). -/
def region32_union_reg1_nar (pixman_broken_data : Nat) (reg1_data : Nat) : Int :=
  if reg1_data = pixman_broken_data then
    (1)
  else
    (0)

/-- `pixman/pixman-region32.c:pixman_region32_union`, condition of if #4 (status 1 = true) (mixed mode).  Arguments: reg2_data : uint64_t, reg2_numRects : int64_t.  Result: (status : 0 loop ends / 1 next iteration / 2.. n-th return). -/
def region32_union_reg2_nil (reg2_data : Nat) (reg2_numRects : Int) : Int :=
  if (reg2_data ≠ 0) ∧ (reg2_numRects = 0) then
    (1)
  else
    (0)

/-- `pixman/pixman-region32.c:pixman_region32_union`, condition of if #5 (status 1 = true) (mixed mode).  Arguments: pixman_broken_data : uint64_t, reg2_data : uint64_t.  Result: (status : 0 loop ends / 1 next iteration / 2.. n-th return). -/
def region32_union_reg2_nar (pixman_broken_data : Nat) (reg2_data : Nat) : Int :=
  if reg2_data = pixman_broken_data then
    (1)
  else
    (0)

/-- `pixman/pixman-region32.c:pixman_region32_union`, condition of if #7 (status 1 = true) (mixed mode).  Arguments: reg1_data : uint64_t, reg1_x1 : int32_t, reg1_y1 : int32_t, reg1_x2 : int32_t, reg1_y2 : int32_t, reg2_x1 : int32_t, reg2_y1 : int32_t, reg2_x2 : int32_t, reg2_y2 : int32_t.  Result: (status : 0 loop ends / 1 next iteration / 2.. n-th return). -/
def region32_union_reg1_covers (reg1_data : Nat) (reg1_x1 : Int) (reg1_y1 : Int) (reg1_x2 : Int) (reg1_y2 : Int) (reg2_x1 : Int) (reg2_y1 : Int) (reg2_x2 : Int) (reg2_y2 : Int) : Int :=
  if (reg1_data = 0) ∧ ((((reg1_x1 ≤ reg2_x1) ∧ (reg1_x2 ≥ reg2_x2)) ∧ (reg1_y1 ≤ reg2_y1)) ∧ (reg1_y2 ≥ reg2_y2)) then
    (1)
  else
    (0)

/-- `pixman/pixman-region32.c:pixman_region32_union`, condition of if #9 (status 1 = true) (mixed mode).  Arguments: reg1_x1 : int32_t, reg1_y1 : int32_t, reg1_x2 : int32_t, reg1_y2 : int32_t, reg2_data : uint64_t, reg2_x1 : int32_t, reg2_y1 : int32_t, reg2_x2 : int32_t, reg2_y2 : int32_t.  Result: (status : 0 loop ends / 1 next iteration / 2.. n-th return). -/
def region32_union_reg2_covers (reg1_x1 : Int) (reg1_y1 : Int) (reg1_x2 : Int) (reg1_y2 : Int) (reg2_data : Nat) (reg2_x1 : Int) (reg2_y1 : Int) (reg2_x2 : Int) (reg2_y2 : Int) : Int :=
  if (reg2_data = 0) ∧ ((((reg2_x1 ≤ reg1_x1) ∧ (reg2_x2 ≥ reg1_x2)) ∧ (reg2_y1 ≤ reg1_y1)) ∧ (reg2_y2 ≥ reg1_y2)) then
    (1)
  else
    (0)

/-- `pixman/pixman-region32.c:pixman_region32_subtract`, condition of if #0 (status 1 = true) (mixed mode).  Arguments: reg_m_data : uint64_t, reg_m_numRects : int64_t, reg_m_x1 : int32_t, reg_m_y1 : int32_t, reg_m_x2 : int32_t, reg_m_y2 : int32_t, reg_s_data : uint64_t, reg_s_numRects : int64_t, reg_s_x1 : int32_t, reg_s_y1 : int32_t, reg_s_x2 : int32_t, reg_s_y2 : int32_t.  Result: (status : 0 loop ends / 1 next iteration / 2.. n-th return). -/
def region32_subtract_nil_or_apart (reg_m_data : Nat) (reg_m_numRects : Int) (reg_m_x1 : Int) (reg_m_y1 : Int) (reg_m_x2 : Int) (reg_m_y2 : Int) (reg_s_data : Nat) (reg_s_numRects : Int) (reg_s_x1 : Int) (reg_s_y1 : Int) (reg_s_x2 : Int) (reg_s_y2 : Int) : Int :=
  if (((reg_m_data ≠ 0) ∧ (reg_m_numRects = 0)) ∨ ((reg_s_data ≠ 0) ∧ (reg_s_numRects = 0))) ∨ (¬(¬((((reg_m_x2 ≤ reg_s_x1) ∨ (reg_m_x1 ≥ reg_s_x2)) ∨ (reg_m_y2 ≤ reg_s_y1)) ∨ (reg_m_y1 ≥ reg_s_y2)))) then
    (1)
  else
    (0)

/-- `pixman/pixman-region32.c:pixman_region32_subtract`, condition of if #1 (status 1 = true) (mixed mode).  Arguments: pixman_broken_data : uint64_t, reg_s_data : uint64_t.  Result: (status : 0 loop ends / 1 next iteration / 2.. n-th return). -/
def region32_subtract_nar (pixman_broken_data : Nat) (reg_s_data : Nat) : Int :=
  if reg_s_data = pixman_broken_data then
    (1)
  else
    (0)

/-- `pixman/pixman-region32.c:pixman_region32_subtract`, condition of if #2 (status 1 = true) (mixed mode).  Arguments: reg_m : uint64_t, reg_s : uint64_t.  Result: (status : 0 loop ends / 1 next iteration / 2.. n-th return). -/
def region32_subtract_same (reg_m : Nat) (reg_s : Nat) : Int :=
  if reg_m = reg_s then
    (1)
  else
    (0)

/-- `pixman/pixman-region32.c:pixman_op`, one iteration of loop #1 (mixed mode).  Arguments: r1_end : uint64_t, r1y1 : int32_t, r1_band_end : uint64_t, r1_band_end_y1 : int32_t.  Result: (status : 0 loop ends / 1 next iteration / 2.. n-th return, r1_band_end : uint64_t). -/
def region32_find_band_r1_step (r1_end : Nat) (r1y1 : Int) (r1_band_end : Nat) (r1_band_end_y1 : Int) : Int × Nat :=
  if ¬((r1_band_end ≠ r1_end) ∧ (r1_band_end_y1 = r1y1)) then
    (0, r1_band_end)
  else
    let r1_band_end := (r1_band_end + 1) % 18446744073709551616
    (1, r1_band_end)

/-- `pixman/pixman-region32.c:pixman_op`, one iteration of loop #2 (mixed mode).  Arguments: r2_end : uint64_t, r2y1 : int32_t, r2_band_end : uint64_t, r2_band_end_y1 : int32_t.  Result: (status : 0 loop ends / 1 next iteration / 2.. n-th return, r2_band_end : uint64_t). -/
def region32_find_band_r2_step (r2_end : Nat) (r2y1 : Int) (r2_band_end : Nat) (r2_band_end_y1 : Int) : Int × Nat :=
  if ¬((r2_band_end ≠ r2_end) ∧ (r2_band_end_y1 = r2y1)) then
    (0, r2_band_end)
  else
    let r2_band_end := (r2_band_end + 1) % 18446744073709551616
    (1, r2_band_end)

/-- `pixman/pixman-region32.c:pixman_op`, one iteration of loop #3 (mixed mode).  Arguments: r1_end : uint64_t, r1y1 : int32_t, r1_band_end : uint64_t, r1_band_end_y1 : int32_t.  Result: (status : 0 loop ends / 1 next iteration / 2.. n-th return, r1_band_end : uint64_t). -/
def region32_find_band_tail_r1_step (r1_end : Nat) (r1y1 : Int) (r1_band_end : Nat) (r1_band_end_y1 : Int) : Int × Nat :=
  if ¬((r1_band_end ≠ r1_end) ∧ (r1_band_end_y1 = r1y1)) then
    (0, r1_band_end)
  else
    let r1_band_end := (r1_band_end + 1) % 18446744073709551616
    (1, r1_band_end)

/-- `pixman/pixman-region32.c:pixman_op`, one iteration of loop #4 (mixed mode).  Arguments: r2_end : uint64_t, r2y1 : int32_t, r2_band_end : uint64_t, r2_band_end_y1 : int32_t.  Result: (status : 0 loop ends / 1 next iteration / 2.. n-th return, r2_band_end : uint64_t). -/
def region32_find_band_tail_r2_step (r2_end : Nat) (r2y1 : Int) (r2_band_end : Nat) (r2_band_end_y1 : Int) : Int × Nat :=
  if ¬((r2_band_end ≠ r2_end) ∧ (r2_band_end_y1 = r2y1)) then
    (0, r2_band_end)
  else
    let r2_band_end := (r2_band_end + 1) % 18446744073709551616
    (1, r2_band_end)

/-- `pixman/pixman-region32.c:pixman_op`, condition of if #3 (status 1 = true) (mixed mode).  Arguments: new_reg : uint64_t, reg1 : uint64_t, reg2 : uint64_t, new_size : int32_t, numRects : int32_t.  Result: (status : 0 loop ends / 1 next iteration / 2.. n-th return). -/
def region32_op_keeps_old_data (new_reg : Nat) (reg1 : Nat) (reg2 : Nat) (new_size : Int) (numRects : Int) : Int :=
  if ((new_reg = reg1) ∧ (new_size > 1)) ∨ ((new_reg = reg2) ∧ (numRects > 1)) then
    (1)
  else
    (0)

/-- `pixman/pixman-region32.c:pixman_op`, condition of if #11 (status 1 = true) (mixed mode).  Arguments: r1y1 : int32_t, r2y1 : int32_t.  Result: (status : 0 loop ends / 1 next iteration / 2.. n-th return). -/
def region32_op_r1_above (r1y1 : Int) (r2y1 : Int) : Int :=
  if r1y1 < r2y1 then
    (1)
  else
    (0)

/-- `pixman/pixman-region32.c:pixman_op`, condition of if #16 (status 1 = true) (mixed mode).  Arguments: r1y1 : int32_t, r2y1 : int32_t.  Result: (status : 0 loop ends / 1 next iteration / 2.. n-th return). -/
def region32_op_r2_above (r1y1 : Int) (r2y1 : Int) : Int :=
  if r2y1 < r1y1 then
    (1)
  else
    (0)

/-- `pixman/pixman-region32.c:pixman_op`, condition of if #13 (status 1 = true) (mixed mode).  Arguments: top : int32_t, bot : int32_t.  Result: (status : 0 loop ends / 1 next iteration / 2.. n-th return). -/
def region32_op_non_o_nonempty (top : Int) (bot : Int) : Int :=
  if top ≠ bot then
    (1)
  else
    (0)

/-- `pixman/pixman-region32.c:pixman_op`, condition of if #15 (status 1 = true) (mixed mode).  Arguments: prev_band : int32_t, cur_band : int32_t, new_numRects : int64_t.  Result: (status : 0 loop ends / 1 next iteration / 2.. n-th return). -/
def region32_op_coalesce_wanted (prev_band : Int) (cur_band : Int) (new_numRects : Int) : Int :=
  if cur_band - prev_band = new_numRects - cur_band then
    (1)
  else
    (0)

/-- `pixman/pixman-region32.c:pixman_op`, condition of if #21 (status 1 = true) (mixed mode).  Arguments: ybot : int32_t, ytop : int32_t.  Result: (status : 0 loop ends / 1 next iteration / 2.. n-th return). -/
def region32_op_overlap_nonempty (ybot : Int) (ytop : Int) : Int :=
  if ybot > ytop then
    (1)
  else
    (0)

/-- `pixman/pixman-region32.c:pixman_op`, condition of if #24 (status 1 = true) (mixed mode).  Arguments: ybot : int32_t, r1_y2 : int32_t.  Result: (status : 0 loop ends / 1 next iteration / 2.. n-th return). -/
def region32_op_r1_done (ybot : Int) (r1_y2 : Int) : Int :=
  if r1_y2 = ybot then
    (1)
  else
    (0)

/-- `pixman/pixman-region32.c:pixman_op`, condition of if #25 (status 1 = true) (mixed mode).  Arguments: ybot : int32_t, r2_y2 : int32_t.  Result: (status : 0 loop ends / 1 next iteration / 2.. n-th return). -/
def region32_op_r2_done (ybot : Int) (r2_y2 : Int) : Int :=
  if r2_y2 = ybot then
    (1)
  else
    (0)

/-- `pixman/pixman-region32.c:pixman_op`, condition of if #26 (status 1 = true) (mixed mode).  Arguments: append_non1 : int32_t, r1_end : uint64_t, r1 : uint64_t.  Result: (status : 0 loop ends / 1 next iteration / 2.. n-th return). -/
def region32_op_r1_tail (append_non1 : Int) (r1_end : Nat) (r1 : Nat) : Int :=
  if (r1 ≠ r1_end) ∧ (append_non1 ≠ 0) then
    (1)
  else
    (0)

/-- `pixman/pixman-region32.c:pixman_op`, condition of if #32 (status 1 = true) (mixed mode).  Arguments: append_non2 : int32_t, r2_end : uint64_t, r2 : uint64_t.  Result: (status : 0 loop ends / 1 next iteration / 2.. n-th return). -/
def region32_op_r2_tail (append_non2 : Int) (r2_end : Nat) (r2 : Nat) : Int :=
  if (r2 ≠ r2_end) ∧ (append_non2 ≠ 0) then
    (1)
  else
    (0)

/-- `pixman/pixman-region32.c:pixman_region32_contains_rectangle`, one iteration of loop #0 (mixed mode).  Arguments: part_in : int32_t, part_out : int32_t, x : int32_t, y : int32_t, pbox : uint64_t, pboxn_y1 : int32_t, pboxn_x2 : int32_t, pboxn_x1 : int32_t, pboxn_y2 : int32_t, prect_x1 : int32_t, prect_x2 : int32_t, prect_y2 : int32_t.  Result: (status : 0 loop ends / 1 next iteration / 2.. n-th return, part_in : int32_t, part_out : int32_t, x : int32_t, y : int32_t, pbox : uint64_t). -/
def region32_contains_rectangle_step (part_in : Int) (part_out : Int) (x : Int) (y : Int) (pbox : Nat) (pboxn_y1 : Int) (pboxn_x2 : Int) (pboxn_x1 : Int) (pboxn_y2 : Int) (prect_x1 : Int) (prect_x2 : Int) (prect_y2 : Int) : Int × Int × Int × Int × Int × Nat :=
  if pboxn_y1 > y then
    let part_out := 1
    if (part_in ≠ 0) ∨ (pboxn_y1 ≥ prect_y2) then
      (0, part_in, part_out, x, y, pbox)
    else
      let y := pboxn_y1
      if pboxn_x2 ≤ x then
        let pbox := (pbox + 1) % 18446744073709551616
        (1, part_in, part_out, x, y, pbox)
      else
        let ret2 := 0
        let j3 := if pboxn_x1 > x then
            let part_out := 1
            if part_in ≠ 0 then
              let ret2 := 1
              (part_out, ret2)
            else
              (part_out, ret2)
          else
            (part_out, ret2)
        let part_out := j3.1
        let ret2 := j3.2
        if ret2 = 1 then
          (0, part_in, part_out, x, y, pbox)
        else
          let ret4 := 0
          let j5 := if pboxn_x1 < prect_x2 then
              let part_in := 1
              if part_out ≠ 0 then
                let ret4 := 1
                (part_in, ret4)
              else
                (part_in, ret4)
            else
              (part_in, ret4)
          let part_in := j5.1
          let ret4 := j5.2
          if ret4 = 1 then
            (0, part_in, part_out, x, y, pbox)
          else
            if pboxn_x2 ≥ prect_x2 then
              let y := pboxn_y2
              if y ≥ prect_y2 then
                (0, part_in, part_out, x, y, pbox)
              else
                let x := prect_x1
                let pbox := (pbox + 1) % 18446744073709551616
                (1, part_in, part_out, x, y, pbox)
            else
              let part_out := 1
              (0, part_in, part_out, x, y, pbox)
  else
    if pboxn_x2 ≤ x then
      let pbox := (pbox + 1) % 18446744073709551616
      (1, part_in, part_out, x, y, pbox)
    else
      let ret7 := 0
      let j8 := if pboxn_x1 > x then
          let part_out := 1
          if part_in ≠ 0 then
            let ret7 := 1
            (part_out, ret7)
          else
            (part_out, ret7)
        else
          (part_out, ret7)
      let part_out := j8.1
      let ret7 := j8.2
      if ret7 = 1 then
        (0, part_in, part_out, x, y, pbox)
      else
        let ret9 := 0
        let j10 := if pboxn_x1 < prect_x2 then
            let part_in := 1
            if part_out ≠ 0 then
              let ret9 := 1
              (part_in, ret9)
            else
              (part_in, ret9)
          else
            (part_in, ret9)
        let part_in := j10.1
        let ret9 := j10.2
        if ret9 = 1 then
          (0, part_in, part_out, x, y, pbox)
        else
          if pboxn_x2 ≥ prect_x2 then
            let y := pboxn_y2
            if y ≥ prect_y2 then
              (0, part_in, part_out, x, y, pbox)
            else
              let x := prect_x1
              let pbox := (pbox + 1) % 18446744073709551616
              (1, part_in, part_out, x, y, pbox)
          else
            let part_out := 1
            (0, part_in, part_out, x, y, pbox)

end Pixman.Gen.CFuncs

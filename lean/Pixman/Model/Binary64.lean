/-! An exact model of the two IEEE-754 binary64 facts the fixed/float conversions of pixman-matrix.c need:
the VALUE of a `double` bit pattern (`toRat`: every finite double is a dyadic rational) and ROUND-TO-NEAREST-EVEN of
an exact rational to a double (`roundBits`, gradual underflow; at or above 2^1024 the result is +inf).  Same
structure as `Model/Binary32.lean` (C10).  A `double` is its 64-bit pattern (`F64 = Nat`).  NaN is not a value.

`roundBits` is tied to the hardware by the correspondence check (checks/C11.py, requests `f_from`, `f_to`): the driver
prints what these definitions give and the check requires literal equality with the library.  Core Lean only. -/
namespace Pixman.Model.Binary64

abbrev F64 := Nat

def signBit (x : F64) : Nat := (x >>> 63) &&& 1
def expField (x : F64) : Nat := (x >>> 52) &&& 0x7ff
def fracField (x : F64) : Nat := x &&& 0xfffffffffffff
def isNaN (x : F64) : Bool := expField x == 0x7ff && fracField x != 0
def isInf (x : F64) : Bool := expField x == 0x7ff && fracField x == 0
/-- integer significand: the hidden bit is present unless the number is subnormal -/
def mant (x : F64) : Nat := if expField x = 0 then fracField x else fracField x + 0x10000000000000
/-- exponent field, the subnormal binade sharing the exponent of the first normal one -/
def ebias (x : F64) : Nat := if expField x = 0 then 1 else expField x

/-- the value of a finite double: `(-1)^sign · mant · 2^(ebias - 1075)` -/
def toRat (x : F64) : Rat :=
  let m : Rat := (mant x : Int)
  let v : Rat := if ebias x ≥ 1075 then m * ((2 ^ (ebias x - 1075) : Nat) : Int) else m / ((2 ^ (1075 - ebias x) : Nat) : Int)
  if signBit x = 1 then -v else v

/-- round-to-nearest-even of the non-negative fraction `a / b` to the magnitude bits of a binary64:
    `e = max (⌊log2 (a/b)⌋, -1022)` is the exponent of the result's binade, the significand is
    `a/b · 2^(52 - e)` rounded to an integer with ties to even, and `(e + 1022) <<< 52 + sig` encodes normal numbers
    (`2^52 ≤ sig`: the leading bit bumps the exponent field), subnormals (`e = -1022`, `sig < 2^52`) and the carry
    `sig = 2^53` alike. -/
def roundFrac (a b : Nat) : F64 :=
  if a = 0 ∨ b = 0 then 0 else
  let e0 : Int := (Nat.log2 a : Int) - (Nat.log2 b : Int)
  let ge : Bool := decide (a * 2 ^ (-e0).toNat ≥ b * 2 ^ e0.toNat)
  let e1 : Int := if ge then e0 else e0 - 1
  let e : Int := if e1 < -1022 then -1022 else e1
  let sh : Int := 52 - e
  let A : Nat := a * 2 ^ sh.toNat
  let B : Nat := b * 2 ^ (-sh).toNat
  let sig := A / B
  let rem := A % B
  let sig := if 2 * rem > B ∨ (2 * rem = B ∧ sig % 2 = 1) then sig + 1 else sig
  let bits := ((e + 1022).toNat <<< 52) + sig
  if bits ≥ 0x7ff0000000000000 then 0x7ff0000000000000 else bits

/-- round to nearest even of a rational, as a bit pattern -/
def roundBits (q : Rat) : F64 :=
  if q < 0 then 0x8000000000000000 + roundFrac (-q).num.toNat q.den else roundFrac q.num.toNat q.den

/-- round to nearest even of a rational, as a value (for results below 2^1024) -/
def roundNE (q : Rat) : Rat := toRat (roundBits q)

end Pixman.Model.Binary64

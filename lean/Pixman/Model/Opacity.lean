import Pixman.Model.ImageState
import Pixman.Model.Extent
import Pixman.Gen.OperatorTable
import Pixman.Gen.OpacityBlock
/-!
# The opacity decision of `pixman_image_composite32` (pixman/pixman.c), as it is

What the function decides from the three images before a compositing routine is looked up:

* `info.src_flags`, `info.mask_flags`, `info.dest_flags` start as the images' `common.flags`
  (`ImageState.computeImageInfo`, literally `compute_image_info`);
* a mask whose own `common.flags` has `FAST_PATH_IS_OPAQUE` is *elided*: `mask_format = PIXMAN_null`,
  `info.mask_flags = FAST_PATH_IS_OPAQUE | FAST_PATH_NO_ALPHA_MAP`, and later
  `info.mask_image = NULL` (commit 020aeb2);
* `analyze_extent` (`Extent.analyzeExtent`) ORs the two SAMPLES_COVER_CLIP flags into the source's and
  the mask's word — it is called with the *mask image* even when the mask was elided;
* the promotion block (`Gen.OpacityBlock.promotionBlock`, REGENERATED statement by statement from
  pixman.c): `NEAREST_OPAQUE` or `BILINEAR_OPAQUE` complete ⇒ `FAST_PATH_IS_OPAQUE`;
* `optimize_operator` (`Gen.OperatorTable.optimizeOperator`, regenerated) reads bit 13 of
  `dest_flags` and of `src_flags & mask_flags`.

Not modelled: the pixbuf special case (source and mask sharing one pixel buffer), clip regions
(`srcExtents` / `maskExtents` are the extents of the composite region translated into source / mask
space: `regionExtents`, valid for images without clip regions and alpha maps — C03 owns the region).
Core Lean only.
-/
namespace Pixman.Model.Opacity
open Pixman.Gen.ImageFlags
open Pixman.Model

/-- what `pixman_image_composite32` reads of one image -/
structure Img where
  cr : ImageState.Creation
  props : ImageState.Props := {}
  /-- `common.alpha_map->format` -/
  amFormat : Option Nat := none
  deriving Repr

/-- `image->common.flags` after `_pixman_image_validate` -/
def Img.flags (i : Img) : Nat := (ImageState.computeImageInfo i.cr i.props i.amFormat).1
/-- `image->common.extended_format_code` -/
def Img.code (i : Img) : Nat := (ImageState.computeImageInfo i.cr i.props i.amFormat).2

def toMatrix (t : ImageState.Transform) : Pixman.Matrix.Transform :=
  ⟨t.m00, t.m01, t.m02, t.m10, t.m11, t.m12, t.m20, t.m21, t.m22⟩

/-- the fields `analyze_extent` reads -/
def Img.extentImage (i : Img) : Extent.Image :=
  { isBits := i.cr.kind == .bits, width := i.cr.width, height := i.cr.height,
    idTransform := (i.flags &&& FAST_PATH_ID_TRANSFORM) == FAST_PATH_ID_TRANSFORM,
    filter := i.props.filter,
    p0 := (i.props.filterParams.getD []).getD 0 0,
    p1 := (i.props.filterParams.getD []).getD 1 0,
    transform := i.props.transform.map toMatrix }

/-- `*flags |= FAST_PATH_SAMPLES_COVER_CLIP_NEAREST` / `..._BILINEAR` -/
def coverBits (fl : Extent.Flags) : Nat :=
  (if fl.nearest then FAST_PATH_SAMPLES_COVER_CLIP_NEAREST else 0) |||
  (if fl.bilinear then FAST_PATH_SAMPLES_COVER_CLIP_BILINEAR else 0)

structure Request where
  op : Nat
  src : Img
  mask : Option Img
  dest : Img
  /-- extents of the composite region, in source space and in mask space -/
  srcExtents : Extent.Box32
  maskExtents : Extent.Box32

/-- the arguments of `_pixman_implementation_lookup_composite` plus `info.mask_image == NULL` -/
structure Decision where
  op : Nat
  srcFormat : Nat
  srcFlags : Nat
  maskFormat : Nat
  maskFlags : Nat
  destFormat : Nat
  destFlags : Nat
  /-- a mask image was given and `info.mask_image` is NULL -/
  maskElided : Bool
  deriving Repr, DecidableEq

inductive Outcome
  | abort                 -- `pixman_transform_point_31_16` aborted (never for int32 matrices, C04)
  | out                   -- `goto out`: nothing is drawn
  | run (d : Decision)
  deriving Repr, DecidableEq

/-- the mask elision at the head of `pixman_image_composite32`: `(mask_format, info.mask_flags)` -/
def maskEntry (mask : Option Img) : Nat × Nat :=
  match mask with
  | some m =>
    if (m.flags &&& FAST_PATH_IS_OPAQUE) == 0 then (m.code, m.flags)
    else (PIXMAN_null, FAST_PATH_IS_OPAQUE ||| FAST_PATH_NO_ALPHA_MAP)
  | none => (PIXMAN_null, FAST_PATH_IS_OPAQUE ||| FAST_PATH_NO_ALPHA_MAP)

/-- `pixman_image_composite32` from `_pixman_image_validate` to the lookup -/
def composite32 (r : Request) : Outcome :=
  let src_format := r.src.code
  let src_flags := r.src.flags
  let me := maskEntry r.mask
  let dest_format := r.dest.code
  let dest_flags := r.dest.flags
  match Extent.analyzeExtent r.src.extentImage r.srcExtents with
  | .abort => .abort
  | .no => .out
  | .ok (false, _) => .out
  | .ok (true, fs) =>
    let src_flags := src_flags ||| coverBits fs
    match Extent.analyzeExtentOpt (r.mask.map Img.extentImage) r.maskExtents with
    | .abort => .abort
    | .no => .out
    | .ok (false, _) => .out
    | .ok (true, fm) =>
      let mask_flags := me.2 ||| coverBits fm
      let p := Pixman.Gen.OpacityBlock.promotionBlock src_flags mask_flags dest_flags
      let op := Pixman.Gen.OperatorTable.optimizeOperator r.op p.1 p.2.1 p.2.2
      .run ⟨op, src_format, p.1, me.1, p.2.1, dest_format, p.2.2, r.mask.isSome && me.1 == PIXMAN_null⟩

/-- extents of the composite region of a request without clip regions: the rectangle
`(dest_x, dest_y, width, height)` cut to the destination, `none` when nothing is left
(`_pixman_compute_composite_region32` returns FALSE) -/
def regionExtents (dw dh dx dy w h : Int) : Option Extent.Box32 :=
  let x1 := max dx 0
  let y1 := max dy 0
  let x2 := min (dx + w) dw
  let y2 := min (dy + h) dh
  if x1 < x2 ∧ y1 < y2 then some ⟨x1, y1, x2, y2⟩ else none

def shift (b : Extent.Box32) (ox oy : Int) : Extent.Box32 := ⟨b.x1 + ox, b.y1 + oy, b.x2 + ox, b.y2 + oy⟩

end Pixman.Model.Opacity

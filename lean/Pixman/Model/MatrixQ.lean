import Pixman.Model.Matrix
import Pixman.Model.Binary64
/-
  Model of the floating point entry points of pixman/pixman-matrix.c over EXACT RATIONALS (`Rat`, core):
  `pixman_f_transform_from_pixman_transform`, `pixman_transform_from_pixman_f_transform`,
  `pixman_f_transform_invert`, `pixman_transform_invert`, `pixman_f_transform_multiply`,
  `pixman_f_transform_point`, `pixman_f_transform_point_3d`, `pixman_f_transform_bounds`.

  One Lean function per C function, the same operations in the same order, with every `double`
  replaced by a rational number: IEEE-754 rounding of the individual operations is NOT modelled
  (`+`, `-`, `*`, `/` are exact here; in the library each of them rounds to 53 bits).  The theorems of
  `Props/C11Float.lean` are therefore about this idealisation (`_partial`); the tie to the code is the
  correspondence check of `checks/C11.py`: the driver evaluates `invert` below, the harness evaluates the
  library and an a-posteriori bound of the accumulated double rounding error (computed in exact 128-bit
  integer / long double arithmetic from the same input) and the two must agree within that bound.
  The bit-exact mirror on Lean `Float` (no theorems) is `Model/MatrixF.lean`.

  No Mathlib; total functions only.
-/
namespace Pixman.MatrixQ
open Pixman.Matrix

/-- `struct pixman_f_transform` with rational entries: `mIJ = m[I][J]` -/
structure FT where
  m00 : Rat
  m01 : Rat
  m02 : Rat
  m10 : Rat
  m11 : Rat
  m12 : Rat
  m20 : Rat
  m21 : Rat
  m22 : Rat
deriving Repr, DecidableEq, Inhabited

/-- `struct pixman_f_vector` -/
structure FV where
  x : Rat
  y : Rat
  z : Rat
deriving Repr, DecidableEq, Inhabited

/-- `m[r][c]` (indices ≥ 2 read row/column 2: total) -/
def FT.get (m : FT) (r c : Nat) : Rat :=
  match r, c with
  | 0, 0 => m.m00 | 0, 1 => m.m01 | 0, _ => m.m02
  | 1, 0 => m.m10 | 1, 1 => m.m11 | 1, _ => m.m12
  | _, 0 => m.m20 | _, 1 => m.m21 | _, _ => m.m22

def FV.get (v : FV) (i : Nat) : Rat := match i with | 0 => v.x | 1 => v.y | _ => v.z

/-- `pixman_f_transform_init_identity` -/
def identity : FT := ⟨1, 0, 0, 0, 1, 0, 0, 0, 1⟩

/-- `pixman_fixed_to_double`: `f / 65536.0` (exact in `double` as well: 32 significant bits) -/
def fixedToRat (f : Int) : Rat := (f : Rat) / 65536

/-- `pixman_f_transform_from_pixman_transform` -/
def fromFixed (t : Transform) : FT :=
  ⟨fixedToRat t.m00, fixedToRat t.m01, fixedToRat t.m02, fixedToRat t.m10, fixedToRat t.m11, fixedToRat t.m12,
   fixedToRat t.m20, fixedToRat t.m21, fixedToRat t.m22⟩

/-! ### pixman_f_transform_invert -/

/-- `static const int a[3] = { 2, 2, 1 }` -/
def ta (i : Nat) : Nat := match i with | 0 => 2 | 1 => 2 | _ => 1
/-- `static const int b[3] = { 1, 0, 0 }` -/
def tb (i : Nat) : Nat := match i with | 0 => 1 | _ => 0

/-- the term added to `det` in iteration `i` of the first loop -/
def detTerm (m : FT) (i : Nat) : Rat :=
  let p := m.get i 0 * (m.get (ta i) 2 * m.get (tb i) 1 - m.get (ta i) 1 * m.get (tb i) 2)
  if i = 1 then -p else p

/-- `det` after the first loop: `det = 0; det += p` three times -/
def det (m : FT) : Rat := ((0 + detTerm m 0) + detTerm m 1) + detTerm m 2

/-- `p` of the second loop for `d.m[j][i]`, sign included -/
def cofactor (m : FT) (j i : Nat) : Rat :=
  let p := m.get (ta i) (ta j) * m.get (tb i) (tb j) - m.get (ta i) (tb j) * m.get (tb i) (ta j)
  if (i + j) % 2 ≠ 0 then -p else p

/-- `pixman_f_transform_invert (dst, src)`: `none` = FALSE (`det == 0`) -/
def fInvert (m : FT) : Option FT :=
  let d := det m
  if d = 0 then none else
  let d := 1 / d
  some ⟨d * cofactor m 0 0, d * cofactor m 0 1, d * cofactor m 0 2,
        d * cofactor m 1 0, d * cofactor m 1 1, d * cofactor m 1 2,
        d * cofactor m 2 0, d * cofactor m 2 1, d * cofactor m 2 2⟩

/-! ### pixman_transform_from_pixman_f_transform, pixman_transform_invert -/

/-- one entry of `pixman_transform_from_pixman_f_transform` (as repaired in 50296f6): the range check, then
    `d = d * 65536.0; (pixman_fixed_t) (d - floor (d) >= 0.5 ? floor (d) + 1 : floor (d))`; `none` = return FALSE.
    On a `double` input every operation of this line is exact or decided exactly: `d * 65536.0` is a scaling by a power of
    two (no overflow inside the range check, and scaling a subnormal UP loses nothing); `floor` and `floor (d) + 1` are
    integers below 2^32; `d - floor (d)` is a multiple of `ulp (d)` in `[0, 1)`, hence representable, except for
    `-1/2 < d < 0` with bits below 2^-53, where the exact difference lies strictly between 1/2 and 1 and so does (or is 1.0)
    its rounding: the comparison with 0.5 comes out as in exact arithmetic.  So for a dyadic `d` (the value of a double)
    this rational function IS the library's result: no rounding is left unmodelled in the conversion. -/
def entryToFixed (d : Rat) : Option Int :=
  if d < -32767 ∨ d > 32767 then none else
  let s := d * 65536
  some (if s - (s.floor : Rat) ≥ 1 / 2 then s.floor + 1 else s.floor)

/-- `pixman_transform_from_pixman_f_transform` on one entry given as a `double` BIT PATTERN: `none` = FALSE,
    `some none` = a NaN passes both comparisons and reaches the cast (undefined in C). -/
def entryFromDouble (x : Pixman.Model.Binary64.F64) : Option (Option Int) :=
  if Pixman.Model.Binary64.isNaN x then some none
  else if Pixman.Model.Binary64.isInf x then none
  else match entryToFixed (Pixman.Model.Binary64.toRat x) with
    | none => none
    | some q => some (some q)

/-- `pixman_fixed_to_double` as a bit pattern (`f / 65536.0` is exact: 32 significant bits) -/
def fixedToDoubleBits (f : Int) : Pixman.Model.Binary64.F64 := Pixman.Model.Binary64.roundBits (fixedToRat f)

/-- `pixman_transform_from_pixman_f_transform (t, ft)`: entries in row order, FALSE at the first
    entry outside `[-32767, 32767]` (the C function has then already stored the earlier entries; only
    the return value and, for TRUE, the matrix are observables here) -/
def toFixed (m : FT) : Option Transform :=
  match entryToFixed m.m00, entryToFixed m.m01, entryToFixed m.m02,
        entryToFixed m.m10, entryToFixed m.m11, entryToFixed m.m12,
        entryToFixed m.m20, entryToFixed m.m21, entryToFixed m.m22 with
  | some a, some b, some c, some d, some e, some f, some g, some h, some i => some ⟨a, b, c, d, e, f, g, h, i⟩
  | _, _, _, _, _, _, _, _, _ => none

/-- `pixman_transform_invert (dst, src)`: `none` = FALSE -/
def invert (t : Transform) : Option Transform :=
  match fInvert (fromFixed t) with
  | none => none
  | some d => toFixed d

/-! ### pixman_f_transform_multiply, point, point_3d, bounds -/

/-- `v = 0; for (o) v += l->m[dy][o] * r->m[o][dx]` -/
def mulEntry (l r : FT) (dy dx : Nat) : Rat :=
  ((0 + l.get dy 0 * r.get 0 dx) + l.get dy 1 * r.get 1 dx) + l.get dy 2 * r.get 2 dx

/-- `pixman_f_transform_multiply (dst, l, r)` -/
def fMultiply (l r : FT) : FT :=
  ⟨mulEntry l r 0 0, mulEntry l r 0 1, mulEntry l r 0 2, mulEntry l r 1 0, mulEntry l r 1 1, mulEntry l r 1 2,
   mulEntry l r 2 0, mulEntry l r 2 1, mulEntry l r 2 2⟩

/-- `pixman_f_transform_init_scale / init_rotate / init_translate` -/
def fInitScale (sx sy : Rat) : FT := ⟨sx, 0, 0, 0, sy, 0, 0, 0, 1⟩
def fInitRotate (c s : Rat) : FT := ⟨c, -s, 0, s, c, 0, 0, 0, 1⟩
def fInitTranslate (tx ty : Rat) : FT := ⟨1, 0, tx, 0, 1, ty, 0, 0, 1⟩

/-- shared shape of `pixman_f_transform_scale / rotate / translate`: `forward := tf * forward`,
    `reverse := reverse * tr`; either pointer may be NULL (`none`) -/
def fApplyPair (forward reverse : Option FT) (tf tr : FT) : Option FT × Option FT :=
  (forward.map fun f => fMultiply tf f, reverse.map fun r => fMultiply r tr)

/-- `pixman_f_transform_scale (forward, reverse, sx, sy)`: `(return value, *forward, *reverse)` -/
def fScale (forward reverse : Option FT) (sx sy : Rat) : Bool × Option FT × Option FT :=
  if sx = 0 ∨ sy = 0 then (false, forward, reverse)
  else (true, fApplyPair forward reverse (fInitScale sx sy) (fInitScale (1 / sx) (1 / sy)))

/-- `pixman_f_transform_rotate (forward, reverse, c, s)` -/
def fRotate (forward reverse : Option FT) (c s : Rat) : Bool × Option FT × Option FT :=
  (true, fApplyPair forward reverse (fInitRotate c s) (fInitRotate c (-s)))

/-- `pixman_f_transform_translate (forward, reverse, tx, ty)` -/
def fTranslate (forward reverse : Option FT) (tx ty : Rat) : Bool × Option FT × Option FT :=
  (true, fApplyPair forward reverse (fInitTranslate tx ty) (fInitTranslate (-tx) (-ty)))

/-- `a = 0; for (i) a += t->m[j][i] * v->v[i]` -/
def rowDot (t : FT) (v : FV) (j : Nat) : Rat :=
  ((0 + t.get j 0 * v.x) + t.get j 1 * v.y) + t.get j 2 * v.z

/-- `pixman_f_transform_point_3d (t, v)` -/
def fPoint3d (t : FT) (v : FV) : FV := ⟨rowDot t v 0, rowDot t v 1, rowDot t v 2⟩

/-- `pixman_f_transform_point (t, v)`: `none` = FALSE (`w == 0`, vector untouched) -/
def fPoint (t : FT) (v : FV) : Option FV :=
  let r := fPoint3d t v
  if r.z = 0 then none else some ⟨r.x / r.z, r.y / r.z, 1⟩

/-- `struct pixman_box16` with unbounded integers: the conversion of `floor()`/`ceil()` results to `int`
    and then to `int16_t` is not modelled (no range check in the C code; out of range it is undefined) -/
structure BoxZ where
  x1 : Int
  y1 : Int
  x2 : Int
  y2 : Int
deriving Repr, DecidableEq, Inhabited

def ceil (x : Rat) : Int := -(-x).floor

/-- one iteration of the corner loop of `pixman_f_transform_bounds` on the box under construction -/
def fBoundsStep (first : Bool) (b : BoxZ) (p : FV) : BoxZ :=
  let x1 := p.x.floor
  let y1 := p.y.floor
  let x2 := ceil p.x
  let y2 := ceil p.y
  if first then ⟨x1, y1, x2, y2⟩
  else ⟨if x1 < b.x1 then x1 else b.x1, if y1 < b.y1 then y1 else b.y1,
        if x2 > b.x2 then x2 else b.x2, if y2 > b.y2 then y2 else b.y2⟩

/-- the corner loop; `none` = FALSE -/
def fBoundsLoop (t : FT) (first : Bool) (b : BoxZ) : List FV → Option BoxZ
  | [] => some b
  | c :: rest =>
    match fPoint t c with
    | none => none
    | some p => fBoundsLoop t false (fBoundsStep first b p) rest

def fCorners (b : BoxZ) : List FV :=
  [⟨b.x1, b.y1, 1⟩, ⟨b.x2, b.y1, 1⟩, ⟨b.x2, b.y2, 1⟩, ⟨b.x1, b.y2, 1⟩]

/-- `pixman_f_transform_bounds (t, b)`: `none` = FALSE -/
def fBounds (t : FT) (b : BoxZ) : Option BoxZ := fBoundsLoop t true b (fCorners b)

end Pixman.MatrixQ

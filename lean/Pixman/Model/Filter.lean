/-! # Model of `pixman/pixman-filter.c` (separable-convolution parameter blocks) and of the
`n_params` test of `pixman_image_set_filter` (`pixman/pixman-image.c`).

What is modelled exactly (integers only):
* `filter_width` — `MAX (ceil (filters[r].width + size * filters[s].width), 1)` with `size = fabs (scale / 65536.0)`.
  For a 16.16 `scale` every intermediate double is exact (`|scale|·w ≤ 2^34`), so the value is the integer
  `⌈(rw·65536 + |scale|·sw) / 65536⌉`;
* `x1 = ceil (frac - width / 2.0 - 0.5)` of every phase (`frac = (2i+1)/(2n)`, all exact in double);
* `*n_values`, the four header words (`pixman_int_to_fixed` wraps at 32 bits), the table offsets;
* the memory effect of `create_1d_filter`: the sampling loop stores `w` values through `p++`, `p -= width`,
  the normalisation loop stores `w` values through `p++` and accumulates `new_total` (int32), then
  `*(p - width) += pixman_fixed_1 - new_total`;
* the consistency test of `pixman_image_set_filter`.

What is a PARAMETER (double arithmetic, libm — not modelled): the sampled coefficient
`raw i k = (pixman_fixed_t) floor (c * 65536.0 + 0.5)` and the normalised coefficient
`pre i k = floor (v + 0.5)` of phase `i`, tap `k`, i.e. the value stored by the normalisation loop
*before* the residual is added.

Memory is an array of 32-bit cells indexed from `params[0]`; cells at and beyond `n_values` stand for
whatever lies behind the block (the driver gives them the canary the harness puts there). -/
namespace Pixman.Model.Filter

/-- two's complement reinterpretation of an integer as `int32_t` -/
def wrap32 (v : Int) : Int := (v + 2147483648) % 4294967296 - 2147483648

/-- `filters[k].width` for `k : pixman_kernel_t` (IMPULSE, BOX, LINEAR, CUBIC, GAUSSIAN, LANCZOS2, LANCZOS3,
    LANCZOS3_STRETCHED); regenerated copy: `Pixman.Gen.FilterTable.kernelWidth` -/
def kernelWidth : Nat → Nat
  | 0 => 0 | 1 => 1 | 2 => 2 | 3 => 4 | 4 => 5 | 5 => 4 | 6 => 6 | 7 => 8 | _ => 0

/-- the `ceil (...)` inside `filter_width` -/
def ceilWidth (r s : Nat) (scale : Int) : Nat :=
  (kernelWidth r * 65536 + scale.natAbs * kernelWidth s + 65535) / 65536

/-- `filter_width (reconstruct, sample, fabs (pixman_fixed_to_double (scale)))` = `MAX (width, 1)` -/
def filterWidth (r s : Nat) (scale : Int) : Nat := max (ceilWidth r s scale) 1

/-- `if (width > 32767 || height > 32767) return NULL;` -/
def createRefuses (wx wy : Nat) : Bool := wx > 32767 || wy > 32767

/-- `x1 = ceil (frac - width / 2.0 - 0.5)` with `frac = step / 2.0 + i * step`, `step = 1.0 / n` -/
def firstTap (w n i : Nat) : Int :=
  -(((w : Int) * n + n - (2 * i + 1)) / (2 * n))

/-- `pixman_int_to_fixed (i)` = `(pixman_fixed_t) ((uint32_t) i << 16)` -/
def intToFixed (i : Int) : Int := wrap32 (i * 65536)
/-- `pixman_fixed_to_int (f)` = `f >> 16` -/
def fixedToInt (f : Int) : Int := f / 65536

/-- `*n_values = 4 + width * subsample_x + height * subsample_y` (`int`; does not wrap for bits ≤ 8) -/
def nValues (wx bx wy by_ : Nat) : Int := wrap32 (4 + wx * 2 ^ bx + wy * 2 ^ by_)

def header (wx bx wy by_ : Nat) : List Int :=
  [intToFixed wx, intToFixed wy, intToFixed bx, intToFixed by_]

/-- start of the x table and of the y table inside the block -/
def xOffset : Nat := 4
def yOffset (wx bx : Nat) : Nat := 4 + wx * 2 ^ bx

/-- `1 << bits` for the shift counts C defines (`int`); other counts are undefined in C and give 0 here -/
def shl1 (b : Int) : Int := if 0 ≤ b ∧ b < 31 then 2 ^ b.toNat else 0

/-- the `n_params` test of `pixman_image_set_filter` for `PIXMAN_FILTER_SEPARABLE_CONVOLUTION` -/
def setFilterAccepts (p0 p1 p2 p3 nParams : Int) : Bool :=
  let width := fixedToInt p0
  let height := fixedToInt p1
  let nx := shl1 (fixedToInt p2)
  let ny := shl1 (fixedToInt p3)
  nParams == wrap32 (4 + wrap32 (nx * width) + wrap32 (ny * height))

/-! ## memory -/

abbrev Mem := Array Int
def rd (m : Mem) (i : Nat) : Int := m.getD i 0
def wr (m : Mem) (i : Nat) (v : Int) : Mem := m.setIfInBounds i v

/-- `for (x = x1; x < x2; ++x) { t = vals[x - x1]; total += t; *p++ = t; }` — `n` taps remain, the next one is
    tap `k`; `total` is an `int32_t` (`new_total`; in the sampling loop it is a double and its value is unused
    here).  Returns the advanced pointer, the total and the memory. -/
def storeLoop (vals : Nat → Int) : (n k p : Nat) → (total : Int) → Mem → Nat × Int × Mem
  | 0, _, p, total, m => (p, total, m)
  | n + 1, k, p, total, m => storeLoop vals n (k + 1) (p + 1) (wrap32 (total + vals k)) (wr m p (vals k))

/-- one iteration of the phase loop of `create_1d_filter` -/
def phase (w : Nat) (raw pre : Nat → Int) (p : Nat) (m : Mem) : Nat × Mem :=
  let s := storeLoop raw w 0 p 0 m               -- sampling loop
  let p2 := s.1 - w                               -- p -= width
  let t := storeLoop pre w 0 p2 0 s.2.2           -- normalisation loop (with error diffusion)
  let q := t.1 - w                                -- p - width
  (t.1, wr t.2.2 q (wrap32 (rd t.2.2 q + wrap32 (65536 - t.2.1))))   -- *(p - width) += pixman_fixed_1 - new_total

/-- `create_1d_filter (w, …, n_phases, p)`: `n` phases remain, the next one is phase `i` -/
def create1d (w : Nat) (raw pre : Nat → Nat → Int) : (n i p : Nat) → Mem → Nat × Mem
  | 0, _, p, m => (p, m)
  | n + 1, i, p, m =>
    let r := phase w (raw i) (pre i) p m
    create1d w raw pre n (i + 1) r.1 r.2

/-- `pixman_filter_create_separable_convolution` after the `malloc`: header, x table, y table -/
def createBlock (wx bx wy by_ : Nat) (rawx prex rawy prey : Nat → Nat → Int) (m : Mem) : Mem :=
  let m := wr m 0 (intToFixed wx)
  let m := wr m 1 (intToFixed wy)
  let m := wr m 2 (intToFixed bx)
  let m := wr m 3 (intToFixed by_)
  let m := (create1d wx rawx prex (2 ^ bx) 0 xOffset m).2
  (create1d wy rawy prey (2 ^ by_) 0 (yOffset wx bx) m).2

/-- sum of the `n` cells starting at `p` -/
def sumCells (m : Mem) (p : Nat) : Nat → Int
  | 0 => 0
  | n + 1 => sumCells m p n + rd m (p + n)

/-! ## the convolution arithmetic on a constant image
`bits_image_fetch_pixel_separable_convolution` / `bits_image_fetch_separable_convolution_affine`: for every pair of
non-zero coefficients `f = (fy * fx + 0x8000) >> 16`, `tot += channel * f`; then `(tot + 0x8000) >> 16` clipped to
`[0, 255]`.  With a constant channel value `c` under every tap. -/

def prodRound (fy fx : Int) : Int := (fy * fx + 32768) / 65536

def rowAcc (c fy : Int) : List Int → Int
  | [] => 0
  | fx :: r => (if fx ≠ 0 then c * prodRound fy fx else 0) + rowAcc c fy r

def convAcc (c : Int) (fxs : List Int) : List Int → Int
  | [] => 0
  | fy :: r => (if fy ≠ 0 then rowAcc c fy fxs else 0) + convAcc c fxs r

def clip255 (v : Int) : Int := if v < 0 then 0 else if v > 255 then 255 else v

/-- the accumulators are 32-bit (`unsigned`, reinterpreted as `int32_t` by `reduce_32`; `int` in the fast path) -/
def reduce (tot : Int) : Int := clip255 (wrap32 (wrap32 tot + 32768) / 65536)

def convConstant (c : Int) (fxs fys : List Int) : Int := reduce (convAcc c fxs fys)

end Pixman.Model.Filter

import Pixman.Model.Format
/-! An exact model of the IEEE-754 binary32 arithmetic that pixman-utils.c / pixman-access.c use on the wide
(float) paths: a C `float` is its 32-bit pattern (`F32 = Nat`), its value is the rational `toRat`, and every
operation is "compute exactly, then `roundNE`" (round to nearest, ties to even, gradual underflow; results at or
above 2^128 become +inf — none of the proved statements gets near it).  NaN is not modelled (no operation here
produces one from finite inputs; `float_to_unorm (NaN)` is undefined behaviour in C).  x86-64 evaluates `float`
expressions in binary32 (FLT_EVAL_METHOD 0), so `u * (1.f / m)` is two roundings: the reciprocal, then the product.

`roundNE` is tied to the hardware by the correspondence check: the driver prints these bit patterns and the check
requires equality with the library's floats.  Core Lean only. -/
namespace Pixman.Model.Binary32
open Pixman.Model.Format

/-- bit pattern of a binary32 -/
abbrev F32 := Nat

def zero : F32 := 0
def one : F32 := 0x3f800000
def posInf : F32 := 0x7f800000

/-- the value of a finite binary32 (specification-level meaning of a bit pattern) -/
def toRat (x : F32) : Rat := f32ToRat x

/-! ## fields.  A finite `x` has the value `(-1)^sign · mant x · 2^(ebias x - 150)`. -/

def signBit (x : F32) : Nat := (x >>> 31) &&& 1
def expField (x : F32) : Nat := (x >>> 23) &&& 0xff
def fracField (x : F32) : Nat := x &&& 0x7fffff
def mag (x : F32) : Nat := x &&& 0x7fffffff
/-- integer significand: the hidden bit is present unless the number is subnormal -/
def mant (x : F32) : Nat := if expField x = 0 then fracField x else fracField x + 0x800000
/-- exponent field, with the subnormal binade sharing the exponent of the first normal one -/
def ebias (x : F32) : Nat := if expField x = 0 then 1 else expField x

/-- `force n k = k n` (`force_eq`).  Kernel evaluation is call-by-name: a `let` value used several times is
recomputed at every use.  Matching on the number first makes the kernel evaluate it once and pass the literal on. -/
def force {α : Type} (n : Nat) (k : Nat → α) : α :=
  match n with
  | 0 => k 0
  | m + 1 => k (m + 1)

theorem force_eq {α : Type} (n : Nat) (k : Nat → α) : force n k = k n := by
  cases n <;> rfl

/-- one step of the binary search for the position of the leading bit: if `x ≥ 2^k` continue with `x >>> k` and
`k` more bits counted -/
def log2Step (k x r : Nat) (cont : Nat → Nat → Nat) : Nat :=
  force (if x ≥ 2 ^ k then k else 0) fun s => force (x >>> s) fun x' => force (r + s) fun r' => cont x' r'

/-- `⌊log2 x⌋` (0 for `x = 0`), by binary search with shifts for `x < 2^512` (the kernel evaluates shifts and
comparisons natively; `Nat.log2` is a well-founded recursion and slow there) -/
def log2Fast (x : Nat) : Nat :=
  if x ≥ 2 ^ 512 then Nat.log2 x
  else
    log2Step 256 x 0 fun x r => log2Step 128 x r fun x r => log2Step 64 x r fun x r => log2Step 32 x r fun x r =>
    log2Step 16 x r fun x r => log2Step 8 x r fun x r => log2Step 4 x r fun x r => log2Step 2 x r fun x r =>
    log2Step 1 x r fun _ r => r

/-- last stage of `roundFrac`: numerator `N`, denominator `D` of the scaled value, biased binade `eeb` -/
def roundFracFinish (N D eeb : Nat) : F32 :=
  force (N / D) fun sig =>
  force (N % D) fun rem =>
  force (if 2 * rem > D ∨ (2 * rem = D ∧ sig % 2 = 1) then sig + 1 else sig) fun sig =>
  force (((eeb - 74) <<< 23) + sig) fun bits =>
  if bits ≥ 0x7f800000 then 0x7f800000 else bits

/-- round-to-nearest-even of the non-negative fraction `a / b` to the magnitude bits of a binary32.  Natural-number
arithmetic only (so that the kernel evaluates it quickly): `d - 200 = ⌊log2 (a/b)⌋`, `eeb - 200 = max (that, -126)`
is the exponent of the result's binade, the significand is `a/b · 2^(223 - eeb)` rounded to an integer with ties
to even, and `(eeb - 74) <<< 23 + sig` encodes normal numbers (`2^23 ≤ sig`: the leading bit bumps the exponent
field), subnormals (`eeb = 74`, `sig < 2^23`) and the carry `sig = 2^24` alike.  Below `2^-200` the result is 0; at
or above `2^128` it is +inf. -/
def roundFrac (a b : Nat) : F32 :=
  force a fun a => force b fun b =>
  if a = 0 ∨ b = 0 then 0 else
  force (log2Fast a) fun la =>
  force (log2Fast b) fun lb =>
  if la + 200 < lb then 0 else
  force (la + 200 - lb) fun d0 =>
  force (if a * 2 ^ 200 ≥ b * 2 ^ d0 then 1 else 0) fun ge =>
  if ge = 0 ∧ d0 = 0 then 0 else
  force (if ge = 1 then d0 else d0 - 1) fun d =>
  force (if d < 74 then 74 else d) fun eeb =>
  roundFracFinish (if eeb ≤ 223 then a * 2 ^ (223 - eeb) else a) (if eeb ≤ 223 then b else b * 2 ^ (eeb - 223)) eeb

/-- round to nearest even of a rational -/
def roundNE (q : Rat) : F32 :=
  if q < 0 then 0x80000000 + roundFrac (-q).num.toNat q.den else roundFrac q.num.toNat q.den

/-- `(float) u` for an unsigned integer -/
def ofNat32 (u : Nat) : F32 := roundFrac u 1

/-- `a * b`: exact product `mant a · mant b · 2^(ebias a + ebias b - 300)`, rounded -/
def mul32 (a b : F32) : F32 :=
  force a fun a => force b fun b =>
  force (mant a * mant b) fun m =>
  force (ebias a + ebias b) fun e =>
  ((signBit a ^^^ signBit b) <<< 31) +
    (if e ≥ 300 then roundFrac (m * 2 ^ (e - 300)) 1 else roundFrac m (2 ^ (300 - e)))

/-- `a / b` (sign of the quotient as in IEEE; `x / 0 = inf`) -/
def div32 (a b : F32) : F32 :=
  force a fun a => force b fun b =>
  ((signBit a ^^^ signBit b) <<< 31) +
    (if mant b = 0 then posInf else roundFrac (mant a * 2 ^ ebias a) (mant b * 2 ^ ebias b))

/-- `a - b` for finite operands: both as integers in units of `2^-149`, exact difference, rounded -/
def sub32 (a b : F32) : F32 :=
  force a fun a => force b fun b =>
  force (mant a * 2 ^ (ebias a - 1)) fun x =>
  force (mant b * 2 ^ (ebias b - 1)) fun y =>
  if signBit a ≠ signBit b then (signBit a <<< 31) + roundFrac (x + y) (2 ^ 149)
  else if x ≥ y then (signBit a <<< 31) + roundFrac (x - y) (2 ^ 149)
  else ((1 - signBit a) <<< 31) + roundFrac (y - x) (2 ^ 149)

/-- `a < b` on finite values (bit patterns of one sign are ordered like the magnitudes; `-0 = +0`) -/
def lt32 (a b : F32) : Bool :=
  if signBit a = 0 then (signBit b = 0 && decide (mag a < mag b))
  else if signBit b = 1 then decide (mag a > mag b)
  else !(mag a == 0 && mag b == 0)
def gt32 (a b : F32) : Bool := lt32 b a

/-- `(uint32_t) f` for `f ≥ 0`: truncation -/
def truncToNat (a : F32) : Nat :=
  force a fun a =>
  if ebias a ≥ 150 then mant a * 2 ^ (ebias a - 150) else mant a / 2 ^ (150 - ebias a)

/-! ## pixman-utils.c -/

/-- `unorm_to_float (uint16_t u, int n_bits)`: `(u & m) * (1.f / (float) m)` — the reciprocal is a rounded binary32,
the product is rounded again -/
def unormToFloat32 (u nBits : Nat) : F32 :=
  let m := (1 <<< nBits) - 1
  force (ofNat32 ((u % 65536) &&& m)) fun uf =>
  force (div32 one (ofNat32 m)) fun recip =>
  mul32 uf recip

/-- `float_to_unorm (float f, int n_bits)` -/
def floatToUnorm32 (f : F32) (nBits : Nat) : Nat :=
  force f fun f =>
  force (if gt32 f one then one else f) fun f =>
  force (if lt32 f zero then zero else f) fun f =>
  force (truncToNat (mul32 f (ofNat32 (1 <<< nBits))) % 4294967296) fun u =>
  (u - (u >>> nBits)) % 65536

/-- `multipliers[n]` of `pixman_expand_to_float`: `1.0f / ((1 << n) - 1)` -/
def multiplier32 (n : Nat) : F32 := if n = 0 then 0 else div32 one (ofNat32 ((1 <<< n) - 1))

structure Argb32 where
  a : F32
  r : F32
  g : F32
  b : F32
  deriving Repr, DecidableEq

/-- one pixel of `pixman_expand_to_float` -/
def expandToFloat32 (format pixel : Nat) : Argb32 :=
  let format := if fmtVis format = 0 then A8R8G8B8 else format
  let aSize := fmtA format
  let rSize := fmtR format
  let gSize := fmtG format
  let bSize := fmtB format
  let aShift := 32 - aSize
  let rShift := 24 - rSize
  let gShift := 16 - gSize
  let bShift := 8 - bSize
  let aMask := (1 <<< aSize) - 1
  let rMask := (1 <<< rSize) - 1
  let gMask := (1 <<< gSize) - 1
  let bMask := (1 <<< bSize) - 1
  { a := if aMask ≠ 0 then mul32 (ofNat32 ((pixel >>> aShift) &&& aMask)) (multiplier32 aSize) else one
    r := mul32 (ofNat32 ((pixel >>> rShift) &&& rMask)) (multiplier32 rSize)
    g := mul32 (ofNat32 ((pixel >>> gShift) &&& gMask)) (multiplier32 gSize)
    b := mul32 (ofNat32 ((pixel >>> bShift) &&& bMask)) (multiplier32 bSize) }

/-- one pixel of `pixman_contract_from_float` -/
def contractFromFloat32 (p : Argb32) : Nat :=
  (floatToUnorm32 p.a 8 <<< 24) ||| (floatToUnorm32 p.r 8 <<< 16) ||| (floatToUnorm32 p.g 8 <<< 8) |||
    (floatToUnorm32 p.b 8 <<< 0)

/-! ## pixman-access.c: packed 10-bit formats -/

def fetchA2r10g10b10 (p : Nat) : Argb32 :=
  { a := unormToFloat32 (p >>> 30) 2, r := unormToFloat32 ((p >>> 20) &&& 0x3ff) 10,
    g := unormToFloat32 ((p >>> 10) &&& 0x3ff) 10, b := unormToFloat32 (p &&& 0x3ff) 10 }
def fetchX2r10g10b10 (p : Nat) : Argb32 :=
  { a := one, r := unormToFloat32 ((p >>> 20) &&& 0x3ff) 10,
    g := unormToFloat32 ((p >>> 10) &&& 0x3ff) 10, b := unormToFloat32 (p &&& 0x3ff) 10 }
def fetchA2b10g10r10 (p : Nat) : Argb32 :=
  { a := unormToFloat32 (p >>> 30) 2, b := unormToFloat32 ((p >>> 20) &&& 0x3ff) 10,
    g := unormToFloat32 ((p >>> 10) &&& 0x3ff) 10, r := unormToFloat32 (p &&& 0x3ff) 10 }
def fetchX2b10g10r10 (p : Nat) : Argb32 :=
  { a := one, b := unormToFloat32 ((p >>> 20) &&& 0x3ff) 10,
    g := unormToFloat32 ((p >>> 10) &&& 0x3ff) 10, r := unormToFloat32 (p &&& 0x3ff) 10 }

def storeA2r10g10b10 (v : Argb32) : Nat :=
  (floatToUnorm32 v.a 2 <<< 30) ||| (floatToUnorm32 v.r 10 <<< 20) ||| (floatToUnorm32 v.g 10 <<< 10) ||| floatToUnorm32 v.b 10
def storeX2r10g10b10 (v : Argb32) : Nat :=
  (floatToUnorm32 v.r 10 <<< 20) ||| (floatToUnorm32 v.g 10 <<< 10) ||| floatToUnorm32 v.b 10
def storeA2b10g10r10 (v : Argb32) : Nat :=
  (floatToUnorm32 v.a 2 <<< 30) ||| (floatToUnorm32 v.b 10 <<< 20) ||| (floatToUnorm32 v.g 10 <<< 10) ||| floatToUnorm32 v.r 10
def storeX2b10g10r10 (v : Argb32) : Nat :=
  (floatToUnorm32 v.b 10 <<< 20) ||| (floatToUnorm32 v.g 10 <<< 10) ||| floatToUnorm32 v.r 10

/-! ## a8r8g8b8_sRGB -/

/-- `to_linear[i]`: the table entry itself (it *is* a float bit pattern) -/
def toLinear32 (i : Nat) : F32 := Pixman.Gen.Formats.toLinearU.getD i 0

/-- the `while (high - low > 1)` loop of `to_srgb` -/
def toSrgbLoop32 (f : F32) : (fuel low high : Nat) → Nat × Nat
  | 0, low, high => (low, high)
  | fuel + 1, low, high =>
    if high - low > 1 then
      let mid := (low + high) / 2
      if gt32 (toLinear32 mid) f then toSrgbLoop32 f fuel low mid else toSrgbLoop32 f fuel mid high
    else (low, high)

/-- `to_srgb (float f)`: the two differences are float subtractions -/
def toSrgb32 (f : F32) : Nat :=
  let (low, high) := toSrgbLoop32 f 8 0 255
  if lt32 (sub32 (toLinear32 high) f) (sub32 f (toLinear32 low)) then high else low

def fetchSrgb32 (p : Nat) : Argb32 :=
  { a := unormToFloat32 ((p >>> 24) &&& 0xff) 8, r := toLinear32 ((p >>> 16) &&& 0xff),
    g := toLinear32 ((p >>> 8) &&& 0xff), b := toLinear32 ((p >>> 0) &&& 0xff) }

def storeSrgb32 (v : Argb32) : Nat :=
  (floatToUnorm32 v.a 8 <<< 24) ||| (toSrgb32 v.r <<< 16) ||| (toSrgb32 v.g <<< 8) ||| toSrgb32 v.b

def fetchWide32 (name : String) (p : Nat) : Option Argb32 :=
  if name = "a2r10g10b10" then some (fetchA2r10g10b10 p)
  else if name = "x2r10g10b10" then some (fetchX2r10g10b10 p)
  else if name = "a2b10g10r10" then some (fetchA2b10g10r10 p)
  else if name = "x2b10g10r10" then some (fetchX2b10g10r10 p)
  else if name = "a8r8g8b8_sRGB" then some (fetchSrgb32 p)
  else none

def storeWide32 (name : String) (v : Argb32) : Option Nat :=
  if name = "a2r10g10b10" then some (storeA2r10g10b10 v)
  else if name = "x2r10g10b10" then some (storeX2r10g10b10 v)
  else if name = "a2b10g10r10" then some (storeA2b10g10r10 v)
  else if name = "x2b10g10r10" then some (storeX2b10g10r10 v)
  else if name = "a8r8g8b8_sRGB" then some (storeSrgb32 v)
  else none

end Pixman.Model.Binary32

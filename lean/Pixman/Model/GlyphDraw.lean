import Pixman.Model.CompositeRegion
/-!
  Pixel-level model of glyph drawing (pixman/pixman-glyph.c: pixman_composite_glyphs_no_mask,
  add_glyphs, pixman_composite_glyphs) and of the per-box loop of pixman_image_composite32, on top
  of C03's `computeCompositeRegion32` / `compositeBoxes` and an arbitrary per-pixel combiner
  (C01's `compositePixel op ca src mask dst` is the intended instance).

  A destination is a `Canvas` (pixel value per coordinate); a source / mask is a sample function
  of its own coordinates (repeat and transform, if any, are inside that function).  A composite
  function called with a `pixman_composite_info_t` combines, for every pixel of the info
  rectangle, the source sample and the mask sample at the same offset with the destination pixel
  (`paintRect`) — the contract of every composite function (C01 per pixel, C02 across
  implementations).  Coordinates are unbounded integers here: the `int` arithmetic of the C code
  is exact under the range hypotheses of C03 (`RangeOK`).
-/
namespace Pixman.GlyphDraw
open Pixman.Region Pixman.CompositeRegion

abbrev Canvas := Int → Int → Nat
abbrev Sampler := Int → Int → Nat
/-- per-pixel combiner: source sample, mask sample, destination pixel ↦ new destination pixel -/
abbrev Comb := Nat → Nat → Nat → Nat

/-- `func (implementation, &info)` -/
def paintRect (comb : Comb) (sA mA : Sampler) (i : Info) (d : Canvas) : Canvas := fun x y =>
  if i.destX ≤ x ∧ x < i.destX + i.width ∧ i.destY ≤ y ∧ y < i.destY + i.height then
    comb (sA (i.srcX + (x - i.destX)) (i.srcY + (y - i.destY)))
      (mA (i.maskX + (x - i.destX)) (i.maskY + (y - i.destY))) (d x y)
  else d x y

/-- the box loop of pixman_image_composite32 after a successful region computation -/
def imageComposite (comb : Comb) (src : Image) (sA : Sampler) (mask : Option Image) (mA : Sampler)
    (dest : Image) (srcX srcY maskX maskY destX destY width height : Int) (d : Canvas) : Canvas :=
  let p := computeCompositeRegion32 src mask dest srcX srcY maskX maskY destX destY width height
  if p.2 then
    (compositeBoxes p.1 srcX srcY maskX maskY destX destY).foldl
      (fun d i => paintRect comb sA mA i d) d
  else d

/-- the private copy the cache keeps of a glyph image: `fmt` stands for format + flags (it selects
    the composite function), `pix` are its pixels -/
structure GlyphImg where
  width : Int
  height : Int
  fmt : Nat
  pix : Sampler

/-- a `pixman_glyph_t` resolved through the cache: position, and the cached origin and image -/
structure Placed where
  x : Int
  y : Int
  originX : Int
  originY : Int
  img : GlyphImg

/-- the glyph image as the mask of a composite request: no clip, no alpha map -/
def GlyphImg.image (g : GlyphImg) : Image :=
  { width := g.width, height := g.height, clip := ⟨⟨0, 0, 0, 0⟩, .emptyStatic⟩, haveClip := false,
    clipSources := false, clientClip := false, alphaMap := none }

/-- `box32_intersect` -/
def box32Intersect (b1 b2 : Box) : Option Box :=
  let d : Box := ⟨max b1.x1 b2.x1, max b1.y1 b2.y1, min b1.x2 b2.x2, min b1.y2 b2.y2⟩
  if d.x2 > d.x1 ∧ d.y2 > d.y1 then some d else none

/-- `glyph_box` of pixman_composite_glyphs_no_mask / add_glyphs (`offX = dest_x` resp. `-mask_x`) -/
def glyphBox (offX offY : Int) (g : Placed) : Box :=
  let x1 := offX + g.x - g.originX
  let y1 := offY + g.y - g.originY
  ⟨x1, y1, x1 + g.img.width, y1 + g.img.height⟩

/-- the `info` filled in for one non-empty `composite_box` in pixman_composite_glyphs_no_mask -/
def noMaskInfo (srcX srcY destX destY : Int) (g : Placed) (cb : Box) : Info :=
  { srcX := srcX + cb.x1 - destX
    srcY := srcY + cb.y1 - destY
    maskX := cb.x1 - (destX + g.x - g.originX)
    maskY := cb.y1 - (destY + g.y - g.originY)
    destX := cb.x1
    destY := cb.y1
    width := cb.x2 - cb.x1
    height := cb.y2 - cb.y1 }

/-- the `info` structures one glyph produces in pixman_composite_glyphs_no_mask: one per region box
    that meets the glyph box -/
def noMaskInfos (region : Region) (srcX srcY destX destY : Int) (g : Placed) : List Info :=
  region.rects.filterMap fun pbox =>
    (box32Intersect pbox (glyphBox destX destY g)).map (noMaskInfo srcX srcY destX destY g)

/-- pixman_composite_glyphs_no_mask; `comb fmt` is the composite function looked up for
    (op, source, glyph format `fmt` as mask, destination) -/
def compositeGlyphsNoMask (comb : Nat → Comb) (src : Image) (sA : Sampler) (dest : Image)
    (srcX srcY destX destY : Int) (glyphs : List Placed) (d : Canvas) : Canvas :=
  let p := computeCompositeRegion32 src none dest (srcX - destX) (srcY - destY) 0 0 0 0
    dest.width dest.height
  if p.2 then
    glyphs.foldl (fun d g =>
      (noMaskInfos p.1 srcX srcY destX destY g).foldl
        (fun d i => paintRect (comb g.img.fmt) sA g.img.pix i d) d) d
  else d

/-- the `info` of one glyph in add_glyphs (at most one: the mask has no clip) -/
def addInfos (maskW maskH offX offY : Int) (g : Placed) : List Info :=
  match box32Intersect (glyphBox offX offY g) ⟨0, 0, maskW, maskH⟩ with
  | some cb =>
    let gb := glyphBox offX offY g
    [{ srcX := cb.x1 - gb.x1, srcY := cb.y1 - gb.y1, maskX := cb.x1 - gb.x1, maskY := cb.y1 - gb.y1,
       destX := cb.x1, destY := cb.y1, width := cb.x2 - cb.x1, height := cb.y2 - cb.y1 }]
  | none => []

/-- add_glyphs.  When the glyph format equals the mask format the glyph is the SOURCE of an
    unmasked ADD (`addSame`), otherwise it is the MASK of `white ADD` (`addWhite fmt`); the
    composite functions are told apart by what they read: `addSame` its source sample,
    `addWhite` its mask sample (the white source is constant). -/
def addGlyphs (addSame : Comb) (addWhite : Nat → Comb) (maskFmt : Nat) (maskW maskH offX offY : Int)
    (glyphs : List Placed) (m : Canvas) : Canvas :=
  glyphs.foldl (fun m g =>
    (addInfos maskW maskH offX offY g).foldl (fun m i =>
      if g.img.fmt = maskFmt then paintRect addSame g.img.pix (fun _ _ => 0) i m
      else paintRect (addWhite g.img.fmt) (fun _ _ => 0xffffffff) g.img.pix i m) m) m

/-- the freshly created mask image of pixman_composite_glyphs -/
def maskImage (width height : Int) : Image :=
  { width := width, height := height, clip := ⟨⟨0, 0, 0, 0⟩, .emptyStatic⟩, haveClip := false,
    clipSources := false, clientClip := false, alphaMap := none }

/-- pixman_composite_glyphs: zero-filled mask, add_glyphs at (-mask_x, -mask_y), one composite -/
def compositeGlyphs (comb : Comb) (addSame : Comb) (addWhite : Nat → Comb) (maskFmt : Nat)
    (src : Image) (sA : Sampler) (dest : Image)
    (srcX srcY maskX maskY destX destY width height : Int) (glyphs : List Placed) (d : Canvas) : Canvas :=
  let m := addGlyphs addSame addWhite maskFmt width height (-maskX) (-maskY) glyphs (fun _ _ => 0)
  imageComposite comb src sA (some (maskImage width height)) m dest srcX srcY 0 0 destX destY
    width height d

end Pixman.GlyphDraw

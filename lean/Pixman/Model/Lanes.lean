import Pixman.Model.Arith
/-! The two-components-at-a-time macros of `pixman-combine32.h` (`UN8_rb_*`, `UN8x4_*`) on
`Nat < 2^32`, statement by statement as in C: every `uint32_t` `+`, `*`, `-`, `<<` is followed by
`% 2^32`; `>>`, `&`, `|` cannot leave the range.  Each function returns the new value of the
macro's in/out argument `x` (the scratch `t` is local).  Core Lean only. -/
namespace Pixman.Lanes

/-- `UN8_rb_MUL_UN8(x, a, t)` : `x_rb = (x_rb * a) / 255`. -/
def rbMulUn8 (x a : Nat) : Nat :=
  let t := ((x &&& 0xff00ff) * a) % 4294967296
  let t := (t + 0x800080) % 4294967296
  let x := ((t + ((t >>> 8) &&& 0xff00ff)) % 4294967296) >>> 8
  x &&& 0xff00ff

/-- `UN8_rb_ADD_UN8_rb(x, y, t)` : `x_rb = min (x_rb + y_rb, 255)`. -/
def rbAddUn8rb (x y : Nat) : Nat :=
  let t := (x + y) % 4294967296
  let t := t ||| ((0x1000100 + 4294967296 - ((t >>> 8) &&& 0xff00ff) % 4294967296) % 4294967296)
  t &&& 0xff00ff

/-- `UN8_rb_MUL_UN8_rb(x, a, t)` : `x_rb = (x_rb * a_rb) / 255`. -/
def rbMulUn8rb (x a : Nat) : Nat :=
  let t := ((x &&& 0xff) * (a &&& 0xff)) % 4294967296
  let t := t ||| (((x &&& 0xff0000) * ((a >>> 16) &&& 0xff)) % 4294967296)
  let t := (t + 0x800080) % 4294967296
  let t := ((t + ((t >>> 8) &&& 0xff00ff)) % 4294967296) >>> 8
  t &&& 0xff00ff

/-- `UN8x4_MUL_UN8(x, a)` : `x_c = (x_c * a) / 255`. -/
def un8x4MulUn8 (x a : Nat) : Nat :=
  let r1 := x
  let r1 := rbMulUn8 r1 a
  let r2 := x >>> 8
  let r2 := rbMulUn8 r2 a
  r1 ||| ((r2 <<< 8) % 4294967296)

/-- `UN8x4_MUL_UN8_ADD_UN8x4(x, a, y)` : `x_c = (x_c * a) / 255 + y_c`. -/
def un8x4MulUn8AddUn8x4 (x a y : Nat) : Nat :=
  let r1 := x
  let r2 := y &&& 0xff00ff
  let r1 := rbMulUn8 r1 a
  let r1 := rbAddUn8rb r1 r2
  let r2 := x >>> 8
  let r3 := (y >>> 8) &&& 0xff00ff
  let r2 := rbMulUn8 r2 a
  let r2 := rbAddUn8rb r2 r3
  r1 ||| ((r2 <<< 8) % 4294967296)

/-- `UN8x4_MUL_UN8_ADD_UN8x4_MUL_UN8(x, a, y, b)` : `x_c = (x_c * a + y_c * b) / 255`
(each product rounded on its own, then a saturating add). -/
def un8x4MulUn8AddUn8x4MulUn8 (x a y b : Nat) : Nat :=
  let r1 := x
  let r2 := y
  let r1 := rbMulUn8 r1 a
  let r2 := rbMulUn8 r2 b
  let r1 := rbAddUn8rb r1 r2
  let r2 := x >>> 8
  let r3 := y >>> 8
  let r2 := rbMulUn8 r2 a
  let r3 := rbMulUn8 r3 b
  let r2 := rbAddUn8rb r2 r3
  r1 ||| ((r2 <<< 8) % 4294967296)

/-- `UN8x4_MUL_UN8x4(x, a)` : `x_c = (x_c * a_c) / 255`. -/
def un8x4MulUn8x4 (x a : Nat) : Nat :=
  let r1 := x
  let r2 := a
  let r1 := rbMulUn8rb r1 r2
  let r2 := x >>> 8
  let r3 := a >>> 8
  let r2 := rbMulUn8rb r2 r3
  r1 ||| ((r2 <<< 8) % 4294967296)

/-- `UN8x4_MUL_UN8x4_ADD_UN8x4(x, a, y)` : `x_c = (x_c * a_c) / 255 + y_c`. -/
def un8x4MulUn8x4AddUn8x4 (x a y : Nat) : Nat :=
  let r1 := x
  let r2 := a
  let r1 := rbMulUn8rb r1 r2
  let r2 := y &&& 0xff00ff
  let r1 := rbAddUn8rb r1 r2
  let r2 := x >>> 8
  let r3 := a >>> 8
  let r2 := rbMulUn8rb r2 r3
  let r3 := (y >>> 8) &&& 0xff00ff
  let r2 := rbAddUn8rb r2 r3
  r1 ||| ((r2 <<< 8) % 4294967296)

/-- `UN8x4_MUL_UN8x4_ADD_UN8x4_MUL_UN8(x, a, y, b)` : `x_c = (x_c * a_c + y_c * b) / 255`. -/
def un8x4MulUn8x4AddUn8x4MulUn8 (x a y b : Nat) : Nat :=
  let r1 := x
  let r2 := a
  let r1 := rbMulUn8rb r1 r2
  let r2 := y
  let r2 := rbMulUn8 r2 b
  let r1 := rbAddUn8rb r1 r2
  let r2 := x >>> 8
  let r3 := a >>> 8
  let r2 := rbMulUn8rb r2 r3
  let r3 := y >>> 8
  let r3 := rbMulUn8 r3 b
  let r2 := rbAddUn8rb r2 r3
  r1 ||| ((r2 <<< 8) % 4294967296)

/-- `UN8x4_ADD_UN8x4(x, y)` : `x_c = min (x_c + y_c, 255)`. -/
def un8x4AddUn8x4 (x y : Nat) : Nat :=
  let r1 := x &&& 0xff00ff
  let r2 := y &&& 0xff00ff
  let r1 := rbAddUn8rb r1 r2
  let r2 := (x >>> 8) &&& 0xff00ff
  let r3 := (y >>> 8) &&& 0xff00ff
  let r2 := rbAddUn8rb r2 r3
  r1 ||| ((r2 <<< 8) % 4294967296)

end Pixman.Lanes

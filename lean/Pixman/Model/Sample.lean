import Pixman.Model.Matrix
/-
  Coordinate arithmetic shared by C04/C08: `repeat ()` of pixman-inlines.h and the stepping of the
  reference affine fetcher (`__bits_image_fetch_affine_no_alpha` in pixman-bits-image.c).

  Hand-written, core Lean only, total functions.  `int` values are `Int`s; where the C code can wrap
  (`x += ux` on `pixman_fixed_t`) the wrap is explicit.  `repeat` is modelled for `size > 0` (what
  every caller passes: an image width/height); for `size ≤ 0` the C loops of NORMAL do not
  terminate and the model simply returns its argument.  `size * 2` of REFLECT is not wrapped
  (sizes are image dimensions, far below 2^30).
-/
namespace Pixman.Sample
open Pixman.Matrix

inductive RepeatMode where
  | none | normal | pad | reflect
deriving Repr, DecidableEq, Inhabited

/-- `MOD (a, b)` of pixman-private.h; `%` of C truncates towards zero (`Int.tmod`) -/
def MOD (a b : Int) : Int :=
  if a < 0 then (b - Int.tmod (-a - 1) b) - 1 else Int.tmod a b

/-- `CLIP (v, low, high)` -/
def CLIP (v low high : Int) : Int := if v < low then low else if v > high then high else v

/-- `while (*c >= size) *c -= size;` -/
def subLoop (c size : Int) : Int :=
  if _h : 0 < size ∧ c ≥ size then subLoop (c - size) size else c
termination_by (c - size + 1).toNat
decreasing_by omega

/-- `while (*c < 0) *c += size;` -/
def addLoop (c size : Int) : Int :=
  if _h : 0 < size ∧ c < 0 then addLoop (c + size) size else c
termination_by (-c).toNat
decreasing_by omega

/-- `repeat (mode, &c, size)`: `none` = FALSE (REPEAT_NONE, coordinate outside), else the new `*c` -/
def «repeat» (mode : RepeatMode) (c size : Int) : Option Int :=
  match mode with
  | .none => if c < 0 ∨ c ≥ size then none else some c
  | .normal => some (addLoop (subLoop c size) size)
  | .pad => some (CLIP c 0 (size - 1))
  | .reflect =>
    let c := MOD c (size * 2)
    some (if c ≥ size then size * 2 - c - 1 else c)

/-- pixel centre `(x, y)` as the fetcher forms it: `pixman_int_to_fixed (x) + pixman_fixed_1 / 2` -/
def pixelCentre (x y : Int) : Vec := ⟨wrapS32 (intToFixed x + 32768), wrapS32 (intToFixed y + 32768), fixed1⟩

/-- `x += ux` executed `i` times on a `pixman_fixed_t` -/
def stepped (x0 ux : Int) : Nat → Int
  | 0 => x0
  | i + 1 => wrapS32 (stepped x0 ux i + ux)

end Pixman.Sample

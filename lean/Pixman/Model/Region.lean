/-
  Model of pixman/pixman-region.c (instantiated by pixman-region16.c / pixman-region32.c).

  Hand-written; tied to the code by the correspondence check `harness/region.c` <-> `pixdrv region`.
  Every C function has one Lean function of the same name (camel-cased).  C control flow is kept
  (shortcuts, early returns, the order of tests); pointers into rectangle arrays become list
  suffixes; the output array under construction is `Out`.

  No Mathlib; total functions only.
-/
namespace Pixman.Region

structure Box where
  x1 : Int
  y1 : Int
  x2 : Int
  y2 : Int
deriving Repr, DecidableEq, Inhabited

/-- `region->data`:
  * `single`      — `data == NULL`, the one rectangle is `extents`;
  * `emptyStatic` — `data == pixman_region_empty_data`;
  * `broken`      — `data == pixman_broken_data`;
  * `heap l`      — a malloc'ed block (`size > 0`) holding the rectangles `l`. -/
inductive Data where
  | single
  | emptyStatic
  | broken
  | heap (rects : List Box)
deriving Repr, DecidableEq, Inhabited

structure Region where
  extents : Box
  data : Data
deriving Repr, DecidableEq, Inhabited

/-- Instantiation parameters (`PIXMAN_REGION_MIN/MAX`, coordinate width). -/
structure Cfg where
  bits : Nat          -- 16 or 32
deriving Repr, DecidableEq

def Cfg.min (c : Cfg) : Int := -(2 ^ (c.bits - 1) : Int)
def Cfg.max (c : Cfg) : Int := (2 ^ (c.bits - 1) : Int) - 1

/-- two's complement truncation to `n` bits, as a C conversion to `intN_t` does in practice -/
def wrapS (n : Nat) (v : Int) : Int :=
  let m : Int := 2 ^ n
  let r := v % m
  if r ≥ m / 2 then r - m else r

def c16 : Cfg := ⟨16⟩
def c32 : Cfg := ⟨32⟩

def emptyBox : Box := ⟨0, 0, 0, 0⟩

/-! ### macros -/

def Region.rects (r : Region) : List Box :=
  match r.data with
  | .single => [r.extents]
  | .emptyStatic => []
  | .broken => []
  | .heap l => l

def Region.numRects (r : Region) : Nat := r.rects.length

/-- PIXREGION_NIL -/
def Region.nil (r : Region) : Bool :=
  match r.data with
  | .single => false
  | .emptyStatic => true
  | .broken => true
  | .heap l => l.isEmpty

/-- PIXREGION_NAR -/
def Region.nar (r : Region) : Bool :=
  match r.data with
  | .broken => true
  | _ => false

def goodRect (b : Box) : Bool := b.x1 < b.x2 && b.y1 < b.y2
def badRect (b : Box) : Bool := b.x1 > b.x2 || b.y1 > b.y2

/-- EXTENTCHECK -/
def extentCheck (r1 r2 : Box) : Bool :=
  !(r1.x2 ≤ r2.x1 || r1.x1 ≥ r2.x2 || r1.y2 ≤ r2.y1 || r1.y1 ≥ r2.y2)

/-- INBOX -/
def inBox (r : Box) (x y : Int) : Bool :=
  r.x2 > x && r.x1 ≤ x && r.y2 > y && r.y1 ≤ y

/-- SUBSUMES -/
def subsumes (r1 r2 : Box) : Bool :=
  r1.x1 ≤ r2.x1 && r1.x2 ≥ r2.x2 && r1.y1 ≤ r2.y1 && r1.y2 ≥ r2.y2

/-! ### constructors -/

/-- pixman_region_init -/
def init : Region := ⟨emptyBox, .emptyStatic⟩

/-- pixman_region_init_rect: `x + width` is computed in `unsigned int` and converted to the
    coordinate type. -/
def initRect (c : Cfg) (x y : Int) (w h : Nat) : Region :=
  let e : Box := ⟨wrapS c.bits x, wrapS c.bits y, wrapS c.bits (x + w), wrapS c.bits (y + h)⟩
  if !goodRect e then init else ⟨e, .single⟩

/-- pixman_region_init_with_extents -/
def initWithExtents (e : Box) : Region :=
  if !goodRect e then init else ⟨e, .single⟩

/-- pixman_region_copy (no-failure world): the destination takes the source's value. -/
def copy (_dst src : Region) : Region := src

/-- pixman_break -/
def brk : Region := ⟨emptyBox, .broken⟩

/-! ### band procedures (pixman_region_intersect_o, union_o, subtract_o, append_non_o) -/

inductive OpKind | inter | union | sub
deriving DecidableEq, Repr

/-- FIND_BAND: split off the leading band (all boxes with the same y1 as the head). -/
def splitBandGo (y1 : Int) : List Box → List Box × List Box
  | [] => ([], [])
  | c :: t =>
    if c.y1 = y1 then
      let p := splitBandGo y1 t
      (c :: p.1, p.2)
    else ([], c :: t)

def splitBand : List Box → List Box × List Box
  | [] => ([], [])
  | b :: t =>
    let p := splitBandGo b.y1 t
    (b :: p.1, p.2)

theorem splitBandGo_len (y1 : Int) (l : List Box) :
    (splitBandGo y1 l).1.length + (splitBandGo y1 l).2.length = l.length := by
  induction l with
  | nil => simp [splitBandGo]
  | cons c t ih =>
    simp only [splitBandGo]
    split
    · simp; omega
    · simp

theorem splitBand_len (l : List Box) :
    (splitBand l).1.length + (splitBand l).2.length = l.length := by
  cases l with
  | nil => simp [splitBand]
  | cons b t => simp [splitBand]; have := splitBandGo_len b.y1 t; omega

/-- pixman_region_intersect_o -/
def interO (y1 y2 : Int) : List Box → List Box → List Box
  | [], _ => []
  | _, [] => []
  | a :: as, b :: bs =>
    let x1 := max a.x1 b.x1
    let x2 := min a.x2 b.x2
    let out := if x1 < x2 then [Box.mk x1 y1 x2 y2] else []
    if a.x2 = x2 then
      if b.x2 = x2 then out ++ interO y1 y2 as bs else out ++ interO y1 y2 as (b :: bs)
    else
      if b.x2 = x2 then out ++ interO y1 y2 (a :: as) bs
      else out ++ interO y1 y2 as bs   -- unreachable (x2 is one of the two); keeps the function total
termination_by l1 l2 => l1.length + l2.length
decreasing_by all_goals simp_wf <;> omega

/-- MERGERECT loops of pixman_region_union_o: `(cx1,cx2)` is the rectangle under construction. -/
def mergeAll (y1 y2 : Int) (cx1 cx2 : Int) : List Box → List Box → List Box
  | [], [] => [Box.mk cx1 y1 cx2 y2]
  | a :: as, [] =>
    if a.x1 ≤ cx2 then mergeAll y1 y2 cx1 (if cx2 < a.x2 then a.x2 else cx2) as []
    else Box.mk cx1 y1 cx2 y2 :: mergeAll y1 y2 a.x1 a.x2 as []
  | [], b :: bs =>
    if b.x1 ≤ cx2 then mergeAll y1 y2 cx1 (if cx2 < b.x2 then b.x2 else cx2) [] bs
    else Box.mk cx1 y1 cx2 y2 :: mergeAll y1 y2 b.x1 b.x2 [] bs
  | a :: as, b :: bs =>
    if a.x1 < b.x1 then
      if a.x1 ≤ cx2 then mergeAll y1 y2 cx1 (if cx2 < a.x2 then a.x2 else cx2) as (b :: bs)
      else Box.mk cx1 y1 cx2 y2 :: mergeAll y1 y2 a.x1 a.x2 as (b :: bs)
    else
      if b.x1 ≤ cx2 then mergeAll y1 y2 cx1 (if cx2 < b.x2 then b.x2 else cx2) (a :: as) bs
      else Box.mk cx1 y1 cx2 y2 :: mergeAll y1 y2 b.x1 b.x2 (a :: as) bs
termination_by l1 l2 => l1.length + l2.length
decreasing_by all_goals simp_wf <;> omega

/-- pixman_region_union_o -/
def unionO (y1 y2 : Int) : List Box → List Box → List Box
  | a :: as, b :: bs =>
    if a.x1 < b.x1 then mergeAll y1 y2 a.x1 a.x2 as (b :: bs)
    else mergeAll y1 y2 b.x1 b.x2 (a :: as) bs
  | _, _ => []   -- critical_if_fail (r1 != r1_end && r2 != r2_end)

/-- pixman_region_subtract_o; `x1` is the left fence in the current minuend. -/
def subO (y1 y2 : Int) (x1 : Int) : List Box → List Box → List Box
  | [], _ => []
  | a :: as, [] =>
    Box.mk x1 y1 a.x2 y2 :: (match as with
      | [] => []
      | a' :: as' => subO y1 y2 a'.x1 (a' :: as') [])
  | a :: as, b :: bs =>
    if b.x2 ≤ x1 then subO y1 y2 x1 (a :: as) bs
    else if b.x1 ≤ x1 then
      let x1' := b.x2
      if x1' ≥ a.x2 then
        match as with
        | [] => []
        | a' :: as' => subO y1 y2 a'.x1 (a' :: as') (b :: bs)
      else subO y1 y2 x1' (a :: as) bs
    else if b.x1 < a.x2 then
      let r := Box.mk x1 y1 b.x1 y2
      let x1' := b.x2
      if x1' ≥ a.x2 then
        match as with
        | [] => [r]
        | a' :: as' => r :: subO y1 y2 a'.x1 (a' :: as') (b :: bs)
      else r :: subO y1 y2 x1' (a :: as) bs
    else
      let pre := if a.x2 > x1 then [Box.mk x1 y1 a.x2 y2] else []
      match as with
      | [] => pre
      | a' :: as' => pre ++ subO y1 y2 a'.x1 (a' :: as') (b :: bs)
termination_by l1 l2 => l1.length + l2.length
decreasing_by all_goals simp_wf <;> omega

def overlapO (k : OpKind) (y1 y2 : Int) (b1 b2 : List Box) : List Box :=
  match k with
  | .inter => interO y1 y2 b1 b2
  | .union => unionO y1 y2 b1 b2
  | .sub => match b1 with
    | [] => []
    | a :: _ => subO y1 y2 a.x1 b1 b2

/-- pixman_region_append_non_o -/
def appendNonO (band : List Box) (y1 y2 : Int) : List Box :=
  band.map fun r => Box.mk r.x1 y1 r.x2 y2

/-- The output array under construction: everything before the previous band (reversed) and the
    previous band, kept apart so that COALESCE is a local step. -/
structure Out where
  done : List Box      -- reversed
  prev : List Box      -- previous band in order; [] if prev_band == cur_band
deriving Repr

def sameSpans : List Box → List Box → Bool
  | [], [] => true
  | a :: as, b :: bs => a.x1 == b.x1 && a.x2 == b.x2 && sameSpans as bs
  | _, _ => false

/-- COALESCE + pixman_coalesce: `cur` has just been appended after `o.prev`.
    When the two bands differ in length the macro sets `prev_band = cur_band`;
    when nothing was appended that closes the previous band (`prev := []`). -/
def coalesce (o : Out) (cur : List Box) : Out :=
  match cur with
  | [] => { done := o.prev.reverse ++ o.done, prev := [] }
  | c :: _ =>
    match o.prev with
    | [] => { done := o.done, prev := cur }
    | p :: _ =>
      if o.prev.length = cur.length && p.y2 == c.y1 && sameSpans o.prev cur then
        { done := o.done, prev := o.prev.map fun r => { r with y2 := c.y2 } }
      else
        { done := o.prev.reverse ++ o.done, prev := cur }

def Out.toList (o : Out) : List Box := o.done.reverse ++ o.prev

def headY1 (l : List Box) : Int := match l with | [] => 0 | b :: _ => b.y1
def headY2 (l : List Box) : Int := match l with | [] => 0 | b :: _ => b.y2

structure St where
  r1 : List Box
  r2 : List Box
  ybot : Int
  out : Out

/-- one iteration of the main `do … while` of pixman_op -/
def sweepStep (k : OpKind) (app1 app2 : Bool) (s : St) : St :=
  let r1 := s.r1
  let r2 := s.r2
  let sb1 := splitBand r1
  let sb2 := splitBand r2
  let r1y1 := headY1 r1
  let r2y1 := headY1 r2
  let p : Out × Int :=
    if r1y1 < r2y1 then
      let o := if app1 then
          let top := max r1y1 s.ybot
          let bot := min (headY2 r1) r2y1
          if top != bot then coalesce s.out (appendNonO sb1.1 top bot) else s.out
        else s.out
      (o, r2y1)
    else if r2y1 < r1y1 then
      let o := if app2 then
          let top := max r2y1 s.ybot
          let bot := min (headY2 r2) r1y1
          if top != bot then coalesce s.out (appendNonO sb2.1 top bot) else s.out
        else s.out
      (o, r1y1)
    else (s.out, r1y1)
  let ytop := p.2
  let ybot' := min (headY2 r1) (headY2 r2)
  let out2 := if ybot' > ytop then coalesce p.1 (overlapO k ytop ybot' sb1.1 sb2.1) else p.1
  let r1' := if headY2 r1 == ybot' then sb1.2 else r1
  let r2' := if headY2 r2 == ybot' then sb2.2 else r2
  { r1 := r1', r2 := r2', ybot := ybot', out := out2 }

def sweep (k : OpKind) (app1 app2 : Bool) : Nat → St → St
  | 0, s => s
  | fuel + 1, s =>
    match s.r1, s.r2 with
    | [], _ => s
    | _, [] => s
    | _ :: _, _ :: _ => sweep k app1 app2 fuel (sweepStep k app1 app2 s)

/-- The rectangle list computed by pixman_op for non-empty inputs. -/
def pixmanOpRects (k : OpKind) (app1 app2 : Bool) (reg1 reg2 : List Box) : List Box :=
  let s0 : St := { r1 := reg1, r2 := reg2, ybot := min (headY1 reg1) (headY1 reg2),
                   out := { done := [], prev := [] } }
  -- each iteration consumes a band of r1 or r2 or raises ybot to the next band edge:
  -- 2·(|r1|+|r2|)+2 iterations always suffice (see `Props.C05.sweep_fuel_enough`)
  let s := sweep k app1 app2 (2 * (reg1.length + reg2.length) + 2) s0
  match s.r1, s.r2 with
  | r1@(_ :: _), _ =>
    if app1 then
      let sb := splitBand r1
      let o := coalesce s.out (appendNonO sb.1 (max (headY1 r1) s.ybot) (headY2 r1))
      o.toList ++ sb.2
    else s.out.toList
  | [], r2@(_ :: _) =>
    if app2 then
      let sb := splitBand r2
      let o := coalesce s.out (appendNonO sb.1 (max (headY1 r2) s.ybot) (headY2 r2))
      o.toList ++ sb.2
    else s.out.toList
  | [], [] => s.out.toList

/-- pixman_op (no-failure world).  The extents of `newReg` are those of the *old* destination
    unless exactly one rectangle results. -/
def pixmanOp (k : OpKind) (app1 app2 : Bool) (newReg reg1 reg2 : Region) : Region × Bool :=
  if reg1.nar || reg2.nar then (brk, false)
  else
    let l := pixmanOpRects k app1 app2 reg1.rects reg2.rects
    match l with
    | [] => (⟨newReg.extents, .emptyStatic⟩, true)
    | [b] => (⟨b, .single⟩, true)
    | _ => (⟨newReg.extents, .heap l⟩, true)

/-- pixman_set_extents -/
def setExtents (r : Region) : Region :=
  match r.data with
  | .single => r
  | .emptyStatic | .broken =>
    { r with extents := ⟨r.extents.x1, r.extents.y1, r.extents.x1, r.extents.y1⟩ }
  | .heap l =>
    match l, l.getLast? with
    | b :: _, some e =>
      let x1 := l.foldl (fun m q => if q.x1 < m then q.x1 else m) b.x1
      let x2 := l.foldl (fun m q => if q.x2 > m then q.x2 else m) e.x2
      { r with extents := ⟨x1, b.y1, x2, e.y2⟩ }
    | _, _ => r   -- heap block with no rectangles: the C code reads box[-1] (see Props.C07 note)

/-! ### public set operations.  `Alias` says which operand (if any) the result object is. -/

inductive Alias | none | first | second
deriving DecidableEq, Repr

/-- pixman_region_intersect -/
def intersect (same12 : Bool) (newReg reg1 reg2 : Region) : Region × Bool :=
  if reg1.nil || reg2.nil || !extentCheck reg1.extents reg2.extents then
    let e := newReg.extents
    let e' : Box := ⟨e.x1, e.y1, e.x1, e.y1⟩
    if reg1.nar || reg2.nar then (⟨e', .broken⟩, false)
    else (⟨e', .emptyStatic⟩, true)
  else if reg1.data = .single && reg2.data = .single then
    let e : Box := ⟨max reg1.extents.x1 reg2.extents.x1, max reg1.extents.y1 reg2.extents.y1,
                    min reg1.extents.x2 reg2.extents.x2, min reg1.extents.y2 reg2.extents.y2⟩
    (⟨e, .single⟩, true)
  else if reg2.data = .single && subsumes reg2.extents reg1.extents then
    (copy newReg reg1, true)
  else if reg1.data = .single && subsumes reg1.extents reg2.extents then
    (copy newReg reg2, true)
  else if same12 then
    (copy newReg reg1, true)
  else
    let p := pixmanOp .inter false false newReg reg1 reg2
    if !p.2 then p else (setExtents p.1, true)

/-- pixman_region_union -/
def union (same12 : Bool) (al : Alias) (newReg reg1 reg2 : Region) : Region × Bool :=
  if same12 then (copy newReg reg1, true)
  else if reg1.nil then
    if reg1.nar then (brk, false) else (copy newReg reg2, true)
  else if reg2.nil then
    if reg2.nar then (brk, false) else (copy newReg reg1, true)
  else if reg1.data = .single && subsumes reg1.extents reg2.extents then (copy newReg reg1, true)
  else if reg2.data = .single && subsumes reg2.extents reg1.extents then (copy newReg reg2, true)
  else
    let p := pixmanOp .union true true newReg reg1 reg2
    if !p.2 then p else
      -- extents are recomputed field by field from reg1/reg2 *as they are now*
      let e1 := if al = .first then p.1.extents else reg1.extents
      let e2 := if al = .second then p.1.extents else reg2.extents
      let x1 := min e1.x1 e2.x1
      let e1 := if al = .first then { e1 with x1 := x1 } else e1
      let e2 := if al = .second then { e2 with x1 := x1 } else e2
      let y1 := min e1.y1 e2.y1
      let e1 := if al = .first then { e1 with y1 := y1 } else e1
      let e2 := if al = .second then { e2 with y1 := y1 } else e2
      let x2 := max e1.x2 e2.x2
      let e1 := if al = .first then { e1 with x2 := x2 } else e1
      let e2 := if al = .second then { e2 with x2 := x2 } else e2
      let y2 := max e1.y2 e2.y2
      (⟨⟨x1, y1, x2, y2⟩, p.1.data⟩, true)

/-- pixman_region_subtract -/
def subtract (same : Bool) (regD regM regS : Region) : Region × Bool :=
  if regM.nil || regS.nil || !extentCheck regM.extents regS.extents then
    if regS.nar then (brk, false) else (copy regD regM, true)
  else if same then
    let e := regD.extents
    (⟨⟨e.x1, e.y1, e.x1, e.y1⟩, .emptyStatic⟩, true)
  else
    let p := pixmanOp .sub true false regD regM regS
    if !p.2 then p else (setExtents p.1, true)

/-- pixman_region_inverse -/
def inverse (newReg reg1 : Region) (invRect : Box) : Region × Bool :=
  if reg1.nil || !extentCheck invRect reg1.extents then
    if reg1.nar then (brk, false) else (⟨invRect, .single⟩, true)
  else
    let p := pixmanOp .sub true false newReg ⟨invRect, .single⟩ reg1
    if !p.2 then p else (setExtents p.1, true)

/-- pixman_region_intersect_rect -/
def intersectRect (c : Cfg) (dest source : Region) (x y : Int) (w h : Nat) :
    Region × Bool :=
  let e : Box := ⟨wrapS c.bits x, wrapS c.bits y, wrapS c.bits (x + w), wrapS c.bits (y + h)⟩
  let r : Region := ⟨e, if !goodRect e then .emptyStatic else .single⟩
  intersect false dest source r

/-- pixman_region_union_rect -/
def unionRect (c : Cfg) (al : Alias) (dest source : Region) (x y : Int) (w h : Nat) :
    Region × Bool :=
  let e : Box := ⟨wrapS c.bits x, wrapS c.bits y, wrapS c.bits (x + w), wrapS c.bits (y + h)⟩
  if !goodRect e then (copy dest source, true)
  else union false al dest source ⟨e, .single⟩

/-- pixman_region_reset -/
def reset (b : Box) : Region := ⟨b, .single⟩

/-- pixman_region_clear -/
def clear : Region := init

/-! ### pixman_region_equal -/

def boxesEq : List Box → List Box → Bool
  | [], [] => true
  | a :: as, b :: bs =>
    a.x1 == b.x1 && a.x2 == b.x2 && a.y1 == b.y1 && a.y2 == b.y2 && boxesEq as bs
  | _, _ => false

/-- PIXREGION_NUMRECTS / PIXREGION_RECTS as the C macros evaluate them (broken/empty: 0 rects) -/
def equal (r1 r2 : Region) : Bool :=
  if r1.nil && r2.nil then true
  else if r1.extents.x1 != r2.extents.x1 then false
  else if r1.extents.x2 != r2.extents.x2 then false
  else if r1.extents.y1 != r2.extents.y1 then false
  else if r1.extents.y2 != r2.extents.y2 then false
  else if r1.numRects != r2.numRects then false
  else boxesEq r1.rects r2.rects

/-! ### validate / init_rects -/

def rectLt (a b : Box) : Bool := a.y1 < b.y1 || (a.y1 == b.y1 && a.x1 < b.x1)
def rectLe (a b : Box) : Bool := !rectLt b a

/-- insertion sort by (y1, x1); stands for quick_sort_rects (only the multiset and the key
    order matter for the result: see `Props.C05.validate_partial`). -/
def insertRect (b : Box) : List Box → List Box
  | [] => [b]
  | a :: t => if rectLe b a then b :: a :: t else a :: insertRect b t

def sortRects : List Box → List Box
  | [] => []
  | b :: t => insertRect b (sortRects t)

/-- Region under construction in step 2 of `validate`. -/
structure RI where
  extents : Box
  out : Out          -- bands before the current one
  cur : List Box     -- current band, reversed (head = last box = PIXREGION_END)
deriving Repr

def RI.close (r : RI) : Out := coalesce r.out r.cur.reverse

/-- try to place `box` in region `r` -/
def RI.place (r : RI) (box : Box) : Option RI :=
  match r.cur with
  | [] => none
  | rb :: rest =>
    if box.y1 == rb.y1 && box.y2 == rb.y2 then
      if box.x1 ≤ rb.x2 then
        some { r with cur := (if box.x2 > rb.x2 then { rb with x2 := box.x2 } else rb) :: rest }
      else
        some { r with cur := box :: rb :: rest }
    else if box.y1 ≥ rb.y2 then
      let e := r.extents
      let e := if e.x2 < rb.x2 then { e with x2 := rb.x2 } else e
      let e := if e.x1 > box.x1 then { e with x1 := box.x1 } else e
      some { extents := e, out := r.close, cur := [box] }
    else none

def scatterOne (box : Box) : List RI → List RI
  | [] => [{ extents := box, out := ⟨[], []⟩, cur := [box] }]
  | r :: rs =>
    match r.place box with
    | some r' => r' :: rs
    | none => r :: scatterOne box rs

/-- final pass of step 2 over one region -/
def RI.finish (r : RI) : Region :=
  match r.cur with
  | [] => ⟨r.extents, .emptyStatic⟩
  | rb :: _ =>
    let e := { r.extents with y2 := rb.y2 }
    let e := if e.x2 < rb.x2 then { e with x2 := rb.x2 } else e
    let l := r.close.toList
    match l with
    | [_] => ⟨e, .single⟩
    | _ => ⟨e, .heap l⟩

def growExtents (reg hreg : Region) : Box :=
  let e := reg.extents
  let h := hreg.extents
  ⟨if h.x1 < e.x1 then h.x1 else e.x1, if h.y1 < e.y1 then h.y1 else e.y1,
   if h.x2 > e.x2 then h.x2 else e.x2, if h.y2 > e.y2 then h.y2 else e.y2⟩

/-- `pixman_op (reg, reg, hreg, union_o, TRUE, TRUE)` followed by the extents update -/
def unionPair (reg hreg : Region) : Region :=
  let p := (pixmanOp .union true true reg reg hreg).1
  ⟨growExtents p hreg, p.data⟩

/-- one round of step 3: ri[j] := ri[j] ∪ ri[j+half] for j in [odd, half+odd) -/
def mergeRound (ri : List Region) : List Region :=
  let n := ri.length
  let half := n / 2
  let odd := n % 2
  let keep := ri.take (half + odd)
  let hs := ri.drop (half + odd)
  (keep.take odd) ++ List.zipWith unionPair (keep.drop odd) hs

def mergeAllRounds : Nat → List Region → List Region
  | 0, ri => ri
  | fuel + 1, ri => if ri.length > 1 then mergeAllRounds fuel (mergeRound ri) else ri

/-- validate, for a heap region whose extents have x1 >= x2 (as init_rects sets them) -/
def validateRects (l : List Box) : Region :=
  match sortRects l with
  | [] => init
  | b :: t =>
    let ris := t.foldl (fun acc box => scatterOne box acc)
      [{ extents := b, out := ⟨[], []⟩, cur := [b] }]
    let regs := ris.map RI.finish
    match mergeAllRounds regs.length regs with
    | r :: _ => r
    | [] => init

/-- pixman_region_init_rects -/
def initRects (c : Cfg) (boxes : List Box) : Region × Bool :=
  match boxes with
  | [b] =>
    -- init_rect (x1, y1, x2 - x1, y2 - y1) with the differences converted to unsigned
    let w := ((b.x2 - b.x1) % (2 ^ 32 : Int)).toNat
    let h := ((b.y2 - b.y1) % (2 ^ 32 : Int)).toNat
    (initRect c b.x1 b.y1 w h, true)
  | [] => (init, true)
  | _ =>
    let l := boxes.filter fun b => !(b.x1 ≥ b.x2 || b.y1 ≥ b.y2)
    match l with
    | [] => (init, true)
    | [b] => (⟨b, .single⟩, true)
    | _ => (validateRects l, true)

/-! ### queries -/

/-- find_box_for_y on a list: the suffix starting at the first box with y2 > y. -/
def findBoxForY (l : List Box) (y : Int) : List Box :=
  l.dropWhile fun b => !(b.y2 > y)

/-- the literal binary search of find_box_for_y, on (begin, end) indices into `a`;
    returns the index.  `Props.C07.findBoxForYIdx_eq` relates it to `findBoxForY`. -/
def findBoxForYIdx (a : Array Box) (y : Int) (b e : Nat) : Nat :=
  if h : e ≤ b then e
  else if e - b = 1 then
    if (a.getD b default).y2 > y then b else e
  else
    let mid := b + (e - b) / 2
    if (a.getD mid default).y2 > y then findBoxForYIdx a y b mid
    else findBoxForYIdx a y mid e
termination_by e - b
decreasing_by all_goals omega

def containsPointLoop (x y : Int) : List Box → Option Box
  | [] => none
  | p :: t =>
    if y < p.y1 || x < p.x1 then none
    else if x ≥ p.x2 then containsPointLoop x y t
    else some p

/-- pixman_region_contains_point: the member box, if any -/
def containsPoint (r : Region) (x y : Int) : Option Box :=
  let n := r.numRects
  if n == 0 || !inBox r.extents x y then none
  else if n == 1 then some r.extents
  else
    let a := r.rects.toArray
    let i := findBoxForYIdx a y 0 a.size
    containsPointLoop x y (r.rects.drop i)

inductive Overlap | out | inn | part
deriving DecidableEq, Repr

structure CRState where
  x : Int
  y : Int
  partIn : Bool
  partOut : Bool

/-- body of the `for` loop of contains_rectangle; `none` = break -/
def containsRectLoop (prect : Box) : Nat → List Box → CRState → CRState
  | 0, _, s => s
  | _, [], s => s
  | fuel + 1, l@(_ :: _), s =>
    -- getting up to speed or skipping remainder of band
    let l' := match l with
      | p :: _ =>
        if p.y2 ≤ s.y then
          let a := l.toArray
          l.drop (findBoxForYIdx a s.y 0 a.size)
        else l
      | [] => l
    match l' with
    | [] => s
    | p :: t =>
      -- missed part of rectangle above
      let brk1 := p.y1 > s.y && (s.partIn || p.y1 ≥ prect.y2)
      let s1 : CRState := if p.y1 > s.y then { s with partOut := true } else s
      if brk1 then s1 else
      let s1 : CRState := if p.y1 > s.y then { s1 with y := p.y1 } else s1
      if p.x2 ≤ s1.x then containsRectLoop prect fuel t s1 else
      let s2 : CRState := if p.x1 > s1.x then { s1 with partOut := true } else s1
      if p.x1 > s1.x && s1.partIn then s2 else
      let s3 : CRState := if p.x1 < prect.x2 then { s2 with partIn := true } else s2
      if p.x1 < prect.x2 && s2.partOut then s3 else
      if p.x2 ≥ prect.x2 then
        let s4 : CRState := { s3 with y := p.y2 }
        if p.y2 ≥ prect.y2 then s4
        else containsRectLoop prect fuel t { s4 with x := prect.x1 }
      else { s3 with partOut := true }

/-- pixman_region_contains_rectangle -/
def containsRectangle (r : Region) (prect : Box) : Overlap :=
  let n := r.numRects
  if n == 0 || !extentCheck r.extents prect then .out
  else if n == 1 then
    if subsumes r.extents prect then .inn else .part
  else
    let s := containsRectLoop prect (n + 1) r.rects ⟨prect.x1, prect.y1, false, false⟩
    if s.partIn then (if s.y < prect.y2 then .part else .inn) else .out

/-- pixman_region_not_empty -/
def notEmpty (r : Region) : Bool := !r.nil

/-! ### translate -/

/-- the sign of `a | b | c | d` for two's complement integers: negative iff any is negative,
    zero iff all are zero. -/
def orSign (l : List Int) : Int :=
  if l.any (· < 0) then -1 else if l.all (· == 0) then 0 else 1

/-- box entirely outside the representable range after translation -/
def outOfRange (c : Cfg) (x1 y1 x2 y2 : Int) : Bool :=
  x2 ≤ c.min || y2 ≤ c.min || x1 ≥ c.max || y1 ≥ c.max

/-- clamp of the slow path of translate -/
def clampBox (c : Cfg) (x1 y1 x2 y2 : Int) : Box :=
  ⟨if x1 < c.min then c.min else x1, if y1 < c.min then c.min else y1,
   if x2 > c.max then c.max else x2, if y2 > c.max then c.max else y2⟩

/-- pixman_region_translate: sums are computed in `overflow_int_t` (64 bit), so they are exact
    for every `int` offset. -/
def translate (c : Cfg) (r : Region) (dx dy : Int) : Region :=
  let x1 := r.extents.x1 + dx
  let y1 := r.extents.y1 + dy
  let x2 := r.extents.x2 + dx
  let y2 := r.extents.y2 + dy
  if orSign [x1 - c.min, y1 - c.min, c.max - x2, c.max - y2] ≥ 0 then
    let mv (b : Box) : Box :=
      ⟨wrapS c.bits (b.x1 + dx), wrapS c.bits (b.y1 + dy), wrapS c.bits (b.x2 + dx), wrapS c.bits (b.y2 + dy)⟩
    match r.data with
    | .heap l => ⟨⟨x1, y1, x2, y2⟩, .heap (l.map mv)⟩
    | d => ⟨⟨x1, y1, x2, y2⟩, d⟩
  else if outOfRange c x1 y1 x2 y2 then
    let e := r.extents
    ⟨⟨e.x1, e.y1, e.x1, e.y1⟩, if r.nar then .broken else .emptyStatic⟩
  else
    let e := clampBox c x1 y1 x2 y2
    match r.data with
    | .heap l =>
      if l.isEmpty then ⟨e, r.data⟩ else
      let l' := l.filterMap fun b =>
        let bx1 := b.x1 + dx
        let by1 := b.y1 + dy
        let bx2 := b.x2 + dx
        let by2 := b.y2 + dy
        if outOfRange c bx1 by1 bx2 by2 then none
        else some (clampBox c bx1 by1 bx2 by2)
      match l' with
      | [] => ⟨⟨e.x1, e.y1, e.x1, e.y1⟩, .emptyStatic⟩
      | [b] => ⟨b, .single⟩
      | _ => validateRects l'
    | d => ⟨e, d⟩

/-! ### init_from_image: rows of bits (true = set), in screen order -/

/-- runs of set bits of one row, as (x1, x2) pairs -/
def rowRuns (row : List Bool) : List (Int × Int) :=
  let rec go (x : Int) (start : Option Int) : List Bool → List (Int × Int)
    | [] => match start with
      | some s => [(s, x)]
      | none => []
    | b :: t =>
      match start, b with
      | none, true => go (x + 1) (some x) t
      | none, false => go (x + 1) none t
      | some s, true => go (x + 1) (some s) t
      | some s, false => (s, x) :: go (x + 1) none t
  go 0 none row

structure ImgSt where
  done : List Box      -- reversed, rectangles before the previous line's band
  prev : List Box      -- rectangles of irect_prev_start .. irect_line_start (in order)
  havePrev : Bool      -- irect_prev_start != -1
  ex1 : Int
  ex2 : Int

def imgRow (s : ImgSt) (h : Int) (row : List Bool) : ImgSt :=
  let runs := rowRuns row
  let line := runs.map fun p => Box.mk p.1 h p.2 (h + 1)
  let ex1 := runs.foldl (fun m p => if p.1 < m then p.1 else m) s.ex1
  let ex2 := runs.foldl (fun m p => if p.2 > m then p.2 else m) s.ex2
  let same := s.havePrev && s.prev.length != 0 && s.prev.length == line.length &&
    sameSpans s.prev line
  if same then
    { s with prev := s.prev.map (fun b => { b with y2 := b.y2 + 1 }), ex1 := ex1, ex2 := ex2 }
  else
    { done := s.prev.reverse ++ s.done, prev := line, havePrev := true, ex1 := ex1, ex2 := ex2 }

def imgRows (s : ImgSt) (h : Int) : List (List Bool) → ImgSt
  | [] => s
  | r :: t => imgRows (imgRow s h r) (h + 1) t

/-- pixman_region_init_from_image on an a1 image given as rows of `width` bits -/
def initFromImage (width : Nat) (rows : List (List Bool)) : Region :=
  let s := imgRows ⟨[], [], false, (width : Int) - 1, 0⟩ 0 rows
  let l := s.done.reverse ++ s.prev
  match l, l.getLast? with
  | [], _ => ⟨⟨0, 0, 0, 0⟩, .emptyStatic⟩
  | [b], _ => ⟨⟨s.ex1, b.y1, s.ex2, b.y2⟩, .single⟩
  | b :: _, some e => ⟨⟨s.ex1, b.y1, s.ex2, e.y2⟩, .heap l⟩
  | _, none => init

/-! ### conversions (pixman-utils.c) -/

def region16FromRegion32 (src : Region) : Region × Bool :=
  initRects c16 (src.rects.map fun b =>
    ⟨wrapS 16 b.x1, wrapS 16 b.y1, wrapS 16 b.x2, wrapS 16 b.y2⟩)

def region32FromRegion16 (src : Region) : Region × Bool :=
  initRects c32 src.rects

end Pixman.Region

/-! Scalar 8-bit arithmetic of `pixman-combine32.h` (helper macros `MUL_UN8`, `DIV_UN8`,
`ADD_UN8`, `DIV_ONE_UN8`) on `Nat`, written as the C expressions are, with `% 2^32` where a
`uint32_t` temporary can wrap and `% 65536` / `% 256` for the `(uint16_t)` / `(uint8_t)` casts.
Core Lean only. -/
namespace Pixman.Arith

/-- `uint32_t` wrap-around. -/
@[reducible] def u32 (x : Nat) : Nat := x % 4294967296

/-- `MUL_UN8(a, b, t)`: `(t = a * (uint16_t)b + 0x80, ((t >> 8) + t) >> 8)`. -/
def mulUn8 (a b : Nat) : Nat :=
  let t := ((a * (b % 65536)) % 4294967296 + 0x80) % 4294967296
  (((t >>> 8) + t) % 4294967296) >>> 8

/-- `DIV_UN8(a, b)`: `((uint16_t)a * 0xff + b / 2) / b`  (C division by zero is undefined; Lean
gives 0 there — no 8-bit combiner uses the macro). -/
def divUn8 (a b : Nat) : Nat :=
  (((a % 65536) * 0xff) % 4294967296 + b / 2) % 4294967296 / b

/-- `ADD_UN8(x, y, t)`: `(t = x + y, (uint32_t)(uint8_t)(t | (0 - (t >> 8))))`. -/
def addUn8 (x y : Nat) : Nat :=
  let t := (x + y) % 4294967296
  (t ||| ((0 + 4294967296 - (t >>> 8) % 4294967296) % 4294967296)) % 256 % 4294967296

/-- `DIV_ONE_UN8(x)`: `((x + 0x80 + ((x + 0x80) >> 8)) >> 8)`. -/
def divOneUn8 (x : Nat) : Nat :=
  (((x + 0x80) % 4294967296 + (((x + 0x80) % 4294967296) >>> 8)) % 4294967296) >>> 8

/-- `ALPHA_8(x)`: `x >> 24`. -/
def alpha8 (x : Nat) : Nat := x >>> 24
/-- `RED_8(x)`. -/
def red8 (x : Nat) : Nat := (x >>> 16) &&& 0xff
/-- `GREEN_8(x)`. -/
def green8 (x : Nat) : Nat := (x >>> 8) &&& 0xff
/-- `BLUE_8(x)`. -/
def blue8 (x : Nat) : Nat := x &&& 0xff

/-- `~x` on a `uint32_t`. -/
def not32 (x : Nat) : Nat := 4294967295 - x % 4294967296

end Pixman.Arith

/-! The float combiners of `pixman/pixman-combine-float.c` over exact rationals (core `Rat`).

One Lean function per C function / macro, C control flow kept.  What is *not* modelled: IEEE-754
rounding (every `float` operation is the exact rational operation) and therefore
`FLOAT_IS_ZERO (f)` (`-FLT_MIN < f < FLT_MIN`) is the exact test `f = 0`; `sqrtf` is a parameter
(`sqrt : Rat → Rat`) of the one function that calls it (`blend_soft_light`).  `MIN`/`CLAMP` are
the C macros written out.  Core Lean only. -/
namespace Pixman.Model.CombineQ

/-- `combine_factor_t` -/
inductive Factor
  | zero | one | srcAlpha | destAlpha | invSa | invDa | saOverDa | daOverSa | invSaOverDa
  | invDaOverSa | oneMinusSaOverDa | oneMinusDaOverSa | oneMinusInvDaOverSa | oneMinusInvSaOverDa
  deriving DecidableEq, Repr

/-- `#define CLAMP(f) (((f) < 0)? 0 : (((f) > 1.0) ? 1.0 : (f)))` -/
def clamp (f : Rat) : Rat := if f < 0 then 0 else if f > 1 then 1 else f

/-- `#define MIN(a, b) ((a < b) ? a : b)` -/
def cMin (a b : Rat) : Rat := if a < b then a else b

/-- `FLOAT_IS_ZERO` as an exact test -/
@[inline] def isZero (f : Rat) : Bool := f == 0

/-- `get_factor (factor, sa, da)` -/
def getFactor (factor : Factor) (sa da : Rat) : Rat :=
  match factor with
  | .zero => 0
  | .one => 1
  | .srcAlpha => sa
  | .destAlpha => da
  | .invSa => 1 - sa
  | .invDa => 1 - da
  | .saOverDa => if da = 0 then 1 else clamp (sa / da)
  | .daOverSa => if sa = 0 then 1 else clamp (da / sa)
  | .invSaOverDa => if da = 0 then 1 else clamp ((1 - sa) / da)
  | .invDaOverSa => if sa = 0 then 1 else clamp ((1 - da) / sa)
  | .oneMinusSaOverDa => if da = 0 then 0 else clamp (1 - sa / da)
  | .oneMinusDaOverSa => if sa = 0 then 0 else clamp (1 - da / sa)
  | .oneMinusInvDaOverSa => if sa = 0 then 0 else clamp (1 - (1 - da) / sa)
  | .oneMinusInvSaOverDa => if da = 0 then 0 else clamp (1 - (1 - sa) / da)

/-- `pd_combine_<name> (sa, s, da, d)` of `MAKE_PD_COMBINERS (name, a, b)` -/
def pdCombine (a b : Factor) (sa s da d : Rat) : Rat :=
  let fa := getFactor a sa da
  let fb := getFactor b sa da
  cMin 1 (s * fa + d * fb)

/-- the `MAKE_PD_COMBINERS` table: operator number ↦ (Fa, Fb) -/
def pdFactors : Nat → Option (Factor × Factor)
  | 0x00 => some (.zero, .zero)                 -- clear
  | 0x01 => some (.one, .zero)                  -- src
  | 0x02 => some (.zero, .one)                  -- dst
  | 0x03 => some (.one, .invSa)                 -- over
  | 0x04 => some (.invDa, .one)                 -- over_reverse
  | 0x05 => some (.destAlpha, .zero)            -- in
  | 0x06 => some (.zero, .srcAlpha)             -- in_reverse
  | 0x07 => some (.invDa, .zero)                -- out
  | 0x08 => some (.zero, .invSa)                -- out_reverse
  | 0x09 => some (.destAlpha, .invSa)           -- atop
  | 0x0a => some (.invDa, .srcAlpha)            -- atop_reverse
  | 0x0b => some (.invDa, .invSa)               -- xor
  | 0x0c => some (.one, .one)                   -- add
  | 0x0d => some (.invDaOverSa, .one)           -- saturate
  | 0x10 => some (.zero, .zero)                 -- disjoint_clear
  | 0x11 => some (.one, .zero)                  -- disjoint_src
  | 0x12 => some (.zero, .one)                  -- disjoint_dst
  | 0x13 => some (.one, .invSaOverDa)           -- disjoint_over
  | 0x14 => some (.invDaOverSa, .one)           -- disjoint_over_reverse
  | 0x15 => some (.oneMinusInvDaOverSa, .zero)  -- disjoint_in
  | 0x16 => some (.zero, .oneMinusInvSaOverDa)  -- disjoint_in_reverse
  | 0x17 => some (.invDaOverSa, .zero)          -- disjoint_out
  | 0x18 => some (.zero, .invSaOverDa)          -- disjoint_out_reverse
  | 0x19 => some (.oneMinusInvDaOverSa, .invSaOverDa)          -- disjoint_atop
  | 0x1a => some (.invDaOverSa, .oneMinusInvSaOverDa)          -- disjoint_atop_reverse
  | 0x1b => some (.invDaOverSa, .invSaOverDa)                  -- disjoint_xor
  | 0x20 => some (.zero, .zero)                 -- conjoint_clear
  | 0x21 => some (.one, .zero)                  -- conjoint_src
  | 0x22 => some (.zero, .one)                  -- conjoint_dst
  | 0x23 => some (.one, .oneMinusSaOverDa)      -- conjoint_over
  | 0x24 => some (.oneMinusDaOverSa, .one)      -- conjoint_over_reverse
  | 0x25 => some (.daOverSa, .zero)             -- conjoint_in
  | 0x26 => some (.zero, .saOverDa)             -- conjoint_in_reverse
  | 0x27 => some (.oneMinusDaOverSa, .zero)     -- conjoint_out
  | 0x28 => some (.zero, .oneMinusSaOverDa)     -- conjoint_out_reverse
  | 0x29 => some (.daOverSa, .oneMinusSaOverDa)                -- conjoint_atop
  | 0x2a => some (.oneMinusDaOverSa, .saOverDa)                -- conjoint_atop_reverse
  | 0x2b => some (.oneMinusDaOverSa, .oneMinusSaOverDa)        -- conjoint_xor
  | _ => none

/-! ### separable PDF blend modes: `blend_<name> (sa, s, da, d)` -/

def blendMultiply (_sa s _da d : Rat) : Rat := d * s

def blendScreen (sa s da d : Rat) : Rat := d * sa + s * da - s * d

def blendOverlay (sa s da d : Rat) : Rat :=
  if 2 * d < da then 2 * s * d else sa * da - 2 * (da - d) * (sa - s)

def blendDarken (sa s da d : Rat) : Rat :=
  let s := s * da
  let d := d * sa
  if s > d then d else s

def blendLighten (sa s da d : Rat) : Rat :=
  let s := s * da
  let d := d * sa
  if s > d then s else d

def blendColorDodge (sa s da d : Rat) : Rat :=
  if d = 0 then 0
  else if d * sa ≥ sa * da - s * da then sa * da
  else if sa - s = 0 then sa * da
  else sa * sa * d / (sa - s)

def blendColorBurn (sa s da d : Rat) : Rat :=
  if d ≥ da then sa * da
  else if sa * (da - d) ≥ s * da then 0
  else if s = 0 then 0
  else sa * (da - sa * (da - d) / s)

def blendHardLight (sa s da d : Rat) : Rat :=
  if 2 * s < sa then 2 * s * d else sa * da - 2 * (da - d) * (sa - s)

/-- `sqrt` stands for `sqrtf` -/
def blendSoftLight (sqrt : Rat → Rat) (sa s da d : Rat) : Rat :=
  if 2 * s ≤ sa then
    if da = 0 then d * sa
    else d * sa - d * (da - d) * (sa - 2 * s) / da
  else
    if da = 0 then d * sa
    else if 4 * d ≤ da then d * sa + (2 * s - sa) * d * ((16 * d / da - 12) * d / da + 3)
    else d * sa + (sqrt (d * da) - d) * (2 * s - sa)

def blendDifference (sa s da d : Rat) : Rat :=
  let dsa := d * sa
  let sda := s * da
  if sda < dsa then dsa - sda else sda - dsa

def blendExclusion (sa s da d : Rat) : Rat := s * da + d * sa - 2 * d * s

/-- `combine_<name>_a` of `MAKE_SEPARABLE_PDF_COMBINERS` -/
def sepCombineA (sa _s da _d : Rat) : Rat := da + sa - da * sa

/-- `combine_<name>_c` of `MAKE_SEPARABLE_PDF_COMBINERS` -/
def sepCombineC (blend : Rat → Rat → Rat → Rat → Rat) (sa s da d : Rat) : Rat :=
  let f := (1 - sa) * d + (1 - da) * s
  f + blend sa s da d

/-- operator number ↦ `blend_<name>` -/
def sepBlend (sqrt : Rat → Rat) : Nat → Option (Rat → Rat → Rat → Rat → Rat)
  | 0x30 => some blendMultiply
  | 0x31 => some blendScreen
  | 0x32 => some blendOverlay
  | 0x33 => some blendDarken
  | 0x34 => some blendLighten
  | 0x35 => some blendColorDodge
  | 0x36 => some blendColorBurn
  | 0x37 => some blendHardLight
  | 0x38 => some (blendSoftLight sqrt)
  | 0x39 => some blendDifference
  | 0x3a => some blendExclusion
  | _ => none

/-! ### non-separable (HSL) modes -/

/-- `rgb_t` -/
structure Rgb where
  r : Rat
  g : Rat
  b : Rat
  deriving DecidableEq, Repr

def minf (a b : Rat) : Rat := if a < b then a else b
def maxf (a b : Rat) : Rat := if a > b then a else b
def channelMin (c : Rgb) : Rat := minf (minf c.r c.g) c.b
def channelMax (c : Rgb) : Rat := maxf (maxf c.r c.g) c.b

/-- `get_lum`: `0.3f`, `0.59f`, `0.11f` are the decimal constants (their binary32 rounding is
not modelled) -/
def getLum (c : Rgb) : Rat := c.r * (3 / 10) + c.g * (59 / 100) + c.b * (11 / 100)

def getSat (c : Rgb) : Rat := channelMax c - channelMin c

/-- `clip_color (color, a)`; the second `if` reads the colour as updated by the first, `l`, `n`,
`x` are computed once at entry -/
def clipColor (color : Rgb) (a : Rat) : Rgb :=
  let l := getLum color
  let n := channelMin color
  let x := channelMax color
  let color :=
    if n < 0 then
      let t := l - n
      if t = 0 then ⟨0, 0, 0⟩
      else ⟨l + (((color.r - l) * l) / t), l + (((color.g - l) * l) / t), l + (((color.b - l) * l) / t)⟩
    else color
  if x > a then
    let t := x - l
    if t = 0 then ⟨a, a, a⟩
    else ⟨l + (((color.r - l) * (a - l) / t)), l + (((color.g - l) * (a - l) / t)),
          l + (((color.b - l) * (a - l) / t))⟩
  else color

/-- `set_lum (color, sa, l)` -/
def setLum (color : Rgb) (sa l : Rat) : Rgb :=
  let d := l - getLum color
  clipColor ⟨color.r + d, color.g + d, color.b + d⟩ sa

/-- which channel `max`, `mid`, `min` point to in `set_sat`: 0 = r, 1 = g, 2 = b -/
def satOrder (c : Rgb) : Nat × Nat × Nat :=
  if c.r > c.g then
    if c.r > c.b then
      if c.g > c.b then (0, 1, 2) else (0, 2, 1)
    else (2, 0, 1)
  else
    if c.r > c.b then (1, 0, 2)
    else
      if c.g > c.b then (1, 2, 0) else (2, 1, 0)

def Rgb.get (c : Rgb) : Nat → Rat
  | 0 => c.r
  | 1 => c.g
  | _ => c.b

def Rgb.set (c : Rgb) (i : Nat) (v : Rat) : Rgb :=
  match i with
  | 0 => { c with r := v }
  | 1 => { c with g := v }
  | _ => { c with b := v }

/-- `set_sat (src, sat)` -/
def setSat (src : Rgb) (sat : Rat) : Rgb :=
  let (max, mid, min) := satOrder src
  let t := src.get max - src.get min
  let src :=
    if t = 0 then (src.set mid 0).set max 0
    else (src.set mid (((src.get mid - src.get min) * sat) / t)).set max sat
  src.set min 0

def Rgb.scale (c : Rgb) (k : Rat) : Rgb := ⟨c.r * k, c.g * k, c.b * k⟩

/-- `blend_hsl_hue (res, dest, da, src, sa)` -/
def blendHslHue (dest : Rgb) (da : Rat) (src : Rgb) (sa : Rat) : Rgb :=
  let res := src.scale da
  let res := setSat res (getSat dest * sa)
  setLum res (sa * da) (getLum dest * sa)

def blendHslSaturation (dest : Rgb) (da : Rat) (src : Rgb) (sa : Rat) : Rgb :=
  let res := dest.scale sa
  let res := setSat res (getSat src * da)
  setLum res (sa * da) (getLum dest * sa)

def blendHslColor (dest : Rgb) (da : Rat) (src : Rgb) (sa : Rat) : Rgb :=
  let res := src.scale da
  setLum res (sa * da) (getLum dest * sa)

def blendHslLuminosity (dest : Rgb) (da : Rat) (src : Rgb) (sa : Rat) : Rgb :=
  let res := dest.scale sa
  setLum res (sa * da) (getLum src * da)

def hslBlend : Nat → Option (Rgb → Rat → Rgb → Rat → Rgb)
  | 0x3b => some blendHslHue
  | 0x3c => some blendHslSaturation
  | 0x3d => some blendHslColor
  | 0x3e => some blendHslLuminosity
  | _ => none

/-! ### whole pixels -/

/-- one pixel of a float scanline: `a r g b` as `argb_t` -/
structure Px where
  a : Rat
  r : Rat
  g : Rat
  b : Rat
  deriving DecidableEq, Repr

/-- one iteration of `combine_inner (component, dest, src, mask, n, combine_a, combine_c)` -/
def combineInner (component : Bool) (combineA combineC : Rat → Rat → Rat → Rat → Rat)
    (src : Px) (mask : Option Px) (dest : Px) : Px :=
  match mask with
  | none =>
    ⟨combineA src.a src.a dest.a dest.a, combineC src.a src.r dest.a dest.r,
     combineC src.a src.g dest.a dest.g, combineC src.a src.b dest.a dest.b⟩
  | some m =>
    if component then
      let sr := src.r * m.r
      let sg := src.g * m.g
      let sb := src.b * m.b
      let ma := m.a * src.a
      let mr := m.r * src.a
      let mg := m.g * src.a
      let mb := m.b * src.a
      let sa := ma
      ⟨combineA ma sa dest.a dest.a, combineC mr sr dest.a dest.r,
       combineC mg sg dest.a dest.g, combineC mb sb dest.a dest.b⟩
    else
      let ma := m.a
      let sa := src.a * ma
      let sr := src.r * ma
      let sg := src.g * ma
      let sb := src.b * ma
      ⟨combineA sa sa dest.a dest.a, combineC sa sr dest.a dest.r,
       combineC sa sg dest.a dest.g, combineC sa sb dest.a dest.b⟩

/-- one iteration of `combine_<hsl>_u_float` (`MAKE_NON_SEPARABLE_PDF_COMBINERS`), as the code
is (since 05b40d0 every source channel is multiplied by the mask alpha; before, `sc.g` twice and
`sc.b` not at all) -/
def combineHslU (blend : Rgb → Rat → Rgb → Rat → Rgb) (src : Px) (mask : Option Px) (dest : Px) : Px :=
  let (sa, sc) : Rat × Rgb :=
    match mask with
    | none => (src.a, ⟨src.r, src.g, src.b⟩)
    | some m => (src.a * m.a, ⟨src.r * m.a, src.g * m.a, src.b * m.a⟩)
  let da := dest.a
  let dc : Rgb := ⟨dest.r, dest.g, dest.b⟩
  let rc := blend dc da sc sa
  ⟨sa + da - sa * da,
   (1 - sa) * dc.r + (1 - da) * sc.r + rc.r,
   (1 - sa) * dc.g + (1 - da) * sc.g + rc.g,
   (1 - sa) * dc.b + (1 - da) * sc.b + rc.b⟩

/-- `imp->combine_float[op]` / `imp->combine_float_ca[op]` of
`_pixman_setup_combiner_functions_float` applied to one pixel; `none` for numbers that are not
operators.  The component-alpha entries of the four HSL operators are `combine_dst_u_float`. -/
def combine (sqrt : Rat → Rat) (op : Nat) (ca : Bool) (src : Px) (mask : Option Px) (dest : Px) :
    Option Px :=
  match pdFactors op with
  | some (fa, fb) => some (combineInner ca (pdCombine fa fb) (pdCombine fa fb) src mask dest)
  | none =>
    match sepBlend sqrt op with
    | some bl => some (combineInner ca sepCombineA (sepCombineC bl) src mask dest)
    | none =>
      match hslBlend op with
      | some bl =>
        if ca then
          some (combineInner false (pdCombine .zero .one) (pdCombine .zero .one) src mask dest)
        else some (combineHslU bl src mask dest)
      | none => none

end Pixman.Model.CombineQ

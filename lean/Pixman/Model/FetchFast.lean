import Pixman.Model.Fetch
import Pixman.Model.Extent
/-
  C08 — the specialised fetchers and whole-operation loops that stand in for the reference fetchers
  of pixman-bits-image.c (Model/Fetch.lean), modelled literally as far as the *coordinates, weights
  and pixel arithmetic* go:

    pixman-fast-path.c   bits_image_fetch_nearest_affine, bits_image_fetch_bilinear_affine,
                         bits_image_fetch_separable_convolution_affine (the `MAKE_*_FETCHER` bodies),
                         fetch_horizontal / fast_fetch_bilinear_cover / fast_bilinear_cover_iter_init,
                         blt_rotated_90/270_trivial, fast_composite_rotate_90/270 (src_x_t / src_y_t)
    pixman-inlines.h     FAST_NEAREST_SCANLINE (SRC), FAST_NEAREST_MAINLOOP_INT (cover / none / pad / normal),
                         the per-pixel coordinate/weight sequence of the scaled-bilinear scanline functions
                         (FAST_BILINEAR_MAINLOOP_INT middle part)

  `convert_pixel (row, x) | mask` of the MAKE_*_FETCHER instances (a8r8g8b8, x8r8g8b8, a8) is the same
  a8r8g8b8 word `fetch_pixel_32` yields: both are `Bits.fetch x y`.  C `int` accumulators that may overflow
  (undefined in C) are modelled as the two's complement wrap the compiled code performs.
  Core Lean only, total functions.  Theorems: Props/C08Fast.lean.
-/
namespace Pixman.Model.FetchFast
open Pixman.Matrix Pixman.Sample Pixman.Model.Fetch Pixman.Model.Extent

/-! ### (d) the affine iterators of pixman-fast-path.c -/

/-- the scanline loop shared by the three `bits_image_fetch_*_affine` bodies (no mask):
    `buffer[i] = pixel (x, y); x += ux; y += uy` -/
def affineIterLoop (pix : Int → Int → Nat) (ux uy : Int) : Nat → Int → Int → List Nat
  | 0, _, _ => []
  | n + 1, x, y => pix x y :: affineIterLoop pix ux uy n (wrapS32 (x + ux)) (wrapS32 (y + uy))

/-- prologue shared by the three: centre of the first pixel through `pixman_transform_point_3d`;
    `none` = the function returned without writing the buffer -/
def affineIter (pix : Int → Int → Nat) (t : Transform) (offset line : Int) (width : Nat) : Option (List Nat) :=
  match transformPoint3d t (pixelCentre offset line) with
  | some (true, p) => some (affineIterLoop pix t.m00 t.m10 width p.x p.y)
  | _ => none

/-- loop body of `bits_image_fetch_nearest_affine` -/
def nearestAffinePixel (b : Bits) (x y : Int) : Nat :=
  let x0 := fixedToInt (wrapS32 (x - 1))
  let y0 := fixedToInt (wrapS32 (y - 1))
  if b.rep = .none ∧ (y0 < 0 ∨ y0 ≥ b.height ∨ x0 < 0 ∨ x0 ≥ b.width) then 0
  else if b.rep ≠ .none then b.fetch (repeatCoord b.rep x0 b.width) (repeatCoord b.rep y0 b.height)
  else b.fetch x0 y0

def fetchNearestAffine (b : Bits) (t : Transform) (offset line : Int) (width : Nat) : Option (List Nat) :=
  affineIter (nearestAffinePixel b) t offset line width

/-- a row pointer of `bits_image_fetch_bilinear_affine` in the NONE case: `none` is the static `zero`
    row (used with mask 0), `some y` is row `y` of the image -/
def rowPixel (b : Bits) (row : Option Int) (x : Int) : Nat :=
  match row with
  | none => 0
  | some y => b.fetch x y

/-- loop body of `bits_image_fetch_bilinear_affine` -/
def bilinearAffinePixel (b : Bits) (x y : Int) : Nat :=
  let x1 := wrapS32 (x - 32768)
  let y1 := wrapS32 (y - 32768)
  let distx := bilinearWeight x1
  let disty := bilinearWeight y1
  let y1 := fixedToInt y1
  let y2 := y1 + 1
  let x1 := fixedToInt x1
  let x2 := x1 + 1
  if b.rep ≠ .none then
    let x1 := repeatCoord b.rep x1 b.width
    let y1 := repeatCoord b.rep y1 b.height
    let x2 := repeatCoord b.rep x2 b.width
    let y2 := repeatCoord b.rep y2 b.height
    bilinearInterpolation (b.fetch x1 y1) (b.fetch x2 y1) (b.fetch x1 y2) (b.fetch x2 y2) distx.toNat disty.toNat
  else if x1 ≥ b.width ∨ x2 < 0 ∨ y1 ≥ b.height ∨ y2 < 0 then 0
  else
    let row1 : Option Int := if y2 = 0 then none else some y1
    let row2 : Option Int := if y1 = b.height - 1 then none else some y2
    let tl := if x2 = 0 then 0 else rowPixel b row1 x1
    let bl := if x2 = 0 then 0 else rowPixel b row2 x1
    let tr := if x1 = b.width - 1 then 0 else rowPixel b row1 x2
    let br := if x1 = b.width - 1 then 0 else rowPixel b row2 x2
    bilinearInterpolation tl tr bl br distx.toNat disty.toNat

def fetchBilinearAffine (b : Bits) (t : Transform) (offset line : Int) (width : Nat) : Option (List Nat) :=
  affineIter (bilinearAffinePixel b) t offset line width

/-- the four `int` totals of `bits_image_fetch_separable_convolution_affine`:
    `srtot += (int)RED_8 (pixel) * f` on `int` (wrap) -/
def accumS (t : Acc) (pixel : Nat) (f : Int) : Acc :=
  ⟨wrapS32 (t.a + ALPHA_8 pixel * f), wrapS32 (t.r + RED_8 pixel * f),
   wrapS32 (t.g + GREEN_8 pixel * f), wrapS32 (t.b + BLUE_8 pixel * f)⟩

/-- `satot = (satot + 0x8000) >> 16; satot = CLIP (satot, 0, 0xff)` on `int` -/
def reduceChanS (tot : Int) : Int := CLIP (wrapS32 (tot + 32768) / 65536) 0 255

/-- `buffer[k] = (satot << 24) | (srtot << 16) | (sgtot << 8) | (sbtot << 0)` -/
def reduceS (t : Acc) : Nat :=
  ((reduceChanS t.a).toNat <<< 24) ||| ((reduceChanS t.r).toNat <<< 16) |||
  ((reduceChanS t.g).toNat <<< 8) ||| (reduceChanS t.b).toNat

/-- the pixel read inside the kernel loops:
    `repeat_mode != NONE ? (repeat; convert) : (outside ? 0 : convert)` -/
def sepTap (b : Bits) (rx ry : Int) : Nat :=
  if b.rep ≠ .none then b.fetch (repeatCoord b.rep rx b.width) (repeatCoord b.rep ry b.height)
  else if rx < 0 ∨ ry < 0 ∨ rx ≥ b.width ∨ ry ≥ b.height then 0
  else b.fetch rx ry

/-- loop body of `bits_image_fetch_separable_convolution_affine` for the coordinate `(vx, vy)` -/
def separableAffinePixel (b : Bits) (vx vy : Int) : Nat :=
  let params := b.params
  let cwidth := fixedToInt (param params 0)
  let cheight := fixedToInt (param params 1)
  let x_off := (cwidth * 65536 - 65536) / 2
  let y_off := (cheight * 65536 - 65536) / 2
  let x_phase_bits := fixedToInt (param params 2)
  let y_phase_bits := fixedToInt (param params 3)
  let x_phase_shift := (16 - x_phase_bits).toNat
  let y_phase_shift := (16 - y_phase_bits).toNat
  let x := phaseRound vx x_phase_shift
  let y := phaseRound vy y_phase_shift
  let px := phaseIndex x x_phase_shift
  let py := phaseIndex y y_phase_shift
  let x1 := fixedToInt (wrapS32 (x - 1 - x_off))
  let y1 := fixedToInt (wrapS32 (y - 1 - y_off))
  let yBase := 4 + (2 ^ x_phase_bits.toNat : Int) * cwidth + py * cheight
  let xBase := 4 + px * cwidth
  let tot := (List.range cheight.toNat).foldl (fun acc (i : Nat) =>
      let fy := param params (yBase + i)
      if fy ≠ 0 then
        (List.range cwidth.toNat).foldl (fun acc (j : Nat) =>
          let fx := param params (xBase + j)
          if fx ≠ 0 then accumS acc (sepTap b (x1 + j) (y1 + i)) (sepWeight fx fy) else acc) acc
      else acc)
    (⟨0, 0, 0, 0⟩ : Acc)
  reduceS tot

def fetchSeparableAffine (b : Bits) (t : Transform) (offset line : Int) (width : Nat) : Option (List Nat) :=
  affineIter (separableAffinePixel b) t offset line width

/-! ### (a) FAST_NEAREST_SCANLINE / FAST_NEAREST_MAINLOOP_INT (OP_SRC, no mask) -/

inductive NearestVariant where
  | cover | none | pad | normal
deriving Repr, DecidableEq, Inhabited

/-- `while (vx >= 0) vx -= src_width_fixed;` -/
def wrapDown (vx swf : Int) : Int :=
  if _h : 0 < swf ∧ vx ≥ 0 then wrapDown (vx - swf) swf else vx
termination_by (vx + 1).toNat
decreasing_by omega

/-- `scaled_nearest_scanline_*_SRC (dst, src, w, vx, unit_x, src_width_fixed, …)`: the offsets
    `x = pixman_fixed_to_int (vx)` at which `*(src + x)` is read for the `w` pixels (the loop is unrolled
    by two in C; the sequence is the same).  NORMAL: after every step `while (vx >= 0) vx -= src_width_fixed`. -/
def nearestScanline (normal : Bool) (swf ux : Int) : Nat → Int → List Int
  | 0, _ => []
  | n + 1, vx =>
    fixedToInt vx ::
      nearestScanline normal swf ux n (if normal then wrapDown (wrapS32 (vx + ux)) swf else wrapS32 (vx + ux))

/-- one destination row of the main loop: `y` is `pixman_fixed_to_int (vy)`; `vx` the (NORMAL: reduced;
    NONE/PAD: advanced past the left pad) start coordinate; `left`, `width`, `right` the split of
    `pad_repeat_get_scanline_bounds` (0, width, 0 for COVER and NORMAL) -/
def nearestRow (var : NearestVariant) (b : Bits) (y vx ux : Int) (left width right : Nat) : List Nat :=
  let swf := intToFixed b.width
  let W := b.width
  match var with
  | .pad =>
    let y := repeatCoord .pad y b.height
    -- scanline_func (dst, src + width - width + 1, left_pad, -pixman_fixed_e, 0, …)
    ((nearestScanline false swf 0 left (-1)).map fun x => b.fetch (W - W + 1 + x) y) ++
    -- scanline_func (dst + left_pad, src + width, width, vx - src_width_fixed, unit_x, …)
    ((nearestScanline false swf ux width (wrapS32 (vx - swf))).map fun x => b.fetch (W + x) y) ++
    -- scanline_func (dst + left_pad + width, src + width, right_pad, -pixman_fixed_e, 0, …)
    ((nearestScanline false swf 0 right (-1)).map fun x => b.fetch (W + x) y)
  | .none =>
    -- `zero + 1` read at offset -1
    if y < 0 ∨ y ≥ b.height then (nearestScanline false swf 0 (left + width + right) (-1)).map fun _ => 0
    else
      ((nearestScanline false swf 0 left (-1)).map fun _ => 0) ++
      ((nearestScanline false swf ux width (wrapS32 (vx - swf))).map fun x => b.fetch (W + x) y) ++
      ((nearestScanline false swf 0 right (-1)).map fun _ => 0)
  | .cover => (nearestScanline false swf ux width (wrapS32 (vx - swf))).map fun x => b.fetch (W + x) y
  | .normal => (nearestScanline true swf ux width (wrapS32 (vx - swf))).map fun x => b.fetch (W + x) y

/-- `while (--height >= 0)`: `y = pixman_fixed_to_int (vy); vy += unit_y;` (NORMAL: `repeat (NORMAL, &vy, max_vy)`) -/
def nearestRows (var : NearestVariant) (b : Bits) (vx ux uy : Int) (left width right : Nat) :
    Nat → Int → List (List Nat)
  | 0, _ => []
  | n + 1, vy =>
    let y := fixedToInt vy
    let vy' := wrapS32 (vy + uy)
    let vy' := if var = .normal then repeatCoord .normal vy' (intToFixed b.height) else vy'
    nearestRow var b y vx ux left width right :: nearestRows var b vx ux uy left width right n vy'

/-- `fast_composite_scaled_nearest_*_<variant>_SRC`: the rows written to the destination rectangle;
    `none` = `pixman_transform_point_3d` failed and nothing is drawn -/
def fastNearest (var : NearestVariant) (b : Bits) (t : Transform) (srcX srcY : Int) (width height : Nat) :
    Option (List (List Nat)) :=
  match transformPoint3d t (pixelCentre srcX srcY) with
  | some (true, p) =>
    let ux := t.m00
    let uy := t.m11
    let swf := intToFixed b.width
    let vx := wrapS32 (p.x - 1)
    let vy := wrapS32 (p.y - 1)
    let vx := if var = .normal then repeatCoord .normal vx swf else vx
    let vy := if var = .normal then repeatCoord .normal vy (intToFixed b.height) else vy
    if var = .pad ∨ var = .none then
      let r := padRepeatGetScanlineBounds b.width vx ux width
      let vx := wrapS32 (vx + r.2.1 * ux)
      some (nearestRows var b vx ux uy r.2.1.toNat r.1.toNat r.2.2.toNat height vy)
    else
      some (nearestRows var b vx ux uy 0 width 0 height vy)
  | _ => none

/-! ### (b) fast_composite_rotate_90 / _270 -/

/-- `blt_rotated_90_trivial (dst, src, w, h)`: `dst[y][x] = src[x][h - y - 1]`; `src` is the pointer to
    source pixel `(sx, sy)` -/
def bltRotated90Trivial (b : Bits) (sx sy : Int) (w h : Nat) : List (List Nat) :=
  (List.range h).map fun (y : Nat) => (List.range w).map fun (x : Nat) => b.fetch (sx + ((h : Int) - y - 1)) (sy + x)

/-- `blt_rotated_270_trivial (dst, src, w, h)`: `dst[y][x] = src[w - 1 - x][y]` -/
def bltRotated270Trivial (b : Bits) (sx sy : Int) (w h : Nat) : List (List Nat) :=
  (List.range h).map fun (y : Nat) => (List.range w).map fun (x : Nat) => b.fetch (sx + y) (sy + ((w : Int) - 1 - x))

/-- `fast_composite_rotate_90_*`: `src_x_t`, `src_y_t` -/
def rotate90Origin (t : Transform) (srcX srcY : Int) (height : Nat) : Int × Int :=
  (-srcY + fixedToInt (wrapS32 (t.m02 + 32768 - 1)) - height, srcX + fixedToInt (wrapS32 (t.m12 + 32768 - 1)))

/-- `fast_composite_rotate_270_*`: `src_x_t`, `src_y_t` -/
def rotate270Origin (t : Transform) (srcX srcY : Int) (width : Nat) : Int × Int :=
  (srcY + fixedToInt (wrapS32 (t.m02 + 32768 - 1)), -srcX + fixedToInt (wrapS32 (t.m12 + 32768 - 1)) - width)

/- `blt_rotated_90/270` split the destination columns into a leading strip, cache-line wide tiles and a
   trailing strip (depending on the destination ADDRESS) and call the trivial blit on each with the matching
   source offset; the union is the trivial blit of the whole rectangle.  The split is not modelled: the
   composite is modelled by the trivial blit, and the library's tiling is compared with it by the
   correspondence (`rotate-90` / `rotate-270` requests at destination offsets 0..5, widths 1..24). -/

def fastRotate90 (b : Bits) (t : Transform) (srcX srcY : Int) (width height : Nat) : List (List Nat) :=
  let o := rotate90Origin t srcX srcY height
  bltRotated90Trivial b o.1 o.2 width height

def fastRotate270 (b : Bits) (t : Transform) (srcX srcY : Int) (width height : Nat) : List (List Nat) :=
  let o := rotate270Origin t srcX srcY width
  bltRotated270Trivial b o.1 o.2 width height

/-! ### (c) fast_fetch_bilinear_cover (pixman-fast-path.c, SIZEOF_LONG > 4) -/

def wrapU64 (x : Int) : Int := x % 18446744073709551616

/-- one entry of `fetch_horizontal`: `line->buffer[i] = (lagrb << 8) + dist_x * (ragrb - lagrb)` for
    `left = bits[x0]`, `right = bits[x0 + 1]`, in `uint64_t` arithmetic -/
def horizEntry (left right : Nat) (distx : Nat) : Int :=
  let lag := left &&& 0xff00ff00
  let lrb := left &&& 0x00ff00ff
  let rag := right &&& 0xff00ff00
  let rrb := right &&& 0x00ff00ff
  let lagrb : Int := ((lag <<< 24) ||| lrb : Nat)
  let ragrb : Int := ((rag <<< 24) ||| rrb : Nat)
  wrapU64 (wrapU64 (lagrb * 256) + wrapU64 ((distx : Int) * wrapU64 (ragrb - lagrb)))

/-- `fetch_horizontal (image, line, y, x, ux, n)`: the buffer of `n` entries; `dist_x` is the 7-bit
    weight shifted to 8 bits -/
def fetchHorizontal (b : Bits) (y : Int) (ux : Int) : Nat → Int → List Int
  | 0, _ => []
  | n + 1, x =>
    let x0 := fixedToInt x
    horizEntry (b.fetch x0 y) (b.fetch (x0 + 1) y) ((bilinearWeight x).toNat <<< 1) ::
      fetchHorizontal b y ux n (wrapS32 (x + ux))

/-- the vertical pass of `fast_fetch_bilinear_cover` for one pixel -/
def vertEntry (top bot : Int) (disty : Nat) : Nat :=
  let top := top.toNat
  let bot := bot.toNat
  let tar : Int := ((top &&& 0xffff0000ffff0000) >>> 16 : Nat)
  let bar : Int := ((bot &&& 0xffff0000ffff0000) >>> 16 : Nat)
  let tgb : Int := (top &&& 0x0000ffff0000ffff : Nat)
  let bgb : Int := (bot &&& 0x0000ffff0000ffff : Nat)
  let ar := (wrapU64 (wrapU64 (tar * 256) + wrapU64 ((disty : Int) * wrapU64 (bar - tar)))).toNat
  let gb := (wrapU64 (wrapU64 (tgb * 256) + wrapU64 ((disty : Int) * wrapU64 (bgb - tgb)))).toNat
  let a := (ar >>> 24) &&& 0xff000000
  let r := ar &&& 0x00ff0000
  let g := (gb >>> 40) &&& 0x0000ff00
  let bl := (gb >>> 16) &&& 0x000000ff
  a ||| r ||| g ||| bl

/-- one call of `fast_fetch_bilinear_cover` with `info->x = fx`, `info->y = fy` (both lines refetched —
    the two-line cache only avoids recomputation) -/
def bilinearCoverRow (b : Bits) (fx fy ux : Int) (width : Nat) : List Nat :=
  let y0 := fixedToInt fy
  let disty := (bilinearWeight fy).toNat <<< 1
  let line0 := fetchHorizontal b y0 ux width fx
  let line1 := fetchHorizontal b (y0 + 1) ux width fx
  List.zipWith (fun t bt => vertEntry t bt disty) line0 line1

/-- `fast_bilinear_cover_iter_init` + `height` calls of the scanline function -/
def bilinearCoverRows (b : Bits) (fx ux uy : Int) (width : Nat) : Nat → Int → List (List Nat)
  | 0, _ => []
  | n + 1, fy => bilinearCoverRow b fx fy ux width :: bilinearCoverRows b fx ux uy width n (wrapS32 (fy + uy))

def fastBilinearCover (b : Bits) (t : Transform) (srcX srcY : Int) (width height : Nat) :
    Option (List (List Nat)) :=
  match transformPoint3d t (pixelCentre srcX srcY) with
  | some (true, p) =>
    some (bilinearCoverRows b (wrapS32 (p.x - 32768)) t.m00 t.m11 width height (wrapS32 (p.y - 32768)))
  | _ => none

/-! ### (c') the scaled-bilinear scanline functions (FAST_BILINEAR_MAINLOOP_INT, middle part) -/

/-- the main loop subtracts `pixman_fixed_1 / 2` once (`v.vector[0] -= pixman_fixed_1 / 2`), then every
    scanline function (C, MMX, SSE2) walks `vx` with `unit_x` and uses, for each pixel, the pair
    `src[vx >> 16], src[(vx >> 16) + 1]` with the weight `pixman_fixed_to_bilinear_weight (vx)`:
    the `(index, 7-bit weight)` sequence of `n` pixels starting at `vx` -/
def bilinearScanlineCoords (ux : Int) : Nat → Int → List (Int × Int)
  | 0, _ => []
  | n + 1, vx => (fixedToInt vx, bilinearWeight vx) :: bilinearScanlineCoords ux n (wrapS32 (vx + ux))

end Pixman.Model.FetchFast

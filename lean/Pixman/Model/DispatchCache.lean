import Pixman.Gen.ImageFlags
/-!
# `_pixman_implementation_lookup_composite` (pixman-implementation.c): table scan + 8-entry
move-to-front cache keyed by exact equality.

`table` is the concatenation, in chain order, of the `fast_paths[]` arrays of the implementation
chain (terminators dropped); `imp` is the position of the implementation in the chain and `func`
the identity of the composite function (`0` = NULL).
-/
namespace Pixman.Model.DispatchCache

structure Key where
  op : Nat
  srcFormat : Nat
  srcFlags : Nat
  maskFormat : Nat
  maskFlags : Nat
  destFormat : Nat
  destFlags : Nat
  deriving DecidableEq, Repr

structure Entry where
  imp : Nat
  key : Key
  func : Nat
  deriving DecidableEq, Repr

/-- the wildcard codes `PIXMAN_OP_any`, `PIXMAN_any` -/
structure Wild where
  opAny : Nat
  fmtAny : Nat

/-- the condition of the table scan -/
def entryMatches (W : Wild) (info k : Key) : Bool :=
  (info.op == k.op || info.op == W.opAny) &&
  (info.srcFormat == k.srcFormat || info.srcFormat == W.fmtAny) &&
  (info.maskFormat == k.maskFormat || info.maskFormat == W.fmtAny) &&
  (info.destFormat == k.destFormat || info.destFormat == W.fmtAny) &&
  (info.srcFlags &&& k.srcFlags) == info.srcFlags &&
  (info.maskFlags &&& k.maskFlags) == info.maskFlags &&
  (info.destFlags &&& k.destFlags) == info.destFlags

/-- the uncached answer: first matching entry of the chain; `none` = "No composite function found" -/
def lookupTable (W : Wild) (table : List Entry) (k : Key) : Option (Nat × Nat) :=
  match table.find? (fun e => entryMatches W e.key k) with
  | some e => some (e.imp, e.func)
  | none => none

/-- `cache_t`: slots are `Entry`s; a slot with `func = 0` is empty (static zero initialisation). -/
abbrev Cache := List Entry

def emptySlot : Entry := ⟨0, ⟨0, 0, 0, 0, 0, 0, 0⟩, 0⟩
def emptyCache : Cache := List.replicate Pixman.Gen.ImageFlags.N_CACHED_FAST_PATHS emptySlot

/-- the cache probe loop: index and content of the first slot equal to the key with non-NULL func -/
def findSlot : Cache → Key → Nat → Option (Nat × Entry)
  | [], _, _ => none
  | s :: rest, k, i => if s.key = k ∧ s.func ≠ 0 then some (i, s) else findSlot rest k (i + 1)

/-- `update_cache:` — `if (i) { while (i--) cache[i+1] = cache[i]; cache[0] = new; }` -/
def moveToFront (c : Cache) (i : Nat) (s : Entry) : Cache :=
  if i = 0 then c else s :: (c.take i ++ c.drop (i + 1))

def lookupCached (W : Wild) (table : List Entry) (c : Cache) (k : Key) : Option (Nat × Nat) × Cache :=
  match findSlot c k 0 with
  | some (i, s) => (some (s.imp, s.func), moveToFront c i ⟨s.imp, k, s.func⟩)
  | none =>
    match lookupTable W table k with
    | some (imp, fn) => (some (imp, fn), moveToFront c (Pixman.Gen.ImageFlags.N_CACHED_FAST_PATHS - 1) ⟨imp, k, fn⟩)
    | none => (none, c)

/-- a whole history of lookups through one cache -/
def runLookups (W : Wild) (table : List Entry) : Cache → List Key → List (Option (Nat × Nat))
  | _, [] => []
  | c, k :: ks => let r := lookupCached W table c k; r.1 :: runLookups W table r.2 ks

end Pixman.Model.DispatchCache

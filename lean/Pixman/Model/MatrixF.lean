import Pixman.Model.Matrix
/-
  Executable mirror of the floating point path behind `pixman_transform_invert`
  (`pixman_f_transform_from_pixman_transform`, `pixman_f_transform_invert`,
  `pixman_transform_from_pixman_f_transform`) on Lean's `Float` (IEEE-754 binary64, the same
  operations in the same order as the C code; x86-64 without FMA contraction).

  This is a CORRESPONDENCE device only: no theorem is stated about it (`Float` operations are opaque to
  the kernel).  C11 is `partial` for the floating point entry points; what is checked about them is
  (a) bit-exact agreement of this mirror with the library on every generated request and (b) the
  exact-arithmetic oracle of harness/matrix.c (A·A⁻¹ ≈ I, FALSE for singular input).
-/
namespace Pixman.MatrixF
open Pixman.Matrix

/-- `pixman_fixed_to_double` -/
def fixedToDouble (f : Int) : Float := Float.ofInt f / 65536.0

def get (m : Array Float) (r c : Nat) : Float := m[r * 3 + c]!

/-- `pixman_f_transform_invert (dst, src)`; `none` = FALSE -/
def fInvert (m : Array Float) : Option (Array Float) := Id.run do
  let a : Array Nat := #[2, 2, 1]
  let b : Array Nat := #[1, 0, 0]
  let mut det : Float := 0
  for i in [0:3] do
    let ai := a[i]!
    let bi := b[i]!
    let mut p := get m i 0 * (get m ai 2 * get m bi 1 - get m ai 1 * get m bi 2)
    if i == 1 then p := -p
    det := det + p
  if det == 0 then return none
  det := 1 / det
  let mut d : Array Float := Array.replicate 9 0
  for j in [0:3] do
    for i in [0:3] do
      let ai := a[i]!
      let aj := a[j]!
      let bi := b[i]!
      let bj := b[j]!
      let mut p := get m ai aj * get m bi bj - get m ai bj * get m bi aj
      if (i + j) % 2 != 0 then p := -p
      d := d.set! (j * 3 + i) (det * p)
  return some d

/-- `pixman_transform_from_pixman_f_transform`; `none` = FALSE; `some none` = a NaN reached the cast
    (undefined in C) -/
def fromF (m : Array Float) : Option (Option (List Int)) := Id.run do
  let mut out : List Int := []
  for k in [0:9] do
    let d := m[k]!
    if d < -32767.0 || d > 32767.0 then return none
    if d.isNaN then return some none
    let d := d * 65536.0 + 0.5
    out := out ++ [d.floor.toInt64.toInt]
  return some (some out)

/-- `pixman_transform_invert (dst, src)` -/
def invert (t : Transform) : Option (Option (List Int)) :=
  let m : Array Float := #[t.m00, t.m01, t.m02, t.m10, t.m11, t.m12, t.m20, t.m21, t.m22].map fixedToDouble
  match fInvert m with
  | none => none
  | some d => fromF d

end Pixman.MatrixF

import Pixman.Gen.SampleGrid
/-!
  Model of the edge walker of the trapezoid rasteriser:
  `pixman_sample_ceil_y`, `pixman_sample_floor_y`, `pixman_edge_step`, `_pixman_edge_multi_init`,
  `pixman_edge_init`, `pixman_line_fixed_edge_init` (pixman/pixman-trap.c) and the macros
  `RENDER_EDGE_STEP_SMALL/BIG` (pixman/pixman-edge.c).

  Hand-written; tied to the code by the correspondence check `harness/trap.c` <-> `pixdrv trap`.
  The sample-grid constants come from the regenerated `Pixman.Gen.SampleGrid`.

  C integer semantics: `pixman_fixed_t` is `int32_t`.  Every place where the C code computes in
  `int`/`int32_t` carries an explicit `wrap32` (what gcc on x86-64 does in practice for the
  signed overflow that the C standard leaves undefined); `pixman_fixed_48_16_t` arithmetic is exact
  (operands are int32, products fit in 63 bits) and is truncated by `wrap32` where it is stored into
  an `int`/`pixman_fixed_t`.  C `/` and `%` are `Int.tdiv` / `Int.tmod`.  The property theorems
  carry explicit no-overflow hypotheses under which every `wrap32` is the identity.

  No Mathlib; total functions only.
-/
namespace Pixman.Trap
open Pixman.Gen.SampleGrid

/-- two's complement truncation to 32 bits -/
def wrap32 (v : Int) : Int := (v + 2147483648) % 4294967296 - 2147483648
/-- two's complement truncation to 16 bits (conversion to `int16_t`) -/
def wrap16 (v : Int) : Int := (v + 32768) % 65536 - 32768

/-! ### pixman.h fixed-point macros (checked against the compiler by tools/gen_samplegrid.py) -/

/-- `pixman_fixed_frac (f)`  =  `f & 0xffff` -/
def fixedFrac (f : Int) : Int := f % 65536
/-- `pixman_fixed_floor (f)`  =  `f & ~0xffff` -/
def fixedFloor (f : Int) : Int := f - f % 65536
/-- `pixman_fixed_to_int (f)`  =  `(int) (f >> 16)` (arithmetic shift) -/
def fixedToInt (f : Int) : Int := f / 65536
/-- `pixman_int_to_fixed (i)`  =  `(pixman_fixed_t) ((uint32_t) i << 16)` -/
def intToFixed (i : Int) : Int := wrap32 (i * 65536)
/-- `pixman_fixed_ceil (f)` = `pixman_fixed_floor (f + pixman_fixed_1_minus_e)` -/
def fixedCeil (f : Int) : Int := fixedFloor (wrap32 (f + 65535))

/-! ### pixman_sample_ceil_y / pixman_sample_floor_y -/

/-- `pixman_sample_ceil_y (y, n)`.  `DIV (a, b)` with `b > 0` is floor division (`Int./`).
    `i | f` is written `i + f`: `i` has its low 16 bits clear and `0 ≤ f ≤ 0xffff` here. -/
def sampleCeilY (y : Int) (n : Nat) : Int :=
  let f := fixedFrac y
  let i := fixedFloor y
  let f := (f - yFracFirst n + (stepYSmall n - 1)) / stepYSmall n * stepYSmall n + yFracFirst n
  if f > yFracLast n then
    if fixedToInt i == 0x7fff then
      i + 0xffff                       -- saturate
    else
      (i + 65536) + yFracFirst n
  else
    i + f

/-- `pixman_sample_floor_y (y, n)`.  For `y` within `Y_FRAC_FIRST` of `INT32_MIN` there is no grid row
    below `y` in range: the code saturates to `i | 0 = INT32_MIN` (the lowest pixel row, fraction 0 —
    not a grid row, but below every grid row, so `b < t` and nothing is drawn). -/
def sampleFloorY (y : Int) (n : Nat) : Int :=
  let f := fixedFrac y
  let i := fixedFloor y
  let f := (f - 1 - yFracFirst n) / stepYSmall n * stepYSmall n + yFracFirst n
  if f < yFracFirst n then
    if fixedToInt i == -0x8000 then
      i + 0                            -- saturate
    else
      wrap32 (i - 65536) + yFracLast n
  else
    i + f

/-! ### edges -/

/-- `pixman_edge_t` -/
structure Edge where
  x : Int
  e : Int
  stepx : Int
  signdx : Int
  dy : Int
  dx : Int
  stepxSmall : Int
  stepxBig : Int
  dxSmall : Int
  dxBig : Int
deriving Repr, DecidableEq, Inhabited

/-- `pixman_edge_step (e, n)` -/
def edgeStep (e : Edge) (n : Int) : Edge :=
  let x := wrap32 (e.x + wrap32 (n * e.stepx))
  let ne := e.e + n * e.dx                        -- pixman_fixed_48_16_t, exact
  if n ≥ 0 then
    if ne > 0 then
      let nx := wrap32 (Int.tdiv (ne + e.dy - 1) e.dy)
      { e with e := wrap32 (ne - nx * e.dy), x := wrap32 (x + wrap32 (nx * e.signdx)) }
    else
      { e with x := x }
  else
    if ne ≤ -e.dy then
      let nx := wrap32 (Int.tdiv (-ne) e.dy)
      { e with e := wrap32 (ne + nx * e.dy), x := wrap32 (x - wrap32 (nx * e.signdx)) }
    else
      { e with x := x }

/-- `_pixman_edge_multi_init (e, n, &stepx, &dx)`; returns `(stepx, dx)` -/
def multiInit (e : Edge) (n : Int) : Int × Int :=
  let ne := n * e.dx
  let stepx := wrap32 (n * e.stepx)
  if ne > 0 then
    let nx := wrap32 (Int.tdiv ne e.dy)
    (wrap32 (stepx + wrap32 (nx * e.signdx)), wrap32 (ne - nx * e.dy))
  else
    (stepx, wrap32 ne)

/-- `pixman_edge_init (e, n, y_start, x_top, y_top, x_bot, y_bot)`.
    For `dy == 0` the C code leaves `stepx, signdx, stepx_small, …` uninitialised; the model puts 0
    there (not reachable from the trapezoid entry points, which require a non-horizontal edge). -/
def edgeInit (n : Nat) (yStart xTop yTop xBot yBot : Int) : Edge :=
  let dx := wrap32 (xBot - xTop)
  let dy := wrap32 (yBot - yTop)
  let e0 : Edge := { x := xTop, e := 0, stepx := 0, signdx := 0, dy := dy, dx := 0,
                     stepxSmall := 0, stepxBig := 0, dxSmall := 0, dxBig := 0 }
  let e1 : Edge :=
    if dy != 0 then
      let e :=
        if dx ≥ 0 then
          { e0 with signdx := 1, stepx := wrap32 (Int.tdiv dx dy), dx := Int.tmod dx dy, e := wrap32 (-dy) }
        else
          { e0 with signdx := -1, stepx := wrap32 (-(wrap32 (Int.tdiv (wrap32 (-dx)) dy))),
                    dx := Int.tmod (wrap32 (-dx)) dy, e := 0 }
      let s := multiInit e (stepYSmall n)
      let b := multiInit e (stepYBig n)
      { e with stepxSmall := s.1, dxSmall := s.2, stepxBig := b.1, dxBig := b.2 }
    else e0
  edgeStep e1 (wrap32 (yStart - yTop))

/-- `pixman_line_fixed_edge_init (e, n, y, line, x_off, y_off)`; `line = (p1x, p1y, p2x, p2y)` -/
def lineFixedEdgeInit (n : Nat) (y : Int) (p1x p1y p2x p2y : Int) (xOff yOff : Int) : Edge :=
  let xo := intToFixed xOff
  let yo := intToFixed yOff
  if p1y ≤ p2y then
    edgeInit n y (wrap32 (p1x + xo)) (wrap32 (p1y + yo)) (wrap32 (p2x + xo)) (wrap32 (p2y + yo))
  else
    edgeInit n y (wrap32 (p2x + xo)) (wrap32 (p2y + yo)) (wrap32 (p1x + xo)) (wrap32 (p1y + yo))

/-- `RENDER_EDGE_STEP_SMALL (edge)` -/
def stepSmall (e : Edge) : Edge :=
  let x := wrap32 (e.x + e.stepxSmall)
  let ee := wrap32 (e.e + e.dxSmall)
  if ee > 0 then { e with e := wrap32 (ee - e.dy), x := wrap32 (x + e.signdx) }
  else { e with e := ee, x := x }

/-- `RENDER_EDGE_STEP_BIG (edge)` -/
def stepBig (e : Edge) : Edge :=
  let x := wrap32 (e.x + e.stepxBig)
  let ee := wrap32 (e.e + e.dxBig)
  if ee > 0 then { e with e := wrap32 (ee - e.dy), x := wrap32 (x + e.signdx) }
  else { e with e := ee, x := x }

end Pixman.Trap

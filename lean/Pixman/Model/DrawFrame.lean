import Pixman.Model.Format
import Pixman.Model.CompositeRegion
/-!
  Memory-level model of the general compositing path (C03, drawing frame):
  `pixman_image_composite32` → composite region → box loop → `general_composite_rect`, whose
  destination iterator writes every combined row back through the format's `store_scanline`
  (pixman-general.c, pixman-bits-image.c `dest_write_back_narrow`).  Destination memory is C10's byte
  memory; the row combiner is a parameter.  Tied to the library byte for byte by the `drawframe`
  correspondence domain (harness/drawframe.c, Driver/DrawFrame.lean) with C01's `compositePixel`
  as combiner.  Theorems: Lemmas/DrawFrame.lean, Props/C03Frame.lean.
-/
namespace Pixman.DrawFrame
open Pixman.Model.Format
open Pixman.Region Pixman.CompositeRegion

abbrev FImage := Pixman.Model.Format.Image

/-- the values handed to the write-back of row `j` of an `info` rectangle: anything computed from
    the memory as it is before the row is stored (source, mask and destination rows fetched, the
    combiner applied), column by column -/
abbrev RowComb := Mem → Info → Nat → Nat → Nat

/-- `dest_iter.write_back` of one row of `general_composite_rect`:
    `image->store_scanline_32 (image, x, y, width, buffer)` -/
def storeInfoRow (img : FImage) (comb : RowComb) (i : Info) (m : Mem) (j : Nat) : Mem :=
  storeScanline img m i.destX.toNat (i.destY.toNat + j) ((List.range i.width.toNat).map (comb m i j))

/-- `general_composite_rect (imp, info)`: `for (i = 0; i < height; ++i)` combine and write back -/
def paintInfoMem (img : FImage) (comb : RowComb) (m : Mem) (i : Info) : Mem :=
  (List.range i.height.toNat).foldl (storeInfoRow img comb i) m

/-- a sequence of composite-function calls -/
def paintInfosMem (img : FImage) (comb : RowComb) (infos : List Info) (m : Mem) : Mem :=
  infos.foldl (paintInfoMem img comb) m

abbrev CImage := Pixman.CompositeRegion.Image

/-- `pixman_image_composite32` with the general implementation's composite function: the region is
    computed, then every box of it is handed to `general_composite_rect`, whose destination iterator
    writes each combined row back with the format's scanline store (C10) -/
def generalCompositeMem (img : FImage) (comb : RowComb) (src : CImage) (mask : Option CImage) (dest : CImage)
    (sx sy mx my dx dy w h : Int) (m : Mem) : Mem :=
  let p := computeCompositeRegion32 src mask dest sx sy mx my dx dy w h
  if p.2 then paintInfosMem img comb (compositeBoxes p.1 sx sy mx my dx dy) m else m

/-- `dest_write_back_narrow` for a destination with an alpha map: the row goes to the image and, at
    `(x - alpha_origin_x, y - alpha_origin_y)`, to the alpha map -/
def storeInfoRowA (imgD imgA : FImage) (ox oy : Int) (comb : RowComb) (i : Info) (m : Mem) (j : Nat) : Mem :=
  let vs := (List.range i.width.toNat).map (comb m i j)
  storeScanline imgA (storeScanline imgD m i.destX.toNat (i.destY.toNat + j) vs)
    (i.destX - ox).toNat (i.destY + (j : Int) - oy).toNat vs

def paintInfoMemA (imgD imgA : FImage) (ox oy : Int) (comb : RowComb) (m : Mem) (i : Info) : Mem :=
  (List.range i.height.toNat).foldl (storeInfoRowA imgD imgA ox oy comb i) m

/-- a composite request on the general path, destination with alpha map `a` stored in `imgA` -/
def generalCompositeAlphaMem (imgD imgA : FImage) (comb : RowComb) (src : CImage) (mask : Option CImage)
    (dest : CImage) (a : AlphaMap) (sx sy mx my dx dy w h : Int) (m : Mem) : Mem :=
  let p := computeCompositeRegion32 src mask dest sx sy mx my dx dy w h
  if p.2 then (compositeBoxes p.1 sx sy mx my dx dy).foldl (paintInfoMemA imgD imgA a.ox a.oy comb) m else m


/-! ### which store writes the row back

  `general_composite_rect` asks the implementation chain for the destination iterator with the flags
  `ITER_NARROW | op_flags[op].dst | ITER_DEST`.  For an a8r8g8b8 destination — and for an x8r8g8b8 one when
  `op_flags[op].dst` contains `ITER_LOCALIZED_ALPHA` — with the standard destination flags (no alpha map, no
  accessors) pixman-noop.c answers first (`noop_init_direct_buffer`): the "buffer" is the image memory itself,
  the combiner reads and writes the 32-bit words in place and `dest_write_back_direct` stores nothing.  In
  terms of this model the row is written back as if the image were a8r8g8b8: the unused X byte of a written
  x8r8g8b8 pixel receives the combined alpha (not 0, which `store_scanline_x8r8g8b8` would write), and the
  destination value the combiner sees carries the stored X byte as its alpha.  Found by the `drawframe`
  correspondence domain; the frame theorems hold for either format. -/

/-- `op_flags[op].dst & ITER_LOCALIZED_ALPHA` (pixman-general.c): CLEAR, SRC, DST, OVER, IN_REVERSE,
    OUT_REVERSE, ADD -/
def dstLocalizedAlpha (op : Nat) : Bool := [0, 1, 2, 3, 6, 8, 12].contains op

/-- the format whose scanline store describes the write-back of a standard destination, for the operator
    `op` (after `optimize_operator`) -/
def writeBackFormat (fmt op : Nat) : Nat :=
  if fmt = 0x20020888 ∧ dstLocalizedAlpha op = true then 0x20028888 else fmt   -- x8r8g8b8 ↦ a8r8g8b8

/-! ### evaluation strategy for the compiled driver

  Memories are functions, and a function that returns a memory is compiled with the address as one more
  parameter: its whole body runs again on every read, so evaluating `generalCompositeMem` as it stands is
  exponential.  The driver evaluates `generalCompositeS` instead, whose state is DATA: a snapshot (`Snap`) of
  the allocation `[lo, lo+n)` as an array, plus the memory it was taken from for the addresses outside.
  `Snap.mem` turns a snapshot back into a memory, `(Snap.of lo n m).mem lo = m` for EVERY memory
  (`Snap.mem_of`), and `generalCompositeS_mem` says that the snapshot computed by `generalCompositeS` denotes
  exactly `generalCompositeMem` of the initial memory: the same function, evaluated with sharing. -/

structure Snap where
  arr : Array Nat
  out : Mem

def Snap.mem (lo : Nat) (s : Snap) : Mem :=
  fun a => if lo ≤ a ∧ a - lo < s.arr.size then s.arr.getD (a - lo) (s.out a) else s.out a

def Snap.of (lo n : Nat) (m : Mem) : Snap := ⟨(Array.range n).map (fun i => m (lo + i)), m⟩

theorem Snap.mem_of (lo n : Nat) (m : Mem) : (Snap.of lo n m).mem lo = m := by
  funext a
  unfold Snap.mem Snap.of
  simp only [Array.size_map, Array.size_range]
  by_cases h : lo ≤ a ∧ a - lo < n
  · rw [if_pos h, Array.getD_eq_getD_getElem?, Array.getElem?_map, Array.getElem?_range]
    simp only [h.2, if_true, Option.map_some, Option.getD_some]
    rw [show lo + (a - lo) = a by omega]
  · rw [if_neg h]

def storeScanlineLoopS (lo n : Nat) (pal : Palette) (dest f : Nat) : Snap → Nat → List Nat → Snap
  | s, _, [] => s
  | s, x, v :: vs =>
    storeScanlineLoopS lo n pal dest f (Snap.of lo n (convertAndStorePixel pal (s.mem lo) dest x f v)) (x + 1) vs

def storeInfoRowS (lo n : Nat) (img : FImage) (comb : RowComb) (i : Info) (s : Snap) (j : Nat) : Snap :=
  storeScanlineLoopS lo n img.pal (img.row (i.destY.toNat + j)) img.format s i.destX.toNat
    ((List.range i.width.toNat).map (comb (s.mem lo) i j))

def paintInfoS (lo n : Nat) (img : FImage) (comb : RowComb) (s : Snap) (i : Info) : Snap :=
  (List.range i.height.toNat).foldl (storeInfoRowS lo n img comb i) s

def generalCompositeS (lo n : Nat) (img : FImage) (comb : RowComb) (src : CImage) (mask : Option CImage)
    (dest : CImage) (sx sy mx my dx dy w h : Int) (s : Snap) : Snap :=
  let p := computeCompositeRegion32 src mask dest sx sy mx my dx dy w h
  if p.2 then (compositeBoxes p.1 sx sy mx my dx dy).foldl (paintInfoS lo n img comb) s else s

theorem storeScanlineLoopS_mem (lo n : Nat) (pal : Palette) (dest f : Nat) (vs : List Nat) :
    ∀ (s : Snap) (x : Nat),
    (storeScanlineLoopS lo n pal dest f s x vs).mem lo = storeScanlineLoop pal dest f (s.mem lo) x vs := by
  induction vs with
  | nil => intro s x; rfl
  | cons v vs ih =>
    intro s x
    simp only [storeScanlineLoopS, storeScanlineLoop]
    rw [ih, Snap.mem_of]

theorem foldl_mem {α : Type} (lo : Nat) (fS : Snap → α → Snap) (f : Mem → α → Mem)
    (h : ∀ s a, (fS s a).mem lo = f (s.mem lo) a) (l : List α) :
    ∀ s : Snap, (l.foldl fS s).mem lo = l.foldl f (s.mem lo) := by
  induction l with
  | nil => intro s; rfl
  | cons a l ih => intro s; rw [List.foldl_cons, List.foldl_cons, ih, h]

theorem generalCompositeS_mem (lo n : Nat) (img : FImage) (comb : RowComb)
    (src : CImage) (mask : Option CImage) (dest : CImage) (sx sy mx my dx dy w h : Int) (s : Snap) :
    (generalCompositeS lo n img comb src mask dest sx sy mx my dx dy w h s).mem lo =
      generalCompositeMem img comb src mask dest sx sy mx my dx dy w h (s.mem lo) := by
  have e1 : ∀ (i : Info) (s : Snap) (j : Nat),
      (storeInfoRowS lo n img comb i s j).mem lo = storeInfoRow img comb i (s.mem lo) j := by
    intro i s j
    unfold storeInfoRowS storeInfoRow storeScanline
    exact storeScanlineLoopS_mem lo n _ _ _ _ _ _
  have e2 : ∀ (s : Snap) (i : Info), (paintInfoS lo n img comb s i).mem lo = paintInfoMem img comb (s.mem lo) i := by
    intro s i
    unfold paintInfoS paintInfoMem
    exact foldl_mem lo _ _ (e1 i) _ s
  unfold generalCompositeS generalCompositeMem paintInfosMem
  simp only []
  split
  · exact foldl_mem lo _ _ e2 _ s
  · rfl

end Pixman.DrawFrame

/-
  Allocation-aware model of pixman/pixman-region.c (property C15).

  The failure-free semantics is `Pixman.Region` (Model/Region.lean, theorems C05/C06).  Here the
  same functions are refined with
    * the allocator as an oracle: a schedule `Sched = Nat → Bool` ("does the k-th allocation
      request succeed"), consulted once per malloc/calloc/realloc call;
    * `size` (capacity) and a block id on every malloc'ed rectangle array;
    * `pixman_broken_data`;
    * a heap log (alloc / realloc / free events, refused requests) with a `bad` flag that is
      raised when a block that is not live is freed or realloc'ed.

  Modelled literally (one Lean function per C function/macro, C control flow kept):
    PIXREGION_SZOF, alloc_data, FREE_DATA, pixman_break, pixman_rect_alloc (all three branches,
    doubling rule, overflow guard), RECTALLOC/NEWRECT (`addBlk`), DOWNSIZE, pixman_region_copy,
    the prologue and epilogue of pixman_op (old_data, size guess, first allocation, the three
    result shapes, both failure exits), the public wrappers intersect / union / subtract / inverse /
    intersect_rect / union_rect, init_rects, validate (scatter with the ri[] array growth, forced
    allocation, final pass, binary merge, bail), translate, init_from_image, fini,
    the 16<->32 conversions of pixman-utils.c.
  Modelled by abstraction "sequence of capacity demands + pure result": the band sweep inside
    pixman_op and the row scan of init_from_image.  The *rectangles* they produce are taken from
    the failure-free model (`pixmanOpRects`, `initFromImage`); what is added here is the list of
    capacity events (`Ev.add n` = RECTALLOC(n)/NEWRECT followed by numRects += n, `Ev.sub n` =
    a successful pixman_coalesce) in the order the C code performs them.  The tie of that event
    list to the real code is the correspondence check (request counts, failure position, final
    `size` of every result block are compared with the library for every schedule).

  No Mathlib; total functions only.
-/
import Pixman.Model.Region
namespace Pixman.Model.RegionAlloc
open Pixman.Region

/-! ### allocator oracle and heap -/

/-- `s k = true` iff the k-th allocation request (0-based, counted over malloc, calloc and
    realloc together) succeeds. -/
abbrev Sched := Nat → Bool

/-- no failure -/
def Sched.ok : Sched := fun _ => true
/-- exactly the k-th request fails -/
def Sched.single (k : Nat) : Sched := fun i => i != k
/-- the k-th request and every later one fail -/
def Sched.persistent (k : Nat) : Sched := fun i => i < k

inductive HEv where
  | alloc (id : Nat)
  | realloc (id : Nat)
  | free (id : Nat)
  | refused
deriving Repr, DecidableEq

structure Heap where
  k : Nat               -- requests made so far
  nextId : Nat          -- ids are never reused
  live : List Nat
  log : List HEv        -- newest first
  bad : Bool            -- a non-live block was freed / realloc'ed
deriving Repr

def Heap.empty : Heap := ⟨0, 0, [], [], false⟩

/-- malloc / calloc -/
def Heap.malloc (s : Sched) (h : Heap) : Option Nat × Heap :=
  if s h.k then
    (some h.nextId, { h with k := h.k + 1, nextId := h.nextId + 1, live := h.nextId :: h.live,
                             log := .alloc h.nextId :: h.log })
  else (none, { h with k := h.k + 1, log := .refused :: h.log })

/-- realloc of a live block; the block keeps its id (the model does not distinguish a moved block
    from one grown in place); on failure the old block stays valid -/
def Heap.realloc (s : Sched) (id : Nat) (h : Heap) : Bool × Heap :=
  if s h.k then
    (true, { h with k := h.k + 1, bad := h.bad || !h.live.contains id, log := .realloc id :: h.log })
  else (false, { h with k := h.k + 1, bad := h.bad || !h.live.contains id, log := .refused :: h.log })

def Heap.free (id : Nat) (h : Heap) : Heap :=
  { h with live := h.live.erase id, bad := h.bad || !h.live.contains id, log := .free id :: h.log }

/-- allocation that is not subject to the schedule (objects the caller sets up beforehand) -/
def Heap.given (h : Heap) : Nat × Heap :=
  (h.nextId, { h with nextId := h.nextId + 1, live := h.nextId :: h.live, log := .alloc h.nextId :: h.log })

/-! ### regions with capacities -/

inductive DataA where
  | single
  | emptyStatic
  | broken
  | heap (id : Nat) (size : Nat) (rects : List Box)
deriving Repr, DecidableEq, Inhabited

structure RegionA where
  extents : Box
  data : DataA
deriving Repr, DecidableEq, Inhabited

def DataA.erase : DataA → Data
  | .single => .single
  | .emptyStatic => .emptyStatic
  | .broken => .broken
  | .heap _ _ l => .heap l

/-- forget capacities and block ids -/
def RegionA.erase (r : RegionA) : Region := ⟨r.extents, r.data.erase⟩

def RegionA.ids (r : RegionA) : List Nat :=
  match r.data with
  | .heap id _ _ => [id]
  | _ => []

def RegionA.rects (r : RegionA) : List Box := r.erase.rects
def RegionA.nil (r : RegionA) : Bool := r.erase.nil
def RegionA.nar (r : RegionA) : Bool := r.erase.nar
/-- PIXREGION_SIZE, with 0 for the static blocks -/
def RegionA.size (r : RegionA) : Nat :=
  match r.data with
  | .heap _ sz _ => sz
  | _ => 0

def brkA : RegionA := ⟨emptyBox, .broken⟩
def initA : RegionA := ⟨emptyBox, .emptyStatic⟩

/-- `(reg)->data == pixman_broken_data` and the extents are empty -/
def RegionA.isBroken (r : RegionA) : Bool :=
  r.data == .broken && r.extents.x1 == r.extents.x2 && r.extents.y1 == r.extents.y2

/-- sizeof (box_type_t): 8 for region16, 16 for region32; the header is two longs (LP64) -/
def boxBytes (c : Cfg) : Nat := if c.bits == 16 then 8 else 16
def hdrBytes : Nat := 16

/-- PIXREGION_SZOF: 0 means "would overflow" -/
def szof (c : Cfg) (n : Nat) : Nat :=
  if n > 4294967295 / boxBytes c then 0
  else if hdrBytes > 4294967295 - n * boxBytes c then 0
  else n * boxBytes c + hdrBytes

/-- alloc_data: the guard fails without consulting the allocator -/
def allocData (c : Cfg) (s : Sched) (n : Nat) (h : Heap) : Option Nat × Heap :=
  if szof c n == 0 then (none, h) else h.malloc s

/-- FREE_DATA -/
def freeData (r : RegionA) (h : Heap) : Heap :=
  match r.data with
  | .heap id _ _ => h.free id
  | _ => h

/-- pixman_break: returns FALSE; the region is now the broken region -/
def pixmanBreak (r : RegionA) (h : Heap) : RegionA × Heap := (brkA, freeData r h)

/-- the growth rule of the third branch of pixman_rect_alloc -/
def growTo (num n : Nat) : Nat :=
  (if n == 1 then (if num > 500 then 250 else num) else n) + num

/-- pixman_rect_alloc (region, n).  `false` ⇒ the region is broken. -/
def rectAlloc (c : Cfg) (s : Sched) (r : RegionA) (n : Nat) (h : Heap) : Bool × RegionA × Heap :=
  match r.data with
  | .single =>
    match allocData c s (n + 1) h with
    | (some id, h') => (true, ⟨r.extents, .heap id (n + 1) [r.extents]⟩, h')
    | (none, h') => (false, brkA, h')
  | .emptyStatic | .broken =>
    match allocData c s n h with
    | (some id, h') => (true, ⟨r.extents, .heap id n []⟩, h')
    | (none, h') => (false, brkA, h')
  | .heap id _ l =>
    let n' := growTo l.length n
    if szof c n' == 0 then (false, brkA, h.free id)
    else
      match h.realloc s id with
      | (true, h') => (true, ⟨r.extents, .heap id n' l⟩, h')
      | (false, h') => (false, brkA, h'.free id)

/-! ### a rectangle array under construction -/

structure Blk where
  id : Nat
  size : Nat
  num : Nat
deriving Repr, DecidableEq

/-- capacity events of a construction, in program order -/
inductive Ev where
  | add (n : Nat)     -- RECTALLOC (n) / NEWRECT, then numRects += n
  | sub (n : Nat)     -- pixman_coalesce merged two bands of n rectangles
deriving Repr, DecidableEq

/-- RECTALLOC(n) on a heap block, then `numRects += n`.  `none`: pixman_rect_alloc failed, the
    block has been freed by pixman_break. -/
def addBlk (c : Cfg) (s : Sched) (b : Blk) (n : Nat) (h : Heap) : Option Blk × Heap :=
  if b.num + n > b.size then
    let n' := growTo b.num n
    if szof c n' == 0 then (none, h.free b.id)
    else
      match h.realloc s b.id with
      | (true, h') => (some { b with size := n', num := b.num + n }, h')
      | (false, h') => (none, h'.free b.id)
  else (some { b with num := b.num + n }, h)

def runEvents (c : Cfg) (s : Sched) : List Ev → Blk → Heap → Option Blk × Heap
  | [], b, h => (some b, h)
  | .add n :: t, b, h =>
    match addBlk c s b n h with
    | (some b', h') => runEvents c s t b' h'
    | (none, h') => (none, h')
  | .sub n :: t, b, h => runEvents c s t { b with num := b.num - n } h

/-- DOWNSIZE: a refused (or guarded) shrink is harmless -/
def downsize (c : Cfg) (s : Sched) (b : Blk) (num : Nat) (h : Heap) : Blk × Heap :=
  if num < b.size / 2 && b.size > 50 then
    if szof c num == 0 then (b, h)
    else
      match h.realloc s b.id with
      | (true, h') => ({ b with size := num }, h')
      | (false, h') => (b, h')
  else (b, h)

/-! ### pixman_region_copy -/

/-- `same`: dst and src are the same object -/
def copyA (c : Cfg) (s : Sched) (same : Bool) (dst src : RegionA) (h : Heap) : Bool × RegionA × Heap :=
  if same then (true, dst, h)
  else
    match src.data with
    | .heap _ _ sl =>
      let fresh (h : Heap) : Bool × RegionA × Heap :=
        match allocData c s sl.length h with
        | (some id, h') => (true, ⟨src.extents, .heap id sl.length sl⟩, h')
        | (none, h') => (false, brkA, h')
      match dst.data with
      | .heap did dsz _ =>
        if dsz < sl.length then fresh (h.free did)
        else (true, ⟨src.extents, .heap did dsz sl⟩, h)
      | .single => fresh h
      | .emptyStatic | .broken =>
        -- (a malloc'ed block without rectangles does not occur as a source: the C code would
        --  write numRects into the static block)
        if 0 < sl.length then fresh h else (true, ⟨src.extents, .emptyStatic⟩, h)
    | d => (true, ⟨src.extents, d⟩, freeData dst h)

/-! ### capacity events of the band sweep of pixman_op -/

/-- did COALESCE merge `cur` into `o.prev`? (same test as `Region.coalesce`) -/
def coalesceMerged (o : Out) (cur : List Box) : Bool :=
  match cur, o.prev with
  | c :: _, p :: _ => o.prev.length = cur.length && p.y2 == c.y1 && sameSpans o.prev cur
  | _, _ => false

def coalesceEv (o : Out) (cur : List Box) : List Ev :=
  if coalesceMerged o cur then [.sub cur.length] else []

/-- a band emitted rectangle by rectangle (NEWRECT) by an overlap procedure -/
def overlapEv (o : Out) (cur : List Box) : List Ev :=
  List.replicate cur.length (.add 1) ++ coalesceEv o cur

/-- a band emitted by pixman_region_append_non_o (one RECTALLOC for the whole band) -/
def nonOEv (o : Out) (cur : List Box) : List Ev :=
  .add cur.length :: coalesceEv o cur

/-- events of one iteration of the main loop (mirrors `Region.sweepStep`) -/
def sweepStepEv (k : OpKind) (app1 app2 : Bool) (s : St) : List Ev :=
  let r1 := s.r1
  let r2 := s.r2
  let sb1 := splitBand r1
  let sb2 := splitBand r2
  let r1y1 := headY1 r1
  let r2y1 := headY1 r2
  let p : Out × Int × List Ev :=
    if r1y1 < r2y1 then
      if app1 then
        let top := max r1y1 s.ybot
        let bot := min (headY2 r1) r2y1
        if top != bot then
          let cur := appendNonO sb1.1 top bot
          (coalesce s.out cur, r2y1, nonOEv s.out cur)
        else (s.out, r2y1, [])
      else (s.out, r2y1, [])
    else if r2y1 < r1y1 then
      if app2 then
        let top := max r2y1 s.ybot
        let bot := min (headY2 r2) r1y1
        if top != bot then
          let cur := appendNonO sb2.1 top bot
          (coalesce s.out cur, r1y1, nonOEv s.out cur)
        else (s.out, r1y1, [])
      else (s.out, r1y1, [])
    else (s.out, r1y1, [])
  let ytop := p.2.1
  let ybot' := min (headY2 r1) (headY2 r2)
  if ybot' > ytop then p.2.2 ++ overlapEv p.1 (overlapO k ytop ybot' sb1.1 sb2.1) else p.2.2

def sweepEv (k : OpKind) (app1 app2 : Bool) : Nat → St → List Ev × St
  | 0, s => ([], s)
  | fuel + 1, s =>
    match s.r1, s.r2 with
    | [], _ => ([], s)
    | _, [] => ([], s)
    | _ :: _, _ :: _ =>
      let e := sweepStepEv k app1 app2 s
      let r := sweepEv k app1 app2 fuel (sweepStep k app1 app2 s)
      (e ++ r.1, r.2)

/-- capacity events of pixman_op after its first allocation (mirrors `Region.pixmanOpRects`) -/
def pixmanOpEvents (k : OpKind) (app1 app2 : Bool) (reg1 reg2 : List Box) : List Ev :=
  let s0 : St := { r1 := reg1, r2 := reg2, ybot := min (headY1 reg1) (headY1 reg2),
                   out := { done := [], prev := [] } }
  let r := sweepEv k app1 app2 (2 * (reg1.length + reg2.length) + 2) s0
  let s := r.2
  let tail (rr : List Box) : List Ev :=
    let sb := splitBand rr
    let cur := appendNonO sb.1 (max (headY1 rr) s.ybot) (headY2 rr)
    nonOEv s.out cur ++ (if sb.2.length = 0 then [] else [.add sb.2.length])
  match s.r1, s.r2 with
  | r1@(_ :: _), _ => if app1 then r.1 ++ tail r1 else r.1
  | [], r2@(_ :: _) => if app2 then r.1 ++ tail r2 else r.1
  | [], [] => r.1

/-! ### pixman_op -/

/-- free (old_data) -/
def freeOld (old : Option Nat) (h : Heap) : Heap :=
  match old with
  | some id => h.free id
  | none => h

/-- the prologue of pixman_op: `old_data` and the emptied destination
    (`if (!new_reg->data) data = empty; else if (size) numRects = 0`) -/
def opPrologue (al : Alias) (newReg : RegionA) (n1 n2 : Nat) : Option Nat × RegionA :=
  let useOld := (al == .first && n1 > 1) || (al == .second && n2 > 1)
  let old : Option Nat := if useOld then newReg.ids.head? else none
  let nr : RegionA := if useOld then ⟨newReg.extents, .emptyStatic⟩ else newReg
  let nr : RegionA :=
    match nr.data with
    | .single => ⟨nr.extents, .emptyStatic⟩
    | .heap id sz _ => ⟨nr.extents, .heap id sz []⟩
    | _ => nr
  (old, nr)

/-- the epilogue of pixman_op on the finished block: the three result shapes -/
def opFinish (c : Cfg) (s : Sched) (ext : Box) (l : List Box) (b : Blk) (h : Heap) : RegionA × Heap :=
  match l with
  | [] => (⟨ext, .emptyStatic⟩, h.free b.id)
  | [x] => (⟨x, .single⟩, h.free b.id)
  | _ =>
    let d := downsize c s b l.length h
    (⟨ext, .heap d.1.id d.1.size l⟩, d.2)

/-- pixman_op after its first allocation `first`: the sweep (as capacity events), both failure
    exits, `free (old_data)` and the epilogue -/
def opBody (c : Cfg) (s : Sched) (evs : List Ev) (l : List Box) (old : Option Nat) (ext : Box)
    (first : Bool × RegionA × Heap) : Bool × RegionA × Heap :=
  if !first.1 then (false, first.2.1, freeOld old first.2.2)
  else
    match first.2.1.data with
    | .heap id sz _ =>
      match runEvents c s evs ⟨id, sz, 0⟩ first.2.2 with
      | (none, h') => (false, brkA, freeOld old h')      -- bail
      | (some b, h') =>
        let r := opFinish c s ext l b (freeOld old h')
        (true, r.1, r.2)
    | _ => (false, brkA, freeOld old first.2.2)   -- unreachable: newSize ≥ 2 forces a heap block

/-- pixman_op.  `al` says which operand (if any) is the same object as `newReg`. -/
def pixmanOpA (c : Cfg) (s : Sched) (k : OpKind) (app1 app2 : Bool) (al : Alias)
    (newReg reg1 reg2 : RegionA) (h : Heap) : Bool × RegionA × Heap :=
  if reg1.nar || reg2.nar then
    let p := pixmanBreak newReg h
    (false, p.1, p.2)
  else
    let n1 := reg1.rects.length
    let n2 := reg2.rects.length
    let pr := opPrologue al newReg n1 n2
    let newSize := 2 * (if n2 > n1 then n2 else n1)
    let first : Bool × RegionA × Heap :=
      if newSize > pr.2.size then rectAlloc c s pr.2 newSize h else (true, pr.2, h)
    opBody c s (pixmanOpEvents k app1 app2 reg1.rects reg2.rects)
      (pixmanOpRects k app1 app2 reg1.rects reg2.rects) pr.1 pr.2.extents first

/-- pixman_set_extents on the erased region, keeping the block -/
def setExtentsA (r : RegionA) : RegionA := ⟨(setExtents r.erase).extents, r.data⟩

/-! ### public operations -/

def collapse (e : Box) : Box := ⟨e.x1, e.y1, e.x1, e.y1⟩

/-- `if (!pixman_op (...)) return FALSE; <fix the extents>; return TRUE;` -/
def post (p : Bool × RegionA × Heap) (f : RegionA → RegionA) : Bool × RegionA × Heap :=
  if !p.1 then p else (true, f p.2.1, p.2.2)

/-- pixman_region_intersect -/
def intersectA (c : Cfg) (s : Sched) (same12 : Bool) (al : Alias) (newReg reg1 reg2 : RegionA)
    (h : Heap) : Bool × RegionA × Heap :=
  if reg1.nil || reg2.nil || !extentCheck reg1.extents reg2.extents then
    let h' := freeData newReg h
    if reg1.nar || reg2.nar then (false, ⟨collapse newReg.extents, .broken⟩, h')
    else (true, ⟨collapse newReg.extents, .emptyStatic⟩, h')
  else if reg1.data == .single && reg2.data == .single then
    let e : Box := ⟨max reg1.extents.x1 reg2.extents.x1, max reg1.extents.y1 reg2.extents.y1,
                    min reg1.extents.x2 reg2.extents.x2, min reg1.extents.y2 reg2.extents.y2⟩
    (true, ⟨e, .single⟩, freeData newReg h)
  else if reg2.data == .single && subsumes reg2.extents reg1.extents then
    copyA c s (al == .first) newReg reg1 h
  else if reg1.data == .single && subsumes reg1.extents reg2.extents then
    copyA c s (al == .second) newReg reg2 h
  else if same12 then
    copyA c s (al == .first) newReg reg1 h
  else
    post (pixmanOpA c s .inter false false al newReg reg1 reg2 h) setExtentsA

/-- the extents computation at the end of pixman_region_union (operands read *after* pixman_op) -/
def unionExtents (al : Alias) (res : Box) (r1 r2 : Box) : Box :=
  let e1 := if al = .first then res else r1
  let e2 := if al = .second then res else r2
  let x1 := min e1.x1 e2.x1
  let e1 := if al = .first then { e1 with x1 := x1 } else e1
  let e2 := if al = .second then { e2 with x1 := x1 } else e2
  let y1 := min e1.y1 e2.y1
  let e1 := if al = .first then { e1 with y1 := y1 } else e1
  let e2 := if al = .second then { e2 with y1 := y1 } else e2
  let x2 := max e1.x2 e2.x2
  let e1 := if al = .first then { e1 with x2 := x2 } else e1
  let e2 := if al = .second then { e2 with x2 := x2 } else e2
  let y2 := max e1.y2 e2.y2
  ⟨x1, y1, x2, y2⟩

/-- pixman_region_union -/
def unionA (c : Cfg) (s : Sched) (same12 : Bool) (al : Alias) (newReg reg1 reg2 : RegionA)
    (h : Heap) : Bool × RegionA × Heap :=
  if same12 then copyA c s (al == .first) newReg reg1 h
  else if reg1.nil then
    if reg1.nar then
      let p := pixmanBreak newReg h
      (false, p.1, p.2)
    else copyA c s (al == .second) newReg reg2 h
  else if reg2.nil then
    if reg2.nar then
      let p := pixmanBreak newReg h
      (false, p.1, p.2)
    else copyA c s (al == .first) newReg reg1 h
  else if reg1.data == .single && subsumes reg1.extents reg2.extents then
    copyA c s (al == .first) newReg reg1 h
  else if reg2.data == .single && subsumes reg2.extents reg1.extents then
    copyA c s (al == .second) newReg reg2 h
  else
    post (pixmanOpA c s .union true true al newReg reg1 reg2 h)
      (fun r => ⟨unionExtents al r.extents reg1.extents reg2.extents, r.data⟩)

/-- pixman_region_subtract; `sameMS`: reg_m and reg_s are the same object;
    `al`: reg_d is reg_m (`first`) / reg_s (`second`) -/
def subtractA (c : Cfg) (s : Sched) (sameMS : Bool) (al : Alias) (regD regM regS : RegionA)
    (h : Heap) : Bool × RegionA × Heap :=
  if regM.nil || regS.nil || !extentCheck regM.extents regS.extents then
    if regS.nar then
      let p := pixmanBreak regD h
      (false, p.1, p.2)
    else copyA c s (al == .first) regD regM h
  else if sameMS then
    (true, ⟨collapse regD.extents, .emptyStatic⟩, freeData regD h)
  else
    post (pixmanOpA c s .sub true false al regD regM regS h) setExtentsA

/-- pixman_region_inverse; `same`: new_reg and reg1 are the same object -/
def inverseA (c : Cfg) (s : Sched) (same : Bool) (newReg reg1 : RegionA) (invRect : Box)
    (h : Heap) : Bool × RegionA × Heap :=
  if reg1.nil || !extentCheck invRect reg1.extents then
    if reg1.nar then
      let p := pixmanBreak newReg h
      (false, p.1, p.2)
    else (true, ⟨invRect, .single⟩, freeData newReg h)
  else
    post (pixmanOpA c s .sub true false (if same then .second else .none) newReg
      ⟨invRect, .single⟩ reg1 h) setExtentsA

def rectOf (c : Cfg) (x y : Int) (w h : Nat) : Box :=
  ⟨wrapS c.bits x, wrapS c.bits y, wrapS c.bits (x + w), wrapS c.bits (y + h)⟩

/-- pixman_region_intersect_rect; `same`: dest and source are the same object -/
def intersectRectA (c : Cfg) (s : Sched) (same : Bool) (dest source : RegionA) (x y : Int) (w h : Nat)
    (hp : Heap) : Bool × RegionA × Heap :=
  let e := rectOf c x y w h
  let r : RegionA := ⟨e, if !goodRect e then .emptyStatic else .single⟩
  intersectA c s false (if same then .first else .none) dest source r hp

/-- pixman_region_union_rect -/
def unionRectA (c : Cfg) (s : Sched) (same : Bool) (dest source : RegionA) (x y : Int) (w h : Nat)
    (hp : Heap) : Bool × RegionA × Heap :=
  let e := rectOf c x y w h
  if !goodRect e then copyA c s same dest source hp
  else unionA c s false (if same then .first else .none) dest source ⟨e, .single⟩ hp

/-- pixman_region_fini -/
def finiA (r : RegionA) (h : Heap) : Heap := freeData r h

/-! ### quick_sort_rects, literally (the order of rectangles with equal keys decides which region
    of step 2 a rectangle lands in, hence the allocation trace) -/

def keyLt (a b : Box) : Bool := a.y1 < b.y1 || (a.y1 == b.y1 && a.x1 < b.x1)

def getB (a : Array Box) (i : Nat) : Box := a.getD i default

/-- `do { r++; i++; } while (i != numRects && key (r) < pivot)`; `i` has been incremented once -/
def scanUp (a : Array Box) (lo n : Nat) (pivot : Box) : Nat → Nat → Nat
  | 0, i => i
  | f + 1, i => if i != n && keyLt (getB a (lo + i)) pivot then scanUp a lo n pivot f (i + 1) else i

/-- `do { r--; j--; } while (pivot < key (r))`; `j` has been decremented once -/
def scanDown (a : Array Box) (lo : Nat) (pivot : Box) : Nat → Nat → Nat
  | 0, j => j
  | f + 1, j => if keyLt pivot (getB a (lo + j)) && j != 0 then scanDown a lo pivot f (j - 1) else j

def partLoop (lo n : Nat) (pivot : Box) : Nat → Array Box → Nat → Nat → Array Box × Nat
  | 0, a, _, j => (a, j)
  | f + 1, a, i, j =>
    let i' := scanUp a lo n pivot n (i + 1)
    let j' := scanDown a lo pivot n (j - 1)
    if i' < j' then partLoop lo n pivot f (a.swapIfInBounds (lo + i') (lo + j')) i' j'
    else (a, j')

def qsortRects : Nat → Array Box → Nat → Nat → Array Box
  | 0, a, _, _ => a
  | f + 1, a, lo, n =>
    if n ≤ 1 then a
    else if n == 2 then
      if keyLt (getB a (lo + 1)) (getB a lo) then a.swapIfInBounds lo (lo + 1) else a
    else
      let a := a.swapIfInBounds lo (lo + n / 2)
      let pivot := getB a lo
      let p := partLoop lo n pivot n a 0 n
      let j := p.2
      let a := p.1.swapIfInBounds lo (lo + j)
      let a := if n - j - 1 > 1 then qsortRects f a (lo + j + 1) (n - j - 1) else a
      if j > 1 then qsortRects f a lo j else a

def quickSortRects (l : List Box) : List Box :=
  (qsortRects (l.length + 1) l.toArray 0 l.length).toList

/-! ### validate / init_rects -/

/-- a region under construction in step 2 of validate: the pure `RI` plus its block -/
structure RIA where
  ri : RI
  blk : Blk
deriving Repr

inductive PlaceRes where
  | placed (r : RIA)
  | reject              -- this region was inappropriate, try the next one
  | fail                -- RECTALLOC_BAIL failed: the region's block has been freed

/-- which block needs one more slot when `box` goes into region `r` (`none`: it is merged into
    ri_box, no slot needed).  New band: COALESCE first, then RECTALLOC_BAIL (reg, 1). -/
def placeNeed (r : RIA) (box : Box) : Option Blk :=
  match r.ri.cur with
  | [] => none
  | rb :: _ =>
    if box.y1 == rb.y1 && box.y2 == rb.y2 then
      if box.x1 ≤ rb.x2 then none else some r.blk
    else
      some (if coalesceMerged r.ri.out r.ri.cur.reverse then
              { r.blk with num := r.blk.num - r.ri.cur.length } else r.blk)

/-- the body of the `for j` loop for one region -/
def placeA (c : Cfg) (s : Sched) (r : RIA) (box : Box) (h : Heap) : PlaceRes × Heap :=
  match r.ri.place box with
  | none => (.reject, h)
  | some ri' =>
    match placeNeed r box with
    | none => (.placed ⟨ri', r.blk⟩, h)
    | some b0 =>
      match addBlk c s b0 1 h with
      | (some b, h') => (.placed ⟨ri', b⟩, h')
      | (none, h') => (.fail, h')

structure VSt where
  ris : List RIA
  cap : Nat                 -- size_ri
  arr : Option Nat          -- the malloc'ed ri[] array, if it left the stack
deriving Repr

inductive ScatterRes where
  | ok (st : VSt)
  | bail (live : List Nat) (arr : Option Nat)   -- blocks still to be freed by the bail path

inductive TryRes where
  | placed (l : List RIA)
  | failed (id : Nat)     -- RECTALLOC_BAIL failed in the region owning block `id` (already freed)
  | nobody

/-- look for a region to append `box` to; `pre` are the regions already tried (reversed) -/
def tryPlace (c : Cfg) (s : Sched) (box : Box) : List RIA → List RIA → Heap → TryRes × Heap
  | _, [], h => (.nobody, h)
  | pre, r :: rs, h =>
    match placeA c s r box h with
    | (.placed r', h') => (.placed (pre.reverse ++ r' :: rs), h')
    | (.fail, h') => (.failed r.blk.id, h')
    | (.reject, h') => tryPlace c s box (r :: pre) rs h'

def blkIds (l : List RIA) : List Nat := l.map (·.blk.id)

/-- `if (size_ri == num_ri)`: double the ri[] array — malloc when it still lives on the stack,
    realloc afterwards; `none`: refused (goto bail) -/
def growRi (s : Sched) (st : VSt) (h : Heap) : Option (Nat × Option Nat) × Heap :=
  if st.cap == st.ris.length then
    match st.arr with
    | none =>
      match h.malloc s with
      | (some id, h') => (some (st.cap * 2, some id), h')
      | (none, h') => (none, h')
    | some id =>
      match h.realloc s id with
      | (true, h') => (some (st.cap * 2, some id), h')
      | (false, h') => (none, h')
  else (some (st.cap, st.arr), h)

/-- "Uh-oh. No regions were appropriate. Create a new one." -/
def newRi (c : Cfg) (s : Sched) (st : VSt) (i : Nat) (box : Box) (h : Heap) : ScatterRes × Heap :=
  match growRi s st h with
  | (none, h') => (.bail (blkIds st.ris) st.arr, h')
  | (some g, h') =>
    let n := (i + (st.ris.length + 1)) / (st.ris.length + 1)
    -- MUST force allocation: data == NULL branch of pixman_rect_alloc
    match allocData c s (n + 1) h' with
    | (some id, h3) =>
      let r : RIA := ⟨{ extents := box, out := ⟨[], []⟩, cur := [box] }, ⟨id, n + 1, 1⟩⟩
      (.ok { ris := st.ris ++ [r], cap := g.1, arr := g.2 }, h3)
    | (none, h3) => (.bail (blkIds st.ris) g.2, h3)

/-- one iteration of the `for i` loop; `i` is the C loop variable (rectangles left incl. this) -/
def scatterStepA (c : Cfg) (s : Sched) (st : VSt) (i : Nat) (box : Box) (h : Heap) : ScatterRes × Heap :=
  match tryPlace c s box [] st.ris h with
  | (.placed l, h') => (.ok { st with ris := l }, h')
  | (.failed dead, h') => (.bail ((blkIds st.ris).erase dead) st.arr, h')
  | (.nobody, h') => newRi c s st i box h'

def scatterA (c : Cfg) (s : Sched) : VSt → List Box → Heap → ScatterRes × Heap
  | st, [], h => (.ok st, h)
  | st, box :: t, h =>
    match scatterStepA c s st (t.length + 1) box h with
    | (.ok st', h') => scatterA c s st' t h'
    | r => r

def freeAll : List Nat → Heap → Heap
  | [], h => h
  | id :: t, h => freeAll t (h.free id)

/-- final pass over one region: COALESCE, and drop the block of a one-rectangle region -/
def finishA (r : RIA) (h : Heap) : RegionA × Heap :=
  let g := r.ri.finish
  match g.data with
  | .heap l =>
    (⟨g.extents, .heap r.blk.id r.blk.size l⟩, h)
  | .single => (⟨g.extents, .single⟩, h.free r.blk.id)
  | d => (⟨g.extents, match d with | .emptyStatic => .emptyStatic | _ => .broken⟩, h.free r.blk.id)

def finishAll : List RIA → Heap → List RegionA × Heap
  | [], h => ([], h)
  | r :: t, h =>
    let p := finishA r h
    let q := finishAll t p.2
    (p.1 :: q.1, q.2)

/-- `pixman_op (reg, reg, hreg, union_o, TRUE, TRUE)`, the extents update and FREE_DATA (hreg) -/
def unionPairA (c : Cfg) (s : Sched) (reg hreg : RegionA) (h : Heap) : Bool × RegionA × Heap :=
  let p := pixmanOpA c s .union true true .first reg reg hreg h
  let e := growExtents ⟨p.2.1.extents, .single⟩ hreg.erase
  (p.1, ⟨e, p.2.1.data⟩, freeData hreg p.2.2)

def zipPairsA (c : Cfg) (s : Sched) : List RegionA → List RegionA → Heap → Bool × List RegionA × Heap
  | r :: rs, g :: gs, h =>
    let p := unionPairA c s r g h
    let q := zipPairsA c s rs gs p.2.2
    (p.1 && q.1, p.2.1 :: q.2.1, q.2.2)
  | _, _, h => (true, [], h)

/-- one round of step 3 -/
def mergeRoundA (c : Cfg) (s : Sched) (ri : List RegionA) (h : Heap) : Bool × List RegionA × Heap :=
  let n := ri.length
  let half := n / 2
  let odd := n % 2
  let keep := ri.take (half + odd)
  let hs := ri.drop (half + odd)
  let p := zipPairsA c s (keep.drop odd) hs h
  (p.1, keep.take odd ++ p.2.1, p.2.2)

def regIds (l : List RegionA) : List Nat := (l.map RegionA.ids).flatten

/-- step 3; `none`: a union failed, everything left has been freed (bail) -/
def mergeAllA (c : Cfg) (s : Sched) : Nat → List RegionA → Heap → Option (List RegionA) × Heap
  | 0, ri, h => (some ri, h)
  | fuel + 1, ri, h =>
    if ri.length > 1 then
      let p := mergeRoundA c s ri h
      if p.1 then mergeAllA c s fuel p.2.1 p.2.2
      else (none, freeAll (regIds p.2.1) p.2.2)
    else (some ri, h)

/-- validate on a malloc'ed block `id` of capacity `size` holding `l` (≥ 2 rectangles) whose
    extents have x1 ≥ x2 (as init_rects and translate set them) -/
def validateA (c : Cfg) (s : Sched) (id size : Nat) (l : List Box) (h : Heap) : Bool × RegionA × Heap :=
  match quickSortRects l with
  | [] => (true, initA, h)      -- not reached: callers pass ≥ 2 rectangles
  | b :: t =>
    let r0 : RIA := ⟨{ extents := b, out := ⟨[], []⟩, cur := [b] }, ⟨id, size, 1⟩⟩
    match scatterA c s { ris := [r0], cap := 64, arr := none } t h with
    | (.bail ids arr, h') => (false, brkA, freeOld arr (freeAll ids h'))
    | (.ok st, h') =>
      let f := finishAll st.ris h'
      match mergeAllA c s f.1.length f.1 f.2 with
      | (none, h'') => (false, brkA, freeOld st.arr h'')
      | (some (r :: _), h'') => (true, r, freeOld st.arr h'')
      | (some [], h'') => (true, initA, freeOld st.arr h'')

/-- pixman_region_init_rects (the destination is uninitialised storage) -/
def initRectsA (c : Cfg) (s : Sched) (boxes : List Box) (h : Heap) : Bool × RegionA × Heap :=
  match boxes with
  | [b] =>
    let w := ((b.x2 - b.x1) % (2 ^ 32 : Int)).toNat
    let hh := ((b.y2 - b.y1) % (2 ^ 32 : Int)).toNat
    let r := initRect c b.x1 b.y1 w hh
    (true, ⟨r.extents, match r.data with | .single => .single | _ => .emptyStatic⟩, h)
  | [] => (true, initA, h)
  | _ =>
    match allocData c s boxes.length h with
    | (none, h') => (false, brkA, h')
    | (some id, h') =>
      let l := boxes.filter fun b => !(b.x1 ≥ b.x2 || b.y1 ≥ b.y2)
      match l with
      | [] => (true, initA, h'.free id)
      | [b] => (true, ⟨b, .single⟩, h'.free id)
      | _ => validateA c s id boxes.length l h'

/-! ### translate -/

/-- the boxes of the slow path of translate: moved, dropped when entirely out of range, clamped -/
def clampList (c : Cfg) (dx dy : Int) (l : List Box) : List Box :=
  l.filterMap fun b =>
    let bx1 := b.x1 + dx
    let by1 := b.y1 + dy
    let bx2 := b.x2 + dx
    let by2 := b.y2 + dy
    if outOfRange c bx1 by1 bx2 by2 then none
    else some (clampBox c bx1 by1 bx2 by2)

/-- the end of the slow path on the block `id`: 0 / 1 / several boxes left (the latter re-validated) -/
def translateTail (c : Cfg) (s : Sched) (e : Box) (id sz : Nat) (l' : List Box) (h : Heap) : RegionA × Heap :=
  match l' with
  | [] => (⟨collapse e, .emptyStatic⟩, h.free id)
  | [b] => (⟨b, .single⟩, h.free id)
  | _ =>
    let p := validateA c s id sz l' h
    (p.2.1, p.2.2)

/-- pixman_region_translate (void): a failure inside validate leaves the region broken -/
def translateA (c : Cfg) (s : Sched) (r : RegionA) (dx dy : Int) (h : Heap) : RegionA × Heap :=
  let x1 := r.extents.x1 + dx
  let y1 := r.extents.y1 + dy
  let x2 := r.extents.x2 + dx
  let y2 := r.extents.y2 + dy
  if orSign [x1 - c.min, y1 - c.min, c.max - x2, c.max - y2] ≥ 0 then
    let mv (b : Box) : Box :=
      ⟨wrapS c.bits (b.x1 + dx), wrapS c.bits (b.y1 + dy), wrapS c.bits (b.x2 + dx), wrapS c.bits (b.y2 + dy)⟩
    match r.data with
    | .heap id sz l => (⟨⟨x1, y1, x2, y2⟩, .heap id sz (l.map mv)⟩, h)
    | d => (⟨⟨x1, y1, x2, y2⟩, d⟩, h)
  else if outOfRange c x1 y1 x2 y2 then
    if r.nar then (⟨collapse r.extents, .broken⟩, h)
    else (⟨collapse r.extents, .emptyStatic⟩, freeData r h)
  else
    let e := clampBox c x1 y1 x2 y2
    match r.data with
    | .heap id sz l =>
      if l.isEmpty then (⟨e, r.data⟩, h)
      else translateTail c s e id sz (clampList c dx dy l) h
    | d => (⟨e, d⟩, h)

/-! ### init_from_image -/

/-- capacity events of one bitmap row (mirrors `Region.imgRow`) -/
def imgRowEv (st : ImgSt) (h : Int) (row : List Bool) : List Ev :=
  let runs := rowRuns row
  let line := runs.map fun p => Box.mk p.1 h p.2 (h + 1)
  let same := st.havePrev && st.prev.length != 0 && st.prev.length == line.length &&
    sameSpans st.prev line
  List.replicate line.length (.add 1) ++ (if same then [.sub line.length] else [])

def imgRowsEv (st : ImgSt) (h : Int) : List (List Bool) → List Ev
  | [] => []
  | r :: t => imgRowEv st h r ++ imgRowsEv (imgRow st h r) (h + 1) t

/-- events on a region that starts with the static empty block: the first demand allocates -/
def runEventsFromEmpty (c : Cfg) (s : Sched) : List Ev → Heap → Option (Option Blk) × Heap
  -- some none: still the static block; some (some b): heap; none: failed (broken)
  | [], h => (some none, h)
  | .sub _ :: t, h => runEventsFromEmpty c s t h
  | .add n :: t, h =>
    if n == 0 then runEventsFromEmpty c s t h else
    match allocData c s n h with
    | (none, h') => (none, h')
    | (some id, h') =>
      match runEvents c s t ⟨id, n, n⟩ h' with
      | (some b, h'') => (some (some b), h'')
      | (none, h'') => (none, h'')

/-- pixman_region_init_from_image (void) on an a1 image given as rows of `width` bits -/
def initFromImageA (c : Cfg) (s : Sched) (width : Nat) (rows : List (List Bool)) (h : Heap) :
    RegionA × Heap :=
  let ev := imgRowsEv ⟨[], [], false, (width : Int) - 1, 0⟩ 0 rows
  match runEventsFromEmpty c s ev h with
  | (none, h') => (brkA, h')
  | (some none, h') => (⟨(initFromImage width rows).extents, .emptyStatic⟩, h')
  | (some (some b), h') =>
    let g := initFromImage width rows
    match g.data with
    | .heap l => (⟨g.extents, .heap b.id b.size l⟩, h')
    | .single => (⟨g.extents, .single⟩, h'.free b.id)
    | _ => (⟨g.extents, .emptyStatic⟩, h'.free b.id)   -- unreachable: a block exists only if a rectangle was added

/-! ### pixman-utils.c conversions -/

/-- pixman_region16_copy_from_region32: the temporary box array is always malloc'ed; when that
    fails `dst` is left as it was (FALSE is returned) -/
def region16From32A (s : Sched) (dst src : RegionA) (h : Heap) : Bool × RegionA × Heap :=
  match h.malloc s with
  | (none, h') => (false, dst, h')
  | (some tmp, h') =>
    let boxes := src.rects.map fun b => (⟨wrapS 16 b.x1, wrapS 16 b.y1, wrapS 16 b.x2, wrapS 16 b.y2⟩ : Box)
    let p := initRectsA c16 s boxes (finiA dst h')
    (p.1, p.2.1, p.2.2.free tmp)

/-- pixman_region32_copy_from_region16: up to 16 boxes live on the stack -/
def region32From16A (s : Sched) (dst src : RegionA) (h : Heap) : Bool × RegionA × Heap :=
  if src.rects.length > 16 then
    match h.malloc s with
    | (none, h') => (false, dst, h')
    | (some tmp, h') =>
      let p := initRectsA c32 s src.rects (finiA dst h')
      (p.1, p.2.1, p.2.2.free tmp)
  else initRectsA c32 s src.rects (finiA dst h)

/-! ### constructors and setters of other objects, as allocation sequences (F4)

  Every constructor below has the shape "allocate b₀, b₁, …, bₘ₋₁ in this order; when bⱼ is
  refused free bⱼ₋₁ … b₀ and return NULL".  `seqAlloc m` is that shape. -/

def seqAllocGo (s : Sched) : Nat → List Nat → Heap → Option (List Nat) × Heap
  | 0, got, h => (some got, h)
  | m + 1, got, h =>
    match h.malloc s with
    | (some id, h') => seqAllocGo s m (id :: got) h'
    | (none, h') => (none, freeAll got h')

/-- returns the blocks of the new object (newest first) or `none` (= NULL) -/
def seqAlloc (s : Sched) (m : Nat) (h : Heap) : Option (List Nat) × Heap := seqAllocGo s m [] h

inductive Ctor where
  | bitsOwn        -- pixman_image_create_bits (.., NULL, ..) with w,h > 0: image, pixel buffer (calloc)
  | bitsOwnNoClear -- pixman_image_create_bits_no_clear: image, pixel buffer (malloc)
  | bitsUser       -- caller supplied bits, or an image without pixels: image only
  | solid          -- pixman_image_create_solid_fill
  | gradient       -- linear / radial / conical: image, stops array (n+2 stops)
  | glyphCache     -- pixman_glyph_cache_create
  | glyphInsert    -- pixman_glyph_cache_insert: glyph_t, image, pixel buffer
  | filter         -- pixman_filter_create_separable_convolution: the parameter array
deriving Repr, DecidableEq

def Ctor.allocs : Ctor → Nat
  | .bitsOwn => 2 | .bitsOwnNoClear => 2 | .bitsUser => 1 | .solid => 1 | .gradient => 2
  | .glyphCache => 1 | .glyphInsert => 3 | .filter => 1

def construct (s : Sched) (k : Ctor) (h : Heap) : Option (List Nat) × Heap := seqAlloc s k.allocs h

/-- unref / destroy / free of the constructed object -/
def destroy (blocks : List Nat) (h : Heap) : Heap := freeAll blocks h

/-- a setter that replaces an owned array by a freshly allocated copy
    (pixman_image_set_filter; pixman_image_set_transform when no matrix is held yet):
    a refused request returns FALSE and leaves the object as it was -/
def setOwned (s : Sched) (old : Option Nat) (reuse : Bool) (h : Heap) : Bool × Option Nat × Heap :=
  match old, reuse with
  | some id, true => (true, some id, h)            -- set_transform overwrites the held matrix
  | _, _ =>
    match h.malloc s with
    | (none, h') => (false, old, h')
    | (some id, h') => (true, some id, freeOld old h')

end Pixman.Model.RegionAlloc

import Pixman.Model.Lanes
/-! Per-pixel model of `pixman-combine32.c` (the 8-bit "narrow" combiners): one Lean function per
C combiner, C control flow and early-outs kept.  Pixels are `Nat < 2^32` (a8r8g8b8), a unified
mask is `Option Nat` (`none` = the `mask == NULL` case), the result is the new destination
pixel.  Core Lean only. -/
namespace Pixman.Combine32
open Pixman.Arith Pixman.Lanes

/-! ### component-alpha helpers (return the new `(*src, *mask)`) -/

/-- `combine_mask_ca (&s, &m)`. -/
def combineMaskCa (s m : Nat) : Nat × Nat :=
  let a := m
  if a = 0 then (0, m)
  else
    let x := s
    if a = 0xffffffff then
      let x := x >>> 24
      let x := x ||| ((x <<< 8) % 4294967296)
      let x := x ||| ((x <<< 16) % 4294967296)
      (s, x)
    else
      let xa := (x >>> 24) % 65536
      let x := un8x4MulUn8x4 x a
      let a := un8x4MulUn8 a xa
      (x, a)

/-- `combine_mask_value_ca (&s, &m)` (mask is `const`; returns the new `*src`). -/
def combineMaskValueCa (s m : Nat) : Nat :=
  let a := m
  if a = 0 then 0
  else if a = 0xffffffff then s
  else un8x4MulUn8x4 s a

/-- `combine_mask_alpha_ca (&s, &m)` (source is `const`; returns the new `*mask`). -/
def combineMaskAlphaCa (s m : Nat) : Nat :=
  let a := m
  if a = 0 then m
  else
    let x := s >>> 24
    if x = 0xff then m
    else if a = 0xffffffff then
      let x := x ||| ((x <<< 8) % 4294967296)
      let x := x ||| ((x <<< 16) % 4294967296)
      x
    else un8x4MulUn8 a x

/-- `combine_mask (src, mask, i)`. -/
def combineMask (s : Nat) (mask : Option Nat) : Nat :=
  match mask with
  | none => s
  | some mk =>
    let m := mk >>> 24
    if m = 0 then 0 else un8x4MulUn8 s m

/-! ### unified-alpha Porter-Duff / ADD -/

def combineClear (_s : Nat) (_mask : Option Nat) (_d : Nat) : Nat := 0
def combineDst (_s : Nat) (_mask : Option Nat) (d : Nat) : Nat := d

def combineSrcU (s : Nat) (mask : Option Nat) (_d : Nat) : Nat :=
  match mask with
  | none => s
  | some _ => combineMask s mask

def combineOverU (s : Nat) (mask : Option Nat) (d : Nat) : Nat :=
  match mask with
  | none =>
    let a := alpha8 s
    if a = 0xff then s
    else if s ≠ 0 then
      let ia := a ^^^ 0xff
      un8x4MulUn8AddUn8x4 d ia s
    else d
  | some mk =>
    let m := alpha8 mk
    if m = 0xff then
      let a := alpha8 s
      if a = 0xff then s
      else if s ≠ 0 then
        let ia := a ^^^ 0xff
        un8x4MulUn8AddUn8x4 d ia s
      else d
    else if m ≠ 0 then
      if s ≠ 0 then
        let s := un8x4MulUn8 s m
        un8x4MulUn8AddUn8x4 d (alpha8 (not32 s)) s
      else d
    else d

def combineOverReverseU (s : Nat) (mask : Option Nat) (d : Nat) : Nat :=
  let s := combineMask s mask
  let ia := alpha8 (not32 d)
  un8x4MulUn8AddUn8x4 s ia d

def combineInU (s : Nat) (mask : Option Nat) (d : Nat) : Nat :=
  let s := combineMask s mask
  let a := alpha8 d
  un8x4MulUn8 s a

def combineInReverseU (s : Nat) (mask : Option Nat) (d : Nat) : Nat :=
  let s := combineMask s mask
  let a := alpha8 s
  un8x4MulUn8 d a

def combineOutU (s : Nat) (mask : Option Nat) (d : Nat) : Nat :=
  let s := combineMask s mask
  let a := alpha8 (not32 d)
  un8x4MulUn8 s a

def combineOutReverseU (s : Nat) (mask : Option Nat) (d : Nat) : Nat :=
  let s := combineMask s mask
  let a := alpha8 (not32 s)
  un8x4MulUn8 d a

def combineAtopU (s : Nat) (mask : Option Nat) (d : Nat) : Nat :=
  let s := combineMask s mask
  let destA := alpha8 d
  let srcIa := alpha8 (not32 s)
  un8x4MulUn8AddUn8x4MulUn8 s destA d srcIa

def combineAtopReverseU (s : Nat) (mask : Option Nat) (d : Nat) : Nat :=
  let s := combineMask s mask
  let srcA := alpha8 s
  let destIa := alpha8 (not32 d)
  un8x4MulUn8AddUn8x4MulUn8 s destIa d srcA

def combineXorU (s : Nat) (mask : Option Nat) (d : Nat) : Nat :=
  let s := combineMask s mask
  let srcIa := alpha8 (not32 s)
  let destIa := alpha8 (not32 d)
  un8x4MulUn8AddUn8x4MulUn8 s destIa d srcIa

def combineAddU (s : Nat) (mask : Option Nat) (d : Nat) : Nat :=
  let s := combineMask s mask
  un8x4AddUn8x4 d s

/-! ### component-alpha Porter-Duff / ADD -/

def combineClearCa (_s _m _d : Nat) : Nat := 0

def combineSrcCa (s m _d : Nat) : Nat := combineMaskValueCa s m

def combineOverCa (s m d : Nat) : Nat :=
  let (s, m) := combineMaskCa s m
  let a := not32 m
  if a ≠ 0 then un8x4MulUn8x4AddUn8x4 d a s else s

def combineOverReverseCa (s m d : Nat) : Nat :=
  let a := (not32 d) >>> 24
  if a ≠ 0 then
    let s := un8x4MulUn8x4 s m
    un8x4MulUn8AddUn8x4 s a d
  else d

def combineInCa (s m d : Nat) : Nat :=
  let a := (d >>> 24) % 65536
  if a ≠ 0 then
    let s := combineMaskValueCa s m
    if a ≠ 0xff then un8x4MulUn8 s a else s
  else 0

def combineInReverseCa (s m d : Nat) : Nat :=
  let m := combineMaskAlphaCa s m
  let a := m
  if a ≠ 0xffffffff then
    if a ≠ 0 then un8x4MulUn8x4 d a else 0
  else d

def combineOutCa (s m d : Nat) : Nat :=
  let a := ((not32 d) >>> 24) % 65536
  if a ≠ 0 then
    let s := combineMaskValueCa s m
    if a ≠ 0xff then un8x4MulUn8 s a else s
  else 0

def combineOutReverseCa (s m d : Nat) : Nat :=
  let m := combineMaskAlphaCa s m
  let a := not32 m
  if a ≠ 0xffffffff then
    if a ≠ 0 then un8x4MulUn8x4 d a else 0
  else d

def combineAtopCa (s m d : Nat) : Nat :=
  let as := (d >>> 24) % 65536
  let (s, m) := combineMaskCa s m
  let ad := not32 m
  un8x4MulUn8x4AddUn8x4MulUn8 d ad s as

def combineAtopReverseCa (s m d : Nat) : Nat :=
  let as := ((not32 d) >>> 24) % 65536
  let (s, m) := combineMaskCa s m
  let ad := m
  un8x4MulUn8x4AddUn8x4MulUn8 d ad s as

def combineXorCa (s m d : Nat) : Nat :=
  let as := ((not32 d) >>> 24) % 65536
  let (s, m) := combineMaskCa s m
  let ad := not32 m
  un8x4MulUn8x4AddUn8x4MulUn8 d ad s as

def combineAddCa (s m d : Nat) : Nat :=
  let s := combineMaskValueCa s m
  un8x4AddUn8x4 d s

/-! ### integer PDF blend modes -/

def combineMultiplyU (s : Nat) (mask : Option Nat) (d : Nat) : Nat :=
  let s := combineMask s mask
  let ss := s
  let srcIa := alpha8 (not32 s)
  let destIa := alpha8 (not32 d)
  let ss := un8x4MulUn8AddUn8x4MulUn8 ss destIa d srcIa
  let d := un8x4MulUn8x4 d s
  un8x4AddUn8x4 d ss

def combineMultiplyCa (s m d : Nat) : Nat :=
  let r := d
  let destIa := alpha8 (not32 d)
  let (s, m) := combineMaskCa s m
  let r := un8x4MulUn8x4AddUn8x4MulUn8 r (not32 m) s destIa
  let d := un8x4MulUn8x4 d s
  un8x4AddUn8x4 r d

/-- value of an `int`/`int32_t` expression stored into a `uint32_t`. -/
def toU32 (i : Int) : Nat := (i % 4294967296).toNat
/-- value of a `uint32_t` returned as `int32_t` (gcc: modular). -/
def toI32 (n : Nat) : Int :=
  if n % 4294967296 < 2147483648 then (n % 4294967296 : Nat) else (n % 4294967296 : Nat) - 4294967296

/-- `CLAMP (v, low, high)` on a `uint32_t`. -/
def clampU (v low high : Nat) : Nat :=
  let v := if v < low then low else v
  if v > high then high else v

def blendScreen (d ad s as : Int) : Int := s * ad + d * as - s * d
def blendOverlay (d ad s as : Int) : Int :=
  let r : Nat := if 2 * d < ad then toU32 (2 * s * d) else toU32 (as * ad - 2 * (ad - d) * (as - s))
  toI32 r
def blendDarken (d ad s as : Int) : Int :=
  let s := ad * s
  let d := as * d
  if s > d then d else s
def blendLighten (d ad s as : Int) : Int :=
  let s := ad * s
  let d := as * d
  if s > d then s else d
def blendHardLight (d ad s as : Int) : Int :=
  if 2 * s < as then 2 * s * d else as * ad - 2 * (ad - d) * (as - s)
def blendDifference (d ad s as : Int) : Int :=
  let das := d * as
  let sad := s * ad
  if sad < das then das - sad else sad - das
def blendExclusion (d ad s as : Int) : Int := s * ad + d * as - 2 * d * s

/-- body of `PDF_SEPARABLE_BLEND_MODE(name)`, unified: `combine_<name>_u`. -/
def pdfSeparableU (blend : Int → Int → Int → Int → Int) (s : Nat) (mask : Option Nat) (d : Nat) : Nat :=
  let s := combineMask s mask
  let sa := alpha8 s % 256
  let isa := 255 - sa          -- uint8_t isa = ~sa
  let da := alpha8 d % 256
  let ida := 255 - da
  let ra := toU32 ((da : Int) * 0xff + (sa : Int) * 0xff - (sa : Int) * (da : Int))
  let rr := (isa * red8 d + ida * red8 s) % 4294967296
  let rg := (isa * green8 d + ida * green8 s) % 4294967296
  let rb := (isa * blue8 d + ida * blue8 s) % 4294967296
  let rr := toU32 ((rr : Int) + blend (red8 d) da (red8 s) sa)
  let rg := toU32 ((rg : Int) + blend (green8 d) da (green8 s) sa)
  let rb := toU32 ((rb : Int) + blend (blue8 d) da (blue8 s) sa)
  let ra := clampU ra 0 (255 * 255)
  let rr := clampU rr 0 (255 * 255)
  let rg := clampU rg 0 (255 * 255)
  let rb := clampU rb 0 (255 * 255)
  let ra := divOneUn8 ra
  let rr := divOneUn8 rr
  let rg := divOneUn8 rg
  let rb := divOneUn8 rb
  ((ra <<< 24) % 4294967296) ||| ((rr <<< 16) % 4294967296) ||| ((rg <<< 8) % 4294967296) ||| rb

/-- body of `PDF_SEPARABLE_BLEND_MODE(name)`, component alpha: `combine_<name>_ca`. -/
def pdfSeparableCa (blend : Int → Int → Int → Int → Int) (s m d : Nat) : Nat :=
  let da := alpha8 d % 256
  let ida := 255 - da
  let (s, m) := combineMaskCa s m
  let ira := 255 - red8 m      -- uint8_t ira = ~RED_8 (m)
  let iga := 255 - green8 m
  let iba := 255 - blue8 m
  let ra := toU32 ((da : Int) * 0xff + (alpha8 s : Int) * 0xff - (alpha8 s : Int) * (da : Int))
  let rr := (ira * red8 d + ida * red8 s) % 4294967296
  let rg := (iga * green8 d + ida * green8 s) % 4294967296
  let rb := (iba * blue8 d + ida * blue8 s) % 4294967296
  let rr := toU32 ((rr : Int) + blend (red8 d) da (red8 s) (red8 m))
  let rg := toU32 ((rg : Int) + blend (green8 d) da (green8 s) (green8 m))
  let rb := toU32 ((rb : Int) + blend (blue8 d) da (blue8 s) (blue8 m))
  let ra := clampU ra 0 (255 * 255)
  let rr := clampU rr 0 (255 * 255)
  let rg := clampU rg 0 (255 * 255)
  let rb := clampU rb 0 (255 * 255)
  let ra := divOneUn8 ra
  let rr := divOneUn8 rr
  let rg := divOneUn8 rg
  let rb := divOneUn8 rb
  ((ra <<< 24) % 4294967296) ||| ((rr <<< 16) % 4294967296) ||| ((rg <<< 8) % 4294967296) ||| rb

/-! ### dispatch: `imp->combine_32[op]` / `imp->combine_32_ca[op]` as set up by
`_pixman_setup_combiner_functions_32` (operator numbers of `pixman_op_t`).  `none` = no 8-bit
combiner exists for the operator (it runs in the float pipeline, or is `DST`, which the no-op
implementation serves before any combiner is looked up). -/

def combineU? (op : Nat) : Option (Nat → Option Nat → Nat → Nat) :=
  match op with
  | 0x00 => some combineClear
  | 0x01 => some combineSrcU
  | 0x02 => some combineDst
  | 0x03 => some combineOverU
  | 0x04 => some combineOverReverseU
  | 0x05 => some combineInU
  | 0x06 => some combineInReverseU
  | 0x07 => some combineOutU
  | 0x08 => some combineOutReverseU
  | 0x09 => some combineAtopU
  | 0x0a => some combineAtopReverseU
  | 0x0b => some combineXorU
  | 0x0c => some combineAddU
  | 0x30 => some combineMultiplyU
  | 0x31 => some (pdfSeparableU blendScreen)
  | 0x32 => some (pdfSeparableU blendOverlay)
  | 0x33 => some (pdfSeparableU blendDarken)
  | 0x34 => some (pdfSeparableU blendLighten)
  | 0x37 => some (pdfSeparableU blendHardLight)
  | 0x39 => some (pdfSeparableU blendDifference)
  | 0x3a => some (pdfSeparableU blendExclusion)
  | _ => none

def combineCa? (op : Nat) : Option (Nat → Nat → Nat → Nat) :=
  match op with
  | 0x00 => some combineClearCa
  | 0x01 => some combineSrcCa
  | 0x02 => some (fun _ _ d => d)      -- combine_32_ca[DST] is unset; DST never reaches a combiner
  | 0x03 => some combineOverCa
  | 0x04 => some combineOverReverseCa
  | 0x05 => some combineInCa
  | 0x06 => some combineInReverseCa
  | 0x07 => some combineOutCa
  | 0x08 => some combineOutReverseCa
  | 0x09 => some combineAtopCa
  | 0x0a => some combineAtopReverseCa
  | 0x0b => some combineXorCa
  | 0x0c => some combineAddCa
  | 0x30 => some combineMultiplyCa
  | 0x31 => some (pdfSeparableCa blendScreen)
  | 0x32 => some (pdfSeparableCa blendOverlay)
  | 0x33 => some (pdfSeparableCa blendDarken)
  | 0x34 => some (pdfSeparableCa blendLighten)
  | 0x37 => some (pdfSeparableCa blendHardLight)
  | 0x39 => some (pdfSeparableCa blendDifference)
  | 0x3a => some (pdfSeparableCa blendExclusion)
  | _ => none

end Pixman.Combine32

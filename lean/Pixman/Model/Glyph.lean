/-
  Model of the glyph cache of pixman/pixman-glyph.c: open-addressing hash table with tombstones,
  counters, freeze count and MRU list.  Parametric in the table size (`HASH_SIZE`, a power of two
  in the C code), the water marks and the hash function.  Hand-written; tied to the code by the
  correspondence check `harness/glyph.c` <-> `pixdrv glyph` (white-box: the harness includes
  pixman-glyph.c with the PIXMAN_VERIF water-mark hook so that small tables are enumerated).
-/
namespace Pixman.Glyph

/-- a cached glyph: `id` identifies the `glyph_t` object (the insertion that created it) -/
structure G where
  id : Nat
  font : Nat
  key : Nat
deriving Repr, DecidableEq, Inhabited

inductive Slot where
  | empty            -- NULL
  | tomb             -- TOMBSTONE
  | entry (g : G)
deriving Repr, DecidableEq, Inhabited

structure Params where
  hashSize : Nat      -- HASH_SIZE = 2 * N_GLYPHS_HIGH_WATER
  high : Nat          -- N_GLYPHS_HIGH_WATER
  low : Nat           -- N_GLYPHS_LOW_WATER
deriving Repr

structure Cache where
  table : List Slot          -- length = hashSize
  nGlyphs : Int
  nTomb : Int
  freeze : Int
  mru : List G               -- head = most recently used; tail end is evicted first
  clock : Nat                -- number of operations applied so far: names the next glyph object
deriving Repr

def Slot.isEmpty : Slot → Bool | .empty => true | _ => false
def Slot.isTomb : Slot → Bool | .tomb => true | _ => false

def create (p : Params) : Cache :=
  { table := List.replicate p.hashSize .empty, nGlyphs := 0, nTomb := 0, freeze := 0, mru := [], clock := 0 }

def Cache.get (c : Cache) (p : Params) (i : Nat) : Slot := c.table.getD (i % p.hashSize) .empty
def Cache.set (c : Cache) (p : Params) (i : Nat) (s : Slot) : Cache :=
  { c with table := c.table.set (i % p.hashSize) s }

/-- lookup_glyph: probe from `idx`; `none` = the fuel ran out (the C loop would still be running) -/
def lookupFrom (p : Params) (c : Cache) (font key : Nat) : Nat → Nat → Option (Option G)
  | 0, _ => none
  | fuel + 1, idx =>
    match c.get p idx with
    | .empty => some none
    | .tomb => lookupFrom p c font key fuel (idx + 1)
    | .entry g => if g.font = font ∧ g.key = key then some (some g)
                  else lookupFrom p c font key fuel (idx + 1)

def lookup (p : Params) (h : Nat → Nat → Nat) (c : Cache) (font key : Nat) : Option (Option G) :=
  lookupFrom p c font key p.hashSize (h font key)

/-- insert_glyph: first slot from `idx` that is NULL or TOMBSTONE -/
def findFree (p : Params) (c : Cache) : Nat → Nat → Option Nat
  | 0, _ => none
  | fuel + 1, idx =>
    match c.get p idx with
    | .entry _ => findFree p c fuel (idx + 1)
    | _ => some idx

def insertGlyph (p : Params) (h : Nat → Nat → Nat) (c : Cache) (g : G) : Option Cache :=
  match findFree p c p.hashSize (h g.font g.key) with
  | none => none            -- table full: the C loop never terminates
  | some i =>
    let c1 := if (c.get p i).isTomb then { c with nTomb := c.nTomb - 1 } else c
    some ({ c1 with nGlyphs := c1.nGlyphs + 1 }.set p i (.entry g))

/-- position of glyph object `g` on its probe path -/
def findGlyph (p : Params) (c : Cache) (g : G) : Nat → Nat → Option Nat
  | 0, _ => none
  | fuel + 1, idx => if c.get p idx = .entry g then some idx else findGlyph p c g fuel (idx + 1)

/-- the backward tombstone-elimination walk of remove_glyph (idx counts down; `idx + hashSize`
    keeps it a natural number, the table index is taken modulo hashSize) -/
def clearTombs (p : Params) : Nat → Cache → Nat → Cache
  | 0, c, _ => c
  | fuel + 1, c, idx =>
    if (c.get p idx).isTomb then
      clearTombs p fuel ({ c with nTomb := c.nTomb - 1 }.set p idx .empty) (idx + p.hashSize - 1)
    else c

def removeGlyph (p : Params) (h : Nat → Nat → Nat) (c : Cache) (g : G) : Option Cache :=
  match findGlyph p c g p.hashSize (h g.font g.key) with
  | none => none
  | some i =>
    let c1 := { c with nTomb := c.nTomb + 1, nGlyphs := c.nGlyphs - 1 }.set p i .tomb
    if (c1.get p (i + 1)).isEmpty then some (clearTombs p p.hashSize c1 i) else some c1

/-- free_glyph: unlink from the MRU list -/
def unlink (c : Cache) (g : G) : Cache := { c with mru := c.mru.filter (· ≠ g) }

/-- clear_table -/
def clearTable (p : Params) (c : Cache) : Cache :=
  { c with table := List.replicate p.hashSize .empty, nGlyphs := 0, nTomb := 0, mru := [] }

/-- eviction loop of thaw: remove least recently used glyphs while above the low-water mark -/
def evict (p : Params) (h : Nat → Nat → Nat) : Nat → Cache → Option Cache
  | 0, c => some c
  | fuel + 1, c =>
    if c.nGlyphs > (p.low : Int) then
      match c.mru.getLast? with
      | none => none          -- counter says glyphs exist but the list is empty: C dereferences the list head
      | some g =>
        match removeGlyph p h c g with
        | none => none
        | some c1 => evict p h fuel (unlink c1 g)
    else some c

inductive Res where
  | unit
  | hang                        -- the C code would not terminate / dereference garbage
  | refused                     -- insert returned NULL
  | inserted (g : G)
  | found (g : Option G)
deriving Repr, DecidableEq

/-- the capacity test of pixman_glyph_cache_insert -/
def full (p : Params) (c : Cache) : Bool := c.nGlyphs + c.nTomb ≥ (p.hashSize : Int) - 1

inductive Op where
  | freeze | thaw
  | insert (font key : Nat)
  | lookup (font key : Nat)
  | remove (font key : Nat)
  | touch (font key : Nat)      -- glyph drawn: moved to the front of the MRU list
  | insertFail (font key : Nat) -- insert whose private image copy cannot be allocated
deriving Repr, DecidableEq

/-- one API call (without the clock tick) -/
def stepCore (p : Params) (h : Nat → Nat → Nat) (c : Cache) : Op → Cache × Res
  | .freeze => ({ c with freeze := c.freeze + 1 }, .unit)
  | .thaw =>
    let c := { c with freeze := c.freeze - 1 }
    if c.freeze = 0 ∧ c.nGlyphs + c.nTomb > (p.high : Int) then
      let c := if c.nTomb > (p.high : Int) then clearTable p c else c
      match evict p h (p.hashSize + 1) c with
      | some c => (c, .unit)
      | none => (c, .hang)
    else (c, .unit)
  | .insert font key =>
    if c.freeze ≤ 0 then (c, .refused)
    else if full p c then (c, .refused)
    else
      let g : G := ⟨c.clock, font, key⟩
      match insertGlyph p h { c with mru := g :: c.mru } g with
      | some c => (c, .inserted g)
      | none => (c, .hang)
  | .lookup font key =>
    match lookup p h c font key with
    | some r => (c, .found r)
    | none => (c, .hang)
  | .remove font key =>
    match lookup p h c font key with
    | none => (c, .hang)
    | some none => (c, .unit)
    | some (some g) =>
      match removeGlyph p h c g with
      | some c => (unlink c g, .unit)
      | none => (c, .hang)
  | .touch font key =>
    match lookup p h c font key with
    | some (some g) => ({ c with mru := g :: c.mru.filter (· ≠ g) }, .unit)
    | some none => (c, .unit)
    | none => (c, .hang)
  | .insertFail _font _key =>
    -- pixman_glyph_cache_insert when pixman_image_create_bits (the private copy) returns NULL:
    -- freeze test, capacity test, malloc of the glyph_t, then `free (glyph); return NULL;` —
    -- the failure path is taken BEFORE the MRU prepend and before insert_glyph, so neither the
    -- table, nor the counters, nor the MRU list have been touched
    if c.freeze ≤ 0 then (c, .refused)
    else if full p c then (c, .refused)
    else (c, .refused)

/-- one API call; the glyph object created by the n-th call of a history is named n -/
def step (p : Params) (h : Nat → Nat → Nat) (c : Cache) (o : Op) : Cache × Res :=
  let r := stepCore p h c o
  ({ r.1 with clock := c.clock + 1 }, r.2)

def run (p : Params) (h : Nat → Nat → Nat) : Cache → List Op → Cache × List Res
  | c, [] => (c, [])
  | c, o :: os =>
    let r := step p h c o
    match r.2 with
    | .hang => (r.1, [.hang])
    | _ =>
      let rest := run p h r.1 os
      (rest.1, r.2 :: rest.2)

/-- Thomas Wang's hash as in `hash()`, on 64-bit `size_t`, truncated to `unsigned int` -/
def wangHash (font key : Nat) : Nat :=
  let m : Nat := 2 ^ 64
  let k := (font + key) % m
  let k := ((k * 2 ^ 15) % m + m - k + m - 1) % m
  let k := k ^^^ (k / 2 ^ 12)
  let k := (k + (k * 4) % m) % m
  let k := k ^^^ (k / 2 ^ 4)
  let k := (k + (k * 8) % m + (k * 2 ^ 11) % m) % m
  let k := k ^^^ (k / 2 ^ 16)
  k % 2 ^ 32

end Pixman.Glyph

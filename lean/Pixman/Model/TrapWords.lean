import Pixman.Model.Format
import Pixman.Model.Trap
/-!
  The row bodies of the trapezoid rasteriser on memory: `rasterize_edges_1/4` (pixman-edge-imp.h) and
  `rasterize_edges_8` (pixman-edge.c) as they read and write the little-endian byte memory of C10
  (`Model.Format.Mem`: `read8/read32/write8/write32`), statement by statement:

  * a1: `a += x >> 5; x &= 0x1f; MASK_BITS (x, width, startmask, nmiddle, endmask);` with `LEFT_MASK` /
    `RIGHT_MASK` (`SCREEN_SHIFT_RIGHT/LEFT` of a little-endian build), then the start word, the
    `while (nmiddle--)` loop of whole words and the end word (`a1Store`);
  * a4: `DEFINE_ALPHA`, `ADD_ALPHA` (`GET_4`/`PUT_4` on the byte holding the nibble, 8-bit wrap-around of
    `__a`, saturation by `__a | (0 - (__a >> 4))`), `STEP_ALPHA`;
  * a8: byte read-modify-write with `clip255`, `ADD_SATURATE_8`, the span-fill bookkeeping and the
    `MEMSET_WRAPPED (…, 0xff, …)` flush.

  `Pixman.Model.Trap` abstracts these to updates of a per-pixel array (`row1`, `row4`, `row8Fill`,
  `flushFill`); Lemmas/TrapWords.lean proves that the two agree (`Props.C12`, section "words").
  `line` is the byte address of the first word of the pixel row.
-/
namespace Pixman.TrapWords
open Pixman.Model.Format
open Pixman.Trap
open Pixman.Gen.SampleGrid

/-- `while (n--) body` -/
def whileDec {σ : Type} (body : σ → σ) : Nat → σ → σ
  | 0, s => s
  | k + 1, s => whileDec body k (body s)

/-! ### a1 -/

/-- `SCREEN_SHIFT_RIGHT (x, n)` of a little-endian build: `(uint32_t) (x << n)` -/
def screenShiftRight (x n : Nat) : Nat := (x <<< n) % 4294967296
/-- `SCREEN_SHIFT_LEFT (x, n)` of a little-endian build: `x >> n` -/
def screenShiftLeft (x n : Nat) : Nat := x >>> n

/-- `LEFT_MASK (x)`; `x & 0x1f` of an `int` is `x mod 32` -/
def leftMask (x : Int) : Nat :=
  if x % 32 ≠ 0 then screenShiftRight 0xffffffff (x % 32).toNat else 0

/-- `RIGHT_MASK (x)` -/
def rightMask (x : Int) : Nat :=
  if (32 - x) % 32 ≠ 0 then screenShiftLeft 0xffffffff ((32 - x) % 32).toNat else 0

/-- `MASK_BITS (x, w, l, n, r)`: `(l, n, r)` -/
def maskBits (x w : Int) : Nat × Int × Nat :=
  let n := w
  let r := rightMask (x + n)
  let l := leftMask x
  let lnr : Nat × Int × Nat :=
    if l ≠ 0 then
      let n := n - (32 - x % 32)
      if n < 0 then (l &&& r, 0, 0) else (l, n, r)
    else (l, n, r)
  (lnr.1, lnr.2.1 / 32, lnr.2.2)

/-- the three stores after `MASK_BITS`:
    `if (startmask) { WRITE (a, READ (a) | startmask); a++; }`
    `while (nmiddle--) WRITE (a++, 0xffffffff);`
    `if (endmask) WRITE (a, READ (a) | endmask);`   (`a` is a byte address here: `a++` adds 4).
    `Pixman.Gen.EdgeWords.a1Store` is regenerated from the source text and equals this by `rfl`. -/
def a1Store (m : Mem) (a : Nat) (startmask : Nat) (nmiddle : Int) (endmask : Nat) : Mem :=
  let s : Mem × Nat := (m, a)
  let s : Mem × Nat :=
    if startmask ≠ 0 then
      let s : Mem × Nat := (write32 s.1 s.2 (read32 s.1 s.2 ||| startmask), s.2)
      (s.1, s.2 + 4)
    else s
  let s : Mem × Nat := whileDec (fun (s : Mem × Nat) => (write32 s.1 s.2 4294967295, s.2 + 4)) nmiddle.toNat s
  let s : Mem × Nat :=
    if endmask ≠ 0 then (write32 s.1 s.2 (read32 s.1 s.2 ||| endmask), s.2)
    else s
  s.1

/-- the `#if N_BITS == 1` block for the pixels `lxi … rxi-1` of the row at `line` -/
def a1Span (m : Mem) (line : Nat) (lxi rxi : Int) : Mem :=
  let width := rxi - lxi
  let x := lxi
  let a := line + 4 * (x / 32).toNat          -- `a += x >> 5`
  let x := x % 32                              -- `x &= 0x1f`
  let mb := maskBits x width
  a1Store m a mb.1 mb.2.1 mb.2.2

/-- the body of the row loop of `rasterize_edges_1` on memory (same clamps as `row1`) -/
def row1W (m : Mem) (line : Nat) (width : Int) (lx0 rx0 : Int) : Mem :=
  let lx := wrap32 (lx0 + (xFracFirst 1 - 1))
  let rx := wrap32 (rx0 + (xFracFirst 1 - 1))
  let lx := if lx < 0 then 0 else lx
  let rx := if fixedToInt rx ≥ width then intToFixed width else rx
  if rx > lx then a1Span m line (fixedToInt lx) (fixedToInt rx) else m

/-! ### a4 -/

/-- `GET_4 (x, o)` (little endian: `SHIFT_4 (o) = o << 2`) -/
def get4 (x o : Nat) : Nat := (x >>> (o <<< 2)) &&& 0xf
/-- `PUT_4 (x, o, v)`; `~` is the complement of a 32-bit `int` -/
def put4 (x o v : Nat) : Nat :=
  (x &&& ((0xf <<< (o <<< 2)) ^^^ 4294967295)) ||| ((v &&& 0xf) <<< (o <<< 2))

/-- `ADD_ALPHA (a)` at `__ap = ap`, `__ao = ao`: `uint8_t __o = READ (__ap); uint8_t __a = a + GET_4 (__o, __ao);
    WRITE (__ap, PUT_4 (__o, __ao, __a | (0 - (__a >> 4))))`; `0 - k` in 32-bit two's complement -/
def addAlphaW (m : Mem) (ap ao a : Nat) : Mem :=
  let o := read8 m ap
  let a' := (a + get4 o ao) % 256
  write8 m ap (put4 o ao (a' ||| ((4294967296 - (a' >>> 4)) % 4294967296)))

/-- the `#else` block (`N_BITS == 4`): `DEFINE_ALPHA (line, lxi)`, then the `ADD_ALPHA` / `STEP_ALPHA` sequence -/
def a4Span (m : Mem) (line : Nat) (lxi rxi lxs rxs : Int) : Mem :=
  let ap := line + (lxi / 2).toNat             -- `(uint8_t *) line + (x >> 1)`
  let ao := (lxi % 2).toNat                    -- `x & 1`
  if lxi == rxi then
    addAlphaW m ap ao (rxs - lxs).toNat
  else
    let m := addAlphaW m ap ao (nXFrac 4 - lxs).toNat
    let s : Mem × Nat × Nat := (m, ap + ao, ao ^^^ 1)                  -- `STEP_ALPHA`
    let s := whileDec (fun (s : Mem × Nat × Nat) =>
        (addAlphaW s.1 s.2.1 s.2.2 (nXFrac 4).toNat, s.2.1 + s.2.2, s.2.2 ^^^ 1)) (rxi - (lxi + 1)).toNat s
    addAlphaW s.1 s.2.1 s.2.2 rxs.toNat

/-- the body of the row loop of `rasterize_edges_4` on memory (same clamps as `row4`) -/
def row4W (m : Mem) (line : Nat) (width : Int) (lx0 rx0 : Int) : Mem :=
  let lx := if lx0 < 0 then 0 else lx0
  let rx := if fixedToInt rx0 ≥ width then wrap32 (intToFixed width - 1) else rx0
  if rx > lx then
    a4Span m line (fixedToInt lx) (fixedToInt rx) (renderSamplesX lx 4) (renderSamplesX rx 4)
  else m

/-! ### a8 -/

/-- `WRITE (ap + i, clip255 (READ (ap + i) + v))` -/
def addByte (m : Mem) (a v : Nat) : Mem := write8 m a (clip255 (read8 m a + v))

/-- `ADD_SATURATE_8 (buf, val, length)` -/
def addSat8W (m : Mem) (buf val : Nat) : Nat → Mem
  | 0 => m
  | len + 1 => addSat8W (addByte m buf val) (buf + 1) val len

/-- `MEMSET_WRAPPED (image, dst, val, size)` without accessors: `memset` -/
def memsetW (m : Mem) (dst val : Nat) : Nat → Mem
  | 0 => m
  | size + 1 => memsetW (write8 m dst val) (dst + 1) val size

/-- `ADD_SATURATE_8 (ap + start, val, len)` with C `int` arguments -/
def addSat8WI (m : Mem) (line : Nat) (start val len : Int) : Mem :=
  addSat8W m (line + start.toNat) val.toNat len.toNat

/-- the row body of `rasterize_edges_8` on memory, with the span-fill bookkeeping (mirrors `row8Fill`) -/
def row8FillW (m : Mem) (line : Nat) (width : Int) (lx0 rx0 : Int) (fs : Fill) : Mem × Fill :=
  let lx := if lx0 < 0 then 0 else lx0
  let rx := if fixedToInt rx0 ≥ width then wrap32 (intToFixed width - 1) else rx0
  if rx > lx then
    let lxi := fixedToInt lx
    let rxi := fixedToInt rx
    let lxs := renderSamplesX lx 8
    let rxs := renderSamplesX rx 8
    if lxi == rxi then
      (addByte m (line + lxi.toNat) (rxs - lxs).toNat, fs)
    else
      let m := addByte m (line + lxi.toNat) (nXFrac 8 - lxs).toNat
      let lxi := lxi + 1
      let (m, fs) :=
        if rxi - lxi > 4 then
          if fs.start < 0 then
            (m, { start := lxi, stop := rxi, size := fs.size + 1 })
          else if lxi ≥ fs.stop || rxi < fs.start then
            (addSat8WI m line fs.start (fs.size * nXFrac 8) (fs.stop - fs.start),
             { start := lxi, stop := rxi, size := 1 })
          else
            let (m, fstart) :=
              if lxi > fs.start then
                (addSat8WI m line fs.start (fs.size * nXFrac 8) (lxi - fs.start), lxi)
              else if lxi < fs.start then
                (addSat8WI m line lxi (nXFrac 8) (fs.start - lxi), fs.start)
              else (m, fs.start)
            let (m, fstop) :=
              if rxi < fs.stop then
                (addSat8WI m line rxi (fs.size * nXFrac 8) (fs.stop - rxi), rxi)
              else if fs.stop < rxi then
                (addSat8WI m line fs.stop (nXFrac 8) (rxi - fs.stop), fs.stop)
              else (m, fs.stop)
            (m, { start := fstart, stop := fstop, size := fs.size + 1 })
        else
          (addSat8WI m line lxi (nXFrac 8) (rxi - lxi), fs)
      (addByte m (line + rxi.toNat) rxs.toNat, fs)
  else (m, fs)

/-- the flush of the pending fill on memory (mirrors `flushFill`) -/
def flushFillW (m : Mem) (line : Nat) (fs : Fill) : Mem :=
  if fs.start != fs.stop then
    if fs.size == nYFrac 8 then
      memsetW m (line + fs.start.toNat) 0xff (fs.stop - fs.start).toNat
    else
      addSat8WI m line fs.start (fs.size * nXFrac 8) (fs.stop - fs.start)
  else m

/-! ### the row loops on memory

  `bits` is the byte address of `image->bits.bits`, `stride` the rowstride in `uint32_t`.  The loops of
  `rasterize_edges_N` are written over the list of sample rows they visit — `walkRows` of `Model/Trap.lean`:
  `(y, l->x, r->x)` for every iteration, the same stepping as `edgesLoop` / `edgesLoop8`.  The C code computes
  `line = buf + pixman_fixed_to_int (y) * stride` once and adds `stride` at every big step; on the rows visited this
  is `buf + pixman_fixed_to_int (y) * stride` for the current `y` (`lineAddr`).  `ν` is applied to the memory after
  every row body; the theorems are about `ν = id`, the driver passes a function that reads the bytes out into an
  array (Lean re-evaluates a closure-valued memory at every read). -/

/-- byte address of the pixel row of `y` -/
def lineAddr (bits stride : Nat) (y : Int) : Nat := bits + 4 * ((fixedToInt y).toNat * stride)

/-- `rasterize_edges_1` / `rasterize_edges_4` on memory, over the visited rows -/
def rowsW (ν : Mem → Mem) (n : Nat) (bits stride : Nat) (width : Int) (rows : List (Int × Int × Int)) (m : Mem) : Mem :=
  rows.foldl (fun m p =>
    ν (if n == 1 then row1W m (lineAddr bits stride p.1) width p.2.1 p.2.2
       else row4W m (lineAddr bits stride p.1) width p.2.1 p.2.2)) m

/-- `rasterize_edges_8` on memory, over the visited rows: the fill state is carried to the next sample row of the
    same pixel row; at the last sample row of a pixel row (`pixman_fixed_frac (y) == Y_FRAC_LAST (8)`) and at `y == b`
    (the last visited row) the pending fill is flushed -/
def rows8W (ν : Mem → Mem) (bits stride : Nat) (width : Int) : List (Int × Int × Int) → Fill → Mem → Mem
  | [], _, m => m
  | p :: rest, fs, m =>
    let line := lineAddr bits stride p.1
    let q := row8FillW m line width p.2.1 p.2.2 fs
    if rest.isEmpty || fixedFrac p.1 == yFracLast 8 then
      rows8W ν bits stride width rest {} (ν (flushFillW (ν q.1) line q.2))
    else rows8W ν bits stride width rest q.2 (ν q.1)

/-- `pixman_rasterize_edges` on the memory of an a1 / a4 / a8 image -/
def rasterizeEdgesW (ν : Mem → Mem) (n : Nat) (bits stride : Nat) (width : Int) (m : Mem) (l r : Edge) (t b : Int) : Mem :=
  let rows := walkRows n b (rowFuel n t b) t l r
  if n == 8 then rows8W ν bits stride width rows {} m else rowsW ν n bits stride width rows m

/-! The same three loops with the memory kept as the array of its first `total` bytes (`byte` elsewhere): compiled
    Lean re-evaluates a function-valued definition at every application, so a closure-valued memory makes every read
    re-run the loop; an array is evaluated once.  The driver runs these; `Lemmas/TrapWordsImg.lean`
    (`rasterizeEdgesWB_mem`) shows that they are the loops above with `ν` = "read the first `total` bytes out and
    back" (the identity on a memory that is `byte` from `total` on). -/

/-- the byte memory whose bytes `0 … arr.size-1` are `arr`, `byte` elsewhere -/
def memOf (arr : Array Nat) (byte : Nat) : Mem := fun a => arr[a]?.getD byte

/-- the bytes `0 … len-1` of a memory -/
def bytesOf (m : Mem) (len : Nat) : Array Nat := (Array.range len).map fun i => m i

def rowsWB (total byte : Nat) (n : Nat) (bits stride : Nat) (width : Int) (rows : List (Int × Int × Int)) (s : Array Nat) : Array Nat :=
  rows.foldl (fun s p =>
    bytesOf (if n == 1 then row1W (memOf s byte) (lineAddr bits stride p.1) width p.2.1 p.2.2
             else row4W (memOf s byte) (lineAddr bits stride p.1) width p.2.1 p.2.2) total) s

def rows8WB (total byte : Nat) (bits stride : Nat) (width : Int) : List (Int × Int × Int) → Fill → Array Nat → Array Nat
  | [], _, s => s
  | p :: rest, fs, s =>
    let line := lineAddr bits stride p.1
    let q := row8FillW (memOf s byte) line width p.2.1 p.2.2 fs
    let s1 := bytesOf q.1 total
    if rest.isEmpty || fixedFrac p.1 == yFracLast 8 then
      rows8WB total byte bits stride width rest {} (bytesOf (flushFillW (memOf s1 byte) line q.2) total)
    else rows8WB total byte bits stride width rest q.2 s1

def rasterizeEdgesWB (total byte : Nat) (n : Nat) (bits stride : Nat) (width : Int) (s : Array Nat) (l r : Edge) (t b : Int) :
    Array Nat :=
  let rows := walkRows n b (rowFuel n t b) t l r
  if n == 8 then rows8WB total byte bits stride width rows {} s else rowsWB total byte n bits stride width rows s

end Pixman.TrapWords

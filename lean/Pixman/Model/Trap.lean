import Pixman.Model.Edge
/-!
  Model of the trapezoid rasteriser: `rasterize_edges_1/4/8` (pixman/pixman-edge.c,
  pixman-edge-imp.h), `pixman_rasterize_trapezoid`, `pixman_add_trapezoids`, `pixman_add_traps`,
  `triangle_to_trapezoids`, `pixman_add_triangles`, `get_trap_extents` (pixman/pixman-trap.c).

  An alpha image is an array of rows, each row an array of coverage values (`0 … MAX_ALPHA (n)`).
  The storage layout (bit order of a1, nibble order of a4, stride padding) is not modelled: the
  correspondence harness decodes pixels from the library's buffer.  Consequently the a1 word/mask
  arithmetic (`MASK_BITS`) is abstracted to "set the pixels `lxi … rxi-1`"; everything else follows
  the C control flow statement by statement, including the a8 span-fill optimisation.

  Writes outside the pixel array (possible in C only through the wrap-around cases listed in
  Props/C12.lean) do not change the model image; they raise the `oob` flag instead.
-/
namespace Pixman.Trap
open Pixman.Gen.SampleGrid

structure Img where
  width : Nat
  height : Nat
  rows : Array (Array Nat)
  /-- the C code would have accessed memory outside the pixel rows -/
  oob : Bool := false
  /-- the C loop `for (;;)` would not have terminated within the rows between `t` and `b` -/
  runaway : Bool := false
deriving Repr, DecidableEq, Inhabited

def Img.mk' (w h : Nat) (v : Nat) : Img :=
  { width := w, height := h, rows := Array.replicate h (Array.replicate w v) }

/-! ### per-row span operations -/

/-- `clip255 (x)` for `x ≥ 0` -/
def clip255 (x : Nat) : Nat := if x > 255 then 255 else x

/-- `ADD_SATURATE_8 (ap + start, val, len)`: `while (len--) *p++ = clip255 (*p + val)` -/
def addSaturate8 (row : Array Nat) (start : Nat) (val : Nat) : Nat → Array Nat
  | 0 => row
  | len + 1 => addSaturate8 (row.modify start fun o => clip255 (o + val)) (start + 1) val len

/-- `ADD_ALPHA (a)` of the 4-bit rasteriser on the nibble at pixel `x`:
    `__a = a + GET_4 (o)` in `uint8_t`; stored nibble `(__a | (0 - (__a >> 4))) & 0xf`. -/
def addAlpha4Val (o : Nat) (a : Nat) : Nat :=
  let s := (a + o) % 256
  ((s % 16) ||| ((16 - s / 16) % 16)) % 16

def addAlpha4 (row : Array Nat) (x : Nat) (a : Nat) : Array Nat :=
  row.modify x fun o => addAlpha4Val o a

/-- the `for (xi = lxi + 1; xi < rxi; xi++) { ADD_ALPHA (N_X_FRAC); STEP_ALPHA; }` loop -/
def addAlpha4Span (row : Array Nat) (start : Nat) (val : Nat) : Nat → Array Nat
  | 0 => row
  | len + 1 => addAlpha4Span (addAlpha4 row start val) (start + 1) val len

/-- a1: `READ | mask` on the pixels `start … start+len-1` (abstraction of `MASK_BITS`) -/
def setBits1 (row : Array Nat) (start : Nat) : Nat → Array Nat
  | 0 => row
  | len + 1 => setBits1 (row.modify start fun o => o ||| 1) (start + 1) len

/-- `RENDER_SAMPLES_X (x, n)` for `n > 1` -/
def renderSamplesX (x : Int) (n : Nat) : Int :=
  (fixedFrac x + xFracFirst n) / stepXSmall n

/-- The body of the row loop of `rasterize_edges_1` between `lx = l->x` and the `y == b` test. -/
def row1 (row : Array Nat) (width : Int) (lx0 rx0 : Int) : Array Nat :=
  let lx := wrap32 (lx0 + (xFracFirst 1 - 1))
  let rx := wrap32 (rx0 + (xFracFirst 1 - 1))
  let lx := if lx < 0 then 0 else lx
  let rx := if fixedToInt rx ≥ width then intToFixed width else rx
  if rx > lx then
    let lxi := fixedToInt lx
    let rxi := fixedToInt rx
    setBits1 row lxi.toNat (rxi - lxi).toNat
  else row

/-- The body of the row loop of `rasterize_edges_4`. -/
def row4 (row : Array Nat) (width : Int) (lx0 rx0 : Int) : Array Nat :=
  let lx := if lx0 < 0 then 0 else lx0
  let rx := if fixedToInt rx0 ≥ width then wrap32 (intToFixed width - 1) else rx0
  if rx > lx then
    let lxi := fixedToInt lx
    let rxi := fixedToInt rx
    let lxs := renderSamplesX lx 4
    let rxs := renderSamplesX rx 4
    if lxi == rxi then
      addAlpha4 row lxi.toNat (rxs - lxs).toNat
    else
      let row := addAlpha4 row lxi.toNat (nXFrac 4 - lxs).toNat
      let row := addAlpha4Span row (lxi.toNat + 1) (nXFrac 4).toNat (rxi - (lxi + 1)).toNat
      addAlpha4 row rxi.toNat rxs.toNat
  else row

/-- The row body of `rasterize_edges_8` *without* the span-fill bookkeeping (the `else` branch
    `ADD_SATURATE_8 (ap + lxi, N_X_FRAC (8), rxi - lxi)` taken for every span).  This is the
    reference the optimisation is proved/compared against; the real control flow is `row8Fill`. -/
def row8 (row : Array Nat) (width : Int) (lx0 rx0 : Int) : Array Nat :=
  let lx := if lx0 < 0 then 0 else lx0
  let rx := if fixedToInt rx0 ≥ width then wrap32 (intToFixed width - 1) else rx0
  if rx > lx then
    let lxi := fixedToInt lx
    let rxi := fixedToInt rx
    let lxs := renderSamplesX lx 8
    let rxs := renderSamplesX rx 8
    if lxi == rxi then
      row.modify lxi.toNat fun o => clip255 (o + (rxs - lxs).toNat)
    else
      let row := row.modify lxi.toNat fun o => clip255 (o + (nXFrac 8 - lxs).toNat)
      let row := addSaturate8 row (lxi.toNat + 1) (nXFrac 8).toNat (rxi - (lxi + 1)).toNat
      row.modify rxi.toNat fun o => clip255 (o + rxs.toNat)
  else row

/-- span-fill state of `rasterize_edges_8` -/
structure Fill where
  start : Int := -1
  stop : Int := -1
  size : Int := 0
deriving Repr, DecidableEq, Inhabited

/-- `ADD_SATURATE_8` with C `int` arguments -/
def addSat8I (row : Array Nat) (start : Int) (val : Int) (len : Int) : Array Nat :=
  addSaturate8 row start.toNat val.toNat len.toNat

/-- The row body of `rasterize_edges_8` as written, with the span-fill bookkeeping. -/
def row8Fill (row : Array Nat) (width : Int) (lx0 rx0 : Int) (fs : Fill) : Array Nat × Fill :=
  let lx := if lx0 < 0 then 0 else lx0
  let rx := if fixedToInt rx0 ≥ width then wrap32 (intToFixed width - 1) else rx0
  if rx > lx then
    let lxi := fixedToInt lx
    let rxi := fixedToInt rx
    let lxs := renderSamplesX lx 8
    let rxs := renderSamplesX rx 8
    if lxi == rxi then
      (row.modify lxi.toNat fun o => clip255 (o + (rxs - lxs).toNat), fs)
    else
      let row := row.modify lxi.toNat fun o => clip255 (o + (nXFrac 8 - lxs).toNat)
      let lxi := lxi + 1
      let (row, fs) :=
        if rxi - lxi > 4 then
          if fs.start < 0 then
            (row, { start := lxi, stop := rxi, size := fs.size + 1 })
          else if lxi ≥ fs.stop || rxi < fs.start then
            (addSat8I row fs.start (fs.size * nXFrac 8) (fs.stop - fs.start),
             { start := lxi, stop := rxi, size := 1 })
          else
            -- update fill_start
            let (row, fstart) :=
              if lxi > fs.start then
                (addSat8I row fs.start (fs.size * nXFrac 8) (lxi - fs.start), lxi)
              else if lxi < fs.start then
                (addSat8I row lxi (nXFrac 8) (fs.start - lxi), fs.start)
              else (row, fs.start)
            -- update fill_end
            let (row, fstop) :=
              if rxi < fs.stop then
                (addSat8I row rxi (fs.size * nXFrac 8) (fs.stop - rxi), rxi)
              else if fs.stop < rxi then
                (addSat8I row fs.stop (nXFrac 8) (rxi - fs.stop), fs.stop)
              else (row, fs.stop)
            (row, { start := fstart, stop := fstop, size := fs.size + 1 })
        else
          (addSat8I row lxi (nXFrac 8) (rxi - lxi), fs)
      (row.modify rxi.toNat fun o => clip255 (o + rxs.toNat), fs)
  else (row, fs)

/-- flush of the pending fill: `MEMSET_WRAPPED (…, 0xff, …)` when `fill_size == N_Y_FRAC (8)`,
    `ADD_SATURATE_8 (…, fill_size * N_X_FRAC (8), …)` otherwise -/
def flushFill (row : Array Nat) (fs : Fill) : Array Nat :=
  if fs.start != fs.stop then
    if fs.size == nYFrac 8 then
      addSaturate8 row fs.start.toNat 255 (fs.stop - fs.start).toNat   -- memset 0xff == saturating +255
    else
      addSat8I row fs.start (fs.size * nXFrac 8) (fs.stop - fs.start)
  else row

/-! ### the row loops -/

def Img.modifyRow (img : Img) (r : Int) (f : Array Nat → Array Nat) : Img :=
  if 0 ≤ r ∧ r < img.height then { img with rows := img.rows.modify r.toNat f }
  else { img with oob := true }

/-- number of iterations after which the C loop must have hit `y == b` if it ever does -/
def rowFuel (n : Nat) (t b : Int) : Nat := ((b - t) / stepYSmall n + 2).toNat

/-- `rasterize_edges_1` / `rasterize_edges_4` (pixman-edge-imp.h), `n ∈ {1, 4}` -/
def edgesLoop (n : Nat) (b : Int) : Nat → Int → Edge → Edge → Img → Img
  | 0, _, _, _, img => { img with runaway := true }
  | fuel + 1, y, l, r, img =>
    let img := img.modifyRow (fixedToInt y) fun row =>
      if n == 1 then row1 row img.width l.x r.x else row4 row img.width l.x r.x
    if y == b then img
    else if n != 1 && fixedFrac y != yFracLast n then
      edgesLoop n b fuel (wrap32 (y + stepYSmall n)) (stepSmall l) (stepSmall r) img
    else
      edgesLoop n b fuel (wrap32 (y + stepYBig n)) (stepBig l) (stepBig r) img

/-- `rasterize_edges_8` (pixman-edge.c) -/
def edgesLoop8 (b : Int) : Nat → Int → Edge → Edge → Fill → Img → Img
  | 0, _, _, _, _, img => { img with runaway := true }
  | fuel + 1, y, l, r, fs, img =>
    let line := fixedToInt y
    let inb : Bool := 0 ≤ line ∧ line < img.height
    let row := if inb then img.rows[line.toNat]?.getD #[] else #[]
    let (row, fs) := row8Fill row img.width l.x r.x fs
    if y == b then
      let row := flushFill row fs
      if inb then { img with rows := img.rows.set! line.toNat row } else { img with oob := true }
    else if fixedFrac y != yFracLast 8 then
      let img := if inb then { img with rows := img.rows.set! line.toNat row } else { img with oob := true }
      edgesLoop8 b fuel (wrap32 (y + stepYSmall 8)) (stepSmall l) (stepSmall r) fs img
    else
      let row := flushFill row fs
      let img := if inb then { img with rows := img.rows.set! line.toNat row } else { img with oob := true }
      edgesLoop8 b fuel (wrap32 (y + stepYBig 8)) (stepBig l) (stepBig r) {} img

/-- the naive a8 rasteriser: `row8` on every sample row, no span-fill state -/
def edgesLoop8Naive (b : Int) : Nat → Int → Edge → Edge → Img → Img
  | 0, _, _, _, img => { img with runaway := true }
  | fuel + 1, y, l, r, img =>
    let img := img.modifyRow (fixedToInt y) fun row => row8 row img.width l.x r.x
    if y == b then img
    else if fixedFrac y != yFracLast 8 then
      edgesLoop8Naive b fuel (wrap32 (y + stepYSmall 8)) (stepSmall l) (stepSmall r) img
    else
      edgesLoop8Naive b fuel (wrap32 (y + stepYBig 8)) (stepBig l) (stepBig r) img

/-- `pixman_rasterize_edges (image, l, r, t, b)` for an image of depth `n` -/
def rasterizeEdges (n : Nat) (img : Img) (l r : Edge) (t b : Int) : Img :=
  match n with
  | 1 => edgesLoop 1 b (rowFuel 1 t b) t l r img
  | 4 => edgesLoop 4 b (rowFuel 4 t b) t l r img
  | 8 => edgesLoop8 b (rowFuel 8 t b) t l r {} img
  | _ => img

/-! ### entry points of pixman-trap.c -/

structure Point where
  x : Int
  y : Int
deriving Repr, DecidableEq, Inhabited

structure Line where
  p1 : Point
  p2 : Point
deriving Repr, DecidableEq, Inhabited

/-- `pixman_trapezoid_t` -/
structure Trapezoid where
  top : Int
  bottom : Int
  left : Line
  right : Line
deriving Repr, DecidableEq, Inhabited

/-- `pixman_trap_t` : `top = {l, r, y}`, `bot = {l, r, y}` -/
structure Trap where
  topL : Int
  topR : Int
  topY : Int
  botL : Int
  botR : Int
  botY : Int
deriving Repr, DecidableEq, Inhabited

structure Triangle where
  p1 : Point
  p2 : Point
  p3 : Point
deriving Repr, DecidableEq, Inhabited

/-- `pixman_trapezoid_valid (t)` -/
def Trapezoid.valid (t : Trapezoid) : Bool :=
  t.left.p1.y != t.left.p2.y && t.right.p1.y != t.right.p2.y && t.bottom > t.top

/-- the part of `pixman_rasterize_trapezoid` before `pixman_rasterize_edges`: the first and last
    sample row and the two initialised edges, or `none` when nothing is drawn -/
def trapezoidSetup (n : Nat) (height : Int) (tr : Trapezoid) (xOff yOff : Int) : Option (Int × Int × Edge × Edge) :=
  if !tr.valid then none else
  let yOffFixed := intToFixed yOff
  let t := wrap32 (tr.top + yOffFixed)
  let t := if t < 0 then 0 else t
  let t := sampleCeilY t n
  let b := wrap32 (tr.bottom + yOffFixed)
  let b := if fixedToInt b ≥ height then wrap32 (intToFixed height - 1) else b
  let b := sampleFloorY b n
  if b ≥ t then
    let l := lineFixedEdgeInit n t tr.left.p1.x tr.left.p1.y tr.left.p2.x tr.left.p2.y xOff yOff
    let r := lineFixedEdgeInit n t tr.right.p1.x tr.right.p1.y tr.right.p2.x tr.right.p2.y xOff yOff
    some (t, b, l, r)
  else none

/-- `pixman_rasterize_trapezoid (image, trap, x_off, y_off)`; `n` = depth of the image -/
def rasterizeTrapezoid (n : Nat) (img : Img) (tr : Trapezoid) (xOff yOff : Int) : Img :=
  match trapezoidSetup n img.height tr xOff yOff with
  | some (t, b, l, r) => rasterizeEdges n img l r t b
  | none => img

/-- the `(y, l->x, r->x)` at which the row loop of `rasterize_edges_N` evaluates the edges
    (same stepping as `edgesLoop` / `edgesLoop8`, no drawing) -/
def walkRows (n : Nat) (b : Int) : Nat → Int → Edge → Edge → List (Int × Int × Int)
  | 0, _, _, _ => []
  | fuel + 1, y, l, r =>
    (y, l.x, r.x) ::
    if y == b then []
    else if n != 1 && fixedFrac y != yFracLast n then
      walkRows n b fuel (wrap32 (y + stepYSmall n)) (stepSmall l) (stepSmall r)
    else
      walkRows n b fuel (wrap32 (y + stepYBig n)) (stepBig l) (stepBig r)

/-- `pixman_add_trapezoids (image, x_off, y_off, ntraps, traps)`; `x_off` is an `int16_t` parameter -/
def addTrapezoids (n : Nat) (img : Img) (xOff yOff : Int) (traps : List Trapezoid) : Img :=
  let xOff := wrap16 xOff
  traps.foldl (fun img tr => if tr.valid then rasterizeTrapezoid n img tr xOff yOff else img) img

/-- one iteration of the loop of `pixman_add_traps` up to `pixman_rasterize_edges` -/
def trapSetup (n : Nat) (height : Int) (xOffFixed yOffFixed : Int) (tr : Trap) : Option (Int × Int × Edge × Edge) :=
  let t := wrap32 (tr.topY + yOffFixed)
  let t := if t < 0 then 0 else t
  let t := sampleCeilY t n
  let b := wrap32 (tr.botY + yOffFixed)
  let b := if fixedToInt b ≥ height then wrap32 (intToFixed height - 1) else b
  let b := sampleFloorY b n
  if b ≥ t then
    let l := edgeInit n t (wrap32 (tr.topL + xOffFixed)) (wrap32 (tr.topY + yOffFixed))
                          (wrap32 (tr.botL + xOffFixed)) (wrap32 (tr.botY + yOffFixed))
    let r := edgeInit n t (wrap32 (tr.topR + xOffFixed)) (wrap32 (tr.topY + yOffFixed))
                          (wrap32 (tr.botR + xOffFixed)) (wrap32 (tr.botY + yOffFixed))
    some (t, b, l, r)
  else none

def addTrap (n : Nat) (img : Img) (xOffFixed yOffFixed : Int) (tr : Trap) : Img :=
  match trapSetup n img.height xOffFixed yOffFixed tr with
  | some (t, b, l, r) => rasterizeEdges n img l r t b
  | none => img

/-- `pixman_add_traps (image, x_off, y_off, ntrap, traps)`; both offsets are `int16_t` parameters -/
def addTraps (n : Nat) (img : Img) (xOff yOff : Int) (traps : List Trap) : Img :=
  let xo := intToFixed (wrap16 xOff)
  let yo := intToFixed (wrap16 yOff)
  traps.foldl (fun img tr => addTrap n img xo yo tr) img

/-- `greater_y (a, b)` -/
def greaterY (a b : Point) : Bool := if a.y == b.y then a.x > b.x else a.y > b.y

/-- `clockwise (ref, a, b)`; the differences are computed in `pixman_fixed_t` (wrap), the products
    in 64 bits. -/
def clockwise (ref a b : Point) : Bool :=
  let adx := wrap32 (a.x - ref.x)
  let ady := wrap32 (a.y - ref.y)
  let bdx := wrap32 (b.x - ref.x)
  let bdy := wrap32 (b.y - ref.y)
  bdy * adx - ady * bdx < 0

/-- `triangle_to_trapezoids (tri, traps)`: the two trapezoids written to `traps[0], traps[1]` -/
def triangleToTrapezoids (tri : Triangle) : Trapezoid × Trapezoid :=
  let top := tri.p1
  let left := tri.p2
  let right := tri.p3
  let (top, left) := if greaterY top left then (left, top) else (top, left)
  let (top, right) := if greaterY top right then (right, top) else (top, right)
  let (left, right) := if clockwise top right left then (right, left) else (left, right)
  let t0 : Trapezoid :=
    { top := top.y, left := ⟨top, left⟩, right := ⟨top, right⟩,
      bottom := if right.y < left.y then right.y else left.y }
  let t1 : Trapezoid :=
    if right.y < left.y then
      { t0 with top := right.y, bottom := left.y, right := ⟨right, left⟩ }
    else
      { t0 with top := left.y, bottom := right.y, left := ⟨left, right⟩ }
  (t0, t1)

/-- `pixman_add_triangles (image, x_off, y_off, n_tris, tris)` -/
def addTriangles (n : Nat) (img : Img) (xOff yOff : Int) (tris : List Triangle) : Img :=
  addTrapezoids n img xOff yOff
    (tris.flatMap fun t => let p := triangleToTrapezoids t; [p.1, p.2])

end Pixman.Trap

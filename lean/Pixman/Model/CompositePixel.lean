import Pixman.Model.Combine32
import Pixman.Gen.OperatorTable
/-! One pixel through `pixman_image_composite32` on the narrow (8 bits per channel) pipeline:
presentation → opacity flags → `optimize_operator` (regenerated table) → fetch to a8r8g8b8 →
8-bit combiner → store.  Formats are the ≤ 8-bit-per-channel ones with 8, 16 or 32 bits per
pixel; fetch widens by bit replication (`unorm_to_unorm`), store truncates (`convert_pixel`).
Core Lean only. -/
namespace Pixman.CompositePixel
open Pixman.Arith Pixman.Combine32

/-- `PIXMAN_TYPE_*` of the formats handled here -/
inductive FType | a | argb | abgr | bgra | rgba
  deriving DecidableEq, Repr

structure Fmt where
  name : String
  bpp : Nat
  type : FType
  a : Nat
  r : Nat
  g : Nat
  b : Nat
  deriving Repr

def formats : List Fmt := [
  ⟨"a8r8g8b8", 32, .argb, 8, 8, 8, 8⟩, ⟨"x8r8g8b8", 32, .argb, 0, 8, 8, 8⟩,
  ⟨"a8b8g8r8", 32, .abgr, 8, 8, 8, 8⟩, ⟨"x8b8g8r8", 32, .abgr, 0, 8, 8, 8⟩,
  ⟨"b8g8r8a8", 32, .bgra, 8, 8, 8, 8⟩, ⟨"b8g8r8x8", 32, .bgra, 0, 8, 8, 8⟩,
  ⟨"r8g8b8a8", 32, .rgba, 8, 8, 8, 8⟩, ⟨"r8g8b8x8", 32, .rgba, 0, 8, 8, 8⟩,
  ⟨"r5g6b5", 16, .argb, 0, 5, 6, 5⟩, ⟨"b5g6r5", 16, .abgr, 0, 5, 6, 5⟩,
  ⟨"a1r5g5b5", 16, .argb, 1, 5, 5, 5⟩, ⟨"x1r5g5b5", 16, .argb, 0, 5, 5, 5⟩,
  ⟨"a4r4g4b4", 16, .argb, 4, 4, 4, 4⟩, ⟨"x4r4g4b4", 16, .argb, 0, 4, 4, 4⟩,
  ⟨"a1b5g5r5", 16, .abgr, 1, 5, 5, 5⟩, ⟨"a4b4g4r4", 16, .abgr, 4, 4, 4, 4⟩,
  ⟨"a8", 8, .a, 8, 0, 0, 0⟩, ⟨"r3g3b2", 8, .argb, 0, 3, 3, 2⟩,
  ⟨"a2r2g2b2", 8, .argb, 2, 2, 2, 2⟩, ⟨"a2b2g2r2", 8, .abgr, 2, 2, 2, 2⟩,
  ⟨"x4a4", 8, .a, 4, 0, 0, 0⟩ ]

/-- `get_shifts`: (a, r, g, b) shifts -/
def Fmt.shifts (f : Fmt) : Nat × Nat × Nat × Nat :=
  match f.type with
  | .a => (0, 0, 0, 0)
  | .argb => (f.b + f.g + f.r, f.b + f.g, f.b, 0)
  | .abgr => (f.r + f.g + f.b, 0, f.r, f.r + f.g)
  | .bgra =>
    let b := f.bpp - f.b
    let g := b - f.g
    let r := g - f.r
    (r - f.a, r, g, b)
  | .rgba =>
    let r := f.bpp - f.r
    let g := r - f.g
    let b := g - f.b
    (b - f.a, r, g, b)

/-- one `REPLICATE()` step of `unorm_to_unorm` -/
def replicate (res : Nat × Nat) (toBits : Nat) : Nat × Nat :=
  if res.2 < toBits then (res.1 ||| (res.1 >>> res.2), res.2 * 2) else res

/-- `unorm_to_unorm (val, from_bits, to_bits)` -/
def unormToUnorm (val fromBits toBits : Nat) : Nat :=
  if fromBits = 0 then 0
  else
    let val := val &&& ((1 <<< fromBits) - 1)
    if fromBits ≥ toBits then val >>> (fromBits - toBits)
    else
      let r0 := ((val <<< (toBits - fromBits)) % 4294967296, fromBits)
      let r := replicate (replicate (replicate (replicate (replicate r0 toBits) toBits) toBits)
        toBits) toBits
      r.1

/-- `convert_channel` -/
def convertChannel (pixel defValue nFrom fromShift nTo toShift : Nat) : Nat :=
  let v := if nFrom ≠ 0 ∧ nTo ≠ 0 then unormToUnorm (pixel >>> fromShift) nFrom nTo
           else if nTo ≠ 0 then defValue else 0
  ((v &&& ((1 <<< nTo) - 1)) <<< toShift) % 4294967296

def argb32 : Fmt := ⟨"a8r8g8b8", 32, .argb, 8, 8, 8, 8⟩

/-- `convert_pixel (from, to, pixel)` -/
def convertPixel (src dst : Fmt) (pixel : Nat) : Nat :=
  let (sa, sr, sg, sb) := src.shifts
  let (da, dr, dg, db) := dst.shifts
  convertChannel pixel 4294967295 src.a sa dst.a da |||
  convertChannel pixel 0 src.r sr dst.r dr |||
  convertChannel pixel 0 src.g sg dst.g dg |||
  convertChannel pixel 0 src.b sb dst.b db

def Fmt.fetch (f : Fmt) (p : Nat) : Nat := convertPixel f argb32 p
def Fmt.store (f : Fmt) (p : Nat) : Nat := convertPixel argb32 f p

/-- how an image is presented in a request -/
inductive Pres
  | none                      -- no mask image
  | solid                     -- solid fill; the value is its a8r8g8b8 colour
  | bits (f : Fmt) (rep : Bool)   -- bits image, `rep`: a repeat mode other than NONE is set

def Pres.fetch : Pres → Nat → Nat
  | .none, _ => 0
  | .solid, v => v % 4294967296
  | .bits f _, v => f.fetch v

/-- `FAST_PATH_IS_OPAQUE` as `pixman_image_composite32` sees it for a source or mask whose samples
cover the composite area (solid: alpha 0xffff; bits: format without alpha — flagged directly when
repeating, else promoted from SAMPLES_OPAQUE because the samples cover the clip), never for a
component-alpha mask. -/
def Pres.srcOpaque (p : Pres) (value : Nat) (componentAlpha : Bool) : Bool :=
  match p with
  | .none => true
  | .solid => !componentAlpha && (value >>> 24 == 0xff)
  | .bits f _ => !componentAlpha && f.a == 0

/-- destination: only the flag itself counts (no promotion) -/
def Pres.dstOpaque : Pres → Bool
  | .bits f rep => f.a == 0 && rep
  | _ => false

inductive Result
  | pixel (v : Nat)
  | wide          -- the request does not run in the 8-bit pipeline
  | bad
  deriving DecidableEq, Repr

def flag (b : Bool) : Nat := if b then Pixman.Gen.OperatorTable.FAST_PATH_IS_OPAQUE else 0

/-- the whole request; `s m d` raw pixel values in their formats -/
def compositePixel (op : Nat) (ca : Bool) (src mask dst : Pres) (s m d : Nat) : Result :=
  match dst with
  | .bits df _ =>
    let srcOp := src.srcOpaque s false
    let maskOp := mask.srcOpaque m ca
    let op' := Pixman.Gen.OperatorTable.optimizeOperator op (flag srcOp) (flag maskOp)
      (flag dst.dstOpaque)
    let s32 := src.fetch s
    let d32 := df.fetch d
    -- an opaque mask is dropped before dispatch (`mask_format = PIXMAN_null`)
    let noMask := match mask with | .none => true | _ => maskOp
    let r : Option Nat :=
      if noMask then (combineU? op').map (fun f => f s32 Option.none d32)
      else if ca then (combineCa? op').map (fun f => f s32 (mask.fetch m) d32)
      else (combineU? op').map (fun f => f s32 (some (mask.fetch m)) d32)
    match r with
    | some v => .pixel (df.store v)
    | Option.none => .wide
  | _ => .bad

end Pixman.CompositePixel

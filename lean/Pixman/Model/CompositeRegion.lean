import Pixman.Model.Region
/-
  Model of the composite-region computation of pixman/pixman.c
  (`clip_general_image`, `clip_source_image`, `_pixman_compute_composite_region32`,
  `pixman_compute_composite_region`, the per-box loop of `pixman_image_composite32`),
  on top of the region model.

  Hand-written; tied to the code by the correspondence check `harness/compregion.c` <->
  `pixdrv compregion`.  C control flow is kept: each early `return FALSE` leaves the region
  object in the state the C code leaves it in (that state is observable and is compared).

  `int` arithmetic of the C code is written with an explicit conversion `wrap32` at every
  sum/difference; the theorems of Props/C03 carry the no-overflow range as a hypothesis.
-/
namespace Pixman.CompositeRegion
open Pixman.Region

/-- conversion to `int` / `int32_t` -/
def wrap32 (v : Int) : Int := wrapS 32 v

/-- The part of `image_common_t` (+ `bits.width/height`) the computation reads. -/
structure ImageCore where
  width : Int
  height : Int
  /-- `common.clip_region` -/
  clip : Region
  /-- `common.have_clip_region` -/
  haveClip : Bool
  /-- `common.clip_sources` -/
  clipSources : Bool
  /-- `common.client_clip` -/
  clientClip : Bool
deriving Repr, DecidableEq, Inhabited

/-- `common.alpha_map` with `alpha_origin_x/y` (an alpha map has no alpha map of its own) -/
structure AlphaMap where
  img : ImageCore
  ox : Int
  oy : Int
deriving Repr, DecidableEq, Inhabited

structure Image extends ImageCore where
  alphaMap : Option AlphaMap
deriving Repr, DecidableEq, Inhabited

/-- a step that is only run when the previous one returned TRUE -/
def andThen (p : Region × Bool) (f : Region → Region × Bool) : Region × Bool :=
  if p.2 then f p.1 else p

/-- `rbox` of the single-box shortcut points into the rectangle array if there is one, else at
    the extents. -/
def setOnlyBox (r : Region) (b : Box) : Region :=
  match r.data with
  | .heap _ => { r with data := .heap [b] }
  | _ => { r with extents := b }

/-- clip_general_image -/
def clipGeneralImage (region clip : Region) (dx dy : Int) : Region × Bool :=
  if region.numRects == 1 && clip.numRects == 1 then
    match region.rects, clip.rects with
    | rb :: _, cb :: _ =>
      let v := wrap32 (cb.x1 + dx)
      let x1 := if rb.x1 < v then v else rb.x1
      let v := wrap32 (cb.x2 + dx)
      let x2 := if rb.x2 > v then v else rb.x2
      let v := wrap32 (cb.y1 + dy)
      let y1 := if rb.y1 < v then v else rb.y1
      let v := wrap32 (cb.y2 + dy)
      let y2 := if rb.y2 > v then v else rb.y2
      if x1 ≥ x2 || y1 ≥ y2 then (init, false)
      else
        let r := setOnlyBox region ⟨x1, y1, x2, y2⟩
        (r, notEmpty r)
    | _, _ => (region, false)   -- not reachable: both lists have one element
  else if !notEmpty clip then (region, false)
  else
    let r1 := if dx != 0 || dy != 0 then translate c32 region (wrap32 (-dx)) (wrap32 (-dy)) else region
    let p := intersect false r1 r1 clip
    if !p.2 then p
    else
      let r3 := if dx != 0 || dy != 0 then translate c32 p.1 dx dy else p.1
      (r3, notEmpty r3)

/-- clip_source_image -/
def clipSourceImage (region : Region) (image : ImageCore) (dx dy : Int) : Region × Bool :=
  if !image.clipSources || !image.clientClip then (region, true)
  else clipGeneralImage region image.clip dx dy

/-- an `int` passed for an `unsigned int` parameter -/
def toUnsigned (v : Int) : Nat := (v % (2 ^ 32 : Int)).toNat

/-- initial rectangle: request ∩ destination bounds; `none` = "empty operation" -/
def initialBox (dest : ImageCore) (destX destY width height : Int) : Option Box :=
  let x1 := destX
  let x2 := wrap32 (destX + width)
  let y1 := destY
  let y2 := wrap32 (destY + height)
  let x1 := if x1 > 0 then x1 else 0
  let y1 := if y1 > 0 then y1 else 0
  let x2 := if x2 < dest.width then x2 else dest.width
  let y2 := if y2 < dest.height then y2 else dest.height
  if x1 ≥ x2 || y1 ≥ y2 then none else some ⟨x1, y1, x2, y2⟩

def destClipStep (dest : Image) (region : Region) : Region × Bool :=
  if dest.haveClip then clipGeneralImage region dest.clip 0 0 else (region, true)

def destAlphaStep (dest : Image) (region : Region) : Region × Bool :=
  match dest.alphaMap with
  | none => (region, true)
  | some a =>
    let p := intersectRect c32 region region a.ox a.oy (toUnsigned a.img.width) (toUnsigned a.img.height)
    if !p.2 then p
    else if !notEmpty p.1 then (p.1, false)
    else if a.img.haveClip then
      clipGeneralImage p.1 a.img.clip (wrap32 (-a.ox)) (wrap32 (-a.oy))
    else (p.1, true)

/-- the clip of a source-side image, then (when `nested` only if the image itself has a clip
    region — the mask case) the clip of its alpha map -/
def srcStep (src : Image) (srcX srcY destX destY : Int) (region : Region) : Region × Bool :=
  if src.haveClip then
    clipSourceImage region src.toImageCore (wrap32 (destX - srcX)) (wrap32 (destY - srcY))
  else (region, true)

def srcAlphaStep (src : Image) (srcX srcY destX destY : Int) (region : Region) : Region × Bool :=
  match src.alphaMap with
  | none => (region, true)
  | some a =>
    if a.img.haveClip then
      clipSourceImage region a.img (wrap32 (destX - wrap32 (srcX - a.ox)))
        (wrap32 (destY - wrap32 (srcY - a.oy)))
    else (region, true)

/-- the mask's alpha map is only consulted inside `if (mask_image->common.have_clip_region)` -/
def maskStep (mask : Option Image) (maskX maskY destX destY : Int) (region : Region) :
    Region × Bool :=
  match mask with
  | none => (region, true)
  | some m =>
    if m.haveClip then
      andThen (clipSourceImage region m.toImageCore (wrap32 (destX - maskX)) (wrap32 (destY - maskY)))
        (srcAlphaStep m maskX maskY destX destY)
    else (region, true)

/-- _pixman_compute_composite_region32.  The incoming value of `*region` is not read. -/
def computeCompositeRegion32 (src : Image) (mask : Option Image) (dest : Image)
    (srcX srcY maskX maskY destX destY width height : Int) : Region × Bool :=
  match initialBox dest.toImageCore destX destY width height with
  | none => (⟨emptyBox, .single⟩, false)
  | some b =>
    andThen (andThen (andThen (andThen (destClipStep dest ⟨b, .single⟩)
      (destAlphaStep dest))
      (srcStep src srcX srcY destX destY))
      (srcAlphaStep src srcX srcY destX destY))
      (maskStep mask maskX maskY destX destY)

/-- pixman_compute_composite_region (16-bit public entry): arguments are `int16_t`/`uint16_t`;
    on FALSE the caller's region is left untouched. -/
def computeCompositeRegion16 (region : Region) (src : Image) (mask : Option Image) (dest : Image)
    (srcX srcY maskX maskY destX destY width height : Int) : Region × Bool :=
  let p := computeCompositeRegion32 src mask dest srcX srcY maskX maskY destX destY width height
  if p.2 then region16FromRegion32 p.1 else (region, false)

/-! ### the per-box loop of pixman_image_composite32 -/

/-- the geometric fields of `pixman_composite_info_t` -/
structure Info where
  srcX : Int
  srcY : Int
  maskX : Int
  maskY : Int
  destX : Int
  destY : Int
  width : Int
  height : Int
deriving Repr, DecidableEq, Inhabited

def boxInfo (srcX srcY maskX maskY destX destY : Int) (b : Box) : Info :=
  { srcX := wrap32 (wrap32 (b.x1 + srcX) - destX)
    srcY := wrap32 (wrap32 (b.y1 + srcY) - destY)
    maskX := wrap32 (wrap32 (b.x1 + maskX) - destX)
    maskY := wrap32 (wrap32 (b.y1 + maskY) - destY)
    destX := b.x1
    destY := b.y1
    width := wrap32 (b.x2 - b.x1)
    height := wrap32 (b.y2 - b.y1) }

/-- `while (n--) { … func (imp, &info); pbox++; }` -/
def compositeBoxes (region : Region) (srcX srcY maskX maskY destX destY : Int) : List Info :=
  region.rects.map (boxInfo srcX srcY maskX maskY destX destY)

end Pixman.CompositeRegion

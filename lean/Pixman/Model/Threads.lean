/-! # Threads — footprint model of concurrent drawing (C16)

An abstract machine whose memory is a map from *locations* to values.  The locations are the pieces
of state that pixman's drawing entry points touch:

* process-wide state of the library: `global_implementation` and the implementation chain it points
  to (pixman.c:33-41, written by `pixman_constructor` before `main`), the CPU-feature memo of
  `have_feature` (pixman-x86.c:209), the SSE2 constant masks (pixman-sse2.c:42-60, written by
  `_pixman_implementation_create_sse2`), the message counter of `_pixman_log_error`
  (pixman-utils.c:318);
* per-thread state: the fast-path cache (`PIXMAN_DEFINE_THREAD_LOCAL (cache_t, fast_path_cache)`,
  pixman-implementation.c:66);
* per-object state: for every image its pixels, its client-set properties (transform, filter, repeat,
  clip, alpha map: written only by the `pixman_image_set_*` setters) and its *derived* state
  (`common.dirty`, `common.flags`, `extended_format_code`, the fetcher pointers: written by
  `_pixman_image_validate`, pixman-image.c:547-566, the first time the image is used after a
  setter); regions and glyph caches are single cells.

Every API request of a thread is a `Step`: a read footprint, a write footprint, an effect and an
observation (what the caller gets to see: the pixels it drew / the region it computed).  Nothing of
the C memory model or the scheduler is modelled: an execution is a list of `(thread, step)` pairs run
atomically in list order (sequential consistency at the granularity of API calls).  The tie of the
footprint table to the code is the ThreadSanitizer run of checks/C16.py. -/
namespace Pixman.Model.Threads

/-- thread identifiers -/
abbrev Tid := Nat
/-- object identifiers (images, regions, glyph caches) -/
abbrev Obj := Nat

inductive Loc where
  | globalImpl
  | cpuMemo
  | simdConst
  | logCounter
  | tlsCache (t : Tid)
  | imgPixels (i : Obj)
  | imgProps (i : Obj)
  | imgDerived (i : Obj)
  | region (r : Obj)
  | glyphCache (c : Obj)
  deriving DecidableEq, Repr

abbrev Val := Nat
abbrev State := Loc → Val

def State.set (σ : State) (l : Loc) (v : Val) : State := fun l' => if l' = l then v else σ l'

/-- one API call as seen by the machine -/
structure Step where
  reads : List Loc
  writes : List Loc
  eff : State → State
  obs : State → Val

abbrev Event := Tid × Step

/-- run an interleaving (a list of events) atomically, in order -/
def run : List Event → State → State
  | [], σ => σ
  | e :: es, σ => run es (e.2.eff σ)

/-- the observations thread `t` makes during an interleaving -/
def observe (t : Tid) : List Event → State → List Val
  | [], _ => []
  | e :: es, σ => if e.1 = t then e.2.obs σ :: observe t es (e.2.eff σ) else observe t es (e.2.eff σ)

/-- the events of thread `t` (its program, running alone) -/
def solo (t : Tid) (es : List Event) : List Event := es.filter (fun e => e.1 = t)

/-- a step honours its footprint on the states satisfying `Inv`: locations outside the write
    footprint keep their value; the values written and the observation depend only on the read
    footprint; `Inv` is preserved -/
structure Step.Respects (Inv : State → Prop) (s : Step) : Prop where
  frame : ∀ σ l, Inv σ → l ∉ s.writes → s.eff σ l = σ l
  dep : ∀ σ σ', Inv σ → Inv σ' → (∀ l ∈ s.reads, σ l = σ' l) →
        (∀ l ∈ s.writes, s.eff σ l = s.eff σ' l) ∧ s.obs σ = s.obs σ'
  pres : ∀ σ, Inv σ → Inv (s.eff σ)

/-- footprint-level data-race freedom: no location written by a step of one thread is read or
    written by a step of another thread -/
def RaceFree (es : List Event) : Prop :=
  ∀ e₁ ∈ es, ∀ e₂ ∈ es, e₁.1 ≠ e₂.1 → ∀ l ∈ e₁.2.writes, l ∉ e₂.2.reads ∧ l ∉ e₂.2.writes

/-- some step of the execution writes `l` -/
def WrittenIn (es : List Event) (l : Loc) : Prop := ∃ e ∈ es, l ∈ e.2.writes

/-- the discipline the property names: every location a thread writes is owned by that thread, and
    every location it reads is its own or is written by no step at all (immutable after publication) -/
def Discipline (owner : Loc → Option Tid) (es : List Event) : Prop :=
  ∀ e ∈ es, (∀ l ∈ e.2.writes, owner l = some e.1) ∧
            (∀ l ∈ e.2.reads, owner l = some e.1 ∨ ¬ WrittenIn es l)

/-- thread `t` accesses `l` somewhere in the execution -/
def Accesses (t : Tid) (es : List Event) (l : Loc) : Prop :=
  ∃ e ∈ es, e.1 = t ∧ (l ∈ e.2.reads ∨ l ∈ e.2.writes)

/-! ## The API steps -/

/-- encoding of the derived state of an image in one cell: `0` = dirty, `n + 1` = clean with the
    derived information `n` (flags, extended format code, fetchers) -/
def isDirty (v : Val) : Bool := v == 0

/-- `_pixman_image_validate` (pixman-image.c:547): recompute the derived information from the
    properties when the image is dirty, nothing otherwise.  An image and its alpha map (validated by
    the recursive call at pixman-image.c:564) count as ONE object here: the derived cell stands for
    the derived state of both, and the harness observes both under the same name. -/
def validateCell (derive : Val → Val) (props derived : Val) : Val :=
  if isDirty derived then derive props + 1 else derived

/-- the state after `_pixman_image_validate (image i)` -/
def validate (derive : Val → Val) (i : Obj) (σ : State) : State :=
  σ.set (.imgDerived i) (validateCell derive (σ (.imgProps i)) (σ (.imgDerived i)))

/-- the uninterpreted parts of the library: the theorems hold for every choice -/
structure Fns where
  derive : Val → Val                      -- compute_image_info + property_changed
  render : List Val → Val                 -- new destination pixels from everything that was read
  cache : List Val → Val                  -- new fast-path cache contents
  regionOp : List Val → Val
  glyphOp : List Val → Val
  setter : List Val → Val → Val           -- new properties from the old ones and the argument

/-- requests a thread can issue -/
inductive Req where
  /-- `pixman_image_composite32`, `pixman_composite_trapezoids/_triangles` (source → destination);
      `mask = none` for no mask -/
  | composite (dst src : Obj) (mask : Option Obj)
  /-- `pixman_fill`, `pixman_image_fill_rectangles/_boxes`, `pixman_add_trapezoids`,
      `pixman_rasterize_trapezoid`, `pixman_add_triangles`: destination only -/
  | fill (dst : Obj)
  /-- region algebra `d := a op b` -/
  | regionOp (d a b : Obj)
  /-- `pixman_composite_glyphs(_no_mask)` with glyph cache `c` -/
  | glyphs (c dst src : Obj)
  /-- a `pixman_image_set_*` setter on image `i` with argument `arg` -/
  | setProp (i : Obj) (arg : Val)
  /-- an erroneous call that ends in `_pixman_log_error` -/
  | badCall
  deriving DecidableEq, Repr

/-- images declared *clean and frozen*: used once (validated) before the threads start and never
    handed to a setter afterwards -/
abbrev Clean := Obj → Bool

/-- read footprint of using image `i` as a source or mask -/
def srcReads (i : Obj) : List Loc := [.imgProps i, .imgDerived i, .imgPixels i]
/-- write footprint of using image `i`: `_pixman_image_validate` writes the derived state unless the
    image is clean -/
def useWrites (clean : Clean) (i : Obj) : List Loc := if clean i then [] else [.imgDerived i]

def maskList : Option Obj → List Obj
  | none => []
  | some m => [m]

/-- read footprint of a request of thread `t` -/
def Req.reads (t : Tid) : Req → List Loc
  | .composite d s m =>
      [.globalImpl, .tlsCache t] ++ srcReads s ++ (maskList m).flatMap srcReads ++ srcReads d
  | .fill d => [.globalImpl] ++ srcReads d
  | .regionOp _ a b => [.region a, .region b]
  | .glyphs c d s => [.globalImpl, .tlsCache t, .glyphCache c] ++ srcReads s ++ srcReads d
  | .setProp i _ => [.imgProps i]
  | .badCall => [.logCounter]

/-- write footprint of a request of thread `t` -/
def Req.writes (clean : Clean) (t : Tid) : Req → List Loc
  | .composite d s m =>
      [.tlsCache t, .imgPixels d] ++ useWrites clean d ++ useWrites clean s ++ (maskList m).flatMap (useWrites clean)
  | .fill d => [.imgPixels d] ++ useWrites clean d
  | .regionOp d _ _ => [.region d]
  | .glyphs c d s => [.tlsCache t, .glyphCache c, .imgPixels d] ++ useWrites clean d ++ useWrites clean s
  | .setProp i _ => [.imgProps i, .imgDerived i]
  | .badCall => [.logCounter]

/-- validate the images of a list, in order (only those not declared clean are touched: on a clean
    image the call is the identity, `validate_clean`) -/
def validateAll (F : Fns) (clean : Clean) : List Obj → State → State
  | [], σ => σ
  | i :: is, σ => validateAll F clean is (if clean i then σ else validate F.derive i σ)

/-- the images a request uses (validated on entry) -/
def Req.uses : Req → List Obj
  | .composite d s m => d :: s :: maskList m
  | .fill d => [d]
  | .glyphs _ d s => [d, s]
  | _ => []

/-- the explicit stores of a request (after validation), computed from the values `vals` of its read
    footprint: destination pixels, thread-local fast-path cache (move-to-front on every lookup), region,
    glyph cache (the lookup reorders nothing but freeze/thaw and insertion write it), properties. -/
def Req.outs (F : Fns) (t : Tid) (r : Req) (vals : List Val) : List (Loc × Val) :=
  match r with
  | .composite d _ _ => [(.imgPixels d, F.render vals), (.tlsCache t, F.cache vals)]
  | .fill d => [(.imgPixels d, F.render vals)]
  | .regionOp d _ _ => [(.region d, F.regionOp vals)]
  | .glyphs c d _ => [(.imgPixels d, F.render vals), (.glyphCache c, F.glyphOp vals), (.tlsCache t, F.cache vals)]
  | .setProp i a => [(.imgProps i, F.setter vals a), (.imgDerived i, 0)]
  | .badCall => [(.logCounter, vals.headD 0 + 1)]

/-- perform a list of stores, in order -/
def applyOuts : List (Loc × Val) → State → State
  | [], σ => σ
  | (l, v) :: os, σ => applyOuts os (σ.set l v)

/-- effect of a request of thread `t`: validate the images used, then store -/
def Req.eff (F : Fns) (clean : Clean) (t : Tid) (r : Req) (σ : State) : State :=
  let σ₁ := validateAll F clean r.uses σ
  applyOuts (r.outs F t ((r.reads t).map σ₁)) σ₁

/-- the location whose new contents the caller observes: the object it drew into / computed -/
def Req.target : Req → Option Loc
  | .composite d _ _ => some (.imgPixels d)
  | .fill d => some (.imgPixels d)
  | .regionOp d _ _ => some (.region d)
  | .glyphs _ d _ => some (.imgPixels d)
  | .setProp _ _ => none
  | .badCall => none

def Req.obs (F : Fns) (clean : Clean) (t : Tid) (r : Req) (σ : State) : Val :=
  match r.target with
  | some l => r.eff F clean t σ l
  | none => 0

/-- well-formedness against the clean declaration: a setter is never applied to an image declared
    clean and frozen -/
def Req.wf (clean : Clean) : Req → Bool
  | .setProp i _ => !clean i
  | _ => true

/-- the machine step of a request -/
def Req.step (F : Fns) (clean : Clean) (t : Tid) (r : Req) : Step :=
  { reads := r.reads t, writes := r.writes clean t, eff := r.eff F clean t, obs := r.obs F clean t }

/-- the *unrestricted* effect: what the code does, i.e. `_pixman_image_validate` is called on every
    image used, clean or not -/
def Req.effReal (F : Fns) (t : Tid) (r : Req) (σ : State) : State := r.eff F (fun _ => false) t σ

/-- the invariant under which the clean images' footprint is exact: every image declared clean is
    not dirty -/
def CleanInv (clean : Clean) (σ : State) : Prop := ∀ i, clean i = true → isDirty (σ (.imgDerived i)) = false

/-- ownership of locations induced by an ownership of objects (`none` = shared) -/
def locOwner (own : Obj → Option Tid) (regOwn : Obj → Option Tid) (cacheOwn : Obj → Option Tid) : Loc → Option Tid
  | .tlsCache t => some t
  | .imgPixels i => own i
  | .imgProps i => own i
  | .imgDerived i => own i
  | .region r => regOwn r
  | .glyphCache c => cacheOwn c
  | _ => none

/-- a request of thread `t` is within the property's discipline: the destination, the regions, the
    glyph cache and the target of a setter belong to `t`; sources and masks belong to `t` or are
    shared, clean and frozen; no erroneous calls -/
def Req.ok (own regOwn cacheOwn : Obj → Option Tid) (clean : Clean) (t : Tid) : Req → Bool
  | .composite d s m =>
      own d == some t && (own s == some t || (own s == none && clean s)) &&
      (maskList m).all (fun x => own x == some t || (own x == none && clean x))
  | .fill d => own d == some t
  | .regionOp d a b => regOwn d == some t && regOwn a == some t && regOwn b == some t
  | .glyphs c d s => cacheOwn c == some t && own d == some t && (own s == some t || (own s == none && clean s))
  | .setProp i _ => own i == some t
  | .badCall => false

end Pixman.Model.Threads

/-
  Model of pixman/pixman-matrix.c — the integer entry points.

  Hand-written; tied to the code by the correspondence check `harness/matrix.c` <-> `pixdrv matrix`.
  One Lean function per C function.  C integers are `Int`s; every place where the C code narrows a
  value (conversion to `int32_t`/`int16_t`/`int64_t`, unsigned 64-bit arithmetic, `<<` on
  `uint64_t`) is written as an explicit `wrapS32`/`wrapS16`/`wrapS64`/`wrapU64`.  Signed 64-bit sums
  and products of `pixman_transform_point_31_16*` and `pixman_transform_multiply` are written without
  a wrap: `Props/C11.lean` (`tmp_in_int64`, `mulEntry_in_int64`) proves they stay inside `int64_t`
  for every input the asserts admit, so C and the model agree there.  `x >> k` on a signed value is
  `x / 2^k` (floor), `x & 0xFFFF` is `x % 65536`.

  `assert`s: a function whose C body contains (or reaches) an `assert` returns `Option`; `none` is
  `abort()`.  "Never aborts" is therefore a theorem `(f …).isSome`.  The arithmetic behind the
  assertion of `rounded_udiv_128_by_48` is `udivCore`, so that its correctness can be stated for the
  closed range `0 < div ≤ 2^48` independently of the assertion (`div <= 2^48` since the repair of defect A).

  Signed negations that are undefined behaviour in C for `INT32_MIN`/`INT64_MIN` are modelled as the
  two's complement wrap the compiled library performs (`negS32`).

  No Mathlib; total functions only.
-/
namespace Pixman.Matrix

/-! ### C integer conversions -/

/-- conversion to `uint64_t` -/
def wrapU64 (x : Int) : Int := x % 18446744073709551616
/-- conversion to `int64_t` -/
def wrapS64 (x : Int) : Int := (x + 9223372036854775808) % 18446744073709551616 - 9223372036854775808
/-- conversion to `int32_t` (`pixman_fixed_t`) -/
def wrapS32 (x : Int) : Int := (x + 2147483648) % 4294967296 - 2147483648
/-- conversion to `int16_t` -/
def wrapS16 (x : Int) : Int := (x + 32768) % 65536 - 32768

def isI32 (x : Int) : Prop := -2147483648 ≤ x ∧ x ≤ 2147483647
def isI16 (x : Int) : Prop := -32768 ≤ x ∧ x ≤ 32767
def isI64 (x : Int) : Prop := -9223372036854775808 ≤ x ∧ x ≤ 9223372036854775807
def isU64 (x : Int) : Prop := 0 ≤ x ∧ x < 18446744073709551616
instance (x : Int) : Decidable (isI32 x) := by unfold isI32; infer_instance
instance (x : Int) : Decidable (isI16 x) := by unfold isI16; infer_instance
instance (x : Int) : Decidable (isI64 x) := by unfold isI64; infer_instance
instance (x : Int) : Decidable (isU64 x) := by unfold isU64; infer_instance

/-- `-x` on `int32_t` as compiled (wraps at `INT32_MIN`) -/
def negS32 (x : Int) : Int := wrapS32 (-x)

def INT64_MAX : Int := 9223372036854775807
def INT64_MIN : Int := -9223372036854775808
/-- `pixman_fixed_1` -/
def fixed1 : Int := 65536

/-! ### data -/

/-- `struct pixman_transform`: `mIJ = matrix[I][J]` -/
structure Transform where
  m00 : Int
  m01 : Int
  m02 : Int
  m10 : Int
  m11 : Int
  m12 : Int
  m20 : Int
  m21 : Int
  m22 : Int
deriving Repr, DecidableEq, Inhabited

/-- `struct pixman_vector` (16.16) and `pixman_vector_48_16_t` (48.16) -/
structure Vec where
  x : Int
  y : Int
  z : Int
deriving Repr, DecidableEq, Inhabited

/-- `struct pixman_box16` -/
structure Box16 where
  x1 : Int
  y1 : Int
  x2 : Int
  y2 : Int
deriving Repr, DecidableEq, Inhabited

def Transform.isI32 (t : Transform) : Prop :=
  Matrix.isI32 t.m00 ∧ Matrix.isI32 t.m01 ∧ Matrix.isI32 t.m02 ∧
  Matrix.isI32 t.m10 ∧ Matrix.isI32 t.m11 ∧ Matrix.isI32 t.m12 ∧
  Matrix.isI32 t.m20 ∧ Matrix.isI32 t.m21 ∧ Matrix.isI32 t.m22

def Vec.isI32 (v : Vec) : Prop := Matrix.isI32 v.x ∧ Matrix.isI32 v.y ∧ Matrix.isI32 v.z

/-- the input condition asserted by the `31_16` entry points: at most 31 integer bits -/
def is3116 (x : Int) : Prop := -70368744177664 ≤ x ∧ x < 70368744177664
instance (x : Int) : Decidable (is3116 x) := by unfold is3116; infer_instance

/-! ### rounded_udiv_128_by_48 -/

/-- body of `rounded_udiv_128_by_48` after the assertion; all arguments are `uint64_t`.
    Returns `(result_lo, *result_hi)`. -/
def udivCore (hi lo div : Int) : Int × Int :=
  let remainder := hi % div
  let resultHi := hi / div
  let tmp := wrapU64 (wrapU64 (remainder * 65536) + lo / 281474976710656)
  let resultLo := tmp / div
  let remainder := tmp % div
  let tmp := wrapU64 (wrapU64 (remainder * 65536) + (lo / 4294967296) % 65536)
  let resultLo := wrapU64 (wrapU64 (resultLo * 65536) + tmp / div)
  let remainder := tmp % div
  let tmp := wrapU64 (wrapU64 (remainder * 65536) + (lo / 65536) % 65536)
  let resultLo := wrapU64 (wrapU64 (resultLo * 65536) + tmp / div)
  let remainder := tmp % div
  let tmp := wrapU64 (wrapU64 (remainder * 65536) + lo % 65536)
  let resultLo := wrapU64 (wrapU64 (resultLo * 65536) + tmp / div)
  let remainder := tmp % div
  -- round to nearest:  if (remainder * 2 >= div && ++result_lo == 0) *result_hi += 1;
  if wrapU64 (remainder * 2) ≥ div then
    let resultLo := wrapU64 (resultLo + 1)
    if resultLo = 0 then (resultLo, wrapU64 (resultHi + 1)) else (resultLo, resultHi)
  else (resultLo, resultHi)

/-- `assert(div <= ((uint64_t)1 << 48))` -/
def udivAssert (div : Int) : Bool := div ≤ 281474976710656

/-- `rounded_udiv_128_by_48 (hi, lo, div, &result_hi)`: `none` = the assertion failed (abort). -/
def roundedUdiv128By48 (hi lo div : Int) : Option (Int × Int) :=
  if udivAssert div then some (udivCore hi lo div) else none

/-! ### rounded_sdiv_128_by_49 -/

/-- sign handling of `rounded_sdiv_128_by_49` up to the call of the unsigned division:
    `(hi, lo, div, sign)` as passed on (all reinterpreted as `uint64_t`). -/
def sdivPrepare (hi lo div : Int) : Int × Int × Int × Bool :=
  let sign : Bool := decide (div < 0)                       -- if (div < 0) { div = -div; sign ^= 1; }
  let div := if div < 0 then wrapS64 (-div) else div
  if hi < 0 then
    let hi := if lo ≠ 0 then wrapS64 (hi + 1) else hi       -- if (lo != 0) hi++;
    (wrapU64 (wrapS64 (-hi)), wrapU64 (-lo), wrapU64 div, !sign)
  else (wrapU64 hi, lo, wrapU64 div, sign)

/-- sign handling after the unsigned division; returns `(return value, *signed_result_hi)` as `int64_t`s -/
def sdivFinish (resultLo resultHi : Int) (sign : Bool) : Int × Int :=
  if sign then
    let resultHi := if resultLo ≠ 0 then wrapU64 (resultHi + 1) else resultHi
    (wrapS64 (wrapU64 (-resultLo)), wrapS64 (wrapU64 (-resultHi)))
  else (wrapS64 resultLo, wrapS64 resultHi)

/-- `rounded_sdiv_128_by_49 (hi, lo, div, &rhi)`: `hi`, `div` are `int64_t`, `lo` is `uint64_t`.
    Returns `(rlo, rhi)` as the caller stores them (both `int64_t`); `none` = abort. -/
def roundedSdiv128By49 (hi lo div : Int) : Option (Int × Int) :=
  let p := sdivPrepare hi lo div
  match roundedUdiv128By48 p.1 p.2.1 p.2.2.1 with
  | none => none
  | some r => some (sdivFinish r.1 r.2 p.2.2.2)

/-! ### fixed_64_16_to_int128, fixed_112_16_to_fixed_48_16 -/

/-- `fixed_64_16_to_int128 (hi, lo, &rhi, &rlo, scalebits)`; returns `(rhi, rlo)` (`int64_t`s; the
    callers pass `rlo` on as `uint64_t`, which is `wrapU64`). -/
def fixed6416ToInt128 (hi lo : Int) (scalebits : Int) : Int × Int :=
  let hi := wrapS64 (hi + lo / 65536)
  let lo := lo % 65536
  if scalebits ≤ 0 then
    let rlo := hi / 2 ^ (-scalebits).toNat
    (rlo / 9223372036854775808, rlo)
  else
    let rhi := hi / 2 ^ (64 - scalebits).toNat
    let rlo := wrapS64 (wrapU64 hi * 2 ^ scalebits.toNat)
    let rlo :=
      if scalebits < 16 then wrapS64 (rlo + lo / 2 ^ (16 - scalebits).toNat)
      else wrapS64 (rlo + lo * 2 ^ (scalebits - 16).toNat)
    (rhi, rlo)

/-- `fixed_112_16_to_fixed_48_16 (hi, lo, &clampflag)`; returns `(value, clampflag was set)` -/
def fixed11216ToFixed4816 (hi lo : Int) : Int × Bool :=
  if lo / 9223372036854775808 ≠ hi then
    (if hi ≥ 0 then INT64_MAX else INT64_MIN, true)
  else (lo, false)

/-! ### pixman_transform_point_31_16 and friends -/

/-- `v >> 16` -/
def hi16 (v : Int) : Int := v / 65536
/-- `v & 0xFFFF` -/
def lo16 (v : Int) : Int := v % 65536

/-- `tmp[i][0]` for the row `(a b c)` -/
def rowHi (a b c : Int) (v : Vec) : Int := a * hi16 v.x + b * hi16 v.y + c * hi16 v.z
/-- `tmp[i][1]` for the row `(a b c)` -/
def rowLo (a b c : Int) (v : Vec) : Int := a * lo16 v.x + b * lo16 v.y + c * lo16 v.z

/-- `tmp[i][0] + ((tmp[i][1] + 0x8000) >> 16)` -/
def roundRow (h l : Int) : Int := h + (l + 32768) / 65536

/-- the six `assert`s on the input vector -/
def vecAssert (v : Vec) : Bool :=
  decide (is3116 v.x) && decide (is3116 v.y) && decide (is3116 v.z)

/-- `32 - count_leading_zeros (x)` for `x > 0`: the bit length -/
def bitLength (x : Int) : Int := if x ≤ 0 then 0 else (Nat.log2 x.toNat + 1 : Nat)

/-- one coordinate of the projective branches:
    `fixed_64_16_to_int128; rounded_sdiv_128_by_49; fixed_112_16_to_fixed_48_16` -/
def projCoord (h l div : Int) (scalebits : Int) : Option (Int × Bool) :=
  let n := fixed6416ToInt128 h l scalebits
  match roundedSdiv128By49 n.1 (wrapU64 n.2) div with
  | none => none
  | some r => some (fixed11216ToFixed4816 r.2 r.1)

/-- clamp of the zero-divisor branch -/
def clampSign (r : Int) : Int := if r > 0 then INT64_MAX else if r < 0 then INT64_MIN else r

/-- the divisor handed to `rounded_sdiv_128_by_49` and the `scalebits` of the numerators, for the
    two projective branches (`divint`, `divfrac` not both the affine/zero pattern) -/
def projDivisor (divint divfrac : Int) : Int × Int :=
  let hi32divbits := wrapS32 (divint / 4294967296)
  let hi32divbits := if hi32divbits < 0 then -hi32divbits - 1 else hi32divbits   -- ~x
  if hi32divbits = 0 then
    (wrapS64 (wrapU64 (wrapU64 divint * 65536) + divfrac), 32)
  else
    let shift := bitLength hi32divbits
    ((fixed6416ToInt128 divint divfrac (16 - shift)).2, 32 - shift)

/-- `pixman_transform_point_31_16 (t, v, result)`: `none` = abort, else `(return value, *result)` -/
def transformPoint3116 (t : Transform) (v : Vec) : Option (Bool × Vec) :=
  if !vecAssert v then none else
  let t00 := rowHi t.m00 t.m01 t.m02 v
  let t01 := rowLo t.m00 t.m01 t.m02 v
  let t10 := rowHi t.m10 t.m11 t.m12 v
  let t11 := rowLo t.m10 t.m11 t.m12 v
  let t20 := rowHi t.m20 t.m21 t.m22 v
  let t21 := rowLo t.m20 t.m21 t.m22 v
  let divint := t20 + t21 / 65536
  let divfrac := t21 % 65536
  if divint = fixed1 ∧ divfrac = 0 then
    some (true, ⟨roundRow t00 t01, roundRow t10 t11, fixed1⟩)
  else if divint = 0 ∧ divfrac = 0 then
    some (false, ⟨clampSign (roundRow t00 t01), clampSign (roundRow t10 t11), fixed1⟩)
  else
    let pd := projDivisor divint divfrac
    match projCoord t00 t01 pd.1 pd.2 with
    | none => none
    | some x =>
      match projCoord t10 t11 pd.1 pd.2 with
      | none => none
      | some y => some (!(x.2 || y.2), ⟨x.1, y.1, fixed1⟩)

/-- `pixman_transform_point_31_16_affine`: four asserts (x and y only); `v.z` is not read -/
def transformPoint3116Affine (t : Transform) (v : Vec) : Option Vec :=
  if !(decide (is3116 v.x) && decide (is3116 v.y)) then none else
  let hi0 := t.m00 * hi16 v.x + t.m01 * hi16 v.y + t.m02
  let lo0 := t.m00 * lo16 v.x + t.m01 * lo16 v.y
  let hi1 := t.m10 * hi16 v.x + t.m11 * hi16 v.y + t.m12
  let lo1 := t.m10 * lo16 v.x + t.m11 * lo16 v.y
  some ⟨roundRow hi0 lo0, roundRow hi1 lo1, fixed1⟩

/-- `pixman_transform_point_31_16_3d` -/
def transformPoint31163d (t : Transform) (v : Vec) : Option Vec :=
  if !vecAssert v then none else
  some ⟨roundRow (rowHi t.m00 t.m01 t.m02 v) (rowLo t.m00 t.m01 t.m02 v),
        roundRow (rowHi t.m10 t.m11 t.m12 v) (rowLo t.m10 t.m11 t.m12 v),
        roundRow (rowHi t.m20 t.m21 t.m22 v) (rowLo t.m20 t.m21 t.m22 v)⟩

/-- the tail shared by `pixman_transform_point{,_3d}`: store to `pixman_fixed_t`, compare -/
def truncVec (tmp : Vec) : Bool × Vec :=
  let r : Vec := ⟨wrapS32 tmp.x, wrapS32 tmp.y, wrapS32 tmp.z⟩
  (r.x = tmp.x && r.y = tmp.y && r.z = tmp.z, r)

/-- `pixman_transform_point_3d (transform, vector)`: `(return value, *vector afterwards)` -/
def transformPoint3d (t : Transform) (v : Vec) : Option (Bool × Vec) :=
  match transformPoint31163d t v with
  | none => none
  | some tmp => some (truncVec tmp)

/-- `pixman_transform_point (transform, vector)`: `(return value, *vector afterwards)`;
    when the 31.16 routine reports clamping the vector is left untouched. -/
def transformPoint (t : Transform) (v : Vec) : Option (Bool × Vec) :=
  match transformPoint3116 t v with
  | none => none
  | some (false, _) => some (false, v)
  | some (true, tmp) => some (truncVec tmp)

/-! ### pixman_transform_multiply and the constructors -/

/-- `(partial + 0x8000) >> 16` for `partial = a * b` -/
def mulTerm (a b : Int) : Int := (a * b + 32768) / 65536

/-- the accumulated `v` of one destination entry -/
def mulEntry (a0 a1 a2 b0 b1 b2 : Int) : Int := mulTerm a0 b0 + mulTerm a1 b1 + mulTerm a2 b2

/-- `v > pixman_max_fixed_48_16 || v < pixman_min_fixed_48_16` negated -/
def entryOk (v : Int) : Bool := !(v > 2147483647 || v < -2147483648)

/-- `pixman_transform_multiply (dst, l, r)`: `none` = FALSE (dst untouched) -/
def multiply (l r : Transform) : Option Transform :=
  let d00 := mulEntry l.m00 l.m01 l.m02 r.m00 r.m10 r.m20
  let d01 := mulEntry l.m00 l.m01 l.m02 r.m01 r.m11 r.m21
  let d02 := mulEntry l.m00 l.m01 l.m02 r.m02 r.m12 r.m22
  let d10 := mulEntry l.m10 l.m11 l.m12 r.m00 r.m10 r.m20
  let d11 := mulEntry l.m10 l.m11 l.m12 r.m01 r.m11 r.m21
  let d12 := mulEntry l.m10 l.m11 l.m12 r.m02 r.m12 r.m22
  let d20 := mulEntry l.m20 l.m21 l.m22 r.m00 r.m10 r.m20
  let d21 := mulEntry l.m20 l.m21 l.m22 r.m01 r.m11 r.m21
  let d22 := mulEntry l.m20 l.m21 l.m22 r.m02 r.m12 r.m22
  if entryOk d00 && entryOk d01 && entryOk d02 && entryOk d10 && entryOk d11 && entryOk d12 &&
     entryOk d20 && entryOk d21 && entryOk d22 then
    some ⟨wrapS32 d00, wrapS32 d01, wrapS32 d02, wrapS32 d10, wrapS32 d11, wrapS32 d12,
          wrapS32 d20, wrapS32 d21, wrapS32 d22⟩
  else none

def initIdentity : Transform := ⟨fixed1, 0, 0, 0, fixed1, 0, 0, 0, fixed1⟩
def initScale (sx sy : Int) : Transform := ⟨sx, 0, 0, 0, sy, 0, 0, 0, fixed1⟩
def initRotate (c s : Int) : Transform := ⟨c, negS32 s, 0, s, c, 0, 0, 0, fixed1⟩
def initTranslate (tx ty : Int) : Transform := ⟨fixed1, 0, tx, 0, fixed1, ty, 0, 0, fixed1⟩

/-- `fixed_inverse`: C division truncates towards zero, the cast to `pixman_fixed_t` wraps -/
def fixedInverse (x : Int) : Int := wrapS32 (Int.tdiv 4294967296 x)

/-- shared shape of scale/rotate/translate: `forward := tf * forward`; then, inside `if (reverse)`,
    the operand check (`revOk = false`: return FALSE — `forward` has already been stored) and
    `reverse := reverse * tr`.  Either pointer may be NULL (`none`).
    Returns `(return value, *forward, *reverse)` afterwards. -/
def applyPair (forward reverse : Option Transform) (tf : Transform) (revOk : Bool) (tr : Transform) :
    Bool × Option Transform × Option Transform :=
  match forward with
  | some f =>
    match multiply tf f with
    | none => (false, forward, reverse)
    | some f' =>
      match reverse with
      | some r =>
        if !revOk then (false, some f', reverse) else
        match multiply r tr with
        | none => (false, some f', reverse)
        | some r' => (true, some f', some r')
      | none => (true, some f', none)
  | none =>
    match reverse with
    | some r =>
      if !revOk then (false, none, reverse) else
      match multiply r tr with
      | none => (false, none, reverse)
      | some r' => (true, none, some r')
    | none => (true, none, none)

/-- `(sx >= -1 && sx <= 2) || (sy >= -1 && sy <= 2)`: the reciprocal of one factor does not fit 16.16 -/
def scaleInverseOverflows (sx sy : Int) : Bool :=
  (decide (sx ≥ -1) && decide (sx ≤ 2)) || (decide (sy ≥ -1) && decide (sy ≤ 2))

/-- `pixman_transform_scale (forward, reverse, sx, sy)` -/
def scale (forward reverse : Option Transform) (sx sy : Int) : Bool × Option Transform × Option Transform :=
  if sx = 0 ∨ sy = 0 then (false, forward, reverse)
  else applyPair forward reverse (initScale sx sy) (!scaleInverseOverflows sx sy)
         (initScale (fixedInverse sx) (fixedInverse sy))

/-- `pixman_transform_rotate (forward, reverse, c, s)`; `s == INT32_MIN` is refused up front (both
    rotation matrices contain `-s`) -/
def rotate (forward reverse : Option Transform) (c s : Int) : Bool × Option Transform × Option Transform :=
  if s = -2147483648 then (false, forward, reverse)
  else applyPair forward reverse (initRotate c s) true (initRotate c (negS32 s))

/-- `pixman_transform_translate (forward, reverse, tx, ty)`; the reverse block refuses `INT32_MIN` -/
def translate (forward reverse : Option Transform) (tx ty : Int) : Bool × Option Transform × Option Transform :=
  applyPair forward reverse (initTranslate tx ty) (decide (tx ≠ -2147483648) && decide (ty ≠ -2147483648))
    (initTranslate (negS32 tx) (negS32 ty))

/-! ### pixman_transform_bounds -/

/-- `F (i)` = `pixman_int_to_fixed` -/
def intToFixed (i : Int) : Int := wrapS32 (i * 65536)
/-- `pixman_fixed_to_int` -/
def fixedToInt (f : Int) : Int := f / 65536
/-- `pixman_fixed_frac` -/
def fixedFrac (f : Int) : Int := f % 65536

/-- `x1 + (pixman_fixed_frac (v) != 0)`: the ceiling as an integer, without `pixman_fixed_ceil` -/
def ceilInt (f : Int) : Int := fixedToInt f + (if fixedFrac f ≠ 0 then 1 else 0)

/-- `x2 > INT16_MAX || y2 > INT16_MAX` -/
def upperEdgeOverflows (p : Vec) : Bool := decide (ceilInt p.x > 32767) || decide (ceilInt p.y > 32767)

/-- one iteration of the corner loop on the box under construction (after the overflow test) -/
def boundsStep (first : Bool) (b : Box16) (p : Vec) : Box16 :=
  let x1 := fixedToInt p.x
  let y1 := fixedToInt p.y
  let x2 := ceilInt p.x
  let y2 := ceilInt p.y
  if first then ⟨wrapS16 x1, wrapS16 y1, wrapS16 x2, wrapS16 y2⟩
  else
    ⟨if x1 < b.x1 then wrapS16 x1 else b.x1, if y1 < b.y1 then wrapS16 y1 else b.y1,
     if x2 > b.x2 then wrapS16 x2 else b.x2, if y2 > b.y2 then wrapS16 y2 else b.y2⟩

/-- the corner loop: `(return value, box afterwards)`; `none` = abort inside `pixman_transform_point` -/
def boundsLoop (t : Transform) (first : Bool) (b : Box16) : List Vec → Option (Bool × Box16)
  | [] => some (true, b)
  | c :: rest =>
    match transformPoint t c with
    | none => none
    | some (false, _) => some (false, b)
    | some (true, p) =>
      if upperEdgeOverflows p then some (false, b)
      else boundsLoop t false (boundsStep first b p) rest

/-- the four corners in the order of the C code -/
def corners (b : Box16) : List Vec :=
  [⟨intToFixed b.x1, intToFixed b.y1, fixed1⟩, ⟨intToFixed b.x2, intToFixed b.y1, fixed1⟩,
   ⟨intToFixed b.x2, intToFixed b.y2, fixed1⟩, ⟨intToFixed b.x1, intToFixed b.y2, fixed1⟩]

/-- `pixman_transform_bounds (matrix, b)` -/
def bounds (t : Transform) (b : Box16) : Option (Bool × Box16) :=
  boundsLoop t true b (corners b)

/-! ### predicates -/

/-- `within_epsilon (a, b, epsilon)`; the subtraction and the negation wrap in `int32_t` -/
def withinEpsilon (a b eps : Int) : Bool :=
  let t := wrapS32 (a - b)
  let t := if t < 0 then wrapS32 (-t) else t
  t ≤ eps

def isSame (a b : Int) : Bool := withinEpsilon a b 2
def isZero (a : Int) : Bool := withinEpsilon a 0 2
def isOne (a : Int) : Bool := withinEpsilon a fixed1 2
/-- `IS_INT (a)` = `IS_ZERO (pixman_fixed_frac (a))` -/
def isInt (a : Int) : Bool := isZero (a % 65536)

def isIdentity (t : Transform) : Bool :=
  isSame t.m00 t.m11 && isSame t.m00 t.m22 && !isZero t.m00 && isZero t.m01 && isZero t.m02 &&
  isZero t.m10 && isZero t.m12 && isZero t.m20 && isZero t.m21

def isScale (t : Transform) : Bool :=
  !isZero t.m00 && isZero t.m01 && isZero t.m02 && isZero t.m10 && !isZero t.m11 && isZero t.m12 &&
  isZero t.m20 && isZero t.m21 && !isZero t.m22

def isIntTranslate (t : Transform) : Bool :=
  isOne t.m00 && isZero t.m01 && isInt t.m02 && isZero t.m10 && isOne t.m11 && isInt t.m12 &&
  isZero t.m20 && isZero t.m21 && isOne t.m22

def isInverse (a b : Transform) : Bool :=
  match multiply a b with
  | none => false
  | some t => isIdentity t

end Pixman.Matrix

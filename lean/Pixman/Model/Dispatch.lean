/-! Model of `pixman-implementation.c`: the delegate chain of implementations, the fast-path table
walk and the 8-entry move-to-front cache of `_pixman_implementation_lookup_composite`, the
`PIXMAN_DISABLE` construction of the chain (`_pixman_choose_implementation`), and the `blt` /
`fill` delegation loops.  Core Lean only; one Lean function per C function, C control flow kept. -/
namespace Pixman.Model.Dispatch

/-- `PIXMAN_OP_any` = `PIXMAN_N_OPERATORS + 1` -/
def opAny : Nat := 64
/-- `PIXMAN_any` = `PIXMAN_FORMAT (0, 5, 0, 0, 0, 0)` -/
def fmtAny : Nat := 0x50000

/-- the seven values a lookup is keyed by (`op`, three format codes, three flag words) -/
structure Key where
  op : Nat
  srcFormat : Nat
  srcFlags : Nat
  maskFormat : Nat
  maskFlags : Nat
  destFormat : Nat
  destFlags : Nat
deriving DecidableEq, Repr

/-- one `pixman_fast_path_t`: the pattern and the identity of `func` -/
structure Entry where
  pat : Key
  func : Nat
deriving DecidableEq, Repr

/-- the match test of the table walk: operator equal or `PIXMAN_OP_any`, each format equal or
`PIXMAN_any`, and every flag the entry requires present in the request -/
def admits (e : Entry) (k : Key) : Bool :=
  (e.pat.op == k.op || e.pat.op == opAny) &&
  (e.pat.srcFormat == k.srcFormat || e.pat.srcFormat == fmtAny) &&
  (e.pat.maskFormat == k.maskFormat || e.pat.maskFormat == fmtAny) &&
  (e.pat.destFormat == k.destFormat || e.pat.destFormat == fmtAny) &&
  (e.pat.srcFlags &&& k.srcFlags == e.pat.srcFlags) &&
  (e.pat.maskFlags &&& k.maskFlags == e.pat.maskFlags) &&
  (e.pat.destFlags &&& k.destFlags == e.pat.destFlags)

/-- `fast_paths[]` of one implementation (the `PIXMAN_OP_NONE` terminator is the end of the list) -/
abbrev Table := List Entry
/-- the delegate chain, toplevel first, `fallback` = tail -/
abbrev Chain := List Table

/-- what a lookup returns: the implementation (position in the chain), the entry's index, the entry -/
structure Ans where
  level : Nat
  index : Nat
  entry : Entry
deriving DecidableEq, Repr

/-- `while (info->op != PIXMAN_OP_NONE) { if (match) ...; ++info; }` -/
def findFrom (i : Nat) : Table → Key → Option (Nat × Entry)
  | [], _ => none
  | e :: es, k => if admits e k then some (i, e) else findFrom (i + 1) es k

/-- `for (imp = toplevel; imp != NULL; imp = imp->fallback)` -/
def walkFrom (l : Nat) : Chain → Key → Option Ans
  | [], _ => none
  | t :: ts, k =>
    match findFrom 0 t k with
    | some (i, e) => some ⟨l, i, e⟩
    | none => walkFrom (l + 1) ts k

/-- the table walk: first admitting entry along the delegate chain -/
def tableWalk (c : Chain) (k : Key) : Option Ans := walkFrom 0 c k

/-- `N_CACHED_FAST_PATHS` -/
def nCached : Nat := 8

/-- the thread-local cache: used slots in order (unused slots, `func == NULL`, are always at the end) -/
abbrev Cache := List (Key × Ans)

/-- the scan `for (i = 0; i < N_CACHED_FAST_PATHS; ++i)` with the exact-equality test -/
def cacheFind (i : Nat) : Cache → Key → Option (Nat × Ans)
  | [], _ => none
  | (k', a) :: rest, k => if k' = k then some (i, a) else cacheFind (i + 1) rest k

/-- `_pixman_implementation_lookup_composite`: cache scan, else table walk; `update_cache:` moves the
hit (or the new entry, with `i = N_CACHED_FAST_PATHS - 1`) to the front, shifting the `i` entries
before it down by one; `if (i)` leaves a hit in slot 0 alone; a failed walk returns the dummy and
does not touch the cache. -/
def lookupCached (c : Chain) (cache : Cache) (k : Key) : Option Ans × Cache :=
  match cacheFind 0 cache k with
  | some (i, a) => (some a, if i = 0 then cache else (k, a) :: cache.eraseIdx i)
  | none =>
    match tableWalk c k with
    | some a => (some a, ((k, a) :: cache).take nCached)
    | none => (none, cache)

/-- a history of lookups against one chain, threading the cache -/
def lookupHistory (c : Chain) : Cache → List Key → List (Option Ans) × Cache
  | cache, [] => ([], cache)
  | cache, k :: ks =>
    let r := lookupCached c cache k
    let rest := lookupHistory c r.2 ks
    (r.1 :: rest.1, rest.2)

/-! ### `_pixman_choose_implementation` -/

/-- an implementation of the chain: its name (as `PIXMAN_DISABLE` spells it) and its table -/
structure Impl where
  name : String
  table : Table
deriving Repr

/-- the chain built when the implementations named in `disabled` are left out: `general` is always
created, `noop` is always put on top; `fast`, `mmx`, `sse2`, `ssse3` are skipped when disabled -/
def chooseImplementations (all : List Impl) (disabled : String → Bool) : List Impl :=
  all.filter fun i => !(disabled i.name)

/-- `if (_pixman_disabled ("wholeops")) for (cur = imp; cur->fallback; cur = cur->fallback)
cur->fast_paths = empty_fast_path;` — every table except the last one (general) is emptied -/
def disableWholeops : Chain → Chain
  | [] => []
  | [g] => [g]
  | _ :: t :: ts => [] :: disableWholeops (t :: ts)

/-! ### `_pixman_implementation_blt` / `_pixman_implementation_fill` -/

/-- a `blt`/`fill` member: `none` = NULL pointer; `some f` = function that reports success and
leaves the memory in some state -/
abbrev MemOp (Mem : Type) := Option (Mem → Bool × Mem)

/-- `while (imp) { if (imp->blt && (*imp->blt) (...)) return TRUE; imp = imp->fallback; } return FALSE;` -/
def delegate {Mem : Type} : List (MemOp Mem) → Mem → Bool × Mem
  | [], m => (false, m)
  | none :: rest, m => delegate rest m
  | some f :: rest, m =>
    let r := f m
    if r.1 then (true, r.2) else delegate rest r.2

end Pixman.Model.Dispatch

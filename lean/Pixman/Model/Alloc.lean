/-
  C04 — size arithmetic in front of every allocation: `_pixman_multiply_overflows_size/int`,
  `_pixman_addition_overflows_int`, `pixman_malloc_ab / abc / ab_plus_c` (pixman/pixman-utils.c) and
  `create_bits` (pixman/pixman-bits-image.c), with the C integer widths written out:
  `unsigned int` = mod 2^32, `int` results of conversions = two's complement, `size_t` = mod
  `sizeMax + 1` (`sizeMax` is a parameter; the library under test has 2^64 - 1).

  A division by zero (`INT32_MAX / b` with `b = 0`) is the outcome `crash`; the request to `malloc`
  is the outcome `alloc n` (whether `malloc` itself succeeds is outside the model).
-/
namespace Pixman.Model.Alloc

def INT32_MAX : Int := 2147483647
/-- conversion to `unsigned int` -/
def wrapU32 (x : Int) : Int := x % 4294967296
/-- conversion to `int` -/
def wrapI32 (x : Int) : Int := (x + 2147483648) % 4294967296 - 2147483648
/-- conversion to `size_t` -/
def wrapSize (sizeMax x : Int) : Int := x % (sizeMax + 1)

inductive Outcome where
  | crash : Outcome           -- integer division by zero
  | null : Outcome            -- returned NULL without calling malloc
  | alloc : Int → Outcome     -- `malloc (n)` was called with this `size_t`
deriving Repr, DecidableEq

/-- `_pixman_multiply_overflows_size (a, b)`: `a >= SIZE_MAX / b`; `none` = division by zero -/
def multiplyOverflowsSize (sizeMax a b : Int) : Option Bool :=
  if b = 0 then none else some (decide (a ≥ sizeMax / b))

/-- `_pixman_multiply_overflows_int (a, b)` on `unsigned int`: `a >= INT32_MAX / b` -/
def multiplyOverflowsInt (a b : Int) : Option Bool :=
  if b = 0 then none else some (decide (a ≥ INT32_MAX / b))

/-- `_pixman_addition_overflows_int (a, b)` on `unsigned int`: `a > INT32_MAX - b` (unsigned
    subtraction) -/
def additionOverflowsInt (a b : Int) : Bool := decide (a > wrapU32 (INT32_MAX - b))

/-- `pixman_malloc_ab (a, b)`; arguments already converted to `unsigned int` -/
def mallocAb (a b : Int) : Outcome :=
  if b = 0 then .crash
  else if a ≥ INT32_MAX / b then .null
  else .alloc (wrapU32 (a * b))

/-- `pixman_malloc_abc (a, b, c)` -/
def mallocAbc (a b c : Int) : Outcome :=
  if b = 0 then .crash
  else if a ≥ INT32_MAX / b then .null
  else if c = 0 then .crash
  else if wrapU32 (a * b) ≥ INT32_MAX / c then .null
  else .alloc (wrapU32 (wrapU32 (a * b) * c))

/-- `pixman_malloc_ab_plus_c (a, b, c)`: `!b || a >= INT32_MAX / b || (a * b) > INT32_MAX - c` -/
def mallocAbPlusC (a b c : Int) : Outcome :=
  if b = 0 then .null
  else if a ≥ INT32_MAX / b then .null
  else if wrapU32 (a * b) > wrapU32 (INT32_MAX - c) then .null
  else .alloc (wrapU32 (wrapU32 (a * b) + c))

/-- result of `create_bits`: the stride stored through `rowstride_bytes` and the size handed to
    `calloc`/`malloc` -/
inductive Bits where
  | crash : Bits
  | null : Bits
  | ok (stride bufSize : Int) : Bits
deriving Repr, DecidableEq

/-- `create_bits (format, width, height, &rowstride_bytes, clear)` with `bpp = PIXMAN_FORMAT_BPP
    (format)`; `width`, `height`, `bpp` are C `int`s. -/
def createBits (sizeMax bpp width height : Int) : Bits :=
  match multiplyOverflowsInt (wrapU32 width) (wrapU32 bpp) with
  | none => .crash
  | some true => .null
  | some false =>
    let stride := wrapI32 (width * bpp)
    if additionOverflowsInt (wrapU32 stride) 31 then .null
    else
      let stride := wrapI32 (stride + 31)
      let stride := stride / 32                                   -- `>>= 5` (arithmetic)
      let stride := wrapI32 (wrapSize sizeMax (wrapSize sizeMax stride * 4))  -- `*= sizeof (uint32_t)`
      match multiplyOverflowsSize sizeMax (wrapSize sizeMax height) (wrapSize sizeMax stride) with
      | none => .crash
      | some true => .null
      | some false => .ok stride (wrapSize sizeMax (wrapSize sizeMax height * wrapSize sizeMax stride))

end Pixman.Model.Alloc

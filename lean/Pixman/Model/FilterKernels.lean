import Pixman.Model.Filter
/-! # Exact-rational model of the sampling and normalisation arithmetic of `pixman/pixman-filter.c`
for the POLYNOMIAL kernels IMPULSE (0), BOX (1), LINEAR (2), CUBIC (3).

The C code computes in `double`; here every operation is the exact operation on `Rat`, in the order and with the
control flow of the C code (`integral`'s special cases, its two LINEAR splits, the 12-segment Simpson loops;
`create_1d_filter`'s `frac`, `x1`, `pos`, `rlow … ihigh`, `floor (c * 65536.0 + 0.5)`, and the normalisation loop
with error diffusion).  Differences between this model and the library are therefore rounding errors of the double
evaluation only (plus `1/3.0`, `1.0 / scale`, `width / 12`, which are not exact doubles); the check bounds them
(checks/C18.py, request `exact`).  GAUSSIAN, LANCZOS2, LANCZOS3, LANCZOS3_STRETCHED (`exp`, `sin`) are not modelled. -/
namespace Pixman.Model.FilterKernels
open Pixman.Model.Filter

/-! ## kernels -/

/-- `impulse_kernel` -/
def impulse (x : Rat) : Rat := if x = 0 then 1 else 0
/-- `box_kernel` -/
def box (_x : Rat) : Rat := 1
/-- `linear_kernel`: `1 - fabs (x)` -/
def linear (x : Rat) : Rat := 1 - x.abs

/-- `general_cubic (x, B, C)` -/
def generalCubic (x B C : Rat) : Rat :=
  let ax := x.abs
  if ax < 1 then
    (((12 - 9 * B - 6 * C) * ax + (-18 + 12 * B + 6 * C)) * ax * ax + (6 - 2 * B)) / 6
  else if ax < 2 then
    ((((-B - 6 * C) * ax + (6 * B + 30 * C)) * ax + (-12 * B - 48 * C)) * ax + (8 * B + 24 * C)) / 6
  else 0

/-- `cubic_kernel`: Mitchell-Netravali, `general_cubic (x, 1/3.0, 1/3.0)` (here with the exact 1/3) -/
def cubic (x : Rat) : Rat := generalCubic x (1 / 3) (1 / 3)

/-- `filters[k].func` for the polynomial kernels -/
def kernel : Nat → Rat → Rat
  | 0 => impulse
  | 1 => box
  | 2 => linear
  | 3 => cubic
  | _ => fun _ => 0

def isPoly (k : Nat) : Bool := k < 4

/-! ## integral() -/

/-- `SAMPLE (a1, a2)` = `filters[kernel1].func (a1) * filters[kernel2].func (a2 * scale)` -/
def sampleAt (k1 k2 : Nat) (scale a1 a2 : Rat) : Rat := kernel k1 a1 * kernel k2 (a2 * scale)

/-- the Simpson branch of `integral()`: `N_SEGMENTS = 12`; the two `for` loops run over the odd `i = 1, 3, …, 11` and
    the even `i = 2, 4, …, 10` -/
def simpson (k1 : Nat) (x1 : Rat) (k2 : Nat) (scale x2 width : Rat) : Rat :=
  let h := width / 12
  let s := sampleAt k1 k2 scale x1 x2
  let s := [1, 3, 5, 7, 9, 11].foldl (fun s (i : Nat) => s + 4 * sampleAt k1 k2 scale (x1 + h * i) (x2 + h * i)) s
  let s := [2, 4, 6, 8, 10].foldl (fun s (i : Nat) => s + 2 * sampleAt k1 k2 scale (x1 + h * i) (x2 + h * i)) s
  let s := s + sampleAt k1 k2 scale (x1 + width) (x2 + width)
  h * s * (1 / 3)

/-- sum of two sub-integrals (`none` propagates) -/
def optAdd : Option Rat → Option Rat → Option Rat
  | some a, some b => some (a + b)
  | _, _ => none

/-- `integral (kernel1, x1, kernel2, scale, x2, width)`; the recursion of the two LINEAR splits is bounded by `fuel`
    (measured: never exhausted; the driver reports it).  `none` = out of fuel, or one of the two `assert (width == 0.0)` fails. -/
def integralF : Nat → (k1 : Nat) → (x1 : Rat) → (k2 : Nat) → (scale x2 width : Rat) → Option Rat
  | 0, _, _, _, _, _, _ => none
  | fuel + 1, k1, x1, k2, scale, x2, width =>
    if k1 = 1 ∧ k2 = 1 then some width
    else if k1 = 2 ∧ x1 < 0 ∧ x1 + width > 0 then
      optAdd (integralF fuel k1 x1 k2 scale x2 (-x1)) (integralF fuel k1 0 k2 scale (x2 - x1) (width + x1))
    else if k2 = 2 ∧ x2 < 0 ∧ x2 + width > 0 then
      optAdd (integralF fuel k1 x1 k2 scale x2 (-x2)) (integralF fuel k1 (x1 - x2) k2 scale 0 (width + x2))
    else if k1 = 0 then (if width = 0 then some (kernel k2 (x2 * scale)) else none)
    else if k2 = 0 then (if width = 0 then some (kernel k1 x1) else none)
    else some (simpson k1 x1 k2 scale x2 width)

def integral := integralF 8

/-! ## create_1d_filter: sampling -/

def kw (k : Nat) : Rat := (kernelWidth k : Nat)

/-- `frac = step / 2.0 + i * step`, `step = 1.0 / n_phases` -/
def frac (n i : Nat) : Rat := (1 / (n : Rat)) / 2 + i * (1 / (n : Rat))

/-- `pos = x + 0.5 - frac` for tap `k` (`x = x1 + k`, `x1 = ceil (frac - width / 2.0 - 0.5)`) -/
def pos (w n i k : Nat) : Rat := ((firstTap w n i + k : Int) : Rat) + 1 / 2 - frac n i

/-- the coefficient `c` of one tap: body of the sampling loop (`scale` is the real scale, `|fixed| / 65536`) -/
def coeff (r s : Nat) (scale pos : Rat) : Option Rat :=
  let rlow := -(kw r) / 2
  let rhigh := rlow + kw r
  let slow := pos - scale * kw s / 2
  let shigh := slow + scale * kw s
  if rhigh ≥ slow ∧ rlow ≤ shigh then
    let ilow := max slow rlow
    let ihigh := min shigh rhigh
    integral r ilow s (1 / scale) (ilow - pos) (ihigh - ilow)
  else some 0

/-- the argument of the sampling loop's `floor`: `c * 65536.0 + 0.5` -/
def rawArg (c : Rat) : Rat := c * 65536 + 1 / 2
/-- `*p = (pixman_fixed_t) floor (c * 65536.0 + 0.5)` -/
def rawOf (c : Rat) : Int := (rawArg c).floor

/-- `fabs (pixman_fixed_to_double (scale))` -/
def scaleOf (fixed : Int) : Rat := (fixed.natAbs : Nat) / 65536

/-- the exact sampled coefficients of phase `i` (taps `0 … w-1`) -/
def coeffs (r s : Nat) (fixed : Int) (w n i : Nat) : List (Option Rat) :=
  (List.range w).map fun k => coeff r s (scaleOf fixed) (pos w n i k)

/-! ## create_1d_filter: normalisation with error diffusion -/

/-- `total = (total != 0.0) ? 65536.0 / total : 0.0` -/
def normFactor (total : Int) : Rat := if total ≠ 0 then 65536 / (total : Rat) else 0

/-- `v = (*p) * total + e; t = floor (v + 0.5); e = v - t; new_total += t; *p++ = t;` -/
def normLoop (c : Rat) : List Int → Rat → List Int
  | [], _ => []
  | r :: rs, e =>
    let v := (r : Rat) * c + e
    let t := (v + 1 / 2).floor
    t :: normLoop c rs (v - t)

def sumInts : List Int → Int
  | [] => 0
  | a :: r => a + sumInts r

/-- the normalised values of a phase before the residual is added -/
def normalise (raws : List Int) : List Int := normLoop (normFactor (sumInts raws)) raws 0

/-- NOT the code — for comparison: rounding every normalised value on its own, without error diffusion -/
def plainRound (c : Rat) (raws : List Int) : List Int := raws.map fun (r : Int) => ((r : Rat) * c + 1 / 2).floor

/-- the error `e` left after the loop -/
def normErr (c : Rat) : List Int → Rat → Rat
  | [], e => e
  | r :: rs, e =>
    let v := (r : Rat) * c + e
    normErr c rs (v - ((v + 1 / 2).floor : Int))

/-- the same loop when the roundings `ts` are GIVEN (the library's own): error left after following them -/
def followErr (c : Rat) : List Int → List Int → Rat → Rat
  | r :: rs, t :: ts, e => followErr c rs ts ((r : Rat) * c + e - t)
  | _, _, e => e

/-! ## IEEE-754 binary64 bit patterns (how the harness transmits the library's doubles) -/

/-- the exact value of a finite double given by its 64 bits; `none` for NaN and infinities -/
def ofBits (b : Nat) : Option Rat :=
  let sign : Nat := b / 2 ^ 63 % 2
  let e : Nat := b / 2 ^ 52 % 2048
  let m : Nat := b % 2 ^ 52
  if e = 2047 then none
  else
    let sig : Nat := if e = 0 then m else 2 ^ 52 + m
    let ex : Nat := if e = 0 then 1 else e
    let mag : Rat := if ex ≥ 1075 then ((sig * 2 ^ (ex - 1075) : Nat) : Rat)
      else ((sig : Nat) : Rat) / ((2 ^ (1075 - ex) : Nat) : Rat)
    some (if sign = 1 then -mag else mag)

end Pixman.Model.FilterKernels

import Pixman.Model.Matrix
import Pixman.Model.Sample
/-
  C08 — the reference fetchers of pixman/pixman-bits-image.c (narrow, 32-bit pipeline), as they are
  in /repo now (after 0d1b5b1 "divide by the homogeneous coordinate in signed arithmetic" and 151778e
  "convolution results below zero clamp to 0"):

    fetch_pixel_no_alpha_32, bits_image_fetch_pixel_nearest / _bilinear_32 / _convolution /
    _separable_convolution, accum_32 / reduce_32, bits_image_fetch_pixel_filtered,
    __bits_image_fetch_affine_no_alpha, __bits_image_fetch_general,
    pixman_fixed_to_bilinear_weight and bilinear_interpolation (64-bit variant, SIZEOF_LONG > 4,
    BILINEAR_INTERPOLATION_BITS = 7) of pixman-inlines.h, `repeat ()` (from Model/Sample.lean),
    and the part of pixman.c that decides whether a composite request is carried out at all
    (compute_transformed_extents / analyze_extent) together with pixman_image_set_transform's
    "identity is no transform".

  Hand-written, core Lean only, total functions; tied to the code by `harness/sample.c` <->
  `pixdrv sample` under every PIXMAN_DISABLE configuration (the specialised fetchers of
  pixman-fast-path.c / pixman-sse2.c / pixman-ssse3.c must reproduce these reference results).

  Conventions (as in Model/Matrix.lean): C integers are `Int`s, every narrowing conversion or
  possibly wrapping `pixman_fixed_t` operation is an explicit `wrapS32`/`wrapU32`; `x >> k` on a
  signed value is `x / 2^k` (floor), `x & (2^k-1)` is `x % 2^k`.  Pixels are a8r8g8b8 words (`Nat`).
  `params` is `common.filter_params` as a list of `pixman_fixed_t`; reading beyond it (undefined in
  C) yields 0.
-/
namespace Pixman.Model.Fetch
open Pixman.Matrix Pixman.Sample

/-- conversion to `uint32_t` / `unsigned int` -/
def wrapU32 (x : Int) : Int := x % 4294967296

inductive Filter where
  | nearest | bilinear | convolution | separable
deriving Repr, DecidableEq, Inhabited

/-- the fields of `bits_image_t` / `image_common_t` the fetchers read.  `fetch x y` is
    `image->fetch_pixel_32 (image, x, y)`, meaningful for `0 ≤ x < width`, `0 ≤ y < height` -/
structure Bits where
  width : Int
  height : Int
  fetch : Int → Int → Nat
  rep : RepeatMode
  filter : Filter
  params : List Int

/-- `params[i]` -/
def param (p : List Int) (i : Int) : Int := if i < 0 then 0 else p.getD i.toNat 0

/-! ### pixel access -/

/-- `fetch_pixel_no_alpha_32 (image, x, y, check_bounds, out)` -/
def getPixel (b : Bits) (x y : Int) (checkBounds : Bool) : Nat :=
  if checkBounds = true ∧ (x < 0 ∨ x ≥ b.width ∨ y < 0 ∨ y ≥ b.height) then 0 else b.fetch x y

/-- `repeat (mode, &c, size)` used for its effect on `*c` (mode ≠ NONE, so it returns TRUE) -/
def repeatCoord (mode : RepeatMode) (c size : Int) : Int := («repeat» mode c size).getD c

/-- the pattern every filter uses per tap:
    `if (repeat_mode != NONE) { repeat (&x, width); repeat (&y, height); get_pixel (x, y, FALSE) }
     else get_pixel (x, y, TRUE)` -/
def tap (b : Bits) (x y : Int) : Nat :=
  if b.rep ≠ .none then
    getPixel b (repeatCoord b.rep x b.width) (repeatCoord b.rep y b.height) false
  else
    getPixel b x y true

/-! ### NEAREST -/

/-- `bits_image_fetch_pixel_nearest`: `x0 = pixman_fixed_to_int (x - pixman_fixed_e)` -/
def fetchNearest (b : Bits) (x y : Int) : Nat :=
  let x0 := fixedToInt (wrapS32 (x - 1))
  let y0 := fixedToInt (wrapS32 (y - 1))
  tap b x0 y0

/-! ### BILINEAR -/

/-- `pixman_fixed_to_bilinear_weight`: `(x >> (16 - 7)) & ((1 << 7) - 1)` -/
def bilinearWeight (x : Int) : Int := (x / 512) % 128

/-- `bilinear_interpolation` of pixman-inlines.h, the `SIZEOF_LONG > 4` variant with
    `BILINEAR_INTERPOLATION_BITS = 7`; `uint64_t` arithmetic (no term can reach 2^64: the weights sum
    to 2^16 and the masked pixels are below 2^40) -/
def bilinearInterpolation (tl tr bl br : Nat) (distx disty : Nat) : Nat :=
  let distx := distx <<< 1
  let disty := disty <<< 1
  let distxy := distx * disty
  let distxiy := distx * (256 - disty)
  let distixy := (256 - distx) * disty
  let distixiy := (256 - distx) * (256 - disty)
  -- Alpha and Blue
  let tl64 := tl &&& 0xff0000ff
  let tr64 := tr &&& 0xff0000ff
  let bl64 := bl &&& 0xff0000ff
  let br64 := br &&& 0xff0000ff
  let f := tl64 * distixiy + tr64 * distxiy + bl64 * distixy + br64 * distxy
  let r := f &&& 0x0000ff0000ff0000
  -- Red and Green
  let tl64 := ((tl <<< 16) &&& 0x000000ff00000000) ||| (tl &&& 0x0000ff00)
  let tr64 := ((tr <<< 16) &&& 0x000000ff00000000) ||| (tr &&& 0x0000ff00)
  let bl64 := ((bl <<< 16) &&& 0x000000ff00000000) ||| (bl &&& 0x0000ff00)
  let br64 := ((br <<< 16) &&& 0x000000ff00000000) ||| (br &&& 0x0000ff00)
  let f := tl64 * distixiy + tr64 * distxiy + bl64 * distixy + br64 * distxy
  let r := r ||| (((f >>> 16) &&& 0x000000ff00000000) ||| (f &&& 0xff000000))
  (r >>> 16) % 4294967296

/-- `bits_image_fetch_pixel_bilinear_32` -/
def fetchBilinear (b : Bits) (x y : Int) : Nat :=
  let x1 := wrapS32 (x - 32768)
  let y1 := wrapS32 (y - 32768)
  let distx := bilinearWeight x1
  let disty := bilinearWeight y1
  let x1 := fixedToInt x1
  let y1 := fixedToInt y1
  let x2 := x1 + 1
  let y2 := y1 + 1
  let tl := tap b x1 y1
  let tr := tap b x2 y1
  let bl := tap b x1 y2
  let br := tap b x2 y2
  bilinearInterpolation tl tr bl br distx.toNat disty.toNat

/-! ### CONVOLUTION / SEPARABLE_CONVOLUTION -/

def ALPHA_8 (p : Nat) : Int := (p >>> 24 : Nat)
def RED_8 (p : Nat) : Int := ((p >>> 16) &&& 0xff : Nat)
def GREEN_8 (p : Nat) : Int := ((p >>> 8) &&& 0xff : Nat)
def BLUE_8 (p : Nat) : Int := (p &&& 0xff : Nat)

/-- the four `unsigned int` totals -/
structure Acc where
  a : Int
  r : Int
  g : Int
  b : Int
deriving Repr, DecidableEq, Inhabited

/-- `accum_32`: `*srtot += (int)RED_8 (pixel) * f` on `unsigned int` -/
def accum32 (t : Acc) (pixel : Nat) (f : Int) : Acc :=
  ⟨wrapU32 (t.a + ALPHA_8 pixel * f), wrapU32 (t.r + RED_8 pixel * f),
   wrapU32 (t.g + GREEN_8 pixel * f), wrapU32 (t.b + BLUE_8 pixel * f)⟩

/-- one channel of `reduce_32`: `CLIP ((int32_t)(tot + 0x8000) >> 16, 0, 0xff)` -/
def reduceChan (tot : Int) : Int := CLIP (wrapS32 (tot + 32768) / 65536) 0 255

/-- `reduce_32` (as repaired by 151778e: the sums are read as signed) -/
def reduce32 (t : Acc) : Nat :=
  ((reduceChan t.a).toNat <<< 24) ||| ((reduceChan t.r).toNat <<< 16) |||
  ((reduceChan t.g).toNat <<< 8) ||| (reduceChan t.b).toNat

/-- inner statement of both convolution loops: `if (f) { pixel = tap (rx, ry); accum (pixel, f) }` -/
def accumTap (b : Bits) (acc : Acc) (rx ry f : Int) : Acc :=
  if f ≠ 0 then accum32 acc (tap b rx ry) f else acc

/-- first pixel under the kernel: `x_off = (params[0] - pixman_fixed_1) >> 1;
    x1 = pixman_fixed_to_int (x - pixman_fixed_e - x_off)` -/
def convOrigin (p0 x : Int) : Int := fixedToInt (wrapS32 (x - 1 - (p0 - 65536) / 2))

/-- `bits_image_fetch_pixel_convolution` -/
def fetchConvolution (b : Bits) (x y : Int) : Nat :=
  let params := b.params
  let cwidth := fixedToInt (param params 0)
  let cheight := fixedToInt (param params 1)
  let x1 := convOrigin (param params 0) x
  let y1 := convOrigin (param params 1) y
  let tot := (List.range cheight.toNat).foldl (fun acc (i : Nat) =>
      (List.range cwidth.toNat).foldl (fun acc (j : Nat) =>
        accumTap b acc (x1 + j) (y1 + i) (param params (2 + (i : Int) * cwidth + j))) acc)
    (⟨0, 0, 0, 0⟩ : Acc)
  reduce32 tot

/-- `x = ((x >> shift) << shift) + ((1 << shift) >> 1)`: middle of the closest phase -/
def phaseRound (x : Int) (shift : Nat) : Int := wrapS32 ((x / 2 ^ shift) * 2 ^ shift + (2 ^ shift) / 2)

/-- `(x & 0xffff) >> shift` -/
def phaseIndex (x : Int) (shift : Nat) : Int := (x % 65536) / 2 ^ shift

/-- `f = (fy * fx + 0x8000) >> 16` in 64 bits, stored to a `pixman_fixed_t` -/
def sepWeight (fy fx : Int) : Int := wrapS32 ((fy * fx + 32768) / 65536)

/-- `bits_image_fetch_pixel_separable_convolution` -/
def fetchSeparable (b : Bits) (x y : Int) : Nat :=
  let params := b.params
  let cwidth := fixedToInt (param params 0)
  let cheight := fixedToInt (param params 1)
  let x_phase_bits := fixedToInt (param params 2)
  let y_phase_bits := fixedToInt (param params 3)
  let x_phase_shift := (16 - x_phase_bits).toNat
  let y_phase_shift := (16 - y_phase_bits).toNat
  let x := phaseRound x x_phase_shift
  let y := phaseRound y y_phase_shift
  let px := phaseIndex x x_phase_shift
  let py := phaseIndex y y_phase_shift
  let yBase := 4 + (2 ^ x_phase_bits.toNat : Int) * cwidth + py * cheight
  let xBase := 4 + px * cwidth
  -- x_off = ((cwidth << 16) - pixman_fixed_1) >> 1; x1 = pixman_fixed_to_int (x - pixman_fixed_e - x_off)
  let x1 := convOrigin (cwidth * 65536) x
  let y1 := convOrigin (cheight * 65536) y
  let tot := (List.range cheight.toNat).foldl (fun acc (i : Nat) =>
      let fy := param params (yBase + i)
      if fy ≠ 0 then
        (List.range cwidth.toNat).foldl (fun acc (j : Nat) =>
          let fx := param params (xBase + j)
          if fx ≠ 0 then accum32 acc (tap b (x1 + j) (y1 + i)) (sepWeight fy fx) else acc) acc
      else acc)
    (⟨0, 0, 0, 0⟩ : Acc)
  reduce32 tot

/-- `bits_image_fetch_pixel_filtered` (narrow) -/
def fetchFiltered (b : Bits) (x y : Int) : Nat :=
  match b.filter with
  | .nearest => fetchNearest b x y
  | .bilinear => fetchBilinear b x y
  | .convolution => fetchConvolution b x y
  | .separable => fetchSeparable b x y

/-! ### scanline fetchers -/

/-- the loop of `__bits_image_fetch_affine_no_alpha` (no mask): `fetch (x, y); x += ux; y += uy` -/
def affineLoop (b : Bits) (ux uy : Int) : Nat → Int → Int → List Nat
  | 0, _, _ => []
  | n + 1, x, y => fetchFiltered b x y :: affineLoop b ux uy n (wrapS32 (x + ux)) (wrapS32 (y + uy))

/-- `__bits_image_fetch_affine_no_alpha (iter, FALSE, NULL)` for `iter->x = offset`, `iter->y = line`,
    `iter->width = width`.  `none`: `pixman_transform_point_3d` failed and the function returned
    without writing the scanline buffer. -/
def fetchAffine (b : Bits) (t : Option Transform) (offset line : Int) (width : Nat) : Option (List Nat) :=
  let v := pixelCentre offset line
  match t with
  | none => some (affineLoop b fixed1 0 width v.x v.y)
  | some t =>
    match transformPoint3d t v with
    | some (true, p) => some (affineLoop b t.m00 t.m10 width p.x p.y)
    | _ => none

/-- the per-pixel division of `__bits_image_fetch_general` (as repaired by 0d1b5b1):
    `((pixman_fixed_48_16_t)x * 65536) / w` (C division truncates), stored to a `pixman_fixed_t` -/
def divW (x w : Int) : Int := if w ≠ 0 then wrapS32 (Int.tdiv (x * 65536) w) else 0

/-- the loop of `__bits_image_fetch_general` (no mask, no alpha map) -/
def generalLoop (b : Bits) (ux uy uw : Int) : Nat → Int → Int → Int → List Nat
  | 0, _, _, _ => []
  | n + 1, x, y, w =>
    fetchFiltered b (divW x w) (divW y w) ::
      generalLoop b ux uy uw n (wrapS32 (x + ux)) (wrapS32 (y + uy)) (wrapS32 (w + uw))

/-- `__bits_image_fetch_general (iter, FALSE, NULL)` on an image without alpha map -/
def fetchGeneral (b : Bits) (t : Option Transform) (offset line : Int) (width : Nat) : Option (List Nat) :=
  let v := pixelCentre offset line
  match t with
  | none => some (generalLoop b fixed1 0 0 width v.x v.y v.z)
  | some t =>
    match transformPoint3d t v with
    | some (true, p) => some (generalLoop b t.m00 t.m10 t.m20 width p.x p.y p.z)
    | _ => none

/-! ### coordinate arithmetic of the specialised scaled-NEAREST loops
  (`FAST_NEAREST_MAINLOOP` of pixman-inlines.h, `fast_composite_scaled_nearest` of pixman-fast-path.c;
  only the index computation — the loop structure, padding zones and SIMD bodies are tied to the
  reference fetchers by the correspondence check alone) -/

/-- COVER / NONE / PAD variants: `v.vector[0] -= pixman_fixed_e` once before the loop, then per pixel
    `x = pixman_fixed_to_int (vx); vx += unit_x` -/
def scaledNearestIndex (v0 unit : Int) (i : Nat) : Int := fixedToInt (stepped (wrapS32 (v0 - 1)) unit i)

/-- NORMAL variant: `vx` is kept inside `[0, width << 16)` by `repeat (NORMAL, &vx, src_width_fixed)`
    (initially and after every step); the pixel index is `pixman_fixed_to_int` of that -/
def scaledNearestIndexNormal (vx width : Int) : Int := fixedToInt (repeatCoord .normal vx (width * 65536))

/-! ### which requests are carried out, and by which reference fetcher -/

/-- `pixman_image_set_transform`: the identity matrix is stored as "no transform" -/
def setTransform (t : Transform) : Option Transform := if t = initIdentity then none else some t

/-- `FAST_PATH_AFFINE_TRANSFORM` of compute_image_info -/
def isAffine (t : Option Transform) : Bool :=
  match t with
  | none => true
  | some t => t.m20 = 0 && t.m21 = 0 && t.m22 = fixed1

/-- `box_48_16_t` -/
structure Box48 where
  x1 : Int
  y1 : Int
  x2 : Int
  y2 : Int
deriving Repr, DecidableEq, Inhabited

/-- the loop body of `compute_transformed_extents` over the four corners -/
def extentsLoop (t : Transform) : List Vec → Box48 → Option Box48
  | [], acc => some acc
  | v :: rest, acc =>
    match transformPoint t v with
    | some (true, p) =>
      extentsLoop t rest ⟨if p.x < acc.x1 then p.x else acc.x1, if p.y < acc.y1 then p.y else acc.y1,
                           if p.x > acc.x2 then p.x else acc.x2, if p.y > acc.y2 then p.y else acc.y2⟩
    | _ => none

/-- `compute_transformed_extents (transform, extents, &transformed)`; `none` = FALSE.
    Corner order of the C loop: `i & 1 ? x1 : x2`, `i & 2 ? y1 : y2`. -/
def computeTransformedExtents (t : Option Transform) (ex1 ey1 ex2 ey2 : Int) : Option Box48 :=
  let x1 := wrapS32 (intToFixed ex1 + 32768)
  let y1 := wrapS32 (intToFixed ey1 + 32768)
  let x2 := wrapS32 (intToFixed ex2 - 32768)
  let y2 := wrapS32 (intToFixed ey2 - 32768)
  match t with
  | none => some ⟨x1, y1, x2, y2⟩
  | some t =>
    extentsLoop t [⟨x2, y2, fixed1⟩, ⟨x1, y2, fixed1⟩, ⟨x2, y1, fixed1⟩, ⟨x1, y1, fixed1⟩]
      ⟨INT64_MAX, INT64_MAX, INT64_MIN, INT64_MIN⟩

def is1616 (f : Int) : Bool := decide (-2147483648 ≤ f ∧ f ≤ 2147483647)
def is16bit (x : Int) : Bool := decide (-32768 ≤ x ∧ x ≤ 32767)

/-- return value of `analyze_extent (image, extents, &flags)` of pixman.c for a BITS image
    (the flags it computes only select among implementations and are not modelled) -/
def analyzeExtent (b : Bits) (t : Option Transform) (ex1 ey1 ex2 ey2 : Int) : Bool :=
  if !(is16bit (ex1 - 1) && is16bit (ey1 - 1) && is16bit (ex2 + 1) && is16bit (ey2 + 1)) then false
  else if b.width ≥ 0x7fff ∨ b.height ≥ 0x7fff then false
  else if t = none ∧ ex1 ≥ 0 ∧ ey1 ≥ 0 ∧ ex2 ≤ b.width ∧ ey2 ≤ b.height then true
  else
    let (x_off, y_off, width, height) : Int × Int × Int × Int :=
      match b.filter with
      | .convolution | .separable =>
        (-1 - (param b.params 0 - 65536) / 2, -1 - (param b.params 1 - 65536) / 2,
         param b.params 0, param b.params 1)
      | .bilinear => (-32768, -32768, 65536, 65536)
      | .nearest => (-1, -1, 0, 0)
    match computeTransformedExtents t ex1 ey1 ex2 ey2 with
    | none => false
    | some _ =>
      match computeTransformedExtents t (ex1 - 1) (ey1 - 1) (ex2 + 1) (ey2 + 1) with
      | none => false
      | some tr =>
        is1616 (tr.x1 + x_off - 8) && is1616 (tr.y1 + y_off - 8) &&
        is1616 (tr.x2 + x_off + 8 + width) && is1616 (tr.y2 + y_off + 8 + height)

/-- One scanline of the source as `_pixman_bits_image_src_iter_init` selects the reference fetcher
    (no alpha map): affine transform → `bits_image_fetch_affine_no_alpha_32`, else
    `bits_image_fetch_general_32`.  (The untransformed fetcher chosen for an identity transform with
    NONE/NORMAL repeat is a specialisation that has to agree with this.) -/
def fetchScanline (b : Bits) (t : Option Transform) (offset line : Int) (width : Nat) : Option (List Nat) :=
  if isAffine t then fetchAffine b t offset line width else fetchGeneral b t offset line width

/-- compute_image_info: a 1×1 BITS image with a repeat mode gets the format code `PIXMAN_solid`; every
    implementation then reads it through `_pixman_image_get_solid` (pixel (0,0)), whatever its
    transform and filter are -/
def isSolid (b : Bits) : Bool :=
  b.width = 1 && b.height = 1 && b.rep != .none &&
  (match b.filter with | .convolution | .separable => false | _ => true)

/-- the scanline loop of `general_composite_rect` seen from the source side: the scanline buffer is
    zeroed once (`memset`), each row calls `get_scanline`; a fetcher that bails out (`return
    iter->buffer` after `pixman_transform_point_3d` failed) leaves the previous contents in place,
    and those are what OP_SRC stores. -/
def scanlineLoop (fetch : Int → Option (List Nat)) : Nat → Int → List Nat → List (List Nat)
  | 0, _, _ => []
  | n + 1, line, buf =>
    let row := (fetch line).getD buf
    row :: scanlineLoop fetch n (line + 1) row

/-- `pixman_image_composite32 (PIXMAN_OP_SRC, src, NULL, dest, src_x, src_y, 0, 0, dest_x, dest_y,
    width, height)` seen from the source side, for a rectangle inside an a8r8g8b8 destination:
    `none` = the request is dropped (`analyze_extent` FALSE, destination untouched); otherwise the
    rows written to the destination rectangle. -/
def compositeSrc (b : Bits) (m : Transform) (srcX srcY : Int) (width height : Nat) :
    Option (List (List Nat)) :=
  let t := setTransform m
  if width = 0 ∨ height = 0 then some [] else
  if !analyzeExtent b t srcX srcY (srcX + width) (srcY + height) then none else
  if isSolid b then some (List.replicate height (List.replicate width (b.fetch 0 0))) else
  some (scanlineLoop (fun line => fetchScanline b t srcX line width) height srcY (List.replicate width 0))

end Pixman.Model.Fetch

"""C06 — regions stay canonical; equal() is set equality."""
from checks import regioncommon as rc

BRIDGE = ["Pixman.Props.RegionBridge." + n for n in ("extentCheck_bridge", "inBox_bridge", "subsumes_bridge", "goodRect_bridge", "badRect_bridge", "limits_bridge")]

REQUIRED = [
    "Pixman.Props.C06.init_not_mem",
    "Pixman.Props.C06.canonListB_iff",
    "Pixman.Props.C06.canon_init",
    "Pixman.Props.C06.canon_clear",
    "Pixman.Props.C06.canon_initWithExtents",
    "Pixman.Props.C06.canon_initRect",
    "Pixman.Props.C06.canon_copy",
    "Pixman.Props.C06.canon_reset",
    "Pixman.Props.C06.not_canon_brk",
    "Pixman.Props.C06.spans_unique",
    "Pixman.Props.C06.canonList_unique",
    "Pixman.Props.C06.canon_rects_unique",
    "Pixman.Props.C06.canon_extents_unique",
    "Pixman.Props.C06.canon_unique",
    "Pixman.Props.C06.equal_iff_mem",
    "Pixman.Props.C06.wrapS_range",
    "Pixman.Props.C06.exHist_reachable",
    "Pixman.Props.C06.reachable_canon",
    "Pixman.Props.C06.reachable_equal_iff",
    "Pixman.Props.C06.reachable_same_points_same_rects",
]


def run(ctx):
    broken = ctx.lean_obligations("Pixman.Props.C06", REQUIRED + BRIDGE, extra_modules=["Pixman.Props.RegionBridge"])
    quick = ctx.tier == "quick"
    findings = rc.run_streams(ctx, "C06", 150000 if quick else 1500000, 4 if quick else 16)
    rc.report(ctx, findings)
    if broken and not ctx.violations:
        ctx.broken_obligations_verdict(broken, "region correspondence stream and point-set oracle found no failing input")
    ctx.assumptions += ["no allocation failure (that world is C15)",
                        "coordinates of results inside the representable range of the instantiation"]

"""C08 — transformed sources are sampled at the documented position, filter and repeat.

Proof obligations: Pixman.Props.C08 (model = lean/Pixman/Model/Fetch.lean, the reference fetchers of
pixman-bits-image.c; spec = lean/Pixman/Spec/Sampling.lean + Spec/Repeat.lean).
Specialised paths: Pixman.Props.C08Fast (model = lean/Pixman/Model/FetchFast.lean: affine iterators, FAST_NEAREST main
loops, rotate 90/270, bilinear cover iterator) — each proved equal to the reference fetcher on its guard; `pixdrv samplefast`
evaluates every request through those models where a guard holds and is compared with the library under all configurations.
Correspondence: harness/sample.c against `pixdrv sample`: OP_SRC composites from a transformed
a8r8g8b8 / x8r8g8b8 / a8 source (1..9 x 1..9) into an a8r8g8b8 destination, every filter x repeat x
affine and projective transforms x destination offsets; each stream is executed once per
implementation configuration (PIXMAN_DISABLE is read at library initialisation, hence one process
each) and every configuration must reproduce the model exactly.
Spec oracle (inside the harness, independent of the model's algorithm): exact per-pixel evaluation of
the documented sampling rule for affine transforms, reachable-pixel test within the stated position
tolerance for projective NEAREST."""
import collections, json, os, re, shutil, subprocess
from concurrent.futures import ThreadPoolExecutor
from engine.core import log, sh, VERIF

REQUIRED_FAST = [
    "Pixman.Props.C08Fast.nearest_affine_iter_eq",
    "Pixman.Props.C08Fast.bilinear_affine_iter_eq",
    "Pixman.Props.C08Fast.separable_affine_iter_eq",
    "Pixman.Props.C08Fast.fast_nearest_cover_eq",
    "Pixman.Props.C08Fast.fast_nearest_none_pad_eq",
    "Pixman.Props.C08Fast.fast_nearest_normal_eq",
    "Pixman.Props.C08Fast.scale_reference_rows",
    "Pixman.Props.C08Fast.fast_rotate90_eq",
    "Pixman.Props.C08Fast.fast_rotate270_eq",
    "Pixman.Props.C08Fast.rotate90_reference_row",
    "Pixman.Props.C08Fast.rotate270_reference_row",
    "Pixman.Props.C08Fast.fast_bilinear_cover_eq_partial",
]

REQUIRED_LOOPS = [
    "Pixman.Props.C08Loops.fast_bilinear_cover_cached_eq",
    "Pixman.Props.C08Loops.coverCachedRows_eq",
    "Pixman.Props.C08Loops.tileSplit_exact",
    "Pixman.Props.C08Loops.blt_rotated90_tiled_eq",
    "Pixman.Props.C08Loops.blt_rotated270_tiled_eq",
    "Pixman.Props.C08Loops.bilinear_pad_row_taps",
    "Pixman.Props.C08Loops.bilinear_none_row_taps",
    "Pixman.Props.C08Loops.bilinear_zones",
    "Pixman.Props.C08Loops.bilinear_vertical_spec",
]

REQUIRED_SCALED = [
    "Pixman.Props.C08Scaled.bilinear_hpair",
    "Pixman.Props.C08Scaled.bilinear_vpair",
    "Pixman.Props.C08Scaled.bilinear_dy0",
    "Pixman.Props.C08Scaled.sse2_zero_top",
    "Pixman.Props.C08Scaled.sse2_zero_bottom",
    "Pixman.Props.C08Scaled.pixel_compose",
    "Pixman.Props.C08Scaled.row_compose",
    "Pixman.Props.C08Scaled.row_compose_same",
    "Pixman.Props.C08Scaled.normalStep_taps",
    "Pixman.Props.C08Scaled.normalLoop_taps",
    "Pixman.Props.C08Scaled.fast_bilinear_scanline_eq_partial",
]

REQUIRED = [
    "Pixman.Props.C08.repeat_spec",
    "Pixman.Props.C08.repeat_in_range",
    "Pixman.Props.C08.tap_spec",
    "Pixman.Props.C08.nearest_spec",
    "Pixman.Props.C08.affine_positions",
    "Pixman.Props.C08.bilinear_weight_spec",
    "Pixman.Props.C08.bilinear_weights_sum",
    "Pixman.Props.C08.bilinear_lanes",
    "Pixman.Props.C08.bilinear_spec",
    "Pixman.Props.C08.bilinear_constant",
    "Pixman.Props.C08.convolution_window",
    "Pixman.Props.C08.separable_phase",
    "Pixman.Props.C08.reduce_spec",
    "Pixman.Props.C08.reduce_negative_is_zero",
    "Pixman.Props.C08.convolution_exact",
    "Pixman.Props.C08.convolution_channels",
    "Pixman.Props.C08.convolution_constant",
    "Pixman.Props.C08.separable_constant",
    "Pixman.Props.C08.general_positions",
    "Pixman.Props.C08.division_spec",
    "Pixman.Props.C08.general_affine_agree",
    "Pixman.Props.C08.projective_position_bound_partial",
    "Pixman.Props.C08.projective_position_units_partial",
]

CONFIGS = [("default", ""), ("no-ssse3", "ssse3"), ("no-ssse3-sse2", "ssse3 sse2"), ("no-simd", "ssse3 sse2 mmx"),
           ("general-only", "fast mmx sse2 ssse3"), ("no-wholeops", "wholeops")]
FILTER = ["NEAREST", "BILINEAR", "CONVOLUTION", "SEPARABLE_CONVOLUTION"]
REPEAT = ["NONE", "NORMAL", "PAD", "REFLECT"]
FMT = ["a8r8g8b8", "x8r8g8b8", "a8"]


def env_for(disable):
    e = dict(os.environ)
    e.pop("PIXMAN_DISABLE", None)
    if disable:
        e["PIXMAN_DISABLE"] = disable
    return e


def transform_class(m):
    ident = [65536, 0, 0, 0, 65536, 0, 0, 0, 65536]
    if m == ident:
        return "identity"
    if m[6] == 0 and m[7] == 0 and m[8] == 65536:
        if m[0] == 65536 and m[1] == 0 and m[3] == 0 and m[4] == 65536:
            return "translate-int" if (m[2] % 65536 == 0 and m[5] % 65536 == 0) else "translate-frac"
        if m[1] == 0 and m[3] == 0:
            return "scale-neg" if (m[0] < 0 or m[4] < 0) else ("scale-tiny/huge" if (abs(m[0]) < 700 or abs(m[0]) > 1300000 or abs(m[4]) < 700 or abs(m[4]) > 1300000) else "scale")
        if m[0] == 0 and m[4] == 0:
            return "quarter-turn"
        return "affine-general"
    if m[6] == 0 and m[7] == 0:
        return "projective-rescaled-affine"
    return "projective"


def parse(line):
    t = line.split(" ")
    fmt, flt, rep, sw, sh = (int(x) for x in t[1:6])
    m = [int(x) for x in t[6:15]]
    sx, sy, dw, dh, dx, dy, w, h, np_ = (int(x) for x in t[15:24])
    return dict(fmt=fmt, filter=flt, repeat=rep, sw=sw, sh=sh, m=m, sx=sx, sy=sy, dw=dw, dh=dh, dx=dx, dy=dy, w=w, h=h, np=np_)


def signature(kind, req, text):
    """operation + shape of the failing input"""
    r = parse(req) if req and req.startswith("S ") else None
    tag = ""
    mm = re.search(r"\[([^\]]*)\]\s*$", text or "")
    if mm:
        tag = mm.group(1)
    if kind == "oracle":
        if tag.startswith("solid-1x1-repeat"):
            return "composite-src|oracle|" + tag
        if tag == "projective homogeneous-overflow":
            return "composite-src|oracle|" + tag
        shape = f"{FILTER[r['filter']]}|{REPEAT[r['repeat']]}|{transform_class(r['m'])}" if r else ""
        return f"composite-src|oracle|{tag}|{shape}"
    if kind == "disagree-fast" and r:
        return f"composite-src|fast-model-differs|{tag}|{REPEAT[r['repeat']]}|{transform_class(r['m'])}|{FMT[r['fmt']]}"
    if kind == "disagree" and r:
        return f"composite-src|model-differs|{FILTER[r['filter']]}|{REPEAT[r['repeat']]}|{transform_class(r['m'])}|{FMT[r['fmt']]}"
    return f"composite-src|{kind}"


def build_harness(ctx):
    b = ctx.build_pixman("plain")
    return ctx.cc("sample", ["sample.c"], b)


def run_stream(ctx, exe, i, corpus_path, seed, ncases):
    """one stream: the harness once per configuration, the Lean driver once; returns the per-stream result"""
    d = ctx.scratch / f"ss{i}"
    d.mkdir(exist_ok=True)
    pixdrv = str(VERIF / "lean" / ".lake" / "build" / "bin" / "pixdrv")
    res = dict(findings=[], n=0, compared=0, compared_fast=0, stats=collections.Counter(), hist=collections.Counter(),
               nontrivial=set(), samples=[], cfg_lines=collections.Counter())
    ops0 = None
    model_lines = None
    for ci, (cname, disable) in enumerate(CONFIGS):
        ops, impl, orc = d / f"ops{ci}.txt", d / f"impl{ci}.txt", d / f"orc{ci}.txt"
        for attempt in range(2):
            if corpus_path:
                shutil.copyfile(corpus_path, ops)
                r1 = subprocess.run([str(exe), "exec", str(ops), str(impl), str(orc)], env=env_for(disable),
                                    stdout=subprocess.DEVNULL, stderr=subprocess.PIPE, text=True)
            else:
                r1 = subprocess.run([str(exe), "gen", str(seed), str(ncases), str(ops), str(impl), str(orc)], env=env_for(disable),
                                    stdout=subprocess.DEVNULL, stderr=subprocess.PIPE, text=True)
            if r1.returncode == 0:
                break
        lo = ops.read_text().split("\n")
        if lo and lo[-1] == "":
            lo.pop()
        if ops0 is None:
            ops0 = lo
            model = d / "model.txt"
            with open(ops) as fi, open(model, "w") as fo:
                r2 = subprocess.run([pixdrv, "sample"], stdin=fi, stdout=fo, stderr=subprocess.PIPE, text=True)
            model_lines = model.read_text().split("\n")
            if r2.returncode != 0 or len(model_lines) < len(lo):
                res["findings"].append(("stream", cname, "(stream)", None, None,
                                        f"Lean driver failed or produced fewer lines than requests (exit {r2.returncode}, seed {seed}) [driver]"))
                model_lines += [""] * (len(lo) - len(model_lines))
            res["n"] = len(lo)
            # the same requests through the models of the specialised paths (Model/FetchFast.lean)
            fastf = d / "fast.txt"
            with open(ops) as fi, open(fastf, "w") as fo:
                r3 = subprocess.run([pixdrv, "samplefast"], stdin=fi, stdout=fo, stderr=subprocess.PIPE, text=True)
            fast_lines = fastf.read_text().split("\n")
            if r3.returncode != 0 or len(fast_lines) < len(lo):
                res["findings"].append(("stream", cname, "(stream)", None, None,
                                        f"Lean driver (samplefast) failed or produced fewer lines than requests (exit {r3.returncode}, seed {seed}) [driver-fast]"))
                fast_lines += [""] * (len(lo) - len(fast_lines))
        elif lo != ops0:
            res["findings"].append(("stream", cname, "(stream)", None, None,
                                    f"generator is not deterministic across configurations (seed {seed}) [generator]"))
            continue
        li = impl.read_text().split("\n")
        if r1.returncode != 0 or len(li) < len(lo):
            last = lo[len(li) - 1] if 0 < len(li) <= len(lo) else (lo[0] if lo else "")
            res["findings"].append(("crash", cname, last, None, None,
                                    f"harness exit {r1.returncode} after {max(len(li) - 1, 0)} of {len(lo)} requests (seed {seed}) {r1.stderr[-200:]!r} [crash]"))
        for k in range(min(len(lo), len(li))):
            req = lo[k]
            if not req or req.startswith("#"):
                continue
            res["cfg_lines"][cname] += 1
            res["compared"] += 1
            a, m = li[k].strip(), model_lines[k].strip()
            if a != m:
                res["findings"].append(("disagree", cname, req, a, m, "model and implementation differ"))
            fm, _, ftag = fast_lines[k].strip().partition(" #")
            if ftag not in ("projective", "convolution", "identity", "trivial", "dropped", "bad-matrix"):
                res["compared_fast"] += 1
                if ci == 0:
                    res["hist"][f"fastpath-model:{ftag}"] += 1
                if a != fm:
                    res["findings"].append(("disagree-fast", cname, req, a, fm,
                                            f"model of the specialised path and implementation differ [{ftag}]"))
            if ci == 0:
                r = parse(req)
                cls = transform_class(r["m"])
                res["hist"][f"filter:{FILTER[r['filter']]}"] += 1
                res["hist"][f"repeat:{REPEAT[r['repeat']]}"] += 1
                res["hist"][f"transform:{cls}"] += 1
                res["hist"][f"format:{FMT[r['fmt']]}"] += 1
                res["hist"][f"cell:{FILTER[r['filter']]}/{REPEAT[r['repeat']]}/{'projective' if cls.startswith('projective') else 'affine'}"] += 1
                words = set(a.split(" ")) - {"cdcdcdcd"}
                # non-trivial: a genuinely transformed request that was carried out and produced at least two different pixel values
                if cls != "identity" and len(words) >= 2:
                    res["nontrivial"].add(hash(req))
                    if len(res["samples"]) < 2 and (k % 389 == 7):
                        res["samples"].append(req[:400] + "  =>  " + a[:200])
        for ol in orc.read_text().splitlines():
            mm = re.match(r"ORACLE (\d+) (.*)", ol.strip())
            if mm:
                ln, text = int(mm.group(1)), mm.group(2)
                req = lo[ln - 1] if 0 < ln <= len(lo) else "?"
                a = li[ln - 1].strip() if 0 < ln <= len(li) else None
                res["findings"].append(("oracle", cname, req, a, None, text))
                continue
            mm = re.match(r"STAT (\d+) (.*)", ol.strip())
            if mm and ci == 0:
                res["stats"][mm.group(2)] += int(mm.group(1))
    shutil.rmtree(d, ignore_errors=True)
    return res


def run_streams(ctx, ncases, nstreams):
    exe = build_harness(ctx)
    cdir = VERIF / "corpus" / "sample"
    corpus = sorted(cdir.glob("*.txt")) if cdir.exists() else []
    jobs = [(i, str(c), 0) for i, c in enumerate(corpus)] + [(len(corpus) + i, None, ctx.seed * 1000 + i) for i in range(nstreams)]
    with ThreadPoolExecutor(max_workers=8) as ex:
        results = list(ex.map(lambda j: run_stream(ctx, exe, j[0], j[1], j[2], ncases), jobs))
    findings, stats, hist, cfg = [], collections.Counter(), collections.Counter(), collections.Counter()
    nontrivial, samples, total, compared, compared_fast = set(), [], 0, 0, 0
    for r in results:
        findings += r["findings"]
        stats.update(r["stats"]); hist.update(r["hist"]); cfg.update(r["cfg_lines"])
        nontrivial |= r["nontrivial"]
        samples += r["samples"]
        total += r["n"]; compared += r["compared"]
        compared_fast += r["compared_fast"]
    ctx.cov["evaluations"] += total
    ctx.cov["distinct_nontrivial"] += len(nontrivial)
    ctx.cov["traces_validated_against_impl"] += compared
    ctx.extra["specialised_path_model_comparisons(request x configuration)"] = compared_fast
    ctx.cov["samples"] = samples[:6]
    ctx.cov["rule"] = (
        "independent requests: source 1..9 x 1..9 (half of them 1..3), formats a8r8g8b8 (70%), x8r8g8b8, a8; pixels constant / ramps / "
        "channel extremes / random; filter and repeat uniform; CONVOLUTION kernels 1..5 x 1..5 (even widths included) positive, with negative "
        "lobes, with zero taps, box, not normalised, sum -1; SEPARABLE_CONVOLUTION hand-made phase tables (0..3 phase bits, widths 1..4) and "
        "tables from pixman_filter_create_separable_convolution; transforms: identity/translation, scales (negative, tiny 1/60000, huge 3000, "
        "off by 1..3 units), quarter turns and flips, shears, arbitrary angles; translation solved so that the centre of one pixel of the "
        "rectangle lands exactly on / one unit beside a pixel boundary, a pixel centre, a bilinear weight step, or anywhere, inside or up to "
        "one image size outside the source, 4% near +-32767; 30% made projective (small and large m20/m21, m22 != 1, affine maps written with "
        "another homogeneous scale), 60% of those repeated with all nine entries multiplied by 3,2,5,-1,-3,7,100,1000; rectangles 1..24 x 1..4 "
        "at destination offsets 0..5, source offsets -4..12 and 2% near +-32767.  non-trivial = request with a non-identity transform that was "
        "carried out and produced at least two different pixel values, distinct by request text; every request is executed under six "
        "PIXMAN_DISABLE configurations (traces_validated_against_impl counts request x configuration)")
    ctx.extra["input_histogram"] = dict(sorted(hist.items()))
    ctx.extra["requests_per_configuration"] = dict(cfg)
    ctx.extra["configurations"] = {c: (d or "(none disabled)") for c, d in CONFIGS}
    ctx.extra["oracle_statistics(default configuration)"] = dict(stats)
    return findings


def report(ctx, findings, limit=10):
    seen = collections.OrderedDict()
    for f in findings:
        kind, cname, req, a, m, text = f
        seen.setdefault(signature(kind, req, text), []).append(f)
    n = 0
    summary = {}
    for sig, items in seen.items():
        kind, cname, req, a, m, text = min(items, key=lambda it: len(it[2] or ""))
        summary[sig] = {"count": len(items), "configurations": sorted({it[1] for it in items})}
        if n >= limit:
            continue
        disable = dict(CONFIGS).get(cname, "")
        if ctx.violation({"kind": kind, "request": req, "configuration": cname, "PIXMAN_DISABLE": disable, "implementation": a, "model": m,
                          "oracle": text,
                          "how_to_replay": "bin/check C08 --replay <this file>   (or: printf '%s\\n' \"<request>\" > ops.txt; "
                                           "PIXMAN_DISABLE=\"<PIXMAN_DISABLE>\" <scratch>/sample-plain exec ops.txt impl.txt oracle.txt; "
                                           "lean/.lake/build/bin/pixdrv sample < ops.txt)",
                          "count_in_run": len(items)}, signature=sig, what=f"{kind}: {text}", tag=kind):
            n += 1
    ctx.extra["finding_signatures"] = summary


def run(ctx):
    broken = ctx.lean_obligations("Pixman.Props.C08", REQUIRED + REQUIRED_FAST + REQUIRED_LOOPS + REQUIRED_SCALED + ["Pixman.Props.C02Cover.fast_bilinear_cover_eq"],
                                  extra_modules=["Pixman.Props.C08Fast", "Pixman.Props.C02Cover", "Pixman.Props.C08Loops", "Pixman.Props.C08Scaled"])
    quick = ctx.tier == "quick"
    findings = run_streams(ctx, 8000 if quick else 40000, 16 if quick else 48)
    report(ctx, findings)
    if broken and not ctx.violations:
        ctx.broken_obligations_verdict(broken, "sample correspondence streams (six configurations) and the Spec oracle found no failing input")
    ctx.assumptions += [
        "narrow (8 bit per channel) pipeline only: a8r8g8b8 destination, OP_SRC, no mask, no alpha map, no accessors; the float fetchers are not modelled (their bilinear single-pixel reader is judged by a spec oracle only: rgba_float sources under translations, every repeat mode, against the exact bilinear formula within 1e-5; harness/sample.c gen_float_bilinear)",
        "theorems about positions carry range hypotheses (no int32 wrap of the stepped 16.16 coordinate); the wrap itself is modelled and compared",
        "kernels: channel sums stay below 2^31 in magnitude in generated cases (|coefficient| <= 2^18, at most 25 taps); beyond that the signed accumulators of the fast path are undefined behaviour in C",
        "SIMD loop structure (head/body/tail) is validated only by the correspondence over widths 1..24",
    ]


def replay(ctx, path):
    obj = json.loads(open(path).read())
    req = obj.get("request")
    if not req or not req.startswith("S "):
        log(f"replay: {path} carries no request line ({obj.get('kind')}): {obj.get('what')}")
        return
    exe = build_harness(ctx)
    sh(["lake", "build", "pixdrv"], cwd=VERIF / "lean")
    d = ctx.scratch / "replay"
    d.mkdir(exist_ok=True)
    ops, impl, orc, model = d / "ops.txt", d / "impl.txt", d / "oracle.txt", d / "model.txt"
    ops.write_text(req + "\n")
    ctx.pixdrv("sample", ops, model)
    m = model.read_text().strip()
    findings = []
    cfgs = [c for c in CONFIGS if c[0] == obj.get("configuration")] or CONFIGS
    for cname, disable in cfgs:
        subprocess.run([str(exe), "exec", str(ops), str(impl), str(orc)], env=env_for(disable), stdout=subprocess.DEVNULL, stderr=subprocess.DEVNULL)
        a = impl.read_text().strip()
        log(f"[{cname}] request:        {req[:300]}\n[{cname}] implementation: {a[:300]}\n[{cname}] model:          {m[:300]}")
        if a != m:
            findings.append(("disagree", cname, req, a, m, "model and implementation differ"))
        for ol in orc.read_text().splitlines():
            mm = re.match(r"ORACLE (\d+) (.*)", ol.strip())
            if mm:
                log(f"[{cname}] oracle:         " + mm.group(2))
                findings.append(("oracle", cname, req, a, None, mm.group(2)))
    ctx.cov["evaluations"] = len(cfgs)
    report(ctx, findings)
    if not findings:
        log("replay: the request no longer fails")

"""C17 — glyph cache is a faithful map under any history; glyph drawing is per-glyph."""
import collections, itertools, random, subprocess
from concurrent.futures import ThreadPoolExecutor
from engine.core import diff_streams, VERIF

REQUIRED_LATER = [
    "Pixman.Props.C17.step_accounting",
    "Pixman.Props.C17.run_accounting",
    "Pixman.Props.C17.lookup_terminates",
    "Pixman.Props.C17.step_keeps_empty_slot",
    "Pixman.Props.C17.run_never_hangs",
    "Pixman.Props.C17.insert_refused_when_full",
]

M64 = (1 << 64) - 1


REQUIRED = []


def wang(font, key):
    k = (font + key) & M64
    k = ((k << 15) - k - 1) & M64
    k ^= k >> 12
    k = (k + (k << 2)) & M64
    k ^= k >> 4
    k = (k + (k << 3) + (k << 11)) & M64
    k ^= k >> 16
    return k & 0xffffffff


def pick_keys(hs, n):
    """n glyph keys (font 0) such that at least two collide and others are adjacent slots."""
    by = collections.defaultdict(list)
    for k in range(1, 400):
        by[wang(0, k) % hs].append(k)
    slots = sorted(by, key=lambda s: -len(by[s]))
    base = slots[0]
    keys = by[base][:2]
    s = base
    while len(keys) < n:
        s = (s + 1) % hs
        if by[s]:
            keys.append(by[s][0])
        if len(keys) < n and len(by[s]) > 1 and s != base:
            keys.append(by[s][1])
    return keys[:n]


def oracle(line, out, hs, high, low):
    """Abstract-map oracle on the implementation's own answers (independent of the Lean model):
    every operation terminates; a lookup returns the entry the map holds for the key, or NULL;
    an entry may be missing only if it was removed, or if a thaw that reached freeze count 0
    happened since it was inserted (eviction); a never-inserted or removed key is never found.
    Binding for histories that insert a key only while it is absent."""
    toks = line.split()[4:]
    res = out.split(" | ")[0].split()
    if "HANG" in out:
        return "an operation did not terminate"
    live = {}          # key -> id
    evictable = set()  # keys that were live at a thaw reaching 0
    freeze = 0
    for i, (t, r) in enumerate(zip(toks, res)):
        op = t[0]
        key = t[2:] if len(t) > 1 else None
        if op == "F":
            freeze += 1
        elif op == "T":
            freeze -= 1
            if freeze == 0 and len(live) > low:
                evictable |= set(live)
        elif op == "I":
            if r.startswith("I"):
                if key in live:
                    return None       # duplicate insertion: outside the oracle's scope
                live[key] = int(r[1:])
                evictable.discard(key)
            elif r == "N" and freeze > 0:
                n_ins = sum(1 for tt in toks[:i] if tt[0] == "I")
                if n_ins < hs // 2:
                    return f"insert refused at step {i} though at most {n_ins} of {hs} slots were ever used"
        elif op == "R":
            live.pop(key, None)
            evictable.discard(key)
        elif op == "L":
            want = live.get(key)
            if r == "L-":
                if want is not None:
                    if key not in evictable:
                        return f"lookup at step {i} lost a live entry that nothing removed or evicted"
                    live.pop(key); evictable.discard(key)
            else:
                got = int(r[1:])
                if want is None or got != want:
                    return f"lookup at step {i} returned entry {got}, the map holds {want}"
    return None


def run(ctx):
    broken = ctx.lean_obligations("Pixman.Props.C17", REQUIRED)
    quick = ctx.tier == "quick"
    b = ctx.build_pixman("plain")
    rnd = random.Random(ctx.seed)
    configs = [(4, 2, 1), (8, 4, 2), (16, 8, 4)] + ([] if quick else [(32, 16, 8), (32768, 16384, 8192)])
    total = 0
    nontriv = 0
    samples = []
    hist = collections.Counter()
    jobs = []
    for hs, high, low in configs:
        exe = ctx.cc(f"glyph{hs}", ["glyph.c"], b,
                     extra=[f"-DPIXMAN_VERIF_GLYPH_HIGH_WATER={high}", f"-DPIXMAN_VERIF_GLYPH_LOW_WATER={low}", "-w"]
                     if hs != 32768 else ["-w"])
        keys = pick_keys(hs, 3 if hs == 4 else 4 if hs == 8 else 6)
        sym = ["F", "T"] + [f"{o}:0:{k}" for k in keys for o in "ILRU"]
        lines = []
        corpus = VERIF / "corpus" / "glyph" / f"{hs}.txt"
        if corpus.exists():
            lines += [l for l in corpus.read_text().splitlines() if l.strip()]
        # exhaustive small scope: every history of length <= L after an initial freeze
        if hs <= 8:
            symx = [s for s in sym if not s.startswith("U")]
            L = (5 if hs == 4 else 4) if quick else (7 if hs == 4 else 5)
            for n in range(1, L + 1):
                for h in itertools.product(symx, repeat=n):
                    lines.append(f"hist {hs} {high} {low} F " + " ".join(h))
        # random longer histories, insertion-heavy so that tables fill and tombstones build up
        nrand = (20000 if quick else 400000) if hs < 32768 else 300
        for _ in range(nrand):
            n = rnd.randint(3, 4 * hs if hs < 32768 else 60)
            style = rnd.random()
            h = ["F"] if rnd.random() < 0.9 else []
            kk = keys if rnd.random() < 0.5 else list(range(1, 3 * hs if hs < 32768 else 40))
            for _ in range(n):
                r = rnd.random()
                k = rnd.choice(kk)
                if r < (0.55 if style < 0.4 else 0.3):
                    h.append(f"I:0:{k}")
                elif r < 0.7:
                    h.append(f"L:0:{k}")
                elif r < 0.85:
                    h.append(f"R:0:{k}")
                elif r < 0.9:
                    h.append(f"U:0:{k}")
                elif r < 0.95:
                    h.append("F")
                else:
                    h.append("T")
            lines.append(f"hist {hs} {high} {low} " + " ".join(h))
        jobs.append((hs, high, low, exe, lines))

    findings = []

    def one(job):
        hs, high, low, exe, lines = job
        d = ctx.scratch / f"g{hs}"
        d.mkdir(exist_ok=True)
        ops, impl, model = d / "ops.txt", d / "impl.txt", d / "model.txt"
        ops.write_text("\n".join(lines) + "\n")
        subprocess.run([str(exe), "exec", str(ops), str(impl)], stderr=subprocess.DEVNULL)
        ctx.pixdrv("glyph", ops, model)
        return job, ops, impl, model

    with ThreadPoolExecutor(max_workers=8) as ex:
        results = list(ex.map(one, jobs))
    for (hs, high, low, exe, lines), ops, impl, model in results:
        n, dis = diff_streams(ops, impl, model, limit=20)
        total += n
        for (ln, op, a, m) in dis:
            findings.append(("disagree", hs, op, a, m, "model and implementation differ"))
        with open(impl) as f:
            outs = f.read().split("\n")
        seen = set()
        for l, o in zip(lines, outs):
            toks = l.split()[4:]
            for t in toks:
                hist[t[0]] += 1
            if any(t[0] == "I" for t in toks) and any(t[0] in "LR" for t in toks):
                seen.add(l)
            why = oracle(l, o, hs, high, low)
            if why:
                findings.append(("oracle", hs, l, o, None, why))
        nontriv += len(seen)
        if lines:
            samples.append(min((l for l in lines if len(l.split()) > 8), key=len, default=lines[0]))
    ctx.cov["evaluations"] = total
    ctx.cov["distinct_nontrivial"] = nontriv
    ctx.cov["traces_validated_against_impl"] = total
    ctx.cov["rule"] = ("cache histories: exhaustive over {F,T,I,L,R}x keys up to a fixed length at table sizes 4 and 8 (water-mark hook), "
                       "random insertion-heavy histories (incl. U = glyph drawn) at sizes 4..32 and the default size; keys chosen to "
                       "collide; each history replayed through the Lean model (results, counters, table slots, MRU order compared) and "
                       "through an abstract-map oracle; non-trivial = distinct history with an insert and a later lookup/remove")
    ctx.cov["samples"] = samples[:4]
    ctx.extra["operation_histogram"] = dict(hist)
    ctx.extra["table_sizes"] = [c[0] for c in configs]
    # group findings
    groups = collections.OrderedDict()
    for kind, hs, line, a, m, text in findings:
        sig = f"{kind}|{text.split(' at step')[0]}"
        groups.setdefault(sig, []).append((kind, hs, line, a, m, text))
    for sig, items in list(groups.items())[:6]:
        kind, hs, line, a, m, text = min(items, key=lambda it: len(it[2]))
        ctx.violation({"kind": kind, "table_size": hs, "request": line, "implementation": a, "model": m, "oracle": text,
                       "count_in_run": len(items),
                       "how_to_replay": "compile harness/glyph.c with -DPIXMAN_VERIF -DPIXMAN_VERIF_GLYPH_HIGH_WATER=<size/2> "
                                        "-DPIXMAN_VERIF_GLYPH_LOW_WATER=<size/4>; glyph exec ops.txt out.txt"},
                      signature=sig, what=text, tag=f"hs{hs}")
    if broken and not ctx.violations:
        ctx.broken_obligations_verdict(broken, "glyph-cache histories (exhaustive small scope + random) found no failing input")
    ctx.assumptions += ["histories insert a key only while it is absent for the abstract-map oracle (duplicates are compared with the model only)",
                        "no allocation failure (C15)"]

"""C12 — trapezoid coverage is an exact sample count; abutting shapes tile seamlessly.

Layers (DESIGN.md section 6, C12):
  * proof obligations: Pixman.Props.C12 (R1 sample rows, R2 edge walker invariant, R3 one row adds
    exactly the Spec count, R4 additivity, R6 zero-source table) against the regenerated
    Pixman/Gen/SampleGrid.lean and Pixman/Gen/ZeroSrc.lean;
  * correspondence: harness/trap.c (real library) against `pixdrv trap` (Lean model) on
    pixman_sample_ceil_y/floor_y, pixman_edge_init/step, pixman_rasterize_trapezoid,
    pixman_add_trapezoids, pixman_add_traps, pixman_add_triangles for a1/a4/a8;
  * spec oracle on the library's own output: (a) brute-force sample counting evaluated by pixdrv from
    Pixman/Spec/SampleGrid.lean, (b) additivity (split at a horizontal line / along an interior
    edge), whole-pixel offsets, (c) pixman_composite_trapezoids/_triangles against "rasterise into a
    mask covering the whole destination, then composite", all operators, (d) a fixed list of
    inputs on which the unchanged library crashes, replayed in a child process.
"""
import collections, json, os, re, subprocess
from concurrent.futures import ThreadPoolExecutor
from engine.core import log, VERIF

P = "Pixman.Props.C12."
REQUIRED = [P + t for t in (
    # R1
    "isGridRow_iff", "sampleCeilY_grid", "sampleCeilY_saturates", "sampleFloorY_grid", "sampleFloorY_saturates",
    "sampleRows_in_image",
    # R2
    "edgeStep_inv", "multiInit_spec", "edgeInit_inv", "stepSmall_inv", "stepBig_inv", "edge_x_of_inv",
    "edge_x_near_snapX", "edge_x_eq_snapX_partial", "edge_state_depends_on_history", "edge_step_loses_fraction",
    # R3: one row
    "row1_spec", "row4_spec", "row8_spec", "renderSamplesX8_count",
    # R3: a8 span-fill bookkeeping = naive loop
    "spanfill_eq_naive", "edgesLoop8_eq_naive",
    # R3: all sample rows of a shape (induction over the rows with the walker invariant)
    "rasterizeEdges_rows", "addShape_eq_addSpans", "walkRows_inv", "rasterizeEdges_walked", "rasterizeEdges_eq_addShape",
    # R3 at the entry points: pixman_rasterize_trapezoid, pixman_add_traps (one pixman_trap_t)
    "rasterizeTrapezoid_eq_addShape", "addTrap_eq_addShape", "rasterizeTrapezoid_nothing", "rasterizeTrapezoid_offsets",
    "addTrapezoids_eq_addShapes", "addTraps_eq_addShapes", "addTrap_offsets",
    # R5: triangle = its two trapezoids, every vertex order
    "triangle_tiles", "triangle_inside_iff", "addTriangles_eq", "addTriangle_eq_triCount",
    # words: the row bodies on little-endian memory (Model/TrapWords.lean) = the per-pixel model = C10 pixel stores
    "a1Store_regenerated", "a1Span_bits", "addAlpha_eq_store4", "row1_words", "row4_words", "row8Fill_words", "flushFill_words",
    "holdsRow_unique", "rowWords_eq_realize", "row1_words_eq_realize", "row4_words_eq_realize", "row8_words_eq_realize",
    "rasterizeEdgesW_holds", "rasterizeEdgesWB_mem",
    # R4
    "rowCount_split", "pixelValue_add", "pixelCount_hsplit", "pixelCount_edgesplit", "pixelCount_move", "row8_abut",
    # R6
    "zeroSrc_table_sound", "zeroSrc_table_tight",
)]
PARTIAL = {
    "edge_x_eq_snapX_partial": "design R2 claimed e.x = snapped exact abscissa on every row; false for the code when pixman_edge_step "
                               "loses the fraction or at lattice ties (edge_step_loses_fraction, edge_state_depends_on_history); "
                               "proved: exact invariant with the lost term, |e.x - snapX| <= 2, equality without loss/tie",
    "rasterizeTrapezoid_eq_addShape": "the composition sample_ceil_y/floor_y -> edge_init x2 -> rasterize_edges = Spec.addShape is a theorem "
                                      "(also addTrap_eq_addShape for pixman_add_traps) in the region where the walker is exact: "
                                      "InitOK (pixman_edge_step loses nothing: a right-leaning edge walked downwards starts at its top "
                                      "or has integral slope) and RowsOK (on each row the edge misses the lattice points, leans left, or "
                                      "has integral slope); outside it the equality is false for the code (findings T01..) and "
                                      "rasterizeEdges_walked gives the exact-invariant form with the lost term. Also proved: no sample row "
                                      "inside (rasterizeTrapezoid_nothing), offsets that do not wrap are a translation "
                                      "(rasterizeTrapezoid_offsets, addTrap_offsets, pixelCount_move), lists (addTrapezoids_eq_addShapes, "
                                      "addTraps_eq_addShapes). Not covered by RowsOK although the walker is exact there: a right-leaning edge "
                                      "of non-integral slope whose first sample row is exactly its top vertex (tie at that row); covered by the "
                                      "Spec oracle",
    "rasterizeEdgesW_holds": "the word/nibble/byte row bodies and the loop over the visited rows are modelled on a little-endian build "
                             "without accessors (SCREEN_SHIFT_*, SHIFT_4 of !WORDS_BIGENDIAN; READ/WRITE plain); of the a1 block only the three "
                             "stores after MASK_BITS are regenerated (LEFT_MASK/RIGHT_MASK/MASK_BITS, ADD_ALPHA, ADD_SATURATE_8 are "
                             "hand-written); the memory loop recomputes line = buf + row*stride per visited row where C adds stride at "
                             "big steps; the driver (flag w) runs rasterizeEdgesW (array-backed form, rasterizeEdgesWB_mem; that its per-row "
                             "read-out nu is the identity is not proved) against the array model for small requests only "
                             "(a4/a8 width <= 9, a1 width <= 140) and the library is compared with the array model, not with the memory "
                             "directly; entry points (add_traps etc.) on memory are folds of this theorem, not stated",
    "triangle_tiles": "R5 is proved for every vertex order (sort by (y,x), left/right by the cross product sign, horizontal sides) "
                      "under TriFits (the int32 differences of clockwise() do not wrap) and area2 != 0; for collinear vertices the "
                      "equality with the symmetric inside test is false at lattice ties of the snapping (both draw nothing else); "
                      "stated for offsets 0 (the driver's flag g evaluates it on the translated triangles of addtri requests up to "
                      "60000 samples); addTriangle_eq_triCount composes it with R3 for one triangle in the exact region",
}

RASTER_OPS = {"rast", "addtz", "addtraps", "addtri"}
SCALAR_OPS = {"ceil", "floor", "edge"}
ZERO_SRC_NO_EFFECT = {2, 3, 4, 8, 9, 11, 12}      # cross-checked against Gen/ZeroSrc.lean below

# input on which the library crashes (recorded finding); replayed with TRAP_NOGUARD=1 in a child process
CRASH_PROBES = [
    ("edge_init-INT_MIN-by-minus-1/rasterize_trapezoid",
     "rast 8 4 4 0 0 0 0 65536 0 -2147483648 -2147483648 2147483647 65536 -65536 65536 131072"),
]
# repaired by a0ed323 (pixman_sample_floor_y saturation): must run, agree with model and Spec, draw nothing.
# They are also in corpus/trap/regressions.txt; here they are run in a child process so that a crash is attributed.
REGRESSION_PROBES = [
    ("sample_floor_y-saturation/add_traps",
     "addtraps 8 4 4 0 0 0 1 0 65536 -2147483648 0 65536 -2147483647", "00000000,00000000,00000000,00000000"),
    ("sample_floor_y-saturation/rasterize_trapezoid",
     "rast 8 4 4 0 0 0 -2147483648 -2147483647 0 -2147483648 0 2147483647 65536 -2147483648 65536 2147483647",
     "00000000,00000000,00000000,00000000"),
]


def flags_class(fl):
    """the class of a spec mismatch from the driver's flags"""
    if "o" in fl or "r" in fl:
        return "out-of-bounds-or-runaway"
    if any(c in fl for c in "cda"):
        return "int32-overflow"
    if "t" in fl:
        return "walk-history"
    return "unexplained"


def composite_class(opline):
    t = opline.split()
    op, xd, yd, cnt = int(t[1]), int(t[10]), int(t[11]), int(t[13])
    if op not in ZERO_SRC_NO_EFFECT:
        return "zero-src-matters+dst-offset" if (xd or yd) else "zero-src-matters+no-offset"
    if t[0] == "comptz":
        v = list(map(int, t[14:]))
        valid = []
        for i in range(cnt):
            a = v[10 * i:10 * i + 10]
            if a[3] != a[5] and a[7] != a[9] and a[1] > a[0]:
                valid.append(a)
        for a in valid:
            top, bot = a[0], a[1]
            for (y1, y2) in ((a[3], a[5]), (a[7], a[9])):
                if min(y1, y2) > top or max(y1, y2) < bot:
                    return "extents-from-line-endpoints"
        # the library rasterises into a temporary mask with offsets (-box.x1, -box.y1): far endpoints wrap there
        if valid:
            x1 = min(min(a[2], a[4], a[6], a[8]) for a in valid) >> 16
            x2 = max((max(a[2], a[4], a[6], a[8]) + 65535) >> 16 for a in valid)
            y1 = min(a[0] for a in valid) >> 16
            lim = 32767 * 65536
            for a in valid:
                if any(abs(x - x1 * 65536) > lim for x in (a[2], a[4], a[6], a[8])) or \
                   any(abs(y - y1 * 65536) > lim for y in (a[0], a[1], a[3], a[5], a[7], a[9])) or x2 - x1 > 32767:
                    return "int32-overflow"
    return "unexplained"


def run_stream(ctx, exe, idx, mode, ncases, corpus_file=None):
    d = ctx.scratch / f"ts{idx}"
    d.mkdir(exist_ok=True)
    ops, impl, orc, model = d / "ops.txt", d / "impl.txt", d / "oracle.txt", d / "model.txt"
    if corpus_file is not None:
        ops.write_text(corpus_file.read_text())
        r = subprocess.run([str(exe), "exec", str(ops), str(impl)], stderr=subprocess.DEVNULL)
        orc.write_text("")
    else:
        seed = ctx.seed * 1000 + idx
        r = subprocess.run([str(exe), "gen", str(seed), str(ncases), str(mode), str(ops), str(impl), str(orc)],
                           stderr=subprocess.DEVNULL)
    crashed = r.returncode != 0
    ctx.pixdrv("trap", ops, model)
    return dict(idx=idx, mode=mode, ops=ops, impl=impl, orc=orc, model=model, crashed=crashed)


def analyse(ctx, st, findings, hist, nontrivial, samples):
    """compares one stream; appends findings (kind, op, cls, request, impl, model, text)"""
    with open(st["ops"]) as f:
        ops = f.read().split("\n")
    with open(st["impl"]) as f:
        impl = f.read().split("\n")
    with open(st["model"]) as f:
        model = f.read().split("\n")
    n = min(len(ops), len(impl), len(model))
    flags = {}
    if st["crashed"]:
        last = ops[len(impl) - 1] if 0 < len(impl) <= len(ops) else (ops[-2] if len(ops) > 1 else "?")
        findings.append(("crash", last.split(" ", 1)[0], "harness-crashed", last, None, None,
                         "the harness process died while executing this request"))
    evals = 0
    for i in range(n):
        o, a, m = ops[i].strip(), impl[i].strip(), model[i].strip()
        if not o:
            continue
        op = o.split(" ", 1)[0]
        hist["op:" + op] += 1
        if a == "CRASHGUARD":
            hist["crashguard"] += 1
            continue
        evals += 1
        if op in SCALAR_OPS:
            if a != m:
                findings.append(("disagree", op, "scalar", o, a, m, "model and implementation differ"))
            elif op == "edge":
                nontrivial.add(hash(o))
            continue
        if op.startswith("comp"):
            hist["composite:" + a.split(" ", 1)[0]] += 1
            if a != "same":
                cls = composite_class(o)
                findings.append(("oracle:composite-vs-mask", op, cls, o, a, None,
                                 "pixman_composite_* differs from rasterising into a whole-destination mask and compositing it"))
            t = o.split()
            hist["composite-op:%s" % ("zero-src-no-effect" if int(t[1]) in ZERO_SRC_NO_EFFECT else "zero-src-matters")] += 1
            nontrivial.add(hash(o))
            continue
        if op not in RASTER_OPS:
            continue
        t = m.split(" ")
        if len(t) != 6 or t[0] != "M":
            findings.append(("disagree", op, "bad-model-reply", o, a, m, "model gave no image"))
            continue
        M, S, F = t[1], t[3], t[5]
        flags[i + 1] = F
        depth = o.split(" ", 2)[1]
        hist["depth:" + depth] += 1
        hist["flags:" + F] += 1
        outside = a.endswith(" OUTSIDE")
        img = a[:-8] if outside else a
        if outside:
            findings.append(("oracle:outside", op, "wrote-outside-pixels", o, a, M, "bytes outside the pixel rows were modified"))
        if img != M:
            findings.append(("disagree", op, "n%s|%s" % (depth, flags_class(F)), o, img, M, "model and implementation differ"))
        if img != S:
            findings.append(("oracle:spec-count", op, flags_class(F), o, img, S,
                             "coverage is not the Spec's sample count"))
        if "f" in F:
            findings.append(("model:spanfill-vs-naive", op, "a8", o, img, M,
                             "the a8 span-fill loop of the model differs from the naive per-row loop"))
        if "w" in F:
            findings.append(("model:words-vs-array", op, "n" + depth, o, img, M,
                             "the word/byte-level row bodies (Model/TrapWords.lean) on a byte memory do not give the array model's image"))
        if "g" in F:
            findings.append(("spec:triangle-vs-decomposition", op, "n" + depth, o, img, S,
                             "the triangles' own inside test (Spec.triCount) differs from the Spec count of the two trapezoids "
                             "although the hypotheses of Props.C12.triangle_tiles hold"))
        # non-trivial: something was drawn
        first = img[:2] if depth == "8" else img[:1]
        unit = 2 if depth == "8" else 1
        body = img.replace(",", "")
        if any(body[k:k + unit] != first for k in range(0, len(body), unit)) or (o.split()[4] != "0" and False):
            nontrivial.add(hash(o))
            if len(samples) < 6 and len(o) < 200 and F == "-":
                samples.append(o)
    with open(st["orc"]) as f:
        for ol in f:
            mm = re.match(r"ORACLE (\d+) (\S+) ?(.*)", ol.strip())
            if not mm:
                continue
            ln, kind, text = int(mm.group(1)), mm.group(2), mm.group(3)
            if kind == "composite-vs-mask":
                continue            # already taken from the reply line
            o = ops[ln - 1] if 0 < ln <= len(ops) else "?"
            prev = ops[ln - 2] if 1 < ln <= len(ops) else "?"
            fl = flags.get(ln, "-").replace("-", "") + flags.get(ln - 1, "-").replace("-", "")
            findings.append(("oracle:" + kind, o.split(" ", 1)[0], flags_class(fl), prev + "\n" + o, None, None,
                             kind + ": " + text))
    return evals


def reclassify_composites(ctx, findings):
    """Composite differences not explained by the request itself: replay the two mask rasterisations (whole
    destination with the offsets (x_dst, y_dst); the library's temporary mask with the offsets (-box.x1, -box.y1))
    through the Lean driver and take the class from its flags: the `t < 0` clamp of the first sample row makes the
    edge walk start elsewhere (walk-history), far endpoints wrap (int32-overflow)."""
    idx = [k for k, f in enumerate(findings) if f[0] == "oracle:composite-vs-mask" and f[2] == "unexplained"]
    if not idx:
        return
    d = ctx.scratch / "reclass"
    d.mkdir(exist_ok=True)
    lines = []
    for k in idx:
        t = findings[k][3].split()
        tri = t[0] == "comptri"
        w, h, md, xd, yd, cnt = int(t[3]), int(t[4]), int(t[5]), int(t[10]), int(t[11]), int(t[13])
        v = list(map(int, t[14:]))
        op = "addtri" if tri else "addtz"
        if tri:
            xs, ys = v[0::2], v[1::2]
        else:
            xs = [x for i in range(cnt) for x in (v[10 * i + 2], v[10 * i + 4], v[10 * i + 6], v[10 * i + 8])]
            ys = [y for i in range(cnt) for y in (v[10 * i], v[10 * i + 1])]
        x1, x2 = min(xs) >> 16, (max(xs) + 65535) >> 16
        y1, y2 = min(ys) >> 16, (max(ys) + 65535) >> 16
        body = " ".join(map(str, v))
        lines.append(f"{op} {md} {w} {h} 0 {xd} {yd} {cnt} {body}")
        lines.append(f"{op} {md} {max(1, min(x2 - x1, 2000))} {max(1, min(y2 - y1, 2000))} 0 {-x1} {-y1} {cnt} {body}")
    (d / "ops.txt").write_text("\n".join(lines) + "\n")
    ctx.pixdrv("trap", d / "ops.txt", d / "model.txt")
    out = (d / "model.txt").read_text().split("\n")
    for j, k in enumerate(idx):
        fl = ""
        for r in out[2 * j:2 * j + 2]:
            t = r.split(" ")
            if len(t) == 6:
                fl += t[5]
        cls = flags_class(fl.replace("-", ""))
        if cls != "unexplained":
            f = findings[k]
            findings[k] = (f[0], f[1], cls, f[3], f[4], f[5], f[6] + " (class from the driver's flags of the two mask rasterisations)")


def crash_probes(ctx, exe, findings):
    for name, line in CRASH_PROBES:
        d = ctx.scratch / "probe"
        d.mkdir(exist_ok=True)
        (d / "ops.txt").write_text(line + "\n")
        env = dict(os.environ, TRAP_NOGUARD="1")
        try:
            r = subprocess.run([str(exe), "exec", str(d / "ops.txt"), str(d / "impl.txt")], env=env,
                               stderr=subprocess.DEVNULL, timeout=120)
            rc = r.returncode
        except subprocess.TimeoutExpired:
            rc = "timeout"
        out = (d / "impl.txt").read_text().strip() if (d / "impl.txt").exists() else ""
        ctx.extra.setdefault("crash_probes", {})[name] = {"request": line, "exit": rc, "reply": out[:80]}
        if rc != 0 or out.endswith("OUTSIDE"):
            findings.append(("crash", line.split(" ", 1)[0], name, line, f"exit={rc}", None,
                             f"the library crashes or writes outside the image on this request (child exit status {rc})"))


LIBRARY_DEFECT_CLASSES = {"walk-history", "int32-overflow", "zero-src-matters+dst-offset", "extents-from-line-endpoints"}


def regression_probes(ctx, exe, findings):
    for name, line, want in REGRESSION_PROBES:
        d = ctx.scratch / "regr"
        d.mkdir(exist_ok=True)
        (d / "ops.txt").write_text(line + "\n")
        env = dict(os.environ, TRAP_NOGUARD="1")
        try:
            r = subprocess.run([str(exe), "exec", str(d / "ops.txt"), str(d / "impl.txt")], env=env,
                               stderr=subprocess.DEVNULL, timeout=120)
            rc = r.returncode
        except subprocess.TimeoutExpired:
            rc = "timeout"
        out = (d / "impl.txt").read_text().strip() if (d / "impl.txt").exists() else ""
        ctx.extra.setdefault("regression_probes", {})[name] = {"request": line, "exit": rc, "reply": out[:80]}
        if rc != 0 or out != want:
            findings.append(("regression", line.split(" ", 1)[0], name, line, f"exit={rc} reply={out[:60]}", want,
                             "a repaired defect is back: the request must run and draw nothing"))


def signature(kind, op, cls):
    """one signature per defect family of the library (so that a known-finding entry covers the family);
    disagreements with the model and unexplained oracle failures keep the operation and details"""
    if kind.startswith("oracle:") and cls in LIBRARY_DEFECT_CLASSES:
        return f"{kind[7:]}|{cls}"
    if kind == "crash" and cls != "harness-crashed":
        return f"crash|{cls}"
    return None        # disagreements, regressions, unexplained classes: never matched by a known finding


def report(ctx, findings, limit=12):
    seen = collections.OrderedDict()
    for f in findings:
        sig = signature(f[0], f[1], f[2])
        # the grouping key of unsuppressible findings keeps operation and details; their signature stays None
        seen.setdefault(sig if sig is not None else f"!{f[1]}|{f[0]}|{f[2]}", []).append(f)
    ctx.extra["finding_classes"] = {k: len(v) for k, v in seen.items()}
    n = 0
    for sig, items in seen.items():
        kind, op, cls, req, a, m, text = min(items, key=lambda it: len(it[3]))
        if n >= limit:
            break
        if ctx.violation({"kind": kind, "class": cls, "request": req, "implementation": a, "model_or_spec": m,
                          "how_to_replay": "bin/check C12 --replay <this file>   (or: printf '%s\\n' \"<request>\" > ops.txt; "
                                           "harness trap exec ops.txt impl.txt; lean/.lake/build/bin/pixdrv trap < ops.txt)",
                          "count_in_run": len(items), "class_key": sig},
                         signature=(None if sig.startswith("!") else sig), what=f"{op}: {text} [{cls}]", tag=op):
            n += 1


def check_generated_table(ctx):
    """the operator set used for classification must be the regenerated table"""
    p = VERIF / "lean" / "Pixman" / "Gen" / "ZeroSrc.lean"
    if not p.exists():
        return
    got = {int(a) for a, b in re.findall(r"\|\s*(\d+)\s*=>\s*(true|false)", p.read_text()) if b == "true"}
    if got != ZERO_SRC_NO_EFFECT:
        ctx.extra["zero_src_table_changed"] = sorted(got)
        ZERO_SRC_NO_EFFECT.clear()
        ZERO_SRC_NO_EFFECT.update(got)


def run(ctx):
    broken = ctx.lean_obligations("Pixman.Props.C12", REQUIRED)
    check_generated_table(ctx)
    quick = ctx.tier == "quick"
    b = ctx.build_pixman("plain")
    exe = ctx.cc("trap", ["trap.c"], b)
    plan = []       # (mode, ncases)
    if quick:
        plan += [(0, 8000)] * 16 + [(1, 5000)] * 8 + [(2, 8000)] * 2 + [(3, 8000)] * 2
    else:
        plan += [(0, 100000)] * 24 + [(1, 60000)] * 12 + [(2, 100000)] * 4 + [(3, 100000)] * 4
    cdir = VERIF / "corpus" / "trap"
    corpus = sorted(cdir.glob("*.txt")) if cdir.exists() else []

    def one(i):
        if i < len(corpus):
            return run_stream(ctx, exe, i, -1, 0, corpus[i])
        mode, ncases = plan[i - len(corpus)]
        return run_stream(ctx, exe, i, mode, ncases)

    with ThreadPoolExecutor(max_workers=16) as ex:
        streams = list(ex.map(one, range(len(corpus) + len(plan))))
    findings, hist, nontrivial, samples = [], collections.Counter(), set(), []
    total = 0
    for st in streams:
        total += analyse(ctx, st, findings, hist, nontrivial, samples)
    reclassify_composites(ctx, findings)
    crash_probes(ctx, exe, findings)
    regression_probes(ctx, exe, findings)
    report(ctx, findings)
    ctx.cov["evaluations"] += total
    ctx.cov["traces_validated_against_impl"] += total
    ctx.cov["distinct_nontrivial"] += len(nontrivial)
    ctx.cov["samples"] = samples
    ctx.cov["rule"] = (
        "requests generated by harness/trap.c from VERIF_SEED: a1/a4/a8 images 1..40 px (a1 up to 140 wide), fill value, "
        "x/y offsets, trapezoids from 9 generators (pixel-ish, edges exactly through sample thresholds, sub-pixel, "
        "far endpoints, nearly horizontal, degenerate, lattice ties, client-style aligned, full-range int32); each raster "
        "request is run through the library, the Lean model and the Spec's brute-force sample count; a request is "
        "non-trivial when the library changed at least one pixel (raster), always for edge/composite requests; "
        "distinct by full request text")
    ctx.extra["histogram"] = dict(hist)
    ctx.extra["partial_theorems_and_gaps"] = PARTIAL
    ctx.extra["streams"] = {"exact-region": sum(1 for m, _ in plan if m == 0), "full-range": sum(1 for m, _ in plan if m == 1),
                            "composite-aligned": sum(1 for m, _ in plan if m == 2), "composite-any": sum(1 for m, _ in plan if m == 3),
                            "corpus": len(corpus)}
    if broken and not ctx.violations:
        ctx.broken_obligations_verdict(broken, "trap correspondence streams, sample-count oracle, additivity and composite oracles found no failing input")
    ctx.assumptions += [
        "exact region of the theorems and of the Spec oracle: every coordinate plus offset fits int32 and stays a pixel above "
        "INT32_MIN, |dx| <= 32767 px, 0 < dy < 2^31, edge abscissae at the top vertex / first / last sample row within "
        "+-32767 px; outside it the model wraps like the compiled code and only model = library is checked (flags c,d,a)",
        "a1 word/mask arithmetic (MASK_BITS) is abstracted to 'set pixels lxi..rxi-1' in the model; tied by the correspondence "
        "(a1 images up to 140 px wide, padding bits checked)",
        "little-endian pixel order of a1/a4; no accessors (read_func/write_func) build of the rasteriser",
        "compositing itself (pixman_image_composite32) is the reference of the composite oracle, not modelled here (C01/C03)",
    ]


def replay(ctx, path):
    obj = json.loads(open(path).read())
    req = obj.get("request", "")
    b = ctx.build_pixman("plain")
    exe = ctx.cc("trap", ["trap.c"], b)
    subprocess.run(["lake", "build", "pixdrv"], cwd=str(VERIF / "lean"), stdout=subprocess.DEVNULL)
    d = ctx.scratch / "replay"
    d.mkdir(exist_ok=True)
    (d / "ops.txt").write_text(req + "\n")
    env = dict(os.environ)
    if obj.get("kind") == "crash":
        env["TRAP_NOGUARD"] = "1"
    r = subprocess.run([str(exe), "exec", str(d / "ops.txt"), str(d / "impl.txt")], env=env, stderr=subprocess.DEVNULL)
    ctx.pixdrv("trap", d / "ops.txt", d / "model.txt")
    impl = (d / "impl.txt").read_text().split("\n") if (d / "impl.txt").exists() else []
    model = (d / "model.txt").read_text().split("\n")
    bad = r.returncode != 0
    for o, a, m in zip(req.split("\n"), impl, model):
        log("request:", o[:300])
        log("  library:", a[:300])
        log("  model  :", m[:600])
        t = m.split(" ")
        if len(t) == 6 and (a != t[1] or a != t[3]):
            bad = True
        if a.startswith("diff") or (len(t) != 6 and not o.startswith("comp") and a != m):
            bad = True
    if len(impl) >= 2 and obj.get("kind", "").startswith("oracle:additivity") and impl[0] != impl[1]:
        bad = True
    if bad:
        log(f"VIOLATION property={ctx.pid} replay={path}")
        ctx.violations.append({"replay": str(path)})

"""C20 — image lifetime: resources released exactly once, when the last reference goes."""
import collections, itertools, json, os, re, subprocess
from concurrent.futures import ThreadPoolExecutor
from pathlib import Path
from engine.core import VERIF, log

P = "Pixman.Props.C20."
REQUIRED = [P + n for n in (
    "inv_empty",
    "apply_preserves_inv",
    "step_preserves_inv",
    "run_preserves_inv",
    "L1_ref_count_is_external_plus_parents",
    "L2_live_iff_referenced",
    "L2_released_exactly_once",
    "L2_unref_true_iff_last",
    "L2_unref_last_releases",
    "blocks_empty",
    "apply_preserves_blocks",
    "applyFail_preserves",
    "applyCall_preserves",
    "step_preserves_all",
    "step_preserves_blocks",
    "run_preserves_blocks",
    "L2_blocks_freed_at_most_once",
    "L2_blocks_of_allocated_image",
    "L2_blocks_of_released_image",
    "L4_all_blocks_freed_at_end",
    "L2_callback_exactly_once",
    "L3_map_outlives_parent",
    "L3_no_chains",
    "L3_no_self_loop",
    "L3_alpha_count_bounds_parents",
    "L4_no_use_after_free",
    "L4_recursion_budget_suffices",
    "L4_no_leak",
    "cache_copy_is_private",
)]

WRAP = ["malloc", "calloc", "realloc", "free"]
TIMEOUT = 90      # seconds per harness process (a stream normally takes 2-10 s)
OBS_FIELDS = ["rc", "ac", "am", "amrc", "amac", "ox", "oy", "tv", "flt", "fp", "nfp", "hc", "cs", "cn", "df", "dd", "fm", "st"]
TOK = re.compile(r"^([^@]+)@(-?\d+)((?:!-?\d+\.-?\d+)*)((?:~\d+)*)((?:;[^;]+)*)$")


def parse_obs(s):
    i, rest = s.split("=")
    return int(i), dict(zip(OBS_FIELDS, rest.split(",")))


def parse_tok(t):
    m = TOK.match(t)
    if not m:
        return None
    fired = [tuple(int(x) for x in f.split(".")) for f in m.group(3).split("!") if f]
    freed = [int(x) for x in m.group(4).split("~") if x]
    obs = dict(parse_obs(o) for o in m.group(5).split(";") if o)
    return m.group(1), int(m.group(2)), fired, freed, obs


def oracle(line, out, stats=None):
    """Specification oracle on the implementation's own answers; independent of the Lean model's
    reference counting: liveness is REACHABILITY (an image struct must be allocated exactly while
    the client holds a reference to it, or it is the alpha map of such an image, or it is a glyph
    cache's copy), memory is an exact census of the blocks the live objects own.
    Returns (rule, step index, text) or None."""
    ops = line.split()[1:]
    parts = out.split(" | ")
    if len(parts) != 3:
        return ("output", len(ops), "history did not complete: " + out[-120:])
    toks = parts[0].split()
    if len(toks) != len(ops):
        return ("output", len(toks), "history did not complete")
    nid = 0
    kind, dims, ext, edge, own, dfunc = {}, {}, collections.Counter(), {}, {}, {}
    was_map = set()
    freed_all = set()
    poisoned = set()      # gradients whose stops field was overwritten by pixman_image_set_indexed
    cache, freeze, entries = False, 0, {}
    classes = stats if stats is not None else collections.Counter()

    def reach():
        roots = {i for i in range(nid) if ext[i] > 0} | set(entries.values())
        r = set(roots)
        for p in roots:
            m = edge.get(p)
            if m is not None:
                r.add(m)       # no chains: one level is enough; chains are flagged separately
                m2 = edge.get(m)
                while m2 is not None and m2 not in r:
                    r.add(m2); m2 = edge.get(m2)
        return r

    for k, (op, t) in enumerate(zip(ops, toks)):
        pt = parse_tok(t)
        if pt is None:
            return ("output", k, "unparsable reply " + t)
        res, live, fired, freed, obs = pt
        fk = 0                      # "f<k>/<op>": the k-th allocation inside the call fails
        if "/" in op:
            pre, op = op.split("/", 1)
            fk = int(pre[1:])
        f = op.split(":")
        if res == "X":
            classes["refused-by-client-guard"] += 1
            continue
        before_edges = dict(edge)
        want_fire = []
        if f[0] in "BSLRC" and len(f[0]) == 1:
            if res.startswith("+"):
                if int(res[1:]) != nid:
                    return ("ids", k, "unexpected image number")
                kind[nid] = f[0]; ext[nid] = 1; edge[nid] = None; dfunc[nid] = None
                dims[nid] = (int(f[1]), int(f[2])) if f[0] == "B" else None
                nid += 1
            elif fk:
                classes["alloc-failure:create"] += 1
            elif not (f[0] in "LRC" and int(f[1]) <= 0):
                return ("create", k, "creation failed")
        elif f[0] == "r":
            ext[int(f[1])] += 1
        elif f[0] == "u":
            i = int(f[1]); ext[i] -= 1
            if (res == "T") != (i in freed):
                return ("unref-result", k, f"unref returned {res} but the image struct was {'freed' if i in freed else 'not freed'}")
            if (res == "T") != (ext[i] == 0 and not any(edge.get(p) == i for p in reach())):
                return ("unref-result", k, f"unref returned {res} with {ext[i]} client references left")
        elif f[0] == "D":
            dfunc[int(f[1])] = int(f[3]) if f[2] != "0" else None
        elif f[0] == "I":
            if kind[int(f[1])] in "LRC":
                poisoned.add(int(f[1]))
            classes["I:" + {"B": "bits", "S": "solid"}.get(kind[int(f[1])], "gradient")] += 1
        elif f[0] == "A":
            i = int(f[1]); m = None if f[2] == "-" else int(f[2])
            old = edge[i]
            new = None if obs[i]["am"] == "-" else int(obs[i]["am"])
            r = reach()
            is_map = any(edge.get(p) == i for p in r)
            if new != old and new != m:
                return ("alpha-map", k, f"alpha map became {new}, neither the old one nor the requested one")
            reasons = []
            if m is not None:
                if m == i: reasons.append("self")
                if kind[m] != "B": reasons.append("not-bits")
                if edge.get(m) is not None: reasons.append("map-has-map")
                if is_map: reasons.append("image-is-a-map")
                elif i in was_map: reasons.append("image-was-a-map(stale alpha_count)")
            if new == m:
                if m is not None and m != old and [x for x in reasons if not x.startswith("image-was")]:
                    return ("alpha-map", k, "attachment accepted although it makes a chain: " + ",".join(reasons))
                if m is not None and m == old and [x for x in reasons if x in ("self",)]:
                    return ("alpha-map", k, "self reference")
                classes["A:" + ("detach" if m is None and old is not None else "none->none" if m is None else
                               "same-map" if m == old else "replace" if old is not None else "attach")] += 1
                if m is not None and (int(obs[i]["ox"]), int(obs[i]["oy"])) != (int(f[3]), int(f[4])):
                    return ("alpha-map", k, "alpha origin not stored")
            else:
                if not reasons:
                    return ("alpha-map", k, "attachment refused without a chain / self / non-bits reason")
                classes["A:refused:" + reasons[0]] += 1
            edge[i] = new
            if new is not None:
                was_map.add(new)
        elif f[0] == "GC":
            cache, freeze, entries = True, 0, {}
        elif f[0] == "GF":
            freeze += 1
        elif f[0] == "GT":
            freeze -= 1
        elif f[0] == "GD":
            if freeze == 0:
                cache, entries = False, {}
            else:
                classes["GD:refused-frozen"] += 1
        elif f[0] == "GI":
            key, i = int(f[1]), int(f[2])
            should = freeze > 0 and kind[i] == "B"
            if fk and should and res == "F":
                classes["alloc-failure:glyph-insert"] += 1
            elif (res == "T") != should:
                return ("glyph", k, f"insert returned {res}")
            if res == "T":
                kind[nid] = "G"; ext[nid] = 0; edge[nid] = None; dfunc[nid] = None; dims[nid] = dims[i]
                own[nid] = {"fm": int(dims[i][0] > 0 and dims[i][1] > 0), "tv": 0, "fp": 0, "cs": 0, "st": 0}
                entries[key] = nid; nid += 1
            classes["GI:" + ("inserted" if res == "T" else "alloc-failure" if fk and should else "refused-not-frozen" if freeze <= 0 else "refused-not-bits")] += 1
        elif f[0] == "GR":
            entries.pop(int(f[1]), None)
        if fk and f[0] in "TFKk" and res == "F":
            classes["alloc-failure:" + f[0]] += 1
        # ---- observations of the images passed
        for i, o in obs.items():
            own[i] = {"fm": int(o["fm"]), "tv": int(int(o["tv"]) > 0), "fp": int(o["fp"]), "cs": int(int(o["cs"]) > 0), "st": int(o["st"])}
            if (None if o["am"] == "-" else int(o["am"])) != edge[i]:
                return ("alpha-map", k, f"alpha map of image {i} changed by an operation that does not set it")
        # ---- liveness = reachability
        for i in freed:
            if i in freed_all:
                return ("double-free", k, f"image struct {i} freed twice")
            freed_all.add(i)
            if dfunc.get(i) is not None:
                want_fire.append((i, dfunc[i]))
        r = reach()
        alive = set(range(nid)) - freed_all
        if alive != r:
            early, late = sorted(r - alive), sorted(alive - r)
            if early:
                return ("freed-while-referenced", k, f"image {early[0]} was freed while still referenced")
            return ("not-freed", k, f"image {late[0]} is unreferenced but was not freed")
        for i in freed:
            edge[i] = None
        if sorted(fired) != sorted(want_fire):
            return ("callback", k, f"destroy callbacks fired {fired}, expected {want_fire}")
        # ---- no chains, no self loops
        for p in alive:
            m = edge.get(p)
            if m is not None and (m == p or edge.get(m) is not None or m not in alive):
                return ("chain", k, f"alpha-map chain or loop at image {p}")
        # ---- reference counts seen by the client
        for i, o in obs.items():
            want = ext[i] + sum(1 for p in alive if edge.get(p) == i)
            if int(o["rc"]) != want:
                return ("ref-count", k, f"ref_count {o['rc']} of image {i}, expected {want}")
        # ---- census of library blocks
        want_live = sum(1 + sum(own.get(i, {}).values()) for i in alive) + (1 if cache else 0) + len(entries)
        if live != want_live:
            if poisoned:
                return ("set_indexed-on-gradient", k, f"pixman_image_set_indexed on a gradient overwrote gradient.stops: {live} "
                        f"library blocks allocated, the live objects own {want_live} (the stops array is lost)")
            return ("block-census", k, f"{live} library blocks allocated, the live objects own {want_live}")
    tail = parts[2]
    if poisoned and "badfree=0" in tail and "LEAK-AFTER-CLEANUP" in tail:
        return ("set_indexed-on-gradient", len(ops), "pixman_image_set_indexed on a gradient: the stops array is never freed: " + tail)
    if poisoned and "badfree=0" not in tail:
        return ("set_indexed-on-gradient", len(ops), "pixman_image_set_indexed on a gradient: _pixman_image_fini called free() on "
                "(indexed - 1), a pointer the library never allocated: " + tail)
    if "LEAK-AFTER-CLEANUP" in tail or "badfree=0" not in tail:
        return ("leak", len(ops), "blocks left after everything was released, or a foreign pointer freed: " + tail)
    if not any(ext[i] > 0 for i in range(nid)) and not cache and not tail.startswith("live=0 "):
        return ("leak", len(ops), "every reference dropped but " + tail.split()[0])
    return None


def exhaustive_histories(n):
    """every history of n alpha-map / ref / unref calls over three bits images (the third one
    client-owned pixels with a destroy callback), followed by the client dropping everything"""
    alpha = (["r:0", "r:1", "u:0", "u:1", "u:2"] + [f"A:{i}:{m}:1:2" for i in range(3) for m in ("-", 0, 1, 2)]
             + ["A:0:1:5:-3", "A:1:2:5:-3"])     # same map again with another origin (held or borrowed through the parent)
    for h in itertools.product(alpha, repeat=n):
        # epilogue: drop what is still held (ext bookkeeping of this tiny alphabet)
        ext = [1, 1, 1]
        for t in h:
            f = t.split(":")
            if f[0] == "r" and ext[int(f[1])] > 0: ext[int(f[1])] += 1
            if f[0] == "u" and ext[int(f[1])] > 0: ext[int(f[1])] -= 1
        ep = [f"u:{i}" for i in (2, 0, 1) for _ in range(ext[i])]
        yield "hist B:2:2:1:0 B:1:1:1:1 B:3:1:0:1 D:2:1:9 " + " ".join(h) + " " + " ".join(ep)


def failure_sweep():
    """every fallible call x failing allocation 1..3, in a fixed context, followed by each call again"""
    calls = ["B:2:2:1:0", "B:2:2:0:1", "S", "L:2", "T:0:3", "T:0:-", "F:0:5:65536,65536,65536", "F:0:3:1,2,3", "K:0:5",
             "K:0:2", "k:0:5", "k:0:20", "GI:1:0"]
    pro = "hist B:2:2:1:0 F:0:4:1,2 T:0:2 K:0:3 GC GF GI:0:0"
    for c in calls:
        for k in (1, 2, 3):
            for c2 in calls:
                for k2 in (0, 1):
                    second = c2 if not k2 else f"f{k2}/{c2}"
                    yield f"{pro} f{k}/{c} {second} GT GD u:0 u:1 u:2"


def run_exec(ctx, exe, lines, tag, timeout=TIMEOUT):
    """Runs histories through the harness; survives a sanitizer abort by resuming after the
    offending history.  Returns (outputs aligned with lines, [(index, sanitizer report)])."""
    d = ctx.scratch / "x"
    d.mkdir(exist_ok=True)
    outs, crashes, start, rounds = [], [], 0, 0
    env = dict(os.environ, ASAN_OPTIONS="detect_leaks=1:abort_on_error=0:allocator_may_return_null=1")
    while start < len(lines) and rounds < 6:
        rounds += 1
        ops, impl = d / f"{tag}.{rounds}.ops", d / f"{tag}.{rounds}.impl"
        ops.write_text("\n".join(lines[start:]) + "\n")
        try:
            r = subprocess.run([str(exe), "exec", str(ops), str(impl)], env=env, stdout=subprocess.DEVNULL,
                               stderr=subprocess.PIPE, text=True, errors="replace", timeout=timeout)
            rc, err = r.returncode, r.stderr
        except subprocess.TimeoutExpired:
            rc, err = -99, ""
        got = impl.read_text().split("\n") if impl.exists() else []
        complete = [g for g in got[:-1]]
        partial = got[-1] if got else ""
        outs += complete
        if len(complete) >= len(lines) - start:
            if rc != 0:
                crashes.append((-1, sanitizer_summary(err) or f"exit status {rc}"))
            break
        idx = start + len(complete)
        crashes.append((idx, "hang: a library call did not return" if rc == -99 else sanitizer_summary(err) or f"exit status {rc}"))
        outs.append("CRASH " + partial)
        start = idx + 1
    outs += ["SKIPPED (too many aborts in this stream)"] * (len(lines) - len(outs))
    return outs[:len(lines)], crashes


def sanitizer_summary(err):
    m = re.search(r"ERROR: (AddressSanitizer|LeakSanitizer): ([^\n]*)", err)
    if not m:
        return ""
    frames = re.findall(r"#\d+ 0x[0-9a-f]+ in (\S+)", err)
    frames = [f for f in frames if not f.startswith("__") and f not in ("free", "malloc", "calloc")][:4]
    return f"{m.group(1)}: {m.group(2).split(' on address')[0].strip()} [{' < '.join(frames)}]"


def model_outputs(ctx, lines, tag):
    d = ctx.scratch / "x"
    ops, model = d / f"{tag}.mops", d / f"{tag}.model"
    ops.write_text("\n".join(lines) + "\n")
    ctx.pixdrv("lifetime", ops, model)
    out = model.read_text().split("\n")
    return (out + [""] * len(lines))[:len(lines)]


def first_difference(line, a, m):
    ops = line.split()[1:]
    ta, tm = a.split(" | ")[0].split(), m.split(" | ")[0].split()
    for k, (x, y) in enumerate(zip(ta, tm)):
        if x != y:
            px, py = parse_tok(x), parse_tok(y)
            field = "reply"
            if px and py:
                field = ("result" if px[0] != py[0] else "live-blocks" if px[1] != py[1] else "callbacks" if px[2] != py[2]
                         else "freed" if px[3] != py[3] else "observation")
                if field == "observation":
                    for i in px[4]:
                        for fld in OBS_FIELDS:
                            if i in py[4] and px[4][i][fld] != py[4][i][fld]:
                                field = "obs." + fld
                                break
            return k, (ops[k].split(":")[0] if k < len(ops) else "?"), field
    return len(ops), "end", "summary"


def judge(ctx, exe, line):
    """(kind, signature, text, impl, model) or None for one history"""
    (a,), crashes = run_exec(ctx, exe, [line], "j", timeout=6)
    (m,) = model_outputs(ctx, [line], "j")
    if crashes:
        k = len(a.split()) - 1 if a.startswith("CRASH") else 0
        ops = line.split()[1:]
        opn = ops[min(max(k, 0), len(ops) - 1)].split(":")[0] if ops else "?"
        return ("sanitizer", f"sanitizer|{crashes[0][1].split(' [')[0]}|{opn}", crashes[0][1], a, m)
    o = oracle(line, a)
    if o:
        rule, k, text = o
        ops = line.split()[1:]
        opn = ops[k].split(":")[0] if k < len(ops) else "end"
        return ("oracle", f"oracle|{rule}|{opn}", text, a, m)
    if a.strip() != m.strip():
        k, opn, field = first_difference(line, a, m)
        return ("disagree", f"disagree|{opn}|{field}", f"model and implementation differ at step {k} ({opn}: {field})", a, m)
    return None


def shrink(ctx, exe, line, sig, budget=160):
    toks = line.split()[1:]
    if sig.startswith("sanitizer|hang"):
        budget = 20          # every probe of a hang costs its timeout
    changed = True
    while changed and budget > 0:
        changed = False
        for i in range(len(toks) - 1, -1, -1):
            if budget <= 0:
                break
            cand = toks[:i] + toks[i + 1:]
            if not cand:
                continue
            budget -= 1
            j = judge(ctx, exe, "hist " + " ".join(cand))
            if j and j[1] == sig:
                toks, changed = cand, True
    return "hist " + " ".join(toks)


def run(ctx):
    quick = ctx.tier == "quick"
    broken = ctx.lean_obligations("Pixman.Props.C20", REQUIRED)
    b = ctx.build_pixman("asanonly")
    exe = ctx.cc("lifetime", ["lifetime.c"], b, extra=["-w"], wrap=WRAP)
    env = dict(os.environ, ASAN_OPTIONS="detect_leaks=1:abort_on_error=0")
    d = ctx.scratch / "x"
    d.mkdir(exist_ok=True)

    # ---- streams: corpus, exhaustive small scope, generated
    streams = []     # (name, lines)
    cdir = VERIF / "corpus" / "lifetime"
    corpus = []
    if cdir.exists():
        for p in sorted(cdir.glob("*.txt")):
            corpus += [l.strip() for l in p.read_text().splitlines() if l.startswith("hist ")]
    streams.append(("corpus", corpus))
    ex = []
    for n in ((1, 2, 3) if quick else (1, 2, 3, 4)):
        ex += list(exhaustive_histories(n))
    nex = 4 if quick else 16
    for i in range(nex):
        streams.append((f"exhaustive{i}", ex[i::nex]))
    streams.append(("failure-sweep", list(failure_sweep())))
    nchunks, per = (4, 6000) if quick else (16, 40000)

    def gen(i):
        ops, impl = d / f"gen{i}.ops", d / f"gen{i}.impl"
        try:
            r = subprocess.run([str(exe), "gen", str(ctx.seed * 1000 + i), str(per), str(ops), str(impl)], env=env,
                               stdout=subprocess.DEVNULL, stderr=subprocess.PIPE, text=True, errors="replace", timeout=TIMEOUT)
            rc, summ = r.returncode, sanitizer_summary(r.stderr)
        except subprocess.TimeoutExpired:
            rc, summ = -99, "hang: a library call did not return"
        lines = [l for l in ops.read_text().split("\n") if l.strip()] if ops.exists() else []
        return lines, rc, summ

    with ThreadPoolExecutor(max_workers=4 if quick else 16) as pool:
        gens = list(pool.map(gen, range(nchunks)))
    gen_crashes = []
    for i, (lines, rc, summ) in enumerate(gens):
        streams.append((f"gen{i}", lines))
        if rc != 0:
            gen_crashes.append((i, summ or f"exit status {rc}"))

    def one(s):
        name, lines = s
        if not lines:
            return name, lines, [], [], []
        outs, crashes = run_exec(ctx, exe, lines, name)
        models = model_outputs(ctx, lines, name)
        return name, lines, outs, models, crashes

    with ThreadPoolExecutor(max_workers=4 if quick else 16) as pool:
        results = list(pool.map(one, streams))

    total = 0
    hist = collections.Counter()
    classes = collections.Counter()
    nontrivial = set()
    lengths = collections.Counter()
    findings = collections.OrderedDict()    # signature -> (line, text, kind)
    samples = []
    nbad = njudged = skipped = 0
    for name, lines, outs, models, crashes in results:
        for idx, summ in crashes:
            if idx < 0:
                findings.setdefault(f"sanitizer|{summ.split(' [')[0]}|at-exit", ("(whole stream " + name + ")", summ, "sanitizer"))
        for line, a, m in zip(lines, outs, models):
            total += 1
            toks = line.split()[1:]
            lengths[min(len(toks) // 10 * 10, 70)] += 1
            for t in toks:
                hist[t.split(":")[0].split("/")[-1]] += 1
                if "/" in t:
                    hist["(with allocation failure)"] += 1
            bad = None
            if a.startswith("SKIPPED"):
                skipped += 1
            elif a.startswith("CRASH"):
                bad = "crash"
            else:
                o = oracle(line, a, classes)
                if o or a.strip() != m.strip():
                    bad = "x"
                elif "~" in a and (";" in a) and any(t[0] in "ATFKkDGI" for t in toks):
                    nontrivial.add(line)
            if bad:
                nbad += 1
            if bad and len(findings) < 8 and njudged < 40 and len(toks) <= 40:
                njudged += 1
                j = judge(ctx, exe, line)
                if j and j[1] not in findings:
                    findings[j[1]] = (line, j[2], j[0])
        if name.startswith("gen") and lines and len(samples) < 3:
            samples.append(min((l for l in lines if len(l.split()) > 8), key=len, default=lines[0]))
    if ex:
        samples.append(ex[len(ex) // 2])

    ctx.cov["evaluations"] = total
    ctx.cov["distinct_nontrivial"] = len(nontrivial)
    ctx.cov["traces_validated_against_impl"] = total
    ctx.cov["rule"] = (
        "histories of create(bits library-/client-allocated 5 formats sizes 0..17, solid, linear/radial/conical with 0..5 stops) / "
        "ref / unref / set_alpha_map (self, chain, non-bits, re-attach incl. the same map borrowed through its parent after the client dropped it, NULL) / set_transform / set_filter / set_clip_region(32) / "
        "set_destroy_function / set_indexed (3% of resource calls, on any image type) / glyph cache create-freeze-thaw-insert-remove-destroy over a pool of 2..6 held images, generated by "
        "harness/lifetime.c (5 styles, 90% end with the client dropping everything), plus EVERY history of up to "
        f"{3 if quick else 4} ref/unref/set_alpha_map calls over three bits images, plus corpus/lifetime; each history runs on an "
        "ASan+LSan build with malloc/calloc/realloc/free wrapped (exact table of library blocks), and is replayed through the Lean "
        "model (results, live-block count, callbacks, freed structs, 18 observed fields per passed image after every call) and "
        "through the reachability/block-census oracle; non-trivial = distinct history in which at least one image struct was "
        "freed and at least one setter/alpha-map/glyph operation ran, with no disagreement")
    ctx.cov["samples"] = samples
    ctx.extra["operation_histogram"] = dict(hist)
    ctx.extra["branch_histogram"] = dict(classes)
    ctx.extra["history_length_histogram"] = {str(k): v for k, v in sorted(lengths.items())}
    ctx.extra["exhaustive_small_scope_histories"] = len(ex)
    ctx.extra["corpus_histories"] = len(corpus)
    ctx.extra["histories_failing"] = nbad
    ctx.extra["histories_skipped_after_repeated_aborts"] = skipped
    ctx.extra["build"] = "asanonly (AddressSanitizer + LeakSanitizer, no UBSan), --wrap=" + ",".join(WRAP)

    for i, summ in gen_crashes:
        lines = gens[i][0]
        if lines:
            j = judge(ctx, exe, lines[-1])
            if j and j[1] not in findings:
                findings[j[1]] = (lines[-1], j[2], j[0])
        else:
            findings.setdefault(f"sanitizer|{summ}|gen", ("(generator stream %d)" % i, summ, "sanitizer"))

    for sig, (line, text, kind) in list(findings.items())[:6]:
        small = shrink(ctx, exe, line, sig) if line.startswith("hist ") else line
        j = judge(ctx, exe, small) if small.startswith("hist ") else None
        ctx.violation({"kind": kind, "request": small, "original_request": line if small != line else None,
                       "implementation": j[3] if j else None, "model": j[4] if j else None,
                       "how_to_replay": "bin/check C20 --replay <this file>  (harness/lifetime.c exec, asanonly build, "
                                        "--wrap=malloc,calloc,realloc,free)"},
                      signature=sig, what=(j[2] if j else text) + " — " + small, tag=kind)
    # re-entrant destroy callbacks (oracle only; the model's callback is a pure observer): harness/lifetime.c run_reentrant
    try:
        rr = subprocess.run([str(exe), "reentrant"], capture_output=True, text=True, timeout=60, env=dict(os.environ, ASAN_OPTIONS="detect_leaks=0:abort_on_error=0"))
        rtext = (rr.stdout + rr.stderr).strip()
    except subprocess.TimeoutExpired:
        rr, rtext = None, "timeout (60 s)"
    ctx.cov["evaluations"] += 14
    ctx.extra["reentrant_destroy_scenarios"] = "14 (callback detaches / replaces the alpha map, sets transform, filter, clip on the dying image) — " + (rtext.splitlines()[-1] if rtext else "no output")
    if rr is None or rr.returncode != 0 or "reentrant ok" not in rtext:
        ctx.violation({"kind": "reentrant-destroy", "request": "lifetime reentrant", "observed": rtext[-1500:],
                       "how_to_replay": "<scratch>/lifetime reentrant (harness/lifetime.c run_reentrant, asanonly build, --wrap=malloc,calloc,realloc,free)"},
                      signature="oracle|reentrant-destroy", what="destroy callback that modifies the dying image: " + (rtext.splitlines()[0] if rtext else "crash"), tag="reentrant")
    if broken and not ctx.violations:
        ctx.broken_obligations_verdict(broken, "lifetime histories (corpus + exhaustive small scope + generated) found no failing input")
    ctx.assumptions += [
        "the client respects ownership: it passes only images it holds a reference to, or, as alpha_map argument, the current alpha map of an image it holds (requests that do not are answered X on both sides)",
        "allocation failure only as injected: the k-th (k<=3) request inside one create_* / set_transform / set_filter / "
        "set_clip_region(32) / glyph insert call returns NULL; failures inside other calls are C15's",
        "glyph cache below its high-water mark, a key inserted only while absent (hash table and eviction are C17)",
        "malloc returns a block not handed out before or freed since; ASan/LSan and the --wrap table are trusted to observe frees",
        "destroy callbacks do not call back into the library",
    ]


def replay(ctx, path):
    obj = json.loads(Path(path).read_text())
    line = obj["request"]
    ctx.lean_obligations("Pixman.Props.C20", [])
    b = ctx.build_pixman("asanonly")
    exe = ctx.cc("lifetime", ["lifetime.c"], b, extra=["-w"], wrap=WRAP)
    (ctx.scratch / "x").mkdir(exist_ok=True)
    ctx.cov["evaluations"] = 1
    j = judge(ctx, exe, line)
    if j:
        ctx.violation(dict(obj, implementation=j[3], model=j[4]), signature=j[1], what=j[2] + " — " + line, tag=j[0])

"""C05 — region operations are exact set algebra."""
from checks import regioncommon as rc

BRIDGE = ["Pixman.Props.RegionBridge." + n for n in ("extentCheck_bridge", "inBox_bridge", "subsumes_bridge", "goodRect_bridge", "badRect_bridge", "limits_bridge")]

REQUIRED = [
    "Pixman.Props.C05.splitBand_append",
    "Pixman.Props.C05.interO_inSpans",
    "Pixman.Props.C05.interO_yExtent",
    "Pixman.Props.C05.interO_spansSep",
    "Pixman.Props.C05.unionO_inSpans",
    "Pixman.Props.C05.unionO_yExtent",
    "Pixman.Props.C05.unionO_spansSep",
    "Pixman.Props.C05.subO_inSpans",
    "Pixman.Props.C05.subO_yExtent",
    "Pixman.Props.C05.subO_spansSep",
    "Pixman.Props.C05.overlapO_inSpans",
    "Pixman.Props.C05.overlapO_yExtent",
    "Pixman.Props.C05.overlapO_spansSep",
    "Pixman.Props.C05.pixmanOpRects_union",
    "Pixman.Props.C05.pixmanOpRects_inter",
    "Pixman.Props.C05.pixmanOpRects_sub",
    "Pixman.Props.C05.pixmanOpRects_canon",
    "Pixman.Props.C05.sweep_fuel_enough",
    "Pixman.Props.C05.union_exact",
    "Pixman.Props.C05.intersect_exact",
    "Pixman.Props.C05.subtract_exact",
    "Pixman.Props.C05.inverse_exact",
    "Pixman.Props.C05.unionRect_exact",
    "Pixman.Props.C05.intersectRect_exact",
    "Pixman.Props.C05.rectBox_exact",
    "Pixman.Props.C05.copy_exact",
    "Pixman.Props.C05.reset_exact",
    "Pixman.Props.C05.clear_exact",
    "Pixman.Props.C05.initRect_exact",
    "Pixman.Props.C05.initWithExtents_exact",
    "Pixman.Props.C05.setExtents_exact",
    "Pixman.Props.C05.sortRects_spec",
    "Pixman.Props.C05.validateRects_exact",
    "Pixman.Props.C05.initRects_exact",
    "Pixman.Props.C05.initRects_union_of_good",
]


def run(ctx):
    broken = ctx.lean_obligations("Pixman.Props.C05", REQUIRED + BRIDGE, extra_modules=["Pixman.Props.RegionBridge"])
    quick = ctx.tier == "quick"
    findings = rc.run_streams(ctx, "C05", 150000 if quick else 1500000, 4 if quick else 16)
    rc.report(ctx, findings)
    if broken and not ctx.violations:
        ctx.broken_obligations_verdict(broken, "region correspondence stream and point-set oracle found no failing input")
    ctx.assumptions += ["no allocation failure (that world is C15)",
                        "coordinates of results inside the representable range of the instantiation"]

"""C05 — region operations are exact set algebra."""
from checks import regioncommon as rc

REQUIRED = [
    "Pixman.Props.C05.splitBand_append",
]


def run(ctx):
    broken = ctx.lean_obligations("Pixman.Props.C05", REQUIRED)
    quick = ctx.tier == "quick"
    findings = rc.run_streams(ctx, "C05", 150000 if quick else 1500000, 4 if quick else 16)
    rc.report(ctx, findings)
    if broken and not ctx.violations:
        ctx.broken_obligations_verdict(broken, "region correspondence stream and point-set oracle found no failing input")
    ctx.assumptions += ["no allocation failure (that world is C15)",
                        "coordinates of results inside the representable range of the instantiation"]

"""C15 — any allocation failure is survived: no crash, no leak, failure is reported.

Proof part: Pixman.Props.C15 (allocation-aware region model refining Pixman.Region, heap discipline,
constructor sequences) for EVERY failure schedule.  Tie + oracle: fault enumeration on the real
library (harness/allocfail.c, allocator wrapped at link time): every request line is run once without
failure to count its allocation requests n, then with the k-th request refused for every k <= n and
with the k-th and all later requests refused, each run in a forked child.  Region / constructor /
setter lines are replayed through `pixdrv regionalloc` (return value, result region incl. capacity,
number of requests made, live blocks after the call and after fini must agree); drawing lines have no
model: their oracle is the property's own claim."""
import collections, json, re, subprocess
from concurrent.futures import ThreadPoolExecutor
from engine.core import diff_streams, log, VERIF

P = "Pixman.Props.C15."
REQUIRED = [P + n for n in (
    # F1: FALSE => broken region, TRUE => refines Pixman.Region (Spec.AllocFail.Survives)
    "broken_of_isBroken", "pixmanBreak_broken", "rectAlloc_false_broken",
    "rectAlloc_true_erase", "szof_guard_breaks", "copyA_survives",
    "pixmanOpA_survives", "intersectA_survives", "unionA_survives",
    "subtractA_survives", "inverseA_survives", "intersectRectA_survives",
    "unionRectA_survives", "quick_sort_rects_sorts", "validateA_survives",
    "initRectsA_survives", "translateA_refines_or_broken", "initFromImageA_refines_or_broken",
    "conv16_outcome", "conv32_outcome",
    # F2: broken operands
    "pixmanOpA_broken_operand", "intersectA_broken_operand", "inverseA_broken_operand",
    "subtractA_broken_operand", "subtractA_broken_minuend_returns_true", "unionA_broken_operand",
    "unionA_empty_broken_returns_true", "copyA_broken_source_propagates", "translate_keeps_broken",
    "finiA_accepts_static",
    # F3: heap discipline (validate's bail path, init_rects, translate, from_image, conversions included)
    "own_no_double_free", "own_nil_all_freed", "copyA_own",
    "pixmanOpA_own", "intersectA_own", "unionA_own",
    "subtractA_own", "inverseA_own", "finiA_own",
    "validate_own", "initRects_own", "translate_own",
    "initFromImage_own", "conv16_own", "conv32_own",
    "history_heap_discipline",
    # F4: constructors / setters
    "construct_null_no_leak", "construct_ok_owns", "construct_destroy_clean",
    "setOwned_fail_unchanged", "setOwned_own",
)]

HIST_DEFS = ["-DPIXMAN_VERIF_GLYPH_HIGH_WATER=8", "-DPIXMAN_VERIF_GLYPH_LOW_WATER=4", "-w"]

DRAW_CLASS = {
    "alphamap": lambda v: "narrow-dest-iterator" if v[1] & 1 else "wide-dest-iterator",
    "fillrects": lambda v: "composite-fallback" if v[1] & 1 else "direct-fill",
    "glyph_insert": lambda v: "wide-glyph" if v[1] & 1 else "small-glyph",
}


def norm(text):
    text = re.sub(r"but the work was (partial|skipped|other)", "but the work was not completed", text)
    return re.sub(r"-?\d+", "N", text).strip()


def signature(line, text):
    t = line.split()
    if t[0] == "dr":
        v = [int(x) for x in t[4:7]]
        cls = DRAW_CLASS.get(t[3], lambda v: "any")(v)
        return f"dr|{t[3]}|{cls}|{norm(text)}"
    if t[0] == "rg":
        return f"rg|{t[4]}|{norm(text)}"
    return f"{t[0]}|{t[3]}|{norm(text)}"


def run_one(ctx, exe, i, nscen, corpus):
    d = ctx.scratch / f"af{i}"
    d.mkdir(exist_ok=True)
    om, im, od, idr, orc, mm = (d / n for n in ("ops_m.txt", "impl_m.txt", "ops_d.txt", "impl_d.txt", "oracle.txt", "model.txt"))
    if i < len(corpus):
        lines = [l for l in corpus[i].read_text().splitlines() if l.strip() and not l.startswith("#")]
        om.write_text("".join(l + "\n" for l in lines if not l.startswith("dr ")))
        od.write_text("".join(l + "\n" for l in lines if l.startswith("dr ")))
        o1, o2 = d / "o1.txt", d / "o2.txt"
        subprocess.run([str(exe), "exec", str(om), str(im), str(o1)], stderr=subprocess.DEVNULL)
        subprocess.run([str(exe), "exec", str(od), str(idr), str(o2)], stderr=subprocess.DEVNULL)
        txt = o1.read_text().replace("ORACLE x ", "ORACLE m ") + o2.read_text().replace("ORACLE x ", "ORACLE d ")
        orc.write_text(txt)
    else:
        seed = ctx.seed * 1000 + i
        subprocess.run([str(exe), "gen", str(seed), str(nscen), str(om), str(im), str(od), str(idr), str(orc)],
                       stderr=subprocess.DEVNULL)
    ctx.pixdrv("regionalloc", om, mm)
    return om, im, od, idr, orc, mm


def run_hist(ctx, exe_s, n):
    d = ctx.scratch / "afhist"
    d.mkdir(exist_ok=True)
    om, im, od, idr, orc, mm = (d / n_ for n_ in ("ops_m.txt", "impl_m.txt", "ops_d.txt", "impl_d.txt", "oracle.txt", "model.txt"))
    for f in (om, im, mm):
        f.write_text("")
    subprocess.run([str(exe_s), "genhist", str(ctx.seed * 1000 + 777), str(n), str(od), str(idr), str(orc)],
                   stderr=subprocess.DEVNULL)
    return om, im, od, idr, orc, mm


def run(ctx):
    broken = ctx.lean_obligations("Pixman.Props.C15", REQUIRED)
    quick = ctx.tier == "quick"
    b = ctx.build_pixman("plain")
    exe = ctx.cc("allocfail", ["allocfail.c"], b, wrap=["malloc", "calloc", "realloc", "free"])
    # glyph cache histories after a failed insert: white-box build of the harness (it compiles the tree's
    # pixman-glyph.c with 16-slot tables, PIXMAN_VERIF hook), so that eviction is reachable cheaply
    exe_s = ctx.cc("allocfail-hist", ["allocfail.c"], b, wrap=["malloc", "calloc", "realloc", "free"], extra=HIST_DEFS)
    cdir = VERIF / "corpus" / "regionalloc"
    corpus = sorted(cdir.glob("*.txt")) if cdir.exists() else []
    nstreams, nscen = (8, 500) if quick else (16, 8000)
    with ThreadPoolExecutor(max_workers=8 if quick else 16) as ex:
        fut_h = ex.submit(run_hist, ctx, exe_s, 16 if quick else 96)
        results = list(ex.map(lambda i: run_one(ctx, exe, i, nscen, corpus), range(len(corpus) + nstreams)))
        results.append(fut_h.result())

    findings = collections.OrderedDict()      # signature -> list of (line, impl, model, text)
    ops_hist, outcome_hist, ret_hist = collections.Counter(), collections.Counter(), collections.Counter()
    injected, samples = set(), []
    total = scen_total = 0
    crashes = 0

    def add(line, impl, model, text):
        findings.setdefault(signature(line, text), []).append((line, impl, model, text))

    for om, im, od, idr, orc, mm in results:
        n, dis = diff_streams(om, im, mm, limit=200)
        total += n
        for (ln, op, a, m) in dis:
            add(op, a, m, "model and implementation differ (" + ("crash" if a.startswith("CRASH") else
                "result/requests/live blocks") + ")")
        mlines = om.read_text().split("\n")
        dlines = od.read_text().split("\n")
        ilines = im.read_text().split("\n")
        idl = idr.read_text().split("\n")
        for l, r in list(zip(mlines, ilines)) + list(zip(dlines, idl)):
            if not l:
                continue
            t = l.split(" ", 6)
            kind = t[0]
            mode, k = (t[2], int(t[3])) if kind == "rg" else (t[1], int(t[2]))
            name = t[4] if kind == "rg" else t[3]
            ops_hist[f"{kind}:{name}"] += 1
            if mode == "n":
                scen_total += 1
            mreq = re.search(r"req=(\d+)", r)
            if r.startswith("CRASH"):
                crashes += 1
            # a fault was really injected: the failing request was reached
            if mode != "n" and mreq and int(mreq.group(1)) >= k:
                injected.add(l)
                ret_hist[f"{kind}:{r.split(' ', 1)[0]}"] += 1
                if kind == "dr":
                    outcome_hist[f"{name}:{r.split(' ')[1]}"] += 1
                if len(samples) < 6 and len(l) < 260 and (len(samples) % 2 == 0) == (kind == "rg"):
                    samples.append(l + "  =>  " + r[:160])
        total += sum(1 for l in dlines if l)
        for ol in orc.read_text().splitlines():
            m = re.match(r"ORACLE ([md]) (\d+) (.*)", ol.strip())
            if not m:
                continue
            which, ln = m.group(1), int(m.group(2))
            src, res = (mlines, ilines) if which == "m" else (dlines, idl)
            line = src[ln - 1] if 0 < ln <= len(src) else "?"
            impl = res[ln - 1] if 0 < ln <= len(res) else "?"
            for text in [x for x in m.group(3).split("|") if x.strip()]:
                add(line, impl, None, text.strip())

    reported = 0
    for sig, items in findings.items():
        line, impl, model, text = min(items, key=lambda it: (len(it[0]), it[0]))
        if reported >= 8 and not any(k.get("signature") == sig for k in ctx.known.get("findings", [])):
            continue
        if ctx.violation({"kind": "fault-enumeration", "request": line, "implementation": impl, "model": model,
                          "oracle": text, "count_in_run": len(items),
                          "how_to_replay": "bin/check C15 --replay <this file>  (or: printf '%s\\n' \"<request>\" > ops.txt; "
                                           "<scratch>/allocfail-plain exec ops.txt impl.txt oracle.txt  [glyph_hist lines: allocfail-hist-plain, the "
                                           "harness compiled with -DPIXMAN_VERIF_GLYPH_HIGH_WATER=8 -DPIXMAN_VERIF_GLYPH_LOW_WATER=4]; "
                                           "lean/.lake/build/bin/pixdrv regionalloc < ops.txt)"},
                         signature=sig, what=f"{line.split()[0]} {text}: e.g. '{line[:200]}'", tag=sig.split("|")[1]):
            reported += 1

    if not quick:
        asan_subset(ctx, results)

    if broken and not ctx.violations:
        ctx.broken_obligations_verdict(broken, "fault enumeration over region, constructor, setter and drawing scenarios found no failing input")

    ctx.cov["evaluations"] = total
    ctx.cov["distinct_nontrivial"] = len(injected)
    ctx.cov["traces_validated_against_impl"] = sum(1 for l in injected if not l.startswith("dr "))
    ctx.cov["rule"] = ("one evaluation = one request line executed in a forked child under one failure schedule; scenarios: "
                       "region16/32 union/intersect/subtract/inverse/union_rect/intersect_rect/copy/init_rects/translate/"
                       "init_from_image/16<->32 conversion/fini over operands of every kind (single, static empty, broken, "
                       "malloc'ed with capacities n, n+1, 2n, 2n+3, 51..200) and every aliasing pattern; constructors, setters; "
                       "drawing calls (general path with heap scanline buffers, transformed and gradient sources, alpha maps, "
                       "multi-rectangle clips, fill_rectangles, trapezoids/triangles, glyphs, glyph insertion, clip setters, "
                       "separable convolution, 16-bit composite region). For each scenario: 1 run without failure (counts n), "
                       "then k-th refused and k-th-and-later refused for every k<=n. Non-trivial = a schedule under which the "
                       "refused request was actually reached, distinct by full request text")
    ctx.cov["samples"] = samples
    ctx.extra["scenarios"] = scen_total
    ctx.extra["operation_histogram"] = dict(ops_hist)
    ctx.extra["result_under_injected_fault"] = dict(ret_hist)
    ctx.extra["drawing_outcomes_under_injected_fault"] = dict(outcome_hist)
    ctx.extra["crashes"] = crashes
    ctx.extra["fault_enumeration"] = {"schedules": "single k-th failure and persistent failure from k on, every k <= n",
                                      "exhaustive_per_scenario": "yes up to 40 requests; thinned (every 7th k plus the first 12 and last 6) beyond"}
    ctx.assumptions += [
        "the implementation chain is created by the library's constructor before main (its allocations are not enumerated)",
        "malloc/realloc/free themselves are trusted; a moved realloc block is not distinguished from one grown in place",
        "the band sweep of pixman_op and the row scan of init_from_image are modelled as 'capacity events + pure result' "
        "(their rectangles come from Pixman.Region); tied by request counts / failure positions / result capacities",
        "drawing paths under failure are enumerated, not modelled (no functional spec for 'skips work')",
        "PIXREGION_SZOF overflow guard (>= 2^28 rectangles) is proved to break but not executed on the library",
    ]


def asan_subset(ctx, results):
    """Thorough tier: replay a slice of every stream against an AddressSanitizer build of the library
    (flavour `asanonly`: UBSan is left out on purpose — the ASan+UBSan build aborts on benign signed
    shifts such as `(color->alpha >> 8) << 24` in pixman.c:color_to_pixel and pixman-fast-path.c:2839,
    which are pixel-arithmetic matters outside this property)."""
    b = ctx.build_pixman("asanonly")
    wr = ["malloc", "calloc", "realloc", "free"]
    exe = ctx.cc("allocfail", ["allocfail.c"], b, wrap=wr)
    exe_h = ctx.cc("allocfail-hist", ["allocfail.c"], b, wrap=wr, extra=HIST_DEFS)
    d = ctx.scratch / "asan"
    d.mkdir(exist_ok=True)
    lines = []
    for om, im, od, idr, orc, mm in results:
        lines += [l for l in om.read_text().splitlines()[:400] if l]
        lines += [l for l in od.read_text().splitlines()[:120] if l]
    env = {"ASAN_OPTIONS": "detect_leaks=0:allocator_may_return_null=1", "PATH": "/usr/bin:/bin", "AF_CPU": "8"}
    groups = [("plain", exe, [l for l in lines if " glyph_hist " not in l]),
              ("hist", exe_h, [l for l in lines if " glyph_hist " in l])]
    n = reported = 0
    for tag, x, ls in groups:
        ops, impl = d / f"ops-{tag}.txt", d / f"impl-{tag}.txt"
        ops.write_text("".join(l + "\n" for l in ls))
        subprocess.run([str(x), "exec", str(ops), str(impl), str(d / f"orc-{tag}.txt")], stderr=subprocess.DEVNULL, env=env)
        seen = set()
        for l, r in zip(ls, impl.read_text().splitlines()):
            n += 1
            if not r.startswith("CRASH"):
                continue
            sig = signature(l, "sanitizer abort")
            if sig in seen or reported >= 6:
                continue
            seen.add(sig)
            # run the request alone to capture what the sanitizer says
            (d / "one.txt").write_text(l + "\n")
            rr = subprocess.run([str(x), "exec", str(d / "one.txt"), str(d / "one-impl.txt")], stdout=subprocess.DEVNULL,
                                stderr=subprocess.PIPE, text=True, env=env)
            rep = [q for q in rr.stderr.splitlines() if q.strip()][:25]
            if ctx.violation({"kind": "asan", "request": l, "implementation": r, "sanitizer_report_head": rep,
                              "how_to_replay": "asanonly build of the library; ASAN_OPTIONS=detect_leaks=0:allocator_may_return_null=1 "
                                               "allocfail-asanonly exec ops.txt impl.txt"},
                             signature=sig, what=f"AddressSanitizer build aborts: '{l[:200]}' {rep[0] if rep else ''}", tag="asan"):
                reported += 1
    ctx.extra["asan_replayed"] = n


def replay(ctx, path):
    obj = json.loads(open(path).read())
    line = obj.get("request", "")
    small = " glyph_hist " in line
    b = ctx.build_pixman("plain")
    exe = ctx.cc("allocfail-hist" if small else "allocfail", ["allocfail.c"], b,
                 wrap=["malloc", "calloc", "realloc", "free"], extra=HIST_DEFS if small else [])
    d = ctx.scratch
    (d / "ops.txt").write_text(line + "\n")
    subprocess.run([str(exe), "exec", str(d / "ops.txt"), str(d / "impl.txt"), str(d / "orc.txt")])
    impl = (d / "impl.txt").read_text().strip()
    log("request:        ", line)
    log("implementation: ", impl)
    bad = False
    if not line.startswith("dr "):
        subprocess.run(["lake", "build", "pixdrv"], cwd=VERIF / "lean", stdout=subprocess.DEVNULL)
        ctx.pixdrv("regionalloc", d / "ops.txt", d / "model.txt")
        model = (d / "model.txt").read_text().strip()
        log("model:          ", model)
        bad = model != impl
    orc = (d / "orc.txt").read_text().strip()
    if orc:
        log("oracle:         ", orc)
        bad = True
    if bad:
        sig = obj.get("signature")
        ctx.violation({"kind": "replay", "request": line, "implementation": impl, "oracle": orc}, signature=sig,
                      what=obj.get("what", "replayed failure persists"), tag="replay")

"""Shared machinery of C05, C06, C07: the region correspondence stream + point-set oracle."""
import collections, json, os, re, subprocess
from concurrent.futures import ThreadPoolExecutor
from engine.core import diff_streams, log, VERIF

SET_OPS = {"union", "intersect", "subtract", "inverse", "union_rect", "intersect_rect", "copy", "reset",
           "clear", "init_rect", "init_with_extents", "init_rects", "to16", "to32"}
QUERY_OPS = {"contains_point", "contains_rect", "not_empty", "translate", "from_image"}

ORACLE_CLASS = [
    (re.compile(r"^point \("), "C05", "set-algebra"),
    (re.compile(r"^init_rects point"), "C05", "init_rects-points"),
    (re.compile(r"^operation reported failure"), "C05", "reported-failure"),
    (re.compile(r"conversion changed"), "C05", "conversion"),
    (re.compile(r"^copy is not equal"), "C05", "copy"),
    (re.compile(r"^equal\(\) disagrees"), "C06", "equal-vs-points"),
    (re.compile(r"^(single rectangle is empty|heap block with no rectangle|single rectangle stored as a list|empty rectangle in list|band members|bands overlap|mergeable bands|extents not the bounding box)"), "C06", "canonical"),
    (re.compile(r"^contains_point"), "C07", "contains_point"),
    (re.compile(r"^contains_rectangle"), "C07", "contains_rectangle"),
    (re.compile(r"^translate point"), "C07", "translate-points"),
    (re.compile(r"^from_image point"), "C07", "from_image-points"),
    (re.compile(r"^not_empty disagrees"), "C07", "not_empty"),
]


def classify(text):
    for rx, pid, cat in ORACLE_CLASS:
        if rx.search(text):
            return pid, cat
    return "C05", "other"


def ops_for(pid):
    if pid == "C05":
        return SET_OPS
    if pid == "C06":
        return SET_OPS | {"equal", "translate", "from_image"}
    return QUERY_OPS


def run_streams(ctx, pid, nsteps, nstreams):
    """Runs `nstreams` generated histories (half with coordinates at the type limits), diffs the
    implementation against the Lean model and collects spec-oracle failures."""
    b = ctx.build_pixman("plain")
    exe = ctx.cc("region", ["region.c"], b, wrap=["malloc"])
    ops_hist = collections.Counter()
    kinds = collections.Counter()
    total = 0
    nontrivial = set()
    samples = []
    findings = []   # (kind, op, line, impl, model, text)

    corpus = sorted((VERIF / "corpus" / "region").glob("*.txt")) if (VERIF / "corpus" / "region").exists() else []

    def one(i):
        d = ctx.scratch / f"rs{i}"
        d.mkdir(exist_ok=True)
        ops, impl, orc, model = d / "ops.txt", d / "impl.txt", d / "oracle.txt", d / "model.txt"
        if i < len(corpus):
            ops.write_text(corpus[i].read_text())
            subprocess.run([str(exe), "exec", str(ops), str(impl)], stderr=subprocess.DEVNULL)
            orc.write_text("")
        else:
            seed = ctx.seed * 1000 + i
            subprocess.run([str(exe), "gen", str(seed), str(nsteps), str(i % 2), str(ops), str(impl), str(orc)],
                           stderr=subprocess.DEVNULL)
        ctx.pixdrv("region", ops, model)
        return ops, impl, orc, model

    n_all = len(corpus) + nstreams
    with ThreadPoolExecutor(max_workers=16) as ex:
        results = list(ex.map(one, range(n_all)))

    want_ops = ops_for(pid)
    for ops, impl, orc, model in results:
        n, dis = diff_streams(ops, impl, model)
        total += n
        with open(ops) as f:
            lines = f.read().split("\n")
        for l in lines:
            if not l:
                continue
            t = l.split(" ", 2)
            ops_hist[t[0]] += 1
            if t[0] in want_ops:
                # non-trivial: a multi-rectangle operand takes part (kind H)
                if " H " in l:
                    nontrivial.add(hash(l))
        for k in ("S", "E", "H", "B"):
            pass
        if len(samples) < 4 and lines:
            for l in lines:
                if l.split(" ", 1)[0] in want_ops and " H " in l and len(l) < 300:
                    samples.append(l)
                    break
        for (ln, op, a, m) in dis:
            name = op.split(" ", 1)[0]
            if name in want_ops:
                findings.append(("disagree", name, op, a, m, "model and implementation differ"))
        with open(orc) as f:
            for ol in f:
                mm = re.match(r"ORACLE (\d+) (.*)", ol.strip())
                if not mm:
                    continue
                ln, text = int(mm.group(1)), mm.group(2)
                p, cat = classify(text)
                if p != pid:
                    continue
                opline = lines[ln - 1] if 0 < ln <= len(lines) else "?"
                findings.append(("oracle:" + cat, opline.split(" ", 1)[0], opline, None, None, text))
    ctx.cov["evaluations"] += total
    ctx.cov["distinct_nontrivial"] += len(nontrivial)
    ctx.cov["traces_validated_against_impl"] += total
    ctx.cov["rule"] = ("random operation histories over a pool of 6 regions per coordinate width (16/32), every aliasing "
                       "pattern, coordinates from a dense small range / edges of existing rectangles +-1 / type limits; each "
                       "step is one request line replayed through the Lean model; non-trivial = request of this property's "
                       "operations with at least one multi-rectangle operand, distinct by full request text")
    ctx.cov["samples"] = samples
    ctx.extra["operation_histogram"] = dict(ops_hist)
    return findings


def report(ctx, findings, limit=6):
    """Turns findings into VIOLATION / KNOWN-FINDING lines (grouped by signature)."""
    seen = collections.OrderedDict()
    for kind, op, line, a, m, text in findings:
        sig = signature(kind, op, line, text)
        seen.setdefault(sig, []).append((kind, op, line, a, m, text))
    n = 0
    for sig, items in seen.items():
        kind, op, line, a, m, text = min(items, key=lambda it: len(it[2]))
        if n >= limit:
            break
        if ctx.violation({"kind": kind, "request": line, "implementation": a, "model": m, "oracle": text,
                          "how_to_replay": "printf '%s\\n' \"<request>\" > ops.txt; harness/region exec ops.txt impl.txt; "
                                           "lean/.lake/build/bin/pixdrv region < ops.txt",
                          "count_in_run": len(items)}, signature=sig, what=f"{op}: {text}", tag=op):
            n += 1


def signature(kind, op, line, text):
    """Identifies a failure class by the operation and the specific shape of the failing input."""
    t = re.sub(r"\(-?\d+,-?\d+\)", "(P)", text)
    t = re.sub(r"expected \d( got \d)?", "", t).strip()
    return f"{op}|{kind}|{t}"

"""Shared machinery of C05, C06, C07: the region correspondence stream + point-set oracle."""
import collections, json, os, re, subprocess
from concurrent.futures import ThreadPoolExecutor
from engine.core import diff_streams, log, VERIF

SET_OPS = {"union", "intersect", "subtract", "inverse", "union_rect", "intersect_rect", "copy", "reset",
           "clear", "init_rect", "init_with_extents", "init_rects", "to16", "to32"}
QUERY_OPS = {"contains_point", "contains_rect", "not_empty", "translate", "from_image"}

ORACLE_CLASS = [
    (re.compile(r"^point \("), "C05", "set-algebra"),
    (re.compile(r"^init_rects point"), "C05", "init_rects-points"),
    (re.compile(r"^operation reported failure"), "C05", "reported-failure"),
    (re.compile(r"conversion changed"), "C05", "conversion"),
    (re.compile(r"^copy is not equal"), "C05", "copy"),
    (re.compile(r"^equal\(\) disagrees"), "C06", "equal-vs-points"),
    (re.compile(r"^(single rectangle is empty|heap block with no rectangle|single rectangle stored as a list|empty rectangle in list|band members|bands overlap|mergeable bands|extents not the bounding box)"), "C06", "canonical"),
    (re.compile(r"^contains_point"), "C07", "contains_point"),
    (re.compile(r"^contains_rectangle"), "C07", "contains_rectangle"),
    (re.compile(r"^translate point"), "C07", "translate-points"),
    (re.compile(r"^from_image point"), "C07", "from_image-points"),
    (re.compile(r"^not_empty disagrees"), "C07", "not_empty"),
]


def classify(text):
    for rx, pid, cat in ORACLE_CLASS:
        if rx.search(text):
            return pid, cat
    return "C05", "other"


def ops_for(pid):
    if pid == "C05":
        return SET_OPS
    if pid == "C06":
        return SET_OPS | {"equal", "translate", "from_image"}
    return QUERY_OPS


def run_streams(ctx, pid, nsteps, nstreams):
    """Runs `nstreams` generated histories (half with coordinates at the type limits), diffs the
    implementation against the Lean model and collects spec-oracle failures."""
    b = ctx.build_pixman("plain")
    exe = ctx.cc("region", ["region.c"], b, wrap=["malloc"])
    ops_hist = collections.Counter()
    kinds = collections.Counter()
    total = 0
    nontrivial = set()
    samples = []
    findings = []   # (kind, op, line, impl, model, text)

    corpus = sorted((VERIF / "corpus" / "region").glob("*.txt")) if (VERIF / "corpus" / "region").exists() else []

    def one(i):
        d = ctx.scratch / f"rs{i}"
        d.mkdir(exist_ok=True)
        ops, impl, orc, model = d / "ops.txt", d / "impl.txt", d / "oracle.txt", d / "model.txt"
        if i < len(corpus):
            ops.write_text(corpus[i].read_text())
            subprocess.run([str(exe), "exec", str(ops), str(impl)], stderr=subprocess.DEVNULL)
            orc.write_text("")
        else:
            seed = ctx.seed * 1000 + i
            subprocess.run([str(exe), "gen", str(seed), str(nsteps), str(i % 2), str(ops), str(impl), str(orc)],
                           stderr=subprocess.DEVNULL)
        ctx.pixdrv("region", ops, model)
        return ops, impl, orc, model

    n_all = len(corpus) + nstreams
    with ThreadPoolExecutor(max_workers=16) as ex:
        results = list(ex.map(one, range(n_all)))

    want_ops = ops_for(pid)
    for ops, impl, orc, model in results:
        n, dis = diff_streams(ops, impl, model)
        total += n
        with open(ops) as f:
            lines = f.read().split("\n")
        for l in lines:
            if not l:
                continue
            t = l.split(" ", 2)
            ops_hist[t[0]] += 1
            if t[0] in want_ops:
                # non-trivial: a multi-rectangle operand takes part (kind H)
                if " H " in l:
                    nontrivial.add(hash(l))
        for k in ("S", "E", "H", "B"):
            pass
        if len(samples) < 4 and lines:
            for l in lines:
                if l.split(" ", 1)[0] in want_ops and " H " in l and len(l) < 300:
                    samples.append(l)
                    break
        for (ln, op, a, m) in dis:
            name = op.split(" ", 1)[0]
            if name in want_ops:
                findings.append(("disagree", name, op, a, m, "model and implementation differ"))
        with open(orc) as f:
            for ol in f:
                mm = re.match(r"ORACLE (\d+) (.*)", ol.strip())
                if not mm:
                    continue
                ln, text = int(mm.group(1)), mm.group(2)
                p, cat = classify(text)
                if p != pid:
                    continue
                opline = lines[ln - 1] if 0 < ln <= len(lines) else "?"
                findings.append(("oracle:" + cat, opline.split(" ", 1)[0], opline, None, None, text))
    ctx.cov["evaluations"] += total
    ctx.cov["distinct_nontrivial"] += len(nontrivial)
    ctx.cov["traces_validated_against_impl"] += total
    ctx.cov["rule"] = ("random operation histories over a pool of 6 regions per coordinate width (16/32), every aliasing "
                       "pattern, coordinates from a dense small range / edges of existing rectangles +-1 / type limits; each "
                       "step is one request line replayed through the Lean model; non-trivial = request of this property's "
                       "operations with at least one multi-rectangle operand, distinct by full request text")
    ctx.cov["samples"] = samples
    ctx.extra["operation_histogram"] = dict(ops_hist)
    return findings


# ------------------------------------------------------------------ shrinking of a failing request line
def _parse(line):
    """tokens -> list of segments: ('t', token) or ('r', kind, [x1,y1,x2,y2], [[..4..], ...])"""
    t = line.split()
    segs, i = [], 0
    while i < len(t):
        if t[i] in ("S", "E", "B", "H") and i + 5 < len(t) + 0 and all(re.fullmatch(r"-?\d+", x) for x in t[i + 1:i + 6]):
            n = int(t[i + 5])
            if i + 6 + 4 * n <= len(t):
                ext = [int(x) for x in t[i + 1:i + 5]]
                boxes = [[int(x) for x in t[i + 6 + 4 * k:i + 10 + 4 * k]] for k in range(n)]
                segs.append(["r", t[i], ext, boxes])
                i += 6 + 4 * n
                continue
        segs.append(["t", t[i]])
        i += 1
    return segs


def _fmt(segs):
    out = []
    for s in segs:
        if s[0] == "t":
            out.append(s[1])
        else:
            out += [s[1]] + [str(v) for v in s[2]] + [str(len(s[3]))] + [str(v) for b in s[3] for v in b]
    return " ".join(out)


def _bbox(boxes):
    return [min(b[0] for b in boxes), min(b[1] for b in boxes), max(b[2] for b in boxes), max(b[3] for b in boxes)]


def shrink_line(ctx, exe, line, kind, text, budget=250):
    """Greedy minimisation: drop rectangles of multi-rectangle operands (keeping extents tight), then
    compress coordinates order-preservingly.  A candidate is kept only if the same kind of failure
    (model/implementation disagreement, or an oracle failure of the same class) persists."""
    d = ctx.scratch / "shrink"
    d.mkdir(exist_ok=True)
    want_cat = classify(text)[1] if kind.startswith("oracle") else None
    calls = [0]

    def fails(cand):
        calls[0] += 1
        if calls[0] > budget:
            return False
        (d / "o.txt").write_text(cand + "\n")
        subprocess.run([str(exe), "exec", str(d / "o.txt"), str(d / "i.txt"), str(d / "c.txt")], stderr=subprocess.DEVNULL)
        ctx.pixdrv("region", d / "o.txt", d / "m.txt")
        a, m = (d / "i.txt").read_text().strip(), (d / "m.txt").read_text().strip()
        if "bad-op" in a or "bad-op" in m:
            return False
        if want_cat is None:
            return a != m
        for ol in (d / "c.txt").read_text().splitlines():
            mm = re.match(r"ORACLE (\d+) (.*)", ol.strip())
            if mm and classify(mm.group(2))[1] == want_cat:
                return True
        return False

    if not fails(line):
        return line     # not reproducible in isolation (history-dependent): keep as is
    segs = _parse(line)
    changed = True
    while changed and calls[0] <= budget:
        changed = False
        for s in segs:
            if s[0] != "r" or s[1] != "H":
                continue
            k = 0
            while k < len(s[3]) and len(s[3]) > 1:
                cand_boxes = s[3][:k] + s[3][k + 1:]
                old = (s[1], s[2], s[3])
                if len(cand_boxes) == 1:
                    s[1], s[2], s[3] = "S", list(cand_boxes[0]), []
                else:
                    s[2], s[3] = _bbox(cand_boxes), cand_boxes
                if fails(_fmt(segs)):
                    changed = True
                    if s[1] == "S":
                        break
                else:
                    s[1], s[2], s[3] = old
                    k += 1
    # order-preserving coordinate compression (only for requests whose numbers are all coordinates)
    op = segs[0][1] if segs and segs[0][0] == "t" else ""
    if op in ("union", "intersect", "subtract", "inverse", "equal", "contains_point", "contains_rect", "copy"):
        vals = set()
        for s in segs:
            if s[0] == "r":
                vals.update(s[2]); [vals.update(b) for b in s[3]]
        tail = []
        for idx, s in enumerate(segs):
            if s[0] == "t" and idx >= 3 and re.fullmatch(r"-?\d+", s[1]) and any(x[0] == "r" for x in segs[:idx]):
                tail.append(idx); vals.add(int(s[1]))
        if vals and max(abs(v) for v in vals) < 2 ** 14:
            rank = {v: i for i, v in enumerate(sorted(vals))}
            cand = [list(s) for s in segs]
            for s in cand:
                if s[0] == "r":
                    s[2] = [rank[v] for v in s[2]]
                    s[3] = [[rank[v] for v in b] for b in s[3]]
            for idx in tail:
                cand[idx][1] = str(rank[int(cand[idx][1])])
            if fails(_fmt(cand)):
                segs = cand
    return _fmt(segs)


def report(ctx, findings, limit=6):
    """Turns findings into VIOLATION / KNOWN-FINDING lines (grouped by signature)."""
    seen = collections.OrderedDict()
    for kind, op, line, a, m, text in findings:
        sig = signature(kind, op, line, text)
        seen.setdefault(sig, []).append((kind, op, line, a, m, text))
    n = 0
    for sig, items in seen.items():
        kind, op, line, a, m, text = min(items, key=lambda it: len(it[2]))
        if n >= limit:
            break
        exe = ctx.scratch / "region-plain"
        small = line
        if exe.exists() and op not in ("from_image", "init_rects", "init_rect", "init_with_extents", "to16", "to32", "clear", "reset"):
            try:
                small = shrink_line(ctx, exe, line, kind, text)
            except Exception as e:      # shrinking is best effort
                small = line
        if ctx.violation({"kind": kind, "request": small, "request_as_generated": line, "implementation": a, "model": m, "oracle": text,
                          "how_to_replay": "printf '%s\\n' \"<request>\" > ops.txt; harness/region exec ops.txt impl.txt; "
                                           "lean/.lake/build/bin/pixdrv region < ops.txt",
                          "count_in_run": len(items)}, signature=sig, what=f"{op}: {text}", tag=op):
            n += 1


def signature(kind, op, line, text):
    """Identifies a failure class by the operation and the specific shape of the failing input."""
    t = re.sub(r"\(-?\d+,-?\d+\)", "(P)", text)
    t = re.sub(r"expected \d( got \d)?", "", t).strip()
    return f"{op}|{kind}|{t}"

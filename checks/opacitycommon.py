"""C09, flag part: the `opacity` correspondence stream — the decision of pixman_image_composite32 (looked-up
operator and flags, captured through --wrap) against the Lean model `Model/Opacity.composite32`, the
paired-presentation oracle (destinations of one logical request shown in several presentations must agree) and
the flag oracle (FAST_PATH_IS_OPAQUE in the looked-up flags => every contributing sample exists and has alpha 1,
located with the harness's own arithmetic).  Two implementation chains."""
import collections, json, os, re, shutil, subprocess
from concurrent.futures import ProcessPoolExecutor
from engine.core import diff_streams, count_lines, log, VERIF
from checks.compositecommon import CONFIGS, env_for, OPNAME

WRAP = ["_pixman_implementation_lookup_composite"]
FMT = {537036936: "a8r8g8b8", 537004168: "x8r8g8b8", 537102472: "a8b8g8r8", 537069704: "x8b8g8r8", 268567909: "r5g6b5",
       134316032: "a8", 537012906: "a2r10g10b10", 537004714: "x2r10g10b10", 281756740: "rgba_float"}
KIND = {-1: "none", 0: "bits", 1: "linear", 2: "conical", 3: "radial", 4: "solid"}
ROLE = {0: "source", 1: "mask", 2: "destination"}
IS_OPAQUE = 1 << 13


def parse_img(t, i):
    """-> (dict, next index) for one IMG token group"""
    ns = int(t[i + 23])
    d = dict(kind=int(t[i]), fmt=int(t[i + 1]), w=int(t[i + 2]), h=int(t[i + 3]), solidA=int(t[i + 4]), rep=int(t[i + 6]),
             filter=int(t[i + 7]), ca=int(t[i + 11]), T=int(t[i + 13]), m=[int(x) for x in t[i + 14:i + 23]],
             stops=[int(x) for x in t[i + 24:i + 24 + ns]])
    return d, i + 24 + ns


def tclass(d):
    if d["kind"] < 0 or not d["T"]:
        return "identity"
    m = d["m"]
    if m[6] or m[7] or m[8] != 65536:
        return "projective"
    if m[0] == 65536 and m[4] == 65536 and not m[1] and not m[3]:
        return "translate-int" if m[2] % 65536 == 0 and m[5] % 65536 == 0 else "translate-frac"
    if not m[1] and not m[3]:
        return "scale"
    return "rotate/shear"


def img_str(d):
    k = KIND.get(d["kind"], "?")
    if k == "bits":
        return f"bits:{FMT.get(d['fmt'], d['fmt'])}:{d['w']}x{d['h']}:rep{d['rep']}:filter{d['filter']}:{tclass(d)}" + (":ca" if d["ca"] else "")
    if k == "solid":
        return f"solid:a16={d['solidA']:#06x}" + (":ca" if d["ca"] else "")
    if k == "none":
        return k
    return f"{k}:rep{d['rep']}:stops={'/'.join(f'{a:#06x}' for a in d['stops'])}"


def img_sig(d):
    """coarser than img_str: what decides the flags"""
    k = KIND.get(d["kind"], "?")
    if k == "bits":
        return f"bits:{FMT.get(d['fmt'], d['fmt'])}:{'rep' if d['rep'] else 'norep'}:filter{d['filter']}:{tclass(d)}" + (":ca" if d["ca"] else "")
    if k == "solid":
        a = d["solidA"]
        return "solid:" + ("a16=0xffff" if a == 0xffff else "a16=0xff00..0xfffe" if a >= 0xff00 else "a16<0xff00") + (":ca" if d["ca"] else "")
    return k if k == "none" else f"{k}:{'rep' if d['rep'] else 'norep'}"


def parse_line(l):
    t = l.split(" ")
    src, i = parse_img(t, 11)
    mask, i = parse_img(t, i)
    dst, i = parse_img(t, i)
    gid, role = (int(t[i + 1]), int(t[i + 2])) if i < len(t) and t[i] == "#" else (0, 0)
    return dict(op=int(t[0]), src=src, mask=mask, dst=dst, gid=gid, role=role)


def group_of(lines, ln):
    """all lines (1-based ln) of the group the line belongs to"""
    def gid(x):
        p = x.split(" # ")
        return p[1].split(" ")[0] if len(p) > 1 else None
    g = gid(lines[ln - 1])
    a = ln - 1
    while a > 0 and gid(lines[a - 1]) == g and ln - 1 - a < 12:
        a -= 1
    b = ln
    while b < len(lines) and lines[b] and gid(lines[b]) == g and b - ln < 12:
        b += 1
    return lines[a:b]


def _job(args):
    (exe, pixdrv, d, cname, disable, kind, corpus_path, seed, ngroups) = args
    os.makedirs(d, exist_ok=True)
    ops, impl, orc, model = (os.path.join(d, n) for n in ("ops.txt", "impl.txt", "oracle.txt", "model.txt"))
    for attempt in range(3):
        if kind == "corpus":
            shutil.copyfile(corpus_path, ops)
            r1 = subprocess.run([exe, "exec", ops, impl, orc], env=env_for(disable), stdout=subprocess.DEVNULL, stderr=subprocess.PIPE, text=True)
        else:
            r1 = subprocess.run([exe, "gen", str(seed), str(ngroups), ops, impl, orc], env=env_for(disable), stdout=subprocess.DEVNULL, stderr=subprocess.PIPE, text=True)
        with open(ops) as fi, open(model, "w") as fo:
            r2 = subprocess.run([pixdrv, "opacity"], stdin=fi, stdout=fo, stderr=subprocess.PIPE, text=True)
        if r1.returncode == 0 and r2.returncode == 0 and count_lines(ops) == count_lines(impl) == count_lines(model):
            break
    res = dict(cname=cname, findings=[], n=0, hist=collections.Counter(), nontrivial=0, samples=[], groups=0, flag_scans=0, precision_skips=0)
    n, dis = diff_streams(ops, impl, model, limit=200)
    res["n"] = n
    with open(ops) as f:
        lines = f.read().split("\n")
    nreq = len(lines) - (1 if lines and lines[-1] == "" else 0)
    if (n != nreq and len(dis) < 200) or n == 0:      # (the diff stops after 200 disagreements)
        res["findings"].append(dict(kind="stream", config=cname, disable=disable, line="(stream)", impl=None, model=None, batch=[],
                                    text=f"stream incomplete: {n} compared of {nreq} requests; harness exit {r1.returncode} {r1.stderr[-200:]!r}; "
                                         f"driver exit {r2.returncode} {r2.stderr[-200:]!r}; seed {seed}"))
    impl_lines = open(impl).read().split("\n")
    model_lines = open(model).read().split("\n")
    if cname == "default":
        nt = set()
        gids = set()
        H = res["hist"]
        for l, a in zip(lines, impl_lines):
            if not l:
                continue
            try:
                q = parse_line(l)
            except (ValueError, IndexError):
                continue
            gids.add(q["gid"])
            varied = q[("src", "mask", "dst")[q["role"]]]
            H["role:" + ROLE[q["role"]]] += 1
            H["varied:" + img_sig(varied).split(":filter")[0]] += 1
            if varied["kind"] == 0:
                H["transform:" + tclass(varied)] += 1
                H[f"filter:{varied['filter']}"] += 1
                H[f"repeat:{varied['rep']}"] += 1
            H["dest:" + FMT.get(q["dst"]["fmt"], "?")] += 1
            H["op:" + OPNAME.get(q["op"], str(q["op"]))] += 1
            at = a.split(" ")
            if at[0] == "out":
                H["decision:nothing-drawn"] += 1
                continue
            if len(at) < 9:
                continue
            opp, sfl, mfl, dfl, el = int(at[1]), int(at[3]), int(at[5]), int(at[7]), at[8] == "1"
            so, mo, do = bool(sfl & IS_OPAQUE), bool(mfl & IS_OPAQUE), bool(dfl & IS_OPAQUE)
            H[f"decision:src_opaque={int(so)},mask_opaque={int(mo)},dest_opaque={int(do)}"] += 1
            if el:
                H["decision:mask-elided"] += 1
            if q["src"]["kind"] == 0 and so and not q["src"]["rep"]:
                H["decision:source-promoted:" + tclass(q["src"])] += 1
            if q["mask"]["kind"] == 0 and mo and not el and not q["mask"]["rep"]:
                H["decision:mask-promoted:" + tclass(q["mask"])] += 1
            if opp != q["op"]:
                H["decision:operator-replaced"] += 1
            if opp != q["op"] or el:
                key = l.split(" # ")[0]
                if key not in nt:
                    nt.add(key)
                    if len(res["samples"]) < 2 and len(nt) % 499 == 1:
                        res["samples"].append(key + "  ->  " + a)
        res["nontrivial"] = len(nt)
        res["groups"] = len(gids)
    orc_lines = {}
    with open(orc) as f:
        for ol in f:
            mm = re.match(r"ORACLE (\d+) (\S+) (.*)", ol.strip())
            if mm:
                orc_lines.setdefault(int(mm.group(1)), (mm.group(2), mm.group(3)))
            mm = re.match(r"STATS flag_scans (\d+) precision_skips (\d+)", ol.strip())
            if mm:
                res["flag_scans"], res["precision_skips"] = int(mm.group(1)), int(mm.group(2))
    for ln, (k, text) in list(orc_lines.items())[:200]:
        res["findings"].append(dict(kind=k, config=cname, disable=disable, line=lines[ln - 1], impl=impl_lines[ln - 1],
                                    model=model_lines[ln - 1] if ln - 1 < len(model_lines) else None, text=text, batch=group_of(lines, ln)))
    for (ln, op, a, m) in dis:
        if ln in orc_lines:
            continue
        res["findings"].append(dict(kind="model-disagree", config=cname, disable=disable, line=op, impl=a, model=m,
                                    text="Lean model of the opacity decision and the library's lookup arguments differ", batch=group_of(lines, ln)))
    shutil.rmtree(d, ignore_errors=True)
    return res


def build(ctx):
    b = ctx.build_pixman("plain")
    return ctx.cc("opacity", ["opacity.c"], b, wrap=WRAP)


def run_streams(ctx, ngroups, nstreams):
    exe = build(ctx)
    pixdrv = str(VERIF / "lean" / ".lake" / "build" / "bin" / "pixdrv")
    corpus_dir = VERIF / "corpus" / "opacity"
    corpus = sorted(corpus_dir.glob("*.txt")) if corpus_dir.exists() else []
    jobs = []
    for cname, disable in CONFIGS:
        for i, c in enumerate(corpus):
            jobs.append((str(exe), pixdrv, str(ctx.scratch / f"op-{cname}-corpus{i}"), cname, disable, "corpus", str(c), 0, 0))
        for i in range(nstreams):
            seed = ctx.seed * 100000 + 7000 + i
            jobs.append((str(exe), pixdrv, str(ctx.scratch / f"op-{cname}-gen{i}"), cname, disable, "gen", "", seed, ngroups))
    with ProcessPoolExecutor(max_workers=16) as ex:
        results = list(ex.map(_job, jobs))
    findings, hist, per_cfg = [], collections.Counter(), collections.Counter()
    total = nontrivial = groups = scans = skips = 0
    samples = []
    for r in results:
        total += r["n"]; per_cfg[r["cname"]] += r["n"]; hist.update(r["hist"]); nontrivial += r["nontrivial"]
        groups += r["groups"]; scans += r["flag_scans"]; skips += r["precision_skips"]
        samples += r["samples"]; findings += r["findings"]
    ctx.cov["evaluations"] += total
    ctx.cov["distinct_nontrivial"] += nontrivial
    ctx.cov["traces_validated_against_impl"] += total
    ctx.cov["samples"] = (ctx.cov.get("samples") or []) + samples[:4]
    ctx.extra["opacity_stream"] = {"composites_per_chain": dict(per_cfg), "groups": groups, "flag_oracle_scans": scans,
                                   "pairs_skipped_for_precision(SATURATE)": skips,
                                   "requests_with_replaced_operator_or_elided_mask(distinct)": nontrivial,
                                   "histogram": dict(sorted(hist.items()))}
    return findings


WIDE_FMT = {537012906, 537004714, 281756740}
NEEDS_DIV = {13, 53, 54, 56, 59, 60, 61, 62} | set(range(19, 28)) | set(range(35, 44))


def filter_class(d):
    return "none" if d["kind"] != 0 else {0: "nearest", 3: "nearest", 1: "bilinear", 2: "bilinear", 4: "bilinear"}.get(d["filter"], "convolution")


def alpha_class(d):
    """how the varied image presents its alpha"""
    if d["kind"] == 4:
        return "solid"
    if d["kind"] != 0:
        return KIND.get(d["kind"], "?")
    return "alpha-less" if ((d["fmt"] >> 12) & 15) == 0 else "alpha"


def pair_signature(f, q):
    """shape of a pair failure: role, how the two presentations carry alpha, pipeline, filter class of the varied image,
    size of the difference (one unit in the last place of the destination format, or more)"""
    role = ("src", "mask", "dst")[q["role"]]
    v = q[role]
    first = f["batch"][0] if f["batch"] else f["line"]
    try:
        v0 = parse_line(first)[role]
    except (ValueError, IndexError):
        v0 = v
    wide = q["dst"]["fmt"] in WIDE_FMT or q["op"] in NEEDS_DIV or any(q[r]["kind"] == 0 and q[r]["fmt"] in WIDE_FMT for r in ("src", "mask"))
    mm = re.search(r"maxdiff=(\d+)", f["text"])
    md = int(mm.group(1)) if mm else -1
    pres = " vs ".join(sorted({alpha_class(v0) + (":rep" if v0["rep"] else ":norep") if v0["kind"] == 0 else alpha_class(v0),
                               alpha_class(v) + (":rep" if v["rep"] else ":norep") if v["kind"] == 0 else alpha_class(v)}))
    small = 0 <= md <= (8 if q["dst"]["fmt"] == 281756740 else 1)       # rgba_float: units of 2^-24
    return (f"opacity|pair|role={ROLE[q['role']]}|{pres}|pipeline={'float' if wide else '8-bit'}|filter={filter_class(v)}|{tclass(v)}|op={q['op']}|"
            f"dst={FMT.get(q['dst']['fmt'], '?')}|difference={'small' if small else 'large'}|{f['config']}")


def signature(f):
    try:
        q = parse_line(f["line"])
    except (ValueError, IndexError):
        return f"{f['kind']}|{f['config']}"
    if f["kind"] == "pair":
        return pair_signature(f, q)
    if f["kind"].startswith("flag-"):
        # the flag decision depends on the flagged image alone: operator, other images, destination and chain are immaterial
        who = {"flag-src": "src", "flag-mask": "mask", "flag-dest": "dst"}.get(f["kind"], "src")
        v = q[who]
        shape = (f"{alpha_class(v)}:{'rep' if v['rep'] else 'norep'}:filter={filter_class(v)}:{'projective' if tclass(v) == 'projective' else 'affine'}"
                 if v["kind"] == 0 else img_sig(v))
        txt = re.sub(r"bits\([^)]*\)|\(-?\d+,-?\d+\)|\b[0-9a-f]{4}\b", "", f["text"])
        txt = re.sub(r"\s+", " ", txt).strip()[:110]
        return f"opacity|{f['kind']}|{shape}|{txt}"
    txt = re.sub(r"\(line \d+\)|\d+|0x[0-9a-f]+|\b[0-9a-f]{4,8}\b", "N", f["text"].split(" at destination")[0]).strip()[:120]
    return f"opacity|{f['kind']}|op={q['op']}|src={img_sig(q['src'])}|mask={img_sig(q['mask'])}|dst={FMT.get(q['dst']['fmt'], '?')}|{f['config']}|{txt}"


def report(ctx, findings, limit=6):
    seen = collections.OrderedDict()
    for f in findings:
        seen.setdefault(signature(f), []).append(f)
    # one report per distinct (kind, varied image shape): the most specific first
    order = sorted(seen.items(), key=lambda kv: (0 if kv[1][0]["kind"].startswith("flag") else 1 if kv[1][0]["kind"] == "pair" else 2, -len(kv[1])))
    n = 0
    kinds_done = collections.Counter()
    for sig, items in order:
        if n >= limit:
            break
        f = min(items, key=lambda it: len(it["batch"]))
        if kinds_done[f["kind"]] >= 2:
            continue
        try:
            q = parse_line(f["line"])
            desc = f"{OPNAME.get(q['op'], q['op'])} src={img_str(q['src'])} mask={img_str(q['mask'])} dst={FMT.get(q['dst']['fmt'], '?')}"
        except (ValueError, IndexError):
            desc = f["line"][:80]
        if ctx.violation({"kind": f["kind"], "request": f["line"], "batch": f["batch"], "implementation": f["impl"], "model": f["model"],
                          "oracle": f["text"], "env": {"PIXMAN_DISABLE": f["disable"]}, "domain": "opacity", "request_readable": desc,
                          "how_to_replay": "bin/check C09 --replay <this file>  (runs `harness/opacity exec` on the batch under the recorded "
                                           "PIXMAN_DISABLE and `pixdrv opacity` on the same lines)",
                          "count_in_run": len(items)}, signature=sig,
                         what=f"{f['kind']} [{f['config']}] {desc}: {f['text']}", tag="opacity"):
            n += 1
            kinds_done[f["kind"]] += 1


def replay(ctx, obj):
    exe = build(ctx)
    d = ctx.scratch / "replay"
    d.mkdir(exist_ok=True)
    ops, impl, orc, model = d / "ops.txt", d / "impl.txt", d / "oracle.txt", d / "model.txt"
    batch = obj.get("batch") or [obj["request"]]
    ops.write_text("\n".join(batch) + "\n")
    disable = obj.get("env", {}).get("PIXMAN_DISABLE", "")
    subprocess.run([str(exe), "exec", str(ops), str(impl), str(orc)], env=env_for(disable), stdout=subprocess.DEVNULL, stderr=subprocess.DEVNULL)
    ctx.lean_obligations(f"Pixman.Props.{ctx.pid}", [])
    ctx.pixdrv("opacity", ops, model)
    n, dis = diff_streams(ops, impl, model)
    orc_txt = "\n".join(l for l in orc.read_text().split("\n") if l.startswith("ORACLE"))
    for l, a, m in zip(batch, impl.read_text().split("\n"), model.read_text().split("\n")):
        log(f"  {l.split(' # ')[0]}  ->  library {a}   model {m}")
    if orc_txt:
        log(orc_txt)
    ctx.cov["evaluations"] = n
    if dis or orc_txt:
        ctx.violation(dict(obj, replayed=True), signature=obj.get("signature"), what=obj.get("what", "replayed failure"), tag="replay")
    else:
        log("replay: library, model and oracles agree on this input now")

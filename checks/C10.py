"""C10 — pixel formats: exact codec, bit-replicated widening, accessor equivalence."""
import collections, json, os, re, struct, subprocess, sys
from concurrent.futures import ProcessPoolExecutor
from pathlib import Path
from engine.core import log, VERIF, REPO, LEAN

sys.path.insert(0, str(VERIF / "tools"))

P = "Pixman.Props.C10."
REQUIRED = [P + n for n in [
    # regenerated table vs hand-written model
    "gen_fields", "gen_constants", "gen_layouts",
    # packed formats, pixel level
    "fetch_is_bit_replication", "store_keeps_msbs", "fetch_channels", "absent_alpha_reads_opaque", "absent_colour_reads_zero",
    "store_fetch_id", "store_fetch_id_full", "fetch_ignores_undefined_bits", "fetch_store_fetch", "store_fetch_store", "stored_fields",
    # channel level
    "widen_zero", "widen_max", "widen_is_replication", "widen_strict_mono", "widen_mono", "narrow_keeps_msbs", "narrow_widen_id",
    "widen_keeps_level",
    # indexed formats
    "indexed_fetch", "indexed_store", "indexed_store_fetch_id",
    # memory: frame, read-back, scanline = map of pixel
    "gen_bpp", "store_changes_only_addressed_pixel", "store_then_fetch_raw", "store_then_fetch_pixel",
    "fetch_scanline_is_map_of_fetch_pixel", "storeScanline_eq_foldl", "store_scanline_frame",
    # wide paths over exact rationals (partial: IEEE rounding not modelled)
    "float_roundtrip_partial", "float_ends_partial", "float_strict_mono_partial", "float_clamps_partial",
    "float_path_is_replication_partial", "wide10_store_fetch_id_partial", "srgb_store_fetch_id_partial",
    "srgb_table_monotone_partial",
    # YUV sources (yuy2, yv12) and formats without A/R/G/B bit counts in the float pipeline
    "gen_yuv_vis", "yuv_float_widening_is_8bit_widening_partial", "yuv_float_contracts_to_8bit_partial", "yuv_fetch_opaque",
    "yuv_scanline_is_map_of_fetch_pixel",
    # accessor images: selection of the callback build (regenerated conditions)
    "gen_accessor_selection", "accessor_build_iff_any_callback",
    # wide paths in exact IEEE-754 binary32 (Pixman.Model.Binary32): not partial
    "float_roundtrip", "float_roundtrip_fails_from_12_bits", "float_ends", "float_strict_mono", "float_close_to_rational_nat",
    "float_close_to_rational", "float_clamps", "float_path_is_replication", "wide10_store_fetch_id", "srgb_store_fetch_id",
    "yuv_float_widening_is_8bit_widening", "yuv_float_contracts_to_8bit",
]]

GENERAL = "fast mmx sse2 ssse3"
PIXDRV = LEAN / ".lake" / "build" / "bin" / "pixdrv"

RULE = ("for every format accepted by pixman_format_supported_source/destination (one name per code): 1-row OP_SRC composites "
        "of 1..24 pixels, F = format -> a8r8g8b8, FW = format -> rgba_float, S = a8r8g8b8 -> format, SW = rgba_float -> format; "
        "raw pixel values exhaustive for bpp <= 16 (every value at every pixel phase of a 32-bit word for bpp <= 8; for 16 bpp "
        "both phases across the four reader modes in the quick tier, every phase in every mode in the thorough tier), for 24/32 "
        "bpp 0, all-ones, walking 1/0 bits, every channel through all its values against random/min/max neighbours, plus random "
        "values; stores use an a8r8g8b8 value narrowing to each raw value (exactly replicated or with random low bits) plus edge "
        "and random words; float stores draw exact levels k/max, thresholds k/2^n +- 2 ulp, edge floats (negative, >1, denormal, "
        "huge) and uniform randoms; reader modes: scanline (s), single-pixel reader through an x-flip transform (p), each also "
        "with read/write accessor callbacks installed on the fresh image (a) or installed after the image was already used once "
        "in a composite (b), and in both variants also with exactly one callback (o): reader only for F/FW requests, writer only "
        "for S requests into the 29 formats whose 8-bit OP_SRC store never calls READ() on the unchanged library (8/16/24/32 bpp, "
        "<= 8 bits per channel; measured by `format probe`; 1/4-bpp stores and every float-pipeline store read the destination "
        "and would dereference the NULL reader); the callbacks redirect every access to a shadow copy of the pixels (the buffer pixman is given "
        "holds junk), so a bypass of the callbacks is visible in the result; YUV sources yuy2 and yv12 (planar, 1..7 rows, "
        "strides 8..32 bytes incl. odd word strides) fetched by both readers to a8r8g8b8 (Y), rgba_float (YW) and "
        "a2r10g10b10 (YX), plus the scalar conversions for every width 1..16 and every level (U), luma/chroma biased to 16/235/128/extremes; surrounding bytes random; palettes: one consistent and one hash palette per "
        "indexed format; the whole set once under the default implementation chain and once with "
        "PIXMAN_DISABLE='fast mmx sse2 ssse3'; every request replayed through the Lean model; distinct_nontrivial = distinct "
        "(operation, format, pixel value) triples with a value other than all-zeros/all-ones, counted by the harness")


def same(op, a, b):
    """every reply is compared exactly; float replies are IEEE-754 bit patterns on both sides (the model is an exact
    binary32 model), compared case-insensitively token by token"""
    if op in ("FW", "YW"):
        return a.split() == b.split() and len(a.split()) > 0
    return a.strip() == b.strip()


def run_part(args):
    """one worker: generate (or replay a corpus file), run the model, compare; returns a summary dict"""
    exe, d, mode, seed, tier, general, part, nparts, corpus = args
    d = Path(d)
    d.mkdir(parents=True, exist_ok=True)
    ops, impl, orc, model = d / "ops.txt", d / "impl.txt", d / "oracle.txt", d / "model.txt"
    env = dict(os.environ)
    env.pop("PIXMAN_DISABLE", None)
    if general:
        env["PIXMAN_DISABLE"] = GENERAL
    if corpus:
        ops.write_text(Path(corpus).read_text())
        subprocess.run([exe, "exec", str(ops), str(impl), str(orc)], env=env, stdout=subprocess.DEVNULL, stderr=subprocess.DEVNULL)
    else:
        subprocess.run([exe, "gen", str(seed), str(tier), str(general), str(part), str(nparts), str(ops), str(impl), str(orc)],
                       env=env, stdout=subprocess.DEVNULL, stderr=subprocess.DEVNULL)
    # the model driver is deterministic; if it is killed from outside (e.g. by the OOM killer on a loaded machine) its
    # reply file is short: run it again before comparing, so that a dead driver is not mistaken for a disagreement
    nops = sum(1 for _ in open(ops))
    for attempt in range(3):
        with open(ops) as fi, open(model, "w") as fo:
            rc = subprocess.run([str(PIXDRV), "format"], stdin=fi, stdout=fo, stderr=subprocess.DEVNULL).returncode
        if rc == 0 and sum(1 for _ in open(model)) >= nops:
            break
        import time as _t
        _t.sleep(5 * (attempt + 1))
    res = {"lines": 0, "hist": collections.Counter(), "findings": [], "stat": {}, "samples": [], "general": general}
    nfind = collections.Counter()
    with open(ops) as fo, open(impl) as fi, open(model) as fm:
        lines = fo.read().split("\n")
        il = fi.read().split("\n")
        ml = fm.read().split("\n")
    if lines and lines[-1] == "":
        lines.pop()
    for k, o in enumerate(lines):
        t = o.split(" ", 3)
        res["lines"] += 1
        res["hist"][t[0] + ":" + (t[2] if len(t) > 2 else "")] += 1
        a = il[k] if k < len(il) else "<missing>"
        b = ml[k] if k < len(ml) else "<missing>"
        if not same(t[0], a, b) or a.strip() in ("bad-op", "no-image", ""):
            key = (t[0], t[1] if len(t) > 1 else "")
            nfind[key] += 1
            if nfind[key] <= 3:
                res["findings"].append(("disagree", o, a.strip(), b.strip(), "model and implementation differ"))
    if len(lines) > 5:
        for k in (len(lines) // 3, 2 * len(lines) // 3):
            if len(lines[k]) < 260:
                res["samples"].append(lines[k])
    with open(orc) as f:
        for ol in f:
            if ol.startswith("STAT "):
                t = ol.split()
                res["stat"] = {t[i]: int(t[i + 1]) for i in range(1, len(t) - 1, 2)}
                continue
            mm = re.match(r"ORACLE (\d+) (\S+) fmt=(\S+) ?(.*)", ol.strip())
            if not mm:
                continue
            ln = int(mm.group(1))
            o = lines[ln - 1] if 0 < ln <= len(lines) else "?"
            key = ("oracle", mm.group(2), mm.group(3))
            nfind[key] += 1
            if nfind[key] <= 3:
                res["findings"].append(("oracle:" + mm.group(2), o, None, None, mm.group(4)))
    return res


def signature(kind, line):
    t = line.split()
    op, fmt, mode = (t + ["?", "?", "?"])[:3]
    return f"{op}|{fmt}|{mode}|{kind}"


def single_pixel_variants(line):
    """the request cut down to one pixel at a time (same row bytes)"""
    t = line.split()
    out = []
    try:
        if t[0] in ("F", "FW", "Y", "YW", "YX"):
            x, w = int(t[4]), int(t[5])
            for i in range(w):
                out.append(" ".join(t[:4] + [str(x + i), "1", t[6]]))
        elif t[0] in ("S", "SW"):
            x = int(t[4])
            per = 8 if t[0] == "S" else 32
            vals = [t[6][i:i + per] for i in range(0, len(t[6]), per)]
            for i, v in enumerate(vals):
                out.append(" ".join(t[:4] + [str(x + i), t[5], v]))
    except (ValueError, IndexError):
        pass
    return out


def run_lines(ctx, exe, lines, general, tag):
    d = ctx.scratch / f"one-{tag}"
    d.mkdir(exist_ok=True)
    (d / "c.txt").write_text("\n".join(lines) + "\n")
    r = run_part((str(exe), str(d), "corpus", 0, 0, general, 0, 1, str(d / "c.txt")))
    return r


def shrink(ctx, exe, kind, line, general):
    """first single-pixel sub-request showing the same kind of failure, else the line itself"""
    cands = single_pixel_variants(line)
    if len(cands) <= 1:
        return line
    r = run_lines(ctx, exe, cands, general, "shrink")
    for k, o, a, b, text in r["findings"]:
        if k == kind:
            return o
    return line


def report(ctx, exe, findings, limit=8):
    seen = collections.OrderedDict()
    for general, (kind, line, a, m, text) in findings:
        seen.setdefault(signature(kind, line), []).append((general, kind, line, a, m, text))
    n = 0
    for sig, items in seen.items():
        if n >= limit:
            break
        general, kind, line, a, m, text = min(items, key=lambda it: len(it[2]))
        small = line
        try:
            small = shrink(ctx, exe, kind, line, general)
        except Exception:
            pass
        if small != line:
            rr = run_lines(ctx, exe, [small], general, "final")
            for k2, o2, a2, m2, t2 in rr["findings"]:
                if k2 == kind:
                    a, m, text = a2, m2, t2
        t = small.split()
        if ctx.violation({"kind": kind, "request": small, "request_as_generated": line, "implementation": a, "model": m,
                          "oracle": text, "env": {"PIXMAN_DISABLE": GENERAL} if general else {},
                          "how_to_replay": "bin/check C10 --replay <this file>   (or: printf '%s\\n' \"<request>\" > ops.txt; "
                                           "<scratch>/format-plain exec ops.txt impl.txt oracle.txt; "
                                           "lean/.lake/build/bin/pixdrv format < ops.txt)",
                          "count_in_run": len(items)}, signature=sig,
                         what=f"{t[0]} {t[1] if len(t) > 1 else ''}: {text}", tag=(t[1] if len(t) > 1 else "fmt")):
            n += 1


def build_harness(ctx):
    import gen_formats
    b = ctx.build_pixman("plain")
    info = gen_formats.parse(REPO)
    g = ctx.scratch / "gen-include"
    g.mkdir(exist_ok=True)
    (g / "formats_gen.h").write_text(gen_formats.c_header(info))
    exe = ctx.cc("format", ["format.c"], b, extra=["-I", str(g)])
    return exe, info


def check_table(ctx, exe, info):
    """the regenerated table against the compiled library (codes, fields, supported_source/destination)"""
    out = subprocess.run([str(exe), "list"], capture_output=True, text=True).stdout.split("\n")
    rows = {t[0]: [int(x) for x in t[1:]] for t in (l.split() for l in out) if len(t) == 10}
    n = 0
    for f in info["formats"]:
        want = [f["code"], int(f["src"]), int(f["dst"]), f["bpp"], f["type"], f["a"], f["r"], f["g"], f["b"]]
        n += 1
        if rows.get(f["name"]) != want:
            ctx.violation({"kind": "format-table", "format": f["name"], "library": rows.get(f["name"]), "regenerated": want},
                          signature=f"table|{f['name']}", what=f"format table entry of {f['name']} differs between the regenerated "
                          "Lean source and the compiled library", tag="table")
    return n


def run(ctx):
    import time
    t0 = time.time()
    broken = ctx.lean_obligations("Pixman.Props.C10", REQUIRED)
    t1 = time.time()
    quick = ctx.tier == "quick"
    exe, info = build_harness(ctx)
    ntab = check_table(ctx, exe, info)
    probe = [l.split() for l in subprocess.run([str(exe), "probe"], capture_output=True, text=True).stdout.split("\n") if l.strip()]
    ctx.extra["writer_only_formats(store never calls READ)"] = sorted(t[0] for t in probe if len(t) == 4 and t[2] == "0")
    t2 = time.time()
    workers = 8 if quick else 16
    nparts = 4 * workers
    jobs = []
    corpus = sorted((VERIF / "corpus" / "format").glob("*.txt")) if (VERIF / "corpus" / "format").exists() else []
    for general in (0, 1):
        for i, c in enumerate(corpus):
            jobs.append((str(exe), str(ctx.scratch / f"c{general}-{i}"), "corpus", 0, 0, general, 0, 1, str(c)))
        for part in range(nparts):
            jobs.append((str(exe), str(ctx.scratch / f"g{general}-{part}"), "gen", ctx.seed * 2 + general, 0 if quick else 1,
                         general, part, nparts, None))
    with ProcessPoolExecutor(max_workers=workers) as ex:
        results = list(ex.map(run_part, jobs))
    t3 = time.time()
    ctx.extra["phase_seconds"] = {"lean_obligations": round(t1 - t0, 1), "library_and_harness_build": round(t2 - t1, 1),
                                  "streams": round(t3 - t2, 1)}
    hist = collections.Counter()
    findings = []
    total = 0
    distinct = 0
    stats = collections.Counter()
    samples = []
    for r in results:
        total += r["lines"]
        hist.update(r["hist"])
        for f in r["findings"]:
            findings.append((r["general"], f))
        for k, v in r["stat"].items():
            stats[k] += v
        if len(samples) < 6:
            samples += r["samples"][:1]
    # parts of one configuration partition the units, so their distinct sets are disjoint; the two configurations use
    # different seeds but overlap on the exhaustive values: count the larger configuration only (conservative)
    per_cfg = collections.Counter()
    for r in results:
        per_cfg[r["general"]] += r["stat"].get("distinct_nontrivial", 0)
    distinct = max(per_cfg.values()) if per_cfg else 0
    ctx.cov["evaluations"] += total
    ctx.cov["traces_validated_against_impl"] += total
    ctx.cov["distinct_nontrivial"] += distinct
    ctx.cov["rule"] = RULE
    ctx.cov["samples"] = samples
    ctx.cov["exhaustive"] = False
    ctx.extra["request_histogram(op:mode)"] = dict(hist)
    ctx.extra["pixel_counts"] = {k: v for k, v in stats.items() if k != "distinct_nontrivial"}
    ctx.extra["format_table_entries_checked_against_library"] = ntab
    ctx.extra["formats_exercised"] = sorted({f["name"] for f in info["formats"] if f["src"]})
    report(ctx, exe, findings)
    if broken and not ctx.violations:
        ctx.broken_obligations_verdict(broken, "format correspondence streams (both implementation chains, direct and accessor "
                                       "images) and the bit-stream spec oracle found no failing input")
    ctx.assumptions += [
        "little-endian build; non-negative row stride; images of one row (the row address arithmetic y*rowstride is modelled but "
        "exercised with y = 0 only)",
        "floats: the driver evaluates the exact binary32 model (Pixman.Model.Binary32: bit patterns, round-to-nearest-even after "
        "every operation, two roundings in unorm_to_float, float subtraction in to_srgb) and every float in a reply must be "
        "bit-identical to the library's; the scalar functions pixman_unorm_to_float / pixman_float_to_unorm are additionally "
        "compared for all 131070 (width 1..16, value) pairs (request kind U, white-box call of the two non-static symbols); "
        "roundNE itself is a definition validated by this equality, not proved against an abstract IEEE specification; NaN/inf "
        "inputs are not generated (float_to_unorm(NaN) is undefined behaviour); x86-64 SSE arithmetic (FLT_EVAL_METHOD 0)",
        "float_to_unorm(unorm_to_float(u,n),n) = u is a theorem for n <= 11 and FALSE for n >= 12 (theorem "
        "float_roundtrip_fails_from_12_bits; the library agrees: 1, 1, 7, 31, 127 failing levels for n = 12..16); no pixel format "
        "has a channel wider than 10 bits and 16-bit levels (solid colours) are only widened, so this is recorded, not a violation",
        "accessor equivalence (READ/WRITE macro recompilation, pixman-access-accessors.c) is established by correspondence only: "
        "the same requests through images with read/write callbacks give the model's result, and every callback address lies inside "
        "the image storage",
        "rgba_float/rgb_float (the float observation buffer of the other requests) are covered by a spec oracle only, not by the model: "
        "SRC from/into them must copy the floats bit-exactly through the scanline reader, the single-pixel reader (x-mirrored, "
        "NORMAL-shifted) and the rgb_float writer (harness/format.c gen_float_packed); excluded: "
        "the 32-bit sRGB entry points fetch/store_*_a8r8g8b8_32_sRGB (not reachable through compositing: sRGB is a wide format), "
        "big-endian macro variants, dithering, alpha maps, negative yv12 strides; yuy2/yv12 are fetch-only and their fetchers "
        "bypass the accessor callbacks (generated without accessor modes)",
    ]


def replay(ctx, path):
    obj = json.loads(Path(path).read_text())
    exe, info = build_harness(ctx)
    subprocess.run(["lake", "build", "pixdrv"], cwd=LEAN, stdout=subprocess.DEVNULL, stderr=subprocess.DEVNULL)
    req = obj.get("request")
    if not req:
        log("replay: no request in file")
        return
    general = 1 if obj.get("env", {}).get("PIXMAN_DISABLE") else 0
    r = run_lines(ctx, exe, [req], general, "replay")
    log(f"request: {req[:300]}")
    for k, o, a, b, text in r["findings"]:
        log(f"  {k}: implementation={a} model={b} {text}")
    if r["findings"]:
        report(ctx, exe, [(general, f) for f in r["findings"]])
    else:
        log("replay: request passes (model = implementation, oracle silent)")
    ctx.cov["evaluations"] = 1
    ctx.cov["samples"] = [req[:300]]

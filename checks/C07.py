"""C07 — region queries, translation and bitmap import agree with the point-set model."""
from checks import regioncommon as rc

BRIDGE = ["Pixman.Props.RegionBridge." + n for n in ("extentCheck_bridge", "inBox_bridge", "subsumes_bridge", "goodRect_bridge", "badRect_bridge", "limits_bridge")]

REQUIRED = [
    "Pixman.Props.C07.translate_mem",
    "Pixman.Props.C07.translate_canon",
    "Pixman.Props.C07.init_not_mem",
    "Pixman.Props.C07.findBoxForYIdx_first",
    "Pixman.Props.C07.findBoxForYIdx_eq",
    "Pixman.Props.C07.findBoxForYIdx_canon",
    "Pixman.Props.C07.containsPoint_some",
    "Pixman.Props.C07.containsPoint_none",
    "Pixman.Props.C07.containsPoint_isSome",
    "Pixman.Props.C07.containsRectangle_inn",
    "Pixman.Props.C07.containsRectangle_out",
    "Pixman.Props.C07.containsRectangle_part",
    "Pixman.Props.C07.notEmpty_iff",
    "Pixman.Props.C07.numRects_zero_iff",
    "Pixman.Props.C07.wrapS_id",
    "Pixman.Props.C07.translate_mem_fast",
    "Pixman.Props.C07.translate_fast_rects",
    "Pixman.Props.C07.translate_mem_out",
    "Pixman.Props.C07.translate_mem_small",
    "Pixman.Props.C07.translate_mem_partial",
    "Pixman.Props.C07.translate_canon_fast",
    "Pixman.Props.C07.translate_canon_small",
    "Pixman.Props.C07.translate_canon_partial",
    "Pixman.Props.C07.rowRuns_spec",
    "Pixman.Props.C07.initFromImage_mem",
    "Pixman.Props.C07.initFromImage_canon",
]


def run(ctx):
    broken = ctx.lean_obligations("Pixman.Props.C07", REQUIRED + BRIDGE, extra_modules=["Pixman.Props.RegionBridge"])
    quick = ctx.tier == "quick"
    findings = rc.run_streams(ctx, "C07", 150000 if quick else 1500000, 4 if quick else 16)
    rc.report(ctx, findings)
    if broken and not ctx.violations:
        ctx.broken_obligations_verdict(broken, "region correspondence stream and point-set oracle found no failing input")
    ctx.assumptions += ["no allocation failure (that world is C15)",
                        "coordinates of results inside the representable range of the instantiation"]

/* White-box translation unit for C18: pixman/pixman-filter.c itself, re-compiled with `floor` and
 * `ceil` routed through recording hooks.  Nothing of the library's source is copied: the static
 * create_1d_filter / filter_width / filters[] of /repo's working tree run here, and the hooks let the
 * harness see the values that never reach the returned block:
 *   - every `floor(c * 65536.0 + 0.5)`  (the sampled coefficient of a tap),
 *   - every `floor(v + 0.5)`           (the normalised coefficient *before* the residual is added),
 *   - every `ceil(...)`                 (x1 of each phase; the filter width).
 * checks/C18.py compiles this unit with the library's flags and then hides every symbol except wb_*
 * (objcopy -G), so the public entry point the harness calls is the one inside libpixman-1.a.  The
 * harness cross-checks that the table produced here is identical to the library's. */
#ifdef HAVE_CONFIG_H
#include <config.h>
#endif
#include <math.h>
#include <stdint.h>
#include <stdlib.h>

double  *wb_floor_trace; long wb_floor_n, wb_floor_cap;
double  *wb_ceil_trace;  long wb_ceil_n,  wb_ceil_cap;

static double wb_floor (double x)
{
    double r = (floor) (x);
    if (wb_floor_n == wb_floor_cap)
    {
	wb_floor_cap = wb_floor_cap ? 2 * wb_floor_cap : 4096;
	wb_floor_trace = realloc (wb_floor_trace, wb_floor_cap * sizeof (double));
    }
    wb_floor_trace[wb_floor_n++] = r;
    return r;
}

static double wb_ceil (double x)
{
    double r = (ceil) (x);
    if (wb_ceil_n == wb_ceil_cap)
    {
	wb_ceil_cap = wb_ceil_cap ? 2 * wb_ceil_cap : 4096;
	wb_ceil_trace = realloc (wb_ceil_trace, wb_ceil_cap * sizeof (double));
    }
    wb_ceil_trace[wb_ceil_n++] = r;
    return r;
}

#define floor(x) wb_floor (x)
#define ceil(x)  wb_ceil (x)
#include "pixman-filter.c"
#undef floor
#undef ceil

void wb_reset (void) { wb_floor_n = 0; wb_ceil_n = 0; }

int wb_n_kernels (void) { return (int)(sizeof (filters) / sizeof (filters[0])); }
double wb_kernel_width (int k) { return filters[k].width; }
int wb_kernel_id (int k) { return (int) filters[k].kernel; }

int wb_filter_width (int reconstruct, int sample, double size)
{
    return filter_width ((pixman_kernel_t) reconstruct, (pixman_kernel_t) sample, size);
}

void wb_create_1d (int width, int reconstruct, int sample, double scale, int n_phases, int32_t *p)
{
    create_1d_filter (width, (pixman_kernel_t) reconstruct, (pixman_kernel_t) sample, scale, n_phases, p);
}

/* white-box translation unit: the real pixman-ssse3.c; wrapper around ssse3_fetch_horizontal for one pixel */
#ifdef HAVE_CONFIG_H
#include <config.h>
#endif
#include "pixman-ssse3.c"
#include "simd_wb.h"

uint64_t wb_ssse3_h(uint32_t l, uint32_t r, int x)
{
    static uint32_t px[8] __attribute__((aligned(16)));
    static uint64_t buf[4] __attribute__((aligned(16)));
    bits_image_t img; line_t line; uint16_t o[8];
    memset(&img, 0, sizeof img);
    px[0] = l; px[1] = r;
    img.bits = px; img.rowstride = 8;
    line.y = -1; line.buffer = buf;
    ssse3_fetch_horizontal(&img, &line, 0, (pixman_fixed_t)(x & 0xffff), 0, 1);
    memcpy(o, buf, sizeof o);
    /* vr, listed from the high lane down: A0, R0, A1, R1, G0, B0, G1, B1 */
    return ((uint64_t)o[7] << 48) | ((uint64_t)o[6] << 32) | ((uint64_t)o[3] << 16) | (uint64_t)o[2];
}

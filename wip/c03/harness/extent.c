/* Correspondence + spec-oracle harness for the extent domain (C04).
 *   extent gen  <seed> <n> <ops_out> <impl_out> <oracle_out>
 *   extent exec <ops_in> <impl_out> <oracle_out>
 * Every request is one line; `gen` writes the line and then executes it through the same routine
 * `exec` uses, so a replayed line does exactly what the generated one did.
 *
 *   cte <optT> x1 y1 x2 y2                      compute_transformed_extents  -> 0 | 1 tx1 ty1 tx2 ty2
 *   ae  <img> x1 y1 x2 y2                       analyze_extent               -> ret nearest bilinear
 *        img = - | isBits w h idflag filter p0 p1 <optT>
 *   pad srcw vx unit_x width                    pad_repeat_get_scanline_bounds -> width' left right
 *   rep mode c size                             repeat ()                    -> 0 | 1 c'
 *   mab a b / mabc a b c / mabpc a b c          pixman_malloc_ab*            -> CRASH | NULL | ALLOC n
 *   movi a b / aovi a b / movs a b              _pixman_*_overflows_*        -> CRASH | 0 | 1
 *   cb bpp w h  (extra token: format code)      pixman_image_create_bits (fmt, w, h, NULL, 0)
 *                                                                            -> CRASH | NULL | OK stride bufsize
 * Linked with -Wl,--wrap=malloc -Wl,--wrap=calloc: in probe mode the requested size is recorded and
 * a small block is handed out instead, so overflow-sized requests are observed without allocating.
 * SIGFPE (division by zero inside the library) is an observable (`CRASH`), via sigsetjmp. */
#ifdef HAVE_CONFIG_H
#include <config.h>
#endif
#include <stdio.h>
#include <stdlib.h>
#include <string.h>
#include <signal.h>
#include <setjmp.h>
#include <stdarg.h>
#include "pixman-private.h"
#include "rng.h"

int wb_analyze_extent (pixman_image_t *image, const pixman_box32_t *extents, uint32_t *flags);
int wb_compute_transformed_extents (pixman_transform_t *t, const pixman_box32_t *extents, int64_t out[4]);
int wb_repeat (int mode, int *c, int size);
void wb_pad_bounds (int32_t w, pixman_fixed_t vx, pixman_fixed_t ux, int32_t *width, int32_t *l, int32_t *r);
uint32_t wb_cover_nearest_flag (void);
uint32_t wb_cover_bilinear_flag (void);
uint32_t wb_id_transform_flag (void);

typedef __int128 i128;

/* ------------------------------------------------------------------ allocation probe */
static int probe;
static size_t probe_size;
static int probe_calls;
void *__real_malloc (size_t);
void *__real_calloc (size_t, size_t);
void *__wrap_malloc (size_t n)
{
    if (probe) { probe_size = n; probe_calls++; return __real_malloc (n > 4096 ? 16 : n); }
    return __real_malloc (n);
}
void *__wrap_calloc (size_t a, size_t b)
{
    if (probe) { probe_size = a * b; probe_calls++; if (a * b > 4096 || (b && a * b / b != a)) return __real_calloc (16, 1); }
    return __real_calloc (a, b);
}

/* ------------------------------------------------------------------ crash capture */
static sigjmp_buf jb;
static volatile int armed;
static void on_fpe (int s) { if (armed) siglongjmp (jb, s); signal (s, SIG_DFL); raise (s); }

/* ------------------------------------------------------------------ statistics */
#define NSTAT 48
static const char *stat_name[NSTAT];
static long stat_cnt[NSTAT];
static void stat (const char *name)
{
    int i;
    for (i = 0; i < NSTAT && stat_name[i]; i++)
	if (!strcmp (stat_name[i], name)) { stat_cnt[i]++; return; }
    if (i < NSTAT) { stat_name[i] = name; stat_cnt[i] = 1; }
}

static FILE *f_impl, *f_orc;
static long lineno;
static void oracle (const char *fmt, ...)
{
    va_list ap;
    fprintf (f_orc, "ORACLE %ld ", lineno);
    va_start (ap, fmt); vfprintf (f_orc, fmt, ap); va_end (ap);
    fputc ('\n', f_orc);
}

/* ------------------------------------------------------------------ parsing */
static char *tokv[64];
static int tokn, tokp;
static int more (void) { return tokp < tokn; }
static long long nexti (void) { return tokp < tokn ? strtoll (tokv[tokp++], 0, 10) : 0; }
static unsigned long long nextu (void) { return tokp < tokn ? strtoull (tokv[tokp++], 0, 10) : 0; }
static int next_opt_transform (pixman_transform_t *t)
{
    int i, j;
    if (tokp >= tokn) return 0;
    if (!strcmp (tokv[tokp], "-")) { tokp++; return 0; }
    tokp++;
    for (i = 0; i < 3; i++) for (j = 0; j < 3; j++) t->matrix[i][j] = (pixman_fixed_t) nexti ();
    return 1;
}

/* ------------------------------------------------------------------ ae: building the image */
static uint32_t dummy_bits[64];

static pixman_image_t *build_image (int is_bits, int w, int h, int filter, int p0, int p1,
				    pixman_transform_t *t)
{
    pixman_image_t *img;
    if (is_bits)
	img = pixman_image_create_bits (PIXMAN_a8r8g8b8, w, h, dummy_bits, 4 * (w > 0 && w < 100000 ? w : 1));
    else
    {
	pixman_color_t c = { 0x8000, 0x4000, 0x2000, 0xffff };
	img = pixman_image_create_solid_fill (&c);
    }
    if (!img) return NULL;
    if (t) pixman_image_set_transform (img, t);
    /* the filter and its first two parameters are stored directly: pixman_image_set_filter would
     * insist on a complete separable-convolution table, which analyze_extent never reads */
    img->common.filter = (pixman_filter_t) filter;
    if (img->common.filter_params) free (img->common.filter_params);
    img->common.filter_params = malloc (2 * sizeof (pixman_fixed_t));
    img->common.filter_params[0] = p0;
    img->common.filter_params[1] = p1;
    img->common.n_filter_params = 2;
    img->common.dirty = TRUE;
    _pixman_image_validate (img);
    return img;
}

static int affine (const pixman_transform_t *t)
{
    return t->matrix[2][0] == 0 && t->matrix[2][1] == 0 && t->matrix[2][2] == pixman_fixed_1;
}

/* the centre of pixel (i, j) through pixman_transform_point_3d: what the affine fetchers start a
 * scanline with (and, by exact stepping, what every later pixel of the scanline gets) */
static int pixel_coord (pixman_transform_t *t, int i, int j, int64_t *x, int64_t *y)
{
    pixman_vector_t v;
    if (!t) { *x = (int64_t) i * 65536 + 32768; *y = (int64_t) j * 65536 + 32768; return 1; }
    v.vector[0] = pixman_int_to_fixed (i) + pixman_fixed_1 / 2;
    v.vector[1] = pixman_int_to_fixed (j) + pixman_fixed_1 / 2;
    v.vector[2] = pixman_fixed_1;
    if (!pixman_transform_point_3d (t, &v)) return 0;
    *x = v.vector[0]; *y = v.vector[1];
    return 1;
}

/* exact value of the same thing, independent of the library: round-half-up of the affine form */
static void pixel_coord_exact (pixman_transform_t *t, int i, int j, i128 *x, i128 *y)
{
    i128 X = (i128) i * 65536 + 32768, Y = (i128) j * 65536 + 32768, n;
    if (!t) { *x = X; *y = Y; return; }
    n = (i128) t->matrix[0][0] * X + (i128) t->matrix[0][1] * Y + (i128) t->matrix[0][2] * 65536 + 32768;
    *x = n >= 0 ? n / 65536 : -((-n + 65535) / 65536);
    n = (i128) t->matrix[1][0] * X + (i128) t->matrix[1][1] * Y + (i128) t->matrix[1][2] * 65536 + 32768;
    *y = n >= 0 ? n / 65536 : -((-n + 65535) / 65536);
}

static void ae_oracle (int is_bits, int w, int h, int filter, int p0, int p1, pixman_transform_t *t,
		       const pixman_box32_t *e, int ret, int nearest, int bilinear)
{
    int64_t x, y;
    i128 ex, ey;
    int i, j, all_in_n = 1, all_in_b = 1, visited = 0;
    long area;
    int64_t xoff = 0, wd = 0, yoff = 0, ht = 0;
    if (t && !affine (t)) { stat ("ae projective (oracle: none)"); return; }
    if (e->x1 >= e->x2 || e->y1 >= e->y2) { stat ("ae empty extents"); return; }
    if (e->x1 < -32767 || e->y1 < -32767 || e->x2 > 32766 || e->y2 > 32766)
    {
	if (ret) oracle ("accepted extents beyond 16 bit [ae|extents>16bit]");
	return;
    }
    if (is_bits)
    {
	if (filter == 5 || filter == 6)
	{ xoff = -1 - (((int64_t) p0 - 65536) >> 1); yoff = -1 - (((int64_t) p1 - 65536) >> 1); wd = p0; ht = p1; }
	else if (filter == 1 || filter == 2 || filter == 4) { xoff = yoff = -32768; wd = ht = 65536; }
	else { xoff = yoff = -1; }
    }
    area = (long) (e->x2 - e->x1) * (e->y2 - e->y1);
    /* S2/S3: a cover flag promises that every sample of every pixel of the extents is inside.
     * Small extents: every pixel; large ones: the corners, their neighbours and a coarse grid. */
    {
	static int xs[80], ys[80]; int nx = 0, ny = 0, a, b;
	int wdt = e->x2 - e->x1, hgt = e->y2 - e->y1;
	if (wdt <= 64) for (a = 0; a < wdt; a++) xs[nx++] = e->x1 + a;
	else { xs[nx++] = e->x1; xs[nx++] = e->x1 + 1; xs[nx++] = e->x2 - 2; xs[nx++] = e->x2 - 1; for (a = 1; a < 12; a++) xs[nx++] = e->x1 + (int) ((long) wdt * a / 12); }
	if (hgt <= 64) for (a = 0; a < hgt; a++) ys[ny++] = e->y1 + a;
	else { ys[ny++] = e->y1; ys[ny++] = e->y1 + 1; ys[ny++] = e->y2 - 2; ys[ny++] = e->y2 - 1; for (a = 1; a < 12; a++) ys[ny++] = e->y1 + (int) ((long) hgt * a / 12); }
	for (b = 0; b < ny; b++) for (a = 0; a < nx; a++)
	{
	    i = xs[a]; j = ys[b];
	    visited++;
	    pixel_coord_exact (t, i, j, &ex, &ey);
	    if (!pixel_coord (t, i, j, &x, &y))
	    {
		if (ret) oracle ("accepted, but the centre of pixel (%d,%d) of the extents is not representable [ae|accepted-unrepresentable]", i, j);
		all_in_n = all_in_b = 0;
		continue;
	    }
	    if ((i128) x != ex || (i128) y != ey)
		oracle ("pixman_transform_point_3d of pixel (%d,%d) differs from the exact rounded affine form [ae|point3d-inexact]", i, j);
	    if (is_bits)
	    {
		int64_t nx_ = (x - 1) >> 16, ny_ = (y - 1) >> 16;
		int64_t bx = (x - 32768) >> 16, by = (y - 32768) >> 16;
		if (nx_ < 0 || nx_ >= w || ny_ < 0 || ny_ >= h)
		{
		    all_in_n = 0;
		    if (nearest)
			oracle ("COVER_CLIP_NEAREST set but pixel (%d,%d) samples (%lld,%lld) outside %dx%d [ae|cover-nearest-unsound]", i, j, (long long) nx_, (long long) ny_, w, h);
		}
		if (bx < 0 || bx + 1 >= w || by < 0 || by + 1 >= h)
		{
		    all_in_b = 0;
		    if (bilinear)
			oracle ("COVER_CLIP_BILINEAR set but pixel (%d,%d) has taps (%lld..+1,%lld..+1) outside %dx%d [ae|cover-bilinear-unsound]", i, j, (long long) bx, (long long) by, w, h);
		}
	    }
	}
    }
    if (is_bits && visited == area)
    {
	if (all_in_n && !nearest && ret) stat ("ae nearest flag not set though all samples inside (conservative)");
	if (all_in_b && !bilinear && ret) stat ("ae bilinear flag not set though all taps inside (conservative)");
    }
    /* the early exit for untransformed sources inside the image applies no footprint test (and needs none:
     * without a transform nothing is stepped in 16.16 beyond the pixel centres) */
    if (is_bits && !t && e->x1 >= 0 && e->y1 >= 0 && e->x2 <= w && e->y2 <= h) { xoff = yoff = 8; wd = ht = -16; stat ("ae untransformed early exit"); }
    /* S4/S9: TRUE promises that the walk over the extents expanded by one never leaves int32 */
    for (j = e->y1 - 1; j <= e->y2; j += (e->y2 - e->y1 + 1))
	for (i = e->x1 - 1; i <= e->x2; i += (e->x2 - e->x1 + 1))
	{
	    pixel_coord_exact (t, i, j, &ex, &ey);
	    if (ret)
	    {
		if (ex + xoff - 8 < -(i128) 2147483648LL || ex + xoff + 8 + wd > 2147483647 ||
		    ey + yoff - 8 < -(i128) 2147483648LL || ey + yoff + 8 + ht > 2147483647)
		    oracle ("accepted, but the expanded corner (%d,%d) maps outside the 16.16 range incl. filter footprint [ae|accepted-out-of-range]", i, j);
	    }
	}
    if (ret) stat ("ae TRUE checked by oracle");
}

/* ------------------------------------------------------------------ executing one line */
static void run_line (char *line)
{
    char *s, *op;
    tokn = tokp = 0;
    for (s = strtok (line, " \t\r\n"); s && tokn < 64; s = strtok (NULL, " \t\r\n")) tokv[tokn++] = s;
    if (!tokn) { fprintf (f_impl, "\n"); return; }
    op = tokv[tokp++];
    armed = 1;
    {
	int sig = sigsetjmp (jb, 1);
	if (sig) { armed = 0; probe = 0; fprintf (f_impl, "CRASH\n"); stat ("CRASH observed (division by zero)"); return; }
    }
    if (!strcmp (op, "cte"))
    {
	pixman_transform_t t; int has = next_opt_transform (&t);
	pixman_box32_t e; int64_t out[4]; int r;
	e.x1 = nexti (); e.y1 = nexti (); e.x2 = nexti (); e.y2 = nexti ();
	r = wb_compute_transformed_extents (has ? &t : NULL, &e, out);
	if (r) fprintf (f_impl, "1 %lld %lld %lld %lld\n", (long long) out[0], (long long) out[1], (long long) out[2], (long long) out[3]);
	else fprintf (f_impl, "0\n");
	stat (r ? "cte TRUE" : "cte FALSE");
    }
    else if (!strcmp (op, "ae"))
    {
	pixman_box32_t e; uint32_t flags = 0; int r;
	if (!strcmp (tokv[tokp], "-"))
	{
	    tokp++;
	    e.x1 = nexti (); e.y1 = nexti (); e.x2 = nexti (); e.y2 = nexti ();
	    r = wb_analyze_extent (NULL, &e, &flags);
	    fprintf (f_impl, "%d %d %d\n", r, !!(flags & wb_cover_nearest_flag ()), !!(flags & wb_cover_bilinear_flag ()));
	    stat ("ae NULL image");
	}
	else
	{
	    int is_bits = nexti (), w = nexti (), h = nexti (), idf = nexti (), filter = nexti (), p0 = nexti (), p1 = nexti ();
	    pixman_transform_t t; int has = next_opt_transform (&t);
	    pixman_image_t *img;
	    int n, b, lib_id;
	    e.x1 = nexti (); e.y1 = nexti (); e.x2 = nexti (); e.y2 = nexti ();
	    img = build_image (is_bits, w, h, filter, p0, p1, has ? &t : NULL);
	    if (!img) { fprintf (f_impl, "NOIMAGE\n"); armed = 0; return; }
	    lib_id = (img->common.flags & wb_id_transform_flag ()) == wb_id_transform_flag ();
	    if (lib_id != idf || (has != (img->common.transform != NULL)) ||
		(has && memcmp (&t, img->common.transform, sizeof t)))
	    {
		/* the request line describes an image state the public API does not produce */
		fprintf (f_impl, "STATE-MISMATCH\n");
		pixman_image_unref (img); armed = 0; return;
	    }
	    r = wb_analyze_extent (img, &e, &flags);
	    n = !!(flags & wb_cover_nearest_flag ()); b = !!(flags & wb_cover_bilinear_flag ());
	    fprintf (f_impl, "%d %d %d\n", r, n, b);
	    stat (r ? "ae TRUE" : "ae FALSE");
	    if (n) stat ("ae COVER_CLIP_NEAREST set");
	    if (b) stat ("ae COVER_CLIP_BILINEAR set");
	    if (n && has) stat ("ae COVER_CLIP_NEAREST set with a transform");
	    if (b && has) stat ("ae COVER_CLIP_BILINEAR set with a transform");
	    ae_oracle (is_bits, w, h, filter, p0, p1, has ? &t : NULL, &e, r, n, b);
	    pixman_image_unref (img);
	}
    }
    else if (!strcmp (op, "pad"))
    {
	int32_t w = nexti (), vx = nexti (), ux = nexti (), width = nexti (), l = 0, r = 0, w0 = width;
	wb_pad_bounds (w, vx, ux, &width, &l, &r);
	fprintf (f_impl, "%d %d %d\n", width, l, r);
	if (ux > 0 && w0 >= 0)
	{
	    int64_t maxvx = (int64_t) w << 16;
	    int k, bad = 0;
	    if ((int64_t) l + width + r != w0 || l < 0 || r < 0 || width < 0)
		oracle ("left+width'+right != width or a negative part [pad|partition]");
	    for (k = 0; k < width && !bad; k += (width > 1 ? width - 1 : 1))	/* monotone in k: first and last suffice */
	    {
		int64_t v = (int64_t) vx + (int64_t) (l + k) * ux;
		if (v < 0 || v >= maxvx) { bad = 1; oracle ("middle pixel %d has vx outside [0, w<<16) [pad|middle-outside]", k); }
	    }
	    if (l > 0 && l <= w0 && (int64_t) vx + (int64_t) (l - 1) * ux >= 0) stat ("pad: left pad longer than necessary");
	    if (r > 0 && width > 0 && (int64_t) vx + (int64_t) (l + width) * ux < maxvx) stat ("pad: right pad longer than necessary");
	    if (width > 0) stat ("pad non-empty middle"); else stat ("pad empty middle");
	}
	else stat ("pad unit_x <= 0 or width < 0 (no oracle)");
    }
    else if (!strcmp (op, "rep"))
    {
	int mode = nexti (), c = nexti (), size = nexti (), r;
	r = wb_repeat (mode, &c, size);
	if (r) fprintf (f_impl, "1 %d\n", c); else fprintf (f_impl, "0\n");
	if (r && (c < 0 || c >= size)) oracle ("repeat returned TRUE with coordinate %d outside [0,%d) [rep|outside]", c, size);
	stat ("rep");
    }
    else if (!strcmp (op, "mab") || !strcmp (op, "mabc") || !strcmp (op, "mabpc"))
    {
	unsigned a = nextu (), b = nextu (), c = 0; void *p; i128 exact;
	int kind = !strcmp (op, "mab") ? 0 : !strcmp (op, "mabc") ? 1 : 2;
	if (kind) c = nextu ();
	probe = 1; probe_calls = 0;
	p = kind == 0 ? pixman_malloc_ab (a, b) : kind == 1 ? pixman_malloc_abc (a, b, c) : pixman_malloc_ab_plus_c (a, b, c);
	probe = 0;
	exact = kind == 0 ? (i128) a * b : kind == 1 ? (i128) a * b * c : (i128) a * b + c;
	if (!probe_calls) { fprintf (f_impl, "NULL\n"); stat ("malloc_ab* NULL"); }
	else
	{
	    fprintf (f_impl, "ALLOC %llu\n", (unsigned long long) probe_size);
	    stat ("malloc_ab* ALLOC");
	    if (kind == 2 && c > 2147483647u)
		stat ("malloc_ab_plus_c with c > INT32_MAX (outside the callers' domain; no oracle)");
	    else if ((i128) probe_size != exact || exact > 2147483647)
		oracle ("allocation of %llu bytes for an exact size that is different or exceeds INT32_MAX [%s|size]", (unsigned long long) probe_size, op);
	}
	free (p);
    }
    else if (!strcmp (op, "movi")) { unsigned a = nextu (), b = nextu (); fprintf (f_impl, "%d\n", !!_pixman_multiply_overflows_int (a, b)); stat ("overflow predicates"); }
    else if (!strcmp (op, "aovi")) { unsigned a = nextu (), b = nextu (); fprintf (f_impl, "%d\n", !!_pixman_addition_overflows_int (a, b)); stat ("overflow predicates"); }
    else if (!strcmp (op, "movs")) { size_t a = nextu (), b = nextu (); fprintf (f_impl, "%d\n", !!_pixman_multiply_overflows_size (a, b)); stat ("overflow predicates"); }
    else if (!strcmp (op, "cb"))
    {
	int bpp = nexti (), w = nexti (), h = nexti ();
	uint32_t fmt = more () ? (uint32_t) nextu () : 0;
	pixman_image_t *img;
	if ((int) PIXMAN_FORMAT_BPP (fmt) != bpp || w == 0 || h == 0) { fprintf (f_impl, "BADREQ\n"); armed = 0; return; }
	probe = 1; probe_calls = 0; probe_size = 0;
	img = pixman_image_create_bits ((pixman_format_code_t) fmt, w, h, NULL, 0);
	probe = 0;
	if (!img) { fprintf (f_impl, "NULL\n"); stat ("create_bits NULL"); }
	else
	{
	    int stride = pixman_image_get_stride (img);
	    fprintf (f_impl, "OK %d %llu\n", stride, (unsigned long long) probe_size);
	    stat ("create_bits OK");
	    if (w < 0 || h < 0 || (i128) stride * 8 < (i128) w * bpp || stride % 4 || (i128) probe_size != (i128) h * stride)
		oracle ("create_bits: stride %d / size %llu do not hold %dx%d at %d bpp [cb|storage-too-small]", stride, (unsigned long long) probe_size, w, h, bpp);
	    pixman_image_unref (img);
	}
    }
    else fprintf (f_impl, "BADOP\n");
    armed = 0;
}

/* ------------------------------------------------------------------ generator */
static int pick16 (void)
{
    static const int edge[] = { 0, 0, 1, -1, 2, 3, 32766, 32767, 32765, -32767, -32768, -32766, 32768, -32769, 16384 };
    int k = rng_n (10);
    if (k < 3) return edge[rng_n (sizeof edge / sizeof edge[0])];
    if (k < 8) return rng_range (-4, 40);
    if (k < 9) return rng_range (-32768, 32767);
    return (int) (rng_u32 () >> rng_n (32)) * (rng_chance (50) ? 1 : -1);
}
static int pick_size (void)
{
    static const int edge[] = { 0, 1, 1, 2, 3, 32766, 32767, 32768, 65536, 100000, 32765 };
    int k = rng_n (10);
    if (k < 2) return edge[rng_n (sizeof edge / sizeof edge[0])];
    if (k < 8) return rng_range (1, 24);
    return rng_range (1, 400);
}
static int32_t pick_fixed (void)
{
    static const int32_t nice[] = { 0, 1, -1, 65536, -65536, 32768, -32768, 131072, 65535, 65537, 98304, 16384, 2, 3,
				    0x7fffffff, -0x7fffffff - 1, 0x7ffffffe, 0x40000000, 1 << 20, 1 << 24, 196608, 21845, 43691 };
    int k = rng_n (10);
    if (k < 5) return nice[rng_n (sizeof nice / sizeof nice[0])];
    if (k < 8) return (int32_t) rng_range (-200000, 200000);
    return (int32_t) ((rng_u32 () >> rng_n (32)) * (rng_chance (50) ? 1u : -1u));
}
static int32_t pick_scale (void)
{
    static const int32_t nice[] = { 65536, 65536, 32768, 131072, 65535, 65537, 98304, 16384, -65536, -32768, 196608, 1, 0, 21845, 43691, 1 << 20, -131072, 6553, 655360 };
    if (rng_chance (70)) return nice[rng_n (sizeof nice / sizeof nice[0])];
    return (int32_t) rng_range (-300000, 300000);
}
static i128 round_half_up_16 (i128 n) { n += 32768; return n >= 0 ? n / 65536 : -((-n + 65535) / 65536); }

static void fmt_transform (char *buf, const pixman_transform_t *t)
{
    if (!t) { strcpy (buf, "-"); return; }
    sprintf (buf, "+ %d %d %d %d %d %d %d %d %d", t->matrix[0][0], t->matrix[0][1], t->matrix[0][2],
	     t->matrix[1][0], t->matrix[1][1], t->matrix[1][2], t->matrix[2][0], t->matrix[2][1], t->matrix[2][2]);
}
static int is_identity (const pixman_transform_t *t)
{
    pixman_transform_t id; pixman_transform_init_identity (&id);
    return !memcmp (&id, t, sizeof id);
}

/* solve the translation of row `r` (0 = x, 1 = y) so that the extreme (min or max) transformed
 * corner of box (x1..x2, y1..y2) lands exactly on `target + delta` */
static void anchor_row (pixman_transform_t *t, int r, int x1, int y1, int x2, int y2, int anchor_max, int64_t target)
{
    i128 cx[2], cy[2], best = 0; int a, b, first = 1;
    cx[0] = (i128) x1 * 65536 + 32768; cx[1] = (i128) x2 * 65536 - 32768;
    cy[0] = (i128) y1 * 65536 + 32768; cy[1] = (i128) y2 * 65536 - 32768;
    for (a = 0; a < 2; a++) for (b = 0; b < 2; b++)
    {
	i128 v = round_half_up_16 ((i128) t->matrix[r][0] * cx[a] + (i128) t->matrix[r][1] * cy[b]);
	if (first || (anchor_max ? v > best : v < best)) best = v;
	first = 0;
    }
    {
	i128 m = (i128) target - best;
	if (m >= -(i128) 2147483648LL && m <= 2147483647) t->matrix[r][2] = (pixman_fixed_t) m;
	else t->matrix[r][2] = pick_fixed ();
    }
}

static void gen_transform (pixman_transform_t *t, int *has, int w, int h, int filter, int p0, int p1, const pixman_box32_t *e)
{
    int k = rng_n (100);
    pixman_transform_init_identity (t);
    *has = 1;
    if (k < 15) { *has = 0; return; }
    if (k < 25)
    {
	t->matrix[0][2] = pixman_int_to_fixed (rng_range (-5, 5)); t->matrix[1][2] = pixman_int_to_fixed (rng_range (-5, 5));
    }
    else if (k < 70)
    {
	/* boundary construction: scale (+ optional shear), translation solved so that the extreme
	 * sample of the extents (or of the expanded extents) lands on a decision boundary +- 2 */
	int r;
	t->matrix[0][0] = pick_scale (); t->matrix[1][1] = pick_scale ();
	if (rng_chance (25)) { t->matrix[0][1] = pick_scale () / (rng_chance (50) ? 1 : 16); t->matrix[1][0] = pick_scale () / (rng_chance (50) ? 1 : 16); }
	for (r = 0; r < 2; r++)
	{
	    int size = r ? h : w, anchor_max = rng_chance (50), which = rng_n (10), expanded = 0;
	    int64_t target, xoff = -1, wd = 0;
	    int pp = r ? p1 : p0;
	    if (filter == 5 || filter == 6) { xoff = -1 - (((int64_t) pp - 65536) >> 1); wd = pp; }
	    else if (filter == 1 || filter == 2 || filter == 4) { xoff = -32768; wd = 65536; }
	    if (which < 4) target = anchor_max ? (int64_t) size * 65536 : 1;				/* nearest flips */
	    else if (which < 8) target = anchor_max ? (int64_t) size * 65536 - 32768 : 32768;	/* bilinear flips */
	    else { expanded = 1; target = anchor_max ? 2147483647LL - xoff - 8 - wd : -2147483648LL - xoff + 8; }	/* 16.16 range flips */
	    target += rng_range (-2, 2);
	    if (rng_chance (10)) target += rng_range (-70000, 70000);
	    if (expanded) anchor_row (t, r, e->x1 - 1, e->y1 - 1, e->x2 + 1, e->y2 + 1, anchor_max, target);
	    else anchor_row (t, r, e->x1, e->y1, e->x2, e->y2, anchor_max, target);
	    if (rng_chance (15)) t->matrix[r][2] = pick_fixed ();
	}
    }
    else if (k < 85)
    {
	int i, j;
	for (i = 0; i < 2; i++) for (j = 0; j < 3; j++) t->matrix[i][j] = pick_fixed ();
    }
    else
    {
	int i, j;
	for (i = 0; i < 2; i++) for (j = 0; j < 3; j++) t->matrix[i][j] = rng_chance (60) ? pick_scale () : pick_fixed ();
	t->matrix[2][0] = rng_chance (50) ? rng_range (-300, 300) : pick_fixed ();
	t->matrix[2][1] = rng_chance (50) ? rng_range (-300, 300) : pick_fixed ();
	t->matrix[2][2] = rng_chance (70) ? 65536 + rng_range (-2000, 2000) : pick_fixed ();
    }
    if (is_identity (t)) *has = 0;
}

static void gen_box (pixman_box32_t *e)
{
    int k = rng_n (10);
    e->x1 = pick16 (); e->y1 = pick16 ();
    if (k < 7) { e->x2 = e->x1 + rng_range (1, 20); e->y2 = e->y1 + rng_range (1, 20); }
    else if (k < 9) { e->x2 = e->x1 + rng_range (0, 3000); e->y2 = e->y1 + rng_range (0, 3000); }
    else { e->x2 = pick16 (); e->y2 = pick16 (); }
    if (rng_chance (3)) e->x2 = 2147483647 - rng_n (3);
    if (rng_chance (3)) e->y1 = -2147483647 + rng_n (3);
}

static unsigned pick_u32 (void)
{
    static const unsigned nice[] = { 0, 1, 2, 3, 4, 8, 16, 40, 45, 12, 65535, 65536, 65537, 46340, 46341, 32768, 0x7fffffffu, 0x80000000u, 0x7ffffffeu,
				     0xffffffffu, 0xfffffffeu, 0x40000000u, 0x3fffffffu, 0x20000000u, 0x1fffffffu, 0x10000000u };
    int k = rng_n (10);
    if (k < 4) return nice[rng_n (sizeof nice / sizeof nice[0])];
    if (k < 6) return rng_n (1000);
    return rng_u32 () >> rng_n (32);
}

static const uint32_t formats[] = {
    PIXMAN_a8r8g8b8, PIXMAN_x8r8g8b8, PIXMAN_r8g8b8, PIXMAN_r5g6b5, PIXMAN_a8, PIXMAN_a4, PIXMAN_a1, PIXMAN_a1r5g5b5,
    PIXMAN_rgba_float, PIXMAN_rgb_float, PIXMAN_a2r10g10b10, PIXMAN_g1, PIXMAN_c8, PIXMAN_yuy2, PIXMAN_a4r4g4b4,
    PIXMAN_FORMAT (64, PIXMAN_TYPE_ARGB, 16, 16, 16, 16)
};

static void gen_line (char *out)
{
    int k = rng_n (100);
    char tb[256];
    if (k < 55)
    {
	pixman_box32_t e; pixman_transform_t t; int has;
	static const int filters[] = { 0, 1, 2, 3, 3, 3, 4, 4, 4, 5, 6, 7, -1 };
	int is_bits = !rng_chance (8), w = pick_size (), h = pick_size (), filter = filters[rng_n (13)];
	int p0 = 0, p1 = 0;
	if (!is_bits) { w = h = 0; }
	if (rng_chance (3)) { sprintf (out, "ae - %d %d %d %d", pick16 (), pick16 (), pick16 (), pick16 ()); return; }
	if (filter == 5 || filter == 6 || rng_chance (5))
	{
	    p0 = rng_chance (80) ? pixman_int_to_fixed (rng_range (1, 9)) : pick_fixed ();
	    p1 = rng_chance (80) ? pixman_int_to_fixed (rng_range (1, 9)) : pick_fixed ();
	}
	gen_box (&e);
	if (rng_chance (50) && w > 0 && h > 0 && w < 32767 && h < 32767)
	{   /* extents related to the image: the usual case of a composite */
	    e.x1 = rng_range (-1, 2); e.y1 = rng_range (-1, 2);
	    e.x2 = e.x1 + rng_range (1, w < 64 ? w + 2 : 64); e.y2 = e.y1 + rng_range (1, h < 64 ? h + 2 : 64);
	}
	gen_transform (&t, &has, w, h, filter, p0, p1, &e);
	fmt_transform (tb, has ? &t : NULL);
	sprintf (out, "ae %d %d %d %d %d %d %d %s %d %d %d %d", is_bits, w, h, !has, filter, p0, p1, tb, e.x1, e.y1, e.x2, e.y2);
    }
    else if (k < 65)
    {
	pixman_box32_t e; pixman_transform_t t; int has;
	gen_box (&e);
	gen_transform (&t, &has, pick_size (), pick_size (), 3, 0, 0, &e);
	fmt_transform (tb, has ? &t : NULL);
	sprintf (out, "cte %s %d %d %d %d", tb, e.x1, e.y1, e.x2, e.y2);
    }
    else if (k < 75)
    {
	int w = rng_chance (85) ? rng_range (1, 64) : pick_size ();
	int32_t ux = rng_chance (92) ? (rng_chance (50) ? (int32_t) rng_range (1, 300000) : (pick_scale () > 0 ? pick_scale () : 65536)) : pick_scale ();
	int32_t vx; int width = rng_chance (80) ? rng_range (0, 100) : rng_range (0, 40000);
	int kk = rng_n (6);
	if (ux <= 0 && rng_chance (80)) ux = 1 - ux;
	if (kk == 0) vx = rng_range (-3, 3);
	else if (kk == 1) vx = (int32_t) (((int64_t) w << 16) + rng_range (-3, 3) > 2147483647 ? 2147483647 : ((int64_t) w << 16) + rng_range (-3, 3));
	else if (kk == 2) vx = -(int32_t) ((int64_t) ux * rng_range (0, 50) % 2000000000) + rng_range (-2, 2);
	else if (kk == 3) { int64_t v = ((int64_t) w << 16) - (int64_t) ux * rng_range (0, 50) + rng_range (-2, 2); vx = (int32_t) (v > 2147483647 ? 2147483647 : v < -2147483647 ? -2147483647 : v); }
	else vx = pick_fixed ();
	sprintf (out, "pad %d %d %d %d", w, vx, ux, width);
    }
    else if (k < 83)
    {
	int size = rng_chance (70) ? rng_range (1, 9) : rng_range (1, 40000);
	int c, kk = rng_n (5);
	if (kk == 0) c = rng_range (-3, 3) + size * rng_range (-4, 4);
	else if (kk == 1) c = rng_range (-3 * size - 2, 3 * size + 2);
	else if (kk == 2) c = size * rng_range (-3000, 3000) + rng_range (-1, 1);
	else c = rng_range (-100000, 100000);
	if (size < 20 && (c > 200000 || c < -200000)) c %= 200000;
	sprintf (out, "rep %d %d %d", rng_n (4), c, size);
    }
    else if (k < 91)
    {
	unsigned a = pick_u32 (), b = pick_u32 (), c = pick_u32 ();
	int kind = rng_n (3);
	if (rng_chance (40) && b) a = 0x7fffffffu / b + rng_range (-2, 2);
	if (kind == 1 && rng_chance (40) && c && b && a < 0x7fffffffu / b) { unsigned ab = a * b; if (ab) c = 0x7fffffffu / ab + rng_range (-2, 2); }
	if (kind == 2 && rng_chance (40) && b && a < 0x7fffffffu / b) c = 0x7fffffffu - a * b + rng_range (-2, 2);
	if (kind == 0) sprintf (out, "mab %u %u", a, b);
	else if (kind == 1) sprintf (out, "mabc %u %u %u", a, b, c);
	else sprintf (out, "mabpc %u %u %u", a, b, c);
    }
    else if (k < 94)
    {
	unsigned a = pick_u32 (), b = pick_u32 (); int kind = rng_n (3);
	if (kind == 0) { if (rng_chance (40) && b) a = 0x7fffffffu / b + rng_range (-2, 2); sprintf (out, "movi %u %u", a, b); }
	else if (kind == 1) { if (rng_chance (40)) a = 0x7fffffffu - b + rng_range (-2, 2); sprintf (out, "aovi %u %u", a, b); }
	else
	{
	    uint64_t A = rng_chance (50) ? a : rng_u64 () >> rng_n (64), B = rng_chance (50) ? b : rng_u64 () >> rng_n (64);
	    if (rng_chance (40) && B) A = UINT64_MAX / B + (uint64_t) rng_range (-2, 2);
	    sprintf (out, "movs %llu %llu", (unsigned long long) A, (unsigned long long) B);
	}
    }
    else
    {
	uint32_t fmt = formats[rng_n (sizeof formats / sizeof formats[0])];
	int bpp = PIXMAN_FORMAT_BPP (fmt), w, h, kk = rng_n (6);
	if (rng_chance (2)) { fmt = 0; bpp = 0; }
	if (kk < 2) w = rng_range (1, 70);
	else if (kk == 2 && bpp) w = 0x7fffffff / bpp + rng_range (-3, 3);
	else if (kk == 3 && bpp) w = (0x7fffffff - 31) / bpp + rng_range (-3, 3);
	else w = (int) pick_u32 ();
	kk = rng_n (6);
	if (kk < 3) h = rng_range (1, 20);
	else if (kk == 3) h = rng_range (32760, 32770);
	else h = (int) pick_u32 ();
	if (!w) w = 1;
	if (!h) h = 1;
	sprintf (out, "cb %d %d %d %u", bpp, w, h, fmt);
    }
}

int main (int argc, char **argv)
{
    static char line[4096], copy[4096];
    int i;
    signal (SIGFPE, on_fpe);
    if (argc >= 7 && !strcmp (argv[1], "gen"))
    {
	long n = atol (argv[3]), k;
	FILE *fo = fopen (argv[4], "w");
	rng_seed (strtoull (argv[2], 0, 10));
	f_impl = fopen (argv[5], "w"); f_orc = fopen (argv[6], "w");
	if (!fo || !f_impl || !f_orc) return 2;
	for (k = 0; k < n; k++)
	{
	    gen_line (line);
	    fprintf (fo, "%s\n", line);
	    fflush (fo);
	    lineno = k + 1;
	    strcpy (copy, line);
	    run_line (copy);
	}
	fclose (fo);
    }
    else if (argc >= 5 && !strcmp (argv[1], "exec"))
    {
	FILE *fi = fopen (argv[2], "r");
	f_impl = fopen (argv[3], "w"); f_orc = fopen (argv[4], "w");
	if (!fi || !f_impl || !f_orc) return 2;
	while (fgets (line, sizeof line, fi)) { lineno++; run_line (line); }
	fclose (fi);
    }
    else { fprintf (stderr, "usage: extent gen <seed> <n> <ops> <impl> <oracle> | exec <ops> <impl> <oracle>\n"); return 2; }
    for (i = 0; i < NSTAT && stat_name[i]; i++) fprintf (f_orc, "STAT %ld %s\n", stat_cnt[i], stat_name[i]);
    fclose (f_impl); fclose (f_orc);
    return 0;
}

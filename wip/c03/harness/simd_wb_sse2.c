/* white-box translation unit: the real pixman-sse2.c with wrappers around its static inline kernels */
#ifdef HAVE_CONFIG_H
#include <config.h>
#endif
#include "pixman-sse2.c"
#include "simd_wb.h"

void wb_sse2_init(void) { (void)_pixman_implementation_create_sse2(NULL); }   /* initialises mask_0080, mask_565_*, ... */
uint32_t wb_sse2_pixmul(uint32_t x, uint32_t a) { return (uint32_t)_mm_cvtsi128_si32(pix_multiply_1x128(_mm_set1_epi16((short)x), _mm_set1_epi16((short)a))) & 0xffff; }
uint32_t wb_sse2_negate(uint32_t p) { return pack_1x128_32(negate_1x128(unpack_32_1x128(p))); }
uint32_t wb_sse2_expand_alpha(uint32_t p) { return pack_1x128_32(expand_alpha_1x128(unpack_32_1x128(p))); }
uint32_t wb_sse2_expand_alpha_rev(uint32_t p) { return pack_1x128_32(expand_alpha_rev_1x128(unpack_32_1x128(p))); }
uint32_t wb_sse2_over(uint32_t s, uint32_t a, uint32_t d) { return pack_1x128_32(over_1x128(unpack_32_1x128(s), unpack_32_1x128(a), unpack_32_1x128(d))); }
uint32_t wb_sse2_over_pixel(uint32_t s, uint32_t d) { return core_combine_over_u_pixel_sse2(s, d); }
uint32_t wb_sse2_in_over(uint32_t s, uint32_t a, uint32_t m, uint32_t d)
{ __m128i S = unpack_32_1x128(s), A = unpack_32_1x128(a), M = unpack_32_1x128(m), D = unpack_32_1x128(d); return pack_1x128_32(in_over_1x128(&S, &A, &M, &D)); }
uint32_t wb_sse2_addmul(uint32_t s, uint32_t ad, uint32_t d, uint32_t as)
{ __m128i S = unpack_32_1x128(s), AD = unpack_32_1x128(ad), D = unpack_32_1x128(d), AS = unpack_32_1x128(as); return pack_1x128_32(pix_add_multiply_1x128(&S, &AD, &D, &AS)); }
uint32_t wb_sse2_unpack565(uint32_t s) { return (uint32_t)_mm_cvtsi128_si32(unpack_565_to_8888(_mm_cvtsi32_si128((int)(s & 0xffff)))); }
uint32_t wb_sse2_pack565(uint32_t p) { return pack_565_32_16(p); }
uint32_t wb_sse2_pack565v(uint32_t p)
{ __m128i lo = unpack_32_1x128(p), z = _mm_setzero_si128(), r = pack_565_2x128_128(lo, z); return (uint32_t)_mm_cvtsi128_si32(_mm_packus_epi16(r, r)) & 0xffff; }
uint32_t wb_sse2_bilin(uint32_t tl, uint32_t tr, uint32_t bl, uint32_t br, int wt, int wb, int vx_)
{
    uint32_t top[4] = { tl, tr, 0, 0 }, bot[4] = { bl, br, 0, 0 };
    const uint32_t *src_top = top, *src_bottom = bot;
    pixman_fixed_t vx = vx_, unit_x = 0x1234;
    BILINEAR_DECLARE_VARIABLES;
    uint32_t pix;
    BILINEAR_INTERPOLATE_ONE_PIXEL(pix);
    return pix;
}

/* wrappers around the static inline kernels of the SIMD translation units (white-box TUs) */
#ifndef SIMD_WB_H
#define SIMD_WB_H
#include <stdint.h>
void wb_sse2_init(void);
uint32_t wb_sse2_pixmul(uint32_t x, uint32_t a);
uint32_t wb_sse2_negate(uint32_t p);
uint32_t wb_sse2_expand_alpha(uint32_t p);
uint32_t wb_sse2_expand_alpha_rev(uint32_t p);
uint32_t wb_sse2_over(uint32_t s, uint32_t a, uint32_t d);
uint32_t wb_sse2_over_pixel(uint32_t s, uint32_t d);
uint32_t wb_sse2_in_over(uint32_t s, uint32_t a, uint32_t m, uint32_t d);
uint32_t wb_sse2_addmul(uint32_t s, uint32_t ad, uint32_t d, uint32_t as);
uint32_t wb_sse2_unpack565(uint32_t s);
uint32_t wb_sse2_pack565(uint32_t p);
uint32_t wb_sse2_pack565v(uint32_t p);
uint32_t wb_sse2_bilin(uint32_t tl, uint32_t tr, uint32_t bl, uint32_t br, int wt, int wb, int vx);
uint32_t wb_mmx_pixmul(uint32_t x, uint32_t a);
uint32_t wb_mmx_negate(uint32_t p);
uint32_t wb_mmx_expand_alpha(uint32_t p);
uint32_t wb_mmx_over(uint32_t s, uint32_t a, uint32_t d);
uint32_t wb_mmx_in_over(uint32_t s, uint32_t a, uint32_t m, uint32_t d);
uint32_t wb_mmx_addmul(uint32_t x, uint32_t a, uint32_t y, uint32_t b);
uint32_t wb_mmx_expand565(uint32_t s);
uint32_t wb_mmx_pack565(uint32_t p);
uint64_t wb_ssse3_h(uint32_t l, uint32_t r, int x);
uint32_t wb_c0565(uint32_t s);
uint32_t wb_c8888_0565(uint32_t p);
uint32_t wb_bilin(uint32_t tl, uint32_t tr, uint32_t bl, uint32_t br, int dx, int dy);
#endif

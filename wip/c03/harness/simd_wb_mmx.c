/* white-box translation unit: the real pixman-mmx.c with wrappers around its static inline kernels */
#ifdef HAVE_CONFIG_H
#include <config.h>
#endif
#include "pixman-mmx.c"
#include "simd_wb.h"

static uint32_t out32(__m64 v) { uint32_t r; store8888(&r, v); _mm_empty(); return r; }
uint32_t wb_mmx_pixmul(uint32_t x, uint32_t a) { uint32_t r = (uint32_t)_mm_cvtsi64_si32(pix_multiply(_mm_set1_pi16((short)x), _mm_set1_pi16((short)a))) & 0xffff; _mm_empty(); return r; }
uint32_t wb_mmx_negate(uint32_t p) { return out32(negate(load8888(&p))); }
uint32_t wb_mmx_expand_alpha(uint32_t p) { return out32(expand_alpha(load8888(&p))); }
uint32_t wb_mmx_over(uint32_t s, uint32_t a, uint32_t d) { return out32(over(load8888(&s), load8888(&a), load8888(&d))); }
uint32_t wb_mmx_in_over(uint32_t s, uint32_t a, uint32_t m, uint32_t d) { return out32(in_over(load8888(&s), load8888(&a), load8888(&m), load8888(&d))); }
uint32_t wb_mmx_addmul(uint32_t x, uint32_t a, uint32_t y, uint32_t b) { return out32(pix_add_mul(load8888(&x), load8888(&a), load8888(&y), load8888(&b))); }
uint32_t wb_mmx_expand565(uint32_t s) { return out32(expand565(to_m64((uint64_t)(s & 0xffff)), 0)); }
uint32_t wb_mmx_pack565(uint32_t p) { uint64_t r = to_uint64(pack_565(load8888(&p), _mm_setzero_si64(), 0)); _mm_empty(); return (uint32_t)(r & 0xffff); }
uint32_t wb_c0565(uint32_t s) { return convert_0565_to_0888((uint16_t)s); }
uint32_t wb_c8888_0565(uint32_t p) { return convert_8888_to_0565(p); }
uint32_t wb_bilin(uint32_t tl, uint32_t tr, uint32_t bl, uint32_t br, int dx, int dy) { return bilinear_interpolation(tl, tr, bl, br, dx, dy); }

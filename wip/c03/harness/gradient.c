/* Correspondence harness of the gradient domain (C13).
 *
 *   gradient gen  <seed> <n> <mode> <ops_out> <impl_out> <oracle_out>
 *   gradient exec <ops_in> <impl_out>
 *
 * Request line (see lean/Driver/Gradient.lean):
 *   grad <kind> <wide> <rep> <W> <H> <sx> <sy> <mask> <hasT> [9 matrix] <geometry> <n> (x r g b a)*n [turns]
 * Every request is an OP_SRC pixman_image_composite32 from the gradient (source origin sx,sy) into a
 * W x H destination (a8r8g8b8 or rgba_float) prefilled with a sentinel; mask != 0: an a8 mask whose pixel
 * (x,y) is 0xff when bit ((5x + 11y) mod 64) of <mask> is set, else 0.
 * Reply line: "I <pixel>,<pixel>,...[ P <pixels> R <pixels>]" in row order (P: the same pixels fetched one by one with
 * 1x1 composites, R: fetched by a horizontally mirrored walk, printed un-mirrored; narrow, unmasked, no/affine transform;
 * O same | O diff:<count>:<index>:<over>:<src-then-over>:<src pixel>: OP_OVER of the gradient onto an opaque pattern
 * against OP_OVER of the SRC result; narrow, unmasked); narrow: 8 hex digits, wide: 4 x 8 hex digits (IEEE bits
 * of a r g b).   Modes of `gen`: 0 colour stream (non-decreasing stops in [0,1], conditioned geometry),
 * 1 safety stream (arbitrary stops, degenerate geometry; reply "ok"), 2 colour stream with short rows and
 * many stops on exact stop positions.
 * Each request line is flushed before the request runs; a CPU-time watchdog (ITIMER_VIRTUAL) turns a hang
 * into "HANG" + exit status 3, so the last request line of the ops file is the replay of a crash/hang. */
#include <stdio.h>
#include <stdlib.h>
#include <string.h>
#include <stdint.h>
#include <math.h>
#include <signal.h>
#include <unistd.h>
#include <sys/time.h>
#include "pixman.h"
#include "rng.h"

#define MAXSTOPS 16
typedef struct {
    int kind;               /* 0 lin, 1 rad, 2 con */
    int wide, rep, W, H, sx, sy;
    uint64_t mask;
    int hasT;
    int32_t m[9];
    int32_t geo[6];
    int n;
    pixman_gradient_stop_t stops[MAXSTOPS];
} req_t;

static const char *kindname[3] = { "lin", "rad", "con" };
static const int geon[3] = { 4, 6, 3 };
static FILE *impl_out;
static int watchdog_s = 20;

static void on_alarm (int sig)
{
    (void) sig;
    if (impl_out) { const char *m = "HANG\n"; if (write (fileno (impl_out), m, 5) < 0) {} }
    _exit (3);
}

static void arm (int s)
{
    struct itimerval it; memset (&it, 0, sizeof it); it.it_value.tv_sec = s;
    setitimer (ITIMER_VIRTUAL, &it, NULL);
}

/* ------------------------------------------------------------------ conical: atan2 / 2pi at each pixel */
static void turns_of (const req_t *q, int64_t *out)
{
    const long double twopi = 6.283185307179586476925286766559005768L;
    for (int j = 0; j < q->H; j++) {
        int64_t y = (int64_t) q->sy + j, x = q->sx;
        pixman_vector_t v;
        int ok = 1, affine = 1;
        v.vector[0] = (pixman_fixed_t) ((uint32_t) x << 16) + 0x8000;
        v.vector[1] = (pixman_fixed_t) ((uint32_t) y << 16) + 0x8000;
        v.vector[2] = 0x10000;
        if (q->hasT) {
            pixman_transform_t t; memcpy (t.matrix, q->m, sizeof t.matrix);
            ok = pixman_transform_point_3d (&t, &v);
            affine = q->m[6] == 0 && v.vector[2] == 0x10000;
        }
        for (int i = 0; i < q->W; i++) {
            long double X, Y;
            if (!ok) { out[j * q->W + i] = 0; continue; }
            if (!q->hasT || affine) {
                int64_t ux = q->hasT ? q->m[0] : 0x10000, uy = q->hasT ? q->m[3] : 0;
                X = (long double) ((int64_t) v.vector[0] - q->geo[0] + i * ux);
                Y = (long double) ((int64_t) v.vector[1] - q->geo[1] + i * uy);
            } else {
                __int128 rx = (int64_t) v.vector[0] + (int64_t) i * q->m[0];
                __int128 ry = (int64_t) v.vector[1] + (int64_t) i * q->m[3];
                __int128 rz = (int64_t) v.vector[2] + (int64_t) i * q->m[6];
                if (rz != 0) {
                    X = (long double) (rx * 65536 - (__int128) q->geo[0] * rz) / (long double) rz;
                    Y = (long double) (ry * 65536 - (__int128) q->geo[1] * rz) / (long double) rz;
                } else { X = -(long double) q->geo[0]; Y = -(long double) q->geo[1]; }
            }
            long double tau = atan2l (Y, X) / twopi;
            out[j * q->W + i] = llroundl (tau * 281474976710656.0L);
        }
    }
}

/* ------------------------------------------------------------------ printing / parsing */
static void print_req (FILE *f, const req_t *q, const int64_t *turns)
{
    fprintf (f, "grad %s %d %d %d %d %d %d %llu %d", kindname[q->kind], q->wide, q->rep, q->W, q->H, q->sx, q->sy,
             (unsigned long long) q->mask, q->hasT);
    if (q->hasT) for (int i = 0; i < 9; i++) fprintf (f, " %d", q->m[i]);
    for (int i = 0; i < geon[q->kind]; i++) fprintf (f, " %d", q->geo[i]);
    fprintf (f, " %d", q->n);
    for (int i = 0; i < q->n; i++)
        fprintf (f, " %d %u %u %u %u", q->stops[i].x, q->stops[i].color.red, q->stops[i].color.green,
                 q->stops[i].color.blue, q->stops[i].color.alpha);
    if (q->kind == 2 && turns) for (int i = 0; i < q->W * q->H; i++) fprintf (f, " %lld", (long long) turns[i]);
    fprintf (f, "\n");
    fflush (f);
}

static int parse_req (char *line, req_t *q)
{
    char *save = NULL, *t = strtok_r (line, " \n", &save);
    if (!t || strcmp (t, "grad")) return 0;
    t = strtok_r (NULL, " \n", &save); if (!t) return 0;
    q->kind = !strcmp (t, "lin") ? 0 : !strcmp (t, "rad") ? 1 : 2;
#define NEXT(dst, conv) do { t = strtok_r (NULL, " \n", &save); if (!t) return 0; dst = conv; } while (0)
    NEXT (q->wide, atoi (t)); NEXT (q->rep, atoi (t)); NEXT (q->W, atoi (t)); NEXT (q->H, atoi (t));
    NEXT (q->sx, atoi (t)); NEXT (q->sy, atoi (t)); NEXT (q->mask, strtoull (t, NULL, 10)); NEXT (q->hasT, atoi (t));
    if (q->hasT) for (int i = 0; i < 9; i++) NEXT (q->m[i], (int32_t) atoll (t));
    for (int i = 0; i < geon[q->kind]; i++) NEXT (q->geo[i], (int32_t) atoll (t));
    NEXT (q->n, atoi (t));
    if (q->n < 1 || q->n > MAXSTOPS || q->W < 1 || q->H < 1 || q->W * q->H > 100000) return 0;
    for (int i = 0; i < q->n; i++) {
        NEXT (q->stops[i].x, (int32_t) atoll (t));
        NEXT (q->stops[i].color.red, (uint16_t) atoi (t)); NEXT (q->stops[i].color.green, (uint16_t) atoi (t));
        NEXT (q->stops[i].color.blue, (uint16_t) atoi (t)); NEXT (q->stops[i].color.alpha, (uint16_t) atoi (t));
    }
    return 1;
}

/* ------------------------------------------------------------------ running one request */
static int mask_bit (uint64_t m, int x, int y) { return (int) ((m >> ((5 * x + 11 * y) & 63)) & 1); }

static void run_req (const req_t *q, FILE *out, int print_pixels)
{
    pixman_image_t *src = NULL, *dst, *mask = NULL;
    pixman_point_fixed_t p1, p2;
    int W = q->W, H = q->H;
    arm (watchdog_s);
    p1.x = q->geo[0]; p1.y = q->geo[1];
    if (q->kind == 0) {
        p2.x = q->geo[2]; p2.y = q->geo[3];
        src = pixman_image_create_linear_gradient (&p1, &p2, q->stops, q->n);
    } else if (q->kind == 1) {
        p2.x = q->geo[3]; p2.y = q->geo[4];
        src = pixman_image_create_radial_gradient (&p1, &p2, q->geo[2], q->geo[5], q->stops, q->n);
    } else {
        src = pixman_image_create_conical_gradient (&p1, q->geo[2], q->stops, q->n);
    }
    if (!src) { fprintf (out, "nosrc\n"); fflush (out); arm (0); return; }
    pixman_image_set_repeat (src, (pixman_repeat_t) q->rep);
    if (q->hasT) { pixman_transform_t t; memcpy (t.matrix, q->m, sizeof t.matrix); pixman_image_set_transform (src, &t); }
    size_t bpp = q->wide ? 16 : 4;
    uint32_t *bits = malloc ((size_t) W * H * bpp);
    /* sentinel: a pattern no gradient pixel produces by accident (wide: 3.14159f in every channel) */
    for (size_t i = 0; i < (size_t) W * H * bpp / 4; i++) bits[i] = q->wide ? 0x40490fdbu : 0x01fe02fdu;
    dst = pixman_image_create_bits (q->wide ? PIXMAN_rgba_float : PIXMAN_a8r8g8b8, W, H, bits, (int) (W * bpp));
    uint8_t *mbits = NULL;
    if (q->mask) {
        int stride = (W + 3) & ~3;
        mbits = calloc ((size_t) stride * H, 1);
        for (int y = 0; y < H; y++) for (int x = 0; x < W; x++) mbits[y * stride + x] = mask_bit (q->mask, x, y) ? 0xff : 0;
        mask = pixman_image_create_bits (PIXMAN_a8, W, H, (uint32_t *) mbits, stride);
    }
    pixman_image_composite32 (PIXMAN_OP_SRC, src, mask, dst, q->sx, q->sy, 0, 0, 0, 0, W, H);
    arm (0);
    if (print_pixels) {
        fputs ("I ", out);
        for (int i = 0; i < W * H; i++) {
            if (i) fputc (',', out);
            if (q->wide) {
                /* rgba_float memory order: r g b a */
                uint32_t *p = bits + 4 * (size_t) i;
                fprintf (out, "%08x%08x%08x%08x", p[3], p[0], p[1], p[2]);
            } else fprintf (out, "%08x", bits[i]);
        }
        /* OVER onto a non-empty destination against "SRC into a temporary (the pixels above), then OVER": pixels
         * without an admissible parameter are transparent and must keep the destination (guards the opacity flag of
         * the gradient image: a source wrongly taken for opaque turns OVER into SRC) */
        if (!q->wide && !q->mask) {
            uint32_t *o1 = malloc ((size_t) W * H * 4), *o2 = malloc ((size_t) W * H * 4);
            for (int i = 0; i < W * H; i++) o1[i] = o2[i] = 0xff000000u | ((uint32_t) (i * 2654435761u) >> 8);
            pixman_image_t *e1 = pixman_image_create_bits (PIXMAN_a8r8g8b8, W, H, o1, W * 4);
            pixman_image_t *e2 = pixman_image_create_bits (PIXMAN_a8r8g8b8, W, H, o2, W * 4);
            pixman_image_t *tmp = pixman_image_create_bits (PIXMAN_a8r8g8b8, W, H, bits, W * 4);
            arm (watchdog_s);
            pixman_image_composite32 (PIXMAN_OP_OVER, src, NULL, e1, q->sx, q->sy, 0, 0, 0, 0, W, H);
            pixman_image_composite32 (PIXMAN_OP_OVER, tmp, NULL, e2, 0, 0, 0, 0, 0, 0, W, H);
            arm (0);
            int bad = -1, nbad = 0;
            for (int i = 0; i < W * H; i++) if (o1[i] != o2[i]) { if (bad < 0) bad = i; nbad++; }
            if (bad < 0) fputs (" O same", out);
            else fprintf (out, " O diff:%d:%d:%08x:%08x:%08x", nbad, bad, o1[bad], o2[bad], bits[bad]);
            pixman_image_unref (e1); pixman_image_unref (e2); pixman_image_unref (tmp); free (o1); free (o2);
        }
        /* walker history independence (narrow, no mask, no or affine transform): the same pixels fetched one by
         * one (1x1 composites) and by a horizontally mirrored walk (source transform T o (x -> sx + W - x),
         * destination read back mirrored) */
        int64_t t02 = 0, t12 = 0, t22 = 0;
        int32_t *m = (int32_t *) q->m;
        int can = !q->wide && !q->mask && (!q->hasT || (m[6] == 0 && m[7] == 0));
        if (can) {
            int64_t k = (int64_t) q->sx + W;
            int64_t a00 = q->hasT ? m[0] : 65536, a10 = q->hasT ? m[3] : 0, a20 = q->hasT ? m[6] : 0;
            t02 = a00 * k + (q->hasT ? m[2] : 0); t12 = a10 * k + (q->hasT ? m[5] : 0); t22 = a20 * k + (q->hasT ? m[8] : 65536);
            if (t02 != (int32_t) t02 || t12 != (int32_t) t12 || t22 != (int32_t) t22 || k != (int16_t) k) can = 0;
        }
        if (can) {
            uint32_t one = 0;
            pixman_image_t *d1 = pixman_image_create_bits (PIXMAN_a8r8g8b8, 1, 1, &one, 4);
            fputs (" P ", out);
            arm (watchdog_s);
            for (int i = 0; i < W * H; i++) {
                one = 0x01fe02fdu;
                pixman_image_composite32 (PIXMAN_OP_SRC, src, NULL, d1, q->sx + i % W, q->sy + i / W, 0, 0, 0, 0, 1, 1);
                fprintf (out, "%s%08x", i ? "," : "", one);
            }
            pixman_image_unref (d1);
            pixman_transform_t t;
            if (q->hasT) memcpy (t.matrix, q->m, sizeof t.matrix); else pixman_transform_init_identity (&t);
            t.matrix[0][0] = -t.matrix[0][0]; t.matrix[1][0] = -t.matrix[1][0]; t.matrix[2][0] = -t.matrix[2][0];
            t.matrix[0][2] = (pixman_fixed_t) t02; t.matrix[1][2] = (pixman_fixed_t) t12; t.matrix[2][2] = (pixman_fixed_t) t22;
            pixman_image_set_transform (src, &t);
            uint32_t *b2 = malloc ((size_t) W * H * 4);
            for (int i = 0; i < W * H; i++) b2[i] = 0x01fe02fdu;
            pixman_image_t *d2 = pixman_image_create_bits (PIXMAN_a8r8g8b8, W, H, b2, W * 4);
            pixman_image_composite32 (PIXMAN_OP_SRC, src, NULL, d2, 0, q->sy, 0, 0, 0, 0, W, H);
            arm (0);
            fputs (" R ", out);
            for (int i = 0; i < W * H; i++) fprintf (out, "%s%08x", i ? "," : "", b2[(i / W) * W + (W - 1 - i % W)]);
            pixman_image_unref (d2); free (b2);
        }
        fputc ('\n', out);
    } else {
        /* touch every byte so that the sanitizer sees uninitialised/poisoned reads too */
        uint32_t acc = 0; for (size_t i = 0; i < (size_t) W * H * bpp / 4; i++) acc ^= bits[i];
        fprintf (out, "ok %08x\n", acc);
    }
    fflush (out);
    pixman_image_unref (src); pixman_image_unref (dst); if (mask) pixman_image_unref (mask);
    free (bits); free (mbits);
}

/* ------------------------------------------------------------------ generators */
static int32_t fx (double px) { return (int32_t) llround (px * 65536.0); }
static int32_t rnd_frac (void) { int k = rng_n (4); return k == 0 ? 0 : k == 1 ? 32768 : k == 2 ? rng_n (65536) : rng_n (16) * 4096; }
static int32_t rnd_coord (int lo, int hi) { return rng_range (lo, hi) * 65536 + rnd_frac (); }

static uint16_t rnd_chan (void)
{
    int k = rng_n (6);
    return k == 0 ? 0 : k == 1 ? 65535 : k == 2 ? 32768 : (uint16_t) rng_n (65536);
}

static void rnd_color (pixman_color_t *c)
{
    c->red = rnd_chan (); c->green = rnd_chan (); c->blue = rnd_chan ();
    int k = rng_n (5);
    c->alpha = k <= 1 ? 65535 : k == 2 ? 0 : rnd_chan ();
}

/* non-decreasing positions in [0,1]; distinct positions at least 1/64 apart; repeated positions frequent */
static void sorted_stops (req_t *q, int maxn)
{
    int n = 1 + rng_n (maxn);
    int pos[MAXSTOPS];
    int grid = rng_chance (50) ? 1024 : 4096;
    int lo = rng_chance (60) ? 0 : rng_n (65536 / grid / 2) * grid;
    int hi = rng_chance (60) ? 65536 : 65536 - rng_n (65536 / grid / 2) * grid;
    for (int i = 0; i < n; i++) pos[i] = lo + rng_n ((hi - lo) / grid + 1) * grid;
    if (n >= 2 && rng_chance (70)) { pos[0] = lo; pos[1] = hi; }
    if (n >= 3 && rng_chance (40)) pos[2] = pos[rng_n (2)];          /* forced repeat */
    for (int i = 1; i < n; i++) for (int j = i; j > 0 && pos[j - 1] > pos[j]; j--) { int t = pos[j]; pos[j] = pos[j - 1]; pos[j - 1] = t; }
    q->n = n;
    for (int i = 0; i < n; i++) { q->stops[i].x = pos[i]; rnd_color (&q->stops[i].color); }
}

static void arbitrary_stops (req_t *q)
{
    int n = 1 + rng_n (MAXSTOPS);
    q->n = n;
    for (int i = 0; i < n; i++) {
        int k = rng_n (8);
        int32_t x;
        if (k <= 2) x = rng_n (65537);                                /* in range, unsorted */
        else if (k == 3) x = rng_range (-4, 4) * 32768;
        else if (k == 4) x = (int32_t) rng_u32 () / 4;                /* far out of range, no overflow in the sentinel arithmetic */
        else if (k == 5) x = i ? q->stops[rng_n (i)].x : 0;           /* repeated */
        else if (k == 6) x = rng_chance (50) ? INT32_MAX - 2 * 65536 : INT32_MIN + 2 * 65536 + 1;
        else x = rng_range (-200000, 200000);
        q->stops[i].x = x;
        rnd_color (&q->stops[i].color);
    }
}

static void conditioned_transform (req_t *q, int W, int H)
{
    int k = rng_n (100);
    q->hasT = 1;
    memset (q->m, 0, sizeof q->m);
    q->m[0] = q->m[4] = q->m[8] = 65536;
    if (k < 35) { q->hasT = 0; return; }
    if (k < 40) return;                                               /* identity matrix */
    if (k < 50) { q->m[2] = rnd_coord (-30, 30); q->m[5] = rnd_coord (-30, 30); return; }  /* translation */
    double sx = (rng_chance (50) ? 1 : -1) * (0.25 + rng_n (1000) / 1000.0 * 2.75), sy = (rng_chance (50) ? 1 : -1) * (0.25 + rng_n (1000) / 1000.0 * 2.75);
    double a = rng_n (3600) / 3600.0 * 6.283185307179586;
    if (rng_chance (30)) a = rng_n (4) * 1.5707963267948966;
    double sh = rng_chance (30) ? (rng_n (200) - 100) / 100.0 : 0;
    q->m[0] = fx (cos (a) * sx); q->m[1] = fx (-sin (a) * sy + sh * cos (a) * sx); q->m[2] = rnd_coord (-30, 30);
    q->m[3] = fx (sin (a) * sx); q->m[4] = fx (cos (a) * sy + sh * sin (a) * sx); q->m[5] = rnd_coord (-30, 30);
    if (k < 75) return;                                               /* affine */
    if (k < 80) { q->m[8] = rng_chance (50) ? 32768 : 131072; return; }  /* affine, homogeneous scale */
    if (k < 95) {                                                     /* projective, w stays in [0.4, 2] over the drawn area */
        int lim = (int) (0.5 * 65536 / (W + H + 60));
        q->m[6] = rng_range (-lim, lim); q->m[7] = rng_range (-lim, lim);
        if (rng_chance (30)) q->m[8] = 65536 + rng_range (-3000, 3000);
        return;
    }
    /* singular: rank one / zero linear part (w = 1) */
    if (rng_chance (50)) { q->m[3] = q->m[0]; q->m[4] = q->m[1]; }
    else { q->m[0] = q->m[1] = q->m[3] = q->m[4] = 0; }
}

static void gen_color_req (req_t *q, int mode)
{
    memset (q, 0, sizeof *q);
    int k = rng_n (100);
    q->kind = k < 40 ? 0 : k < 75 ? 1 : 2;
    q->wide = rng_chance (30);
    q->rep = rng_n (4);
    if (mode == 2) { q->W = rng_range (16, 40); q->H = rng_range (1, 2); }
    else { q->W = rng_chance (80) ? rng_range (16, 72) : rng_range (73, 240); q->H = rng_chance (50) ? 1 : rng_range (2, 4); }
    q->sx = rng_chance (50) ? 0 : rng_range (-20, 20);
    q->sy = rng_chance (50) ? 0 : rng_range (-20, 20);
    q->mask = rng_chance (15) ? (rng_u64 () | 1) : 0;
    conditioned_transform (q, q->W, q->H);
    sorted_stops (q, mode == 2 ? 8 : 6);
    int W = q->W;
    if (q->kind == 0) {
        for (;;) {
            q->geo[0] = rnd_coord (-10, W + 10); q->geo[1] = rnd_coord (-10, 20);
            q->geo[2] = rnd_coord (-10, W + 10); q->geo[3] = rng_chance (30) ? q->geo[1] : rnd_coord (-10, 20);
            if (rng_chance (15)) q->geo[2] = q->geo[0];                                  /* vertical */
            if (rng_chance (4)) { q->geo[2] = q->geo[0]; q->geo[3] = q->geo[1]; break; } /* coincident points */
            double dx = (q->geo[2] - q->geo[0]) / 65536.0, dy = (q->geo[3] - q->geo[1]) / 65536.0;
            if (dx * dx + dy * dy >= 16.0) break;                                        /* at least 4 px long */
        }
        if (mode == 2) {
            /* the parameter of every pixel is computed exactly by the library and lands on the stop grid: p1 at a
             * pixel centre (of the transformed grid), horizontal, length a power of two; no transform or a dyadic
             * affine one (scale +-1/2, +-1, +-2, whole or half pixel translation): pixel centres hit stop positions
             * exactly, walking up and down */
            int sc[6] = { 65536, -65536, 32768, -32768, 131072, -131072 };
            q->hasT = rng_chance (60);
            memset (q->m, 0, sizeof q->m);
            q->m[0] = sc[rng_n (6)]; q->m[4] = 65536; q->m[8] = 65536;
            q->m[2] = rng_range (-8, 40) * 32768; q->m[5] = rng_range (-4, 4) * 32768;
            int64_t m00 = q->hasT ? q->m[0] : 65536, m02 = q->hasT ? q->m[2] : 0;
            int x0 = q->sx + rng_range (0, 8);                       /* the pixel whose centre is p1 */
            int64_t cx = (m00 * (2 * (int64_t) x0 + 1)) / 2 + m02;   /* transformed centre, 16.16 */
            q->geo[0] = (int32_t) cx; q->geo[1] = q->geo[3] = rng_range (-2, 3) * 32768;
            int len = (4 << rng_n (4)) * 65536;                      /* 4, 8, 16, 32 px */
            q->geo[2] = q->geo[0] + (rng_chance (50) ? len : -len);
        }
    } else if (q->kind == 1) {
        int c = rng_n (100);
        q->geo[0] = rnd_coord (-10, W + 10); q->geo[1] = rnd_coord (-10, 20); q->geo[2] = rnd_coord (0, 40);
        q->geo[3] = rnd_coord (-10, W + 10); q->geo[4] = rnd_coord (-10, 20); q->geo[5] = rnd_coord (0, 60);
        if (c < 25) { q->geo[3] = q->geo[0]; q->geo[4] = q->geo[1]; }                    /* concentric */
        else if (c < 35) q->geo[2] = 0;                                                  /* inner radius 0 */
        else if (c < 45) q->geo[5] = q->geo[2];                                          /* cylinder */
        else if (c < 55) {                                                               /* a = 0: |d| = |dr| (3-4-5) */
            int s = rng_range (1, 6) * 65536 / 2;
            q->geo[3] = q->geo[0] + 3 * s * (rng_chance (50) ? 1 : -1); q->geo[4] = q->geo[1] + 4 * s * (rng_chance (50) ? 1 : -1);
            q->geo[2] = rnd_coord (0, 20); q->geo[5] = q->geo[2] + 5 * s;
            if (rng_chance (40)) { int t = q->geo[2]; q->geo[2] = q->geo[5]; q->geo[5] = t; }
            /* touching circles leave a half plane without admissible parameter: with opaque stops only the
             * geometry makes the image translucent */
            if (rng_chance (50)) for (int i = 0; i < q->n; i++) q->stops[i].color.alpha = 65535;
        }
        else if (c < 60) { q->geo[3] = q->geo[0]; q->geo[4] = q->geo[1]; q->geo[5] = q->geo[2]; }  /* equal circles */
        else if (c < 65) { q->geo[2] = q->geo[5] = 0; }                                  /* both radii 0 */
        else if (c < 72) { q->geo[5] = 0; }                                              /* outer radius 0 */
        /* keep |a| away from tiny non-zero values: the code's root formula is unstable there (its own comment) */
        for (int guard = 0; guard < 50; guard++) {
            double dx = (q->geo[3] - q->geo[0]) / 65536.0, dy = (q->geo[4] - q->geo[1]) / 65536.0, dr = (q->geo[5] - q->geo[2]) / 65536.0;
            double a = dx * dx + dy * dy - dr * dr;
            if (a == 0 || fabs (a) >= 1.0) break;
            q->geo[5] += 65536 * 3;
        }
    } else {
        q->geo[0] = rnd_coord (-5, W + 5); q->geo[1] = rnd_coord (-5, 10);
        int c = rng_n (5);
        q->geo[2] = c == 0 ? 0 : c == 1 ? rng_range (-8, 8) * 45 * 65536 : c == 2 ? (int32_t) rng_u32 () : rng_range (-720, 720) * 65536 + rnd_frac ();
    }
}

static void gen_safety_req (req_t *q)
{
    memset (q, 0, sizeof *q);
    q->kind = rng_n (3);
    q->wide = rng_chance (35);
    q->rep = rng_n (4);
    q->W = rng_range (1, 48); q->H = rng_range (1, 3);
    q->sx = rng_chance (70) ? rng_range (-40, 40) : rng_range (-30000, 30000);
    q->sy = rng_chance (70) ? rng_range (-40, 40) : rng_range (-30000, 30000);
    q->mask = rng_chance (25) ? rng_u64 () : 0;
    arbitrary_stops (q);
    q->hasT = rng_chance (65);
    if (q->hasT) {
        int c = rng_n (6);
        for (int i = 0; i < 9; i++) {
            int k = rng_n (6);
            q->m[i] = k == 0 ? 0 : k == 1 ? 65536 : k == 2 ? -65536 : k == 3 ? rng_range (-300, 300) : k == 4 ? rng_range (-(1 << 20), 1 << 20) : rng_range (-4, 4) * 65536;
        }
        if (c == 0) memset (q->m, 0, sizeof q->m);                                        /* zero matrix */
        if (c == 1) { q->m[6] = q->m[7] = q->m[8] = 0; }                                  /* w = 0 everywhere */
        if (c == 2) { q->m[3] = q->m[0]; q->m[4] = q->m[1]; q->m[5] = q->m[2]; }          /* rank deficient */
        if (c == 3) { q->m[6] = -655; q->m[7] = 0; q->m[8] = 65536; }                     /* w crosses zero inside the row */
    }
    for (int i = 0; i < 6; i++) {
        int k = rng_n (7);
        q->geo[i] = k == 0 ? 0 : k == 1 ? rnd_coord (-50, 50) : k == 2 ? rng_range (-3, 3) : k == 3 ? (i ? q->geo[rng_n (i)] : 0)
                  : k == 4 ? rng_range (-(1 << 28), 1 << 28) : k == 5 ? -rnd_coord (0, 50) : rnd_coord (0, 50);
    }
    int d = rng_n (10);
    if (q->kind == 0 && d < 3) { q->geo[2] = q->geo[0]; q->geo[3] = q->geo[1]; }
    if (q->kind == 1 && d < 2) { q->geo[3] = q->geo[0]; q->geo[4] = q->geo[1]; q->geo[5] = q->geo[2]; }
    if (q->kind == 1 && d == 2) { q->geo[2] = q->geo[5] = 0; }
    if (q->kind == 1 && d == 3) { q->geo[3] = q->geo[0]; q->geo[4] = q->geo[1]; }
    if (q->kind == 2 && d < 3) q->geo[2] = (int32_t) rng_u32 ();
}

int main (int argc, char **argv)
{
    struct sigaction sa; memset (&sa, 0, sizeof sa); sa.sa_handler = on_alarm; sigaction (SIGVTALRM, &sa, NULL);
    if (getenv ("GRADIENT_WATCHDOG")) watchdog_s = atoi (getenv ("GRADIENT_WATCHDOG"));
    if (argc >= 8 && !strcmp (argv[1], "gen")) {
        uint64_t seed = strtoull (argv[2], NULL, 10);
        int n = atoi (argv[3]), mode = atoi (argv[4]);
        FILE *ops = fopen (argv[5], "w"); impl_out = fopen (argv[6], "w"); FILE *orc = fopen (argv[7], "w");
        if (!ops || !impl_out || !orc) return 2;
        rng_seed (seed * 4 + (uint64_t) mode);
        int64_t *turns = malloc (sizeof (int64_t) * 100000);
        for (int i = 0; i < n; i++) {
            req_t q;
            if (mode == 1) gen_safety_req (&q); else gen_color_req (&q, mode);
            if (q.kind == 2) turns_of (&q, turns);
            print_req (ops, &q, turns);
            run_req (&q, impl_out, mode != 1);
        }
        fclose (ops); fclose (impl_out); fclose (orc); free (turns);
        return 0;
    }
    if (argc >= 4 && !strcmp (argv[1], "exec")) {
        FILE *ops = fopen (argv[2], "r"); impl_out = fopen (argv[3], "w");
        if (!ops || !impl_out) return 2;
        size_t cap = 1 << 22; char *line = malloc (cap);
        int safety = getenv ("GRADIENT_SAFETY") != NULL;
        while (fgets (line, (int) cap, ops)) {
            req_t q; memset (&q, 0, sizeof q);
            if (line[0] == '#' || line[0] == '\n') { fprintf (impl_out, "skip\n"); continue; }
            if (!parse_req (line, &q)) { fprintf (impl_out, "bad-request\n"); fflush (impl_out); continue; }
            run_req (&q, impl_out, !safety);
        }
        fclose (impl_out); fclose (ops); free (line);
        return 0;
    }
    /* `turns <ops_in> <ops_out>`: rewrite conical requests with freshly computed turns (corpus maintenance) */
    if (argc >= 4 && !strcmp (argv[1], "turns")) {
        FILE *ops = fopen (argv[2], "r"); FILE *out = fopen (argv[3], "w");
        if (!ops || !out) return 2;
        size_t cap = 1 << 22; char *line = malloc (cap);
        int64_t *turns = malloc (sizeof (int64_t) * 100000);
        while (fgets (line, (int) cap, ops)) {
            req_t q; memset (&q, 0, sizeof q);
            if (line[0] == '#' || !parse_req (line, &q)) { continue; }
            if (q.kind == 2) turns_of (&q, turns);
            print_req (out, &q, turns);
        }
        fclose (out); fclose (ops); free (line); free (turns);
        return 0;
    }
    fprintf (stderr, "usage: gradient gen <seed> <n> <mode> <ops> <impl> <oracle> | exec <ops> <impl> | turns <in> <out>\n");
    return 2;
}

/* Kernel correspondence for C02 (domain `simd`): the library's own static inline SIMD kernels
 * (reached through the white-box translation units simd_wb_*.c, which #include pixman-sse2.c,
 * pixman-mmx.c and pixman-ssse3.c from /repo) and the scalar references of pixman-private.h /
 * pixman-inlines.h are evaluated on edge-biased random lane/pixel inputs.
 *   simdkern gen <seed> <n> <ops_out> <impl_out>
 *   simdkern exec <ops_in> <impl_out>
 * Line: `k <kernel> <ints...>`; reply: the kernel's result (decimal). */
#include <stdio.h>
#include <stdlib.h>
#include <string.h>
#include <stdint.h>
#include "rng.h"
#include "simd_wb.h"

static const char *K[] = { "pixmul", "mmx_pixmul", "negate", "expand_alpha", "expand_alpha_rev", "over", "over_pixel", "in_over", "addmul",
    "mmx_negate", "mmx_expand_alpha", "mmx_over", "mmx_in_over", "mmx_addmul", "unpack565", "pack565", "pack565v", "mmx_expand565",
    "mmx_pack565", "c0565", "c8888_0565", "bilin", "sse2_bilin", "ssse3_h" };
#define NK ((int)(sizeof K / sizeof K[0]))

static int eval(const char *k, const unsigned long long *a, int n, unsigned long long *out)
{
#define IS(s, c) (!strcmp(k, s) && n == (c))
    if (IS("pixmul", 2)) *out = wb_sse2_pixmul((uint32_t)a[0], (uint32_t)a[1]);
    else if (IS("mmx_pixmul", 2)) *out = wb_mmx_pixmul((uint32_t)a[0], (uint32_t)a[1]);
    else if (IS("negate", 1)) *out = wb_sse2_negate((uint32_t)a[0]);
    else if (IS("expand_alpha", 1)) *out = wb_sse2_expand_alpha((uint32_t)a[0]);
    else if (IS("expand_alpha_rev", 1)) *out = wb_sse2_expand_alpha_rev((uint32_t)a[0]);
    else if (IS("over", 3)) *out = wb_sse2_over((uint32_t)a[0], (uint32_t)a[1], (uint32_t)a[2]);
    else if (IS("over_pixel", 2)) *out = wb_sse2_over_pixel((uint32_t)a[0], (uint32_t)a[1]);
    else if (IS("in_over", 4)) *out = wb_sse2_in_over((uint32_t)a[0], (uint32_t)a[1], (uint32_t)a[2], (uint32_t)a[3]);
    else if (IS("addmul", 4)) *out = wb_sse2_addmul((uint32_t)a[0], (uint32_t)a[1], (uint32_t)a[2], (uint32_t)a[3]);
    else if (IS("mmx_negate", 1)) *out = wb_mmx_negate((uint32_t)a[0]);
    else if (IS("mmx_expand_alpha", 1)) *out = wb_mmx_expand_alpha((uint32_t)a[0]);
    else if (IS("mmx_over", 3)) *out = wb_mmx_over((uint32_t)a[0], (uint32_t)a[1], (uint32_t)a[2]);
    else if (IS("mmx_in_over", 4)) *out = wb_mmx_in_over((uint32_t)a[0], (uint32_t)a[1], (uint32_t)a[2], (uint32_t)a[3]);
    else if (IS("mmx_addmul", 4)) *out = wb_mmx_addmul((uint32_t)a[0], (uint32_t)a[1], (uint32_t)a[2], (uint32_t)a[3]);
    else if (IS("unpack565", 1)) *out = wb_sse2_unpack565((uint32_t)a[0]);
    else if (IS("pack565", 1)) *out = wb_sse2_pack565((uint32_t)a[0]);
    else if (IS("pack565v", 1)) *out = wb_sse2_pack565v((uint32_t)a[0]);
    else if (IS("mmx_expand565", 1)) *out = wb_mmx_expand565((uint32_t)a[0]);
    else if (IS("mmx_pack565", 1)) *out = wb_mmx_pack565((uint32_t)a[0]);
    else if (IS("c0565", 1)) *out = wb_c0565((uint32_t)a[0]);
    else if (IS("c8888_0565", 1)) *out = wb_c8888_0565((uint32_t)a[0]);
    else if (IS("bilin", 6)) *out = wb_bilin((uint32_t)a[0], (uint32_t)a[1], (uint32_t)a[2], (uint32_t)a[3], (int)a[4], (int)a[5]);
    else if (IS("sse2_bilin", 7)) *out = wb_sse2_bilin((uint32_t)a[0], (uint32_t)a[1], (uint32_t)a[2], (uint32_t)a[3], (int)a[4], (int)a[5], (int)a[6]);
    else if (IS("ssse3_h", 3)) *out = wb_ssse3_h((uint32_t)a[0], (uint32_t)a[1], (int)a[2]);
    else return 0;
    return 1;
}

static uint32_t edge8(void) { static const uint32_t E[] = { 0, 255, 1, 254, 127, 128, 129, 16, 240 }; return rng_chance(55) ? E[rng_n(9)] : (uint32_t)rng_n(256); }
static uint32_t pixel(void) { uint32_t p = edge8() << 24 | edge8() << 16 | edge8() << 8 | edge8(); if (rng_chance(10)) p = rng_chance(50) ? 0 : 0xffffffffu; return p; }
static uint32_t lane(void) { return rng_chance(75) ? edge8() : rng_chance(50) ? (uint32_t)rng_n(65536) : (rng_chance(50) ? 0xffff : 0x8000 + (uint32_t)rng_n(3) - 1); }

int main(int argc, char **argv)
{
    wb_sse2_init();
    if (argc >= 6 && !strcmp(argv[1], "gen")) {
        FILE *fo = fopen(argv[4], "w"), *fi = fopen(argv[5], "w"); long n = atol(argv[3]), i;
        if (!fo || !fi) return 3;
        rng_seed(strtoull(argv[2], NULL, 10) ^ 0x51d51d);
        for (i = 0; i < n; i++) {
            const char *k = K[i % NK]; unsigned long long a[8], out = 0; int na = 0, j;
            if (strstr(k, "pixmul")) { a[0] = lane(); a[1] = lane(); na = 2; }
            else if (!strcmp(k, "unpack565") || !strcmp(k, "mmx_expand565") || !strcmp(k, "c0565")) { a[0] = rng_chance(20) ? (rng_chance(50) ? 0 : 0xffff) : (uint32_t)rng_n(65536); na = 1; }
            else if (!strcmp(k, "bilin")) { for (j = 0; j < 4; j++) a[j] = pixel(); a[4] = rng_chance(20) ? (rng_chance(50) ? 0 : 127) : rng_n(128); a[5] = rng_chance(20) ? (rng_chance(50) ? 0 : 127) : rng_n(128); na = 6; }
            else if (!strcmp(k, "sse2_bilin")) { int dy = rng_chance(20) ? (rng_chance(50) ? 0 : 127) : rng_n(128); for (j = 0; j < 4; j++) a[j] = pixel();
                if (dy == 0 && rng_chance(50)) { a[4] = a[5] = 64; } else { a[4] = 128 - dy; a[5] = dy; }
                a[6] = rng_chance(20) ? (rng_chance(50) ? (uint32_t)rng_n(512) : 65535 - (uint32_t)rng_n(512)) : (uint32_t)rng_n(65536); na = 7; }
            else if (!strcmp(k, "ssse3_h")) { a[0] = pixel(); a[1] = pixel(); a[2] = rng_chance(20) ? (rng_chance(50) ? (uint32_t)rng_n(512) : 65535 - (uint32_t)rng_n(512)) : (uint32_t)rng_n(65536); na = 3; }
            else { na = (!strcmp(k, "over") || !strcmp(k, "mmx_over")) ? 3 : (strstr(k, "in_over") || strstr(k, "addmul")) ? 4 : !strcmp(k, "over_pixel") ? 2 : 1;
                   for (j = 0; j < na; j++) a[j] = pixel(); }
            if (!eval(k, a, na, &out)) return 4;
            fprintf(fo, "k %s", k); for (j = 0; j < na; j++) fprintf(fo, " %llu", a[j]); fputc('\n', fo);
            fprintf(fi, "%llu\n", out);
        }
        fclose(fo); fclose(fi);
        return 0;
    }
    if (argc >= 4 && !strcmp(argv[1], "exec")) {
        FILE *fo = fopen(argv[2], "r"), *fi = fopen(argv[3], "w"); char line[1024];
        if (!fo || !fi) return 3;
        while (fgets(line, sizeof line, fo)) {
            char name[64]; unsigned long long a[8], out = 0; int na = 0, off = 0, k2;
            if (sscanf(line, "k %63s%n", name, &off) < 1) { fprintf(fi, "bad-request\n"); continue; }
            while (na < 8 && sscanf(line + off, "%llu%n", &a[na], &k2) == 1) { off += k2; na++; }
            if (eval(name, a, na, &out)) fprintf(fi, "%llu\n", out); else fprintf(fi, "bad-request\n");
        }
        fclose(fo); fclose(fi);
        return 0;
    }
    fprintf(stderr, "usage: simdkern gen <seed> <n> <ops> <impl> | exec <ops> <impl>\n");
    return 2;
}

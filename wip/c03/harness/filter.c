/* Correspondence + oracle harness for C18 (separable-convolution filter tables).
 *
 *   filter gen  <seed> <tier 0|1> <part> <nparts> <creates_out> <ops_out> <impl_out> <oracle_out>
 *   filter exec <creates_in> <ops_out> <impl_out> <oracle_out>
 *   filter san  <creates_in> <out>              (sanitizer build: one forked child per request)
 *
 * A request is `create rx sx scale_x bits_x ry sy scale_y bits_y` (kernel numbers of pixman_kernel_t, scales
 * as raw 16.16 integers).  For every request the harness calls the public
 * pixman_filter_create_separable_convolution of the freshly built library (its malloc is wrapped: the block
 * and GUARD cells behind it are pre-filled with a canary, so writes outside the block and cells that were
 * never written are observable in the plain build) and pixman_image_set_filter, and writes, in ops/impl:
 *
 *   create ...                     impl: n_values p0 p1 p2 p3 accepted
 *   x1s <w> <bits>                 impl: first tap position x1 of every phase (ceil hook of the white-box unit)
 *   block wx bx wy by g ng <raw x> <pre x> <raw y> <pre y>
 *                                  impl: cells 4..n_values-1 of the library's block, `G`, the guard cells
 *
 * `raw`/`pre` are the values of `floor(c*65536+.5)` and of `floor(v+.5)` (the normalised coefficient BEFORE the
 * residual is added) observed by harness/filter_wb.c while the static create_1d_filter of /repo runs on the same
 * arguments; the harness checks that that run produced the same table as the library.
 *
 * Oracle (independent of the Lean model), one `ORACLE <line of the create request> <symptom> [<cause>] <text>` per
 * failure (cause: width0, zero-total-phase, width>=32768, taps>=258 when the request is of that kind and the symptom is
 * one that kind explains, otherwise the kernel pairs):
 * allocated length == announced length, header describes the tables, every phase sums to 65536, no canary
 * behind the block disturbed, no cell left unwritten, set_filter accepts, for every pair of phases the
 * separable-convolution arithmetic keeps every constant 8-bit colour (sum of the rounded products), and two
 * real composites of a constant image (affine fast path / general path) stay constant.
 * `TAG <line> <tags>` classifies the request, `STAT <n> <what>` are counters. */
#define _GNU_SOURCE
#include <stdio.h>
#include <stdlib.h>
#include <string.h>
#include <stdint.h>
#include <math.h>
#include <unistd.h>
#include <sys/wait.h>
#include "pixman.h"
#include "rng.h"

#define GUARD 4
#define CANARY32 ((int32_t) 0xA5A5A5A5)

/* ------------------------------------------------------------------ malloc wrap (plain build only) */
#ifndef FILTER_SAN
void *__real_malloc (size_t);
static int track, ntracked;
static size_t last_size;
void *__wrap_malloc (size_t n)
{
    if (!track)
	return __real_malloc (n);
    void *p = __real_malloc (n + GUARD * 4);
    if (!p)
	return NULL;
    memset (p, 0xA5, n + GUARD * 4);
    last_size = n;
    ntracked++;
    return p;
}

extern double *wb_floor_trace; extern long wb_floor_n;
extern double *wb_ceil_trace;  extern long wb_ceil_n;
void wb_reset (void);
int wb_n_kernels (void);
double wb_kernel_width (int k);
int wb_kernel_id (int k);
int wb_filter_width (int reconstruct, int sample, double size);
void wb_create_1d (int width, int reconstruct, int sample, double scale, int n_phases, int32_t *p);
#endif

typedef struct { int r, s, scale, bits; } axis_t;
typedef struct { axis_t a[2]; } case_t;

static long lineno;			/* lines written to ops so far */
static FILE *fops, *fimpl, *forc;
static long st_maxdelta_small, st_nowrap_bad;
static long st_cases, st_null, st_layout_only, st_composites, st_pairs, st_maxdelta, st_phases, st_cells;
static long st_w0, st_zt, st_wrap, st_ubcast, st_neg;
static long TEXTCAP = 20000;

static const int64_t kw_indep[8] = { 0, 1, 2, 4, 5, 4, 6, 8 };	/* only used to tag shapes, never to judge */

static int64_t
width_indep (int r, int s, int scale)
{
    int64_t a = scale < 0 ? -(int64_t) scale : scale;
    return (kw_indep[r] * 65536 + a * kw_indep[s] + 65535) / 65536;
}

#ifndef FILTER_SAN
static int32_t
cast_fixed (double d, int *ub)
{
    if (isnan (d) || d >= 2147483648.0 || d < -2147483648.0)
	*ub = 1;
    return (int32_t) d;		/* what the compiled library does as well (undefined in C when *ub) */
}

/* one axis through the white-box unit; returns 0 when the trace has not the expected shape */
typedef struct
{
    int w, n;			/* width, number of phases */
    int32_t *tab;		/* w*n cells + GUARD */
    int32_t *raw, *pre;		/* w*n each */
    int32_t *x1;		/* n */
    int ub, zero_total, shape_ok;
    long nowrap_bad;		/* phases outside the NoWrap hypothesis of theorem W1 */
} wbaxis_t;

static void
wb_axis (wbaxis_t *A, axis_t ax)
{
    double size = fabs (ax.scale / 65536.0);
    long cells, i;
    memset (A, 0, sizeof *A);
    wb_reset ();
    A->w = wb_filter_width (ax.r, ax.s, size);
    A->n = 1 << ax.bits;
    if (A->w < 0)
	A->w = 0;
    cells = (long) A->w * A->n;
    A->tab = malloc ((cells + GUARD) * 4);
    A->raw = malloc ((cells + 1) * 4);
    A->pre = malloc ((cells + 1) * 4);
    A->x1 = malloc (A->n * 4);
    for (i = 0; i < cells + GUARD; i++)
	A->tab[i] = CANARY32;
    wb_reset ();
    wb_create_1d (A->w, ax.r, ax.s, size, A->n, A->tab);
    A->shape_ok = (wb_floor_n == 2 * cells && wb_ceil_n == A->n);
    if (!A->shape_ok)
	return;
    for (i = 0; i < A->n; i++)
    {
	int k, allzero = 1;
	A->x1[i] = (int32_t) wb_ceil_trace[i];
	for (k = 0; k < A->w; k++)
	{
	    A->raw[i * A->w + k] = cast_fixed (wb_floor_trace[2 * i * A->w + k], &A->ub);
	    A->pre[i * A->w + k] = cast_fixed (wb_floor_trace[2 * i * A->w + A->w + k], &A->ub);
	    if (A->raw[i * A->w + k])
		allzero = 0;
	}
	if (allzero && A->w > 0)
	    A->zero_total = 1;
	{   /* NoWrap (lean/Pixman/Lemmas/FilterTable.lean): prefix sums, 65536 - total and the corrected first cell fit int32 */
	    int64_t s = 0; int bad = 0;
	    for (k = 0; k < A->w; k++)
	    {
		s += A->pre[i * A->w + k];
		if (s < INT32_MIN || s > INT32_MAX) bad = 1;
	    }
	    if (65536 - s < INT32_MIN || 65536 - s > INT32_MAX) bad = 1;
	    if (A->w > 0 && (A->pre[i * A->w] + 65536 - s < INT32_MIN || A->pre[i * A->w] + 65536 - s > INT32_MAX)) bad = 1;
	    A->nowrap_bad += bad;
	    if (bad && !allzero) A->nowrap_bad += 1000000;	/* would be news: only all-zero phases are expected here */
	}
    }
}

static void
wb_free (wbaxis_t *A)
{
    free (A->tab); free (A->raw); free (A->pre); free (A->x1);
}

static const char *
shape_of (const case_t *c, const wbaxis_t *X, const wbaxis_t *Y)
{
    static char buf[128];
    (void) X; (void) Y;
    snprintf (buf, sizeof buf, "kernels %d.%d/%d.%d", c->a[0].r, c->a[0].s, c->a[1].r, c->a[1].s);
    return buf;
}

/* the arithmetic of bits_image_fetch_pixel_separable_convolution / ..._affine on a constant image */
static int64_t
weight_sum (const int32_t *fx, int w, const int32_t *fy, int h)
{
    int64_t s = 0;
    int i, j;
    for (i = 0; i < h; i++)
	if (fy[i])
	    for (j = 0; j < w; j++)
		if (fx[j])
		    s += ((int64_t) fy[i] * fx[j] + 0x8000) >> 16;
    return s;
}

static int
composite_constant (const int32_t *params, int nv, const case_t *c, int general, uint32_t colour, uint32_t *bad)
{
    enum { SW = 5, SH = 7, DW = 24, DH = 6 };
    uint32_t src[SW * SH], dst[DW * DH];
    pixman_image_t *s, *d;
    pixman_transform_t t;
    int i, ok = 1;
    int64_t sx = llabs ((int64_t) c->a[0].scale), sy = llabs ((int64_t) c->a[1].scale);
    if (sx > 8 * 65536 || sx < 64) sx = 65536 + 4660;
    if (sy > 8 * 65536 || sy < 64) sy = 65536 - 22136;
    for (i = 0; i < SW * SH; i++) src[i] = colour;
    for (i = 0; i < DW * DH; i++) dst[i] = ~colour;
    s = pixman_image_create_bits (PIXMAN_a8r8g8b8, SW, SH, src, SW * 4);
    d = pixman_image_create_bits (PIXMAN_a8r8g8b8, DW, DH, dst, DW * 4);
    pixman_transform_init_identity (&t);
    t.matrix[0][0] = sx; t.matrix[1][1] = sy;
    t.matrix[0][2] = 4099 * 7; t.matrix[1][2] = -65536 * 3 + 333;
    if (general)
    {
	int k, l;		/* the same map written projectively: the affine fast path does not apply */
	for (k = 0; k < 3; k++) for (l = 0; l < 3; l++) t.matrix[k][l] *= 2;
    }
    pixman_image_set_transform (s, &t);
    pixman_image_set_repeat (s, PIXMAN_REPEAT_NORMAL);
    if (!pixman_image_set_filter (s, PIXMAN_FILTER_SEPARABLE_CONVOLUTION, params, nv))
	ok = -1;
    else
    {
	pixman_image_composite32 (PIXMAN_OP_SRC, s, NULL, d, 0, 0, 0, 0, 0, 0, DW, DH);
	for (i = 0; i < DW * DH; i++)
	    if (dst[i] != colour)
	    {
		ok = 0;
		*bad = dst[i];
		break;
	    }
    }
    pixman_image_unref (s);
    pixman_image_unref (d);
    return ok;
}

static void
run_case (const case_t *c)
{
    const axis_t *ax = &c->a[0], *ay = &c->a[1];
    int nv = -12345, acc, i;
    int32_t *p;
    long req;
    wbaxis_t X, Y;
    const char *shape;
    char tags[128] = "";
    int nfail = 0;

    fprintf (fops, "create %d %d %d %d %d %d %d %d\n", ax->r, ax->s, ax->scale, ax->bits, ay->r, ay->s, ay->scale, ay->bits);
    req = ++lineno;
    st_cases++;

    ntracked = 0;
    track = 1;
    p = pixman_filter_create_separable_convolution (&nv, ax->scale, ay->scale, ax->r, ay->r, ax->s, ay->s, ax->bits, ay->bits);
    track = 0;
    if (!p)
    {
	fprintf (fimpl, "NULL\n");
	st_null++;
	return;
    }
    {
	pixman_image_t *img;
	uint32_t px[4] = { 0, 0, 0, 0 };
	img = pixman_image_create_bits (PIXMAN_a8r8g8b8, 2, 2, px, 8);
	acc = pixman_image_set_filter (img, PIXMAN_FILTER_SEPARABLE_CONVOLUTION, p, nv) ? 1 : 0;
	pixman_image_unref (img);
    }
    fprintf (fimpl, "%d %d %d %d %d %d\n", nv, p[0], p[1], p[2], p[3], acc);

    wb_axis (&X, *ax);
    wb_axis (&Y, *ay);
    shape = shape_of (c, &X, &Y);
    if (X.w == 0) strcat (tags, " w0x");
    if (Y.w == 0) strcat (tags, " w0y");
    if (X.zero_total) strcat (tags, " ztx");
    if (Y.zero_total) strcat (tags, " zty");
    if (X.w >= 32768) strcat (tags, " wrapx");
    if (Y.w >= 32768) strcat (tags, " wrapy");
    if (X.ub || Y.ub) strcat (tags, " ubcast");
    if (ax->scale < 0 || ay->scale < 0) strcat (tags, " neg");
    if (X.w == 0 || Y.w == 0) st_w0++;
    if (X.zero_total || Y.zero_total) st_zt++;
    if (X.w >= 32768 || Y.w >= 32768) st_wrap++;
    if (X.ub || Y.ub) st_ubcast++;
    if (ax->scale < 0 || ay->scale < 0) st_neg++;
    st_nowrap_bad += X.nowrap_bad + Y.nowrap_bad;

#define FAIL(symptom, cause, ...) do { if (nfail++ < 8) { fprintf (forc, "ORACLE %ld %s [%s] ", req, symptom, cause); fprintf (forc, __VA_ARGS__); fprintf (forc, "\n"); } } while (0)
#define W0 (X.w == 0 || Y.w == 0)
#define ZT (X.zero_total || Y.zero_total)
#define ZTB ((X.zero_total && X.w > 1) || (Y.zero_total && Y.w > 1))
#define WRAP (X.w >= 32768 || Y.w >= 32768)
#define WIDE (255 * (int64_t) X.w * Y.w >= 65536)

    {
	int64_t cx = (int64_t) X.w * X.n, cy = (int64_t) Y.w * Y.n;
	int64_t want = 4 + cx + cy;
	int64_t hw = p[0] >> 16, hh = p[1] >> 16, hbx = p[2] >> 16, hby = p[3] >> 16;
	int32_t *tx = p + 4, *ty = p + 4 + cx;
	int text = (cx + cy <= TEXTCAP);

	st_cells += cx + cy;
	st_phases += X.n + Y.n;
	if (ntracked != 1)
	    FAIL ("alloc", shape, "the block was not obtained by exactly one malloc (%d)", ntracked);
	if ((int64_t) last_size != (int64_t) nv * 4)
	    FAIL ("alloc-length", shape, "allocated %ld bytes but announces n_values=%d", (long) last_size, nv);
	if (nv != want)
	    FAIL ("n-values", shape, "n_values=%d but the tables need %lld values", nv, (long long) want);
	if ((p[0] & 0xffff) || (p[1] & 0xffff) || (p[2] & 0xffff) || (p[3] & 0xffff) || hbx != ax->bits || hby != ay->bits ||
	    hw != X.w || hh != Y.w || (int64_t) nv != 4 + hw * (1 << ax->bits) + hh * (1 << ay->bits))
	    FAIL ("header", WRAP ? "width>=32768" : shape, "header {%d,%d,%d,%d} does not describe a block of %d values with widths %d,%d", p[0], p[1], p[2], p[3], nv, X.w, Y.w);
	if (!acc)
	    FAIL ("set-filter-rejects", WRAP ? "width>=32768" : shape, "pixman_image_set_filter rejects the block");
	if (X.w == 0 || Y.w == 0)
	    FAIL ("no-coefficients", "width0", "filter of width 0 (x:%d y:%d): a phase without coefficients sums to 0", X.w, Y.w);
	if (nv == want && (int64_t) last_size == want * 4)
	{
	    for (i = 0; i < GUARD; i++)
		if (p[nv + i] != CANARY32)
		    FAIL ("oob-write", Y.w == 0 ? "width0" : shape, "write outside the block: cell n_values+%d changed by %lld", i, (long long) p[nv + i] - CANARY32);
	    /* phase sums, unwritten cells */
	    {
		int a, k, ph;
		for (a = 0; a < 2; a++)
		{
		    const wbaxis_t *A = a ? &Y : &X;
		    int32_t *t = a ? ty : tx;
		    for (ph = 0; ph < A->n; ph++)
		    {
			int64_t s = 0;
			for (k = 0; k < A->w; k++)
			{
			    s += t[ph * A->w + k];
			    if (t[ph * A->w + k] == CANARY32)
				FAIL ("unwritten-cell", shape, "%c table phase %d cell %d was never written", "xy"[a], ph, k);
			}
			if (s != 65536 && A->w > 0)
			    FAIL ("phase-sum", A->zero_total ? "zero-total-phase" : shape, "%c table phase %d sums to %lld", "xy"[a], ph, (long long) s);
		    }
		}
	    }
	    /* constant colours through every pair of phases (or a sample of pairs for big tables) */
	    if (X.w > 0 && Y.w > 0 && X.w < 32768 && Y.w < 32768)
	    {
		int64_t budget = 400000, per = (int64_t) X.w * Y.w;
		int64_t all = (int64_t) X.n * Y.n;
		int64_t todo = (per * all <= budget) ? all : (budget / per ? budget / per : 1);
		int64_t q;
		uint64_t h = 0x9E3779B97F4A7C15ULL * (uint64_t) (req + 1);
		for (q = 0; q < todo; q++)
		{
		    int px, py;
		    int64_t S, d;
		    if (todo == all) { px = q % X.n; py = q / X.n; }
		    else { h = h * 6364136223846793005ULL + 1442695040888963407ULL; px = (h >> 33) % X.n; py = (h >> 13) % Y.n; }
		    S = weight_sum (tx + px * X.w, X.w, ty + py * Y.w, Y.w);
		    d = S - 65536;
		    st_pairs++;
		    if (llabs (d) > st_maxdelta && !ZT) st_maxdelta = llabs (d);
		    if (!ZT && !WIDE && llabs (d) > st_maxdelta_small) st_maxdelta_small = llabs (d);
		    if (((255 * S + 0x8000) >> 16) != 255 || ((1 * S + 0x8000) >> 16) != 1)
		    {
			FAIL ("constant-products", ZTB ? "zero-total-phase" : WIDE ? "taps>=258" : shape, "phases (%d,%d): the products (fx*fy+0x8000)>>16 sum to %lld, colour 255 becomes %lld", px, py, (long long) S, (long long) ((255 * S + 0x8000) >> 16));
			break;
		    }
		}
	    }
	    /* real composites of a constant image */
	    if (acc && (int64_t) X.w * Y.w <= 4096)
	    {
		uint32_t colours[3] = { 0xffffffff, 0x80ff0137, 0 }, bad = 0;
		int g;
		colours[2] = (uint32_t) (0x9E3779B9u * (uint32_t) req) | 0x01000000;
		for (g = 0; g < 2; g++)
		    for (i = 0; i < 3; i++)
		    {
			int r = composite_constant (p, nv, c, g, colours[i], &bad);
			st_composites++;
			if (r == 0)
			{
			    FAIL ("constant-composite", W0 ? "width0" : ZTB ? "zero-total-phase" : WIDE ? "taps>=258" : shape, "constant image %08x does not stay constant (%s path): a pixel became %08x", colours[i], g ? "general" : "affine fast", bad);
			    i = 3;
			}
		    }
	    }
	}

	/* cross-check of the white-box run, then the correspondence lines */
	if (!X.shape_ok || !Y.shape_ok)
	{
	    fprintf (fops, "wbshape %d %d\n", X.shape_ok, Y.shape_ok);
	    fprintf (fimpl, "WB-TRACE-SHAPE (create_1d_filter no longer calls floor 2*w*n times and ceil n times)\n");
	    lineno++;
	}
	else
	{
	    int same = (nv == want) && !memcmp (X.tab, tx, cx * 4) && !memcmp (Y.tab, ty, cy * 4);
	    if (!same && nv == want)
	    {
		fprintf (fops, "wbsame\n");
		fprintf (fimpl, "WB-TABLE-DIFFERS (instrumented recompilation of pixman-filter.c gives another table than the library)\n");
		lineno++;
	    }
	    if (text && nv == want)
	    {
		int a;
		int64_t k;
		for (a = 0; a < 2; a++)
		{
		    const wbaxis_t *A = a ? &Y : &X;
		    fprintf (fops, "x1s %d %d\n", A->w, a ? ay->bits : ax->bits);
		    for (i = 0; i < A->n; i++)
			fprintf (fimpl, i ? " %d" : "%d", A->x1[i]);
		    fprintf (fimpl, "\n");
		    lineno++;
		}
		fprintf (fops, "block %d %d %d %d %d %d", X.w, ax->bits, Y.w, ay->bits, CANARY32, GUARD);
		for (k = 0; k < cx; k++) fprintf (fops, " %d", X.raw[k]);
		for (k = 0; k < cx; k++) fprintf (fops, " %d", X.pre[k]);
		for (k = 0; k < cy; k++) fprintf (fops, " %d", Y.raw[k]);
		for (k = 0; k < cy; k++) fprintf (fops, " %d", Y.pre[k]);
		fprintf (fops, "\n");
		for (k = 4; k < nv; k++) fprintf (fimpl, "%d ", p[k]);
		fprintf (fimpl, "G");
		for (i = 0; i < GUARD; i++) fprintf (fimpl, " %d", p[nv + i]);
		fprintf (fimpl, "\n");
		lineno++;
	    }
	    else
		st_layout_only++;
	}
    }
    fprintf (forc, "TAG %ld%s w=%d,%d\n", req, tags[0] ? tags : " -", X.w, Y.w);
    wb_free (&X);
    wb_free (&Y);
    free (p);
}

/* ------------------------------------------------------------------ generator */
static axis_t *axes; static long n_axes, cap_axes;
static void
add_axis (int r, int s, int scale, int bits)
{
    if (scale == 0)
	return;			/* the property quantifies over positive scales; 0 divides by zero in create_1d_filter */
    if (n_axes == cap_axes)
    {
	cap_axes = cap_axes ? 2 * cap_axes : 4096;
	axes = realloc (axes, cap_axes * sizeof (axis_t));
    }
    axes[n_axes].r = r; axes[n_axes].s = s; axes[n_axes].scale = scale; axes[n_axes].bits = bits;
    n_axes++;
}

static void
build_axes (int tier)
{
    int r, s, k, b, m;
    long cap = tier ? 8192 : 1024, bigcap = tier ? 600000 : 300000;
    /* (1) all 8x8 kernel pairs x 16 log-spaced scales 2^-8..2^7 x bits 0..8 */
    for (r = 0; r < 8; r++) for (s = 0; s < 8; s++) for (k = -8; k <= 7; k++) for (b = 0; b <= 8; b++)
    {
	int scale = k >= 0 ? 65536 << k : 65536 >> -k;
	int64_t cells = width_indep (r, s, scale) << b;
	if (cells > cap && !(cells <= bigcap && rng_n (tier ? 4 : 12) == 0))
	    continue;
	add_axis (r, s, scale, b);
    }
    /* (2) +-1/65536 around integers and around the scales where rw + scale*sw crosses an integer */
    for (r = 0; r < 8; r++) for (s = 0; s < 8; s++)
    {
	static const int ints[] = { 1, 2, 3, 4, 5, 8, 16 };
	for (k = 0; k < 7; k++) for (m = -1; m <= 1; m++)
	    for (b = 0; b < (tier ? 4 : 2); b++)
		add_axis (r, s, ints[k] * 65536 + m, rng_n (ints[k] > 5 ? 5 : 9));
	if (kw_indep[s])
	    for (k = 1; k <= 9; k += (k < 3 ? 1 : 3)) for (m = -1; m <= 1; m++)
		add_axis (r, s, (int) ((int64_t) k * 65536 / kw_indep[s]) + m, rng_n (9));
    }
    /* (3) random 16.16 scales, random bit length */
    {
	long n = tier ? 12000 : 2500;
	while (n--)
	{
	    int bl = rng_chance (80) ? rng_range (1, 20) : rng_range (1, 31);
	    int scale = (int) (rng_u64 () & ((1ull << bl) - 1)) | (1 << (bl - 1));
	    r = rng_n (8); s = rng_n (8); b = rng_n (9);
	    if (rng_chance (3)) scale = -scale;
	    while (b > 0 && (width_indep (r, s, scale) << b) > (rng_chance (90) ? cap : bigcap)) b--;
	    if ((width_indep (r, s, scale) << b) > bigcap) continue;
	    add_axis (r, s, scale, b);
	}
    }
    /* (4) extremes */
    for (s = 0; s < 8; s++) for (k = 0; k < 3; k++)
    {
	static const int ex[] = { 1, 2, 3, 255, 257, 0x7fffffff, 0x7fff0000, 0x40000000, -1, -65536, -98304, (int) 0x80000000 };
	r = k == 0 ? 0 : k == 1 ? 1 : rng_n (8);
	for (m = 0; m < 12; m++)
	{
	    int64_t w = width_indep (r, s, ex[m]);
	    if (w > bigcap) continue;
	    if (w > 20000 && !rng_chance (tier ? 50 : 15)) continue;
	    add_axis (r, s, ex[m], w > 4096 ? 0 : rng_n (9));
	}
	if (kw_indep[s])
	{   /* first scale whose width no longer fits the 16.16 header, and the one before */
	    int64_t t = ((int64_t) (32767 - kw_indep[r]) * 65536) / kw_indep[s];
	    if (t + 1 < 0x7fffffff && (tier || rng_chance (50)))
	    {
		add_axis (r, s, (int) t, 0);
		add_axis (r, s, (int) t + 1, 0);
	    }
	}
    }
}

static void
emit_stats (void)
{
    fprintf (forc, "STAT %ld cases\nSTAT %ld create returned NULL\nSTAT %ld layout/oracle only (table too big to print)\n", st_cases, st_null, st_layout_only);
    fprintf (forc, "STAT %ld constant-image composites\nSTAT %ld phase pairs through the convolution arithmetic\nMAX %ld largest |sum of rounded products - 65536|\nMAX %ld largest |sum of rounded products - 65536| among tables with 255*w*h < 65536\n", st_composites, st_pairs, st_maxdelta, st_maxdelta_small);
    fprintf (forc, "STAT %ld phases\nSTAT %ld table cells\nSTAT %ld cases with a width-0 axis\nSTAT %ld cases with an all-zero sampled phase\nSTAT %ld cases with width >= 32768\nSTAT %ld cases where a NaN/out-of-range double reached an int cast\nSTAT %ld cases with a negative scale\nSTAT %ld phases outside W1's NoWrap hypothesis (each all-zero-sample phase counts 1, any other 1000001)\n",
	     st_phases, st_cells, st_w0, st_zt, st_wrap, st_ubcast, st_neg, st_nowrap_bad);
}

static int
read_case (FILE *f, case_t *c)
{
    char line[512];
    while (fgets (line, sizeof line, f))
    {
	if (sscanf (line, "create %d %d %d %d %d %d %d %d", &c->a[0].r, &c->a[0].s, &c->a[0].scale, &c->a[0].bits,
		    &c->a[1].r, &c->a[1].s, &c->a[1].scale, &c->a[1].bits) == 8)
	    return 1;
    }
    return 0;
}
#endif /* !FILTER_SAN */

#ifdef FILTER_SAN
/* sanitizer build: each request in its own child; the first sanitizer report line is the observable */
static int
san_main (const char *in, const char *out)
{
    FILE *fi = fopen (in, "r"), *fo = fopen (out, "w");
    char line[512];
    if (!fi || !fo) return 2;
    while (fgets (line, sizeof line, fi))
    {
	int a[8], pfd[2];
	pid_t pid;
	if (sscanf (line, "create %d %d %d %d %d %d %d %d", a, a + 1, a + 2, a + 3, a + 4, a + 5, a + 6, a + 7) != 8)
	    continue;
	fflush (fo);
	if (pipe (pfd)) return 2;
	pid = fork ();
	if (pid == 0)
	{
	    int nv = 0, i; int64_t sum = 0;
	    int32_t *p;
	    close (pfd[0]); dup2 (pfd[1], 2);
	    p = pixman_filter_create_separable_convolution (&nv, a[2], a[6], a[0], a[4], a[1], a[5], a[3], a[7]);
	    if (p)
	    {
		int32_t *copy = malloc ((size_t) nv * 4 + 4);
		memcpy (copy, p, (size_t) nv * 4);	/* reads every announced cell: a short block is an ASan error */
		for (i = 0; i < nv; i++) sum += copy[i];
		free (copy);
		free (p);
	    }
	    _exit (sum == 42 ? 3 : 0);
	}
	else
	{
	    char buf[8192]; ssize_t n, tot = 0; int st; char *e;
	    close (pfd[1]);
	    while ((n = read (pfd[0], buf + tot, sizeof buf - 1 - tot)) > 0) tot += n;
	    buf[tot] = 0;
	    close (pfd[0]);
	    waitpid (pid, &st, 0);
	    if ((e = strstr (buf, "ERROR: AddressSanitizer: ")))
	    {
		char kind[64] = "", rw[16] = "", where[128] = ""; char *q;
		sscanf (e + 25, "%63s", kind);
		if ((q = strstr (e, "\nWRITE of size"))) strcpy (rw, "WRITE");
		else if ((q = strstr (e, "\nREAD of size"))) strcpy (rw, "READ");
		if ((q = strstr (e, " in create_1d_filter"))) strcpy (where, "create_1d_filter");
		else if ((q = strstr (e, "#0 "))) { sscanf (q, "#0 %*s in %100s", where); }
		fprintf (fo, "SAN asan %s %s %s\n", kind, rw, where);
	    }
	    else if ((e = strstr (buf, "runtime error: ")))
	    {
		char *nl = strchr (e, '\n'); char *q;
		if (nl) *nl = 0;
		/* keep the kind of error, drop the operands */
		if ((q = strstr (e, ": ")) && (q = strchr (q + 2, ':'))) *q = 0;
		fprintf (fo, "SAN ubsan %s\n", e + 15);
	    }
	    else if (WIFSIGNALED (st))
		fprintf (fo, "SAN signal %d\n", WTERMSIG (st));
	    else if (WEXITSTATUS (st))
		fprintf (fo, "SAN exit %d\n", WEXITSTATUS (st));
	    else
		fprintf (fo, "OK\n");
	}
    }
    fclose (fo);
    return 0;
}
#endif

int
main (int argc, char **argv)
{
#ifdef FILTER_SAN
    if (argc == 4 && !strcmp (argv[1], "san"))
	return san_main (argv[2], argv[3]);
    fprintf (stderr, "usage: filter san <creates_in> <out>\n");
    return 2;
#else
    if (argc == 10 && !strcmp (argv[1], "gen"))
    {
	uint64_t seed = strtoull (argv[2], 0, 10);
	int tier = atoi (argv[3]), part = atoi (argv[4]), nparts = atoi (argv[5]);
	FILE *fc = fopen (argv[6], "w");
	long k, *perm;
	fops = fopen (argv[7], "w"); fimpl = fopen (argv[8], "w"); forc = fopen (argv[9], "w");
	if (!fc || !fops || !fimpl || !forc) return 2;
	if (wb_n_kernels () != 8) { fprintf (forc, "ORACLE 0 filters[] has %d rows [table]\n", wb_n_kernels ()); return 0; }
	for (k = 0; k < 8; k++)
	    if (wb_kernel_id (k) != k) fprintf (forc, "ORACLE 0 filters[%ld].kernel is %d [table]\n", k, wb_kernel_id (k));
	rng_seed (seed);
	build_axes (tier);
	perm = malloc (n_axes * sizeof (long));
	for (k = 0; k < n_axes; k++) perm[k] = k;
	for (k = n_axes - 1; k > 0; k--) { long j = rng_u64 () % (uint64_t) (k + 1), t = perm[k]; perm[k] = perm[j]; perm[j] = t; }
	/* every axis configuration is used once as x (with a shuffled partner as y) and once as y */
	for (k = 0; k < n_axes; k++)
	{
	    case_t c;
	    axis_t x = axes[k], y = axes[perm[k]];
	    if (k % nparts != part) continue;
	    /* keep the pair affordable: two big tables together are not needed */
	    if ((width_indep (x.r, x.s, x.scale) << x.bits) > 4096 && (width_indep (y.r, y.s, y.scale) << y.bits) > 4096)
	    { y.scale = 65536; y.bits = y.bits > 2 ? 2 : y.bits; }
	    c.a[0] = x; c.a[1] = y;
	    fprintf (fc, "create %d %d %d %d %d %d %d %d\n", x.r, x.s, x.scale, x.bits, y.r, y.s, y.scale, y.bits);
	    fflush (fc);		/* if the library crashes, the last line of this file is the request that did it */
	    run_case (&c);
	}
	fprintf (forc, "STAT %ld axis configurations generated (all parts)\n", part == 0 ? n_axes : 0);
	emit_stats ();
	fclose (fc); fclose (fops); fclose (fimpl); fclose (forc);
	return 0;
    }
    if (argc == 6 && !strcmp (argv[1], "exec"))
    {
	FILE *fc = fopen (argv[2], "r");
	case_t c;
	fops = fopen (argv[3], "w"); fimpl = fopen (argv[4], "w"); forc = fopen (argv[5], "w");
	if (!fc || !fops || !fimpl || !forc) return 2;
	TEXTCAP = 400000;
	while (read_case (fc, &c))
	    if (c.a[0].r >= 0 && c.a[0].r < 8 && c.a[0].s >= 0 && c.a[0].s < 8 && c.a[1].r >= 0 && c.a[1].r < 8 && c.a[1].s >= 0 && c.a[1].s < 8 &&
		c.a[0].bits >= 0 && c.a[0].bits <= 12 && c.a[1].bits >= 0 && c.a[1].bits <= 12 && c.a[0].scale && c.a[1].scale)
		run_case (&c);
	emit_stats ();
	fclose (fops); fclose (fimpl); fclose (forc);
	return 0;
    }
    fprintf (stderr, "usage: filter gen <seed> <tier> <part> <nparts> <creates> <ops> <impl> <oracle> | filter exec <creates> <ops> <impl> <oracle>\n");
    return 2;
#endif
}

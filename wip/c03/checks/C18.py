"""C18 — separable-convolution filter tables are well-formed and sum to 1 for all inputs.

Proof obligations: Pixman.Props.C18 (model = lean/Pixman/Model/Filter.lean; kernel table regenerated into
Pixman/Gen/FilterTable.lean by tools/gen_filter.py).
Correspondence: harness/filter.c against `pixdrv filter`: returned n_values, header words and
pixman_image_set_filter's verdict (model: exact integer filter_width, layout, the n_params test), the first tap
position of every phase, and the complete block (model: create_1d_filter's stores and residual step run on the
coefficient values observed by the white-box unit harness/filter_wb.c, i.e. pixman-filter.c re-compiled with
floor/ceil hooks; the harness checks that the re-compilation produces the library's table).
Spec oracle (inside the harness, independent of the model): allocated length = announced length, header describes
the tables, every phase sums to 65536, canary cells behind the block untouched, no cell unwritten, set_filter
accepts, constant colours survive the convolution arithmetic for every pair of phases, real composites of a
constant image stay constant.  A sanitizer (ASan+UBSan) build runs a slice of the requests, one child each."""
import collections, json, re, subprocess
from concurrent.futures import ThreadPoolExecutor
from engine.core import log, sh, VERIF, REPO

REQUIRED = [
    "Pixman.Props.C18.gen_kernelWidth_eq",
    "Pixman.Props.C18.gen_shapes",
    "Pixman.Props.C18.filterWidth_pos_iff",
    "Pixman.Props.C18.filterWidth_exact",
    "Pixman.Props.C18.filterWidth_pos",
    "Pixman.Props.C18.firstTap_exact",
    "Pixman.Props.C18.W1_phase_sum",
    "Pixman.Props.C18.W1_phase_frame",
    "Pixman.Props.C18.W1_table_sums",
    "Pixman.Props.C18.W1_table_frame",
    "Pixman.Props.C18.W1_block",
    "Pixman.Props.C18.W1_layout",
    "Pixman.Props.C18.nValues_in_range",
    "Pixman.Props.C18.W2_set_filter_accepts",
    "Pixman.Props.C18.W2_header_wraps_rejected",
    "Pixman.Props.C18.W3_width0_phase",
    "Pixman.Props.C18.W3_width0_table",
    "Pixman.Props.C18.W3_width0_outside_block",
    "Pixman.Props.C18.W4_weight_sum_bound",
    "Pixman.Props.C18.W4_constant_stays_constant",
]

WB_SYMS = ["wb_reset", "wb_n_kernels", "wb_kernel_width", "wb_kernel_id", "wb_filter_width", "wb_create_1d",
           "wb_floor_trace", "wb_floor_n", "wb_ceil_trace", "wb_ceil_n"]
HOW = ("bin/check C18 --replay <this file>   (or: printf '%s\\n' \"<request>\" > c.txt; <scratch>/filter-plain exec c.txt "
       "ops.txt impl.txt oracle.txt; lean/.lake/build/bin/pixdrv filter < ops.txt; sanitizer: <scratch>/filter-asan san c.txt out.txt)")


def harness_fail(ctx, name, out):
    path = ctx.write_replay({"kind": "harness-build", "name": name,
                             "what": "white-box unit no longer compiles against /repo/pixman/pixman-filter.c",
                             "log_tail": out[-4000:]}, tag="harness")
    log(f"VIOLATION property={ctx.pid} replay={path} no-failing-input-found")
    ctx.violations.append({"replay": str(path)})
    ctx.finish(force_exit=1)


def build_plain(ctx):
    b = ctx.build_pixman("plain")
    wb = ctx.scratch / "filter_wb.o"
    # same optimisation level as the library (buildtype=debugoptimized => -O2 -g)
    cmd = ["gcc", "-O2", "-g", "-DHAVE_CONFIG_H", "-DPIXMAN_VERIF", "-I", str(VERIF / "harness")] + b["inc"] + \
          ["-c", str(VERIF / "harness" / "filter_wb.c"), "-o", str(wb)]
    r = sh(cmd)
    if r.returncode == 0:
        r = sh(["objcopy"] + sum((["-G", s] for s in WB_SYMS), []) + [str(wb)])
    if r.returncode != 0:
        harness_fail(ctx, "filter_wb", r.stdout)
    return ctx.cc("filter", ["filter.c"], b, extra=[str(wb)], wrap=["malloc"])


def build_san(ctx):
    b = ctx.build_pixman("asan")
    return ctx.cc("filter", ["filter.c"], b, extra=["-DFILTER_SAN"])


def signature(kind, symptom, cause):
    """operation | cause (kind of request that explains the failure, else the kernel pairs) | symptom"""
    return f"create|{cause}|{symptom}" if kind in ("oracle", "san") else f"create|{cause}|{kind}"


def kernels_of(req):
    t = req.split()
    return f"kernels {t[1]}.{t[2]}/{t[5]}.{t[6]}" if len(t) >= 9 else "?"


def san_cause(tags, req, line):
    """which kind of request explains a sanitizer report"""
    if "AddressSanitizer".lower() in line.lower() or line.startswith("SAN asan"):
        if "create_1d_filter" in line and "w0y" in tags:
            return "width0"
    if "signed integer overflow" in line and ("ztx" in tags or "zty" in tags):
        return "zero-total-phase"
    return kernels_of(req)


def read_lines(p):
    with open(p) as f:
        l = f.read().split("\n")
    if l and l[-1] == "":
        l.pop()
    return l


def analyse(ctx, ops, impl, orc, model, acc):
    """diff one stream; acc collects findings/statistics"""
    lo, li, lm = read_lines(ops), read_lines(impl), read_lines(model)
    n = len(lo)
    acc["lines"] += n
    if len(li) != n or len(lm) != n:
        acc["findings"].append(("stream", f"create ? ({ops})", None, None,
                                f"harness wrote {len(li)} and the driver {len(lm)} reply lines for {n} requests", "stream", "stream"))
    tags = {}
    for ol in read_lines(orc):
        mm = re.match(r"TAG (\d+) (.*?) w=(\d+),(\d+)$", ol)
        if mm:
            tags[int(mm.group(1))] = (mm.group(2).split(), int(mm.group(3)), int(mm.group(4)))
    cur = None      # (lineno, request) of the create the following lines belong to
    for k in range(min(n, len(li), len(lm))):
        req = lo[k]
        op = req.split(" ", 1)[0]
        if op == "create":
            cur = (k + 1, req)
            acc["ops"]["create"] += 1
            tg = tags.get(k + 1, ([], 0, 0))
            t = req.split()
            for ax, w in ((t[1:5], tg[1]), (t[5:9], tg[2])):
                acc["axis_configs"].add(" ".join(ax))
                acc["pairs"].add((ax[0], ax[1]))
                acc["bits"][int(ax[3])] += 1
                acc["widths"][min(w, 40) if w <= 40 else (64 if w <= 64 else 1 << (w - 1).bit_length())] += 1
            if li[k].startswith("NULL"):
                acc["null"] += 1        # compared below like any reply: the model must predict the refusal (malloc failure is not expected at these sizes)
        else:
            acc["ops"][op] += 1
        a, m = li[k].strip(), lm[k].strip()
        acc["compared"] += 1
        if a.startswith("WB-"):
            acc["findings"].append(("whitebox", cur[1] if cur else req, a, None, a, a.split(" ")[0], "whitebox"))
            continue
        if a != m:
            c = cur[1] if cur else req
            acc["findings"].append((f"disagree:{op}", c, a[:400], m[:400], f"model and implementation differ on the {op} line", f"disagree:{op}", kernels_of(c)))
        elif op == "block":
            t = req.split(" ", 7)
            wx, bx, wy, by = int(t[1]), int(t[2]), int(t[3]), int(t[4])
            if wx >= 2 or wy >= 2:        # a table with at least two taps: residual placement and offsets matter
                acc["nontrivial"].add(hash(req))
                if len(acc["samples"]) < 5 and wx * (1 << bx) + wy * (1 << by) <= 24 and cur:
                    acc["samples"].append(cur[1] + "  =>  " + li[cur[0] - 1] + "  block: " + a)
    for ol in read_lines(orc):
        mm = re.match(r"ORACLE (\d+) (\S+) \[([^\]]*)\] (.*)", ol)
        if mm:
            ln, symptom, cause, text = int(mm.group(1)), mm.group(2), mm.group(3), mm.group(4)
            req = lo[ln - 1] if 0 < ln <= n else "?"
            acc["findings"].append(("oracle", req, li[ln - 1] if 0 < ln <= len(li) else None, None, text, symptom, cause))
            continue
        mm = re.match(r"STAT (\d+) (.*)", ol)
        if mm:
            acc["stats"][mm.group(2)] += int(mm.group(1))
            continue
        mm = re.match(r"MAX (\d+) (.*)", ol)
        if mm:
            acc["max"][mm.group(2)] = max(acc["max"].get(mm.group(2), 0), int(mm.group(1)))
    return tags, lo


def new_acc():
    return {"lines": 0, "compared": 0, "null": 0, "findings": [], "ops": collections.Counter(), "stats": collections.Counter(),
            "max": {}, "axis_configs": set(), "pairs": set(), "bits": collections.Counter(), "widths": collections.Counter(),
            "nontrivial": set(), "samples": []}


def run_streams(ctx, nparts):
    exe = build_plain(ctx)
    tier = 0 if ctx.tier == "quick" else 1
    cdir = VERIF / "corpus" / "filter"
    corpus = sorted(cdir.glob("*.txt")) if cdir.exists() else []

    def one(i):
        d = ctx.scratch / f"fs{i}"
        d.mkdir(exist_ok=True)
        cr, ops, impl, orc, model = d / "creates.txt", d / "ops.txt", d / "impl.txt", d / "oracle.txt", d / "model.txt"
        if i < len(corpus):
            cr.write_text(corpus[i].read_text())
            r = subprocess.run([str(exe), "exec", str(cr), str(ops), str(impl), str(orc)], stderr=subprocess.DEVNULL)
        else:
            r = subprocess.run([str(exe), "gen", str(ctx.seed), str(tier), str(i - len(corpus)), str(nparts),
                                str(cr), str(ops), str(impl), str(orc)], stderr=subprocess.DEVNULL)
        for f in (ops, impl, orc):
            if not f.exists():
                f.write_text("")
        ctx.pixdrv("filter", ops, model)
        died = None
        if r.returncode != 0:       # the library (or the harness) crashed: in gen mode the last request written is the one
            last = [l for l in read_lines(cr) if l.startswith("create ")]
            died = (r.returncode, last[-1] if last and i >= len(corpus) else f"create ? (corpus file {cr})")
        return cr, ops, impl, orc, model, died

    with ThreadPoolExecutor(max_workers=min(nparts, 16)) as ex:
        results = list(ex.map(one, range(len(corpus) + nparts)))
    acc = new_acc()
    san_reqs = []       # (request, shape)
    for cr, ops, impl, orc, model, died in results:
        if died:
            acc["findings"].append(("crash", died[1], f"harness exit status {died[0]}", None,
                                    f"the harness process died (status {died[0]}) while executing this request: crash or heap corruption inside the library",
                                    "crash", kernels_of(died[1])))
        tags, lo = analyse(ctx, ops, impl, orc, model, acc)
        for ln, (tg, wx, wy) in tags.items():
            req = lo[ln - 1]
            cells = 0
            t = req.split()
            cells = wx * (1 << int(t[4])) + wy * (1 << int(t[8]))
            special = [x for x in tg if x != "-"]
            if special or (cells <= 3000 and (hash_det(req) % (6 if tier == 0 else 2)) == 0):
                san_reqs.append((req, tg, cells))
    return acc, san_reqs


def hash_det(s):
    h = 1469598103934665603
    for ch in s.encode():
        h = ((h ^ ch) * 1099511628211) & 0xFFFFFFFFFFFFFFFF
    return h >> 17


def run_sanitizer(ctx, san_reqs, acc, nparts):
    """ASan+UBSan build: every special request (width 0, all-zero phase, wrapped header, negative scale) and a
    deterministic slice of the others; big tables are kept few (ASan is slow on the float code only mildly)."""
    exe = build_san(ctx)
    san_reqs = [r for r in san_reqs if r[2] <= 70000]
    chunks = [san_reqs[i::nparts] for i in range(nparts)]

    def one(i):
        d = ctx.scratch / f"san{i}"
        d.mkdir(exist_ok=True)
        cr, out = d / "creates.txt", d / "out.txt"
        cr.write_text("".join(r[0] + "\n" for r in chunks[i]))
        subprocess.run([str(exe), "san", str(cr), str(out)], stderr=subprocess.DEVNULL,
                       env={"ASAN_OPTIONS": "detect_leaks=0:abort_on_error=0:allocator_may_return_null=1", "PATH": "/usr/bin:/bin"})
        return read_lines(out) if out.exists() else []

    with ThreadPoolExecutor(max_workers=min(nparts, 16)) as ex:
        outs = list(ex.map(one, range(nparts)))
    n = 0
    kinds = collections.Counter()
    for i, lines in enumerate(outs):
        if len(lines) != len(chunks[i]):
            acc["findings"].append(("stream", "create ? (sanitizer stream)", None, None,
                                    f"sanitizer harness answered {len(lines)} of {len(chunks[i])} requests", "stream", "sanitizer-stream"))
        for (req, tg, _), l in zip(chunks[i], lines):
            n += 1
            l = l.strip()
            if l != "OK":
                kinds[l] += 1
                sym = re.sub(r"\s+", "-", l[4:] if l.startswith("SAN ") else l)
                acc["findings"].append(("san", req, l, None, "sanitizer build: " + l, sym, san_cause(tg, req, l)))
    acc["stats"]["requests run under ASan+UBSan (one child each)"] = n
    ctx.extra["sanitizer_reports"] = dict(kinds)
    return n


def report(ctx, findings, limit=12):
    seen = collections.OrderedDict()
    for kind, req, a, m, text, symptom, cause in findings:
        seen.setdefault(signature(kind, symptom, cause), []).append((kind, req, a, m, text, symptom, cause))
    n = 0
    summary = {}
    for sig, items in seen.items():
        kind, req, a, m, text, symptom, cause = min(items, key=lambda it: (len(it[1]), it[1]))
        summary[sig] = len(items)
        if n >= limit:
            continue
        found_input = kind not in ("stream", "whitebox")
        if ctx.violation({"kind": kind, "request": req, "implementation": a, "model": m, "oracle": text,
                          "how_to_replay": HOW, "count_in_run": len(items)},
                         signature=sig, what=f"{req}: {text}", tag=kind.split(":")[0], found_input=found_input):
            n += 1
    ctx.extra["finding_signatures"] = summary


def fill_cov(ctx, acc):
    ctx.cov["evaluations"] += acc["ops"]["create"]
    ctx.cov["distinct_nontrivial"] += len(acc["nontrivial"])
    ctx.cov["traces_validated_against_impl"] += acc["compared"]
    ctx.cov["rule"] = (
        "one request = pixman_filter_create_separable_convolution with an (reconstruct, sample, scale, bits) configuration on each axis; "
        "axis configurations: (1) all 8x8 kernel pairs x 16 scales 2^-8..2^7 x bits 0..8 (configurations whose table exceeds the tier's cell "
        "cap are kept with probability 1/12 quick, 1/4 thorough), (2) scales k*65536+{-1,0,1} for k in 1,2,3,4,5,8,16 and floor(k*65536/sw)+{-1,0,1} "
        "(where rw+scale*sw crosses an integer) for all pairs with random bits, (3) random 16.16 scales of random bit length (3% negative), "
        "(4) extremes 1,2,3,255,257,2^30,0x7fff0000,0x7fffffff,-1,-65536,-98304,INT32_MIN and the scales on both sides of width 32767/32768; "
        "every configuration is used once on the x axis and once on the y axis with a shuffled partner. scale 0 is not generated "
        "(outside the property's quantifier).  non-trivial = a `block` reply (whole block incl. guard cells) that agrees with the model and "
        "contains a table of width >= 2, distinct by full request text")
    ctx.cov["samples"] = acc["samples"]
    ctx.extra["operation_histogram"] = dict(acc["ops"])
    ctx.extra["harness_statistics"] = dict(acc["stats"])
    ctx.extra["harness_maxima"] = acc["max"]
    ctx.extra["distinct_axis_configurations"] = len(acc["axis_configs"])
    ctx.extra["kernel_pairs_covered(of 64)"] = len(acc["pairs"])
    ctx.extra["bits_histogram"] = {str(k): v for k, v in sorted(acc["bits"].items())}
    ctx.extra["width_histogram(<=40 exact, then next power of two)"] = {str(k): v for k, v in sorted(acc["widths"].items())}
    ctx.extra["create_returned_NULL"] = acc["null"]


def run(ctx):
    broken = ctx.lean_obligations("Pixman.Props.C18", REQUIRED)
    nparts = 8 if ctx.tier == "quick" else 16
    acc, san_reqs = run_streams(ctx, nparts)
    run_sanitizer(ctx, san_reqs, acc, nparts)
    fill_cov(ctx, acc)
    report(ctx, acc["findings"])
    if broken and not ctx.violations:
        ctx.broken_obligations_verdict(broken, "filter correspondence streams, the table oracle and the sanitizer run found no failing input")
    ctx.level = "proof"
    ctx.assumptions += [
        "the double-precision part of create_1d_filter (sampling by integral(), normalisation with error diffusion) is NOT modelled: the theorems "
        "take the stored values raw/pre as arbitrary parameters; the run obtains them from pixman-filter.c re-compiled with floor/ceil hooks "
        "(harness/filter_wb.c) and checks that this re-compilation reproduces the library's table bit for bit",
        "filter_width and x1 are modelled exactly over the integers: for a 16.16 scale every intermediate double is exact (products below 2^35), so no rounding can differ",
        "W1 carries the hypothesis that the running total of the normalised values and the corrected first cell fit int32 (NoWrap); the run counts the "
        "requests where a NaN/out-of-range double reaches the int cast (undefined in C; the model follows the compiled library: INT32_MIN, wrap-around)",
        "W4 is proved for tables with 255 * (width * height) < 65536 (e.g. up to 16x16 taps): each of the w*h products (fx*fy+0x8000)>>16 may be off by 1/2, "
        "so for larger tables 'phases sum to 65536' alone does not imply that 255 stays 255; for those the harness evaluates the arithmetic on the real tables",
        "scale 0 (division by zero inside create_1d_filter) and subsample bits > 8 are outside the property's quantifier and not generated; negative scales "
        "(the code takes fabs) are generated and judged like positive ones",
        "out-of-block writes are observed through canary cells behind the wrapped malloc's block in the plain build and by ASan in a separate build; "
        "reads of never-written memory are only visible as canary values left in the table",
    ]


def replay(ctx, path):
    obj = json.loads(open(path).read())
    req = obj.get("request")
    if not req or not req.startswith("create "):
        log(f"replay: {path} carries no request line ({obj.get('kind')}): {obj.get('what')}")
        return
    exe = build_plain(ctx)
    sh(["lake", "build", "pixdrv"], cwd=VERIF / "lean")
    d = ctx.scratch / "replay"
    d.mkdir(exist_ok=True)
    cr, ops, impl, orc, model = d / "creates.txt", d / "ops.txt", d / "impl.txt", d / "oracle.txt", d / "model.txt"
    cr.write_text(req + "\n")
    subprocess.run([str(exe), "exec", str(cr), str(ops), str(impl), str(orc)], stderr=subprocess.DEVNULL)
    ctx.pixdrv("filter", ops, model)
    acc = new_acc()
    tags, lo = analyse(ctx, ops, impl, orc, model, acc)
    for o, a, m in zip(read_lines(ops), read_lines(impl), read_lines(model)):
        log(f"request:        {o[:300]}\nimplementation: {a[:300]}\nmodel:          {m[:300]}")
    for ol in read_lines(orc):
        if ol.startswith("ORACLE"):
            log("oracle:         " + ol)
    tg = tags.get(1, (["-"], 0, 0))
    run_sanitizer(ctx, [(req, tg[0], 0)], acc, 1)
    log("sanitizer:      " + json.dumps(ctx.extra.get("sanitizer_reports", {})))
    fill_cov(ctx, acc)
    report(ctx, acc["findings"])
    if not acc["findings"]:
        log("replay: the request no longer fails")

"""C02 — every implementation (general, C fast paths, MMX/SSE2/SSSE3) is bit-identical.

Proof part (Lean): D1 cache transparency, D2 conditional chain independence, K lane-kernel equalities,
B blt/fill delegation.  Tie: (a) the `simd` driver domain replays lookup histories of the real
_pixman_implementation_lookup_composite and the real static-inline SIMD kernels of pixman-sse2.c /
pixman-mmx.c (white-box translation units) against the Lean model; (b) EntrySound — the hypothesis of
D2 — is VALIDATED, not proved: every entry of every fast_paths[]/iter_info[] table of the live chain is
targeted by synthesised requests that are executed in 7 processes (PIXMAN_DISABLE configurations) and
compared bit for bit with the general-only configuration."""
import collections, json, os, re, subprocess
from concurrent.futures import ThreadPoolExecutor
from engine.core import diff_streams, count_lines, log, VERIF

P = "Pixman.Props.C02."
REQUIRED = [P + n for n in (
    # D1
    "lookupCached_eq_tableWalk", "cacheInv_preserved", "lookupHistory_eq_map_tableWalk", "cache_length_le", "tableWalk_sound",
    # D2 (conditional on EntrySound)
    "render_eq_general", "chain_independent_of_disable", "wholeops_independent",
    # B
    "blt_false_iff_all_declined", "fill_false_iff_all_declined", "blt_declined_writes_nothing",
    # K
    "sse2_pix_multiply_eq_mulUn8", "mmx_pix_multiply_eq_mulUn8", "sse2_mmx_pix_multiply_agree",
    "negate_lane", "expand_alpha_lanes", "packus_lane", "over_lane_eq_spec", "over_pixel_eq_UN8x4_MUL_UN8_ADD_UN8x4",
    "mmx_over_eq_sse2", "in_over_lane", "mmx_in_over_eq_sse2", "pix_add_multiply_lane_eq_spec", "pix_add_multiply_pixel_eq",
    "unpack_565_to_8888_eq_convert", "pack_565_eq_convert", "pack_565_2x128_lane_eq_convert", "mmx_expand565_eq_convert", "mmx_pack_565_eq_convert",
    "sse2_bilinear_eq_bilinear_interpolation", "ssse3_bilinear_weights",
)]

CONFIGS = [("default", ""), ("no-ssse3", "ssse3"), ("no-ssse3-sse2", "ssse3 sse2"), ("fast+general", "ssse3 sse2 mmx"),
           ("general-only", "fast mmx sse2 ssse3"), ("no-wholeops", "wholeops"), ("no-wholeops-no-fast", "wholeops fast")]
REF = 4
WIDE = {0x20020aaa, 0x20022aaa, 0x20030aaa, 0x20032aaa, 0x200a8888, 0x10cb4444, 0x0ccb0444}   # 10-bit, sRGB, float formats
OPNAMES = {0: "CLEAR", 1: "SRC", 2: "DST", 3: "OVER", 4: "OVER_REVERSE", 5: "IN", 6: "IN_REVERSE", 7: "OUT", 8: "OUT_REVERSE",
           9: "ATOP", 10: "ATOP_REVERSE", 11: "XOR", 12: "ADD", 13: "SATURATE"}


def env_for(disable):
    e = dict(os.environ)
    e.pop("PIXMAN_DISABLE", None)
    if disable:
        e["PIXMAN_DISABLE"] = disable
    return e


# ----------------------------------------------------------------------------- request lines
def parse_img(t, i):
    img = dict(kind=t[i], fmt=int(t[i + 1], 16), w=int(t[i + 2]), h=int(t[i + 3]), stride=int(t[i + 4]), align=int(t[i + 5]),
               seed=t[i + 6], pixmode=int(t[i + 7]), repeat=int(t[i + 8]), filter=int(t[i + 9]), ca=int(t[i + 10]),
               dither=int(t[i + 11]), has_t=int(t[i + 12]), start=i)
    j = i + 13
    if img["has_t"]:
        img["t"] = [int(x) for x in t[j:j + 9]]
        j += 9
    n = int(t[j]); j += 1
    img["nclip"] = n
    j += 4 * n
    img["end"] = j
    return img


def parse_req(line):
    t = line.split(" ")
    r = dict(kind=t[0], tag=t[1], tok=t)
    if t[0] == "C":
        r["op"] = int(t[2])
        r["geom"] = [int(x) for x in t[3:11]]
        r["d"] = parse_img(t, 11)
        r["s"] = parse_img(t, r["d"]["end"])
        r["m"] = parse_img(t, r["s"]["end"])
    return r


NONE_IMG = "N 0 0 0 0 0 0 0 0 0 0 0 0 0".split(" ")


def wide_opaque_mask(r):
    """a bits mask in a wide alpha-less format, unified alpha, no convolution: a candidate for elision,
    on a request whose source and destination are narrow"""
    m = r["m"]
    return m["kind"] == "B" and m["fmt"] in WIDE and ((m["fmt"] >> 12) & 0xf) == 0 and not m["ca"] and m["filter"] < 5 \
        and r["d"]["fmt"] not in WIDE and not (r["s"]["kind"] in "BP" and r["s"]["fmt"] in WIDE)


def control_line(r, cls):
    """the same request with the feature of a known deviation class removed"""
    t = list(r["tok"])
    if cls == "dither":
        if wide_opaque_mask(r):
            t = t[:r["m"]["start"]] + NONE_IMG + t[r["m"]["end"]:]
        t[r["d"]["start"] + 11] = "0"
    elif cls == "widemask":
        t = t[:r["m"]["start"]] + NONE_IMG + t[r["m"]["end"]:]
    t[1] = "ctl:" + cls
    return " ".join(t)


def fmt_channels(f):
    """(shift, bits) of the channels of a <=32bpp format, for the 1-LSB criterion"""
    bpp = (f >> 24) << ((f >> 22) & 3)
    typ = (f >> 16) & 0x3f
    sh = (f >> 22) & 3
    A, R, G, B = (((f >> 12) & 0xf) << sh, ((f >> 8) & 0xf) << sh, ((f >> 4) & 0xf) << sh, (f & 0xf) << sh)
    if bpp > 32:
        return None, bpp
    if typ == 1:
        return [(0, A)], bpp
    if typ in (2, 10):
        return [(0, B), (B, G), (B + G, R), (B + G + R, A)], bpp
    if typ == 3:
        return [(0, R), (R, G), (R + G, B), (R + G + B, A)], bpp
    if typ == 8:
        b = bpp - B; g = b - G; r = g - R; a = r - A
        return [(b, B), (g, G), (r, R), (a, A)], bpp
    if typ == 9:
        r = bpp - R; g = r - G; b = g - B; a = b - A
        return [(r, R), (g, G), (b, B), (a, A)], bpp
    return None, bpp


def max_channel_delta(r, hexa, hexb):
    """largest per-channel difference between two destination dumps (None if not decodable)"""
    d = r["d"]
    ch, bpp = fmt_channels(d["fmt"])
    if ch is None or bpp not in (8, 16, 32):
        return None
    a, b = bytes.fromhex(hexa), bytes.fromhex(hexb)
    step = bpp // 8
    worst = 0
    stride = abs(d["stride"])
    for y in range(d["h"]):
        for x in range(d["w"]):
            o = y * stride + x * step
            pa = int.from_bytes(a[o:o + step], "little"); pb = int.from_bytes(b[o:o + step], "little")
            if pa == pb:
                continue
            for (s, n) in ch:
                if n:
                    worst = max(worst, abs(((pa >> s) & ((1 << n) - 1)) - ((pb >> s) & ((1 << n) - 1))))
    # bytes outside the pixels (padding) must be equal
    for y in range(d["h"]):
        if a[y * stride + d["w"] * step:(y + 1) * stride] != b[y * stride + d["w"] * step:(y + 1) * stride]:
            return 1 << 30
    return worst


def desc_img(im):
    if im["kind"] == "N":
        return "none"
    if im["kind"] == "S":
        return "solid"
    if im["kind"] == "L":
        return "linear"
    s = "%x" % im["fmt"]
    if im["w"] == 1 and im["h"] == 1 and im["repeat"]:
        s += "(1x1)"
    s += ["", "+normal", "+pad", "+reflect"][im["repeat"]]
    if im["has_t"]:
        t = im["t"]
        s += "+proj" if (t[6] or t[7]) else "+affine" if (t[1] or t[3]) else "+scale"
    s += {0: "", 1: "", 2: "", 3: "", 4: "+bilinear", 5: "+conv", 6: "+sepconv"}.get(im["filter"], "")
    if im["ca"]:
        s += "+ca"
    if im["kind"] == "P":
        s += "+sharedbits"
    return s


# ----------------------------------------------------------------------------- running
def run_exec(exe, ops, out, disable):
    for attempt in range(2):
        r = subprocess.run([str(exe), "exec", str(ops), str(out)], env=env_for(disable), stdout=subprocess.DEVNULL,
                           stderr=subprocess.PIPE, text=True)
        if r.returncode == 0 and count_lines(ops) == count_lines(out):
            return None
    return f"exit {r.returncode}: {r.stderr[-300:]}"


def exec_all(ctx, exe, ops, tagdir, pool):
    """run one request file under all 7 configurations; returns list of output line lists (or raises)"""
    outs = [tagdir / f"out{i}.txt" for i in range(len(CONFIGS))]
    errs = list(pool.map(lambda i: run_exec(exe, ops, outs[i], CONFIGS[i][1]), range(len(CONFIGS))))
    res = []
    for i, e in enumerate(errs):
        if e:
            res.append((None, e))
        else:
            res.append((outs[i].read_text().split("\n"), None))
    return res


class Stats:
    def __init__(self):
        self.hits = collections.Counter()            # "fp:impl:idx" / "it:impl:idx" -> executions
        self.hits_cfg = collections.defaultdict(set)
        self.widths = collections.Counter()
        self.align = collections.Counter()
        self.heights = collections.Counter()
        self.strides = collections.Counter()
        self.ops = collections.Counter()
        self.execs = 0
        self.requests = 0
        self.nontrivial = set()
        self.xbits_only = 0
        self.bltfill = collections.Counter()
        self.samples = []
        self.diffs = []                              # dict(line, cfg, out, ref)
        self.errors = []


def compare(ctx, st, ops_lines, results, source):
    ref = results[REF][0]
    for ci, (lines, err) in enumerate(results):
        if err:
            st.errors.append(f"{source}: configuration {CONFIGS[ci][0]!r}: {err}")
    if any(err for _, err in results):
        return
    for ln, op in enumerate(ops_lines):
        if not op or op[0] == "#":
            continue
        st.requests += 1
        kind = op[0]
        rt = ref[ln].split(" ")
        if kind == "C":
            r = None
            accel = False
            for ci, (lines, _) in enumerate(results):
                t = lines[ln].split(" ")
                st.execs += 1
                if t[0] != "fp=-":
                    for h in t[0][3:].split(">"):
                        st.hits["fp:" + h] += 1
                        st.hits_cfg[CONFIGS[ci][0]].add("fp:" + h)
                        accel |= not h.startswith("general")
                if t[1] != "it=-":
                    for h in t[1][3:].split(","):
                        st.hits["it:" + h] += 1
                        accel |= not h.startswith("general")
                if t[3] != rt[3]:
                    st.diffs.append(dict(line=op, cfg=ci, out=lines[ln], ref=ref[ln], source=source))
                elif t[2] != rt[2]:
                    st.xbits_only += 1
            tk = op.split(" ", 12)
            st.widths[int(tk[9])] += 1
            st.heights[int(tk[10])] += 1
            st.ops[int(tk[2])] += 1
            r = parse_req(op)
            g = r["geom"]
            bpp = (r["d"]["fmt"] >> 24) << ((r["d"]["fmt"] >> 22) & 3)
            st.align[(r["d"]["align"] + g[4] * bpp // 8) % 16] += 1
            st.strides["negative" if r["d"]["stride"] < 0 else "padded" if abs(r["d"]["stride"]) > (r["d"]["w"] * bpp + 31) // 32 * 4 else "tight"] += 1
            if accel and r["op"] not in (2,):
                st.nontrivial.add(op.split(" ", 2)[2])
                if len(st.samples) < 6 and len(st.nontrivial) % 1999 == 1:
                    st.samples.append(op)
        else:
            # blt / fill: identical effect or FALSE with nothing changed, per configuration
            for ci, (lines, _) in enumerate(results):
                t = lines[ln].split(" ")
                st.execs += 1
                ret, unch, ok = t[0] == "ret=1", t[1] == "unchanged=1", t[2]
                st.bltfill[f"{'blt' if kind == 'B' else 'fill'}:{CONFIGS[ci][0]}:{'done' if ret else 'declined'}"] += 1
                bad = None
                if not ret and not unch:
                    bad = "reported failure but changed the destination"
                elif ret and ok == "copy_ok=0":
                    bad = "reported success but the destination is not the requested copy/fill"
                if bad:
                    st.diffs.append(dict(line=op, cfg=ci, out=lines[ln], ref=ref[ln], source=source, bltfill=bad))
            done = [(ci, lines[ln].split(" ")[4]) for ci, (lines, _) in enumerate(results) if lines[ln].startswith("ret=1")]
            for ci, hx in done[1:]:
                if hx != done[0][1]:
                    st.diffs.append(dict(line=op, cfg=ci, out=results[ci][0][ln], ref=results[done[0][0]][0][ln], source=source,
                                         bltfill="two implementations that both report success leave different destinations"))


def classify(ctx, exe, st, pool):
    """group the differences per request; recognise the two known deviation classes by running a control
    request (feature removed) under all configurations; everything else is reported with a specific signature"""
    per_req = collections.OrderedDict()
    for d in st.diffs:
        per_req.setdefault(d["line"], []).append(d)
    reported = collections.OrderedDict()
    cdir = ctx.scratch / "controls"
    cdir.mkdir(exist_ok=True)
    n_ctl = 0
    for line, ds in per_req.items():
        if line[0] != "C":
            kind = "pixman_blt" if line[0] == "B" else "pixman_fill"
            sig = f"{kind}|{ds[0]['bltfill']}|{CONFIGS[ds[0]['cfg']][0]}"
            reported.setdefault(sig, []).append((line, ds, ds[0]["bltfill"], None))
            continue
        r = parse_req(line)
        cls = None
        if r["d"]["dither"]:
            cls = "dither"
        elif wide_opaque_mask(r):
            cls = "widemask"
        detail = None
        if cls and n_ctl < 400:
            n_ctl += 1
            f = cdir / f"ctl{n_ctl}.txt"
            f.write_text(control_line(r, cls) + "\n" + line + "\n")
            res = exec_all(ctx, exe, f, cdir, pool)
            if all(e is None for _, e in res):
                ctl = [l[0].split(" ")[3] for l, _ in res]
                org = [l[1].split(" ")[3] for l, _ in res]
                fps = [l[1].split(" ")[0] for l, _ in res]
                ctl_same = all(c == ctl[REF] for c in ctl)
                # G: configurations in which the general path served the request (it sees the feature);
                # F: configurations in which a whole-operation path (noop/fast/mmx/sse2) served it and must have
                # produced exactly the control picture (feature ignored)
                G = [i for i in range(len(CONFIGS)) if fps[i].endswith("general:0")]     # incl. tiled-repeat -> nested general
                F = [i for i in range(len(CONFIGS)) if not fps[i].endswith("general:0")]
                g_same = all(org[i] == org[G[0]] for i in G) if G else False
                f_ctl = all(org[i] == ctl[i] for i in F) if F else False
                if cls == "dither" and ctl_same and g_same and f_ctl:
                    sig = "composite|destination with dither set: whole-operation paths ignore the dither, the general path applies it"
                    reported.setdefault(sig, []).append((line, ds, "dither ignored by " + ",".join(sorted({fps[i] for i in F})), None))
                    continue
                if cls == "widemask" and ctl_same and g_same and f_ctl:
                    delta = max_channel_delta(r, org[F[0]], org[G[0]])
                    bilinear_src = r["s"]["kind"] in "BP" and r["s"]["filter"] == 4 and r["s"]["has_t"]
                    if delta is not None and delta <= 1:
                        sig = "composite|opaque wide-format mask elided for dispatch: 8-bit whole-op path vs float pipeline, 1 LSB"
                        reported.setdefault(sig, []).append((line, ds, "8-bit path " + ",".join(sorted({fps[i] for i in F})) + " vs float pipeline, max channel delta 1", None))
                        continue
                    if delta is not None and delta <= 4 and bilinear_src:
                        sig = "composite|opaque wide-format mask elided for dispatch, bilinear source: 7-bit weights (8-bit path) vs float weights, <= 4 LSB"
                        reported.setdefault(sig, []).append((line, ds, "8-bit bilinear path " + ",".join(sorted({fps[i] for i in F})) + f" vs float pipeline, max channel delta {delta}", None))
                        continue
                    detail = f"wide opaque mask, but channel delta {delta} exceeds the class bound"
                else:
                    detail = (f"{cls}: control request {'agrees' if ctl_same else 'ALSO differs'} across configurations; general-path configurations "
                              f"{'agree' if g_same else 'differ among themselves'}; whole-op configurations {'equal' if f_ctl else 'do not equal'} the control picture")
        d0 = ds[0]
        hit = d0["out"].split(" ")[0]
        sig = f"composite|op={r['op']}|src={desc_img(r['s'])}|mask={desc_img(r['m'])}|dst={r['d']['fmt']:x}|{hit}|vs general-only"
        cfgs = ",".join(CONFIGS[d["cfg"]][0] for d in ds)
        reported.setdefault(sig, []).append((line, ds, f"configurations [{cfgs}] differ from general-only" + (f" ({detail})" if detail else ""), detail))
    n = 0
    for sig, items in reported.items():
        line, ds, text, _ = min(items, key=lambda it: len(it[0]))
        d0 = ds[0]
        if n >= 8:
            break
        if ctx.violation({"kind": "cross-configuration difference", "domain": "crossimpl", "request": line,
                          "env": {"PIXMAN_DISABLE": CONFIGS[d0["cfg"]][1]}, "reference_env": {"PIXMAN_DISABLE": CONFIGS[REF][1]},
                          "configurations_differing": [CONFIGS[d["cfg"]][0] for d in ds],
                          "output": d0["out"][:4000], "reference_output": d0["ref"][:4000], "source": d0["source"],
                          "count_in_run": len(items),
                          "how_to_replay": "bin/check C02 --replay <this file> (runs `harness/crossimpl exec` on the request under all 7 PIXMAN_DISABLE configurations)"},
                         signature=sig, what=f"{text}; e.g. request '{line[:300]}'", tag="xcfg"):
            n += 1
    return reported


def shadowed_entries(tab):
    """entries that can never be returned by the table walk because an earlier entry of the chain admits
    every request they admit (static dead entries of the unchanged tables)"""
    fps = [t for t in tab if t[0] == "FP"]
    dead = {}
    ANY, OPANY = 0x50000, None
    for j, e in enumerate(fps):
        for i in range(j):
            a = fps[i]
            opa, ope = int(a[3]), int(e[3])
            if not (opa == ope or opa == 64):
                continue
            ok = True
            for k in (4, 6, 8):
                if not (int(a[k], 16) == int(e[k], 16) or int(a[k], 16) == ANY):
                    ok = False
            for k in (5, 7, 9):
                if int(a[k], 16) & ~int(e[k], 16):
                    ok = False
            if ok:
                dead[f"fp:{e[1]}:{e[2]}"] = f"fp:{a[1]}:{a[2]}"
                break
    its = [t for t in tab if t[0] == "IT"]
    for j, e in enumerate(its):
        for i in range(j):
            a = its[i]
            if (int(a[3], 16) == int(e[3], 16) or int(a[3], 16) == ANY) and not (int(a[4], 16) & ~int(e[4], 16)) and not (int(a[5], 16) & ~int(e[5], 16)):
                dead[f"it:{e[1]}:{e[2]}"] = f"it:{a[1]}:{a[2]}"
                break
    return dead


def simd_stream(ctx, name, gen_cmd, env=None):
    """harness writes ops + impl; `pixdrv simd` answers the ops; returns (n, disagreements, extra impl lines)"""
    d = ctx.scratch / name
    d.mkdir(exist_ok=True)
    ops, impl, model = d / "ops.txt", d / "impl.txt", d / "model.txt"
    r = subprocess.run([str(x) for x in gen_cmd] + [str(ops), str(impl)], env=env or env_for(""), stdout=subprocess.DEVNULL, stderr=subprocess.PIPE, text=True)
    if r.returncode != 0:
        return 0, [(0, "(stream)", f"harness exit {r.returncode}: {r.stderr[-300:]}", "")], []
    okd = ctx.pixdrv("simd", ops, model)
    n, dis = diff_streams(ops, impl, model, limit=20)
    if not okd or n != count_lines(ops):
        dis.append((0, "(stream)", "driver failed or stream incomplete", ""))
    extra = impl.read_text().split("\n")[count_lines(ops):]
    return n, dis, [x for x in extra if x]


def run(ctx):
    broken = ctx.lean_obligations("Pixman.Props.C02", REQUIRED)
    quick = ctx.tier == "quick"
    b = ctx.build_pixman("plain")
    exe = ctx.cc("crossimpl", ["crossimpl.c"], b)
    kexe = ctx.cc("simdkern", ["simdkern.c", "simd_wb_sse2.c", "simd_wb_mmx.c", "simd_wb_ssse3.c"], b, extra=["-mssse3"])
    st = Stats()
    pool = ThreadPoolExecutor(max_workers=14)

    # tables of the live (default) chain
    tabf = ctx.scratch / "tables.txt"
    subprocess.run([str(exe), "tables", str(tabf)], env=env_for(""), check=False, stdout=subprocess.DEVNULL)
    tab = [l.split(" ") for l in tabf.read_text().split("\n") if l]
    all_entries = [f"fp:{t[1]}:{t[2]}" for t in tab if t[0] == "FP"] + [f"it:{t[1]}:{t[2]}" for t in tab if t[0] == "IT"]
    imps = [t for t in tab if t[0] == "IMP"]

    # 1. regression corpus
    cdir = VERIF / "corpus" / "crossimpl"
    for i, c in enumerate(sorted(cdir.glob("*.txt")) if cdir.exists() else []):
        d = ctx.scratch / f"corpus{i}"
        d.mkdir()
        lines = [l for l in c.read_text().split("\n")]
        compare(ctx, st, lines, exec_all(ctx, exe, c, d, pool), f"corpus/{c.name}")
    # 2. generated streams: every table entry targeted + random + blt/fill
    nstreams, per_entry, nrand, nbf = (3, 6, 5000, 600) if quick else (12, 24, 60000, 4000)
    for sidx in range(nstreams):
        d = ctx.scratch / f"stream{sidx}"
        d.mkdir()
        ops = d / "ops.txt"
        seed = ctx.seed * 1000 + sidx
        r = subprocess.run([str(exe), "gen", str(seed), str(per_entry), str(nrand), str(nbf), str(ops)], env=env_for(""),
                           stdout=subprocess.DEVNULL, stderr=subprocess.PIPE, text=True)
        if r.returncode != 0:
            st.errors.append(f"generator failed: {r.stderr[-300:]}")
            continue
        compare(ctx, st, ops.read_text().split("\n"), exec_all(ctx, exe, ops, d, pool), f"gen seed {seed}")
        for f in d.glob("out*.txt"):
            f.unlink()
    reported = classify(ctx, exe, st, pool)
    for e in st.errors[:3]:
        ctx.violation({"kind": "stream", "what": e}, signature="stream|" + re.sub(r"\d+", "N", e)[:80], what="crossimpl stream did not complete: " + e, found_input=False, tag="stream")

    # 3. D1: lookup histories (synthetic chains through the Lean model; live chain against an independent walk)
    nl = 1500 if quick else 20000
    lk_total, lk_live = 0, 0
    for cname, dis_env in (CONFIGS[0], CONFIGS[2], CONFIGS[5]):
        n, dis, extra = simd_stream(ctx, f"lookup-{cname}", [exe, "lookup", ctx.seed * 77 + len(cname), nl], env=env_for(dis_env))
        lk_total += n
        for (ln, op, a, m) in dis[:3]:
            ctx.violation({"kind": "lookup-history", "domain": "simd", "request": op[:6000], "implementation": a, "model": m, "env": {"PIXMAN_DISABLE": dis_env}},
                          signature=f"lookup-history|{cname}", what="fast-path cache: _pixman_implementation_lookup_composite and the Lean model (lookupCached) differ on a history", tag="lookup")
        for x in extra:
            mm = re.match(r"LIVE (\d+) lookups (\d+) mismatches", x)
            if mm:
                lk_live += int(mm.group(1))
                if int(mm.group(2)):
                    ctx.violation({"kind": "lookup-live", "lines": [y for y in extra if y.startswith("LIVE-MISMATCH")][:5], "env": {"PIXMAN_DISABLE": dis_env}},
                                  signature=f"lookup-live|{cname}", what="cached lookup on the live chain is not the table walk: " + "; ".join(y for y in extra if y.startswith("LIVE-MISMATCH"))[:500], tag="lookup")
    # 4. K: the real static-inline kernels of pixman-sse2.c / pixman-mmx.c / pixman-ssse3.c vs the Lean lane model
    nk = 60000 if quick else 600000
    kn, kdis, _ = simd_stream(ctx, "kernels", [kexe, "gen", ctx.seed, nk])
    khist = collections.Counter()
    kf = ctx.scratch / "kernels" / "ops.txt"
    if kf.exists():
        for l in kf.read_text().split("\n"):
            if l:
                khist[l.split(" ", 2)[1]] += 1
    for (ln, op, a, m) in kdis[:5]:
        kname = op.split(" ")[1] if " " in op else op
        ctx.violation({"kind": "kernel", "domain": "simd", "request": op, "implementation": a, "model": m},
                      signature=f"kernel|{kname}", what=f"SIMD kernel {kname}: the library's inline function and the Lean lane model differ on '{op}': {a} vs {m}", tag="kernel")

    if broken and not ctx.violations:
        ctx.broken_obligations_verdict(broken, "cross-configuration sweep over all table entries, random requests, lookup histories and kernel streams found no failing input")

    # ------------------------------------------------------------------ evidence
    dead = shadowed_entries(tab)
    hit = set(st.hits)
    per_imp = collections.OrderedDict()
    for t in imps:
        name = t[1]
        fp_all = [e for e in all_entries if e.startswith(f"fp:{name}:")]
        it_all = [e for e in all_entries if e.startswith(f"it:{name}:")]
        per_imp[name] = {"fast_paths_total": len(fp_all), "fast_paths_hit": len([e for e in fp_all if e in hit]),
                         "iters_total": len(it_all), "iters_hit": len([e for e in it_all if e in hit])}
    unhit = [e for e in all_entries if e not in hit]
    ent = {e: t for e, t in zip(all_entries, [t for t in tab if t[0] == "FP"] + [t for t in tab if t[0] == "IT"])}
    ctx.cov["evaluations"] = st.execs + lk_total + lk_live + kn
    ctx.cov["distinct_nontrivial"] = len(st.nontrivial)
    ctx.cov["traces_validated_against_impl"] = lk_total + kn
    ctx.cov["rule"] = ("requests = for every entry of every fast_paths[]/iter_info[] table of the live chain, images synthesised from the entry's "
                       "op/formats/flags (solid/bits/pixbuf, repeat, scale/rotate/affine transforms, nearest/bilinear/convolution, cover vs non-cover, component alpha), "
                       "width swept 1..35 plus a second class 48..300 (one request in six: multiples of the cache-line tile / vector size +-1, scaled by destination bpp), destination x 0..15 + pointer offsets 0/4/8/12, heights 1..3, tight/padded/negative strides, edge-biased pixels and structured runs (00/ff coverage, opaque/transparent/all-ones source runs of every phase, 01/fe edges; mask and source patterns correlated in a third of the requests); plus random "
                       "requests (53 operators, wide formats, gradients, clips, dither) and pixman_blt/pixman_fill; each executed in 7 processes (PIXMAN_DISABLE "
                       "configurations) and compared byte for byte (undefined x-bits of the destination format cleared) with general-only. "
                       "distinct_nontrivial = distinct composite requests (op != DST) that were served by a non-general fast path or iterator in at least one configuration "
                       "(observed through trampolines installed in every table, not assumed)")
    ctx.cov["samples"] = st.samples[:5] or ["(none)"]
    ctx.extra.update({
        "configurations": [{"name": n, "PIXMAN_DISABLE": d} for n, d in CONFIGS],
        "table_entries_total": len(all_entries), "table_entries_hit": len(all_entries) - len(unhit),
        "table_entries_per_implementation": per_imp,
        "table_entries_not_hit": [{"entry": e, "row": " ".join(ent[e][3:]), "statically_shadowed_by": dead.get(e),
                                   "note": ("dead entry: an earlier entry admits every request it admits" if e in dead else
                                            "op OVER with an alpha-less source is rewritten to SRC by optimize_operator before dispatch" if (ent[e][0] == "FP" and ent[e][3] == "3" and ent[e][4] in ("20020888", "20030888") and ent[e][6] == "0") else
                                            "not reached by the generator in this run")} for e in unhit],
        "requests": st.requests, "executions": st.execs,
        "width_histogram": {str(k): v for k, v in sorted(st.widths.items())},
        "dest_first_pixel_alignment_mod16_histogram": {str(k): v for k, v in sorted(st.align.items())},
        "height_histogram": {str(k): v for k, v in sorted(st.heights.items())},
        "dest_stride_histogram": dict(st.strides),
        "operator_histogram": {OPNAMES.get(k, hex(k)): v for k, v in sorted(st.ops.items())},
        "blt_fill_outcomes": dict(st.bltfill),
        "requests_differing_only_in_undefined_x_bits": st.xbits_only,
        "lookup_history_steps_model": lk_total, "lookup_live_chain_lookups": lk_live,
        "kernel_evaluations": kn, "kernel_histogram": dict(khist),
        "known_deviation_classes_seen": {s: len(v) for s, v in reported.items()},
    })
    ctx.assumptions += [
        "EntrySound (every table entry refines the general path on the requests its guard admits) is validated by the differential sweep, not proved; D2 is conditional on it",
        "SIMD loop structure (head/body/tail, alignment branches) is compiled code outside the Lean model: covered only by the sweep over widths 1..35 x alignments",
        "host CPU provides MMX, SSE2 and SSSE3 (the chain noop,ssse3,sse2,mmx,fast,general is checked at start; a shorter chain aborts the run)",
        "indexed/gray and YUV formats, alpha maps and accessor (read/write function) images are not generated",
    ]


def replay(ctx, path):
    obj = json.loads(open(path).read())
    if obj.get("kind") in ("broken-proof-obligation", "build", "harness-build", "stream"):
        log(f"replay of kind {obj.get('kind')}: re-run the check itself")
        return
    b = ctx.build_pixman("plain")
    if obj.get("domain") == "simd":
        ctx.lean_obligations("Pixman.Props.C02", [])
        d = ctx.scratch / "replay"; d.mkdir()
        (d / "ops.txt").write_text(obj["request"] + "\n")
        ctx.pixdrv("simd", d / "ops.txt", d / "model.txt")
        m = (d / "model.txt").read_text().strip()
        log(f"  {obj['request'][:200]}\n  library (recorded) {obj.get('implementation')}\n  model {m}")
        if m != obj.get("implementation"):
            ctx.violation(dict(obj, replayed=True), signature=obj.get("signature"), what=obj.get("what", "replayed"), tag="replay")
        return
    exe = ctx.cc("crossimpl", ["crossimpl.c"], b)
    d = ctx.scratch / "replay"; d.mkdir()
    f = d / "ops.txt"
    f.write_text(obj["request"] + "\n")
    pool = ThreadPoolExecutor(max_workers=7)
    st = Stats()
    res = exec_all(ctx, exe, f, d, pool)
    for (n, dis), (lines, err) in zip(CONFIGS, res):
        log(f"  PIXMAN_DISABLE={dis!r:28} -> {err or lines[0][:160]}")
    compare(ctx, st, [obj["request"]], res, "replay")
    ctx.cov["evaluations"] = st.execs
    if st.diffs or st.errors:
        classify(ctx, exe, st, pool)
    else:
        log("replay: all configurations agree on this request now")

"""C04 — no access outside the pixel storage the caller described, for any request.

Proof obligations: Pixman.Props.C04 (+ the coordinate core Pixman.Props.C04Core); models
lean/Pixman/Model/Extent.lean (compute_transformed_extents, analyze_extent, the cover flags, the
coordinate walks, pad_repeat_get_scanline_bounds), Model/Alloc.lean (pixman_malloc_ab*, create_bits),
Model/Sample.lean (repeat).

Correspondence (domain `extent`): harness/extent.c + white-box extent_wb.c (the static functions of
pixman/pixman.c and pixman-inlines.h, reached by #include of the source) against `pixdrv extent`, with an
independent exact-arithmetic oracle inside the harness (every pixel of the extents re-transformed with
pixman_transform_point_3d and compared with the flags).

Runtime oracle (memory safety itself is observed, not proved): harness/guard.c draws into / from
exactly-sized pixel buffers placed flush against PROT_NONE pages (after the end; in a second pass before the
start) under every implementation configuration; a SIGSEGV/SIGBUS is caught and attributed to the request
line, which is the replay.  A smaller sweep runs against an ASan+UBSan build of the library."""
import collections, json, os, re, subprocess
from concurrent.futures import ThreadPoolExecutor
from engine.core import log, sh, VERIF, REPO

REQUIRED = [
    # S5 repeat, S1 core (Props/C04Core.lean)
    "Pixman.Props.C04Core.repeat_in_range",
    "Pixman.Props.C04Core.repeat_none",
    "Pixman.Props.C04Core.repeat_normal_spec",
    "Pixman.Props.C04Core.repeat_pad_spec",
    "Pixman.Props.C04Core.repeat_reflect_spec",
    "Pixman.Props.C04Core.affine_linearity",
    "Pixman.Props.C04Core.stepped_linear",
    "Pixman.Props.C04Core.affine_stepping_exact",
    # S1 on the model, corners
    "Pixman.Props.C04.sample_affine_linear",
    "Pixman.Props.C04.extremes_at_corners",
    "Pixman.Props.C04.transformed_extents_contain",
    # shape of analyze_extent, S2, S3
    "Pixman.Props.C04.analyzeExtent_cases",
    "Pixman.Props.C04.cover_nearest_sound",
    "Pixman.Props.C04.cover_bilinear_sound",
    # images without pixels (fix d0c8131)
    "Pixman.Props.C04.empty_repeat_dropped",
    "Pixman.Props.C04.accepted_empty_is_repeat_none",
    "Pixman.Props.C04.cover_flag_empty_image",
    # S4 (+S1: the walk), S9, no assert reachable
    "Pixman.Props.C04.range_test_sound",
    "Pixman.Props.C04.range_id_branch",
    "Pixman.Props.C04.walk_exact_no_wrap",
    "Pixman.Props.C04.cte_never_aborts",
    "Pixman.Props.C04.analyzeExtent_never_aborts",
    "Pixman.Props.C04.unrepresentable_dropped",
    "Pixman.Props.C04.unrepresentable_corner_dropped_partial",
    # S6
    "Pixman.Props.C04.pad_bounds",
    # S10: NORMAL-repeat split of the scaled-bilinear main loop (regenerated num_pixels bounds bridged to the model)
    "Pixman.Props.C04.wrapNumPixels_bridge",
    "Pixman.Props.C04.plainNumPixels_bridge",
    "Pixman.Props.C04.plain_segment_in_row",
    "Pixman.Props.C04.wrap_segment_in_buffer",
    "Pixman.Props.C04.normalStep_safe",
    "Pixman.Props.C04.normalLoop_safe",
    # S7
    "Pixman.Props.C04.mallocAb_sound",
    "Pixman.Props.C04.mallocAbc_sound",
    "Pixman.Props.C04.mallocAbPlusC_sound",
    "Pixman.Props.C04.createBits_sound",
]

WB_SYMS = ["wb_analyze_extent", "wb_compute_transformed_extents", "wb_repeat", "wb_pad_bounds",
           "wb_cover_nearest_flag", "wb_cover_bilinear_flag", "wb_id_transform_flag"]
CONFIGS = ["", "ssse3", "ssse3 sse2", "ssse3 sse2 mmx", "fast mmx sse2 ssse3"]
NONTRIVIAL_OPS = ("ae", "cte", "pad", "cb")


def harness_failure(ctx, name, what, out):
    path = ctx.write_replay({"kind": "harness-build", "name": name, "what": what, "log_tail": out[-4000:]}, tag="harness")
    log(f"VIOLATION property={ctx.pid} replay={path} no-failing-input-found")
    ctx.violations.append({"replay": str(path)})
    ctx.finish(force_exit=1)


def build_extent(ctx):
    b = ctx.build_pixman("plain")
    wb = ctx.scratch / "extent_wb.o"
    cmd = ["gcc", "-O2", "-g", "-DHAVE_CONFIG_H", "-DPIXMAN_VERIF", "-I", str(VERIF / "harness")] + b["inc"] + \
          ["-c", str(VERIF / "harness" / "extent_wb.c"), "-o", str(wb)]
    r = sh(cmd)
    if r.returncode == 0:
        r = sh(["objcopy"] + sum((["-G", s] for s in WB_SYMS), []) + [str(wb)])
    if r.returncode != 0:
        harness_failure(ctx, "extent_wb", "white-box unit no longer compiles against /repo/pixman/pixman.c "
                        "(analyze_extent / compute_transformed_extents / repeat / pad_repeat_get_scanline_bounds changed interface)", r.stdout)
    return ctx.cc("extent", ["extent.c"], b, extra=[str(wb)], wrap=["malloc", "calloc"])


def sig_of(kind, op, text):
    m = re.search(r"\[([^\]]*)\]\s*$", text or "")
    shape = m.group(1) if m else ""
    return f"{op}|{kind}|{shape}" if kind == "oracle" else f"{op}|model-differs"


def run_extent(ctx, nper, nstreams):
    exe = build_extent(ctx)
    cdir = VERIF / "corpus" / "extent"
    corpus = sorted(cdir.glob("*.txt")) if cdir.exists() else []

    def one(i):
        d = ctx.scratch / f"es{i}"
        d.mkdir(exist_ok=True)
        ops, impl, orc, model = d / "ops.txt", d / "impl.txt", d / "oracle.txt", d / "model.txt"
        if i < len(corpus):
            ops.write_text("".join(l for l in corpus[i].read_text().splitlines(True) if not l.startswith("#")))
            subprocess.run([str(exe), "exec", str(ops), str(impl), str(orc)], stderr=subprocess.DEVNULL)
        else:
            seed = ctx.seed * 1000 + i
            subprocess.run([str(exe), "gen", str(seed), str(nper), str(ops), str(impl), str(orc)], stderr=subprocess.DEVNULL)
        ctx.pixdrv("extent", ops, model)
        return ops, impl, orc, model

    with ThreadPoolExecutor(max_workers=8) as ex:
        results = list(ex.map(one, range(len(corpus) + nstreams)))

    stats, ops_hist, answers = collections.Counter(), collections.Counter(), collections.Counter()
    nontrivial, samples, findings = set(), [], []
    total = compared = 0
    for ops, impl, orc, model in results:
        lo = ops.read_text().split("\n")
        li = impl.read_text().split("\n")
        lm = model.read_text().split("\n")
        if lo and lo[-1] == "":
            lo.pop()
        n = len(lo)
        total += n
        if len(li) < n or len(lm) < n:
            findings.append(("stream", "stream", str(ops), None, None, "harness or driver produced fewer lines than requests [stream|short]"))
        for k in range(min(n, len(li), len(lm))):
            req = lo[k]
            if not req:
                continue
            op = req.split(" ", 1)[0]
            ops_hist[op] += 1
            a, m = li[k].strip(), lm[k].strip()
            compared += 1
            if a != m:
                findings.append(("disagree", op, req, a, m, "model and implementation differ"))
            if op == "ae":
                answers["ae " + a] += 1
            if op in NONTRIVIAL_OPS and a not in ("0", "0 0 0", "NULL", "CRASH") and " + " in req + " " or op in ("pad", "cb") and a not in ("NULL", "CRASH"):
                nontrivial.add(hash(req))
                if len(samples) < 8 and sum(1 for s in samples if s.startswith(op + " ")) < 2:
                    samples.append(req + "  =>  " + a)
        for ol in orc.read_text().splitlines():
            mm = re.match(r"ORACLE (\d+) (.*)", ol.strip())
            if mm:
                ln, text = int(mm.group(1)), mm.group(2)
                req = lo[ln - 1] if 0 < ln <= n else "?"
                a = li[ln - 1].strip() if 0 < ln <= len(li) else None
                findings.append(("oracle", req.split(" ", 1)[0], req, a, None, text))
                continue
            mm = re.match(r"STAT (\d+) (.*)", ol.strip())
            if mm:
                stats[mm.group(2)] += int(mm.group(1))
    ctx.cov["evaluations"] += total
    ctx.cov["distinct_nontrivial"] += len(nontrivial)
    ctx.cov["traces_validated_against_impl"] += compared
    ctx.cov["samples"] += samples
    ctx.extra["extent_operation_histogram"] = dict(ops_hist)
    ctx.extra["extent_analyze_extent_answers(ret nearest bilinear)"] = dict(answers)
    ctx.extra["extent_harness_statistics"] = dict(stats)
    return findings


def report(ctx, findings, domain, limit=8):
    seen = collections.OrderedDict()
    for kind, op, req, a, m, text in findings:
        seen.setdefault(sig_of(kind, op, text), []).append((kind, op, req, a, m, text))
    n = 0
    summary = {}
    for sig, items in seen.items():
        kind, op, req, a, m, text = min(items, key=lambda it: len(it[2]))
        summary[sig] = len(items)
        if n >= limit:
            continue
        if ctx.violation({"kind": kind, "domain": domain, "request": req, "implementation": a, "model": m, "oracle": text,
                          "how_to_replay": "bin/check C04 --replay <this file>",
                          "count_in_run": len(items)}, signature=sig, what=f"{op}: {text}", tag=op):
            n += 1
    ctx.extra.setdefault("finding_signatures", {}).update(summary)


def run(ctx):
    broken = ctx.lean_obligations("Pixman.Props.C04", REQUIRED, extra_modules=["Pixman.Props.C04Core"])
    quick = ctx.tier == "quick"
    findings = run_extent(ctx, 40000 if quick else 250000, 8 if quick else 32)
    report(ctx, findings, "extent")
    from checks import guardcommon
    guardcommon.run_guard(ctx, CONFIGS, quick)
    ctx.cov["rule"] = RULE
    if broken and not ctx.violations:
        ctx.broken_obligations_verdict(broken, "extent correspondence, exact-arithmetic oracle and guard-page sweep found no failing input")
    ctx.level = "proof"      # the theorems; the runtime part is an executed sweep and is declared as such below
    ctx.extra["partial"] = ("memory safety of the compiled fetchers/combiners/SIMD loops is established only for the executed guard-page "
                            "(and, thorough tier, AddressSanitizer) sweep; the proof level covers the request analysis, coordinate walks, repeat, "
                            "pad bounds and allocation arithmetic of the model tied to the code by the extent correspondence")
    ctx.assumptions += ASSUMPTIONS


RULE = ("extent domain, independent requests: analyze_extent on images {bits 92%, solid 8%} of size {0 (8% of the bits images, every repeat mode),1,2,3,small,32765..32768,65536,100000}, "
        "filters {FAST,GOOD,BEST,NEAREST,BILINEAR,CONVOLUTION,SEPARABLE_CONVOLUTION,invalid} with convolution sizes 1..9 px or arbitrary, extents "
        "from 16-bit edge values/small/related to the image size, transforms {none 15%, integer translation 10%, BOUNDARY-CONSTRUCTED 45%: scale(+shear) whose "
        "translation is solved so that the extreme corner sample of the (expanded) extents lands on a decision boundary +-2 units: 0/e, 1/2, w, w-1/2, "
        "+-2^31 -+ footprint -+ 8e; arbitrary affine 15%; projective 15%}; compute_transformed_extents alone; pad_repeat_get_scanline_bounds with vx "
        "at 0, w<<16, multiples of unit_x +-2; repeat() all four modes around multiples of size; pixman_malloc_ab/abc/ab_plus_c and the overflow predicates "
        "around INT32_MAX/b +-2; create_bits via pixman_image_create_bits(NULL bits) for 16 formats (1..128 bpp) with widths around INT32_MAX/bpp. "
        "non-trivial = modelled request with a transform answered TRUE, or pad/create_bits answered with storage; distinct by request text. "
        "guard domain: see guard_rule in the evidence")

ASSUMPTIONS = [
    "memory safety of the compiled fetchers, combiners and SIMD loops is a runtime fact: it is observed on the executed guard-page/ASan sweep only (level partial); "
    "the theorems cover the request analysis (cover flags, 16.16 range test), the coordinate arithmetic of the walks, repeat(), pad_repeat_get_scanline_bounds and the allocation size arithmetic",
    "S2/S3/S4 are stated for affine transforms (last row 0 0 1.0) and no transform: the cover flags are consulted only by routines that require FAST_PATH_AFFINE_TRANSFORM/SCALE_TRANSFORM or "
    "ID_TRANSFORM (pixman-bits-image.c fetcher table, pixman-fast-path.c, pixman-sse2.c, pixman-ssse3.c, pixman-mmx.c); projective sources always take the bounds-checked general fetchers",
    "pixel storage of an image = height x |stride| bytes starting at the lowest-addressed row (padding bytes between rows belong to the storage)",
    "pixman_malloc_ab_plus_c is specified for c <= INT32_MAX (its one caller passes 45); for c > INT32_MAX the unsigned test `a*b > INT32_MAX - c` wraps and a too-small block can be returned "
    "(pinned as an `example` in Props/C04.lean; unreachable through the library's callers)",
    "division by zero inside pixman_malloc_ab/abc (b = 0) and create_bits (format code with 0 bpp) is modelled as CRASH and observed as SIGFPE; no caller passes b = 0, and a format code 0 is not a pixel format",
    "malloc/calloc themselves (success, alignment) are outside the model; overflow-sized requests are observed through --wrap=malloc/calloc without being served",
]


def replay(ctx, path):
    obj = json.loads(open(path).read())
    req = obj.get("request")
    dom = obj.get("domain", "extent")
    if not req:
        log(f"replay: {path} carries no request line ({obj.get('kind')}): {obj.get('what')}")
        return
    if dom == "guard":
        from checks import guardcommon
        guardcommon.replay_guard(ctx, obj)
        return
    exe = build_extent(ctx)
    sh(["lake", "build", "pixdrv"], cwd=VERIF / "lean")
    d = ctx.scratch / "replay"
    d.mkdir(exist_ok=True)
    ops, impl, orc, model = d / "ops.txt", d / "impl.txt", d / "oracle.txt", d / "model.txt"
    ops.write_text(req + "\n")
    subprocess.run([str(exe), "exec", str(ops), str(impl), str(orc)], stderr=subprocess.DEVNULL)
    ctx.pixdrv("extent", ops, model)
    a, m = impl.read_text().strip(), model.read_text().strip()
    log(f"request:        {req}\nimplementation: {a}\nmodel:          {m}")
    findings = []
    op = req.split(" ", 1)[0]
    if a != m:
        findings.append(("disagree", op, req, a, m, "model and implementation differ"))
    for ol in orc.read_text().splitlines():
        mm = re.match(r"ORACLE (\d+) (.*)", ol.strip())
        if mm:
            log("oracle:         " + mm.group(2))
            findings.append(("oracle", op, req, a, None, mm.group(2)))
    ctx.cov["evaluations"] = 1
    report(ctx, findings, "extent")
    if not findings:
        log("replay: the request no longer fails")

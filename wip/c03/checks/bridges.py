"""Bridge obligations: regenerated C functions (lean/Pixman/Gen/CFuncs.lean, rewritten from /repo's working
tree on every run by tools/gen_cfuncs.py) = the hand-written models (lean/Pixman/Props/Bridges.lean).

A property's check adds its entries to the obligation list it passes to `ctx.lean_obligations`, and
`BRIDGE_MODULE` to `extra_modules`:

    from checks.bridges import REQUIRED_BRIDGES, BRIDGE_MODULE
    broken = ctx.lean_obligations("Pixman.Props.C11", REQUIRED + REQUIRED_BRIDGES["C11"], extra_modules=(BRIDGE_MODULE,))

A change of the C source that changes the value of a translated function breaks its bridge (or the
extraction itself, when the translator no longer understands the text), also on inputs the correspondence
generator does not sample."""
BRIDGE_MODULE = "Pixman.Props.Bridges"
_P = "Pixman.Props.Bridges."

_U = ["src_u_m"] + [f"{n}_u_{v}" for n in ("over", "over_reverse", "in", "in_reverse", "out", "out_reverse", "atop",
                                           "atop_reverse", "xor", "add", "multiply") for v in ("m", "n")]
_CA = [f"{n}_ca" for n in ("src", "over", "over_reverse", "in", "in_reverse", "out", "out_reverse", "atop",
                           "atop_reverse", "xor", "add", "multiply")]

REQUIRED_BRIDGES = {
    # pixman-combine32.c: per-pixel bodies of the narrow combiners (+ the mask helpers)
    "C01": [_P + n for n in
            ["combine_mask_m_eq", "combine_mask_n_eq", "combine_mask_ca_eq", "combine_mask_value_ca_eq",
             "combine_mask_alpha_ca_eq"] + [f"combine_{x}_eq" for x in _U + _CA]],
    # pixman-private.h: the scalar 565 references of the SIMD paths
    "C02": [_P + n for n in ["convert_8888_to_0565_eq", "convert_0565_to_0888_eq", "convert_0565_to_8888_eq"]],
    # pixman-inlines.h pad bounds; pixman-utils.c overflow predicates / pixman_malloc_ab* (Model/Alloc)
    "C04": [_P + n for n in ["repeat_eq", "pad_repeat_get_scanline_bounds_eq", "pixman_malloc_ab_eq", "pixman_malloc_abc_eq",
                             "pixman_malloc_ab_plus_c_eq", "_pixman_multiply_overflows_int_eq",
                             "_pixman_multiply_overflows_size_eq", "_pixman_addition_overflows_int_eq"]],
    "C08": [_P + "pixman_fixed_to_bilinear_weight_eq", _P + "repeat_eq", _P + "bilinear_interpolation_eq"],
    "C10": [_P + "unorm_to_unorm_eq"],
    # pixman-matrix.c: the 128-bit helpers
    "C11": [_P + n for n in ["rounded_udiv_128_by_48_eq", "rounded_udiv_128_by_48_ok_eq", "rounded_udiv_128_by_48_bridge",
                             "rounded_sdiv_128_by_49_eq", "rounded_sdiv_128_by_49_ok_eq", "rounded_sdiv_128_by_49_bridge",
                             "fixed_64_16_to_int128_eq", "fixed_112_16_to_fixed_48_16_eq"]],
    # pixman-trap.c: sample grid rows per depth, edge stepping
    "C12": [_P + n for n in [f"pixman_sample_{d}_y_{n}_eq" for d in ("ceil", "floor") for n in (1, 4, 8)] +
            ["pixman_edge_step_eq", "_pixman_edge_multi_init_eq"]],
    "C15": [_P + n for n in ["pixman_malloc_ab_eq", "pixman_malloc_abc_eq", "pixman_malloc_ab_plus_c_eq"]],
    "C17": [_P + "glyph_hash_eq"],
    "C19": [_P + n for n in ["color_to_uint32_eq", "convert_8888_to_0565_eq_fill"]],
}
ALL_BRIDGES = sorted({t for v in REQUIRED_BRIDGES.values() for t in v})

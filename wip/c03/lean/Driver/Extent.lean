import Pixman.Model.Extent
import Pixman.Model.Alloc
import Pixman.Model.Sample
import Driver.Matrix
/-! Line-protocol driver for the extent domain (C04).  One request per line, one reply per line.
    Integers in decimal; an optional transform is `-` or `+` and 9 integers (as in the matrix domain);
    an image is `-` (NULL) or `<isBits> <w> <h> <idflag> <filter> <p0> <p1> <optT>`. -/
namespace Driver.Extent
open Pixman.Matrix Pixman.Model.Extent Pixman.Model.Alloc Driver.Matrix

def bool : P Bool := do let x ← int; pure (x != 0)
def box : P Box32 := do return ⟨← i32, ← i32, ← i32, ← i32⟩
def image : P Image := do
  return ⟨← bool, ← i32, ← i32, ← bool, ← i32, ← i32, ← i32, ← optTransform⟩
def optImage : P (Option Image) := fun s =>
  match s with
  | "-" :: r => some (none, r)
  | _ => (do let i ← image; pure (some i)) s
def u32 : P Int := do let x ← int; if 0 ≤ x ∧ x < 4294967296 then pure x else failure

def fmtOutcome : Outcome → String
  | .crash => "CRASH"
  | .null => "NULL"
  | .alloc n => s!"ALLOC {n}"
def fmtOB : Option Bool → String
  | none => "CRASH"
  | some b => fmtB b
def mode : P Pixman.Sample.RepeatMode := do
  match ← int with
  | 0 => pure .none
  | 1 => pure .normal
  | 2 => pure .pad
  | 3 => pure .reflect
  | _ => failure

def sizeMax : Int := 18446744073709551615

def request : P String := do
  let op ← tok
  match op with
  | "cte" => do
    let t ← optTransform; let e ← box
    match computeTransformedExtents t e with
    | .abort => pure "ABORT"
    | .no => pure "0"
    | .ok b => pure s!"1 {b.x1} {b.y1} {b.x2} {b.y2}"
  | "ae" => do
    let i ← optImage; let e ← box
    match analyzeExtentOpt i e with
    | .abort => pure "ABORT"
    | .no => pure "0 0 0"
    | .ok (r, f) => pure s!"{fmtB r} {fmtB f.nearest} {fmtB f.bilinear}"
  | "pad" => do
    let w ← i32; let vx ← i32; let ux ← i32; let width ← i32
    if ux = 0 then pure "CRASH" else
    let (w', l, r) := padRepeatGetScanlineBounds w vx ux width
    pure s!"{w'} {l} {r}"
  | "rep" => do
    let m ← mode; let c ← i32; let size ← i32
    if size ≤ 0 then failure else
    match Pixman.Sample.repeat m c size with
    | none => pure "0"
    | some c' => pure s!"1 {c'}"
  | "mab" => do let a ← u32; let b ← u32; pure (fmtOutcome (mallocAb a b))
  | "mabc" => do let a ← u32; let b ← u32; let c ← u32; pure (fmtOutcome (mallocAbc a b c))
  | "mabpc" => do let a ← u32; let b ← u32; let c ← u32; pure (fmtOutcome (mallocAbPlusC a b c))
  | "movi" => do let a ← u32; let b ← u32; pure (fmtOB (multiplyOverflowsInt a b))
  | "aovi" => do let a ← u32; let b ← u32; pure (fmtB (additionOverflowsInt a b))
  | "movs" => do let a ← u64; let b ← u64; pure (fmtOB (multiplyOverflowsSize sizeMax a b))
  | "cb" => do
    let bpp ← i32; let w ← i32; let h ← i32; let _fmt ← u32   -- format code: for the harness only
    match createBits sizeMax bpp w h with
    | .crash => pure "CRASH"
    | .null => pure "NULL"
    | .ok s n => pure s!"OK {s} {n}"
  | _ => failure

def handle (line : String) : String :=
  let toks := (line.trimAscii.toString.splitOn " ").filter (· ≠ "")
  match request.run toks with
  | some (out, []) => out
  | some (_, _) => "bad-trailing"
  | none => "bad-op"

end Driver.Extent

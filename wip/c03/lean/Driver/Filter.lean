import Pixman.Model.Filter
/-! Line-protocol driver for the filter domain (C18).  One request per line, one reply per line.

    create <rx> <sx> <scale_x> <bits_x> <ry> <sy> <scale_y> <bits_y>
        reply: n_values p0 p1 p2 p3 accepted      (exact width model, layout, set_filter's test), or NULL
    x1s <w> <bits>
        reply: first tap position of every phase
    block <wx> <bx> <wy> <by> <g> <ng> <raw x: wx*2^bx> <pre x> <raw y: wy*2^by> <pre y>
        reply: cells 4 … n_values-1 after `createBlock` run on a memory of n_values+ng cells all holding g,
               then `G` and the ng cells behind the block -/
namespace Driver.Filter
open Pixman.Model.Filter

def parseInts (ts : List String) : Option (List Int) := ts.mapM String.toInt?

def fmtInts (l : List Int) : String := " ".intercalate (l.map toString)

def doCreate (a : List Int) : String :=
  match a with
  | [rx, sx, scx, bx, ry, sy, scy, by_] =>
    let wx := filterWidth rx.toNat sx.toNat scx
    let wy := filterWidth ry.toNat sy.toNat scy
    if createRefuses wx wy then "NULL" else
    let nv := nValues wx bx.toNat wy by_.toNat
    let h := header wx bx.toNat wy by_.toNat
    match h with
    | [p0, p1, p2, p3] =>
      let acc := setFilterAccepts p0 p1 p2 p3 nv
      fmtInts [nv, p0, p1, p2, p3, if acc then 1 else 0]
    | _ => "ERR"
  | _ => "ERR create"

def doX1s (a : List Int) : String :=
  match a with
  | [w, bits] =>
    let n := 2 ^ bits.toNat
    fmtInts ((List.range n).map fun i => firstTap w.toNat n i)
  | _ => "ERR x1s"

def doBlock (a : List Int) : String :=
  match a with
  | wx :: bx :: wy :: by_ :: g :: ng :: rest =>
    let wx := wx.toNat; let bx := bx.toNat; let wy := wy.toNat; let by_ := by_.toNat; let ng := ng.toNat
    let cx := wx * 2 ^ bx
    let cy := wy * 2 ^ by_
    let vals := rest.toArray
    if vals.size != 2 * cx + 2 * cy then "ERR block length" else
    let rawx := fun i k => vals.getD (i * wx + k) 0
    let prex := fun i k => vals.getD (cx + i * wx + k) 0
    let rawy := fun i k => vals.getD (2 * cx + i * wy + k) 0
    let prey := fun i k => vals.getD (2 * cx + cy + i * wy + k) 0
    let nv := 4 + cx + cy
    let m := createBlock wx bx wy by_ rawx prex rawy prey (Array.replicate (nv + ng) g)
    let cells := (m.extract 4 nv).toList
    let guard := (m.extract nv (nv + ng)).toList
    String.join (cells.map fun c => toString c ++ " ") ++ "G" ++ String.join (guard.map fun c => " " ++ toString c)
  | _ => "ERR block"

def handle (line : String) : String :=
  match (line.trimAscii.toString.splitOn " ").filter (· ≠ "") with
  | [] => ""
  | op :: ts =>
    match parseInts ts with
    | none => "ERR parse"
    | some a =>
      if op == "create" then doCreate a
      else if op == "x1s" then doX1s a
      else if op == "block" then doBlock a
      else "ERR op"

end Driver.Filter

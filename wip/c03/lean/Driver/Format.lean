import Pixman.Model.Format
/-! Line-protocol driver of the `format` domain (C10).  One request per line:

* `F  <fmt> <mode> <pal> <x> <w> <rowhex>`            fetch `w` pixels from `x` to a8r8g8b8; `mode` starts with
  `s` (scanline reader) or `p` (single-pixel reader); further letters of `mode` describe how the
  harness presented the image (accessor callbacks, ...) and are ignored.  Reply: `w` 8-digit hex words.
* `S  <fmt> <mode> <pal> <x> <rowhex> <valueshex>`    store a8r8g8b8 values (8 digits each) at `x`; `mode`
  starts with `r` (reply = raw row bytes afterwards) or `m` (bits of the stored pixels outside the
  format's channel fields are cleared in the reply).  Reply: row bytes in hex.
* `FW <fmt> <mode> <pal> <x> <w> <rowhex>`            fetch to float; reply: `a r g b` per pixel as exact `n/d`.
* `SW <fmt> <mode> <pal> <x> <rowhex> <floatbits>`    store float pixels (4 × 8 hex digits `a r g b` IEEE bit
  patterns per pixel, decoded exactly); reply as for `S`.
* `Y  <yuy2|yv12> <mode> <geom> <x> <w> <hex>`        fetch a YUV format to a8r8g8b8; `geom` is `0` for yuy2 (one row)
  and `<stride bytes>:<height>:<line>` for yv12 (`hex` = the whole planar buffer).
* `YW ...` the same source fetched to rgba_float (reply as `FW`), `YX ...` to a2r10g10b10 (reply: 8-digit hex words):
  `fetch_*_generic_float` = `pixman_expand_to_float` of the 32-bit fetch, then the float store of the destination.

`pal`: 0 no palette, 1 the consistent palette of the format, ≥ 2 a hash palette with that seed
(formulas shared with harness/format.c). -/
namespace Driver.Format
open Pixman.Model.Format
open Pixman.Gen.Formats (Rec formats)

def hexDigit (c : Char) : Option Nat :=
  if '0' ≤ c ∧ c ≤ '9' then some (c.toNat - '0'.toNat)
  else if 'a' ≤ c ∧ c ≤ 'f' then some (c.toNat - 'a'.toNat + 10)
  else if 'A' ≤ c ∧ c ≤ 'F' then some (c.toNat - 'A'.toNat + 10)
  else none

/-- hex string → list of `k`-digit numbers (big-endian digits within a group) -/
def hexGroups (k : Nat) (s : String) : Option (Array Nat) := Id.run do
  let mut out : Array Nat := #[]
  let mut cur := 0
  let mut n := 0
  for c in s.toList do
    match hexDigit c with
    | none => return none
    | some d =>
      cur := cur * 16 + d
      n := n + 1
      if n == k then
        out := out.push cur
        cur := 0
        n := 0
  if n != 0 then return none
  return some out

def hexNat (width : Nat) (v : Nat) : String :=
  let ds := (Nat.toDigits 16 v)
  String.ofList (List.replicate (width - ds.length) '0' ++ ds)

def hash32 (seed i : Nat) : Nat :=
  let h := ((i + seed * 7919 + 1) * 2654435761) % 4294967296
  let h := h ^^^ (h >>> 15)
  let h := (h * 2246822519) % 4294967296
  h ^^^ (h >>> 13)

/-- the palettes the harness installs with `pixman_image_set_indexed` -/
def mkPalette (kind f : Nat) : Palette :=
  if kind = 1 then
    if fmtType f = Pixman.Gen.Formats.TYPE_GRAY then
      let n := 1 <<< fmtBpp f
      { rgba := fun i => 0xff000000 ||| ((i * 255 / (n - 1)) * 0x010101)
        ent := fun j => ((j >>> 7) * (n - 1) + 127) / 255 }
    else
      { rgba := fun i => 0xff000000 ||| (((i >>> 5) <<< 5) <<< 16) ||| ((((i >>> 2) &&& 7) <<< 5) <<< 8) ||| ((i &&& 3) <<< 6)
        ent := fun key => (((key >>> 12) &&& 7) <<< 5) ||| (((key >>> 7) &&& 7) <<< 2) ||| ((key >>> 3) &&& 3) }
  else
    { rgba := fun i => hash32 kind i, ent := fun j => hash32 kind (j + 256) >>> 24 }

def findFmt (name : String) : Option Rec := formats.find? (fun r => r.name == name)

def base : Nat := 64

def memOf (bytes : Array Nat) : Mem := fun a => if a ≥ base then bytes.getD (a - base) 0 else 0

/-- bytes `base .. base+n` of a memory.  Memories are closures in the model; the driver turns them back into an
array after every pixel store (otherwise the compiled closures re-run the read-modify-write of every
earlier pixel on each read). -/
def freeze (m : Mem) (n : Nat) : Array Nat := (Array.range n).map (fun i => m (base + i))

def dumpArr (a : Array Nat) : String := String.join (a.toList.map (hexNat 2))

/-- channel fields of an RGB/A format; all bits of an indexed pixel -/
def definedMask (f : Nat) : Nat :=
  if isIndexed f then (1 <<< fmtBpp f) - 1
  else
    let s := getShifts f
    ((((1 <<< fmtA f) - 1) <<< s.a) ||| (((1 <<< fmtR f) - 1) <<< s.r) ||| (((1 <<< fmtG f) - 1) <<< s.g) |||
      (((1 <<< fmtB f) - 1) <<< s.b)) % 4294967296

/-- `storeRaw` on an array-backed memory; `converted` is an argument so that it is evaluated once -/
@[noinline] def storeRawArr (a : Array Nat) (row o bpp converted : Nat) : Array Nat :=
  freeze (storeRaw (memOf a) row o bpp converted) a.size

def maskPixels (a : Array Nat) (f x w : Nat) : Array Nat :=
  let dm := definedMask f
  (List.range w).foldl (fun a i =>
    storeRawArr a base (x + i) (fmtBpp f) (fetchRaw (memOf a) base (x + i) (fmtBpp f) &&& dm)) a

/-- `storeScanline img m x 0 values`, one `convertAndStorePixel` at a time (that this is the same function is
`Pixman.Props.C10.storeScanline_eq_foldl`) -/
def storeLine (img : Image) (a : Array Nat) (x : Nat) (values : List Nat) : Array Nat :=
  (values.zipIdx x).foldl (fun a (v, o) =>
    -- `convertAndStorePixel pal m dest o f v` unfolded (definitionally) so that the conversion runs once
    storeRawArr a (img.row 0) o (fmtBpp img.format) (convertPixelFromA8r8g8b8 img.pal img.format v)) a

def ratStr (q : Rat) : String := toString q.num ++ "/" ++ toString q.den
def argbStr (p : Argb) : String := ratStr p.a ++ " " ++ ratStr p.r ++ " " ++ ratStr p.g ++ " " ++ ratStr p.b

def mkImage (r : Rec) (pal : Nat) (nbytes : Nat) : Image :=
  { format := r.code, bits := base, rowstride := nbytes / 4, pal := mkPalette pal r.code }

def isWide (r : Rec) : Bool := r.acc = 2 ∨ r.acc = 3

def handle (line : String) : String :=
  match line.trimAscii.toString.splitOn " " |>.filter (· ≠ "") with
  | ["F", fmt, mode, pal, x, w, row] =>
    match findFmt fmt, pal.toNat?, x.toNat?, w.toNat?, hexGroups 2 row with
    | some r, some pal, some x, some w, some bytes =>
      let img := mkImage r pal bytes.size
      let m := memOf bytes
      if isWide r then
        -- wide source, a8r8g8b8 destination: float fetch, then `pixman_contract_from_float`
        String.join ((List.range w).map (fun i =>
          match fetchWide r.name (read32 m (img.row 0 + 4 * (x + i))) with
          | some p => hexNat 8 (contractFromFloat p)
          | none => "?"))
      else if r.acc ≠ 1 then "bad-request" else
      let vals := if mode.startsWith "p" then (List.range w).map (fun i => fetchPixel img m (x + i) 0)
                  else fetchScanline img m x 0 w
      String.join (vals.map (hexNat 8))
    | _, _, _, _, _ => "bad-request"
  | ["S", fmt, mode, pal, x, row, values] =>
    match findFmt fmt, pal.toNat?, x.toNat?, hexGroups 2 row, hexGroups 8 values with
    | some r, some pal, some x, some bytes, some vals =>
      let img := mkImage r pal bytes.size
      if isWide r then
        -- a8r8g8b8 source, wide destination: `pixman_expand_to_float` of the source, then the float store
        let a := (vals.toList.zipIdx).foldl (fun a (v, i) =>
          match storeWide r.name (expandToFloat A8R8G8B8 v) with
          | some p => freeze (write32 (memOf a) (img.row 0 + 4 * (x + i)) p) a.size
          | none => a) bytes
        let a := if mode.startsWith "m" then maskPixels a r.code x vals.size else a
        dumpArr a
      else if r.acc ≠ 1 then "bad-request" else
      let a := storeLine img bytes x vals.toList
      let a := if mode.startsWith "m" then maskPixels a r.code x vals.size else a
      dumpArr a
    | _, _, _, _, _ => "bad-request"
  | ["FW", fmt, mode, pal, x, w, row] =>
    match findFmt fmt, pal.toNat?, x.toNat?, w.toNat?, hexGroups 2 row with
    | some r, some pal, some x, some w, some bytes =>
      let img := mkImage r pal bytes.size
      let m := memOf bytes
      let _ := mode
      if r.acc = 1 then
        " ".intercalate ((List.range w).map (fun i => argbStr (fetchPixelGenericFloat img m (x + i) 0)))
      else if isWide r then
        " ".intercalate ((List.range w).map (fun i =>
          match fetchWide r.name (read32 m (img.row 0 + 4 * (x + i))) with
          | some p => argbStr p
          | none => "?"))
      else "bad-request"
    | _, _, _, _, _ => "bad-request"
  | ["SW", fmt, mode, pal, x, row, values] =>
    match findFmt fmt, pal.toNat?, x.toNat?, hexGroups 2 row, hexGroups 8 values with
    | some r, some pal, some x, some bytes, some vals =>
      let img := mkImage r pal bytes.size
      let n := vals.size / 4
      let px : List Argb := (List.range n).map (fun i =>
        { a := f32ToRat (vals.getD (4 * i) 0), r := f32ToRat (vals.getD (4 * i + 1) 0),
          g := f32ToRat (vals.getD (4 * i + 2) 0), b := f32ToRat (vals.getD (4 * i + 3) 0) })
      if r.acc = 1 then
        let a := storeLine img bytes x (px.map contractFromFloat)
        let a := if mode.startsWith "m" then maskPixels a r.code x n else a
        dumpArr a
      else if isWide r then
        let a := (List.range n).foldl (fun a i =>
          match storeWide r.name (px.getD i ⟨0, 0, 0, 0⟩) with
          | some v => freeze (write32 (memOf a) (img.row 0 + 4 * (x + i)) v) a.size
          | none => a) bytes
        let a := if mode.startsWith "m" then maskPixels a r.code x n else a
        dumpArr a
      else "bad-request"
    | _, _, _, _, _ => "bad-request"
  | [op, fmt, mode, geom, x, w, row] =>
    if op ≠ "Y" ∧ op ≠ "YW" ∧ op ≠ "YX" then "bad-request" else
    match findFmt fmt, x.toNat?, w.toNat?, hexGroups 2 row with
    | some r, some x, some w, some bytes =>
      if r.acc ≠ 5 then "bad-request" else
      let m := memOf bytes
      let pixelReader := mode.startsWith "p"
      let vals : Option (List Nat) :=
        if fmt = "yuy2" then
          some (if pixelReader then (List.range w).map (fun i => fetchPixelYuy2 m base (x + i))
                else fetchScanlineYuy2Loop m base x w)
        else if fmt = "yv12" then
          match (geom.splitOn ":").map String.toNat? with
          | [some s, some h, some line] =>
            some (if pixelReader then (List.range w).map (fun i => fetchPixelYv12 m base (s / 4) h (x + i) line)
                  else fetchScanlineYv12Loop m base (s / 4) h line x w)
          | _ => none
        else none
      match vals with
      | none => "bad-request"
      | some vals =>
        if op = "Y" then String.join (vals.map (hexNat 8))
        else if op = "YW" then " ".intercalate (vals.map (fun v => argbStr (genericFloatOf r.code v)))
        else String.join (vals.map (fun v => hexNat 8 (storeA2r10g10b10Float (genericFloatOf r.code v))))
    | _, _, _, _ => "bad-request"
  | _ => "bad-request"

end Driver.Format

import Pixman.Model.Simd
import Pixman.Model.Dispatch
/-! Line-protocol driver for the `simd` domain (C02).
* `k <kernel> <ints…>` → the kernel's result (decimal);
* `lookup <nlev> {<nent> {op sf sfl mf mfl df dfl}*}* H <nkeys> {op sf sfl mf mfl df dfl}*`
  → the answers of `lookupHistory` from the empty cache, `lev:idx` or `-`, blank separated. -/
namespace Driver.Simd
open Pixman.Model.Simd Pixman.Model.Dispatch

def px (p : Nat) : Px := unpack32 p

def kernel (name : String) (a : List Nat) : Option Nat :=
  match name, a with
  | "pixmul", [x, y] => some (Sse2.pixMultiply1 x y)
  | "mmx_pixmul", [x, y] => some (Mmx.pixMultiply1 x y)
  | "negate", [p] => some (pack32 (Sse2.negate (px p)))
  | "expand_alpha", [p] => some (pack32 (Sse2.expandAlpha (px p)))
  | "expand_alpha_rev", [p] => some (pack32 (Sse2.expandAlphaRev (px p)))
  | "over", [s, al, d] => some (pack32 (Sse2.over (px s) (px al) (px d)))
  | "over_pixel", [s, d] => some (Sse2.overPixel s d)
  | "in_over", [s, al, m, d] => some (pack32 (Sse2.inOver (px s) (px al) (px m) (px d)))
  | "addmul", [s, ad, d, as] => some (pack32 (Sse2.pixAddMultiply (px s) (px ad) (px d) (px as)))
  | "mmx_negate", [p] => some (pack32 (Mmx.negate (px p)))
  | "mmx_expand_alpha", [p] => some (pack32 (Mmx.expandAlpha (px p)))
  | "mmx_over", [s, al, d] => some (pack32 (Mmx.over (px s) (px al) (px d)))
  | "mmx_in_over", [s, al, m, d] => some (pack32 (Mmx.inOver (px s) (px al) (px m) (px d)))
  | "mmx_addmul", [x, xa, y, yb] => some (pack32 (Mmx.pixAddMul (px x) (px xa) (px y) (px yb)))
  | "unpack565", [s] => some (Sse2.unpack565to8888 s)
  | "pack565", [p] => some (Sse2.pack565_32_16 p)
  | "pack565v", [p] => some (Sse2.pack565Lane p)
  | "mmx_expand565", [s] => some (pack32 (Mmx.expand565 s))
  | "mmx_pack565", [p] => some (Mmx.pack565 (Mmx.reg (px p)))
  | "c0565", [s] => some (convert0565to0888 s)
  | "c8888_0565", [p] => some (convert8888to0565 p)
  | "bilin", [tl, tr, bl, br, dx, dy] => some (bilinearInterpolation tl tr bl br dx dy)
  | "sse2_bilin", [tl, tr, bl, br, wt, wb, vx] => some (Sse2.bilinearPixel tl tr bl br wt wb vx)
  | "ssse3_h", [l, r, x] =>
    let c := fun (sh : Nat) => Ssse3.horizontal (l / sh % 256) (r / sh % 256) x
    some (c 16777216 * 281474976710656 + c 65536 * 4294967296 + c 256 * 65536 + c 1)
  | "ssse3_v", [t, b, dy] => some (Ssse3.vertical t b dy)
  | _, _ => none

def takeKeys : Nat → List Nat → Option (List Key × List Nat)
  | 0, rest => some ([], rest)
  | n + 1, op :: sf :: sfl :: mf :: mfl :: df :: dfl :: rest =>
    match takeKeys n rest with
    | some (ks, r) => some (⟨op, sf, sfl, mf, mfl, df, dfl⟩ :: ks, r)
    | none => none
  | _ + 1, _ => none

def takeTables : Nat → List Nat → Option (Chain × List Nat)
  | 0, rest => some ([], rest)
  | n + 1, ne :: rest =>
    match takeKeys ne rest with
    | some (ks, r) =>
      match takeTables n r with
      | some (ts, r') => some ((ks.mapIdx fun i k => (⟨k, i⟩ : Entry)) :: ts, r')
      | none => none
    | none => none
  | _ + 1, [] => none

def showAns : Option Ans → String
  | none => "-"
  | some a => s!"{a.level}:{a.index}"

def handle (line : String) : String :=
  match line.trimAscii.toString.splitOn " " |>.filter (· ≠ "") with
  | "k" :: name :: args =>
    match args.mapM String.toNat? with
    | some a => match kernel name a with
      | some v => toString v
      | none => "bad-request"
    | none => "bad-request"
  | "lookup" :: nl :: rest =>
    match nl.toNat?, (rest.filter (· ≠ "H")).mapM String.toNat? with
    | some nl, some nums =>
      match takeTables nl nums with
      | some (chain, nk :: r) =>
        match takeKeys nk r with
        | some (keys, []) => " ".intercalate ((lookupHistory chain [] keys).1.map showAns)
        | _ => "bad-request"
      | _ => "bad-request"
    | _, _ => "bad-request"
  | _ => "bad-request"

end Driver.Simd

/-! Lane-level arithmetic of the x86 paths (`pixman-sse2.c`, `pixman-mmx.c`, `pixman-ssse3.c`) as pure
functions, written from the semantics of the intrinsics.  A 16-bit lane is a `Nat < 65536`, a byte a
`Nat < 256`, a 32-bit lane a `Nat < 2^32`; an unpacked pixel (`unpack_32_1x128`,
`_mm_unpacklo_epi8 (x, 0)`) is four 16-bit lanes.  The loop structure around these kernels
(head/body/tail, alignment) is not modelled.  Core Lean only. -/
namespace Pixman.Model.Simd

/-! ### intrinsics on one lane -/

/-- `_mm_mullo_epi16` / `_mm_mullo_pi16`: low 16 bits of the product -/
def mullo16 (x y : Nat) : Nat := (x * y) % 65536
/-- `_mm_mulhi_epu16` / `_mm_mulhi_pu16`: high 16 bits of the unsigned product -/
def mulhiU16 (x y : Nat) : Nat := (x * y) / 65536
/-- `_mm_adds_epu16` / `_mm_adds_pu16`: unsigned saturating add -/
def addsU16 (x y : Nat) : Nat := if x + y > 65535 then 65535 else x + y
/-- one byte of `_mm_adds_epu8` / `_mm_adds_pu8` -/
def addsU8 (x y : Nat) : Nat := if x + y > 255 then 255 else x + y
/-- `_mm_adds_epu8` seen on a 16-bit lane: the two bytes saturate separately -/
def addsU8lane (x y : Nat) : Nat :=
  addsU8 (x / 256 % 256) (y / 256 % 256) * 256 + addsU8 (x % 256) (y % 256)
/-- `_mm_add_epi16` -/
def add16 (x y : Nat) : Nat := (x + y) % 65536
/-- `_mm_sub_epi16` -/
def sub16 (x y : Nat) : Nat := (x + 65536 - y % 65536) % 65536
/-- `_mm_xor_si128 (x, mask_00ff)` on one lane -/
def xor00ff (x : Nat) : Nat := x ^^^ 0x00ff
/-- signed value of a 16-bit lane -/
def s16 (x : Nat) : Int := if x % 65536 < 32768 then (x % 65536 : Nat) else ((x % 65536 : Nat) : Int) - 65536
/-- signed value of a 32-bit lane -/
def s32 (x : Nat) : Int := if x % 4294967296 < 2147483648 then (x % 4294967296 : Nat) else ((x % 4294967296 : Nat) : Int) - 4294967296
/-- one byte of `_mm_packus_epi16`: signed 16-bit lane to unsigned byte with saturation -/
def packus (x : Nat) : Nat := if x % 65536 ≥ 32768 then 0 else if x % 65536 > 255 then 255 else x % 65536
/-- one lane of `_mm_packs_epi32`: signed 32-bit lane to signed 16-bit lane with saturation -/
def packs32 (x : Nat) : Nat :=
  let v := s32 x
  if v > 32767 then 32767 else if v < -32768 then 32768 else (v % 65536).toNat
/-- one 32-bit lane of `_mm_madd_epi16`: `a*b + c*d` on signed 16-bit lanes, wrapped to 32 bits -/
def madd16 (a b c d : Nat) : Nat := ((s16 a * s16 b + s16 c * s16 d) % 4294967296).toNat

/-! ### unpacked pixels -/

/-- four 16-bit lanes, lane 0 = blue … lane 3 = alpha (little-endian a8r8g8b8) -/
structure Px where
  b : Nat
  g : Nat
  r : Nat
  a : Nat
deriving DecidableEq, Repr

/-- `unpack_32_1x128` / `expand8888`: bytes to lanes -/
def unpack32 (p : Nat) : Px := ⟨p % 256, p / 256 % 256, p / 65536 % 256, p / 16777216 % 256⟩
/-- `pack_1x128_32` / `pack8888`: `_mm_packus_epi16` then the low 32 bits -/
def pack32 (x : Px) : Nat := packus x.b + packus x.g * 256 + packus x.r * 65536 + packus x.a * 16777216
def Px.map (f : Nat → Nat) (x : Px) : Px := ⟨f x.b, f x.g, f x.r, f x.a⟩
def Px.map2 (f : Nat → Nat → Nat) (x y : Px) : Px := ⟨f x.b y.b, f x.g y.g, f x.r y.r, f x.a y.a⟩

/-! ### `pixman-sse2.c` -/
namespace Sse2

/-- one lane of `pix_multiply_1x128`: `_mm_mulhi_epu16 (_mm_adds_epu16 (_mm_mullo_epi16 (data, alpha), mask_0080), mask_0101)` -/
def pixMultiply1 (x a : Nat) : Nat := mulhiU16 (addsU16 (mullo16 x a) 0x0080) 0x0101
def pixMultiply (x a : Px) : Px := Px.map2 pixMultiply1 x a
/-- `negate_1x128` -/
def negate (x : Px) : Px := Px.map xor00ff x
/-- `expand_alpha_1x128`: `_mm_shufflelo_epi16 (data, _MM_SHUFFLE (3, 3, 3, 3))` -/
def expandAlpha (x : Px) : Px := ⟨x.a, x.a, x.a, x.a⟩
/-- `expand_alpha_rev_1x128`: `_MM_SHUFFLE (0, 0, 0, 0)` -/
def expandAlphaRev (x : Px) : Px := ⟨x.b, x.b, x.b, x.b⟩
/-- `over_1x128`: `_mm_adds_epu8 (*src, pix_multiply_1x128 (dst, negate_1x128 (*alpha)))` -/
def over (src alpha dst : Px) : Px := Px.map2 addsU8lane src (pixMultiply dst (negate alpha))
/-- `in_over_1x128` -/
def inOver (src alpha mask dst : Px) : Px := over (pixMultiply src mask) (pixMultiply alpha mask) dst
/-- `pix_add_multiply_1x128` -/
def pixAddMultiply (src alphaDst dst alphaSrc : Px) : Px :=
  Px.map2 addsU8lane (pixMultiply src alphaDst) (pixMultiply dst alphaSrc)
/-- `core_combine_over_u_pixel_sse2` without its early outs -/
def overPixel (src dst : Nat) : Nat :=
  let ms := unpack32 src
  pack32 (over ms (expandAlpha ms) (unpack32 dst))

/-- `unpack_565_to_8888` on one 32-bit lane holding the zero-extended r5g6b5 pixel -/
def unpack565to8888 (lo : Nat) : Nat :=
  let r := ((lo <<< 8) % 4294967296) &&& 0x00f80000
  let g := ((lo <<< 5) % 4294967296) &&& 0x0000fc00
  let b := ((lo <<< 3) % 4294967296) &&& 0x000000f8
  let rb := r ||| b
  let t := (rb &&& 0x00e000e0) >>> 5
  let rb := rb ||| t
  let t := (g &&& 0x0000c000) >>> 6
  let g := g ||| t
  rb ||| g

/-- `pack_565_32_16` -/
def pack565_32_16 (pixel : Nat) : Nat :=
  (((pixel >>> 8) &&& 0xf800) ||| ((pixel >>> 5) &&& 0x07e0) ||| ((pixel >>> 3) &&& 0x001f)) % 65536

/-- `pack_565_2x128_128` on one 32-bit lane of packed 8888 data, followed by the `_mm_packus_epi16`
of `pack_565_4x128_128`: the lane's two 16-bit halves become the two bytes of the r5g6b5 pixel -/
def pack565Lane (data : Nat) : Nat :=
  let r := data &&& 0x00f80000
  let g1 := ((data <<< 3) % 4294967296) &&& 0x00070000
  let g2 := (data >>> 5) &&& 0x000000e0
  let b := (data >>> 3) &&& 0x0000001f
  let v := ((r ||| g1) ||| g2) ||| b
  packus (v % 65536) + packus (v / 65536 % 65536) * 256

/-- one channel of `BILINEAR_INTERPOLATE_ONE_PIXEL` (`BILINEAR_INTERPOLATION_BITS` = 7): vertical pass
`mullo/mullo/add`, horizontal weights from the `xmm_x` lanes `(vx, -(vx+1)) >> 9` `+ (0,1)`,
`_mm_madd_epi16`, `>> 14`, `packs_epi32`, `packus_epi16` -/
def bilinearChannel (tl tr bl br wt wb vx : Nat) : Nat :=
  let aL := add16 (mullo16 tl wt) (mullo16 bl wb)
  let aR := add16 (mullo16 tr wt) (mullo16 br wb)
  let whL := add16 1 (((65536 - (vx + 1) % 65536) % 65536) >>> 9)
  let whR := add16 0 ((vx % 65536) >>> 9)
  packus (packs32 ((madd16 aL whL aR whR) >>> 14))

def bilinearPixel (tl tr bl br wt wb vx : Nat) : Nat :=
  let c := fun (sh : Nat) => bilinearChannel (tl / sh % 256) (tr / sh % 256) (bl / sh % 256) (br / sh % 256) wt wb vx
  c 1 + c 256 * 256 + c 65536 * 65536 + c 16777216 * 16777216

end Sse2

/-! ### `pixman-mmx.c` (x86 build: `__m64`, four 16-bit lanes per register) -/
namespace Mmx

/-- one lane of `pix_multiply`: `mullo_pi16`, `adds_pu16 (.., 4x0080)`, `mulhi_pu16 (.., 4x0101)` -/
def pixMultiply1 (a b : Nat) : Nat := mulhiU16 (addsU16 (mullo16 a b) 0x0080) 0x0101
def pixMultiply (x a : Px) : Px := Px.map2 pixMultiply1 x a
/-- `negate` -/
def negate (x : Px) : Px := Px.map xor00ff x
/-- `expand_alpha`: `_mm_shuffle_pi16 (pixel, _MM_SHUFFLE (3, 3, 3, 3))` -/
def expandAlpha (x : Px) : Px := ⟨x.a, x.a, x.a, x.a⟩
/-- `over` -/
def over (src srca dest : Px) : Px := Px.map2 addsU8lane src (pixMultiply dest (negate srca))
/-- `in_over`: `over (in (src, mask), pix_multiply (srca, mask), dest)` -/
def inOver (src srca mask dest : Px) : Px := over (pixMultiply src mask) (pixMultiply srca mask) dest
/-- `pix_add_mul` -/
def pixAddMul (x a y b : Px) : Px := Px.map2 addsU8lane (pixMultiply x a) (pixMultiply y b)

/-- lane `i` of a 64-bit register -/
def lane (x i : Nat) : Nat := x / 65536 ^ i % 65536

/-- `expand565 (pixel, 0)` for a register whose low 16 bits hold the pixel: the three colour lanes
(lane 0 blue, 1 green, 2 red) after `mullo_pi16 (p, 565_unpack_multiplier)` and `srli_pi16 (.., 8)` -/
def expand565 (p : Nat) : Px :=
  let t1 := (p <<< 25) % 18446744073709551616
  let t2 := (p <<< 11) % 18446744073709551616
  let q := ((t1 ||| p) ||| t2) &&& 0x000001f0003f001f
  ⟨mullo16 (lane q 0) 0x0840 >>> 8, mullo16 (lane q 1) 0x0410 >>> 8, mullo16 (lane q 2) 0x0084 >>> 8,
   mullo16 (lane q 3) 0 >>> 8⟩

/-- `pack_565 (pixel, target, 0)` with `target = 0`: the packed r5g6b5 value in the low 16 bits.
`pixel` is an unpacked pixel seen as a 64-bit register -/
def pack565 (pixel : Nat) : Nat :=
  let r := (pixel &&& 0x000000f800000000) >>> 24
  let g := (pixel &&& 0x0000000000fc0000) >>> 13
  let b := (pixel &&& 0x00000000000000f8) >>> 3
  ((r ||| g) ||| b) % 65536

/-- the 64-bit register holding an unpacked pixel -/
def reg (x : Px) : Nat := x.b + x.g * 65536 + x.r * 4294967296 + x.a * 281474976710656

end Mmx

/-! ### `pixman-ssse3.c` bilinear cover iterator, one channel -/
namespace Ssse3

/-- `ssse3_fetch_horizontal`, one channel: weights `(x >> 9, (-(x+1) >> 9) + 1)` packed to bytes,
`_mm_maddubs_epi16` (unsigned pixel byte times SIGNED weight byte, saturating), `_mm_abs_epi16` -/
def horizontal (l r x : Nat) : Nat :=
  let w := packus (add16 0 ((x % 65536) >>> 9))
  let iw := packus (add16 1 (((65536 - (x + 1) % 65536) % 65536) >>> 9))
  let sb := fun (v : Nat) => (if v < 128 then (v : Int) else (v : Int) - 256)
  let sum : Int := (l : Int) * sb iw + (r : Int) * sb w
  let sat : Int := if sum > 32767 then 32767 else if sum < -32768 then -32768 else sum
  sat.natAbs % 65536

/-- vertical pass of `ssse3_fetch_bilinear_cover`, one 16-bit lane: `mulhi_epu16 (bot - top, dy << 9)`,
minus `dy << 9` where `bot < top` (signed compare), plus `top`, `>> 7` -/
def vertical (top bot disty : Nat) : Nat :=
  let vw := (disty <<< 9) % 65536
  let r0 := mulhiU16 (sub16 bot top) vw
  let tmp := if s16 bot < s16 top then vw else 0
  (add16 (sub16 r0 tmp) top) >>> 7

end Ssse3

/-! ### scalar references (`pixman-private.h`, `pixman-inlines.h`) -/

/-- `convert_0565_to_0888` -/
def convert0565to0888 (s : Nat) : Nat :=
  ((((s <<< 3) &&& 0xf8) ||| ((s >>> 2) &&& 0x7)) |||
   (((s <<< 5) &&& 0xfc00) ||| ((s >>> 1) &&& 0x300))) |||
   (((s <<< 8) &&& 0xf80000) ||| ((s <<< 3) &&& 0x70000))

/-- `convert_0565_to_8888` -/
def convert0565to8888 (s : Nat) : Nat := convert0565to0888 s ||| 0xff000000

/-- `convert_8888_to_0565` -/
def convert8888to0565 (s : Nat) : Nat :=
  let a := (s >>> 3) &&& 0x1F001F
  let b := s &&& 0xFC00
  let a := a ||| (a >>> 5)
  let a := a ||| (b >>> 5)
  a % 65536

/-- one channel of `bilinear_interpolation` (`pixman-inlines.h`, 64-bit variant; the C code computes two
channels per 64-bit multiply-accumulate, each in its own 16-bit-spaced field): `distx`, `disty` are the
7-bit weights, scaled to 8 bits first -/
def bilinearChannel (tl tr bl br distx disty : Nat) : Nat :=
  let dx := distx <<< 1
  let dy := disty <<< 1
  let distxy := dx * dy
  let distxiy := dx * (256 - dy)
  let distixy := (256 - dx) * dy
  let distixiy := (256 - dx) * (256 - dy)
  (tl * distixiy + tr * distxiy + bl * distixy + br * distxy) / 65536 % 256

def bilinearInterpolation (tl tr bl br distx disty : Nat) : Nat :=
  let c := fun (sh : Nat) => bilinearChannel (tl / sh % 256) (tr / sh % 256) (bl / sh % 256) (br / sh % 256) distx disty
  c 1 + c 256 * 256 + c 65536 * 65536 + c 16777216 * 16777216

end Pixman.Model.Simd

/-!
  C integer semantics used by the regenerated `Pixman.Gen.CFuncs` (tools/gen_cfuncs.py).

  Hand-written and small: this file *is* the meaning the translator gives to C's integer
  conversions and to the operators that have no direct counterpart on `Int`.  Host model: LP64,
  two's complement, gcc (conversion to a signed type that cannot represent the value is modular;
  `>>` of a negative value is an arithmetic shift).

  * `uN x` / `sN x`: conversion of the mathematical integer `x` to `uintN_t` / `intN_t`.
  * `band/bor/bxor`: `& | ^` on values of an unsigned type (both operands non-negative).
  * `sband/sbor/sbxor`: `& | ^` on values of a signed type of at most 64 bits, through the 64-bit
    two's complement representation `u64 a` (sign extension commutes with the bitwise operators).
  The translator itself uses two identities of two's complement instead of `band`/`sband`:
  `x & (2^k - 1) = x mod 2^k` and `x & ~(2^k - 1) = x - x mod 2^k` (Euclidean `mod`, any sign).
  * `subLoop`/`addLoop`: the two trivial loops `while (x >= s) x -= s;` and `while (x < 0) x += s;`
    (for `s ≤ 0` the C loop does not terminate whenever it is entered; the functions return `x`).

  No Mathlib; core only.
-/
namespace Pixman.CSem

def u8 (x : Int) : Int := x % 256
def u16 (x : Int) : Int := x % 65536
def u32 (x : Int) : Int := x % 4294967296
def u64 (x : Int) : Int := x % 18446744073709551616
def s8 (x : Int) : Int := (x + 128) % 256 - 128
def s16 (x : Int) : Int := (x + 32768) % 65536 - 32768
def s32 (x : Int) : Int := (x + 2147483648) % 4294967296 - 2147483648
def s64 (x : Int) : Int := (x + 9223372036854775808) % 18446744073709551616 - 9223372036854775808

/-- `a & b` on an unsigned type -/
def band (a b : Int) : Int := ((a.toNat &&& b.toNat : Nat) : Int)
/-- `a | b` on an unsigned type -/
def bor (a b : Int) : Int := ((a.toNat ||| b.toNat : Nat) : Int)
/-- `a ^ b` on an unsigned type -/
def bxor (a b : Int) : Int := ((a.toNat ^^^ b.toNat : Nat) : Int)

/-- `a & b` on a signed type (≤ 64 bits) -/
def sband (a b : Int) : Int := s64 (((u64 a).toNat &&& (u64 b).toNat : Nat) : Int)
/-- `a | b` on a signed type (≤ 64 bits) -/
def sbor (a b : Int) : Int := s64 (((u64 a).toNat ||| (u64 b).toNat : Nat) : Int)
/-- `a ^ b` on a signed type (≤ 64 bits) -/
def sbxor (a b : Int) : Int := s64 (((u64 a).toNat ^^^ (u64 b).toNat : Nat) : Int)

/-- `while (x >= s) x -= s;` -/
def subLoop (x s : Int) : Int :=
  if _h : 0 < s ∧ x ≥ s then subLoop (x - s) s else x
termination_by (x - s + 1).toNat
decreasing_by omega

/-- `while (x < 0) x += s;` -/
def addLoop (x s : Int) : Int :=
  if _h : 0 < s ∧ x < 0 then addLoop (x + s) s else x
termination_by (-x).toNat
decreasing_by omega

end Pixman.CSem

import Pixman.Model.Extent
import Pixman.Props.C04Core
import Pixman.Props.C11
/-! Helper lemmas for C04: the corner loop of `compute_transformed_extents` computes bounds of the
    four transformed corners; for an affine matrix every pixel of the box lies between them. -/
namespace Pixman.Lemmas.Extent
open Pixman.Matrix Pixman.Sample Pixman.Model.Extent Pixman.Spec.Fixed

/-! ### linear forms over a box attain their extremes at the corners -/

theorem mul_between (a A m : Int) (h0 : 0 ≤ a) (h1 : a ≤ A) :
    (0 ≤ m → 0 ≤ a * m ∧ a * m ≤ A * m) ∧ (m ≤ 0 → A * m ≤ a * m ∧ a * m ≤ 0) := by
  constructor
  · intro hm
    exact ⟨Int.mul_nonneg h0 hm, Int.mul_le_mul_of_nonneg_right h1 hm⟩
  · intro hm
    constructor
    · have := Int.mul_le_mul_of_nonneg_right h1 (by omega : 0 ≤ -m)
      rw [Int.mul_neg, Int.mul_neg] at this; omega
    · have := Int.mul_nonneg h0 (by omega : 0 ≤ -m)
      rw [Int.mul_neg] at this; omega

/-- a value `s + a·m + b·n` with `0 ≤ a ≤ A`, `0 ≤ b ≤ B` lies between the least and the greatest of
    the four corner values -/
theorem bilinear_between (s m n a A b B lo hi : Int) (ha : 0 ≤ a ∧ a ≤ A) (hb : 0 ≤ b ∧ b ≤ B)
    (c00 : lo ≤ s ∧ s ≤ hi) (c10 : lo ≤ s + A * m ∧ s + A * m ≤ hi)
    (c01 : lo ≤ s + B * n ∧ s + B * n ≤ hi) (c11 : lo ≤ s + A * m + B * n ∧ s + A * m + B * n ≤ hi) :
    lo ≤ s + a * m + b * n ∧ s + a * m + b * n ≤ hi := by
  have h1 := mul_between a A m ha.1 ha.2
  have h2 := mul_between b B n hb.1 hb.2
  generalize a * m = am at *
  generalize A * m = Am at *
  generalize b * n = bn at *
  generalize B * n = Bn at *
  rcases Int.le_total 0 m with hm | hm <;> rcases Int.le_total 0 n with hn | hn
  · have := h1.1 hm; have := h2.1 hn; omega
  · have := h1.1 hm; have := h2.2 hn; omega
  · have := h1.2 hm; have := h2.1 hn; omega
  · have := h1.2 hm; have := h2.2 hn; omega

/-- `sampleCoord` is affine in the pixel indices, exactly -/
theorem sampleCoord_linear (a b c x y i j : Int) :
    sampleCoord a b c (x + i) (y + j) = sampleCoord a b c x y + i * a + j * b := by
  unfold sampleCoord
  exact Pixman.Props.C04Core.affine_linearity a b c x y i j

/-- every pixel of the box `[x1, x2] × [y1, y2]` maps between the extremes of the four corners -/
theorem sampleCoord_between (a b c x1 y1 x2 y2 i j lo hi : Int)
    (hi1 : x1 ≤ i ∧ i ≤ x2) (hj1 : y1 ≤ j ∧ j ≤ y2)
    (c00 : lo ≤ sampleCoord a b c x1 y1 ∧ sampleCoord a b c x1 y1 ≤ hi)
    (c10 : lo ≤ sampleCoord a b c x2 y1 ∧ sampleCoord a b c x2 y1 ≤ hi)
    (c01 : lo ≤ sampleCoord a b c x1 y2 ∧ sampleCoord a b c x1 y2 ≤ hi)
    (c11 : lo ≤ sampleCoord a b c x2 y2 ∧ sampleCoord a b c x2 y2 ≤ hi) :
    lo ≤ sampleCoord a b c i j ∧ sampleCoord a b c i j ≤ hi := by
  have e (u v : Int) : sampleCoord a b c u v = sampleCoord a b c x1 y1 + (u - x1) * a + (v - y1) * b := by
    have := sampleCoord_linear a b c x1 y1 (u - x1) (v - y1)
    rw [show x1 + (u - x1) = u by omega, show y1 + (v - y1) = v by omega] at this
    exact this
  rw [e x2 y1] at c10; rw [e x1 y2] at c01; rw [e x2 y2] at c11; rw [e i j]
  simp only [Int.sub_self, Int.zero_mul, Int.add_zero] at c10 c01
  exact bilinear_between _ a b (i - x1) (x2 - x1) (j - y1) (y2 - y1) lo hi (by omega) (by omega) c00 c10 c01 c11

/-! ### the corner loop -/

/-- the accumulator only widens, and contains the point just added -/
theorem accumulate_spec (acc : Box48) (tx ty : Int) :
    let r := accumulate acc tx ty
    r.x1 ≤ acc.x1 ∧ r.y1 ≤ acc.y1 ∧ acc.x2 ≤ r.x2 ∧ acc.y2 ≤ r.y2 ∧
    r.x1 ≤ tx ∧ tx ≤ r.x2 ∧ r.y1 ≤ ty ∧ ty ≤ r.y2 := by
  unfold accumulate
  simp only
  refine ⟨?_, ?_, ?_, ?_, ?_, ?_, ?_, ?_⟩ <;> split <;> omega

/-- result of `pixman_transform_point` on the centre-type vector `(X, Y, 1.0)` for an affine matrix -/
theorem transformPoint_affine_centre (t : Transform) (X Y : Int) (hX : isI32 X) (hY : isI32 Y)
    (ha : Transform.isAffine t) :
    ∃ b out, transformPoint t ⟨X, Y, fixed1⟩ = some (b, out) ∧
      (b = true → out = ⟨roundHalfUp (dot t.m00 t.m01 t.m02 X Y 65536) 65536,
                         roundHalfUp (dot t.m10 t.m11 t.m12 X Y 65536) 65536, 65536⟩ ∧
                  isI32 (roundHalfUp (dot t.m00 t.m01 t.m02 X Y 65536) 65536) ∧
                  isI32 (roundHalfUp (dot t.m10 t.m11 t.m12 X Y 65536) 65536)) := by
  have hv : Vec.isI32 ⟨X, Y, fixed1⟩ := ⟨hX, hY, by simp only [isI32, fixed1]; omega⟩
  have hw : dot t.m20 t.m21 t.m22 X Y fixed1 = 4294967296 := by
    obtain ⟨h0, h1, h2⟩ := ha
    unfold dot fixed1; rw [h0, h1, h2]; omega
  obtain ⟨b, out, e, hb, ho⟩ := Pixman.Props.C11.transformPoint_affine t ⟨X, Y, fixed1⟩ hv hw
  refine ⟨b, out, e, fun h => ⟨ho h, ?_, ?_⟩⟩
  · exact (hb.1 h).1
  · exact (hb.1 h).2

/-- the loop returns `ok` only if every corner was accepted, and then the box contains all of them
    and whatever the accumulator held -/
theorem cornerLoop_spec (t : Transform) (ha : Transform.isAffine t) (cs : List (Int × Int)) (acc r : Box48)
    (hc : ∀ c ∈ cs, isI32 c.1 ∧ isI32 c.2)
    (h : cornerLoop t cs acc = .ok r) :
    (r.x1 ≤ acc.x1 ∧ r.y1 ≤ acc.y1 ∧ acc.x2 ≤ r.x2 ∧ acc.y2 ≤ r.y2) ∧
    ∀ c ∈ cs,
      let sx := roundHalfUp (dot t.m00 t.m01 t.m02 c.1 c.2 65536) 65536
      let sy := roundHalfUp (dot t.m10 t.m11 t.m12 c.1 c.2 65536) 65536
      isI32 sx ∧ isI32 sy ∧ r.x1 ≤ sx ∧ sx ≤ r.x2 ∧ r.y1 ≤ sy ∧ sy ≤ r.y2 := by
  induction cs generalizing acc with
  | nil =>
    simp only [cornerLoop] at h
    injection h with h; subst h
    exact ⟨⟨Int.le_refl _, Int.le_refl _, Int.le_refl _, Int.le_refl _⟩, fun c hc => by cases hc⟩
  | cons c rest ih =>
    obtain ⟨x, y⟩ := c
    have hxy := hc (x, y) (List.mem_cons_self ..)
    obtain ⟨b, out, e, ho⟩ := transformPoint_affine_centre t x y hxy.1 hxy.2 ha
    simp only [cornerLoop, e] at h
    cases b with
    | false => simp at h
    | true =>
      simp only at h
      obtain ⟨eo, i1, i2⟩ := ho rfl
      have hrest := ih (accumulate acc out.x out.y) (fun c hc' => hc c (List.mem_cons_of_mem _ hc')) h
      have ha' := accumulate_spec acc out.x out.y
      simp only at ha'
      obtain ⟨w, hr⟩ := hrest
      refine ⟨by omega, ?_⟩
      intro c hcm
      rcases List.mem_cons.1 hcm with rfl | hcm
      · simp only
        rw [eo] at ha' w
        simp only at ha' w
        exact ⟨i1, i2, by omega, by omega, by omega, by omega⟩
      · exact hr c hcm

/-! ### compute_transformed_extents bounds every pixel of the box -/

/-- extents whose corner centres are exactly representable in 16.16 (what `IS_16BIT` of the
    expanded-by-one extents guarantees for a non-empty box) -/
def GoodBox (e : Box32) : Prop :=
  -32768 ≤ e.x1 ∧ e.x1 ≤ 32767 ∧ -32767 ≤ e.x2 ∧ e.x2 ≤ 32767 ∧
  -32768 ≤ e.y1 ∧ e.y1 ≤ 32767 ∧ -32767 ≤ e.y2 ∧ e.y2 ≤ 32767

theorem corner_fixed (e : Box32) (g : GoodBox e) :
    wrapS32 (intToFixed e.x1 + half) = e.x1 * 65536 + 32768 ∧
    wrapS32 (intToFixed e.y1 + half) = e.y1 * 65536 + 32768 ∧
    wrapS32 (intToFixed e.x2 - half) = (e.x2 - 1) * 65536 + 32768 ∧
    wrapS32 (intToFixed e.y2 - half) = (e.y2 - 1) * 65536 + 32768 := by
  obtain ⟨a1, a2, a3, a4, a5, a6, a7, a8⟩ := g
  unfold intToFixed half wrapS32
  refine ⟨?_, ?_, ?_, ?_⟩ <;> omega

/-- (affine or no transform) if `compute_transformed_extents` succeeds, every pixel `(i, j)` with
    `x1 ≤ i < x2`, `y1 ≤ j < y2` has a representable source coordinate inside the returned box -/
theorem cte_contains (t : Option Transform) (ht : optAffine t) (e : Box32) (g : GoodBox e) (r : Box48)
    (h : computeTransformedExtents t e = .ok r) (i j : Int)
    (hi : e.x1 ≤ i ∧ i < e.x2) (hj : e.y1 ≤ j ∧ j < e.y2) :
    r.x1 ≤ sampleX t i j ∧ sampleX t i j ≤ r.x2 ∧ r.y1 ≤ sampleY t i j ∧ sampleY t i j ≤ r.y2 ∧
    isI32 (sampleX t i j) ∧ isI32 (sampleY t i j) := by
  obtain ⟨f1, f2, f3, f4⟩ := corner_fixed e g
  have g' := g
  obtain ⟨a1, a2, a3, a4, a5, a6, a7, a8⟩ := g'
  unfold computeTransformedExtents at h
  simp only [f1, f2, f3, f4] at h
  cases t with
  | none =>
    simp only at h
    injection h with h; subst h
    simp only [sampleX, sampleY, isI32]
    omega
  | some t =>
    simp only at h
    obtain ⟨haff, hI⟩ := ht
    have hc : ∀ c ∈ cornerList (e.x1 * 65536 + 32768) (e.y1 * 65536 + 32768) ((e.x2 - 1) * 65536 + 32768) ((e.y2 - 1) * 65536 + 32768),
        isI32 c.1 ∧ isI32 c.2 := by
      intro c hc
      simp only [cornerList, List.mem_cons, List.mem_nil_iff, or_false] at hc
      rcases hc with rfl | rfl | rfl | rfl <;> simp only [isI32] <;> omega
    obtain ⟨_, hall⟩ := cornerLoop_spec t haff _ _ r hc h
    have k11 := hall ((e.x2 - 1) * 65536 + 32768, (e.y2 - 1) * 65536 + 32768) (by simp [cornerList])
    have k01 := hall (e.x1 * 65536 + 32768, (e.y2 - 1) * 65536 + 32768) (by simp [cornerList])
    have k10 := hall ((e.x2 - 1) * 65536 + 32768, e.y1 * 65536 + 32768) (by simp [cornerList])
    have k00 := hall (e.x1 * 65536 + 32768, e.y1 * 65536 + 32768) (by simp [cornerList])
    simp only at k00 k01 k10 k11
    simp only [sampleX, sampleY]
    have bx := sampleCoord_between t.m00 t.m01 t.m02 e.x1 e.y1 (e.x2 - 1) (e.y2 - 1) i j r.x1 r.x2 (by omega) (by omega)
      ⟨k00.2.2.1, k00.2.2.2.1⟩ ⟨k10.2.2.1, k10.2.2.2.1⟩ ⟨k01.2.2.1, k01.2.2.2.1⟩ ⟨k11.2.2.1, k11.2.2.2.1⟩
    have by_ := sampleCoord_between t.m10 t.m11 t.m12 e.x1 e.y1 (e.x2 - 1) (e.y2 - 1) i j r.y1 r.y2 (by omega) (by omega)
      ⟨k00.2.2.2.2.1, k00.2.2.2.2.2⟩ ⟨k10.2.2.2.2.1, k10.2.2.2.2.2⟩ ⟨k01.2.2.2.2.1, k01.2.2.2.2.2⟩ ⟨k11.2.2.2.2.1, k11.2.2.2.2.2⟩
    have ix := sampleCoord_between t.m00 t.m01 t.m02 e.x1 e.y1 (e.x2 - 1) (e.y2 - 1) i j (-2147483648) 2147483647 (by omega) (by omega)
      k00.1 k10.1 k01.1 k11.1
    have iy := sampleCoord_between t.m10 t.m11 t.m12 e.x1 e.y1 (e.x2 - 1) (e.y2 - 1) i j (-2147483648) 2147483647 (by omega) (by omega)
      k00.2.1 k10.2.1 k01.2.1 k11.2.1
    exact ⟨bx.1, bx.2, by_.1, by_.2, ix, iy⟩

/-- `compute_transformed_extents` never reaches an `assert` for an int32 matrix -/
theorem cornerLoop_never_aborts (t : Transform) (ht : t.isI32) (cs : List (Int × Int)) (acc : Box48)
    (hc : ∀ c ∈ cs, isI32 c.1 ∧ isI32 c.2) : cornerLoop t cs acc ≠ .abort := by
  induction cs generalizing acc with
  | nil => simp [cornerLoop]
  | cons c rest ih =>
    obtain ⟨x, y⟩ := c
    have hxy := hc (x, y) (List.mem_cons_self ..)
    have hv : Vec.isI32 ⟨x, y, fixed1⟩ := ⟨hxy.1, hxy.2, by simp only [isI32, fixed1]; omega⟩
    have hs := Pixman.Props.C11.transformPoint_never_aborts t ⟨x, y, fixed1⟩ ht hv
    unfold cornerLoop
    cases hp : transformPoint t ⟨x, y, fixed1⟩ with
    | none => rw [hp] at hs; cases hs
    | some p =>
      obtain ⟨b, out⟩ := p
      cases b with
      | false => simp
      | true => exact ih _ (fun c hc' => hc c (List.mem_cons_of_mem _ hc'))

end Pixman.Lemmas.Extent

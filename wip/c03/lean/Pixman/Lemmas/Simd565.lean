import Pixman.Model.Simd
import Pixman.Lemmas.Simd
/-! r5g6b5 conversions: the SIMD unpack/pack kernels against `convert_0565_to_0888` /
`convert_8888_to_0565`, bit by bit (`Nat.testBit` extensionality below a bound). -/
namespace Pixman.Lemmas.Simd565
open Pixman.Model.Simd Pixman.Lemmas.Simd

theorem eq_of_testBit_lt (n x y : Nat) (hx : x < 2 ^ n) (hy : y < 2 ^ n)
    (h : ∀ i, i < n → x.testBit i = y.testBit i) : x = y := by
  apply Nat.eq_of_testBit_eq
  intro i
  by_cases hi : i < n
  · exact h i hi
  · have hp : 2 ^ n ≤ 2 ^ i := Nat.pow_le_pow_right (by decide) (by omega)
    rw [Nat.testBit_lt_two_pow (by omega), Nat.testBit_lt_two_pow (by omega)]

theorem testBit_mod32 (x i : Nat) : (x % 4294967296).testBit i = (decide (i < 32) && x.testBit i) := by
  have : (4294967296 : Nat) = 2 ^ 32 := by decide
  rw [this, Nat.testBit_mod_two_pow]

theorem testBit_mod64 (x i : Nat) : (x % 18446744073709551616).testBit i = (decide (i < 64) && x.testBit i) := by
  have : (18446744073709551616 : Nat) = 2 ^ 64 := by decide
  rw [this, Nat.testBit_mod_two_pow]

theorem testBit_mod16 (x i : Nat) : (x % 65536).testBit i = (decide (i < 16) && x.testBit i) := by
  have : (65536 : Nat) = 2 ^ 16 := by decide
  rw [this, Nat.testBit_mod_two_pow]

theorem testBit_mod8 (x i : Nat) : (x % 256).testBit i = (decide (i < 8) && x.testBit i) := by
  have : (256 : Nat) = 2 ^ 8 := by decide
  rw [this, Nat.testBit_mod_two_pow]

/-- per-bit tactic: push `testBit` through the bitwise operations, abstract the bits of the variable,
evaluate the literal masks -/
syntax "bits565 " ident : tactic
macro_rules
  | `(tactic| bits565 $s:ident) => `(tactic|
    (simp [Nat.testBit_or, Nat.testBit_and, Nat.testBit_shiftLeft, Nat.testBit_shiftRight, testBit_mod32, testBit_mod64, testBit_mod16, testBit_mod8];
     try generalize decide ($s % 2 = 1) = b0 at *; try generalize Nat.testBit $s 1 = b1 at *; try generalize Nat.testBit $s 2 = b2 at *; try generalize Nat.testBit $s 3 = b3 at *; try generalize Nat.testBit $s 4 = b4 at *; try generalize Nat.testBit $s 5 = b5 at *; try generalize Nat.testBit $s 6 = b6 at *; try generalize Nat.testBit $s 7 = b7 at *; try generalize Nat.testBit $s 8 = b8 at *; try generalize Nat.testBit $s 9 = b9 at *; try generalize Nat.testBit $s 10 = b10 at *; try generalize Nat.testBit $s 11 = b11 at *; try generalize Nat.testBit $s 12 = b12 at *; try generalize Nat.testBit $s 13 = b13 at *; try generalize Nat.testBit $s 14 = b14 at *; try generalize Nat.testBit $s 15 = b15 at *; try generalize Nat.testBit $s 16 = b16 at *; try generalize Nat.testBit $s 17 = b17 at *; try generalize Nat.testBit $s 18 = b18 at *; try generalize Nat.testBit $s 19 = b19 at *; try generalize Nat.testBit $s 20 = b20 at *; try generalize Nat.testBit $s 21 = b21 at *; try generalize Nat.testBit $s 22 = b22 at *; try generalize Nat.testBit $s 23 = b23 at *; try generalize Nat.testBit $s 24 = b24 at *; try generalize Nat.testBit $s 25 = b25 at *; try generalize Nat.testBit $s 26 = b26 at *; try generalize Nat.testBit $s 27 = b27 at *; try generalize Nat.testBit $s 28 = b28 at *; try generalize Nat.testBit $s 29 = b29 at *; try generalize Nat.testBit $s 30 = b30 at *; try generalize Nat.testBit $s 31 = b31 at *;
     try simp [Nat.testBit]))

theorem unpack565_lt (s : Nat) : Sse2.unpack565to8888 s < 2 ^ 24 := by
  unfold Sse2.unpack565to8888
  simp only []
  have m1 : ∀ x, x &&& 0x00f80000 < 2 ^ 24 := fun x => Nat.lt_of_le_of_lt Nat.and_le_right (by decide)
  have m2 : ∀ x, x &&& 0x0000fc00 < 2 ^ 24 := fun x => Nat.lt_of_le_of_lt Nat.and_le_right (by decide)
  have m3 : ∀ x, x &&& 0x000000f8 < 2 ^ 24 := fun x => Nat.lt_of_le_of_lt Nat.and_le_right (by decide)
  have m4 : ∀ x, (x &&& 0x00e000e0) >>> 5 < 2 ^ 24 := fun x =>
    Nat.lt_of_le_of_lt (Nat.shiftRight_le _ _) (Nat.lt_of_le_of_lt Nat.and_le_right (by decide))
  have m5 : ∀ x, (x &&& 0x0000c000) >>> 6 < 2 ^ 24 := fun x =>
    Nat.lt_of_le_of_lt (Nat.shiftRight_le _ _) (Nat.lt_of_le_of_lt Nat.and_le_right (by decide))
  exact Nat.or_lt_two_pow (Nat.or_lt_two_pow (Nat.or_lt_two_pow (m1 _) (m3 _)) (m4 _)) (Nat.or_lt_two_pow (m2 _) (m5 _))

theorem convert0565_lt (s : Nat) : convert0565to0888 s < 2 ^ 24 := by
  unfold convert0565to0888
  have m : ∀ x m, m < 2 ^ 24 → x &&& m < 2 ^ 24 := fun x m h => Nat.lt_of_le_of_lt Nat.and_le_right h
  exact Nat.or_lt_two_pow (Nat.or_lt_two_pow (Nat.or_lt_two_pow (m _ _ (by decide)) (m _ _ (by decide)))
    (Nat.or_lt_two_pow (m _ _ (by decide)) (m _ _ (by decide))))
    (Nat.or_lt_two_pow (m _ _ (by decide)) (m _ _ (by decide)))

theorem unpack565_eq (s : Nat) : Sse2.unpack565to8888 s = convert0565to0888 s := by
  apply eq_of_testBit_lt 24 _ _ (unpack565_lt s) (convert0565_lt s)
  intro i hi
  unfold Sse2.unpack565to8888 convert0565to0888
  have hc : i = 0 ∨ i = 1 ∨ i = 2 ∨ i = 3 ∨ i = 4 ∨ i = 5 ∨ i = 6 ∨ i = 7 ∨ i = 8 ∨ i = 9 ∨ i = 10 ∨ i = 11 ∨ i = 12 ∨ i = 13 ∨ i = 14 ∨ i = 15 ∨ i = 16 ∨ i = 17 ∨ i = 18 ∨ i = 19 ∨ i = 20 ∨ i = 21 ∨ i = 22 ∨ i = 23 := by omega
  rcases hc with rfl | rfl | rfl | rfl | rfl | rfl | rfl | rfl | rfl | rfl | rfl | rfl | rfl | rfl | rfl | rfl | rfl | rfl | rfl | rfl | rfl | rfl | rfl | rfl <;>
    bits565 s

theorem pack565_eq (p : Nat) : Sse2.pack565_32_16 p = convert8888to0565 p := by
  have b1 : Sse2.pack565_32_16 p < 2 ^ 16 := by unfold Sse2.pack565_32_16; exact Nat.mod_lt _ (by decide)
  have b2 : convert8888to0565 p < 2 ^ 16 := by unfold convert8888to0565; exact Nat.mod_lt _ (by decide)
  apply eq_of_testBit_lt 16 _ _ b1 b2
  intro i hi
  unfold Sse2.pack565_32_16 convert8888to0565
  have hc : i = 0 ∨ i = 1 ∨ i = 2 ∨ i = 3 ∨ i = 4 ∨ i = 5 ∨ i = 6 ∨ i = 7 ∨ i = 8 ∨ i = 9 ∨ i = 10 ∨ i = 11 ∨ i = 12 ∨ i = 13 ∨ i = 14 ∨ i = 15 := by omega
  rcases hc with rfl | rfl | rfl | rfl | rfl | rfl | rfl | rfl | rfl | rfl | rfl | rfl | rfl | rfl | rfl | rfl <;>
    bits565 p

/-- the 32-bit lane computed by `pack_565_2x128_128` -/
def packV (p : Nat) : Nat :=
  (((p &&& 0x00f80000) ||| (((p <<< 3) % 4294967296) &&& 0x00070000)) ||| ((p >>> 5) &&& 0x000000e0)) ||| ((p >>> 3) &&& 0x0000001f)

theorem pack565Lane_def (p : Nat) :
    Sse2.pack565Lane p = packus (packV p % 65536) + packus (packV p / 65536 % 65536) * 256 := rfl

theorem bl (a b : Nat) : (a &&& 0xe0) ||| (b &&& 0x1f) < 2 ^ 8 :=
  Nat.or_lt_two_pow (Nat.lt_of_le_of_lt Nat.and_le_right (by decide)) (Nat.lt_of_le_of_lt Nat.and_le_right (by decide))
theorem bh (a b : Nat) : (a &&& 0xf8) ||| (b &&& 0x07) < 2 ^ 8 :=
  Nat.or_lt_two_pow (Nat.lt_of_le_of_lt Nat.and_le_right (by decide)) (Nat.lt_of_le_of_lt Nat.and_le_right (by decide))

/-- the two halves of that lane are the two bytes of the r5g6b5 pixel -/
theorem packV_lo (p : Nat) : packV p % 65536 = ((p >>> 5) &&& 0xe0) ||| ((p >>> 3) &&& 0x1f) := by
  apply eq_of_testBit_lt 16 _ _ (Nat.mod_lt _ (by decide)) (Nat.lt_trans (bl _ _) (by decide))
  intro i hi
  unfold packV
  have hc : i = 0 ∨ i = 1 ∨ i = 2 ∨ i = 3 ∨ i = 4 ∨ i = 5 ∨ i = 6 ∨ i = 7 ∨ i = 8 ∨ i = 9 ∨ i = 10 ∨ i = 11 ∨ i = 12 ∨ i = 13 ∨ i = 14 ∨ i = 15 := by omega
  rcases hc with rfl | rfl | rfl | rfl | rfl | rfl | rfl | rfl | rfl | rfl | rfl | rfl | rfl | rfl | rfl | rfl <;>
    bits565 p

theorem packV_hi (p : Nat) : packV p / 65536 % 65536 = ((p >>> 16) &&& 0xf8) ||| ((p >>> 13) &&& 0x07) := by
  have hdiv : packV p / 65536 = packV p >>> 16 := by simp [Nat.shiftRight_eq_div_pow]
  rw [hdiv]
  apply eq_of_testBit_lt 16 _ _ (Nat.mod_lt _ (by decide)) (Nat.lt_trans (bh _ _) (by decide))
  intro i hi
  unfold packV
  have hc : i = 0 ∨ i = 1 ∨ i = 2 ∨ i = 3 ∨ i = 4 ∨ i = 5 ∨ i = 6 ∨ i = 7 ∨ i = 8 ∨ i = 9 ∨ i = 10 ∨ i = 11 ∨ i = 12 ∨ i = 13 ∨ i = 14 ∨ i = 15 := by omega
  rcases hc with rfl | rfl | rfl | rfl | rfl | rfl | rfl | rfl | rfl | rfl | rfl | rfl | rfl | rfl | rfl | rfl <;>
    bits565 p

theorem pack565Lane_eq (p : Nat) : Sse2.pack565Lane p = convert8888to0565 p := by
  rw [pack565Lane_def, packV_lo, packV_hi]
  have h1 := bl (p >>> 5) (p >>> 3)
  have h2 := bh (p >>> 16) (p >>> 13)
  rw [packus_byte _ (by omega), packus_byte _ (by omega)]
  have e : ∀ lo hi : Nat, lo < 2 ^ 8 → lo + hi * 256 = (hi <<< 8) ||| lo := by
    intro lo hi h
    rw [← Nat.shiftLeft_add_eq_or_of_lt h, Nat.shiftLeft_eq]
    omega
  rw [e _ _ h1]
  have b1 : ((p >>> 16 &&& 0xf8 ||| p >>> 13 &&& 0x07) <<< 8 ||| (p >>> 5 &&& 0xe0 ||| p >>> 3 &&& 0x1f)) < 2 ^ 16 := by
    apply Nat.or_lt_two_pow
    · rw [Nat.shiftLeft_eq]; have := h2; omega
    · exact Nat.lt_trans h1 (by decide)
  have b2 : convert8888to0565 p < 2 ^ 16 := by unfold convert8888to0565; exact Nat.mod_lt _ (by decide)
  apply eq_of_testBit_lt 16 _ _ b1 b2
  intro i hi
  unfold convert8888to0565
  have hc : i = 0 ∨ i = 1 ∨ i = 2 ∨ i = 3 ∨ i = 4 ∨ i = 5 ∨ i = 6 ∨ i = 7 ∨ i = 8 ∨ i = 9 ∨ i = 10 ∨ i = 11 ∨ i = 12 ∨ i = 13 ∨ i = 14 ∨ i = 15 := by omega
  rcases hc with rfl | rfl | rfl | rfl | rfl | rfl | rfl | rfl | rfl | rfl | rfl | rfl | rfl | rfl | rfl | rfl <;>
    bits565 p

/-! ### MMX `pack_565` -/

theorem div256 (x : Nat) : x / 256 = x >>> 8 := by simp [Nat.shiftRight_eq_div_pow]
theorem div65536 (x : Nat) : x / 65536 = x >>> 16 := by simp [Nat.shiftRight_eq_div_pow]
theorem div16777216 (x : Nat) : x / 16777216 = x >>> 24 := by simp [Nat.shiftRight_eq_div_pow]
/-- the 64-bit register holding an unpacked pixel, as shifts and ORs -/
theorem reg_unpack32 (p : Nat) :
    Mmx.reg (unpack32 p) = ((((p >>> 24 % 256) <<< 16 ||| (p >>> 16 % 256)) <<< 16 ||| (p >>> 8 % 256)) <<< 16) ||| (p % 256) := by
  unfold Mmx.reg unpack32
  simp only [div256, div65536, div16777216]
  have hb : p % 256 < 2 ^ 16 := Nat.lt_of_lt_of_le (Nat.mod_lt _ (by decide)) (by decide)
  have hg : p >>> 8 % 256 < 2 ^ 16 := Nat.lt_of_lt_of_le (Nat.mod_lt _ (by decide)) (by decide)
  have hr : p >>> 16 % 256 < 2 ^ 16 := Nat.lt_of_lt_of_le (Nat.mod_lt _ (by decide)) (by decide)
  rw [← Nat.shiftLeft_add_eq_or_of_lt hb, ← Nat.shiftLeft_add_eq_or_of_lt hg, ← Nat.shiftLeft_add_eq_or_of_lt hr]
  simp only [Nat.shiftLeft_eq, Nat.reducePow]
  omega

theorem mmx_pack565_eq (p : Nat) : Mmx.pack565 (Mmx.reg (unpack32 p)) = convert8888to0565 p := by
  rw [reg_unpack32]
  have b1 : ∀ x, Mmx.pack565 x < 2 ^ 16 := fun x => by unfold Mmx.pack565; exact Nat.mod_lt _ (by decide)
  have b2 : convert8888to0565 p < 2 ^ 16 := by unfold convert8888to0565; exact Nat.mod_lt _ (by decide)
  apply eq_of_testBit_lt 16 _ _ (b1 _) b2
  intro i hi
  unfold Mmx.pack565 convert8888to0565
  have hc : i = 0 ∨ i = 1 ∨ i = 2 ∨ i = 3 ∨ i = 4 ∨ i = 5 ∨ i = 6 ∨ i = 7 ∨ i = 8 ∨ i = 9 ∨ i = 10 ∨ i = 11 ∨ i = 12 ∨ i = 13 ∨ i = 14 ∨ i = 15 := by omega
  rcases hc with rfl | rfl | rfl | rfl | rfl | rfl | rfl | rfl | rfl | rfl | rfl | rfl | rfl | rfl | rfl | rfl <;>
    bits565 p

/-! ### MMX `expand565` -/

/-- the register after the two shifts, the ORs and the `565_rgb` mask -/
def expandQ (p : Nat) : Nat :=
  ((((p <<< 25) % 18446744073709551616) ||| p) ||| ((p <<< 11) % 18446744073709551616)) &&& 0x000001f0003f001f

theorem expand565_def (p : Nat) : Mmx.expand565 p =
    ⟨mullo16 (Mmx.lane (expandQ p) 0) 0x0840 >>> 8, mullo16 (Mmx.lane (expandQ p) 1) 0x0410 >>> 8,
     mullo16 (Mmx.lane (expandQ p) 2) 0x0084 >>> 8, mullo16 (Mmx.lane (expandQ p) 3) 0 >>> 8⟩ := rfl

theorem and_lt16 (x m : Nat) (h : m < 2 ^ 16) : x &&& m < 2 ^ 16 := Nat.lt_of_le_of_lt Nat.and_le_right h

theorem lane0 (s : Nat) (hs : s < 65536) : Mmx.lane (expandQ s) 0 = s &&& 0x1f := by
  have hl : Mmx.lane (expandQ s) 0 = expandQ s >>> 0 % 65536 := by unfold Mmx.lane; simp [Nat.shiftRight_eq_div_pow]
  rw [hl]
  have e : s = s % 65536 := (Nat.mod_eq_of_lt hs).symm
  rw [e]
  apply eq_of_testBit_lt 16 _ _ (Nat.mod_lt _ (by decide)) (and_lt16 _ _ (by decide))
  intro i hi
  unfold expandQ
  have hc : i = 0 ∨ i = 1 ∨ i = 2 ∨ i = 3 ∨ i = 4 ∨ i = 5 ∨ i = 6 ∨ i = 7 ∨ i = 8 ∨ i = 9 ∨ i = 10 ∨ i = 11 ∨ i = 12 ∨ i = 13 ∨ i = 14 ∨ i = 15 := by omega
  rcases hc with rfl | rfl | rfl | rfl | rfl | rfl | rfl | rfl | rfl | rfl | rfl | rfl | rfl | rfl | rfl | rfl <;>
    bits565 s


theorem lane1 (s : Nat) (hs : s < 65536) : Mmx.lane (expandQ s) 1 = (s >>> 5) &&& 0x3f := by
  have hl : Mmx.lane (expandQ s) 1 = expandQ s >>> 16 % 65536 := by unfold Mmx.lane; simp [Nat.shiftRight_eq_div_pow]
  rw [hl]
  have e : s = s % 65536 := (Nat.mod_eq_of_lt hs).symm
  rw [e]
  apply eq_of_testBit_lt 16 _ _ (Nat.mod_lt _ (by decide)) (and_lt16 _ _ (by decide))
  intro i hi
  unfold expandQ
  have hc : i = 0 ∨ i = 1 ∨ i = 2 ∨ i = 3 ∨ i = 4 ∨ i = 5 ∨ i = 6 ∨ i = 7 ∨ i = 8 ∨ i = 9 ∨ i = 10 ∨ i = 11 ∨ i = 12 ∨ i = 13 ∨ i = 14 ∨ i = 15 := by omega
  rcases hc with rfl | rfl | rfl | rfl | rfl | rfl | rfl | rfl | rfl | rfl | rfl | rfl | rfl | rfl | rfl | rfl <;>
    bits565 s


theorem lane2 (s : Nat) (hs : s < 65536) : Mmx.lane (expandQ s) 2 = ((s >>> 11) &&& 0x1f) <<< 4 := by
  have hl : Mmx.lane (expandQ s) 2 = expandQ s >>> 32 % 65536 := by unfold Mmx.lane; simp [Nat.shiftRight_eq_div_pow]
  rw [hl]
  have e : s = s % 65536 := (Nat.mod_eq_of_lt hs).symm
  rw [e]
  apply eq_of_testBit_lt 16 _ _ (Nat.mod_lt _ (by decide)) (by have h2 : ((s % 65536) >>> 11) &&& 0x1f ≤ 0x1f := Nat.and_le_right; rw [Nat.shiftLeft_eq]; omega)
  intro i hi
  unfold expandQ
  have hc : i = 0 ∨ i = 1 ∨ i = 2 ∨ i = 3 ∨ i = 4 ∨ i = 5 ∨ i = 6 ∨ i = 7 ∨ i = 8 ∨ i = 9 ∨ i = 10 ∨ i = 11 ∨ i = 12 ∨ i = 13 ∨ i = 14 ∨ i = 15 := by omega
  rcases hc with rfl | rfl | rfl | rfl | rfl | rfl | rfl | rfl | rfl | rfl | rfl | rfl | rfl | rfl | rfl | rfl <;>
    bits565 s


theorem lane3 (s : Nat) (hs : s < 65536) : Mmx.lane (expandQ s) 3 = 0 := by
  have hl : Mmx.lane (expandQ s) 3 = expandQ s >>> 48 % 65536 := by unfold Mmx.lane; simp [Nat.shiftRight_eq_div_pow]
  rw [hl]
  have e : s = s % 65536 := (Nat.mod_eq_of_lt hs).symm
  rw [e]
  apply eq_of_testBit_lt 16 _ _ (Nat.mod_lt _ (by decide)) (by decide)
  intro i hi
  unfold expandQ
  have hc : i = 0 ∨ i = 1 ∨ i = 2 ∨ i = 3 ∨ i = 4 ∨ i = 5 ∨ i = 6 ∨ i = 7 ∨ i = 8 ∨ i = 9 ∨ i = 10 ∨ i = 11 ∨ i = 12 ∨ i = 13 ∨ i = 14 ∨ i = 15 := by omega
  rcases hc with rfl | rfl | rfl | rfl | rfl | rfl | rfl | rfl | rfl | rfl | rfl | rfl | rfl | rfl | rfl | rfl <;>
    bits565 s

set_option maxRecDepth 20000 in
theorem chanB : ∀ b, b < 32 → mullo16 b 0x0840 >>> 8 = (b <<< 3) ||| (b >>> 2) := by decide
set_option maxRecDepth 20000 in
theorem chanG : ∀ g, g < 64 → mullo16 g 0x0410 >>> 8 = (g <<< 2) ||| (g >>> 4) := by decide
set_option maxRecDepth 20000 in
theorem chanR : ∀ r, r < 32 → mullo16 (r <<< 4) 0x0084 >>> 8 = (r <<< 3) ||| (r >>> 2) := by decide

theorem and_lt (x m : Nat) : x &&& m < m + 1 := Nat.lt_succ_of_le Nat.and_le_right

theorem mmx_expand565_eq (s : Nat) (hs : s < 65536) : pack32 (Mmx.expand565 s) = convert0565to0888 s := by
  rw [expand565_def, lane0 s hs, lane1 s hs, lane2 s hs, lane3 s hs]
  have hb := and_lt s 0x1f
  have hg := and_lt (s >>> 5) 0x3f
  have hr := and_lt (s >>> 11) 0x1f
  rw [chanB _ hb, chanG _ hg, chanR _ hr]
  generalize hB : ((s &&& 0x1f) <<< 3) ||| ((s &&& 0x1f) >>> 2) = B
  generalize hG : (((s >>> 5) &&& 0x3f) <<< 2) ||| (((s >>> 5) &&& 0x3f) >>> 4) = G
  generalize hR : (((s >>> 11) &&& 0x1f) <<< 3) ||| (((s >>> 11) &&& 0x1f) >>> 2) = R
  have bB : B < 2 ^ 8 := by
    rw [← hB]; apply Nat.or_lt_two_pow
    · rw [Nat.shiftLeft_eq]; omega
    · exact Nat.lt_of_le_of_lt (Nat.shiftRight_le _ _) (by omega)
  have bG : G < 2 ^ 8 := by
    rw [← hG]; apply Nat.or_lt_two_pow
    · rw [Nat.shiftLeft_eq]; omega
    · exact Nat.lt_of_le_of_lt (Nat.shiftRight_le _ _) (by omega)
  have bR : R < 2 ^ 8 := by
    rw [← hR]; apply Nat.or_lt_two_pow
    · rw [Nat.shiftLeft_eq]; omega
    · exact Nat.lt_of_le_of_lt (Nat.shiftRight_le _ _) (by omega)
  have z : mullo16 0 0 >>> 8 = 0 := by decide
  rw [z]
  unfold pack32
  simp only []
  rw [packus_byte B (by omega), packus_byte G (by omega), packus_byte R (by omega), packus_byte 0 (by omega)]
  have e : B + G * 256 + R * 65536 + 0 * 16777216 = ((R <<< 8 ||| G) <<< 8) ||| B := by
    rw [← Nat.shiftLeft_add_eq_or_of_lt bB, ← Nat.shiftLeft_add_eq_or_of_lt bG]
    simp only [Nat.shiftLeft_eq, Nat.reducePow]
    omega
  rw [e]
  subst hB hG hR
  have b1 : ∀ x y z : Nat, x < 2 ^ 8 → y < 2 ^ 8 → z < 2 ^ 8 → ((x <<< 8 ||| y) <<< 8) ||| z < 2 ^ 24 := by
    intro x y z hx hy hz
    rw [← Nat.shiftLeft_add_eq_or_of_lt hz, ← Nat.shiftLeft_add_eq_or_of_lt hy]
    simp only [Nat.shiftLeft_eq, Nat.reducePow]
    omega
  apply eq_of_testBit_lt 24 _ _ (b1 _ _ _ bR bG bB) (convert0565_lt s)
  intro i hi
  unfold convert0565to0888
  have hc : i = 0 ∨ i = 1 ∨ i = 2 ∨ i = 3 ∨ i = 4 ∨ i = 5 ∨ i = 6 ∨ i = 7 ∨ i = 8 ∨ i = 9 ∨ i = 10 ∨ i = 11 ∨ i = 12 ∨ i = 13 ∨ i = 14 ∨ i = 15 ∨ i = 16 ∨ i = 17 ∨ i = 18 ∨ i = 19 ∨ i = 20 ∨ i = 21 ∨ i = 22 ∨ i = 23 := by omega
  rcases hc with rfl | rfl | rfl | rfl | rfl | rfl | rfl | rfl | rfl | rfl | rfl | rfl | rfl | rfl | rfl | rfl | rfl | rfl | rfl | rfl | rfl | rfl | rfl | rfl <;>
    bits565 s

end Pixman.Lemmas.Simd565

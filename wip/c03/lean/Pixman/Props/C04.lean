import Pixman.Model.Extent
import Pixman.Model.Alloc
import Pixman.Lemmas.Extent
import Pixman.Lemmas.ExtentPad
import Pixman.Lemmas.ExtentAlloc
import Pixman.Props.C04Core
import Pixman.Gen.BilinearSplit
/-! C04 — no access outside the described pixel storage: property theorems about the request
    analysis (`analyze_extent`, the COVER_CLIP flags, the 16.16 range test), the coordinate walks
    they license, `pad_repeat_get_scanline_bounds`, and the allocation size arithmetic.
    `repeat` (S5) and exact stepping (S1 core) are in `Pixman.Props.C04Core`.

    Scope of S2/S3/S4/S9: affine matrices (last row `0 0 1.0`) and the absent transform — the only
    cases in which a routine consults the flags (see the assumptions in the evidence). -/
namespace Pixman.Props.C04
open Pixman.Matrix Pixman.Sample Pixman.Model.Extent Pixman.Lemmas.Extent Pixman.Spec.Fixed

/-! ### the shape of `analyze_extent` -/

/-- the 16-bit test of the expanded extents -/
def Ext16 (e : Box32) : Prop :=
  -32767 ≤ e.x1 ∧ e.x1 ≤ 32768 ∧ -32767 ≤ e.y1 ∧ e.y1 ≤ 32768 ∧
  -32769 ≤ e.x2 ∧ e.x2 ≤ 32766 ∧ -32769 ≤ e.y2 ∧ e.y2 ≤ 32766

theorem is16_iff (e : Box32) :
    (is16Bit (e.x1 - 1) && is16Bit (e.y1 - 1) && is16Bit (e.x2 + 1) && is16Bit (e.y2 + 1)) = true ↔ Ext16 e := by
  unfold is16Bit Ext16
  simp only [Bool.and_eq_true, decide_eq_true_eq]
  omega

/-- everything `analyze_extent` can answer, by branch -/
theorem analyzeExtent_cases (img : Image) (e : Box32) (r : Bool) (fl : Flags)
    (h : analyzeExtent img e = .ok (r, fl)) :
    (r = false ∧ fl = ⟨false, false⟩) ∨
    (Ext16 e ∧ img.isBits = true ∧ img.width < 32767 ∧ img.height < 32767 ∧ img.idTransform = true ∧
       0 ≤ e.x1 ∧ 0 ≤ e.y1 ∧ e.x2 ≤ img.width ∧ e.y2 ≤ img.height ∧ r = true ∧ fl = ⟨true, false⟩) ∨
    (Ext16 e ∧ (img.isBits = true → img.width < 32767 ∧ img.height < 32767 ∧
                  ((img.width ≤ 0 ∨ img.height ≤ 0) → img.repeatMode = 0)) ∧
       ¬ (img.isBits = true ∧ img.idTransform = true ∧ e.x1 ≥ 0 ∧ e.y1 ≥ 0 ∧ e.x2 ≤ img.width ∧ e.y2 ≤ img.height) ∧
       ∃ xoff yoff w hh tr, footprint img = some (xoff, yoff, w, hh) ∧
         computeTransformedExtents img.transform e = .ok tr ∧
         fl = (if img.isBits then ⟨coverNearest tr img.width img.height, coverBilinear tr img.width img.height⟩
               else ⟨false, false⟩) ∧
         (r = true → ∃ tr2, computeTransformedExtents img.transform (expand e) = .ok tr2 ∧
                            rangeOk tr2 xoff yoff w hh = true)) := by
  unfold analyzeExtent at h
  split at h
  · injection h with h; injection h with h1 h2; exact Or.inl ⟨h1.symm, h2.symm⟩
  rename_i h16
  have h16 : Ext16 e := by
    rw [← is16_iff]
    revert h16; cases (is16Bit (e.x1 - 1) && is16Bit (e.y1 - 1) && is16Bit (e.x2 + 1) && is16Bit (e.y2 + 1)) <;> simp
  split at h
  · injection h with h; injection h with h1 h2; exact Or.inl ⟨h1.symm, h2.symm⟩
  rename_i hbig
  have hsz : img.isBits = true → img.width < 32767 ∧ img.height < 32767 := by
    intro hb
    refine ⟨?_, ?_⟩ <;> (apply Classical.byContradiction; intro hc; exact hbig ⟨hb, by omega⟩)
  split at h
  · injection h with h; injection h with h1 h2; exact Or.inl ⟨h1.symm, h2.symm⟩
  rename_i hempty
  have hsz2 : img.isBits = true → img.width < 32767 ∧ img.height < 32767 ∧
      ((img.width ≤ 0 ∨ img.height ≤ 0) → img.repeatMode = 0) := by
    intro hb
    refine ⟨(hsz hb).1, (hsz hb).2, fun he => ?_⟩
    apply Classical.byContradiction; intro hr
    exact hempty ⟨hb, he, hr⟩
  split at h
  · rename_i hid
    injection h with h; injection h with h1 h2
    obtain ⟨b1, b2, b3, b4, b5, b6⟩ := hid
    exact Or.inr (Or.inl ⟨h16, b1, (hsz b1).1, (hsz b1).2, b2, b3, b4, b5, b6, h1.symm, h2.symm⟩)
  rename_i hnid
  split at h
  · injection h with h; injection h with h1 h2; exact Or.inl ⟨h1.symm, h2.symm⟩
  rename_i xoff yoff w hh hfp
  split at h
  · cases h
  · injection h with h; injection h with h1 h2; exact Or.inl ⟨h1.symm, h2.symm⟩
  rename_i tr htr
  simp only at h
  generalize hflv : (if img.isBits = true then
      (⟨coverNearest tr img.width img.height, coverBilinear tr img.width img.height⟩ : Flags)
      else ⟨false, false⟩) = flv at h
  have key : fl = flv ∧ (r = true → ∃ tr2, computeTransformedExtents img.transform (expand e) = .ok tr2 ∧
      rangeOk tr2 xoff yoff w hh = true) := by
    split at h
    · cases h
    · injection h with h; injection h with h1 h2
      exact ⟨h2.symm, fun hr => by rw [hr] at h1; cases h1⟩
    · rename_i tr2 htr2
      injection h with h; injection h with h1 h2
      exact ⟨h2.symm, fun hr => ⟨tr2, htr2, by rw [h1, hr]⟩⟩
  exact Or.inr (Or.inr ⟨h16, hsz2, hnid, xoff, yoff, w, hh, tr, hfp, htr, by rw [key.1, ← hflv], key.2⟩)

theorem goodBox_of_ext16 (e : Box32) (h : Ext16 e) (hx : e.x1 < e.x2) (hy : e.y1 < e.y2) : GoodBox e := by
  unfold Ext16 at h; unfold GoodBox; omega

theorem goodBox_expand (e : Box32) (h : Ext16 e) (hx : e.x1 - 1 ≤ e.x2) (hy : e.y1 - 1 ≤ e.y2) : GoodBox (expand e) := by
  unfold Ext16 at h; unfold GoodBox expand; simp only; omega

/-! ### S2 / S3: the cover flags are sound -/

/-- (S2) COVER_CLIP_NEAREST set ⇒ the nearest sample index of EVERY pixel of the extents lies in
    `[0, width) × [0, height)`.  `hid` is the library invariant "ID_TRANSFORM flag ⇒ no transform"
    (checked on every request by the correspondence harness). -/
theorem cover_nearest_sound (img : Image) (e : Box32) (r : Bool) (fl : Flags)
    (ht : optAffine img.transform) (hid : img.idTransform = true → img.transform = none)
    (h : analyzeExtent img e = .ok (r, fl)) (hn : fl.nearest = true)
    (i j : Int) (hi : e.x1 ≤ i ∧ i < e.x2) (hj : e.y1 ≤ j ∧ j < e.y2) :
    0 ≤ nearestIndex (sampleX img.transform i j) ∧ nearestIndex (sampleX img.transform i j) < img.width ∧
    0 ≤ nearestIndex (sampleY img.transform i j) ∧ nearestIndex (sampleY img.transform i j) < img.height := by
  rcases analyzeExtent_cases img e r fl h with ⟨_, hf⟩ | ⟨_, _, _, _, hidt, b1, b2, b3, b4, _, _⟩ | ⟨h16, _, _, xoff, yoff, w, hh, tr, _, htr, hfl, _⟩
  · rw [hf] at hn; cases hn
  · rw [hid hidt]
    simp only [sampleX, sampleY, nearestIndex, fixedToInt, fixedE]
    omega
  · have g := goodBox_of_ext16 e h16 (by omega) (by omega)
    obtain ⟨c1, c2, c3, c4, _, _⟩ := cte_contains img.transform ht e g tr htr i j hi hj
    rw [hfl] at hn
    split at hn
    · simp only [coverNearest, Bool.and_eq_true, decide_eq_true_eq] at hn
      obtain ⟨⟨⟨n1, n2⟩, n3⟩, n4⟩ := hn
      simp only [nearestIndex, fixedToInt, fixedE] at *
      omega
    · cases hn

/-- (S3) COVER_CLIP_BILINEAR set ⇒ both taps `(x - 1/2) >> 16` and `+ 1` of EVERY pixel of the
    extents lie in `[0, width)`, and likewise vertically. -/
theorem cover_bilinear_sound (img : Image) (e : Box32) (r : Bool) (fl : Flags)
    (ht : optAffine img.transform)
    (h : analyzeExtent img e = .ok (r, fl)) (hn : fl.bilinear = true)
    (i j : Int) (hi : e.x1 ≤ i ∧ i < e.x2) (hj : e.y1 ≤ j ∧ j < e.y2) :
    0 ≤ bilinearTap1 (sampleX img.transform i j) ∧ bilinearTap2 (sampleX img.transform i j) < img.width ∧
    0 ≤ bilinearTap1 (sampleY img.transform i j) ∧ bilinearTap2 (sampleY img.transform i j) < img.height := by
  rcases analyzeExtent_cases img e r fl h with ⟨_, hf⟩ | ⟨_, _, _, _, _, _, _, _, _, _, hf⟩ | ⟨h16, _, _, xoff, yoff, w, hh, tr, _, htr, hfl, _⟩
  · rw [hf] at hn; cases hn
  · rw [hf] at hn; cases hn
  · have g := goodBox_of_ext16 e h16 (by omega) (by omega)
    obtain ⟨c1, c2, c3, c4, _, _⟩ := cte_contains img.transform ht e g tr htr i j hi hj
    rw [hfl] at hn
    split at hn
    · simp only [coverBilinear, Bool.and_eq_true, decide_eq_true_eq] at hn
      obtain ⟨⟨⟨n1, n2⟩, n3⟩, n4⟩ := hn
      simp only [bilinearTap2, bilinearTap1, fixedToInt, half] at *
      omega
    · cases hn

/-! ### images without pixels (d0c8131) -/

/-- a bits image without pixels that has a repeat mode is never sampled: `analyze_extent` returns
    FALSE with no flag, whatever the extents, transform and filter (there is nothing to repeat:
    `repeat ()` would divide by the size or never terminate) -/
theorem empty_repeat_dropped (img : Image) (e : Box32) (hb : img.isBits = true)
    (he : img.width ≤ 0 ∨ img.height ≤ 0) (hr : img.repeatMode ≠ 0) :
    analyzeExtent img e = .ok (false, ⟨false, false⟩) := by
  unfold analyzeExtent
  split; · rfl
  split; · rfl
  split; · rfl
  rename_i hn
  exact absurd ⟨hb, he, hr⟩ hn

/-- an accepted bits image without pixels has REPEAT_NONE -/
theorem accepted_empty_is_repeat_none (img : Image) (e : Box32) (fl : Flags) (hb : img.isBits = true)
    (he : img.width ≤ 0 ∨ img.height ≤ 0) (h : analyzeExtent img e = .ok (true, fl)) : img.repeatMode = 0 := by
  apply Classical.byContradiction; intro hr
  rw [empty_repeat_dropped img e hb he hr] at h
  cases h

/-- a cover flag on an image without pixels licenses no read at all: the extents contain no pixel
    (corollary of S2/S3; no `width > 0` hypothesis is needed anywhere) -/
theorem cover_flag_empty_image (img : Image) (e : Box32) (r : Bool) (fl : Flags)
    (ht : optAffine img.transform) (hid : img.idTransform = true → img.transform = none)
    (h : analyzeExtent img e = .ok (r, fl)) (hn : fl.nearest = true ∨ fl.bilinear = true)
    (he : img.width ≤ 0 ∨ img.height ≤ 0)
    (i j : Int) (hi : e.x1 ≤ i ∧ i < e.x2) (hj : e.y1 ≤ j ∧ j < e.y2) : False := by
  rcases hn with hn | hn
  · have := cover_nearest_sound img e r fl ht hid h hn i j hi hj
    omega
  · have := cover_bilinear_sound img e r fl ht h hn i j hi hj
    unfold bilinearTap2 at this
    omega

example : analyzeExtent ⟨true, 0, 4, true, 3, 0, 0, none, 1⟩ ⟨0, 0, 4, 4⟩ = .ok (false, ⟨false, false⟩) ∧
    analyzeExtent ⟨true, 0, 4, true, 3, 0, 0, none, 0⟩ ⟨0, 0, 4, 4⟩ = .ok (true, ⟨false, false⟩) := by decide

/-! ### S1: affine linearity, extremes at the corners -/

/-- (S1) the source coordinate of pixel `(x + i, y + j)` is the coordinate of `(x, y)` plus
    `i·m00 + j·m01` EXACTLY (one rounding at the start, exact increments) … -/
theorem sample_affine_linear (t : Transform) (x y i j : Int) :
    sampleX (some t) (x + i) (y + j) = sampleX (some t) x y + i * t.m00 + j * t.m01 ∧
    sampleY (some t) (x + i) (y + j) = sampleY (some t) x y + i * t.m10 + j * t.m11 :=
  ⟨sampleCoord_linear t.m00 t.m01 t.m02 x y i j, sampleCoord_linear t.m10 t.m11 t.m12 x y i j⟩

/-- (S1) … hence over a box of pixels its extremes are attained at the four corner pixels: whatever
    bounds hold at the corners `compute_transformed_extents` evaluates hold for every pixel inside. -/
theorem extremes_at_corners (t : Transform) (x1 y1 x2 y2 i j lo hi : Int)
    (hi1 : x1 ≤ i ∧ i ≤ x2) (hj1 : y1 ≤ j ∧ j ≤ y2)
    (c00 : lo ≤ sampleX (some t) x1 y1 ∧ sampleX (some t) x1 y1 ≤ hi)
    (c10 : lo ≤ sampleX (some t) x2 y1 ∧ sampleX (some t) x2 y1 ≤ hi)
    (c01 : lo ≤ sampleX (some t) x1 y2 ∧ sampleX (some t) x1 y2 ≤ hi)
    (c11 : lo ≤ sampleX (some t) x2 y2 ∧ sampleX (some t) x2 y2 ≤ hi) :
    lo ≤ sampleX (some t) i j ∧ sampleX (some t) i j ≤ hi :=
  sampleCoord_between t.m00 t.m01 t.m02 x1 y1 x2 y2 i j lo hi hi1 hj1 c00 c10 c01 c11

/-- the box returned by `compute_transformed_extents` contains the coordinate of every pixel of the
    extents, and all of them are representable (affine or absent transform, 16-bit extents) -/
theorem transformed_extents_contain (t : Option Transform) (ht : optAffine t) (e : Box32) (g : GoodBox e) (r : Box48)
    (h : computeTransformedExtents t e = .ok r) (i j : Int)
    (hi : e.x1 ≤ i ∧ i < e.x2) (hj : e.y1 ≤ j ∧ j < e.y2) :
    r.x1 ≤ sampleX t i j ∧ sampleX t i j ≤ r.x2 ∧ r.y1 ≤ sampleY t i j ∧ sampleY t i j ≤ r.y2 ∧
    isI32 (sampleX t i j) ∧ isI32 (sampleY t i j) :=
  cte_contains t ht e g r h i j hi hj

/-! non-vacuity: a 2x downscale whose last sample is column 8 of 10 (flag set), the same shifted by one
    unit so that the first sample is column -1 (flag clear); a bilinear request with both flags; a
    translation by 32767.0 whose expanded extents leave the 16.16 range (dropped) -/
example : analyzeExtent ⟨true, 10, 10, false, 3, 0, 0, some ⟨131072, 0, 0, 0, 65536, 0, 0, 0, 65536⟩, 0⟩ ⟨0, 0, 5, 10⟩
    = .ok (true, ⟨true, false⟩) := by decide
example : analyzeExtent ⟨true, 10, 10, false, 3, 0, 0, some ⟨131072, 0, -65536, 0, 65536, 0, 0, 0, 65536⟩, 0⟩ ⟨0, 0, 5, 10⟩
    = .ok (true, ⟨false, false⟩) := by decide
example : analyzeExtent ⟨true, 10, 10, false, 4, 0, 0, some ⟨65536, 0, 32768, 0, 65536, 32768, 0, 0, 65536⟩, 0⟩ ⟨0, 0, 9, 9⟩
    = .ok (true, ⟨true, true⟩) := by decide
example : analyzeExtent ⟨true, 4, 4, false, 3, 0, 0, some ⟨65536, 0, 2147418112, 0, 65536, 0, 0, 0, 65536⟩, 0⟩ ⟨0, 0, 1, 1⟩
    = .ok (false, ⟨false, false⟩) := by decide
example : optAffine (some ⟨131072, 0, 0, 0, 65536, 0, 0, 0, 65536⟩) := by
  refine ⟨⟨rfl, rfl, rfl⟩, ?_⟩; unfold Transform.isI32 isI32; simp only; omega
example : walkX ⟨131072, 0, 0, 0, 65536, 0, 0, 0, 65536⟩ 0 0 1 5 = some (sampleX (some ⟨131072, 0, 0, 0, 65536, 0, 0, 0, 65536⟩) 5 0 - 1) := by decide

/-! ### S4 / S9: the 16.16 range test on the expanded extents -/

/-- the early exit for untransformed sources inside the image -/
def IdBranch (img : Image) (e : Box32) : Prop :=
  img.isBits = true ∧ img.idTransform = true ∧ e.x1 ≥ 0 ∧ e.y1 ≥ 0 ∧ e.x2 ≤ img.width ∧ e.y2 ≤ img.height

/-- (S4) `analyze_extent` TRUE (outside the untransformed early exit) ⇒ for EVERY pixel of the
    extents expanded by one — `x1-1 ≤ i ≤ x2`, `y1-1 ≤ j ≤ y2`, i.e. including the one-step overshoot
    on either side — the source coordinate, widened by the filter footprint and 8 units of slack,
    stays inside `int32_t`: nothing in the walk wraps. -/
theorem range_test_sound (img : Image) (e : Box32) (fl : Flags)
    (ht : optAffine img.transform) (hmain : ¬ IdBranch img e)
    (h : analyzeExtent img e = .ok (true, fl))
    (xoff yoff w hh : Int) (hfp : footprint img = some (xoff, yoff, w, hh))
    (i j : Int) (hi : e.x1 - 1 ≤ i ∧ i ≤ e.x2) (hj : e.y1 - 1 ≤ j ∧ j ≤ e.y2) :
    -2147483648 ≤ sampleX img.transform i j + xoff - 8 ∧ sampleX img.transform i j + xoff + 8 + w ≤ 2147483647 ∧
    -2147483648 ≤ sampleY img.transform i j + yoff - 8 ∧ sampleY img.transform i j + yoff + 8 + hh ≤ 2147483647 ∧
    isI32 (sampleX img.transform i j) ∧ isI32 (sampleY img.transform i j) := by
  rcases analyzeExtent_cases img e true fl h with ⟨hf, _⟩ | ⟨_, b1, _, _, b2, b3, b4, b5, b6, _, _⟩ | ⟨h16, _, _, xoff', yoff', w', hh', tr, hfp', _, _, hr⟩
  · cases hf
  · exact absurd ⟨b1, b2, b3, b4, b5, b6⟩ hmain
  · rw [hfp] at hfp'
    injection hfp' with hfp'; injection hfp' with e1 hfp'; injection hfp' with e2 hfp'; injection hfp' with e3 e4
    subst e1; subst e2; subst e3; subst e4
    obtain ⟨tr2, htr2, hrange⟩ := hr rfl
    have g := goodBox_expand e h16 (by omega) (by omega)
    obtain ⟨c1, c2, c3, c4, c5, c6⟩ := cte_contains img.transform ht (expand e) g tr2 htr2 i j
      (by simp only [expand]; omega) (by simp only [expand]; omega)
    simp only [rangeOk, is1616, Bool.and_eq_true, decide_eq_true_eq] at hrange
    simp only [fixedE] at hrange
    simp only [isI32] at *
    omega

/-- (S4, untransformed early exit) TRUE through the early exit: the source is not transformed and
    the pixel centres of the expanded extents are representable -/
theorem range_id_branch (img : Image) (e : Box32) (fl : Flags) (hb : IdBranch img e)
    (hid : img.idTransform = true → img.transform = none)
    (h : analyzeExtent img e = .ok (true, fl))
    (i j : Int) (hi : e.x1 - 1 ≤ i ∧ i ≤ e.x2) (hj : e.y1 - 1 ≤ j ∧ j ≤ e.y2) :
    isI32 (sampleX img.transform i j) ∧ isI32 (sampleY img.transform i j) := by
  have hb' := hb
  obtain ⟨b1, b2, b3, b4, b5, b6⟩ := hb'
  rw [hid b2]
  rcases analyzeExtent_cases img e true fl h with ⟨hr, _⟩ | ⟨_, _, w1, w2, _, _, _, _, _, _, _⟩ | ⟨_, _, hn, _⟩
  · cases hr
  · simp only [sampleX, sampleY, isI32]; exact ⟨by omega, by omega⟩
  · exact absurd hb hn

/-! ### S1 + S4: the fetcher's scanline walk is exact and never wraps -/

theorem wrapS32_isI32 (x : Int) : isI32 (wrapS32 x) := by
  unfold isI32 wrapS32; omega

/-- (S1+S4) For an accepted request with an affine transform, the walk of the affine fetchers — start
    at `pixman_transform_point_3d (centre of (x, y)) - off`, then `+= m00` / `+= m10` per pixel — started
    at ANY pixel `(x, y)` of the extents and run for `k` steps up to and including the one-step
    overshoot `x + k = x2`, never wraps `int32_t`, and its value at step `k` is exactly the rounded
    image of the centre of pixel `(x + k, y)` minus `off`: no drift, no mis-addressing.
    `off` is the filter offset (`pixman_fixed_e` for nearest, `pixman_fixed_1 / 2` for bilinear): any
    value within the footprint that `analyze_extent` reserved. -/
theorem walk_exact_no_wrap (img : Image) (t : Transform) (e : Box32) (fl : Flags)
    (htr : img.transform = some t) (ht : optAffine (some t)) (hmain : ¬ IdBranch img e)
    (h : analyzeExtent img e = .ok (true, fl))
    (xoff yoff w hh : Int) (hfp : footprint img = some (xoff, yoff, w, hh))
    (off : Int) (hoff : 0 ≤ off ∧ off ≤ 8 - xoff ∧ off ≤ 8 - yoff)
    (x y : Int) (hx : e.x1 ≤ x ∧ x < e.x2) (hy : e.y1 ≤ y ∧ y < e.y2) (k : Nat) (hk : x + k ≤ e.x2) :
    walkX t x y off k = some (sampleX (some t) (x + k) y - off) ∧ isI32 (sampleX (some t) (x + k) y - off) ∧
    walkY t x y off k = some (sampleY (some t) (x + k) y - off) ∧ isI32 (sampleY (some t) (x + k) y - off) := by
  have hR := fun (i : Int) (hi : e.x1 - 1 ≤ i ∧ i ≤ e.x2) =>
    range_test_sound img e fl (by rw [htr]; exact ht) hmain h xoff yoff w hh hfp i y hi (by omega)
  rw [htr] at hR
  -- 16-bit coordinates of the start pixel
  rcases analyzeExtent_cases img e true fl h with ⟨hf, _⟩ | ⟨_, b1, _, _, b2, b3, b4, b5, b6, _, _⟩ | ⟨h16, _⟩
  · cases hf
  · exact absurd ⟨b1, b2, b3, b4, b5, b6⟩ hmain
  have hx16 : -32768 ≤ x ∧ x ≤ 32767 := by unfold Ext16 at h16; omega
  have hy16 : -32768 ≤ y ∧ y ≤ 32767 := by unfold Ext16 at h16; omega
  have hpc := Pixman.Props.C04Core.pixelCentre_exact x y hx16 hy16
  have hv : Vec.isI32 ⟨x * 65536 + 32768, y * 65536 + 32768, 65536⟩ := by
    unfold Vec.isI32 isI32; simp only; omega
  obtain ⟨haff, hI⟩ := ht
  obtain ⟨a0, a1, a2⟩ := haff
  obtain ⟨b, out, e3, hb, ho⟩ := Pixman.Props.C11.transformPoint3d_spec t _ hv
  have hz : roundHalfUp (dot t.m20 t.m21 t.m22 (x * 65536 + 32768) (y * 65536 + 32768) 65536) 65536 = 65536 := by
    rw [a0, a1, a2]; unfold roundHalfUp dot; omega
  have h0 := hR x (by omega)
  simp only [sampleX, sampleY, sampleCoord] at h0
  have hbt : b = true := by
    rw [hb, hz]
    exact ⟨h0.2.2.2.2.1, h0.2.2.2.2.2, by unfold Rep32; omega⟩
  have hout := ho hbt
  -- linearity along the scanline
  have lin : ∀ n : Int, sampleX (some t) (x + n) y = sampleX (some t) x y + n * t.m00 ∧
      sampleY (some t) (x + n) y = sampleY (some t) x y + n * t.m10 := by
    intro n
    have l1 := sampleCoord_linear t.m00 t.m01 t.m02 x y n 0
    have l2 := sampleCoord_linear t.m10 t.m11 t.m12 x y n 0
    simp only [Int.add_zero, Int.zero_mul] at l1 l2
    exact ⟨l1, l2⟩
  have stepX : ∀ n : Nat, n ≤ k → isI32 (sampleX (some t) x y - off + n * t.m00) := by
    intro n hn
    have r := hR (x + n) (by omega)
    rw [(lin n).1] at r
    have : sampleX (some t) x y - off + n * t.m00 = sampleX (some t) x y + n * t.m00 - off := by omega
    rw [this]; unfold isI32 at *; omega
  have stepY : ∀ n : Nat, n ≤ k → isI32 (sampleY (some t) x y - off + n * t.m10) := by
    intro n hn
    have r := hR (x + n) (by omega)
    rw [(lin n).2] at r
    have : sampleY (some t) x y - off + n * t.m10 = sampleY (some t) x y + n * t.m10 - off := by omega
    rw [this]; unfold isI32 at *; omega
  have sx0 := stepX 0 (by omega)
  have sy0 := stepY 0 (by omega)
  simp only [Int.natCast_zero, Int.zero_mul, Int.add_zero] at sx0 sy0
  have eX : sampleX (some t) x y = out.x := by rw [hout]; rfl
  have eY : sampleY (some t) x y = out.y := by rw [hout]; rfl
  unfold walkX walkY
  rw [hpc, e3, hbt]
  simp only
  rw [← eX, ← eY, wrapS32_of_range _ sx0, wrapS32_of_range _ sy0,
      Pixman.Props.C04Core.stepped_linear _ _ k stepX, Pixman.Props.C04Core.stepped_linear _ _ k stepY,
      (lin k).1, (lin k).2]
  have fx := stepX k (by omega)
  have fy := stepY k (by omega)
  refine ⟨?_, ?_, ?_, ?_⟩
  · congr 1; omega
  · have : sampleX (some t) x y + ↑k * t.m00 - off = sampleX (some t) x y - off + ↑k * t.m00 := by omega
    rw [this]; exact fx
  · congr 1; omega
  · have : sampleY (some t) x y + ↑k * t.m10 - off = sampleY (some t) x y - off + ↑k * t.m10 := by omega
    rw [this]; exact fy

/-! ### never aborts; S9: what cannot be represented is dropped -/

theorem cte_never_aborts (t : Option Transform) (ht : ∀ m, t = some m → m.isI32) (e : Box32) :
    computeTransformedExtents t e ≠ .abort := by
  unfold computeTransformedExtents
  cases t with
  | none => simp
  | some m =>
    simp only
    apply cornerLoop_never_aborts m (ht m rfl)
    intro c hc
    simp only [cornerList, List.mem_cons, List.mem_nil_iff, or_false] at hc
    rcases hc with rfl | rfl | rfl | rfl <;> exact ⟨wrapS32_isI32 _, wrapS32_isI32 _⟩

/-- `analyze_extent` never reaches an `assert` of the transform code, whatever the int32 matrix
    (affine or projective), image and extents -/
theorem analyzeExtent_never_aborts (img : Image) (e : Box32) (ht : ∀ m, img.transform = some m → m.isI32) :
    analyzeExtent img e ≠ .abort := by
  have c1 := cte_never_aborts img.transform ht e
  have c2 := cte_never_aborts img.transform ht (expand e)
  unfold analyzeExtent
  split; · simp
  split; · simp
  split; · simp
  split; · simp
  split; · simp
  split
  · rename_i hh; exact absurd hh c1
  · simp
  · simp only
    split
    · rename_i hh; exact absurd hh c2
    · simp
    · simp

/-- (S9) if the footprint of ANY pixel of the expanded extents cannot be represented in 16.16 — its
    coordinate minus the filter offset falls below `INT32_MIN + 8e`, or plus the filter width rises above
    `INT32_MAX - 8e` — the request is dropped: `analyze_extent` returns FALSE (and `pixman_image_composite32`
    returns without drawing).  Affine / absent transform; for projective ones see `_partial` below. -/
theorem unrepresentable_dropped (img : Image) (e : Box32)
    (ht : optAffine img.transform) (hmain : ¬ IdBranch img e)
    (xoff yoff w hh : Int) (hfp : footprint img = some (xoff, yoff, w, hh))
    (i j : Int) (hi : e.x1 - 1 ≤ i ∧ i ≤ e.x2) (hj : e.y1 - 1 ≤ j ∧ j ≤ e.y2)
    (hbad : sampleX img.transform i j + xoff - 8 < -2147483648 ∨ 2147483647 < sampleX img.transform i j + xoff + 8 + w ∨
            sampleY img.transform i j + yoff - 8 < -2147483648 ∨ 2147483647 < sampleY img.transform i j + yoff + 8 + hh) :
    ∃ fl, analyzeExtent img e = .ok (false, fl) := by
  have hI : ∀ m, img.transform = some m → m.isI32 := by
    intro m hm; rw [hm] at ht; exact ht.2
  have na := analyzeExtent_never_aborts img e hI
  cases hres : analyzeExtent img e with
  | abort => exact absurd hres na
  | no =>
    exfalso
    unfold analyzeExtent at hres
    split at hres; · cases hres
    split at hres; · cases hres
    split at hres; · cases hres
    split at hres; · cases hres
    split at hres; · cases hres
    split at hres
    · cases hres
    · cases hres
    · simp only at hres
      split at hres <;> cases hres
  | ok p =>
    obtain ⟨r, fl⟩ := p
    cases r with
    | false => exact ⟨fl, rfl⟩
    | true =>
      have := range_test_sound img e fl ht hmain hres xoff yoff w hh hfp i j hi hj
      omega

/-- (S9, any transform incl. projective) if `pixman_transform_point` reports that a corner of the
    extents or of the expanded extents is not representable, the request is dropped.
    PARTIAL: for a projective matrix only the four corners are examined by the code; interior pixels
    of a projective map are not covered by a theorem (no routine consults the cover flags for
    projective sources, and their fetchers bounds-check every sample). -/
theorem unrepresentable_corner_dropped_partial (img : Image) (e : Box32)
    (h1 : computeTransformedExtents img.transform e = .no ∨ computeTransformedExtents img.transform (expand e) = .no)
    (hna : computeTransformedExtents img.transform e ≠ .abort) :
    ∃ fl, analyzeExtent img e = .ok (false, fl) ∨ (IdBranch img e ∧ analyzeExtent img e = .ok (true, fl)) := by
  unfold analyzeExtent
  split; · exact ⟨_, Or.inl rfl⟩
  split; · exact ⟨_, Or.inl rfl⟩
  split; · exact ⟨_, Or.inl rfl⟩
  split
  · rename_i hid; exact ⟨_, Or.inr ⟨hid, rfl⟩⟩
  split; · exact ⟨_, Or.inl rfl⟩
  split
  · rename_i hh; exact absurd hh hna
  · exact ⟨_, Or.inl rfl⟩
  · rename_i tr htr
    simp only
    rcases h1 with h1 | h1
    · rw [h1] at htr; cases htr
    · rw [h1]; exact ⟨_, Or.inl rfl⟩

/-! ### S6: pad_repeat_get_scanline_bounds -/

open Pixman.Lemmas.ExtentPad in
/-- (S6) for a positive step (`FAST_PATH_X_UNIT_POSITIVE`, required by every caller) the scanline is
    split exactly — `left_pad + width' + right_pad = width`, no part negative — and EVERY pixel `k` of the
    middle part has its coordinate `vx + (left_pad + k)·unit_x` inside `[0, source_width·65536)`: the
    unchecked middle loop of the scaled fast paths only reads columns `0 … source_width-1`.
    Also: the pads are as short as possible (the pixel before the middle is negative). -/
theorem pad_bounds (srcW vx ux width : Int) (hux : 0 < ux) (hw : 0 ≤ width ∧ width ≤ 2147483647) :
    let r := padRepeatGetScanlineBounds srcW vx ux width
    0 ≤ r.1 ∧ 0 ≤ r.2.1 ∧ 0 ≤ r.2.2 ∧ r.2.1 + r.1 + r.2.2 = width ∧
    (∀ k : Int, 0 ≤ k → k < r.1 →
       0 ≤ vx + (r.2.1 + k) * ux ∧ vx + (r.2.1 + k) * ux < srcW * 65536) ∧
    (r.2.1 > 0 → vx + (r.2.1 - 1) * ux < 0) := by
  have hl := padLeft_spec vx ux width hux hw
  simp only at hl
  unfold padRepeatGetScanlineBounds
  simp only
  generalize padLeft vx ux width = lw at *
  obtain ⟨l, w1⟩ := lw
  simp only at hl ⊢
  obtain ⟨l0, w0, lsum, lfirst, llast, lzero⟩ := hl
  generalize hN : ux - 1 - vx + srcW * 65536 = N
  rcases (by omega : N < 0 ∨ 0 ≤ N) with hneg | hpos
  · -- numerator negative: the whole scanline is to the right of the source
    have ht := tdiv_neg_nonpos N ux hneg hux
    generalize Int.tdiv N ux = tq at *
    split
    · simp only; exact ⟨Int.le_refl _, l0, w0, by omega, fun k h1 h2 => by omega, llast⟩
    · split
      · simp only; exact ⟨w0, l0, Int.le_refl _, by omega, fun k h1 h2 => by omega, llast⟩
      · have e0 : tq - l = 0 := by omega
        rw [e0]
        have z : wrapS32 0 = 0 := by decide
        rw [z, Int.sub_zero, wrapS32_of_range w1 (by omega)]
        simp only
        exact ⟨Int.le_refl _, l0, w0, by omega, fun k h1 h2 => by omega, llast⟩
  · rw [tdiv_nonneg_eq N ux hpos]
    have hq := ediv_bounds N ux hux
    generalize N / ux = q at *
    have middle : ∀ k : Int, 0 ≤ k → k < w1 → l + k ≤ q - 1 →
        0 ≤ vx + (l + k) * ux ∧ vx + (l + k) * ux < srcW * 65536 := by
      intro k k0 k1 k2
      have h1 : (l + k) * ux ≤ (q - 1) * ux := Int.mul_le_mul_of_nonneg_right k2 (by omega)
      have h2 : 0 ≤ k * ux := Int.mul_nonneg k0 (by omega)
      have h3 := lfirst (by omega)
      simp only [Int.sub_mul, Int.one_mul, Int.add_mul] at h1 ⊢
      generalize l * ux = lu at *
      generalize k * ux = ku at *
      generalize q * ux = qu at *
      omega
    split
    · simp only; exact ⟨Int.le_refl _, l0, w0, by omega, fun k h1 h2 => by omega, llast⟩
    · split
      · rename_i hge _
        simp only
        exact ⟨w0, l0, Int.le_refl _, by omega, fun k h1 h2 => middle k h1 h2 (by omega), llast⟩
      · rename_i h1 h2
        rw [wrapS32_of_range (q - l) (by omega), wrapS32_of_range (w1 - (q - l)) (by omega)]
        simp only
        exact ⟨by omega, l0, by omega, by omega, fun k k0 k1 => middle k k0 (by omega) (by omega), llast⟩

example : padRepeatGetScanlineBounds 10 (-65536) 65536 20 = (10, 1, 9) := by decide
example : padRepeatGetScanlineBounds 10 655359 1 20 = (1, 0, 19) := by decide

/-! ### S7: allocation size arithmetic -/

section Alloc
open Pixman.Model.Alloc Pixman.Lemmas.ExtentAlloc

/-- (S7) `pixman_malloc_ab (a, b)`, `b > 0`: memory is requested only for the exact, unwrapped product,
    which is then below `INT32_MAX`; whenever the product reaches `INT32_MAX` the result is NULL. -/
theorem mallocAb_sound (a b : Int) (ha : 0 ≤ a ∧ a < 4294967296) (hb : 0 < b ∧ b < 4294967296) :
    (∀ n, mallocAb a b = .alloc n → n = a * b ∧ a * b < INT32_MAX) ∧
    (INT32_MAX ≤ a * b → mallocAb a b = .null) := by
  unfold mallocAb INT32_MAX
  have hb0 : ¬ b = 0 := by omega
  simp only [hb0, if_false]
  have hp : 0 ≤ a * b := Int.mul_nonneg ha.1 (by omega)
  constructor
  · intro n hn
    split at hn
    · cases hn
    · rename_i hlt
      have := lt_div_mul a b 2147483647 hb.1 (by omega)
      injection hn with hn
      rw [wrapU32_of_range (a * b) (by omega)] at hn
      exact ⟨hn.symm, by omega⟩
  · intro hbig
    split
    · rfl
    · rename_i hlt
      have := lt_div_mul a b 2147483647 hb.1 (by omega)
      omega

/-- (S7) `pixman_malloc_abc (a, b, c)`, `b, c > 0` -/
theorem mallocAbc_sound (a b c : Int) (ha : 0 ≤ a ∧ a < 4294967296) (hb : 0 < b ∧ b < 4294967296)
    (hc : 0 < c ∧ c < 4294967296) :
    (∀ n, mallocAbc a b c = .alloc n → n = a * b * c ∧ a * b * c < INT32_MAX) ∧
    (INT32_MAX ≤ a * b * c → mallocAbc a b c = .null) := by
  unfold mallocAbc INT32_MAX
  have hb0 : ¬ b = 0 := by omega
  have hc0 : ¬ c = 0 := by omega
  simp only [hb0, hc0, if_false]
  have hp : 0 ≤ a * b := Int.mul_nonneg ha.1 (by omega)
  have hpc : 0 ≤ a * b * c := Int.mul_nonneg hp (by omega)
  have hmono : a * b ≤ a * b * c := by
    have := Int.mul_le_mul_of_nonneg_left (by omega : 1 ≤ c) hp
    rw [Int.mul_one] at this; exact this
  constructor
  · intro n hn
    split at hn
    · cases hn
    · have h1 := lt_div_mul a b 2147483647 hb.1 (by omega)
      rw [wrapU32_of_range (a * b) (by omega)] at hn
      split at hn
      · cases hn
      · have h2 := lt_div_mul (a * b) c 2147483647 hc.1 (by omega)
        injection hn with hn
        rw [wrapU32_of_range (a * b * c) (by omega)] at hn
        exact ⟨hn.symm, by omega⟩
  · intro hbig
    split
    · rfl
    · have h1 := lt_div_mul a b 2147483647 hb.1 (by omega)
      rw [wrapU32_of_range (a * b) (by omega)]
      split
      · rfl
      · have h2 := lt_div_mul (a * b) c 2147483647 hc.1 (by omega)
        omega

/-- (S7) `pixman_malloc_ab_plus_c (a, b, c)` for `c ≤ INT32_MAX` (its one caller passes 45): memory is
    requested only for the exact sum `a·b + c ≤ INT32_MAX`; NULL whenever it is larger (or `b = 0`). -/
theorem mallocAbPlusC_sound (a b c : Int) (ha : 0 ≤ a ∧ a < 4294967296) (hb : 0 ≤ b ∧ b < 4294967296)
    (hc : 0 ≤ c ∧ c ≤ 2147483647) :
    (∀ n, mallocAbPlusC a b c = .alloc n → n = a * b + c ∧ a * b + c ≤ INT32_MAX ∧ 0 < b) ∧
    (INT32_MAX < a * b + c → mallocAbPlusC a b c = .null) := by
  unfold mallocAbPlusC INT32_MAX
  have hp : 0 ≤ a * b := Int.mul_nonneg ha.1 hb.1
  have hw : wrapU32 (2147483647 - c) = 2147483647 - c := wrapU32_of_range _ (by omega)
  constructor
  · intro n hn
    split at hn
    · cases hn
    · rename_i hb0
      split at hn
      · cases hn
      · have h1 := lt_div_mul a b 2147483647 (by omega) (by omega)
        rw [wrapU32_of_range (a * b) (by omega), hw] at hn
        split at hn
        · cases hn
        · injection hn with hn
          rw [wrapU32_of_range (a * b + c) (by omega)] at hn
          exact ⟨hn.symm, by omega, by omega⟩
  · intro hbig
    split
    · rfl
    · split
      · rfl
      · have h1 := lt_div_mul a b 2147483647 (by omega) (by omega)
        rw [wrapU32_of_range (a * b) (by omega), hw]
        split
        · rfl
        · omega

/-- the quirk outside the callers' domain: for `c > INT32_MAX` the unsigned test `a*b > INT32_MAX - c`
    wraps, and 256 MiB are requested for an exact size of 4.25 GiB -/
example : mallocAbPlusC 1879048192 1 2684354560 = .alloc 268435456 := by decide
example : mallocAb 715827881 3 = .alloc 2147483643 ∧ mallocAb 715827882 3 = .null ∧ mallocAb 5 0 = .crash := by decide

/-- (S7) `create_bits` on the platform under test (`size_t` = 64 bit), `bpp > 0`: storage is requested
    only for `width > 0`, `height ≥ 0`, with `stride = 4·⌈width·bpp / 32⌉` bytes — so `stride·8 ≥ width·bpp`,
    a whole number of `uint32_t` — and `buf_size = height·stride` EXACTLY: no product or sum wrapped
    (`width·bpp + 31 ≤ INT32_MAX`, `buf_size ≤ SIZE_MAX`). -/
theorem createBits_sound (bpp width height stride buf : Int)
    (hbpp : 0 < bpp ∧ bpp ≤ 2147483647) (hwd : -2147483648 ≤ width ∧ width ≤ 2147483647)
    (hht : -2147483648 ≤ height ∧ height ≤ 2147483647)
    (h : createBits 18446744073709551615 bpp width height = .ok stride buf) :
    0 < width ∧ 0 ≤ height ∧ width * bpp + 31 ≤ 2147483647 ∧
    stride = 4 * ((width * bpp + 31) / 32) ∧ width * bpp ≤ stride * 8 ∧ stride % 4 = 0 ∧
    buf = height * stride ∧ buf ≤ 18446744073709551615 := by
  unfold createBits multiplyOverflowsInt additionOverflowsInt multiplyOverflowsSize INT32_MAX at h
  rw [wrapU32_of_range bpp (by omega)] at h
  have hb0 : ¬ bpp = 0 := by omega
  simp only [hb0, if_false] at h
  split at h
  · cases h
  · cases h
  rename_i hmo
  injection hmo with hmo
  have hlt : wrapU32 width < 2147483647 / bpp := by
    have := of_decide_eq_false hmo; omega
  have hq : 2147483647 / bpp ≤ 2147483647 := by
    have := (Pixman.Lemmas.ExtentPad.ediv_bounds 2147483647 bpp hbpp.1).1
    have hq0 : 0 ≤ 2147483647 / bpp := Int.ediv_nonneg (by omega) (by omega)
    have : (2147483647 / bpp) * 1 ≤ (2147483647 / bpp) * bpp := Int.mul_le_mul_of_nonneg_left (by omega) hq0
    omega
  have hw0 : 0 ≤ width := by
    apply Classical.byContradiction; intro hneg
    have : wrapU32 width = width + 4294967296 := by unfold wrapU32; omega
    omega
  rw [wrapU32_of_range width (by omega)] at hlt
  have hprod := lt_div_mul width bpp 2147483647 hbpp.1 hlt
  have hp0 : 0 ≤ width * bpp := Int.mul_nonneg hw0 (by omega)
  generalize hP : width * bpp = P at *
  rw [wrapI32_of_range P (by omega), wrapU32_of_range P (by omega)] at h
  have hw31 : wrapU32 (2147483647 - 31) = 2147483616 := by decide
  rw [hw31] at h
  split at h
  · cases h
  rename_i hadd
  have hP31 : P ≤ 2147483616 := by
    have := of_decide_eq_false (by simpa using hadd : decide (P > 2147483616) = false); omega
  rw [wrapI32_of_range (P + 31) (by omega)] at h
  have hs1 : 0 ≤ (P + 31) / 32 ∧ (P + 31) / 32 ≤ 67108863 := by omega
  generalize hS : (P + 31) / 32 = S at *
  have e1 : wrapSize 18446744073709551615 S = S := by unfold wrapSize; omega
  rw [e1] at h
  have e2 : wrapSize 18446744073709551615 (S * 4) = S * 4 := by unfold wrapSize; omega
  rw [e2, wrapI32_of_range (S * 4) (by omega), e2] at h
  split at h
  · cases h
  · cases h
  rename_i hms
  split at hms
  · cases hms
  rename_i hs0
  injection hms with hms
  have hlt2 : wrapSize 18446744073709551615 height < 18446744073709551615 / (S * 4) := by
    have := of_decide_eq_false hms; omega
  have hSpos : 0 < S * 4 := by omega
  have hprod2 := lt_div_mul (wrapSize 18446744073709551615 height) (S * 4) 18446744073709551615 hSpos hlt2
  have hwh0 : 0 ≤ wrapSize 18446744073709551615 height := by unfold wrapSize; omega
  have hh0 : 0 ≤ height := by
    apply Classical.byContradiction; intro hneg
    have e : wrapSize 18446744073709551615 height = height + 18446744073709551616 := by unfold wrapSize; omega
    rw [e] at hprod2
    have : (height + 18446744073709551616) * 4 ≤ (height + 18446744073709551616) * (S * 4) :=
      Int.mul_le_mul_of_nonneg_left (by omega) (by omega)
    omega
  have e3 : wrapSize 18446744073709551615 height = height := by unfold wrapSize; omega
  rw [e3] at hprod2 h
  have hhs0 : 0 ≤ height * (S * 4) := Int.mul_nonneg hh0 (by omega)
  have e4 : wrapSize 18446744073709551615 (height * (S * 4)) = height * (S * 4) := by unfold wrapSize; omega
  rw [e4] at h
  injection h with h1 h2
  have hwpos : 0 < width := by
    apply Classical.byContradiction; intro hz
    have : width = 0 := by omega
    rw [this, Int.zero_mul] at hP
    omega
  subst h1; subst h2
  exact ⟨hwpos, hh0, by omega, by omega, by omega, by omega, rfl, by omega⟩

example : createBits 18446744073709551615 32 10 10 = .ok 40 400 ∧ createBits 18446744073709551615 1 100 3 = .ok 16 48 ∧
    createBits 18446744073709551615 32 536870912 1 = .null ∧ createBits 18446744073709551615 32 (-1) 10 = .null ∧
    createBits 18446744073709551615 8 16 (-1) = .null ∧ createBits 18446744073709551615 0 16 2 = .crash := by decide

end Alloc

/-! ### S10: the NORMAL-repeat split of the scaled-bilinear main loop never reads past the row -/

section BilinearSplit
open Pixman.Lemmas.ExtentPad

/-- the regenerated `num_pixels` expressions of pixman-inlines.h are the model's (a dropped
    `- pixman_fixed_e` breaks these) -/
theorem wrapNumPixels_bridge (swf vx ux : Int) :
    Pixman.Gen.BilinearSplit.wrapNumPixels swf vx ux = wrapNumPixels swf vx ux := by
  unfold Pixman.Gen.BilinearSplit.wrapNumPixels wrapNumPixels fixedE
  congr 2
theorem plainNumPixels_bridge (swf vx ux : Int) :
    Pixman.Gen.BilinearSplit.plainNumPixels swf vx ux = plainNumPixels swf vx ux := by
  unfold Pixman.Gen.BilinearSplit.plainNumPixels plainNumPixels fixedE fixed1
  congr 2

/-- what a call of the scanline function may touch: a plain segment reads the pair `[x], [x+1]` of the
    row for every pixel, so it needs `0 ≤ x` and `x + 1 ≤ src_width - 1`; a wrap segment reads the
    two-pixel buffer, so it needs pair index 0 -/
def SegSafe (srcW ux : Int) : Seg → Prop
  | .plain vx n => 0 ≤ n ∧ ∀ k : Int, 0 ≤ k → k < n →
      0 ≤ fixedToInt (vx + k * ux) ∧ fixedToInt (vx + k * ux) + 1 ≤ srcW - 1
  | .wrap f n => 0 ≤ n ∧ ∀ k : Int, 0 ≤ k → k < n → fixedToInt (f + k * ux) = 0

def segNum : Seg → Int
  | .plain _ n => n
  | .wrap _ n => n

/-- (S10) the "normal scanline composite" segment: at least one pixel, never more than remain, and for
    EVERY pixel of it the pair `[x], [x+1]` lies inside the row: `x + 1 ≤ src_width - 1` -/
theorem plain_segment_in_row (srcW ux vx remain : Int) (hux : 0 < ux)
    (hv : 0 ≤ vx ∧ vx < srcW * 65536) (hne : fixedToInt vx ≠ srcW - 1) (hr : 0 < remain) :
    1 ≤ clampNum (plainNumPixels (srcW * 65536) vx ux) remain ∧
    clampNum (plainNumPixels (srcW * 65536) vx ux) remain ≤ remain ∧
    ∀ k : Int, 0 ≤ k → k < clampNum (plainNumPixels (srcW * 65536) vx ux) remain →
      0 ≤ fixedToInt (vx + k * ux) ∧ fixedToInt (vx + k * ux) + 1 ≤ srcW - 1 := by
  unfold fixedToInt at hne
  have hN : 0 ≤ srcW * 65536 - fixed1 - vx - fixedE := by unfold fixed1 fixedE; omega
  unfold plainNumPixels clampNum
  rw [tdiv_nonneg_eq _ _ hN]
  have hq := ediv_bounds (srcW * 65536 - fixed1 - vx - fixedE) ux hux
  have hq0 : 0 ≤ (srcW * 65536 - fixed1 - vx - fixedE) / ux := Int.ediv_nonneg hN (by omega)
  generalize (srcW * 65536 - fixed1 - vx - fixedE) / ux = q at *
  unfold fixed1 fixedE at hq
  refine ⟨by split <;> omega, by split <;> omega, ?_⟩
  intro k k0 k1
  have hk : k ≤ q := by split at k1 <;> omega
  have h1 : k * ux ≤ q * ux := Int.mul_le_mul_of_nonneg_right hk (by omega)
  have h2 : 0 ≤ k * ux := Int.mul_nonneg k0 (by omega)
  unfold fixedToInt
  generalize k * ux = ku at *
  generalize q * ux = qu at *
  omega

/-- the "wrap around part": every pixel of it has pair index 0 in the two-pixel buffer -/
theorem wrap_segment_in_buffer (srcW ux vx remain : Int) (hux : 0 < ux)
    (hv : 0 ≤ vx ∧ vx < srcW * 65536) (he : fixedToInt vx = srcW - 1) (hr : 0 < remain) :
    1 ≤ clampNum (wrapNumPixels (srcW * 65536) vx ux) remain ∧
    clampNum (wrapNumPixels (srcW * 65536) vx ux) remain ≤ remain ∧
    ∀ k : Int, 0 ≤ k → k < clampNum (wrapNumPixels (srcW * 65536) vx ux) remain →
      fixedToInt (fixedFrac vx + k * ux) = 0 := by
  unfold fixedToInt at he
  have hN : 0 ≤ srcW * 65536 - vx - fixedE := by unfold fixedE; omega
  unfold wrapNumPixels clampNum
  rw [tdiv_nonneg_eq _ _ hN]
  have hq := ediv_bounds (srcW * 65536 - vx - fixedE) ux hux
  have hq0 : 0 ≤ (srcW * 65536 - vx - fixedE) / ux := Int.ediv_nonneg hN (by omega)
  generalize (srcW * 65536 - vx - fixedE) / ux = q at *
  unfold fixedE at hq
  refine ⟨by split <;> omega, by split <;> omega, ?_⟩
  intro k k0 k1
  have hk : k ≤ q := by split at k1 <;> omega
  have h1 : k * ux ≤ q * ux := Int.mul_le_mul_of_nonneg_right hk (by omega)
  have h2 : 0 ≤ k * ux := Int.mul_nonneg k0 (by omega)
  unfold fixedToInt fixedFrac
  generalize k * ux = ku at *
  generalize q * ux = qu at *
  omega

theorem normVx_range (vx srcW : Int) (hw : 0 < srcW) : 0 ≤ normVx vx (srcW * 65536) ∧ normVx vx (srcW * 65536) < srcW * 65536 := by
  obtain ⟨r, hr, h0, h1⟩ := Pixman.Props.C04Core.repeat_in_range .normal vx (srcW * 65536) (by omega) (by decide)
  unfold normVx; rw [hr]; exact ⟨h0, h1⟩

/-- one iteration of the loop: every call it makes is safe, it consumes at least one pixel and never
    more than remain -/
theorem normalStep_safe (srcW ux vx remain : Int) (hw : 0 < srcW) (hux : 0 < ux) (hr : 0 < remain) :
    (∀ sg ∈ (normalStep srcW ux vx remain).1, SegSafe srcW ux sg) ∧
    0 ≤ (normalStep srcW ux vx remain).2.2 ∧ (normalStep srcW ux vx remain).2.2 < remain ∧
    ((normalStep srcW ux vx remain).1.map segNum).sum + (normalStep srcW ux vx remain).2.2 = remain := by
  have hv := normVx_range vx srcW hw
  unfold normalStep
  simp only
  generalize normVx vx (srcW * 65536) = v at *
  by_cases he : fixedToInt v = srcW - 1
  · obtain ⟨w1, w2, w3⟩ := wrap_segment_in_buffer srcW ux v remain hux hv he hr
    simp only [he, if_true]
    generalize clampNum (wrapNumPixels (srcW * 65536) v ux) remain = n at *
    have hv2 := normVx_range (v + n * ux) srcW hw
    generalize normVx (v + n * ux) (srcW * 65536) = v2 at *
    by_cases hc : fixedToInt v2 ≠ srcW - 1 ∧ remain - n > 0
    · obtain ⟨p1, p2, p3⟩ := plain_segment_in_row srcW ux v2 (remain - n) hux hv2 hc.1 hc.2
      rw [if_pos hc]
      generalize clampNum (plainNumPixels (srcW * 65536) v2 ux) (remain - n) = m at *
      dsimp only
      refine ⟨?_, by omega, by omega, ?_⟩
      · intro sg hsg
        simp only [List.cons_append, List.nil_append, List.mem_cons, List.mem_nil_iff, or_false] at hsg
        rcases hsg with rfl | rfl
        · exact ⟨by omega, w3⟩
        · exact ⟨by omega, p3⟩
      · simp only [List.cons_append, List.nil_append, List.map_cons, List.map_nil, List.sum_cons, List.sum_nil, segNum]; omega
    · rw [if_neg hc]
      dsimp only
      refine ⟨?_, by omega, by omega, ?_⟩
      · intro sg hsg
        simp only [List.mem_cons, List.mem_nil_iff, or_false] at hsg
        subst hsg
        exact ⟨by omega, w3⟩
      · simp only [List.map_cons, List.map_nil, List.sum_cons, List.sum_nil, segNum]; omega
  · simp only [he, if_false]
    have hc : fixedToInt v ≠ srcW - 1 ∧ remain > 0 := ⟨he, hr⟩
    obtain ⟨p1, p2, p3⟩ := plain_segment_in_row srcW ux v remain hux hv he hr
    rw [if_pos hc]
    generalize clampNum (plainNumPixels (srcW * 65536) v ux) remain = m at *
    dsimp only
    refine ⟨?_, by omega, by omega, ?_⟩
    · intro sg hsg
      simp only [List.nil_append, List.mem_cons, List.mem_nil_iff, or_false] at hsg
      subst hsg
      exact ⟨by omega, p3⟩
    · simp only [List.nil_append, List.map_cons, List.map_nil, List.sum_cons, List.sum_nil, segNum]; omega

/-- (S10) the whole scanline, any start `vx`, any width: EVERY call of the scanline function made by the
    NORMAL-repeat loop reads only inside what it is given — plain segments satisfy `x + 1 ≤ src_width - 1`
    for every pixel, wrap segments stay at pair index 0 of the two-pixel buffer — and with enough fuel
    (`width` iterations) the calls cover exactly `width` pixels. -/
theorem normalLoop_safe (srcW ux : Int) (hw : 0 < srcW) (hux : 0 < ux) (fuel : Nat) (vx remain : Int) :
    (∀ sg ∈ normalLoop srcW ux fuel vx remain, SegSafe srcW ux sg) ∧
    (remain ≤ fuel → 0 ≤ remain → ((normalLoop srcW ux fuel vx remain).map segNum).sum = remain) := by
  induction fuel generalizing vx remain with
  | zero =>
    refine ⟨fun sg h => by simp [normalLoop] at h, fun h1 h2 => ?_⟩
    have : remain = 0 := by omega
    simp [normalLoop, this]
  | succ f ih =>
    unfold normalLoop
    by_cases hr : remain > 0
    · simp only [hr, if_true]
      obtain ⟨s1, s2, s3, s4⟩ := normalStep_safe srcW ux vx remain hw hux hr
      obtain ⟨i1, i2⟩ := ih (normalStep srcW ux vx remain).2.1 (normalStep srcW ux vx remain).2.2
      refine ⟨?_, fun h1 h2 => ?_⟩
      · intro sg hsg
        rcases List.mem_append.1 hsg with h | h
        · exact s1 sg h
        · exact i1 sg h
      · rw [List.map_append, List.sum_append, i2 (by omega) s2]
        exact s4
    · rw [if_neg hr]
      refine ⟨fun sg h => by simp at h, fun h1 h2 => ?_⟩
      have : remain = 0 := by omega
      simp [this]

/-- a sample exactly on the last column (fraction 0) and the next one (2x enlargement) go through the wrap
    buffer; a plain segment starting at column 0 holds 126 pixels -/
example : wrapNumPixels (64 * 65536) (63 * 65536) 32768 = 2 ∧ plainNumPixels (64 * 65536) 0 32768 = 126 ∧
    -- half a pixel before the last column: exactly one more pixel belongs to the plain segment (without the
    -- `- pixman_fixed_e` it would be two, the second one sampling the pair [63], [64])
    plainNumPixels (64 * 65536) (62 * 65536 + 32768) 32768 = 1 := by decide

end BilinearSplit

end Pixman.Props.C04

import Pixman.Lemmas.FormatCodec
import Pixman.Lemmas.FormatMem
import Pixman.Lemmas.FormatWide
import Pixman.Lemmas.FormatYuv
/-! C10 — pixel formats: exact codec, bit-replicated widening, accessor equivalence.

Statements are about the model `Pixman.Model.Format` (tied to pixman-access.c / pixman-utils.c by the
correspondence check) for every format of the regenerated table `Pixman.Gen.Formats.formats`; no bound on
pixel values, offsets or memory contents.  What is *not* proved is listed at the end of the file. -/
namespace Pixman.Props.C10
open Pixman.Model.Format Pixman.Spec.Format Pixman.Lemmas.FormatCodec Pixman.Lemmas.FormatMem Pixman.Lemmas.FormatWide
open Pixman.Gen.Formats (Rec formats)

/-! ## the regenerated table against the hand-written model -/

/-- the hand-written `PIXMAN_FORMAT_*` extraction agrees with the header's macros (as evaluated by the C
compiler) on every enumerator of `pixman_format_code_t` -/
theorem gen_fields : ∀ r ∈ formats, fmtBpp r.code = r.bpp ∧ fmtType r.code = r.type ∧ fmtA r.code = r.a ∧
    fmtR r.code = r.r ∧ fmtG r.code = r.g ∧ fmtB r.code = r.b ∧ fmtVis r.code = r.vis := by decide

/-- the two codes `convert_pixel_*_a8r8g8b8` names explicitly -/
theorem gen_constants :
    (formats.find? (fun r => r.name == "a8r8g8b8")).map (·.code) = some A8R8G8B8 ∧
    (formats.find? (fun r => r.name == "x1r5g5b5")).map (·.code) = some X1R5G5B5 := by decide

/-- formats whose `accessors[]` entry is `FORMAT_INFO` (instantiated by `MAKE_ACCESSORS`) and whose pixels are
packed channels (not palette indices) -/
def packed (r : Rec) : Bool := r.acc == 1 && r.type != 4 && r.type != 5

/-- palette-indexed formats (`PIXMAN_TYPE_COLOR`, `PIXMAN_TYPE_GRAY`) -/
def indexed (r : Rec) : Bool := r.acc == 1 && (r.type == 4 || r.type == 5)

/-- the natural channel layout of a table entry -/
def layout (r : Rec) : Chans := naturalLayout r.type r.bpp r.a r.r r.g r.b

/-- for every packed format `get_shifts` (BGRA/RGBA quirk included) yields the natural layout — up to the shift
it assigns to an absent (zero-width) channel, which nothing depends on (b8g8r8x8, r8g8b8x8) —, the channels
are at most 8 bits wide, pairwise disjoint, and inside the pixel -/
theorem gen_layouts : ∀ r ∈ formats, packed r = true →
    sameLayout (chansOf r.code) (layout r) = true ∧ (layout r).ok = true ∧ (chansOf r.code).ok = true ∧
      (layout r).mask < 2 ^ r.bpp := by decide

theorem fits_of_ok (c : Chans) (h : c.ok = true) : fits c := by
  simp only [Chans.ok, disjoint, Bool.and_eq_true, decide_eq_true_eq] at h
  exact ⟨h.1.1.1.1.1.1.1, h.1.1.1.1.1.1.2⟩

theorem packed_type (r : Rec) (hr : r ∈ formats) (hp : packed r = true) :
    fmtType r.code ≠ Pixman.Gen.Formats.TYPE_GRAY ∧ fmtType r.code ≠ Pixman.Gen.Formats.TYPE_COLOR := by
  have := (gen_fields r hr).2.1
  rw [this]
  simp only [packed, Bool.and_eq_true, bne_iff_ne, ne_eq] at hp
  exact ⟨hp.2, hp.1.2⟩

/-! ## packed formats: fetch widens by bit replication, store keeps the most significant bits -/

/-- Fetching a pixel of any packed format gives the a8r8g8b8 word whose bytes are the channel fields widened
by bit replication; an absent alpha channel reads 0xff, an absent colour channel 0. -/
theorem fetch_is_bit_replication (r : Rec) (hr : r ∈ formats) (hp : packed r = true) (pal : Palette) (p : Nat) :
    convertPixelToA8r8g8b8 pal r.code p = fetchSpec (layout r) p := by
  obtain ⟨hg, hc⟩ := packed_type r hr hp
  obtain ⟨e, _, ok, _⟩ := gen_layouts r hr hp
  unfold convertPixelToA8r8g8b8
  rw [if_neg (by intro h; cases h with | inl h => exact hg h | inr h => exact hc h)]
  rw [convertPixel_eq, chansOf_argb, fetchC_eq_spec _ (fits_of_ok _ ok) p]
  exact (spec_congr _ _ e).1 p

example : convertPixelToA8r8g8b8 ⟨fun _ => 0, fun _ => 0⟩ 268567909 0x1f = 0xff0000ff := by decide  -- r5g6b5

/-- Storing an a8r8g8b8 value keeps, per channel, the most significant bits of the byte. -/
theorem store_keeps_msbs (r : Rec) (hr : r ∈ formats) (hp : packed r = true) (pal : Palette) (v : Nat) :
    convertPixelFromA8r8g8b8 pal r.code v = storeSpec (layout r) v := by
  obtain ⟨hg, hc⟩ := packed_type r hr hp
  obtain ⟨e, _, ok, _⟩ := gen_layouts r hr hp
  unfold convertPixelFromA8r8g8b8
  rw [if_neg hg, if_neg hc, convertPixel_eq, chansOf_argb, storeC_eq_spec _ (fits_of_ok _ ok) v]
  exact (spec_congr _ _ e).2.1 v

example : convertPixelFromA8r8g8b8 ⟨fun _ => 0, fun _ => 0⟩ 268567909 0xff80ff07 = 0x87e0 := by decide  -- r5g6b5

/-- the bytes of a fetched pixel, channel by channel -/
theorem fetch_channels (r : Rec) (hr : r ∈ formats) (hp : packed r = true) (pal : Palette) (p : Nat) :
    let c := layout r
    let v := convertPixelToA8r8g8b8 pal r.code p
    field v 24 8 = (if c.wa = 0 then 255 else widen (field p c.sa c.wa) c.wa 8) ∧
    field v 16 8 = (if c.wr = 0 then 0 else widen (field p c.sr c.wr) c.wr 8) ∧
    field v 8 8 = (if c.wg = 0 then 0 else widen (field p c.sg c.wg) c.wg 8) ∧
    field v 0 8 = (if c.wb = 0 then 0 else widen (field p c.sb c.wb) c.wb 8) := by
  intro c v
  obtain ⟨_, ok, _, _⟩ := gen_layouts r hr hp
  obtain ⟨⟨h1, h2, h3, h4⟩, _⟩ := fits_of_ok _ ok
  have hv : v = fetchSpec c p := fetch_is_bit_replication r hr hp pal p
  rw [hv]
  exact pack_fields _ _ _ _ (chanFetch_lt c.wa c.sa 255 p h1 (by decide)) (chanFetch_lt c.wr c.sr 0 p h2 (by decide))
    (chanFetch_lt c.wg c.sg 0 p h3 (by decide)) (chanFetch_lt c.wb c.sb 0 p h4 (by decide))

/-- absent alpha reads as 1 -/
theorem absent_alpha_reads_opaque (r : Rec) (hr : r ∈ formats) (hp : packed r = true) (h0 : r.a = 0)
    (pal : Palette) (p : Nat) : field (convertPixelToA8r8g8b8 pal r.code p) 24 8 = 255 := by
  have h := (fetch_channels r hr hp pal p).1
  have e : (layout r).wa = 0 := by
    unfold layout naturalLayout; rw [h0]; repeat' split
    all_goals rfl
  rw [h, if_pos e]

example : ∃ r ∈ formats, packed r = true ∧ r.a = 0 ∧ r.name = "x4r4g4b4" := by decide

/-- absent colour reads as 0 (alpha-only formats) -/
theorem absent_colour_reads_zero (r : Rec) (hr : r ∈ formats) (hp : packed r = true) (h0 : r.r = 0 ∧ r.g = 0 ∧ r.b = 0)
    (pal : Palette) (p : Nat) : (convertPixelToA8r8g8b8 pal r.code p) % 2 ^ 24 = 0 := by
  obtain ⟨_, h2, h3, h4⟩ := fetch_channels r hr hp pal p
  have er : (layout r).wr = 0 := by
    unfold layout naturalLayout; rw [h0.1]; repeat' split
    all_goals rfl
  have eg : (layout r).wg = 0 := by
    unfold layout naturalLayout; rw [h0.2.1]; repeat' split
    all_goals rfl
  have eb : (layout r).wb = 0 := by
    unfold layout naturalLayout; rw [h0.2.2]; repeat' split
    all_goals rfl
  rw [if_pos er] at h2
  rw [if_pos eg] at h3
  rw [if_pos eb] at h4
  generalize convertPixelToA8r8g8b8 pal r.code p = v at *
  rw [field_eq_mod, Nat.shiftRight_eq_div_pow] at h2 h3 h4
  simp only [Nat.reducePow, Nat.pow_zero, Nat.div_one] at h2 h3 h4 ⊢
  omega

example : ∃ r ∈ formats, packed r = true ∧ r.r = 0 ∧ r.g = 0 ∧ r.b = 0 ∧ r.name = "a4" := by decide

/-- **store ∘ fetch = identity on the format's defined bits** (all packed formats, all pixel values) -/
theorem store_fetch_id (r : Rec) (hr : r ∈ formats) (hp : packed r = true) (pal : Palette) (p : Nat) :
    convertPixelFromA8r8g8b8 pal r.code (convertPixelToA8r8g8b8 pal r.code p) = p &&& (layout r).mask := by
  obtain ⟨_, ok, _, _⟩ := gen_layouts r hr hp
  rw [fetch_is_bit_replication r hr hp, store_keeps_msbs r hr hp]
  exact spec_roundtrip _ (fits_of_ok _ ok) p

example : convertPixelFromA8r8g8b8 ⟨fun _ => 0, fun _ => 0⟩ 268567893
    (convertPixelToA8r8g8b8 ⟨fun _ => 0, fun _ => 0⟩ 268567893 0xabcd) = 0x2bcd := by decide  -- x1r5g5b5: bit 15 undefined

/-- a format with alpha in every bit position class: all `bpp` bits are defined when the widths add up to bpp -/
theorem store_fetch_id_full (r : Rec) (hr : r ∈ formats) (hp : packed r = true) (hfull : (layout r).mask = 2 ^ r.bpp - 1)
    (pal : Palette) (p : Nat) (hpix : p < 2 ^ r.bpp) :
    convertPixelFromA8r8g8b8 pal r.code (convertPixelToA8r8g8b8 pal r.code p) = p := by
  rw [store_fetch_id r hr hp, hfull, Nat.and_two_pow_sub_one_eq_mod, Nat.mod_eq_of_lt hpix]

example : ∃ r ∈ formats, packed r = true ∧ (layout r).mask = 2 ^ r.bpp - 1 ∧ r.name = "a1r5g5b5" := by decide

/-- a fetch depends on the defined bits only -/
theorem fetch_ignores_undefined_bits (r : Rec) (hr : r ∈ formats) (hp : packed r = true) (pal : Palette) (p : Nat) :
    convertPixelToA8r8g8b8 pal r.code (p &&& (layout r).mask) = convertPixelToA8r8g8b8 pal r.code p := by
  rw [fetch_is_bit_replication r hr hp, fetch_is_bit_replication r hr hp]
  exact fetchSpec_masked _ p

/-- **fetch ∘ store = identity on narrowed values**: a value that came out of a fetch survives store + fetch -/
theorem fetch_store_fetch (r : Rec) (hr : r ∈ formats) (hp : packed r = true) (pal : Palette) (p : Nat) :
    convertPixelToA8r8g8b8 pal r.code (convertPixelFromA8r8g8b8 pal r.code (convertPixelToA8r8g8b8 pal r.code p)) =
      convertPixelToA8r8g8b8 pal r.code p := by
  rw [store_fetch_id r hr hp, fetch_ignores_undefined_bits r hr hp]

/-- storing is idempotent through a fetch: re-storing what was read back changes nothing -/
theorem store_fetch_store (r : Rec) (hr : r ∈ formats) (hp : packed r = true) (pal : Palette) (v : Nat) :
    convertPixelFromA8r8g8b8 pal r.code (convertPixelToA8r8g8b8 pal r.code (convertPixelFromA8r8g8b8 pal r.code v)) =
      convertPixelFromA8r8g8b8 pal r.code v := by
  obtain ⟨_, ok, _, _⟩ := gen_layouts r hr hp
  rw [store_fetch_id r hr hp, store_keeps_msbs r hr hp]
  exact storeSpec_in_mask _ v (fits_of_ok _ ok)

/-- each channel field of a stored pixel is the top bits of the corresponding byte; nothing else is set; the
pixel fits in `bpp` bits -/
theorem stored_fields (r : Rec) (hr : r ∈ formats) (hp : packed r = true) (pal : Palette) (v : Nat) :
    let c := layout r
    let p := convertPixelFromA8r8g8b8 pal r.code v
    field p c.sa c.wa = narrow (field v 24 8) 8 c.wa ∧ field p c.sr c.wr = narrow (field v 16 8) 8 c.wr ∧
    field p c.sg c.wg = narrow (field v 8 8) 8 c.wg ∧ field p c.sb c.wb = narrow (field v 0 8) 8 c.wb ∧
    p &&& c.mask = p ∧ p < 2 ^ r.bpp := by
  intro c p
  obtain ⟨_, ok, _, hm⟩ := gen_layouts r hr hp
  have hp' : p = storeSpec c v := store_keeps_msbs r hr hp pal v
  obtain ⟨f1, f2, f3, f4⟩ := storeSpec_fields c (fits_of_ok _ ok) ok v
  have him := storeSpec_in_mask c v (fits_of_ok _ ok)
  rw [hp']
  refine ⟨f1, f2, f3, f4, him, ?_⟩
  rw [← him]
  exact Nat.lt_of_le_of_lt Nat.and_le_right hm

/-! ## channel level: what bit replication does -/

/-- `unorm_to_unorm` maps 0 to 0 (any widths) -/
theorem widen_zero (n m : Nat) : unormToUnorm 0 n m = 0 := u2u_zero n m

/-- `unorm_to_unorm` maps the maximum to the maximum -/
theorem widen_max (n m : Nat) (h1 : 1 ≤ n) (h2 : n ≤ m) (h3 : m ≤ 8) : unormToUnorm (2 ^ n - 1) n m = 2 ^ m - 1 := by
  have hpos := Nat.two_pow_pos n
  exact (widen_facts n m (2 ^ n - 1) h1 h2 h3 (by omega)).2.2.2.2 (by omega)

/-- `unorm_to_unorm` is the repeated-pattern formula -/
theorem widen_is_replication (n m c : Nat) (h1 : 1 ≤ n) (h2 : n ≤ m) (h3 : m ≤ 8) :
    unormToUnorm c n m = widen (c % 2 ^ n) n m := by
  rw [u2u_mod]
  exact (widen_facts n m (c % 2 ^ n) h1 h2 h3 (Nat.mod_lt _ (Nat.two_pow_pos n))).1

/-- strictly monotone on `n`-bit levels -/
theorem widen_strict_mono (n m : Nat) (h1 : 1 ≤ n) (h2 : n ≤ m) (h3 : m ≤ 8) (a b : Nat) (hab : a < b) (hb : b < 2 ^ n) :
    unormToUnorm a n m < unormToUnorm b n m := by
  induction b with
  | zero => omega
  | succ k ih =>
    have step := (widen_facts n m k h1 h2 h3 (by omega)).2.2.2.1 hb
    by_cases hk : a = k
    · rw [hk]; exact step
    · exact Nat.lt_trans (ih (by omega) (by omega)) step

theorem widen_mono (n m : Nat) (h1 : 1 ≤ n) (h2 : n ≤ m) (h3 : m ≤ 8) (a b : Nat) (hab : a ≤ b) (hb : b < 2 ^ n) :
    unormToUnorm a n m ≤ unormToUnorm b n m := by
  by_cases h : a = b
  · rw [h]; exact Nat.le_refl _
  · exact Nat.le_of_lt (widen_strict_mono n m h1 h2 h3 a b (by omega) hb)

example : unormToUnorm 5 3 8 = 0xb6 ∧ unormToUnorm 6 3 8 = 0xdb := by decide

/-- narrowing keeps the most significant bits -/
theorem narrow_keeps_msbs (v n m : Nat) (hn : n ≠ 0) (h : m ≤ n) : unormToUnorm v n m = (v % 2 ^ n) / 2 ^ (n - m) := by
  rw [u2u_narrow v n m hn h, Nat.shiftRight_eq_div_pow]

/-- narrow ∘ widen = id -/
theorem narrow_widen_id (n m c : Nat) (h1 : 1 ≤ n) (h2 : n ≤ m) (h3 : m ≤ 8) (hc : c < 2 ^ n) :
    unormToUnorm (unormToUnorm c n m) m n = c := (widen_facts n m c h1 h2 h3 hc).2.2.1

/-- the widened level has the original level as its most significant bits -/
theorem widen_keeps_level (n m c : Nat) (h1 : 1 ≤ n) (h2 : n ≤ m) (h3 : m ≤ 8) (hc : c < 2 ^ n) :
    unormToUnorm c n m / 2 ^ (m - n) = c := by
  obtain ⟨_, hlt, rt, _, _⟩ := widen_facts n m c h1 h2 h3 hc
  rw [narrow_keeps_msbs _ m n (by omega) h2, Nat.mod_eq_of_lt hlt] at rt
  exact rt

/-! ## indexed formats (palette as data) -/

theorem indexed_type (r : Rec) (hr : r ∈ formats) (hi : indexed r = true) :
    fmtType r.code = Pixman.Gen.Formats.TYPE_GRAY ∨ fmtType r.code = Pixman.Gen.Formats.TYPE_COLOR := by
  have := (gen_fields r hr).2.1
  rw [this]
  simp only [indexed, Bool.and_eq_true, Bool.or_eq_true, beq_iff_eq] at hi
  cases hi.2 with
  | inl h => exact Or.inr h
  | inr h => exact Or.inl h

/-- an indexed pixel reads as its palette entry -/
theorem indexed_fetch (r : Rec) (hr : r ∈ formats) (hi : indexed r = true) (pal : Palette) (p : Nat) :
    convertPixelToA8r8g8b8 pal r.code p = pal.rgba p := by
  unfold convertPixelToA8r8g8b8
  rw [if_pos (indexed_type r hr hi)]

/-- the 15-bit key under which `ent[]` is consulted: luminance for grey, x1r5g5b5 for colour -/
def paletteKey (f v : Nat) : Nat :=
  if fmtType f = Pixman.Gen.Formats.TYPE_GRAY then rgb24ToY15 v &&& 0x7fff
  else convertPixel A8R8G8B8 X1R5G5B5 v &&& 0x7fff

theorem indexed_store (r : Rec) (hr : r ∈ formats) (hi : indexed r = true) (pal : Palette) (v : Nat) :
    convertPixelFromA8r8g8b8 pal r.code v = pal.ent (paletteKey r.code v) := by
  unfold convertPixelFromA8r8g8b8 paletteKey
  cases indexed_type r hr hi with
  | inl h => rw [if_pos h, if_pos h]
  | inr h =>
    have hng : fmtType r.code ≠ Pixman.Gen.Formats.TYPE_GRAY := by rw [h]; decide
    rw [if_neg hng, if_pos h, if_neg hng]

/-- store ∘ fetch = id for an indexed format exactly when the palette's inverse table is consistent at that entry -/
theorem indexed_store_fetch_id (r : Rec) (hr : r ∈ formats) (hi : indexed r = true) (pal : Palette) (p : Nat)
    (hcons : pal.ent (paletteKey r.code (pal.rgba p)) = p) :
    convertPixelFromA8r8g8b8 pal r.code (convertPixelToA8r8g8b8 pal r.code p) = p := by
  rw [indexed_fetch r hr hi, indexed_store r hr hi, hcons]

example : ∃ r ∈ formats, indexed r = true ∧ r.name = "g4" := by decide


/-! ## memory: stores change only the addressed pixel; scanline and pixel readers agree -/

/-- every `MAKE_ACCESSORS` format has 1, 4, 8, 16, 24 or 32 bits per pixel -/
theorem gen_bpp : ∀ r ∈ formats, r.acc = 1 → Bpp (fmtBpp r.code) := by
  unfold Bpp; decide

/-- **A pixel store changes only the addressed pixel's bits.**  For every `MAKE_ACCESSORS` format, any memory,
any row address, any offset and value: (1) every *other* pixel offset of the row — the other nibble of the
byte, the other 31 bits of the 32-bit word included — reads the same raw value as before, and (2) every byte
outside the storage unit of the pixel (its own bytes; the byte for 4 bpp; the aligned 32-bit word for 1 bpp)
is unchanged. -/
theorem store_changes_only_addressed_pixel (r : Rec) (hr : r ∈ formats) (ha : r.acc = 1) (pal : Palette) (m : Mem)
    (hb : m.Bytes) (dest o v : Nat) :
    (∀ o', o' ≠ o → fetchRaw (convertAndStorePixel pal m dest o r.code v) dest o' (fmtBpp r.code) =
        fetchRaw m dest o' (fmtBpp r.code)) ∧
    (∀ a, (a < unitLo dest o (fmtBpp r.code) ∨ unitLo dest o (fmtBpp r.code) + unitLen (fmtBpp r.code) ≤ a) →
        convertAndStorePixel pal m dest o r.code v a = m a) := by
  have hbpp := gen_bpp r hr ha
  exact ⟨fun o' hne => fetchRaw_storeRaw_other m hb dest o o' _ _ hbpp hne,
         fun a hx => storeRaw_frame m dest o _ _ a hbpp hx⟩

example : ∃ r ∈ formats, r.acc = 1 ∧ r.name = "a1" ∧ unitLo 64 37 (fmtBpp r.code) = 68 ∧ unitLen (fmtBpp r.code) = 4 := by decide

/-- the addressed pixel afterwards holds the converted value (its low `bpp` bits) -/
theorem store_then_fetch_raw (r : Rec) (hr : r ∈ formats) (ha : r.acc = 1) (pal : Palette) (m : Mem) (hb : m.Bytes)
    (dest o v : Nat) :
    fetchRaw (convertAndStorePixel pal m dest o r.code v) dest o (fmtBpp r.code) =
      convertPixelFromA8r8g8b8 pal r.code v % 2 ^ fmtBpp r.code :=
  fetchRaw_storeRaw_same m hb dest o _ _ (gen_bpp r hr ha)

/-- reading a packed pixel back through the format's reader after storing `v`: the value `v` narrowed and
widened again, nothing else -/
theorem store_then_fetch_pixel (r : Rec) (hr : r ∈ formats) (hp : packed r = true) (pal : Palette) (m : Mem) (hb : m.Bytes)
    (dest o v : Nat) :
    fetchAndConvertPixel pal (convertAndStorePixel pal m dest o r.code v) dest o r.code =
      convertPixelToA8r8g8b8 pal r.code (convertPixelFromA8r8g8b8 pal r.code v) := by
  have ha : r.acc = 1 := by
    simp only [packed, Bool.and_eq_true, beq_iff_eq] at hp; exact hp.1.1
  unfold fetchAndConvertPixel
  rw [store_then_fetch_raw r hr ha pal m hb, (gen_fields r hr).1]
  obtain ⟨_, _, _, _, _, hlt⟩ := stored_fields r hr hp pal v
  rw [Nat.mod_eq_of_lt hlt]

/-- **scanline reader = map of the single-pixel reader** -/
theorem fetch_scanline_is_map_of_fetch_pixel (img : Image) (m : Mem) (x y w : Nat) :
    fetchScanline img m x y w = (List.range w).map (fun i => fetchPixel img m (x + i) y) := by
  unfold fetchScanline fetchPixel
  exact fetchScanlineLoop_eq_map img.pal m (img.row y) img.format x w

example : (fetchScanline ⟨268567909, 0, 2, ⟨fun _ => 0, fun _ => 0⟩⟩ (fun a => if a = 2 then 0x1f else 0) 0 0 2).length = 2 := by decide

/-- the scanline store is the pixel stores in order (this is how the driver evaluates it) -/
theorem storeScanline_eq_foldl (img : Image) (m : Mem) (x y : Nat) (vs : List Nat) :
    storeScanline img m x y vs =
      (vs.zipIdx x).foldl (fun m vi => convertAndStorePixel img.pal m (img.row y) vi.2 img.format vi.1) m :=
  storeScanlineLoop_eq_foldl img.pal (img.row y) img.format m x vs

/-- a scanline store of `n` values at `x`: pixels outside `[x, x+n)` keep their raw value, bytes outside the
storage units of the stored pixels are unchanged, and pixel `x+i` holds the `i`-th converted value -/
theorem store_scanline_frame (r : Rec) (hr : r ∈ formats) (ha : r.acc = 1) (img : Image) (hf : img.format = r.code)
    (m : Mem) (hb : m.Bytes) (x y : Nat) (vs : List Nat) :
    (∀ o', (o' < x ∨ x + vs.length ≤ o') →
        fetchRaw (storeScanline img m x y vs) (img.row y) o' (fmtBpp r.code) = fetchRaw m (img.row y) o' (fmtBpp r.code)) ∧
    (∀ a, (∀ i, i < vs.length → a < unitLo (img.row y) (x + i) (fmtBpp r.code) ∨
            unitLo (img.row y) (x + i) (fmtBpp r.code) + unitLen (fmtBpp r.code) ≤ a) →
        storeScanline img m x y vs a = m a) ∧
    (∀ i, i < vs.length → fetchRaw (storeScanline img m x y vs) (img.row y) (x + i) (fmtBpp r.code) =
        convertPixelFromA8r8g8b8 img.pal r.code (vs.getD i 0) % 2 ^ fmtBpp r.code) := by
  have hbpp := gen_bpp r hr ha
  unfold storeScanline
  rw [hf]
  exact ⟨fun o' ho => storeScanlineLoop_other img.pal (img.row y) r.code m hb x vs hbpp o' ho,
         fun a h => storeScanlineLoop_frame img.pal (img.row y) r.code m x vs hbpp a h,
         fun i hi => storeScanlineLoop_at img.pal (img.row y) r.code m hb x vs hbpp i hi⟩


/-! ## wide (float) paths — PARTIAL: exact rational arithmetic, not IEEE-754

All theorems of this section are about the model in which a C `float` is an exact rational
(`u * (1.f / m)` is `u / m`, `f * (1 << n)` is exact, which it also is in IEEE arithmetic).  What is missing for
the full statement: the two roundings of `unorm_to_float` (the reciprocal and the product).  The correspondence
check compares the library's floats with these rationals within 1 ulp, 0.0 and 1.0 exactly, and the
float → integer direction bit for bit. -/

/-- `float_to_unorm (unorm_to_float (u, n), n) = u` for all widths 1..10 -/
theorem float_roundtrip_partial (n u : Nat) (h1 : 1 ≤ n) (h2 : n ≤ 10) (hu : u < 2 ^ n) :
    floatToUnorm (unormToFloat u n) n = u := (float_facts n u h1 h2 hu).1

/-- 0 ↦ 0.0 and maximum ↦ 1.0 -/
theorem float_ends_partial (n : Nat) (h1 : 1 ≤ n) (h2 : n ≤ 10) :
    unormToFloat 0 n = 0 ∧ unormToFloat (2 ^ n - 1) n = 1 := by
  have hpos := Nat.two_pow_pos n
  exact ⟨(float_facts n 0 h1 h2 hpos).2.1 rfl, (float_facts n (2 ^ n - 1) h1 h2 (by omega)).2.2.1 (by omega)⟩

/-- widening to float is strictly monotone -/
theorem float_strict_mono_partial (n : Nat) (h1 : 1 ≤ n) (h2 : n ≤ 10) (a b : Nat) (hab : a < b) (hb : b < 2 ^ n) :
    unormToFloat a n < unormToFloat b n := by
  induction b with
  | zero => omega
  | succ k ih =>
    have step := (float_facts n k h1 h2 (by omega)).2.2.2 hb
    by_cases hk : a = k
    · rw [hk]; exact step
    · exact rat_lt_trans (ih (by omega) (by omega)) step

/-- narrowing from float clamps: below 0 gives 0, above 1 gives the maximum; 0.0 ↦ 0, 1.0 ↦ maximum -/
theorem float_clamps_partial (n : Nat) (h1 : 1 ≤ n) (h2 : n ≤ 10) (f : Rat) :
    (f < 0 → floatToUnorm f n = 0) ∧ (f > 1 → floatToUnorm f n = 2 ^ n - 1) ∧
    floatToUnorm 0 n = 0 ∧ floatToUnorm 1 n = 2 ^ n - 1 := by
  obtain ⟨e0, e1⟩ := float_ends_table n (List.mem_range.mpr (by omega)) h1
  exact ⟨fun h => by rw [floatToUnorm_clamp_lo f n h, e0], fun h => by rw [floatToUnorm_clamp_hi f n h, e1], e0, e1⟩

/-- the float pipeline and the 8-bit pipeline widen alike: level → float → 8 bits is bit replication -/
theorem float_path_is_replication_partial (n c : Nat) (h1 : 1 ≤ n) (h2 : n ≤ 8) (hc : c < 2 ^ n) :
    floatToUnorm (unormToFloat c n) 8 = unormToUnorm c n 8 := by
  have : c < 256 := Nat.lt_of_lt_of_le hc (Nat.pow_le_pow_right (by decide) h2)
  exact float_vs_replication_table n (List.mem_range.mpr (by omega)) c (List.mem_range.mpr this) h1 hc

/-- packed 10-bit formats: store ∘ fetch = identity on the defined bits -/
theorem wide10_store_fetch_id_partial (p : Nat) (hp : p < 2 ^ 32) :
    storeA2r10g10b10Float (fetchA2r10g10b10Float p) = p ∧ storeA2b10g10r10Float (fetchA2b10g10r10Float p) = p ∧
    storeX2r10g10b10Float (fetchX2r10g10b10Float p) = p % 2 ^ 30 ∧
    storeX2b10g10r10Float (fetchX2b10g10r10Float p) = p % 2 ^ 30 :=
  ⟨a2r10g10b10_roundtrip p hp, a2b10g10r10_roundtrip p hp, x2r10g10b10_roundtrip p, x2b10g10r10_roundtrip p⟩

example : storeA2r10g10b10Float (fetchA2r10g10b10Float 0x9abcdef0) = 0x9abcdef0 := by decide +kernel

/-- a8r8g8b8_sRGB (float path): store ∘ fetch = identity; the regenerated `to_linear` table runs strictly
increasing from 0.0 to 1.0 and `to_srgb` inverts it -/
theorem srgb_store_fetch_id_partial (p : Nat) (hp : p < 2 ^ 32) : storeSrgbFloat (fetchSrgbFloat p) = p :=
  srgb_roundtrip p hp

theorem srgb_table_monotone_partial :
    (∀ v, v < 256 → toSrgb (toLinear v) = v) ∧ (∀ v, v < 255 → toLinear v < toLinear (v + 1)) ∧
    toLinear 0 = 0 ∧ toLinear 255 = 1 :=
  ⟨fun v h => srgb_table.1 v (List.mem_range.mpr h), fun v h => srgb_table.2.1 v (List.mem_range.mpr h),
   srgb_table.2.2.1, srgb_table.2.2.2⟩

/-! ## YUV sources (yuy2, yv12) and the float pipeline -/

/-- the YUV formats (and the indexed ones) carry no A/R/G/B bit counts: `PIXMAN_FORMAT_VIS` is 0 -/
theorem gen_yuv_vis : ∀ r ∈ formats, (r.acc = 5 ∨ indexed r = true) → fmtVis r.code = 0 := by decide

example : ∃ r ∈ formats, r.acc = 5 ∧ r.name = "yv12" := by decide

/-- **Widening a fetched YUV (or indexed) pixel to float = float widening of its a8r8g8b8 value**: each channel of
`fetch_*_generic_float` is `unorm_to_float (byte, 8)` of the 32-bit fetch result.  (PARTIAL only in the sense of the
float section: rationals, not IEEE.) -/
theorem yuv_float_widening_is_8bit_widening_partial (r : Rec) (hr : r ∈ formats) (h : r.acc = 5 ∨ indexed r = true) (v : Nat) :
    genericFloatOf r.code v = ⟨unormToFloat (field v 24 8) 8, unormToFloat (field v 16 8) 8, unormToFloat (field v 8 8) 8,
      unormToFloat (field v 0 8) 8⟩ :=
  expand_novis r.code v (gen_yuv_vis r hr h)

/-- ... and contracting the float pixel gives the 8-bit result back: the two pipelines agree on YUV sources -/
theorem yuv_float_contracts_to_8bit_partial (r : Rec) (hr : r ∈ formats) (h : r.acc = 5 ∨ indexed r = true) (v : Nat)
    (hv : v < 2 ^ 32) : contractFromFloat (genericFloatOf r.code v) = v :=
  contract_expand_novis r.code v (gen_yuv_vis r hr h) hv

/-- a YUV fetch is always opaque (alpha byte 0xff, nothing above bit 31) -/
theorem yuv_fetch_opaque (m : Mem) (bits rowstride height offset line : Nat) :
    fetchPixelYuy2 m bits offset / 2 ^ 24 = 255 ∧ fetchPixelYv12 m bits rowstride height offset line / 2 ^ 24 = 255 :=
  ⟨yuvToArgb_opaque _ _ _, yuvToArgb_opaque _ _ _⟩

/-- scanline reader = map of the single-pixel reader, for both YUV formats -/
theorem yuv_scanline_is_map_of_fetch_pixel (m : Mem) (bits rowstride height line x w : Nat) :
    fetchScanlineYuy2Loop m bits x w = (List.range w).map (fun i => fetchPixelYuy2 m bits (x + i)) ∧
    fetchScanlineYv12Loop m bits rowstride height line x w =
      (List.range w).map (fun i => fetchPixelYv12 m bits rowstride height (x + i) line) :=
  ⟨fetchScanlineYuy2Loop_eq_map m bits x w, fetchScanlineYv12Loop_eq_map m bits rowstride height line x w⟩

example : fetchPixelYuy2 (fun a => if a % 2 = 0 then 0x80 else 0x80) 0 3 = 0xff828282 := by decide

/-! ## accessor images: which build is selected -/

/-- the regenerated conditions of `_pixman_bits_image_setup_accessors`, of the `FAST_PATH_NO_ACCESSORS` flag and of
`pixman_rasterize_edges` are all the model's selection: the three places agree on what an accessor image is -/
theorem gen_accessor_selection : ∀ r w : Bool,
    Pixman.Gen.Formats.accessorBuildSelected r w = usesAccessorBuild r w ∧
    Pixman.Gen.Formats.noAccessorsFlagCleared r w = usesAccessorBuild r w ∧
    Pixman.Gen.Formats.edgeAccessorsSelected r w = usesAccessorBuild r w := by decide

/-- the callback build is used exactly when a reader **or** a writer is installed: an image with a single
callback is an accessor image -/
theorem accessor_build_iff_any_callback (readFunc writeFunc : Bool) :
    Pixman.Gen.Formats.accessorBuildSelected readFunc writeFunc = true ↔ (readFunc = true ∨ writeFunc = true) := by
  rw [(gen_accessor_selection readFunc writeFunc).1]
  unfold usesAccessorBuild
  simp

example : Pixman.Gen.Formats.accessorBuildSelected true false = true ∧ Pixman.Gen.Formats.accessorBuildSelected false true = true := by decide

/-! ## not proved here

* Accessor equivalence: pixman-access-accessors.c is the same source recompiled with `READ`/`WRITE` calling the
  user callbacks.  The model has one `READ`/`WRITE`; that the second compilation behaves like the first is
  established by the correspondence check only (direct and callback images against the same model, callback
  addresses inside the storage).
* IEEE-754 rounding (see the section above).
* the 32-bit sRGB entry points, big-endian builds, negative strides. -/

end Pixman.Props.C10

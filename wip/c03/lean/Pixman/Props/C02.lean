import Pixman.Model.Dispatch
import Pixman.Model.Simd
import Pixman.Lemmas.Dispatch
import Pixman.Lemmas.Simd
import Pixman.Lemmas.Simd565
import Pixman.Lemmas.SimdBilinear
import Pixman.Props.C01
/-! # C02 — every implementation is bit-identical: what is proved

* **D1** (cache transparency) — over any history of lookups the 8-entry move-to-front cache of
  `_pixman_implementation_lookup_composite` answers exactly what the table walk answers.
* **D2** (conditional chain independence) — IF every table entry refines the general path on the
  requests its guard admits (`EntrySound`, validated per entry by the differential sweep of
  `checks/C02.py`, NOT proved) THEN the picture is the same for every set of disabled
  implementations and with `wholeops` on or off.
* **K** (lane kernels, all lane inputs) — the SSE2/MMX `pix_multiply` is `MUL_UN8`; `over`,
  `in_over`, `pix_add_multiply` are the `UN8x4_*` macros per channel including the saturating
  pack; the r5g6b5 conversions are `convert_0565_to_8888` / `convert_8888_to_0565`; the SSE2
  bilinear lane formula is `bilinear_interpolation`'s channel; SSSE3 horizontal weights.
* **B** — `blt`/`fill` delegation returns FALSE only if every implementation declined, and then
  nothing was written (model level: a declining member is assumed not to write, `DeclineClean`).

Not covered by any theorem: the loop structure of the SIMD composite functions (vector body,
scalar head/tail, alignment branches) — compiled code, covered only by the sweep. -/
namespace Pixman.Props.C02
open Pixman.Model.Dispatch Pixman.Model.Simd Pixman.Lemmas.Dispatch Pixman.Lemmas.Simd
open Pixman.Arith Pixman.Lanes Pixman.Spec Pixman.Lemmas

/-! ## D1 — fast-path cache transparency -/

/-- a lookup through a cache whose entries are table answers returns the table answer -/
theorem lookupCached_eq_tableWalk (c : Chain) (cache : Cache) (k : Key) (h : CacheInv c cache) :
    (lookupCached c cache k).1 = tableWalk c k := lookupCached_fst c cache k h

/-- the invariant is kept by every lookup (hit, hit in slot 0, miss with insertion, failed walk) -/
theorem cacheInv_preserved (c : Chain) (cache : Cache) (k : Key) (h : CacheInv c cache) :
    CacheInv c (lookupCached c cache k).2 := lookupCached_inv c cache k h

/-- over ANY history of lookups, starting from the empty (zero-initialised) cache, the answers are
exactly those of the table walk -/
theorem lookupHistory_eq_map_tableWalk (c : Chain) (ks : List Key) :
    (lookupHistory c [] ks).1 = ks.map (tableWalk c) :=
  lookupHistory_fst c [] ks (fun _ h => by simp at h)

/-- the cache never holds more than `N_CACHED_FAST_PATHS` entries -/
theorem cache_length_le (c : Chain) (cache : Cache) (k : Key) (h : cache.length ≤ nCached) :
    (lookupCached c cache k).2.length ≤ nCached := lookupCached_length c cache k h

/-- what the table walk returns is an entry of the chain that admits the request -/
theorem tableWalk_sound (c : Chain) (k : Key) (a : Ans) (h : tableWalk c k = some a) :
    ∃ t ∈ c, a.entry ∈ t ∧ admits a.entry k = true := walkFrom_spec 0 c k a h

private def eA : Entry := ⟨⟨3, 0x20028888, 0x63, 0, 0, 0x20028888, 0x62⟩, 7⟩
private def eG : Entry := ⟨⟨opAny, fmtAny, 0, fmtAny, 0, fmtAny, 0⟩, 99⟩
private def kA : Key := ⟨3, 0x20028888, 0x8000e7, 0, 0x2002, 0x20028888, 0x62⟩
private def kB : Key := ⟨12, 0x20028888, 0x8000e7, 0, 0x2002, 0x20028888, 0x62⟩
/-- non-vacuity: a two-level chain; the second lookup of `kA` is served from the cache, `kB` falls
through to the catch-all, and both are the table walk's answers -/
example : (lookupHistory [[eA], [eG]] [] [kA, kB, kA]).1 = [some ⟨0, 0, eA⟩, some ⟨1, 0, eG⟩, some ⟨0, 0, eA⟩]
    ∧ (lookupHistory [[eA], [eG]] [] [kA, kB, kA]).2 = [(kA, ⟨0, 0, eA⟩), (kB, ⟨1, 0, eG⟩)] := by decide

/-! ## D2 — conditional chain independence -/

/-- under `EntrySound`, dispatch through any chain containing a catch-all entry renders what the
general path renders -/
theorem render_eq_general {Req Pic : Type} (run : Nat → Req → Pic) (general : Req → Pic) (key : Req → Key)
    (c : Chain) (hs : EntrySound run general key c) (hc : HasCatchAll c) (r : Req) :
    dispatch run key c r = some (general r) := dispatch_eq_general run general key c hs hc r

/-- for every two sets of disabled implementations (`PIXMAN_DISABLE` ⊆ {fast, mmx, sse2, ssse3}; the
general implementation, which holds the catch-all entry, cannot be disabled) the rendered picture is
the same — conditional on `EntrySound` of the full chain -/
theorem chain_independent_of_disable {Req Pic : Type} (run : Nat → Req → Pic) (general : Req → Pic)
    (key : Req → Key) (all : List Impl) (d1 d2 : String → Bool)
    (hs : EntrySound run general key (all.map Impl.table))
    (hg : ∃ i ∈ all, d1 i.name = false ∧ d2 i.name = false ∧ ∃ e ∈ i.table, ∀ k, admits e k = true)
    (r : Req) :
    dispatch run key ((chooseImplementations all d1).map Impl.table) r
      = dispatch run key ((chooseImplementations all d2).map Impl.table) r := by
  have sub : ∀ d : String → Bool, EntrySound run general key ((chooseImplementations all d).map Impl.table) := by
    intro d t ht
    obtain ⟨i, hi, rfl⟩ := List.mem_map.mp ht
    have hi' : i ∈ all := (List.mem_filter.mp hi).1
    exact hs i.table (List.mem_map.mpr ⟨i, hi', rfl⟩)
  obtain ⟨g, hgm, h1, h2, e, he, ha⟩ := hg
  have c1 : HasCatchAll ((chooseImplementations all d1).map Impl.table) :=
    ⟨g.table, List.mem_map.mpr ⟨g, List.mem_filter.mpr ⟨hgm, by simp [h1]⟩, rfl⟩, e, he, ha⟩
  have c2 : HasCatchAll ((chooseImplementations all d2).map Impl.table) :=
    ⟨g.table, List.mem_map.mpr ⟨g, List.mem_filter.mpr ⟨hgm, by simp [h2]⟩, rfl⟩, e, he, ha⟩
  rw [dispatch_eq_general run general key _ (sub d1) c1 r, dispatch_eq_general run general key _ (sub d2) c2 r]

/-- `PIXMAN_DISABLE=wholeops` (all tables but the last emptied) renders the same picture — conditional
on `EntrySound` and on the last implementation (general) holding the catch-all entry -/
theorem wholeops_independent {Req Pic : Type} (run : Nat → Req → Pic) (general : Req → Pic)
    (key : Req → Key) (c : Chain) (hs : EntrySound run general key c)
    (hg : ∃ g, c.getLast? = some g ∧ ∃ e ∈ g, ∀ k, admits e k = true) (r : Req) :
    dispatch run key (disableWholeops c) r = dispatch run key c r := by
  obtain ⟨g, hl, e, he, ha⟩ := hg
  have hs' : EntrySound run general key (disableWholeops c) := by
    intro t ht e' he'
    rcases mem_disableWholeops c t ht with rfl | h
    · simp at he'
    · exact hs t h e' he'
  have hc : HasCatchAll c := ⟨g, List.mem_of_getLast? hl, e, he, ha⟩
  have hc' : HasCatchAll (disableWholeops c) :=
    ⟨g, List.mem_of_getLast? (by rw [getLast_disableWholeops]; exact hl), e, he, ha⟩
  rw [dispatch_eq_general run general key _ hs' hc' r, dispatch_eq_general run general key _ hs hc r]

/-- non-vacuity of D2: a chain whose fast entry computes what general computes on what it admits -/
example : dispatch (fun f (r : Nat) => if f = 7 then r + 1 else r + 1) (fun _ => kA)
    ((chooseImplementations [⟨"sse2", [eA]⟩, ⟨"general", [eG]⟩] (fun n => n == "sse2")).map Impl.table) 5 = some 6
    ∧ dispatch (fun f (r : Nat) => if f = 7 then r + 1 else r + 1) (fun _ => kA) (disableWholeops [[eA], [eG]]) 5 = some 6 := by
  decide

/-! ## B — blt / fill delegation -/

/-- `_pixman_implementation_blt` returns FALSE iff every implementation that has a `blt` declined -/
theorem blt_false_iff_all_declined {Mem : Type} (ops : List (MemOp Mem)) (m : Mem) (hc : DeclineClean ops) :
    (delegate ops m).1 = false ↔ ∀ f, some f ∈ ops → (f m).1 = false := delegate_false ops m hc

/-- the same loop serves `_pixman_implementation_fill` -/
theorem fill_false_iff_all_declined {Mem : Type} (ops : List (MemOp Mem)) (m : Mem) (hc : DeclineClean ops) :
    (delegate ops m).1 = false ↔ ∀ f, some f ∈ ops → (f m).1 = false := delegate_false ops m hc

/-- … and in that case the memory is unchanged (model level: each declining member writes nothing) -/
theorem blt_declined_writes_nothing {Mem : Type} (ops : List (MemOp Mem)) (m : Mem) (hc : DeclineClean ops)
    (h : (delegate ops m).1 = false) : (delegate ops m).2 = m := delegate_false_mem ops m hc h

example : delegate [none, some (fun (m : Nat) => (false, m)), some (fun m => (true, m + 1))] 4 = (true, 5)
    ∧ delegate [none, some (fun (m : Nat) => (false, m))] 4 = (false, 4) := by decide

/-! ## K — lane kernels -/

/-- SSE2 `pix_multiply` lane = `MUL_UN8` -/
theorem sse2_pix_multiply_eq_mulUn8 (x a : Nat) (hx : x ≤ 255) (ha : a ≤ 255) :
    Sse2.pixMultiply1 x a = mulUn8 x a := by
  rw [pixMultiply1_eq_rnd x a hx ha, Pixman.Props.C01.mulUn8_round x a hx ha]

/-- MMX `pix_multiply` lane = `MUL_UN8` -/
theorem mmx_pix_multiply_eq_mulUn8 (x a : Nat) (hx : x ≤ 255) (ha : a ≤ 255) :
    Mmx.pixMultiply1 x a = mulUn8 x a := by
  rw [mmx_pixMultiply1_eq, sse2_pix_multiply_eq_mulUn8 x a hx ha]

theorem sse2_mmx_pix_multiply_agree (x a : Nat) : Sse2.pixMultiply1 x a = Mmx.pixMultiply1 x a := rfl

example : Sse2.pixMultiply1 0x7f 0x80 = 64 ∧ mulUn8 0x7f 0x80 = 64 := by decide

/-- `negate`: `x ^ 0x00ff = 255 - x` on a byte lane -/
theorem negate_lane (a : Nat) (ha : a ≤ 255) : xor00ff a = 255 - a := xor00ff_eq a (by omega)

/-- `expand_alpha` (SSE2 and MMX): every lane becomes the alpha lane -/
theorem expand_alpha_lanes (x : Px) :
    Sse2.expandAlpha x = ⟨x.a, x.a, x.a, x.a⟩ ∧ Mmx.expandAlpha x = Sse2.expandAlpha x := ⟨rfl, rfl⟩

/-- `_mm_packus_epi16` on a lane: bytes pass, larger positive values saturate, negative ones give 0 -/
theorem packus_lane (x : Nat) (hx : x < 65536) :
    packus x = (if x ≥ 32768 then 0 else min 255 x) := by
  by_cases h : x ≥ 32768
  · simp only [h, if_true]; exact packus_neg x h hx
  · simp only [h, if_false]; exact packus_sat x (by omega)

/-- one lane of `over` (SSE2 = MMX): `min 255 (s + MUL_UN8 (d, 255 - a))` -/
theorem over_lane_eq_spec (s a d : Nat) (hs : s ≤ 255) (ha : a ≤ 255) (hd : d ≤ 255) :
    addsU8lane s (Sse2.pixMultiply1 d (xor00ff a)) = min 255 (mulUn8 d (255 - a) + s) := by
  rw [over_lane s a d hs ha hd, Pixman.Props.C01.mulUn8_round d (255 - a) hd (by omega)]; rfl

/-- the SSE2 OVER of two a8r8g8b8 pixels, including unpack, `expand_alpha`, `negate`, `pix_multiply`,
the saturating byte add and the `packus` pack, is `UN8x4_MUL_UN8_ADD_UN8x4 (d, ALPHA_8 (~s), s)` —
the body of `combine_over_u` -/
theorem over_pixel_eq_UN8x4_MUL_UN8_ADD_UN8x4 (s d : Nat) :
    Sse2.overPixel s d = un8x4MulUn8AddUn8x4 d (255 - cA s) s := by
  have hA := cA_le s
  rw [un8x4MulUn8AddUn8x4_eq d (255 - cA s) s (by omega)]
  unfold Sse2.overPixel Sse2.over Sse2.expandAlpha Sse2.pixMultiply Sse2.negate Px.map2 Px.map
  simp only [unpack32_a, unpack32_b, unpack32_g, unpack32_r]
  rw [over_lane _ _ _ (cB_le s) hA (cB_le d), over_lane _ _ _ (cG_le s) hA (cG_le d),
    over_lane _ _ _ (cR_le s) hA (cR_le d), over_lane _ _ _ hA hA (cA_le d)]
  exact pack32_bytes _ _ _ _ (sat_le _ _) (sat_le _ _) (sat_le _ _) (sat_le _ _)

example : Sse2.overPixel 0x80402010 0xff8040c0 = 0xff804070 := by decide

/-- the MMX `over` is the same lane function -/
theorem mmx_over_eq_sse2 (s a d : Px) : Mmx.over s a d = Sse2.over s a d := rfl

/-- one lane of `in_over`: `over (MUL (s, m), MUL (a, m), d)` -/
theorem in_over_lane (s a m d : Nat) (hs : s ≤ 255) (ha : a ≤ 255) (hm : m ≤ 255) (hd : d ≤ 255) :
    addsU8lane (Sse2.pixMultiply1 s m) (Sse2.pixMultiply1 d (xor00ff (Sse2.pixMultiply1 a m)))
      = min 255 (mulUn8 d (255 - mulUn8 a m) + mulUn8 s m) := by
  have h1 := pixMultiply1_le s m hs hm
  have h2 := pixMultiply1_le a m ha hm
  rw [over_lane_eq_spec _ _ _ h1 h2 hd, sse2_pix_multiply_eq_mulUn8 a m ha hm, sse2_pix_multiply_eq_mulUn8 s m hs hm]

/-- `in_over` of the two files is the same function of lanes -/
theorem mmx_in_over_eq_sse2 (s a m d : Px) : Mmx.inOver s a m d = Sse2.inOver s a m d := rfl

/-- one lane of `pix_add_multiply` = one channel of `UN8x4_MUL_UN8x4_ADD_UN8x4_MUL_UN8`-style sums:
`min 255 (MUL_UN8 (s, ad) + MUL_UN8 (d, as))` -/
theorem pix_add_multiply_lane_eq_spec (s ad d as : Nat) (hs : s ≤ 255) (had : ad ≤ 255) (hd : d ≤ 255)
    (has : as ≤ 255) :
    addsU8lane (Sse2.pixMultiply1 s ad) (Sse2.pixMultiply1 d as) = min 255 (mulUn8 s ad + mulUn8 d as) := by
  rw [addmul_lane s ad d as hs had hd has, Pixman.Props.C01.mulUn8_round s ad hs had,
    Pixman.Props.C01.mulUn8_round d as hd has]; rfl

/-- with a unified alpha `b`/`a` in every lane this is `UN8x4_MUL_UN8_ADD_UN8x4_MUL_UN8 (x, a, y, b)` -/
theorem pix_add_multiply_pixel_eq (x a y b : Nat) (ha : a ≤ 255) (hb : b ≤ 255) :
    pack32 (Sse2.pixAddMultiply (unpack32 x) ⟨a, a, a, a⟩ (unpack32 y) ⟨b, b, b, b⟩)
      = un8x4MulUn8AddUn8x4MulUn8 x a y b := by
  rw [un8x4MulUn8AddUn8x4MulUn8_eq x a y b ha hb]
  unfold Sse2.pixAddMultiply Sse2.pixMultiply Px.map2
  simp only [unpack32_a, unpack32_b, unpack32_g, unpack32_r]
  rw [addmul_lane _ _ _ _ (cB_le x) ha (cB_le y) hb, addmul_lane _ _ _ _ (cG_le x) ha (cG_le y) hb,
    addmul_lane _ _ _ _ (cR_le x) ha (cR_le y) hb, addmul_lane _ _ _ _ (cA_le x) ha (cA_le y) hb]
  exact pack32_bytes _ _ _ _ (sat_le _ _) (sat_le _ _) (sat_le _ _) (sat_le _ _)

/-! ### r5g6b5 conversions -/

/-- SSE2 `unpack_565_to_8888` = `convert_0565_to_0888` (the callers OR `mask_alpha`, as
`convert_0565_to_8888` ORs `0xff000000`) — for every lane value, bit by bit -/
theorem unpack_565_to_8888_eq_convert (s : Nat) :
    Sse2.unpack565to8888 s = convert0565to0888 s := Pixman.Lemmas.Simd565.unpack565_eq s

/-- `pack_565_32_16` = `convert_8888_to_0565` -/
theorem pack_565_eq_convert (p : Nat) :
    Sse2.pack565_32_16 p = convert8888to0565 p := Pixman.Lemmas.Simd565.pack565_eq p

/-- the vector packer `pack_565_2x128_128` followed by `packus`, per 32-bit lane, = `convert_8888_to_0565` -/
theorem pack_565_2x128_lane_eq_convert (p : Nat) :
    Sse2.pack565Lane p = convert8888to0565 p := Pixman.Lemmas.Simd565.pack565Lane_eq p

example : Sse2.unpack565to8888 0xf81f = 0xff00ff ∧ convert0565to0888 0xf81f = 0xff00ff
    ∧ Sse2.pack565Lane 0x12fe8037 = 0xfc06 ∧ convert8888to0565 0x12fe8037 = 0xfc06 := by decide

/-- MMX `expand565` (`mullo_pi16` by `565_unpack_multiplier`, `srli 8`): its three colour lanes, packed,
are `convert_0565_to_0888` -/
theorem mmx_expand565_eq_convert (s : Nat) (hs : s < 65536) :
    pack32 (Mmx.expand565 s) = convert0565to0888 s := Pixman.Lemmas.Simd565.mmx_expand565_eq s hs

/-- MMX `pack_565` (position 0, empty target) of an unpacked pixel = `convert_8888_to_0565` -/
theorem mmx_pack_565_eq_convert (p : Nat) :
    Mmx.pack565 (Mmx.reg (unpack32 p)) = convert8888to0565 p := Pixman.Lemmas.Simd565.mmx_pack565_eq p

example : pack32 (Mmx.expand565 0x8410) = 0x848284 ∧ convert0565to0888 0x8410 = 0x848284 := by decide

/-! ### bilinear -/

/-- the SSE2 scaled-bilinear lane formula (vertical `mullo/add` pass with weights `wt + wb = 128`,
horizontal weights taken from `vx`, `madd`, `>> 14`, the two packs) is the channel of
`bilinear_interpolation (tl, tr, bl, br, distx, disty)` with `distx = (vx >> 9) & 0x7f`, `disty = wb` -/
theorem sse2_bilinear_eq_bilinear_interpolation (tl tr bl br wt wb vx : Nat)
    (h1 : tl ≤ 255) (h2 : tr ≤ 255) (h3 : bl ≤ 255) (h4 : br ≤ 255) (hw : wt + wb = 128) :
    Sse2.bilinearChannel tl tr bl br wt wb vx = bilinearChannel tl tr bl br (vx % 65536 / 512) wb :=
  Pixman.Lemmas.SimdBilinear.sse2_channel_eq tl tr bl br wt wb vx h1 h2 h3 h4 hw

/-- SSSE3 `ssse3_fetch_horizontal`: the byte weights are `(128 - distx, distx)` and, thanks to the
`abs` repair of the `-128` weight, the lane is `l * (128 - distx) + r * distx` -/
theorem ssse3_bilinear_weights (l r x : Nat) (hl : l ≤ 255) (hr : r ≤ 255) :
    Ssse3.horizontal l r x = l * (128 - x % 65536 / 512) + r * (x % 65536 / 512) :=
  Pixman.Lemmas.SimdBilinear.ssse3_horizontal_eq l r x hl hr

example : Sse2.bilinearChannel 10 200 30 40 96 32 (77 * 512 + 5) = bilinearChannel 10 200 30 40 77 32 := by decide

end Pixman.Props.C02

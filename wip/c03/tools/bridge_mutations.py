#!/usr/bin/env python3
"""tools/bridge_mutations.py [name-filter]: sensitivity / fail-closed demonstration for tools/gen_cfuncs.py
and lean/Pixman/Props/Bridges.lean.

For every mutation below (a one-token change inside one translated C function) a scratch copy of /repo
(never /repo itself) is mutated, gen_cfuncs.py is run on it into a scratch copy of the Lean project and
`lake build Pixman.Props.Bridges` is run there.  Expected for every mutation: the generator exits non-zero
(fail closed) or the build fails (a bridge theorem no longer checks).  Prints one line per mutation and a
summary; exits 1 if a mutation survives.  Environment: VERIF_REPO (default /repo), BRIDGE_MUT_DIR (default
/var/tmp/agents/regen)."""
import os, re, subprocess, sys, shutil
from pathlib import Path
HERE = Path(__file__).resolve().parents[1]
REPO = Path(os.environ.get("VERIF_REPO", "/repo"))
BASE = Path(os.environ.get("BRIDGE_MUT_DIR", "/var/tmp/agents/regen"))
RM, LM = BASE / "repo-m", BASE / "lean-m"

# (name, file, function or None, old, new, occurrence index inside the function / file)
M = [
    ("udiv-shift", "pixman/pixman-matrix.c", "rounded_udiv_128_by_48", "(lo >> 48)", "(lo >> 47)", 0),
    ("udiv-assert", "pixman/pixman-matrix.c", "rounded_udiv_128_by_48", "div <= ((uint64_t)1 << 48)", "div < ((uint64_t)1 << 48)", 0),
    ("udiv-round", "pixman/pixman-matrix.c", "rounded_udiv_128_by_48", "remainder * 2 >= div", "remainder * 2 > div", 0),
    ("sdiv-sign", "pixman/pixman-matrix.c", "rounded_sdiv_128_by_49", "if (hi < 0)", "if (hi <= 0)", 0),
    ("sdiv-carry", "pixman/pixman-matrix.c", "rounded_sdiv_128_by_49", "if (result_lo != 0)", "if (result_lo == 0)", 0),
    ("f6416-lt", "pixman/pixman-matrix.c", "fixed_64_16_to_int128", "if (scalebits < 16)", "if (scalebits <= 16)", 0),
    ("f11216-sign", "pixman/pixman-matrix.c", "fixed_112_16_to_fixed_48_16", "hi >= 0 ?", "hi > 0 ?", 0),
    ("ceil-last", "pixman/pixman-trap.c", "pixman_sample_ceil_y", "if (f > Y_FRAC_LAST (n))", "if (f >= Y_FRAC_LAST (n))", 0),
    ("ceil-sat", "pixman/pixman-trap.c", "pixman_sample_ceil_y", "== 0x7fff", "== 0x7ffe", 0),
    ("floor-first", "pixman/pixman-trap.c", "pixman_sample_floor_y", "if (f < Y_FRAC_FIRST (n))", "if (f <= Y_FRAC_FIRST (n))", 0),
    ("floor-e", "pixman/pixman-trap.c", "pixman_sample_floor_y", "f - pixman_fixed_e - Y_FRAC_FIRST (n)", "f - Y_FRAC_FIRST (n)", 0),
    ("macro-DIV", "pixman/pixman-private.h", None, "((a) - (b) + 1 - (((b) < 0) << 1)) / (b)", "((a) - (b) + 2 - (((b) < 0) << 1)) / (b)", 0),
    ("macro-STEP_Y_BIG", "pixman/pixman-private.h", None, "(N_Y_FRAC (n) - 1) * STEP_Y_SMALL (n))", "(N_Y_FRAC (n) - 2) * STEP_Y_SMALL (n))", 0),
    ("step-gt", "pixman/pixman-trap.c", "pixman_edge_step", "if (ne > 0)", "if (ne >= 0)", 0),
    ("step-ceil", "pixman/pixman-trap.c", "pixman_edge_step", "(ne + e->dy - 1) / e->dy", "(ne + e->dy - 2) / e->dy", 0),
    ("step-sign", "pixman/pixman-trap.c", "pixman_edge_step", "e->x -= nx * e->signdx", "e->x += nx * e->signdx", 0),
    ("multi-gt", "pixman/pixman-trap.c", "_pixman_edge_multi_init", "if (ne > 0)", "if (ne >= 0)", 0),
    ("weight-shift", "pixman/pixman-inlines.h", "pixman_fixed_to_bilinear_weight", "(16 - BILINEAR_INTERPOLATION_BITS)", "(15 - BILINEAR_INTERPOLATION_BITS)", 0),
    ("repeat-none", "pixman/pixman-inlines.h", "repeat", "*c >= size)\n\t    return FALSE", "*c > size)\n\t    return FALSE", 0),
    ("repeat-reflect", "pixman/pixman-inlines.h", "repeat", "*c = size * 2 - *c - 1;", "*c = size * 2 - *c;", 0),
    ("repeat-pad", "pixman/pixman-inlines.h", "repeat", "CLIP (*c, 0, size - 1)", "CLIP (*c, 0, size)", 0),
    ("repeat-normal", "pixman/pixman-inlines.h", "repeat", "while (*c < 0)", "while (*c <= 0)", 0),
    ("bilinear-mask", "pixman/pixman-inlines.h", None, "tr64 = tr & 0xff0000ff;", "tr64 = tr & 0xff0000fe;", 0),
    ("bilinear-weight", "pixman/pixman-inlines.h", None, "distixy = (256 - distx) * disty;", "distixy = (255 - distx) * disty;", 0),
    ("pad-gt", "pixman/pixman-inlines.h", "pad_repeat_get_scanline_bounds", "if (tmp > *width)", "if (tmp >= *width)", 0),
    ("pad-ge", "pixman/pixman-inlines.h", "pad_repeat_get_scanline_bounds", "else if (tmp >= *width)", "else if (tmp > *width)", 0),
    ("pad-shift", "pixman/pixman-inlines.h", "pad_repeat_get_scanline_bounds", "source_image_width << 16", "source_image_width << 15", 0),
    ("565-mask", "pixman/pixman-private.h", "convert_8888_to_0565", "0x1F001F", "0x1F001E", 0),
    ("0888-mask", "pixman/pixman-private.h", "convert_0565_to_0888", "& 0x300", "& 0x200", 0),
    ("8888-alpha", "pixman/pixman-private.h", "convert_0565_to_8888", "0xff000000", "0xfe000000", 0),
    ("unorm-ge", "pixman/pixman-private.h", "unorm_to_unorm", "if (from_bits >= to_bits)", "if (from_bits > to_bits)", 0),
    ("unorm-rep", "pixman/pixman-private.h", "unorm_to_unorm", "result |= result >> from_bits;", "result |= result << from_bits;", 0),
    ("ovf-size", "pixman/pixman-utils.c", "_pixman_multiply_overflows_size", "a >= SIZE_MAX / b", "a > SIZE_MAX / b", 0),
    ("ovf-int", "pixman/pixman-utils.c", "_pixman_multiply_overflows_int", "a >= INT32_MAX / b", "a > INT32_MAX / b", 0),
    ("ovf-add", "pixman/pixman-utils.c", "_pixman_addition_overflows_int", "a > INT32_MAX - b", "a >= INT32_MAX - b", 0),
    ("malloc-ab", "pixman/pixman-utils.c", "pixman_malloc_ab", "malloc (a * b)", "malloc (a + b)", 0),
    ("malloc-abc", "pixman/pixman-utils.c", "pixman_malloc_abc", "a * b >= INT32_MAX / c", "a * b > INT32_MAX / c", 0),
    ("malloc-abpc", "pixman/pixman-utils.c", "pixman_malloc_ab_plus_c", "(a * b) > INT32_MAX - c", "(a * b) >= INT32_MAX - c", 0),
    ("color-shift", "pixman/pixman.c", "color_to_uint32", "color->red >> 8 << 16", "color->red >> 8 << 15", 0),
    ("hash-shift", "pixman/pixman-glyph.c", "hash", "key >> 12", "key >> 13", 0),
    # ---- pixman-combine32.c
    ("mask_ca-eq", "pixman/pixman-combine32.c", "combine_mask_ca", "if (a == ~0)", "if (a != ~0)", 0),
    ("mask_ca-shift", "pixman/pixman-combine32.c", "combine_mask_ca", "x |= x << G_SHIFT;", "x |= x << R_SHIFT;", 0),
    ("mask_value_ca-const", "pixman/pixman-combine32.c", "combine_mask_value_ca", "if (a == ~0)", "if (a == ~1)", 0),
    ("mask_alpha_ca-eq", "pixman/pixman-combine32.c", "combine_mask_alpha_ca", "if (x == MASK)", "if (x != MASK)", 0),
    ("mask-ret", "pixman/pixman-combine32.c", "combine_mask", "return 0;", "return 1;", 0),
    ("src_u-store", "pixman/pixman-combine32.c", "combine_src_u", "*(dest + i) = s;", "*(dest + i) = ~s;", 0),
    ("over_u-ff", "pixman/pixman-combine32.c", "combine_over_u", "if (a == 0xFF)", "if (a == 0xFE)", 0),
    ("over_u-ia-masked", "pixman/pixman-combine32.c", "combine_over_u", "uint32_t ia = a ^ 0xFF;", "uint32_t ia = a ^ 0xFE;", 1),
    ("over_reverse_u-not", "pixman/pixman-combine32.c", "combine_over_reverse_u", "ALPHA_8 (~*(dest + i))", "ALPHA_8 (*(dest + i))", 0),
    ("in_u-chan", "pixman/pixman-combine32.c", "combine_in_u", "ALPHA_8 (*(dest + i))", "RED_8 (*(dest + i))", 0),
    ("in_reverse_u-swap", "pixman/pixman-combine32.c", "combine_in_reverse_u", "UN8x4_MUL_UN8 (d, a);", "UN8x4_MUL_UN8 (d, d);", 0),
    ("out_u-not", "pixman/pixman-combine32.c", "combine_out_u", "ALPHA_8 (~*(dest + i))", "ALPHA_8 (*(dest + i))", 0),
    ("out_u-stride", "pixman/pixman-combine32.c", "combine_out_u", "++i", "i += 2", 0),
    ("out_reverse_u-not", "pixman/pixman-combine32.c", "combine_out_reverse_u", "ALPHA_8 (~s)", "ALPHA_8 (s)", 0),
    ("atop_u-arg", "pixman/pixman-combine32.c", "combine_atop_u", "(s, dest_a, d, src_ia)", "(s, src_ia, d, src_ia)", 0),
    ("atop_reverse_u-arg", "pixman/pixman-combine32.c", "combine_atop_reverse_u", "uint32_t src_a = ALPHA_8 (s);", "uint32_t src_a = ALPHA_8 (d);", 0),
    ("xor_u-not", "pixman/pixman-combine32.c", "combine_xor_u", "uint32_t src_ia = ALPHA_8 (~s);", "uint32_t src_ia = ALPHA_8 (s);", 0),
    ("add_u-macro", "pixman/pixman-combine32.c", "combine_add_u", "UN8x4_ADD_UN8x4 (d, s);", "UN8x4_MUL_UN8x4 (d, s);", 0),
    ("multiply_u-macro", "pixman/pixman-combine32.c", "combine_multiply_u", "UN8x4_MUL_UN8x4 (d, s);", "UN8x4_ADD_UN8x4 (d, s);", 0),
    ("src_ca-helper", "pixman/pixman-combine32.c", "combine_src_ca", "combine_mask_value_ca (&s, &m);", "combine_mask_ca (&s, &m);", 0),
    ("over_ca-not", "pixman/pixman-combine32.c", "combine_over_ca", "a = ~m;", "a = m;", 0),
    ("over_reverse_ca-shift", "pixman/pixman-combine32.c", "combine_over_reverse_ca", "uint32_t a = ~d >> A_SHIFT;", "uint32_t a = ~d >> R_SHIFT;", 0),
    ("in_ca-ne", "pixman/pixman-combine32.c", "combine_in_ca", "if (a != MASK)", "if (a == MASK)", 0),
    ("in_reverse_ca-ne", "pixman/pixman-combine32.c", "combine_in_reverse_ca", "if (a != ~0)", "if (a == ~0)", 0),
    ("out_ca-not", "pixman/pixman-combine32.c", "combine_out_ca", "uint16_t a = ~d >> A_SHIFT;", "uint16_t a = d >> A_SHIFT;", 0),
    ("out_reverse_ca-not", "pixman/pixman-combine32.c", "combine_out_reverse_ca", "a = ~m;", "a = m;", 0),
    ("atop_ca-not", "pixman/pixman-combine32.c", "combine_atop_ca", "ad = ~m;", "ad = m;", 0),
    ("atop_reverse_ca-not", "pixman/pixman-combine32.c", "combine_atop_reverse_ca", "uint16_t as = ~d >> A_SHIFT;", "uint16_t as = d >> A_SHIFT;", 0),
    ("xor_ca-not", "pixman/pixman-combine32.c", "combine_xor_ca", "ad = ~m;", "ad = m;", 0),
    ("add_ca-swap", "pixman/pixman-combine32.c", "combine_add_ca", "UN8x4_ADD_UN8x4 (d, s);", "UN8x4_ADD_UN8x4 (s, d);", 0),
    ("multiply_ca-not", "pixman/pixman-combine32.c", "combine_multiply_ca", "(r, ~m, s, dest_ia)", "(r, m, s, dest_ia)", 0),
    # ---- fail closed: constructs outside the accepted subset
    ("unsupported-goto", "pixman/pixman-matrix.c", "fixed_112_16_to_fixed_48_16", "*clampflag = TRUE;", "*clampflag = TRUE; goto out;", 0),
    ("unsupported-loop", "pixman/pixman-trap.c", "pixman_edge_step", "e->x += n * e->stepx;", "while (n > 3) n--; e->x += n * e->stepx;", 0),
    ("unsupported-type", "pixman/pixman-utils.c", "_pixman_addition_overflows_int", "unsigned int a, unsigned int b", "unsigned int a, float b", 0),
]


def func_span(text, name):
    for m in re.finditer(r"\b" + re.escape(name) + r"\s*\(", text):
        i = m.end()
        d = 1
        while i < len(text) and d:
            d += {"(": 1, ")": -1}.get(text[i], 0)
            i += 1
        j = i
        while j < len(text) and text[j].isspace():
            j += 1
        if j < len(text) and text[j] == "{" and text[:m.start()].count("{") == text[:m.start()].count("}"):
            k, d = j + 1, 1
            while k < len(text) and d:
                d += {"{": 1, "}": -1}.get(text[k], 0)
                k += 1
            return m.start(), k
    raise SystemExit(f"function {name} not found")


def apply(text, func, old, new, occ):
    a, b = (0, len(text)) if func is None else func_span(text, func)
    pos = a - 1
    for _ in range(occ + 1):
        pos = text.find(old, pos + 1, b)
        if pos < 0:
            raise SystemExit(f"{func}: {old!r} not found (occurrence {occ})")
    return text[:pos] + new + text[pos + len(old):]


def sh(cmd, cwd=None):
    return subprocess.run(cmd, cwd=cwd, capture_output=True, text=True)


def main():
    flt = sys.argv[1] if len(sys.argv) > 1 else ""
    RM.mkdir(parents=True, exist_ok=True)
    sh(["rsync", "-a", "--delete", "--exclude", "_build", "--exclude", ".git", f"{REPO}/", f"{RM}/"])
    sh(["rsync", "-a", "--delete", f"{HERE}/lean/", f"{LM}/"])
    gen = [sys.executable, str(HERE / "tools" / "gen_cfuncs.py"), str(RM), str(LM / "Pixman" / "Gen")]
    r = sh(gen)
    b = sh(["lake", "build", "Pixman.Props.Bridges"], cwd=LM)
    if r.returncode or b.returncode:
        raise SystemExit("baseline does not build:\n" + r.stdout + b.stdout[-2000:])
    print("baseline: generator ok, Pixman.Props.Bridges builds")
    survived = 0
    for name, f, func, old, new, occ in M:
        if flt not in name:
            continue
        p = RM / f
        orig = p.read_text()
        p.write_text(apply(orig, func, old, new, occ))
        try:
            r = sh(gen)
            if r.returncode:
                why = (r.stdout + r.stderr).strip().splitlines()[-1][:110]
                print(f"{name:24s} {func or f:32s} GENERATOR-FAILS  {why}")
                continue
            b = sh(["lake", "build", "Pixman.Props.Bridges"], cwd=LM)
            if b.returncode:
                thms = set()
                for m in re.finditer(r"error: (\S+?\.lean):(\d+):\d+", b.stdout):
                    lines = (LM / m.group(1)).read_text().splitlines()[:int(m.group(2))]
                    for l in reversed(lines):
                        mm = re.match(r"\s*(?:theorem|def)\s+(\S+)", l)
                        if mm:
                            thms.add(mm.group(1))
                            break
                print(f"{name:24s} {func or f:32s} BRIDGE-BREAKS     {', '.join(sorted(thms))[:110]}")
            else:
                survived += 1
                print(f"{name:24s} {func or f:32s} SURVIVED")
        finally:
            p.write_text(orig)
    print(f"{survived} mutation(s) survived")
    sys.exit(1 if survived else 0)


if __name__ == "__main__":
    main()
